(* Extraction of the executable model: ExtrOcamlBasic only, N/Z/positive/nat stay inductive. *)
From Gots Require Import Base.Prelude Exec.ExecBase Exec.All.
Require Extraction. Require Import ExtrOcamlBasic.
Extraction "model.ml" All.all_ops.
