(* A decidable recogniser for `repr`: reads a candidate logical field off the bytes and then CHECKS it by
   re-serialising (so it needs no correctness proof of its own to be sound: Proofs/AFParseSound.v).  Used by the
   executor op af.wf, with which the driver classifies corpus / replay lines as inside or outside C03's hypotheses. *)
From Gots Require Import Base.Prelude Model.AF Spec.AFSpec.

Definition take_opt6 (present : bool) (r : bytes) : option bytes * bytes :=
  if present then (Some (takeN 6 r), dropN 6 r) else (None, r).
Definition take_opt1 (present : bool) (r : bytes) : option N * bytes :=
  if present then match r with x :: t => (Some x, t) | [] => (Some 0, []) end else (None, r).
Definition take_optv (present : bool) (r : bytes) : option bytes * bytes :=
  if present then match r with n :: t => (Some (takeN n t), dropN n t) | [] => (Some [], []) end else (None, r).

Definition guess_laf (p : bytes) : option (bytes * laf * bytes) :=
  match p with
  | h0 :: h1 :: h2 :: h3 :: L :: fl :: r0 =>
    let '(pcr, r1) := take_opt6 (bit fl 16) r0 in
    let '(opcr, r2) := take_opt6 (bit fl 8) r1 in
    let '(sp, r3) := take_opt1 (bit fl 4) r2 in
    let '(tpd, r4) := take_optv (bit fl 2) r3 in
    let '(ext, _) := take_optv (bit fl 1) r4 in
    Some ([h0; h1; h2; h3], mkLaf L (bit fl 128) (bit fl 64) (bit fl 32) pcr opcr sp tpd ext, dropN (5 + L) p)
  | _ => None
  end.

Fixpoint bytes_eqb (a b : bytes) : bool :=
  match a, b with
  | [], [] => true
  | x :: a', y :: b' => (x =? y) && bytes_eqb a' b'
  | _, _ => false
  end.
Definition opt6b (o : option bytes) : bool :=
  match o with Some b => Nat.eqb (length b) 6 && is_bytesb b | None => true end.
Definition optbb (o : option bytes) : bool := match o with Some b => is_bytesb b | None => true end.
Definition wf_lafb (l : laf) : bool :=
  (1 <=? l_len l) && (l_len l <=? 183) && opt6b (l_pcr l) && opt6b (l_opcr l) &&
  (match l_splice l with Some x => x <? 256 | None => true end) && optbb (l_tpd l) && optbb (l_ext l).

Definition reprb (p : bytes) : option (bytes * laf * bytes) :=
  match guess_laf p with
  | Some (hdr, l, pay) =>
    if bytes_eqb p (hdr ++ ser_laf l ++ pay) && bit (nthN hdr 3) 32 && Nat.eqb (length p) 188 && wf_lafb l && fitsb l
    then Some (hdr, l, pay) else None
  | None => None
  end.

Definition op_okb (o : AF.op) : bool :=
  match o with
  | AF.OSetPCR v | AF.OSetOPCR v => v <? PcrMax
  | AF.OSetSplice v => v <? 256
  | AF.OSetTPD d | AF.OSetExt d => is_bytesb d
  | AF.OSetAF src => match reprb src with Some _ => true | None => false end
  | _ => true
  end.
(* is `af.hist p ops` inside the hypotheses of C03_history ? *)
Definition in_domain (p : bytes) (ops : list AF.op) : bool :=
  match reprb p with Some _ => forallb op_okb ops | None => false end.
