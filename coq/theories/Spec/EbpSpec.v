(* Specification side of C12: logical encoder boundary points and their wire format, written
   independently of the gots code.

   Comcast EBP (private data tag 0xA9) and CableLabs EBP (OC-SP-EBP-I01, tag 0xDF, format identifier
   "EBP0"):  tag, length (= number of bytes that follow the length byte), [format identifier],
   flags byte, then, each present iff its flag is set and in this order: extension byte, SAP byte,
   grouping id(s), 64-bit NTP style time (32-bit seconds, 32-bit fraction), [partition byte, present
   iff the extension byte has bit 7], and finally reserved bytes up to the declared length.

   A field guarded by a flag is an `option`: the flag bit on the wire is `is-Some`. *)
From Gots Require Import Base.Prelude.
Module EbpSpec.

Definition opt_byte (o : option N) : bytes := match o with Some x => [x] | None => [] end.
Definition is_some {A} (o : option A) : bool := match o with Some _ => true | None => false end.
Definition opt_time (o : option (N * N)) : bytes :=
  match o with Some (s, f) => to_be32 s ++ to_be32 f | None => [] end.

(* flags byte: fragment 0x80, segment 0x40, SAP 0x20, grouping 0x10, time 0x08,
   discontinuity (Comcast) / concealment (CableLabs) 0x04, reserved 0x02, extension 0x01 *)
Definition flags_byte (frag seg sap grp tim disc rsv ext : bool) : N :=
  128 * b2n frag + 64 * b2n seg + 32 * b2n sap + 16 * b2n grp + 8 * b2n tim + 4 * b2n disc + 2 * b2n rsv + b2n ext.

Record comcast : Type := mkC {
  c_fragment : bool; c_segment : bool; c_discontinuity : bool; c_rsvbit : bool;
  c_ext : option N;            (* extension flags byte *)
  c_sap : option N;            (* SAP type byte *)
  c_group : option N;          (* one grouping id byte *)
  c_time : option (N * N);     (* NTP seconds, fraction *)
  c_tail : bytes }.            (* reserved bytes *)

Definition c_flags (c : comcast) : N :=
  flags_byte (c_fragment c) (c_segment c) (is_some (c_sap c)) (is_some (c_group c)) (is_some (c_time c))
             (c_discontinuity c) (c_rsvbit c) (is_some (c_ext c)).
Definition ser_comcast_body (c : comcast) : bytes :=
  [c_flags c] ++ opt_byte (c_ext c) ++ opt_byte (c_sap c) ++ opt_byte (c_group c) ++ opt_time (c_time c) ++ c_tail c.
Definition ser_comcast (c : comcast) : bytes :=
  169 :: len (ser_comcast_body c) :: ser_comcast_body c.

Definition byte_opt (o : option N) : Prop := match o with Some x => x < 256 | None => True end.
Definition time_opt (o : option (N * N)) : Prop :=
  match o with Some (s, f) => s < 4294967296 /\ f < 4294967296 | None => True end.
Definition wf_comcast (c : comcast) : Prop :=
  byte_opt (c_ext c) /\ byte_opt (c_sap c) /\ byte_opt (c_group c) /\ time_opt (c_time c) /\
  is_bytes (c_tail c) /\ len (ser_comcast_body c) <= 253.

(* CableLabs: the extension byte is 7 low bits + the partition flag (bit 7); the partition byte exists
   iff that flag is set, so the pair is `option (low7 * option partition_byte)`.
   Grouping: a non-empty chain of 7-bit ids, bit 7 of every id byte but the last is the "more" flag. *)
Record cablelabs : Type := mkL {
  l_fragment : bool; l_segment : bool; l_concealment : bool; l_rsvbit : bool;
  l_format : N;                            (* 32-bit format identifier *)
  l_ext : option (N * option N);
  l_sap : option N;
  l_groups : option (N * list N);          (* first id, further ids *)
  l_time : option (N * N);
  l_tail : bytes }.

Definition ext_byte (x : N * option N) : N := fst x + 128 * b2n (is_some (snd x)).
Definition ser_ext (o : option (N * option N)) : bytes := match o with Some x => [ext_byte x] | None => [] end.
Definition ser_part (o : option (N * option N)) : bytes :=
  match o with Some (_, Some p) => [p] | _ => [] end.
Fixpoint ser_chain (x : N) (r : list N) : bytes :=
  match r with [] => [x] | y :: r' => (x + 128) :: ser_chain y r' end.
Definition ser_groups (o : option (N * list N)) : bytes :=
  match o with Some (x, r) => ser_chain x r | None => [] end.
Definition l_flags (c : cablelabs) : N :=
  flags_byte (l_fragment c) (l_segment c) (is_some (l_sap c)) (is_some (l_groups c)) (is_some (l_time c))
             (l_concealment c) (l_rsvbit c) (is_some (l_ext c)).
Definition ser_cablelabs_body (c : cablelabs) : bytes :=
  to_be32 (l_format c) ++ [l_flags c] ++ ser_ext (l_ext c) ++ opt_byte (l_sap c) ++ ser_groups (l_groups c)
  ++ opt_time (l_time c) ++ ser_part (l_ext c) ++ l_tail c.
Definition ser_cablelabs (c : cablelabs) : bytes :=
  223 :: len (ser_cablelabs_body c) :: ser_cablelabs_body c.

Definition ext_ok (o : option (N * option N)) : Prop :=
  match o with Some (lo, p) => lo < 128 /\ byte_opt p | None => True end.
Definition groups_ok (o : option (N * list N)) : Prop :=
  match o with Some (x, r) => x < 128 /\ Forall (fun y => y < 128) r | None => True end.
Definition wf_cablelabs (c : cablelabs) : Prop :=
  l_format c < 4294967296 /\ ext_ok (l_ext c) /\ byte_opt (l_sap c) /\ groups_ok (l_groups c) /\
  time_opt (l_time c) /\ is_bytes (l_tail c) /\ len (ser_cablelabs_body c) <= 253.

(* stream-sync signal: the first grouping id equal to 0x1C / 0x1D, else 0xFF *)
Fixpoint sync_of (g : list N) : N :=
  match g with [] => 255 | x :: r => if (x =? 28) || (x =? 29) then x else sync_of r end.

(* NTP style time to nanoseconds since 1900-01-01T00:00:00Z: seconds with bit 31 set belong to era 0
   (1968..2036), seconds with bit 31 clear to era 1 (2036..2104); the fraction is f / 2^32 s, truncated to ns *)
Definition ntp_ns (s f : N) : Z :=
  ((if (2147483648 <=? s)%N then 0 else 4294967296 * 1000000000) + Z.of_N s * 1000000000
   + Z.of_N f * 1000000000 / 4294967296)%Z.

(* boolean well-formedness, for the executor op that serialises logical values for the generator *)
Definition byte_optb (o : option N) : bool := match o with Some x => x <? 256 | None => true end.
Definition time_optb (o : option (N * N)) : bool :=
  match o with Some (s, f) => (s <? 4294967296) && (f <? 4294967296) | None => true end.
Definition wf_comcastb (c : comcast) : bool :=
  byte_optb (c_ext c) && byte_optb (c_sap c) && byte_optb (c_group c) && time_optb (c_time c) &&
  is_bytesb (c_tail c) && (len (ser_comcast_body c) <=? 253).
Definition ext_okb (o : option (N * option N)) : bool :=
  match o with Some (lo, p) => (lo <? 128) && byte_optb p | None => true end.
Definition groups_okb (o : option (N * list N)) : bool :=
  match o with Some (x, r) => (x <? 128) && forallb (fun y => y <? 128) r | None => true end.
Definition wf_cablelabsb (c : cablelabs) : bool :=
  (l_format c <? 4294967296) && ext_okb (l_ext c) && byte_optb (l_sap c) && groups_okb (l_groups c) &&
  time_optb (l_time c) && is_bytesb (l_tail c) && (len (ser_cablelabs_body c) <=? 253).
End EbpSpec.
