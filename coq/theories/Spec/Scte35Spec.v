(* SCTE 35 (2019) section 9: the splice_info_section as a logical record and its serialisation,
   written from the standard's syntax tables, independent of the gots code.
   Bit fields are written as arithmetic: a byte made of fields f1 (k1 bits) f2 (k2 bits) ... is
   f1 * 2^(8-k1) + f2 * 2^(8-k1-k2) + ...; reserved bits are 1. *)
From Gots Require Import Base.Prelude.
Module Scte35Spec.

Definition T32 : N := 4294967296.
Definition CUEI : N := 1129661769.   (* 0x43554549 *)

(* 9.4.1 splice_time(): time_specified_flag, then 6 reserved + 33-bit pts_time, or 7 reserved *)
Definition stime := option N.
Definition ser_stime (t : stime) : bytes :=
  match t with
  | Some p => [128 + 126 + p / T32] ++ to_be32 (p mod T32)
  | None => [127]
  end.

(* 9.3.3 splice_insert() *)
Inductive splice_mode :=
| ProgImmediate                         (* program_splice_flag 1, splice_immediate_flag 1 *)
| ProgTimed (t : stime)                 (* program_splice_flag 1, splice_immediate_flag 0 *)
| CompImmediate (tags : list N)         (* program_splice_flag 0, splice_immediate_flag 1 *)
| CompTimed (cs : list (N * stime)).    (* program_splice_flag 0, splice_immediate_flag 0 *)
Record insert_body := mkib {
  ib_out : bool; ib_mode : splice_mode;
  ib_break : option (bool * N);         (* break_duration(): auto_return, 6 reserved, 33-bit duration *)
  ib_unique_program_id : N; ib_avail_num : N; ib_avails_expected : N }.
Inductive command :=
| Null
| TimeSignal (t : stime)
| Insert (event_id : N) (body : option insert_body)   (* None: splice_event_cancel_indicator 1 *)
| OtherCmd (ty : N) (body : bytes).                   (* splice_schedule, bandwidth_reservation, private_command *)

Definition mode_program (m : splice_mode) : bool :=
  match m with ProgImmediate | ProgTimed _ => true | _ => false end.
Definition mode_immediate (m : splice_mode) : bool :=
  match m with ProgImmediate | CompImmediate _ => true | _ => false end.
Definition ser_mode (m : splice_mode) : bytes :=
  match m with
  | ProgImmediate => []
  | ProgTimed t => ser_stime t
  | CompImmediate tags => len tags :: tags
  | CompTimed cs => len cs :: flat_map (fun c => fst c :: ser_stime (snd c)) cs
  end.
Definition ser_break (b : option (bool * N)) : bytes :=
  match b with
  | Some (auto, d) => [128 * b2n auto + 126 + d / T32] ++ to_be32 (d mod T32)
  | None => []
  end.
Definition ser_insert_body (b : insert_body) : bytes :=
  [128 * b2n (ib_out b) + 64 * b2n (mode_program (ib_mode b))
   + 32 * b2n (match ib_break b with Some _ => true | None => false end)
   + 16 * b2n (mode_immediate (ib_mode b)) + 15]
  ++ ser_mode (ib_mode b) ++ ser_break (ib_break b)
  ++ to_be16 (ib_unique_program_id b) ++ [ib_avail_num b; ib_avails_expected b].
Definition command_type (c : command) : N :=
  match c with Null => 0 | TimeSignal _ => 6 | Insert _ _ => 5 | OtherCmd ty _ => ty end.
Definition ser_command (c : command) : bytes :=
  match c with
  | Null => []
  | TimeSignal t => ser_stime t
  | Insert eid None => to_be32 eid ++ [255]
  | Insert eid (Some b) => to_be32 eid ++ [127] ++ ser_insert_body b
  | OtherCmd _ body => body
  end.

(* 10.3.3 segmentation_descriptor() *)
Inductive upid :=
| Single (ty : N) (b : bytes)            (* any segmentation_upid_type except MID() *)
| Multi (l : list (N * bytes)).          (* type 0x0D: MID(), a list of (type, length, upid) *)
Record seg_body := mksb {
  sb_comps : option (list (N * N));      (* None: program_segmentation_flag 1; else (component_tag, 33-bit pts_offset) *)
  sb_duration : option N;                (* 40-bit segmentation_duration *)
  sb_restr : option (bool * bool * bool * N);  (* None: delivery_not_restricted_flag 1; else web, no_regional_blackout, archive, device_restrictions *)
  sb_upid : upid;
  sb_type : N; sb_num : N; sb_expected : N;
  sb_sub : option (N * N) }.             (* sub_segment_num, sub_segments_expected *)
Inductive descriptor :=
| Seg (event_id : N) (body : option seg_body)     (* None: segmentation_event_cancel_indicator 1 *)
| Foreign (tag : N) (body : bytes).               (* any other splice_descriptor, identifier included in body *)

Definition ser_upid_elem (e : N * bytes) : bytes := fst e :: len (snd e) :: snd e.
Definition ser_upid (u : upid) : bytes :=
  match u with
  | Single ty b => ty :: len b :: b
  | Multi l => 13 :: len (flat_map ser_upid_elem l) :: flat_map ser_upid_elem l
  end.
Definition ser_seg_comp (c : N * N) : bytes := fst c :: (254 + snd c / T32) :: to_be32 (snd c mod T32).
Definition ser_seg_comps (o : option (list (N * N))) : bytes :=
  match o with None => [] | Some cs => len cs :: flat_map ser_seg_comp cs end.
Definition ser_dur40 (o : option N) : bytes :=
  match o with None => [] | Some d => (d / T32) :: to_be32 (d mod T32) end.
Definition ser_sub (o : option (N * N)) : bytes :=
  match o with None => [] | Some (a, b) => [a; b] end.
Definition restr_bits (r : option (bool * bool * bool * N)) : N :=
  match r with
  | None => 32 + 31
  | Some (w, n, a, d) => 16 * b2n w + 8 * b2n n + 4 * b2n a + d
  end.
Definition ser_seg_body (b : seg_body) : bytes :=
  [128 * b2n (match sb_comps b with None => true | Some _ => false end)
   + 64 * b2n (match sb_duration b with Some _ => true | None => false end)
   + restr_bits (sb_restr b)]
  ++ ser_seg_comps (sb_comps b) ++ ser_dur40 (sb_duration b) ++ ser_upid (sb_upid b)
  ++ [sb_type b; sb_num b; sb_expected b] ++ ser_sub (sb_sub b).
Definition ser_desc_payload (d : descriptor) : bytes :=
  match d with
  | Seg eid None => to_be32 CUEI ++ to_be32 eid ++ [255]
  | Seg eid (Some b) => to_be32 CUEI ++ to_be32 eid ++ [127] ++ ser_seg_body b
  | Foreign _ body => body
  end.
Definition desc_tag (d : descriptor) : N := match d with Seg _ _ => 2 | Foreign t _ => t end.
Definition ser_descriptor (d : descriptor) : bytes :=
  desc_tag d :: len (ser_desc_payload d) :: ser_desc_payload d.
Definition ser_descriptors (ds : list descriptor) : bytes := flat_map ser_descriptor ds.

(* 9.2 splice_info_section(), preceded by the PSI pointer_field and its filler *)
Record splice_info := mksi {
  si_pointer : bytes;                    (* filler skipped by pointer_field = its length *)
  si_table_id : N; si_ssi : bool; si_private : bool; si_sap : N;
  si_protocol : N; si_encrypted : bool; si_enc_alg : N; si_pts_adj : N; si_cw : N; si_tier : N;
  si_legacy_len : bool;                  (* splice_command_length = 0xFFF (allowed for legacy encoders) *)
  si_cmd : command; si_descs : list descriptor;
  si_stuffing : bytes; si_crc : N }.

Definition cmd_len_field (s : splice_info) : N :=
  if si_legacy_len s then 4095 else len (ser_command (si_cmd s)).
(* everything after the 3-byte header and before CRC_32 *)
Definition ser_body (s : splice_info) : bytes :=
  [si_protocol s; 128 * b2n (si_encrypted s) + 2 * si_enc_alg s + si_pts_adj s / T32]
  ++ to_be32 (si_pts_adj s mod T32)
  ++ [si_cw s; si_tier s / 16; (si_tier s mod 16) * 16 + cmd_len_field s / 256; cmd_len_field s mod 256;
      command_type (si_cmd s)]
  ++ ser_command (si_cmd s)
  ++ to_be16 (len (ser_descriptors (si_descs s))) ++ ser_descriptors (si_descs s)
  ++ si_stuffing s.
Definition section_length (s : splice_info) : N := len (ser_body s) + 4.
Definition ser_header (s : splice_info) : bytes :=
  [si_table_id s;
   128 * b2n (si_ssi s) + 64 * b2n (si_private s) + 16 * si_sap s + section_length s / 256;
   section_length s mod 256].
Definition ser_section_nocrc (s : splice_info) : bytes := ser_header s ++ ser_body s.
Definition ser_section (s : splice_info) : bytes := ser_section_nocrc s ++ to_be32 (si_crc s).
Definition ser_splice_info (s : splice_info) : bytes :=
  len (si_pointer s) :: si_pointer s ++ ser_section s.

(* ---- field ranges of the syntax ---- *)
Definition wf_stime (t : stime) : Prop := match t with Some p => p < 8589934592 | None => True end.
Definition wf_mode (m : splice_mode) : Prop :=
  match m with
  | ProgImmediate => True
  | ProgTimed t => wf_stime t
  | CompImmediate tags => is_bytes tags /\ len tags < 256
  | CompTimed cs => Forall (fun c => fst c < 256 /\ wf_stime (snd c)) cs /\ len cs < 256
  end.
Definition wf_insert_body (b : insert_body) : Prop :=
  wf_mode (ib_mode b) /\
  match ib_break b with Some (_, d) => d < 8589934592 | None => True end /\
  ib_unique_program_id b < 65536 /\ ib_avail_num b < 256 /\ ib_avails_expected b < 256.
Definition wf_command (c : command) : Prop :=
  match c with
  | Null => True
  | TimeSignal t => wf_stime t
  | Insert eid None => eid < T32
  | Insert eid (Some b) => eid < T32 /\ wf_insert_body b
  | OtherCmd ty body => ty < 256 /\ is_bytes body
  end.
Definition wf_upid (u : upid) : Prop :=
  match u with
  | Single ty b => ty < 256 /\ ty <> 13 /\ is_bytes b /\ len b < 256
  | Multi l => Forall (fun e => fst e < 256 /\ is_bytes (snd e) /\ len (snd e) < 256) l
               /\ len (flat_map ser_upid_elem l) < 256
  end.
Definition wf_seg_body (b : seg_body) : Prop :=
  match sb_comps b with
  | None => True
  | Some cs => Forall (fun c => fst c < 256 /\ snd c < 8589934592) cs /\ len cs < 256
  end /\
  match sb_duration b with Some d => d < 1099511627776 | None => True end /\
  match sb_restr b with Some (_, _, _, d) => d < 4 | None => True end /\
  wf_upid (sb_upid b) /\ sb_type b < 256 /\ sb_num b < 256 /\ sb_expected b < 256 /\
  match sb_sub b with
  | Some (x, y) => x < 256 /\ y < 256 /\ (sb_type b = 52 \/ sb_type b = 54)
  | None => True
  end.
Definition wf_descriptor (d : descriptor) : Prop :=
  match d with
  | Seg eid None => eid < T32
  | Seg eid (Some b) => eid < T32 /\ wf_seg_body b /\ len (ser_desc_payload d) < 256
  | Foreign tag body => tag < 256 /\ tag <> 2 /\ is_bytes body /\ len body < 256
  end.
Definition wf_splice_info (s : splice_info) : Prop :=
  is_bytes (si_pointer s) /\ len (si_pointer s) < 256 /\
  si_table_id s < 256 /\ si_sap s < 4 /\ si_protocol s < 256 /\ si_enc_alg s < 64 /\
  si_pts_adj s < 8589934592 /\ si_cw s < 256 /\ si_tier s < 4096 /\
  wf_command (si_cmd s) /\ len (ser_command (si_cmd s)) < 4095 /\
  Forall wf_descriptor (si_descs s) /\ len (ser_descriptors (si_descs s)) < 65536 /\
  is_bytes (si_stuffing s) /\ si_crc s < T32 /\ section_length s < 4096.

End Scte35Spec.
