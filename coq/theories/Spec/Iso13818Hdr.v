(* ISO/IEC 13818-1 section 2.4.3.2: the transport packet header as arithmetic on byte values,
   independent of the Go code.

     byte 0   sync_byte (8)
     byte 1   transport_error_indicator (1) payload_unit_start_indicator (1) transport_priority (1) PID[12..8] (5)
     byte 2   PID[7..0]
     byte 3   transport_scrambling_control (2) adaptation_field_control (2) continuity_counter (4)     *)
From Gots Require Import Base.Prelude.
Local Open Scope N_scope.
Module Iso.

Record hdr : Type := mkHdr {
  sync : N; tei : N; pusi : N; tp : N; pid : N; tsc : N; afc : N; cc : N }.

(* the 32 header bits, each belonging to exactly one field *)
Definition hdr_of_bytes (b0 b1 b2 b3 : N) : hdr :=
  mkHdr b0 (b1 / 128) ((b1 / 64) mod 2) ((b1 / 32) mod 2) ((b1 mod 32) * 256 + b2)
        (b3 / 64) ((b3 / 16) mod 4) (b3 mod 16).
Definition hdr_of (p : bytes) : hdr := hdr_of_bytes (nthN p 0) (nthN p 1) (nthN p 2) (nthN p 3).

Definition hdr_ok (h : hdr) : Prop :=
  sync h < 256 /\ tei h < 2 /\ pusi h < 2 /\ tp h < 2 /\ pid h < 8192 /\ tsc h < 4 /\ afc h < 4 /\ cc h < 16.

(* the serialiser: logical header -> 4 bytes *)
Definition ser_hdr (h : hdr) : bytes :=
  [ sync h; tei h * 128 + pusi h * 64 + tp h * 32 + pid h / 256; pid h mod 256;
    tsc h * 64 + afc h * 16 + cc h ].

(* field updates *)
Definition with_tei (h : hdr) (v : N) := mkHdr (sync h) v (pusi h) (tp h) (pid h) (tsc h) (afc h) (cc h).
Definition with_pusi (h : hdr) (v : N) := mkHdr (sync h) (tei h) v (tp h) (pid h) (tsc h) (afc h) (cc h).
Definition with_tp (h : hdr) (v : N) := mkHdr (sync h) (tei h) (pusi h) v (pid h) (tsc h) (afc h) (cc h).
Definition with_pid (h : hdr) (v : N) := mkHdr (sync h) (tei h) (pusi h) (tp h) v (tsc h) (afc h) (cc h).
Definition with_tsc (h : hdr) (v : N) := mkHdr (sync h) (tei h) (pusi h) (tp h) (pid h) v (afc h) (cc h).
Definition with_afc (h : hdr) (v : N) := mkHdr (sync h) (tei h) (pusi h) (tp h) (pid h) (tsc h) v (cc h).
Definition with_cc (h : hdr) (v : N) := mkHdr (sync h) (tei h) (pusi h) (tp h) (pid h) (tsc h) (afc h) v.

(* packet validation as the property states it: which error, in which order *)
Definition check (h : hdr) : option N :=
  if negb (sync h =? 71) then Some E.BadSyncByte else
  if tsc h =? 1 then Some E.InvalidTSCFlag else
  if afc h =? 0 then Some E.InvalidAFCFlag else None.

(* adaptation_field_control: bit 1 (value 2) = adaptation field present, bit 0 (value 1) = payload present *)
Definition has_payload (h : hdr) : bool := afc h mod 2 =? 1.
Definition has_af (h : hdr) : bool := afc h / 2 =? 1.
End Iso.
