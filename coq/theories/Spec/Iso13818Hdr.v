(* ISO/IEC 13818-1 section 2.4.3.2: the transport packet header as arithmetic on byte values,
   independent of the Go code.

     byte 0   sync_byte (8)
     byte 1   transport_error_indicator (1) payload_unit_start_indicator (1) transport_priority (1) PID[12..8] (5)
     byte 2   PID[7..0]
     byte 3   transport_scrambling_control (2) adaptation_field_control (2) continuity_counter (4)     *)
From Gots Require Import Base.Prelude.
Local Open Scope N_scope.
Module Iso.

Record hdr : Type := mkHdr {
  sync : N; tei : N; pusi : N; tp : N; pid : N; tsc : N; afc : N; cc : N }.

(* the 32 header bits, each belonging to exactly one field *)
Definition hdr_of_bytes (b0 b1 b2 b3 : N) : hdr :=
  mkHdr b0 (b1 / 128) ((b1 / 64) mod 2) ((b1 / 32) mod 2) ((b1 mod 32) * 256 + b2)
        (b3 / 64) ((b3 / 16) mod 4) (b3 mod 16).
Definition hdr_of (p : bytes) : hdr := hdr_of_bytes (nthN p 0) (nthN p 1) (nthN p 2) (nthN p 3).

Definition hdr_ok (h : hdr) : Prop :=
  sync h < 256 /\ tei h < 2 /\ pusi h < 2 /\ tp h < 2 /\ pid h < 8192 /\ tsc h < 4 /\ afc h < 4 /\ cc h < 16.

(* the serialiser: logical header -> 4 bytes *)
Definition ser_hdr (h : hdr) : bytes :=
  [ sync h; tei h * 128 + pusi h * 64 + tp h * 32 + pid h / 256; pid h mod 256;
    tsc h * 64 + afc h * 16 + cc h ].

(* field updates *)
Definition with_tei (h : hdr) (v : N) := mkHdr (sync h) v (pusi h) (tp h) (pid h) (tsc h) (afc h) (cc h).
Definition with_pusi (h : hdr) (v : N) := mkHdr (sync h) (tei h) v (tp h) (pid h) (tsc h) (afc h) (cc h).
Definition with_tp (h : hdr) (v : N) := mkHdr (sync h) (tei h) (pusi h) v (pid h) (tsc h) (afc h) (cc h).
Definition with_pid (h : hdr) (v : N) := mkHdr (sync h) (tei h) (pusi h) (tp h) v (tsc h) (afc h) (cc h).
Definition with_tsc (h : hdr) (v : N) := mkHdr (sync h) (tei h) (pusi h) (tp h) (pid h) v (afc h) (cc h).
Definition with_afc (h : hdr) (v : N) := mkHdr (sync h) (tei h) (pusi h) (tp h) (pid h) (tsc h) v (cc h).
Definition with_cc (h : hdr) (v : N) := mkHdr (sync h) (tei h) (pusi h) (tp h) (pid h) (tsc h) (afc h) v.

(* packet validation as the property states it: which error, in which order *)
Definition check (h : hdr) : option N :=
  if negb (sync h =? 71) then Some E.BadSyncByte else
  if tsc h =? 1 then Some E.InvalidTSCFlag else
  if afc h =? 0 then Some E.InvalidAFCFlag else None.

(* adaptation_field_control: bit 1 (value 2) = adaptation field present, bit 0 (value 1) = payload present *)
Definition has_payload (h : hdr) : bool := afc h mod 2 =? 1.
Definition has_af (h : hdr) : bool := afc h / 2 =? 1.

(* ================================================================== the whole packet (2.4.3.2 - 2.4.3.5)

     header (4)
     [ adaptation_field_length (1)  [ flags (1) PCR (6)? OPCR (6)? splice_countdown (1)?
                                      private_data_length (1) + data ?  extension_length (1) + data ?
                                      stuffing ] ]          when adaptation_field_control has bit 2
     payload                                                  when adaptation_field_control has bit 1   *)
Record laf : Type := mkLaf {
  top3 : N;                 (* discontinuity, random_access, elementary_stream_priority as a 3-bit number *)
  pcr : option bytes; opcr : option bytes; splice : option N;
  tpd : option bytes; ext : option bytes }.
Inductive afield : Type :=
| NoAF                                   (* no adaptation field *)
| EmptyAF                                (* adaptation_field_length = 0: the length byte alone *)
| AF (a : laf) (stuffing : bytes).
Record lpkt : Type := mkLpkt { lh : hdr; lf : afield; lpayload : bytes }.

Definition flag {A} (o : option A) (w : N) : N := match o with Some _ => w | None => 0 end.
Definition flags_byte (a : laf) : N :=
  top3 a * 32 + flag (pcr a) 16 + flag (opcr a) 8 + flag (splice a) 4 + flag (tpd a) 2 + flag (ext a) 1.
Definition opt_bytes (o : option bytes) : bytes := match o with Some b => b | None => [] end.
Definition opt_lenprefixed (o : option bytes) : bytes := match o with Some b => len b :: b | None => [] end.
Definition opt_byte (o : option N) : bytes := match o with Some b => [b] | None => [] end.
(* flags and optional fields: the non-stuffing content after the length byte *)
Definition ser_af_body (a : laf) : bytes :=
  flags_byte a :: opt_bytes (pcr a) ++ opt_bytes (opcr a) ++ opt_byte (splice a) ++
  opt_lenprefixed (tpd a) ++ opt_lenprefixed (ext a).
Definition ser_af (f : afield) : bytes :=
  match f with
  | NoAF => []
  | EmptyAF => [0]
  | AF a st => (len (ser_af_body a) + len st) :: ser_af_body a ++ st
  end.
Definition ser_pkt (l : lpkt) : bytes := ser_hdr (lh l) ++ ser_af (lf l) ++ lpayload l.

Definition opt_is_len (o : option bytes) (n : nat) : Prop :=
  match o with Some b => length b = n /\ is_bytes b | None => True end.
Definition laf_ok (a : laf) : Prop :=
  top3 a < 8 /\ opt_is_len (pcr a) 6 /\ opt_is_len (opcr a) 6 /\
  match splice a with Some s => s < 256 | None => True end /\
  is_bytes (opt_bytes (tpd a)) /\ is_bytes (opt_bytes (ext a)).
Definition afield_ok (f : afield) : Prop :=
  match f with AF a st => laf_ok a /\ is_bytes st | _ => True end.
(* well-formed: sync 0x47; control 01 = payload only (184 bytes), 10 = adaptation field only (length 183),
   11 = both with at least one payload byte (length <= 182); everything fits the 188 bytes *)
Definition wf_lpkt (l : lpkt) : Prop :=
  hdr_ok (lh l) /\ sync (lh l) = 71 /\ afield_ok (lf l) /\ is_bytes (lpayload l) /\
  length (ser_pkt l) = 188%nat /\
  match lf l with
  | NoAF => afc (lh l) = 1
  | _ => (afc (lh l) = 2 /\ lpayload l = []) \/ (afc (lh l) = 3 /\ lpayload l <> [])
  end.
(* bytes occupied by the adaptation field without its stuffing (0 when there is none) *)
Definition af_content_len (f : afield) : N :=
  match f with NoAF => 0 | EmptyAF => 1 | AF a _ => 1 + len (ser_af_body a) end.
Definition capacity (l : lpkt) : N := 184 - af_content_len (lf l).
(* boolean version of wf_lpkt, used by the generator through modelexec *)
Definition opt_is_lenb (o : option bytes) (n : N) : bool :=
  match o with Some b => (len b =? n) && is_bytesb b | None => true end.
Definition laf_okb (a : laf) : bool :=
  (top3 a <? 8) && opt_is_lenb (pcr a) 6 && opt_is_lenb (opcr a) 6 &&
  match splice a with Some s => s <? 256 | None => true end &&
  is_bytesb (opt_bytes (tpd a)) && is_bytesb (opt_bytes (ext a)).
Definition hdr_okb (h : hdr) : bool :=
  (sync h <? 256) && (tei h <? 2) && (pusi h <? 2) && (tp h <? 2) && (pid h <? 8192) && (tsc h <? 4) &&
  (afc h <? 4) && (cc h <? 16).
Definition nonempty {A} (l : list A) : bool := match l with [] => false | _ => true end.
Definition wf_lpktb (l : lpkt) : bool :=
  hdr_okb (lh l) && (sync (lh l) =? 71) &&
  match lf l with AF a st => laf_okb a && is_bytesb st | _ => true end &&
  is_bytesb (lpayload l) && (len (ser_pkt l) =? 188) &&
  match lf l with
  | NoAF => afc (lh l) =? 1
  | _ => ((afc (lh l) =? 2) && negb (nonempty (lpayload l))) || ((afc (lh l) =? 3) && nonempty (lpayload l))
  end.

(* what SetPayload has to do, on logical packets: store the first min(n, capacity) bytes; when the
   data is shorter than the capacity the gap becomes adaptation-field stuffing (0xFF), creating the
   field (control 01 -> 11) when there was none; optional fields and flags are kept *)
Definition laf0 : laf := mkLaf 0 None None None None None.
Definition set_payload (l : lpkt) (d : bytes) : lpkt :=
  let cap := capacity l in
  if len d <? cap then
    mkLpkt (with_afc (lh l) 3)
      (match lf l with
       | AF a _ => AF a (repeatN 255 (cap - len d))
       | _ => if len d =? 183 then EmptyAF else AF laf0 (repeatN 255 (182 - len d))
       end) d
  else mkLpkt (lh l) (match lf l with AF a _ => AF a [] | f => f end) (takeN cap d).
End Iso.
