(* C03 specification side: the logical adaptation field, its ISO/IEC 13818-1 (2.4.3.4) serialisation,
   and what each edit operation means on the logical value.  Nothing here looks at the Go code;
   only the *names* of the operations (AF.op, plain data) are shared with the model. *)
From Gots Require Import Base.Prelude Model.AF.
Import AF.

(* optional fields keep their raw bytes: a presence toggle that turns a field on does not define its
   value (the standard does not, the code does not), so the logical value of PCR/OPCR is the 6-byte
   field itself; `pcr_enc` below is the ISO layout of a PCR *value*. *)
Record laf : Type := mkLaf {
  l_len : N;                       (* adaptation_field_length *)
  l_disc : bool; l_rai : bool; l_prio : bool;
  l_pcr : option bytes;            (* 6 bytes *)
  l_opcr : option bytes;           (* 6 bytes *)
  l_splice : option N;             (* splice_countdown, one byte *)
  l_tpd : option bytes;            (* transport_private_data (without its length byte) *)
  l_ext : option bytes             (* adaptation_field_extension body (without its length byte) *)
}.

Definition isSome {A} (o : option A) : bool := match o with Some _ => true | None => false end.
Definition flags (l : laf) : N :=
  128 * b2n (l_disc l) + 64 * b2n (l_rai l) + 32 * b2n (l_prio l) + 16 * b2n (isSome (l_pcr l)) +
  8 * b2n (isSome (l_opcr l)) + 4 * b2n (isSome (l_splice l)) + 2 * b2n (isSome (l_tpd l)) +
  b2n (isSome (l_ext l)).
Definition enc6 (o : option bytes) : bytes := match o with Some b => b | None => [] end.
Definition enc1 (o : option N) : bytes := match o with Some x => [x] | None => [] end.
Definition encv (o : option bytes) : bytes := match o with Some d => len d :: d | None => [] end.
(* the optional fields in standard order *)
Definition body (l : laf) : bytes :=
  enc6 (l_pcr l) ++ enc6 (l_opcr l) ++ enc1 (l_splice l) ++ encv (l_tpd l) ++ encv (l_ext l).
(* bytes used inside the field: the flags byte and the optional fields *)
Definition content_len (l : laf) : N := 1 + len (body l).
Definition fits (l : laf) : Prop := content_len l <= l_len l.
Definition fitsb (l : laf) : bool := content_len l <=? l_len l.
(* adaptation_field_length, flags, optional fields, 0xFF stuffing up to adaptation_field_length *)
Definition ser_laf (l : laf) : bytes :=
  l_len l :: flags l :: body l ++ repeatN 255 (l_len l - content_len l).

Definition opt_bytes (n : nat) (o : option bytes) : Prop :=
  match o with Some b => length b = n /\ is_bytes b | None => True end.
Definition wf_laf (l : laf) : Prop :=
  1 <= l_len l <= 183 /\ opt_bytes 6 (l_pcr l) /\ opt_bytes 6 (l_opcr l) /\
  (match l_splice l with Some x => x < 256 | None => True end) /\
  (match l_tpd l with Some d => is_bytes d | None => True end) /\
  (match l_ext l with Some d => is_bytes d | None => True end).

(* a packet whose adaptation field encodes l: 4 header bytes with the adaptation-field bit set,
   the field, the payload (empty when adaptation_field_length = 183) *)
Definition repr (p : bytes) (l : laf) (hdr pay : bytes) : Prop :=
  p = hdr ++ ser_laf l ++ pay /\ length hdr = 4%nat /\ bit (nthN hdr 3) 32 = true /\
  length p = 188%nat /\ wf_laf l /\ fits l.

(* ISO layout of a PCR value v = base*300 + ext: 33-bit base, 6 reserved bits set, 9-bit extension *)
Definition pcr_enc (v : N) : bytes :=
  let base := v / 300 in let ext := v mod 300 in
  [ (base / 33554432) mod 256; (base / 131072) mod 256; (base / 512) mod 256; (base / 2) mod 256;
    (base mod 2) * 128 + 126 + ext / 256; ext mod 256 ].
Definition pcr_dec (b : bytes) : N :=
  match b with
  | [a; b; c; d; e; f] => (a * 33554432 + b * 131072 + c * 512 + d * 2 + e / 128) * 300 + ((e mod 2) * 256 + f)
  | _ => 0 end.
Definition PcrMax : N := 8589934592 * 300.

Definition set_disc l v := mkLaf (l_len l) v (l_rai l) (l_prio l) (l_pcr l) (l_opcr l) (l_splice l) (l_tpd l) (l_ext l).
Definition set_rai l v := mkLaf (l_len l) (l_disc l) v (l_prio l) (l_pcr l) (l_opcr l) (l_splice l) (l_tpd l) (l_ext l).
Definition set_prio l v := mkLaf (l_len l) (l_disc l) (l_rai l) v (l_pcr l) (l_opcr l) (l_splice l) (l_tpd l) (l_ext l).
Definition set_pcr l v := mkLaf (l_len l) (l_disc l) (l_rai l) (l_prio l) v (l_opcr l) (l_splice l) (l_tpd l) (l_ext l).
Definition set_opcr l v := mkLaf (l_len l) (l_disc l) (l_rai l) (l_prio l) (l_pcr l) v (l_splice l) (l_tpd l) (l_ext l).
Definition set_splice l v := mkLaf (l_len l) (l_disc l) (l_rai l) (l_prio l) (l_pcr l) (l_opcr l) v (l_tpd l) (l_ext l).
Definition set_tpd l v := mkLaf (l_len l) (l_disc l) (l_rai l) (l_prio l) (l_pcr l) (l_opcr l) (l_splice l) v (l_ext l).
Definition set_ext l v := mkLaf (l_len l) (l_disc l) (l_rai l) (l_prio l) (l_pcr l) (l_opcr l) (l_splice l) (l_tpd l) v.
Definition set_len l n := mkLaf n (l_disc l) (l_rai l) (l_prio l) (l_pcr l) (l_opcr l) (l_splice l) (l_tpd l) (l_ext l).

Inductive outcome : Type := Done (l' : laf) | Fail (e : N).
(* grow: the new logical value is accepted iff it still fits *)
Definition grow (l' : laf) : outcome := if fitsb l' then Done l' else Fail E.AdaptationFieldCannotGrow.

(* Meaning of one operation.  `u` is the unspecified content a presence toggle exposes when it turns a
   field on (6 bytes for PCR/OPCR, 1 byte for the splice countdown); private data and extension
   appear empty. *)
Definition spec_step (l : laf) (o : op) (u : bytes) : outcome :=
  match o with
  | OSetDisc v => Done (set_disc l v)
  | OSetRAI v => Done (set_rai l v)
  | OSetPrio v => Done (set_prio l v)
  | OSetHasPCR true => if isSome (l_pcr l) then Done l else grow (set_pcr l (Some u))
  | OSetHasPCR false => Done (set_pcr l None)
  | OSetHasOPCR true => if isSome (l_opcr l) then Done l else grow (set_opcr l (Some u))
  | OSetHasOPCR false => Done (set_opcr l None)
  | OSetHasSplice true => if isSome (l_splice l) then Done l else grow (set_splice l (Some (hd 0 u)))
  | OSetHasSplice false => Done (set_splice l None)
  | OSetHasTPD true => if isSome (l_tpd l) then Done l else grow (set_tpd l (Some []))
  | OSetHasTPD false => Done (set_tpd l None)
  | OSetHasExt true => if isSome (l_ext l) then Done l else grow (set_ext l (Some []))
  | OSetHasExt false => Done (set_ext l None)
  | OSetPCR v => if isSome (l_pcr l) then Done (set_pcr l (Some (pcr_enc v))) else Fail E.NoPCR
  | OSetOPCR v => if isSome (l_opcr l) then Done (set_opcr l (Some (pcr_enc v))) else Fail E.NoOPCR
  | OSetSplice v => if isSome (l_splice l) then Done (set_splice l (Some v)) else Fail E.NoSplicePoint
  | OSetTPD d => if isSome (l_tpd l) then grow (set_tpd l (Some d)) else Fail E.NoPrivateTransportData
  | OSetExt d => if isSome (l_ext l) then grow (set_ext l (Some d)) else Fail E.NoAdaptationFieldExtension
  | OSetAF _ => Fail 0   (* not used: see op_rel *)
  end.
Definition junk_len (o : op) : nat :=
  match o with OSetHasPCR _ | OSetHasOPCR _ => 6 | OSetHasSplice _ => 1 | _ => 0 end.

(* copying a whole adaptation field: the source packet carries some well-formed ls; the target keeps
   its own adaptation_field_length *)
Definition op_rel (l : laf) (o : op) (out : outcome) : Prop :=
  match o with
  | OSetAF src =>
    exists hs ls ps, src = hs ++ ser_laf ls ++ ps /\ length hs = 4%nat /\ wf_laf ls /\ fits ls /\
      out = (if content_len ls <=? l_len l then Done (set_len ls (l_len l)) else Fail E.AdaptationFieldTooLarge)
  | _ => exists u, length u = junk_len o /\ is_bytes u /\ out = spec_step l o u
  end.

(* arguments inside the domain of the property: a PCR value is 33+9 bits, a splice countdown a byte,
   data are bytes, the source of a copy is a 188-byte packet with a well-formed field *)
Definition op_ok (o : op) : Prop :=
  match o with
  | OSetPCR v | OSetOPCR v => v < PcrMax
  | OSetSplice v => v < 256
  | OSetTPD d | OSetExt d => is_bytes d
  | OSetAF src => length src = 188%nat /\
      exists hs ls ps, src = hs ++ ser_laf ls ++ ps /\ length hs = 4%nat /\ wf_laf ls /\ fits ls
  | _ => True
  end.

(* histories: a failing call leaves the logical value as it was *)
Inductive hist_rel : laf -> list op -> laf -> Prop :=
| hist_nil : forall l, hist_rel l [] l
| hist_done : forall l o l1 h l2, op_rel l o (Done l1) -> hist_rel l1 h l2 -> hist_rel l (o :: h) l2
| hist_fail : forall l o e h l2, op_rel l o (Fail e) -> hist_rel l h l2 -> hist_rel l (o :: h) l2.
