(* C17: the abstract payload accumulator of the property, independent of accumulator.go.
   State: nothing started / accumulating the packets since the last unit start / complete.
   The accumulated bytes are not stored: they ARE the concatenated payloads of the packets. *)
From Gots Require Import Base.Prelude.
Module AccSpec.

(* ISO 13818-1 2.4.3.2 header fields of a 188-byte packet *)
Definition has_pusi (pkt : bytes) : bool := (nthN pkt 1 / 64) mod 2 =? 1.      (* payload_unit_start_indicator *)
Definition has_af (pkt : bytes) : bool := (nthN pkt 3 / 32) mod 2 =? 1.        (* adaptation_field_control bit 1 *)
Definition has_payload (pkt : bytes) : bool := (nthN pkt 3 / 16) mod 2 =? 1.   (* adaptation_field_control bit 0 *)
(* the payload follows the 4 header bytes and, when present, the adaptation field
   (1 length byte + adaptation_field_length bytes); None when the packet has no payload or the
   adaptation field claims more than the packet holds *)
Definition payload_of (pkt : bytes) : option bytes :=
  if negb (has_payload pkt) then None else
  let start := if has_af pkt then 5 + nthN pkt 4 else 4 in
  if 188 <? start then None else Some (dropN start pkt).
(* the error reported for a packet without (usable) payload *)
Definition payload_err (pkt : bytes) : N :=
  if has_payload pkt then E.InvalidPacketLength else E.NoPayload.
Definition payload_bytes (pkt : bytes) : bytes :=
  match payload_of pkt with Some b => b | None => [] end.
(* concatenation of the payloads; a packet without payload contributes nothing *)
Definition bytes_of (ps : list bytes) : bytes := concat (map payload_bytes ps).

Inductive astate : Type := ANone | AAcc (ps : list bytes) | ADone (ps : list bytes).

Definition pred : Type := bytes -> (bool * option N).

(* a packet is appended to the current unit *)
Definition a_add (f : pred) (ps : list bytes) (pkt : bytes) : astate * option N :=
  let ps' := ps ++ [pkt] in
  match payload_of pkt with
  | None => (AAcc ps', Some (payload_err pkt))          (* listed, contributes no bytes, reported *)
  | Some _ =>
    match f (bytes_of ps') with
    | (_, Some e) => (AAcc ps', Some e)                 (* the predicate's error is propagated *)
    | (true, None) => (ADone ps', Some E.AccumulatorDone)
    | (false, None) => (AAcc ps', None)
    end
  end.

Definition a_write (f : pred) (s : astate) (pkt : bytes) : astate * option N :=
  match s with
  | ADone _ => (s, Some E.AccumulatorDone)                                  (* refused once complete *)
  | ANone => if has_pusi pkt then a_add f [] pkt
             else (ANone, Some E.NoPayloadUnitStartIndicator)               (* refused before the first unit start *)
  | AAcc ps => if has_pusi pkt then a_add f [] pkt else a_add f ps pkt      (* a unit start discards what came before *)
  end.

Definition a_packets (s : astate) : list bytes :=
  match s with ANone => [] | AAcc ps => ps | ADone ps => ps end.
Definition a_bytes (s : astate) : bytes := bytes_of (a_packets s).

Inductive aop : Type := AWrite (pkt : bytes) | AReset | ABytes | APackets.
Inductive aobs : Type := SWrite (err : option N) | SReset | SBytes (b : bytes) | SPackets (ps : list bytes).

Definition a_step (f : pred) (s : astate) (o : aop) : astate * aobs :=
  match o with
  | AWrite pkt => let (s', e) := a_write f s pkt in (s', SWrite e)
  | AReset => (ANone, SReset)                                               (* like a new accumulator *)
  | ABytes => (s, SBytes (a_bytes s))
  | APackets => (s, SPackets (a_packets s))
  end.

Fixpoint a_run (f : pred) (s : astate) (ops : list aop) : list aobs :=
  match ops with
  | [] => []
  | o :: t => let (s', r) := a_step f s o in r :: a_run f s' t
  end.

(* the abstract state reached by an operation list *)
Fixpoint a_exec (f : pred) (s : astate) (ops : list aop) : astate :=
  match ops with
  | [] => s
  | o :: t => a_exec f (fst (a_step f s o)) t
  end.

(* "the predicate holds on the accumulated bytes": it says done and reports no error *)
Definition holds (f : pred) (b : bytes) : bool :=
  match f b with (true, None) => true | _ => false end.

(* a unit: nothing, or a unit start followed by packets that are not unit starts *)
Definition unit_shape (ps : list bytes) : Prop :=
  match ps with
  | [] => True
  | p :: t => has_pusi p = true /\ Forall (fun q => has_pusi q = false) t
  end.

End AccSpec.
