(* Spec side of C06 / C14: ISO/IEC 13818-1 program map section (table 2-33) written as a serialiser
   from a logical record, the way it is carried (pointer_field, filler, preceding sections, stuffing:
   2.4.4.1-2.4.4.2) and its packetisation (2.4.3.2-2.4.3.3).  Independent of the parser; the only
   things shared with Model/Pmt.v are the result record types desc / es (tag+body, type+pid+descriptors). *)
From Gots Require Import Base.Prelude Model.Pmt.
Import Pmt.

(* ---- logical program map section ---- *)
Record pmt_sec := {
  prog : N;            (* program_number, 16 bits *)
  sversion : N;        (* version_number, 5 bits *)
  scni : bool;         (* current_next_indicator *)
  secno : N; lastno : N;
  pcr_pid : N;         (* 13 bits *)
  pdescs : list desc;  (* program descriptors *)
  sstreams : list es;
  crc : bytes          (* CRC_32 field: any four bytes for decoding (C06); computed for C14 *)
}.

Definition ser_desc (d : desc) : bytes := dtag d :: len (ddata d) :: ddata d.
Definition ser_descs (ds : list desc) : bytes := flat_map ser_desc ds.
Definition ser_es (e : es) : bytes :=
  let il := len (ser_descs (descs e)) in
  [stype e; 224 + epid e / 256; epid e mod 256; 240 + il / 256; il mod 256] ++ ser_descs (descs e).
Definition ser_streams (l : list es) : bytes := flat_map ser_es l.

(* bytes from program_number up to the last elementary stream *)
Definition sec_fixed (s : pmt_sec) : bytes :=
  let pil := len (ser_descs (pdescs s)) in
  [prog s / 256; prog s mod 256; 192 + 2 * sversion s + b2n (scni s); secno s; lastno s;
   224 + pcr_pid s / 256; pcr_pid s mod 256; 240 + pil / 256; pil mod 256].
Definition sec_body (s : pmt_sec) : bytes :=
  sec_fixed s ++ ser_descs (pdescs s) ++ ser_streams (sstreams s).
Definition sec_len (s : pmt_sec) : N := len (sec_body s) + 4.      (* section_length *)
(* table_id 2, section_syntax_indicator 1, '0', reserved 11, section_length (12 bits, top two 00) *)
Definition sec_head (s : pmt_sec) : bytes := [2; 176 + sec_len s / 256; sec_len s mod 256].
Definition ser_sec_nocrc (s : pmt_sec) : bytes := sec_head s ++ sec_body s.
Definition ser_sec (s : pmt_sec) : bytes := ser_sec_nocrc s ++ crc s.

Definition wf_desc (d : desc) : Prop := dtag d < 256 /\ len (ddata d) < 256 /\ is_bytes (ddata d).
Definition wf_es (e : es) : Prop :=
  stype e < 256 /\ epid e < 8192 /\ Forall wf_desc (descs e) /\ len (ser_descs (descs e)) < 1024.
Definition wf_sec (s : pmt_sec) : Prop :=
  prog s < 65536 /\ sversion s < 32 /\ secno s < 256 /\ lastno s < 256 /\ pcr_pid s < 8192 /\
  Forall wf_desc (pdescs s) /\ len (ser_descs (pdescs s)) < 1024 /\
  Forall wf_es (sstreams s) /\ sec_len s <= 1021 /\ len (crc s) = 4 /\ is_bytes (crc s).

(* what decoding has to return *)
Definition sec_result (s : pmt_sec) : pmt :=
  {| pids := map epid (sstreams s); streams := sstreams s; version := sversion s; cni := scni s |}.

(* ---- other complete sections that may precede it in the same payload ---- *)
Record other_sec := { otid : N; ohi : N; obody : bytes }.
Definition ser_other (o : other_sec) : bytes :=
  [otid o; ohi o * 16 + len (obody o) / 256; len (obody o) mod 256] ++ obody o.
Definition wf_other (o : other_sec) : Prop :=
  otid o < 256 /\ otid o <> 2 /\ otid o <> 255 /\ ohi o < 16 /\ len (obody o) <= 1021 /\ is_bytes (obody o).

(* ---- carrier: pointer_field, filler, preceding sections, the section, 0xFF stuffing ---- *)
Record carrier := { pf : N; pre : list other_sec; sec : pmt_sec; stuffing : N }.
Definition ser_pre (l : list other_sec) : bytes := flat_map ser_other l.
Definition ser_unit (c : carrier) : bytes :=        (* the complete payload without stuffing *)
  [pf c] ++ repeatN 255 (pf c) ++ ser_pre (pre c) ++ ser_sec (sec c).
Definition ser_payload (c : carrier) : bytes := ser_unit c ++ repeatN 255 (stuffing c).
Definition wf_carrier (c : carrier) : Prop :=
  pf c <= 182 /\ Forall wf_other (pre c) /\ wf_sec (sec c).

(* ---- packets ---- *)
Record pmisc := { tei : bool; prio : bool; tsc : N; cc : N }.
Definition wf_misc (m : pmisc) : Prop := tsc m < 4 /\ cc m < 16.
(* one transport packet carrying `chunk` as payload, optionally after an adaptation field whose
   content (flags byte and stuffing, or nothing for length 0) is `af` *)
Definition mk_pkt (pid : N) (pusi : bool) (m : pmisc) (af : option bytes) (chunk : bytes) : bytes :=
  [71; b2n (tei m) * 128 + b2n pusi * 64 + b2n (prio m) * 32 + pid / 256; pid mod 256;
   tsc m * 64 + (match af with Some _ => 48 | None => 16 end) + cc m]
  ++ (match af with Some a => len a :: a | None => [] end) ++ chunk.
Definition wf_pkt_parts (pid : N) (m : pmisc) (af : option bytes) (chunk : bytes) : Prop :=
  pid < 8192 /\ wf_misc m /\ is_bytes chunk /\
  match af with Some a => is_bytes a /\ 4 + 1 + len a + len chunk = 188 | None => 4 + len chunk = 188 end.

(* a transport stream as seen by the reader: packets of the PMT PID carrying consecutive chunks,
   interleaved with arbitrary packets of other PIDs *)
Inductive item :=
| Other (p : bytes)                                   (* 188 bytes, PID different from the PMT PID *)
| Mine (m : pmisc) (af : option bytes) (chunk : bytes).
Fixpoint ser_items (pid : N) (first : bool) (l : list item) : list bytes :=
  match l with
  | [] => []
  | Other p :: t => p :: ser_items pid first t
  | Mine m af ch :: t => mk_pkt pid first m af ch :: ser_items pid false t
  end.
Fixpoint chunks (l : list item) : list bytes :=
  match l with
  | [] => []
  | Other _ :: t => chunks t
  | Mine _ _ ch :: t => ch :: chunks t
  end.
Definition packetise (pid : N) (l : list item) : bytes := concat (ser_items pid true l).

(* ---- hypotheses of the reader theorem (C06 L4) ---- *)
(* the prefix of k bytes of the payload ends exactly at the end of one of the preceding sections: there a new
   payload unit would start (ISO 13818-1 2.4.4.2), so such a cut is not a packetisation of one unit *)
Definition inner_end (c : carrier) (k : N) : Prop :=
  exists i, (1 <= i <= length (pre c))%nat /\ k = 1 + pf c + len (ser_pre (firstn i (pre c))).
(* PID field of a transport packet: low 5 bits of byte 1, byte 2 *)
Definition pid_of (p : bytes) : N := (nthN p 1 mod 32) * 256 + nthN p 2.
Definition wf_item (pid : N) (it : item) : Prop :=
  match it with
  | Other p => len p = 188 /\ is_bytes p /\ pid_of p <> pid
  | Mine m af ch => wf_pkt_parts pid m af ch
  end.
(* no packet boundary of the PMT PID falls on an inner section end *)
Definition cuts_ok (c : carrier) (l : list item) : Prop :=
  forall j, let k := len (concat (chunks (firstn j l))) in k < len (ser_unit c) -> ~ inner_end c k.

(* ---- C14: what filtering has to produce ---- *)
Definition keep_streams (want : list N) (ss : list es) : list es :=
  filter (fun e => existsb (N.eqb (epid e)) want) ss.
Definition with_streams_crc (s : pmt_sec) (ss : list es) (c : bytes) : pmt_sec :=
  {| prog := prog s; sversion := sversion s; scni := scni s; secno := secno s; lastno := lastno s;
     pcr_pid := pcr_pid s; pdescs := pdescs s; sstreams := ss; crc := c |}.
(* same program header and program descriptors, the selected streams in their original order with their
   descriptors, section_length recomputed by the serialiser, CRC field = ComputeCRC of the section bytes *)
Definition filtered_sec (s : pmt_sec) (want : list N) : pmt_sec :=
  let ss := keep_streams want (sstreams s) in
  with_streams_crc s ss (crc_model (ser_sec_nocrc (with_streams_crc s ss []))).
(* Error contract of the filter, written from the property text: "no error when every requested PID (ignoring the PAT and
   PMT PIDs) is in the PMT, packets plus an error naming the missing PIDs when only some are, and no packets plus an error
   when none are".  The PAT PID (0) and the PMT's own PID are ignored wherever they occur in the request. *)
(* the requested PIDs that are considered at all, in request order, duplicates kept *)
Definition considered (pmt_pid : N) (want : list N) : list N :=
  filter (fun x => negb (x =? 0) && negb (x =? pmt_pid)) want.
(* the considered PIDs that no elementary stream of the PMT carries: these are named by the error *)
Definition missing_of (have : list N) (pmt_pid : N) (want : list N) : list N :=
  filter (fun x => negb (existsb (N.eqb x) have)) (considered pmt_pid want).
(* "none are": at least one PID is considered and every considered one is missing.  When NO PID is considered (only the
   PAT / PMT PID requested) nothing is missing: packets (of a PMT without the unrequested streams) and no error. *)
Definition none_present (have : list N) (pmt_pid : N) (want : list N) : bool :=
  (0 <? len (missing_of have pmt_pid want)) && (len (missing_of have pmt_pid want) =? len (considered pmt_pid want)).
(* re-packetisation: output packet i = header of input packet i (everything before its payload), the next
   188 - |header| bytes of the data, 0xFF padding; input packets beyond the end of the data are dropped *)
Fixpoint spec_repack (hdrs : list bytes) (data : bytes) : list bytes :=
  match hdrs with
  | [] => []
  | h :: t =>
    match data with
    | [] => []
    | _ => let room := 188 - len h in
           let d := takeN room data in
           (h ++ d ++ repeatN 255 (room - len d)) :: spec_repack t (dropN room data)
    end
  end.
Definition hdr_of (pid : N) (pusi : bool) (m : pmisc) (af : option bytes) : bytes :=
  [71; b2n (tei m) * 128 + b2n pusi * 64 + b2n (prio m) * 32 + pid / 256; pid mod 256;
   tsc m * 64 + (match af with Some _ => 48 | None => 16 end) + cc m]
  ++ (match af with Some a => len a :: a | None => [] end).
Fixpoint hdrs_of (pid : N) (first : bool) (l : list item) : list bytes :=
  match l with
  | [] => []
  | Other p :: t => hdrs_of pid first t
  | Mine m af _ :: t => hdr_of pid first m af :: hdrs_of pid false t
  end.
Definition all_mine (l : list item) : Prop := Forall (fun it => match it with Mine _ _ _ => True | Other _ => False end) l.

(* ---- decidable forms of the hypotheses (run by modelexec on every generated deciding case; proved sound in Proofs/PmtHyp.v) ---- *)
Definition wf_descb (d : desc) : bool := (dtag d <? 256) && (len (ddata d) <? 256) && is_bytesb (ddata d).
Definition wf_esb (e : es) : bool :=
  (stype e <? 256) && (epid e <? 8192) && forallb wf_descb (descs e) && (len (ser_descs (descs e)) <? 1024).
Definition wf_secb (s : pmt_sec) : bool :=
  (prog s <? 65536) && (sversion s <? 32) && (secno s <? 256) && (lastno s <? 256) && (pcr_pid s <? 8192) &&
  forallb wf_descb (pdescs s) && (len (ser_descs (pdescs s)) <? 1024) && forallb wf_esb (sstreams s) &&
  (sec_len s <=? 1021) && (len (crc s) =? 4) && is_bytesb (crc s).
Definition wf_otherb (o : other_sec) : bool :=
  (otid o <? 256) && negb (otid o =? 2) && negb (otid o =? 255) && (ohi o <? 16) && (len (obody o) <=? 1021) && is_bytesb (obody o).
Definition wf_carrierb (c : carrier) : bool := (pf c <=? 182) && forallb wf_otherb (pre c) && wf_secb (sec c).
Definition wf_itemb (pid : N) (it : item) : bool :=
  match it with
  | Other p => (len p =? 188) && is_bytesb p && negb (pid_of p =? pid)
  | Mine m af ch =>
    (pid <? 8192) && (tsc m <? 4) && (cc m <? 16) && is_bytesb ch &&
    match af with Some a => is_bytesb a && (4 + 1 + len a + len ch =? 188) | None => (4 + len ch =? 188) end
  end.
Definition inner_endb (c : carrier) (k : N) : bool :=
  existsb (fun i => k =? 1 + pf c + len (ser_pre (firstn i (pre c)))) (seq 1 (length (pre c))).
Definition cuts_okb (c : carrier) (l : list item) : bool :=
  forallb (fun j => let k := len (concat (chunks (firstn j l))) in negb (k <? len (ser_unit c)) || negb (inner_endb c k))
          (seq 0 (S (length l))).
Fixpoint bytes_eqb (a b : bytes) : bool :=
  match a, b with
  | [], [] => true
  | x :: a', y :: b' => (x =? y) && bytes_eqb a' b'
  | _, _ => false
  end.
Definition all_mineb (l : list item) : bool := forallb (fun it => match it with Mine _ _ _ => true | Other _ => false end) l.
(* all hypotheses of C06_L4_read_pmt / of C14_filter_spec (except want <> []) *)
Definition hyp_readb (c : carrier) (pid : N) (l : list item) : bool :=
  wf_carrierb c && negb (match sstreams (sec c) with [] => true | _ => false end) &&
  forallb (wf_itemb pid) l && bytes_eqb (concat (chunks l)) (ser_payload c) && cuts_okb c l.
Definition hyp_filterb (c : carrier) (pid : N) (l : list item) : bool :=
  wf_carrierb c && (match pre c with [] => true | _ => false end) && all_mineb l &&
  forallb (wf_itemb pid) l && bytes_eqb (concat (chunks l)) (ser_payload c).
(* all hypotheses of C06_L4_read_pmt_after_interrupted: items_a carry only a proper prefix of the unit of ca *)
Definition hyp_interruptedb (ca cb : carrier) (pid : N) (la lb : list item) : bool :=
  wf_carrierb ca && hyp_readb cb pid lb && forallb (wf_itemb pid) la &&
  (len (concat (chunks la)) <? len (ser_unit ca)) &&
  bytes_eqb (concat (chunks la)) (takeN (len (concat (chunks la))) (ser_unit ca)) && cuts_okb ca la.
