(* SPEC for C07: the program association section of ISO/IEC 13818-1 (2.4.4.3) written as arithmetic over
   a logical record, the transport packet that carries it, and what the property says the accessors
   return.  Independent of the Go code. *)
From Gots Require Import Base.Prelude.
Module PatSpec.

(* one 4-byte entry: program_number(16) reserved(3) network_PID / program_map_PID(13) *)
Record entry : Type := mkE { pn : N; pid : N; res : N }.
Definition wf_entry (e : entry) : Prop := pn e < 65536 /\ pid e < 8192 /\ res e < 8.
Definition ser_entry (e : entry) : bytes :=
  [pn e / 256; pn e mod 256; res e * 32 + pid e / 256; pid e mod 256].

(* table_id(8)=0x00 | section_syntax_indicator(1) '0'(1) reserved(2) section_length(12, first two bits 00) |
   transport_stream_id(16) reserved(2) version_number(5) current_next_indicator(1) section_number(8)
   last_section_number(8) | N entries | CRC_32(32).
   `flags` is the upper nibble of the second byte (any value: the decoders ignore it),
   `hdr` the five bytes after section_length, `crc` the last four bytes (not examined by the decoders). *)
Record section : Type := mkS { flags : N; hdr : bytes; entries : list entry; crc : bytes }.
Definition section_length (s : section) : N := 5 + 4 * len (entries s) + 4.
Definition wf_section (s : section) : Prop :=
  flags s < 16 /\ length (hdr s) = 5%nat /\ is_bytes (hdr s) /\ Forall wf_entry (entries s) /\
  length (crc s) = 4%nat /\ is_bytes (crc s) /\ section_length s < 1024.
Definition ser_section (s : section) : bytes :=
  [0; flags s * 16 + section_length s / 256; section_length s mod 256]
  ++ hdr s ++ concat (map ser_entry (entries s)) ++ crc s.
(* payload bytes with pointer_field = 0: the section, then anything (stuffing); the general form is ser_payload_pf below *)
Definition ser_payload (s : section) (rest : bytes) : bytes := 0 :: ser_section s ++ rest.

(* ---- what the accessors must return ---- *)
(* program map: last entry with that program_number wins; program_number 0 (network PID) is not a program *)
Definition last_pid (es : list entry) (p : N) : option N :=
  fold_left (fun acc e => if pn e =? p then Some (pid e) else acc) es None.
Definition map_lookup (es : list entry) (p : N) : option N := if p =? 0 then None else last_pid es p.
(* single-program accessor: exactly one entry and it is a program *)
Definition spts (es : list entry) : option N :=
  match es with
  | [e] => if pn e =? 0 then None else Some (pid e)
  | _ => None
  end.
(* a PID is a PMT PID when it is a value of the program map *)
Definition is_pmt_pid (es : list entry) (x : N) : Prop := exists p, map_lookup es p = Some x.

(* ---- the transport packet carrying a payload ---- *)
(* sync(8)=0x47 | TEI PUSI priority (3 bits: b1hi) PID(13) | scrambling(2) adaptation_field_control(2) cc(4) |
   [adaptation_field_length(8) adaptation field] | payload; the payload flag is set *)
Record pkt_hdr : Type := mkH { b1hi : N; ppid : N; tsc : N; cc : N }.
Definition wf_hdr (h : pkt_hdr) : Prop := b1hi h < 8 /\ ppid h < 8192 /\ tsc h < 4 /\ cc h < 16.
Definition ser_packet (h : pkt_hdr) (af : option bytes) (payload : bytes) : bytes :=
  [71; b1hi h * 32 + ppid h / 256; ppid h mod 256;
   tsc h * 64 + (match af with Some _ => 32 | None => 0 end) + 16 + cc h]
  ++ (match af with Some a => len a :: a | None => [] end) ++ payload.
Definition wf_packet (h : pkt_hdr) (af : option bytes) (payload : bytes) : Prop :=
  wf_hdr h /\ is_bytes payload /\
  match af with
  | Some a => is_bytes a /\ (4 + 1 + length a + length payload = 188)%nat
  | None => (4 + length payload = 188)%nat
  end.

(* ---- payloads whose pointer_field is k: k bytes (the end of a previous section, or stuffing) precede the section ---- *)
Definition ser_payload_pf (k : N) (filler : bytes) (s : section) (rest : bytes) : bytes :=
  k :: filler ++ ser_section s ++ rest.
(* ---- executable oracle (used by `spec.pat` of modelexec): the observations the property determines,
        computed from the logical entry list alone ---- *)
(* insertion into a strictly increasing key list *)
Fixpoint ins_key (k : N) (l : list N) : list N :=
  match l with
  | [] => [k]
  | x :: t => if k <? x then k :: l else if k =? x then l else x :: ins_key k t
  end.
(* the program numbers that occur, in increasing order, without 0 *)
Definition prog_keys (es : list entry) : list N :=
  fold_right (fun e acc => if pn e =? 0 then acc else ins_key (pn e) acc) [] es.
(* the program map as a list sorted by program_number *)
Definition spec_map (es : list entry) : list (N * N) :=
  flat_map (fun k => match map_lookup es k with Some x => [(k, x)] | None => [] end) (prog_keys es).
Definition spec_num (es : list entry) : N := len es.
Definition spec_is_pmt (es : list entry) (x : N) : bool := existsb (fun kv => snd kv =? x) (spec_map es).

End PatSpec.
