(* SPEC for C20, written from the property text and the code lists of the standards
   (ISO/IEC 13818-1 table 2-34 stream_type, ATSC code point registry, SCTE 35, ETSI EN 300 468 /
   EN 303 560 TTML descriptor, Dolby Vision in MPEG-2 TS v1.2), independent of the Go code. *)
From Gots Require Import Base.Prelude.
Module StreamTypesSpec.

(* ---- stream_type code lists (the property text) ---- *)
Definition audio_codes : list N := [0x0F; 0x81; 0x87].            (* AAC-ADTS, AC-3, E-AC-3 *)
Definition video_codes : list N := [0x02; 0x1B; 0x24].            (* MPEG-2, AVC, HEVC *)
Definition scte35_codes : list N := [0x86].
Definition id3_codes : list N := [0x15].
Definition private_codes : list N := [0x06].
(* audio codes whose presentation lags the EBP:
   MPEG-1 audio, MPEG-2 audio, AAC-ADTS, AAC-LATM, AC-3, E-AC-3, DTS-HD *)
Definition lags_codes : list N := [0x03; 0x04; 0x0F; 0x11; 0x81; 0x87; 0x88].

Definition mem (c : N) (l : list N) : bool := existsb (N.eqb c) l.

(* PMT-level query: the stream list of a PMT as (elementary_PID, stream_type); the answer for a pid
   is that of the first stream carrying it, false when the pid is not in the PMT *)
Fixpoint first_with_pid (streams : list (N * N)) (pid : N) : option N :=
  match streams with
  | [] => None
  | (p, st) :: rest => if p =? pid then Some st else first_with_pid rest pid
  end.
Definition pmt_lags (streams : list (N * N)) (pid : N) : bool :=
  match first_with_pid streams pid with Some st => mem st lags_codes | None => false end.

(* ---- descriptor bodies as arithmetic over logical fields ---- *)
Definition TAG_REGISTRATION : N := 0x05.
Definition TAG_ISO639 : N := 0x0A.
Definition TAG_MAX_BITRATE : N := 0x0E.
Definition TAG_EXTENSION : N := 0x7F.
Definition TAG_DOLBY_VISION : N := 0xB0.
Definition EXT_TTML : N := 0x20.

(* maximum_bitrate_descriptor (2.6.26): reserved(2) maximum_bitrate(22), units of 50 bytes/s.
   The property restricts maximum_bitrate to below 2^21 (the range the decoder is written for):
   then the top bit of the 22-bit field is 0 and the first byte is res*64 + rate/2^16. *)
Definition wf_max_bitrate (res rate : N) : Prop := res < 4 /\ rate < 2097152.
Definition ser_max_bitrate (res rate : N) : bytes :=
  [res * 64 + rate / 65536; (rate / 256) mod 256; rate mod 256].
Definition bits_per_second (rate : N) : N := rate * 50 * 8.

(* ISO_639_language_descriptor (2.6.18): N x { ISO_639_language_code(24) audio_type(8) };
   the decoders report the first entry *)
Definition lang3 (l : bytes) : Prop := length l = 3%nat /\ is_bytes l.
Fixpoint ser_iso639 (entries : list (bytes * N)) : bytes :=
  match entries with
  | [] => []
  | (l, a) :: rest => l ++ [a] ++ ser_iso639 rest
  end.
Definition wf_iso639 (entries : list (bytes * N)) : Prop :=
  Forall (fun e => lang3 (fst e) /\ snd e < 256) entries.

(* extension descriptor carrying the DVB TTML_subtitling_descriptor (EN 303 560):
   descriptor_tag_extension(8)=0x20 ISO_639_language_code(24) subtitle_purpose(6) TTS_suitability(2) ... *)
Definition wf_ttml (lang : bytes) (purpose suit : N) (rest : bytes) : Prop :=
  lang3 lang /\ purpose < 64 /\ suit < 4 /\ is_bytes rest.
Definition ser_ttml (lang : bytes) (purpose suit : N) (rest : bytes) : bytes :=
  [EXT_TTML] ++ lang ++ [purpose * 4 + suit] ++ rest.

(* registration_descriptor (2.6.8): format_identifier(32) additional_identification_info *)
Definition DOVI : bytes := [0x44; 0x4F; 0x56; 0x49].
Definition ser_registration (format_identifier rest : bytes) : bytes := format_identifier ++ rest.

(* DOVI_video_stream_descriptor: dv_version_major(8) dv_version_minor(8) dv_profile(7) dv_level(6)
   rpu_present(1) el_present(1) bl_present(1) ...; the property restricts dv_level to below 32 *)
Definition wf_dv (major minor profile level flags : N) : Prop :=
  major < 256 /\ minor < 256 /\ profile < 128 /\ level < 32 /\ flags < 8.
Definition ser_dv (major minor profile level flags : N) (rest : bytes) : bytes :=
  let num := profile * 512 + level * 8 + flags in
  [major; minor; num / 256; num mod 256] ++ rest.

(* decimal rendering, most significant digit first (fuel >= number of digits) *)
Fixpoint digits_rev (fuel : nat) (n : N) : bytes :=
  match fuel with
  | O => []
  | S k => (48 + n mod 10) :: (if n / 10 =? 0 then [] else digits_rev k (n / 10))
  end.
Definition decimal (n : N) : bytes := rev (digits_rev 20 n).
(* "%02d": decimal, left-padded with '0' to at least two characters *)
Definition dec2 (n : N) : bytes :=
  let d := decimal n in if (length d <? 2)%nat then 48 :: d else d.
(* "dvhe.PP.LL" *)
Definition dv_codec (profile level : N) : bytes :=
  [100; 118; 104; 101; 46] ++ dec2 profile ++ [46] ++ dec2 level.

End StreamTypesSpec.
