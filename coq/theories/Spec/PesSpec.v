(* ISO/IEC 13818-1 2.4.3.6/2.4.3.7: the start of a PES packet as a serialiser from a logical record,
   and the payload of a transport packet (2.4.3.2); independent of the code. *)
From Gots Require Import Base.Prelude Spec.TimestampSpec.
Module PesSpec.
Inductive stamps : Type :=
| NoTs                      (* PTS_DTS_flags = '00' *)
| PtsOnly (pts : N)         (* '10' *)
| PtsDts (pts dts : N).     (* '11' *)

Record pes : Type := mk_pes {
  stream_id : N;        (* 8 bits *)
  plen : N;             (* PES_packet_length, 16 bits, any value (0 = unbounded video) *)
  flags6 : N;           (* '10', scrambling(2), priority, data_alignment_indicator, copyright, original_or_copy: any byte *)
  flags7 : N;           (* ESCR, ES_rate, DSM_trick_mode, additional_copy_info, PES_CRC, PES_extension flags: 6 bits *)
  ts : stamps;
  extra : bytes;        (* the other optional fields and stuffing bytes; header_data_length = timestamps + extra *)
  data : bytes }.       (* PES_packet_data_byte ... *)

(* stream ids defined WITHOUT the optional header, as listed by the property: padding_stream,
   private_stream_2, ECM, EMM, DSMCC, H.222.1 type E, program_stream_directory *)
Definition plain_ids : list N := [190; 191; 240; 241; 242; 248; 255].
Definition has_optional_header (id : N) : bool := negb (existsb (N.eqb id) plain_ids).

Definition ts_flags (t : stamps) : N := match t with NoTs => 0 | PtsOnly _ => 2 | PtsDts _ _ => 3 end.
Definition ser_stamps (t : stamps) : bytes :=
  match t with
  | NoTs => []
  | PtsOnly p => TsSpec.ser_ts 2 p                        (* '0010' PTS *)
  | PtsDts p d => TsSpec.ser_ts 3 p ++ TsSpec.ser_ts 1 d  (* '0011' PTS '0001' DTS *)
  end.
Definition header_data_length (p : pes) : N := len (ser_stamps (ts p)) + len (extra p).

Definition ser_pes (p : pes) : bytes :=
  [0; 0; 1; stream_id p; plen p / 256; plen p mod 256] ++
  (if has_optional_header (stream_id p)
   then [flags6 p; ts_flags (ts p) * 64 + flags7 p; header_data_length p] ++ ser_stamps (ts p) ++ extra p ++ data p
   else data p).

Definition wf_stamps (t : stamps) : Prop :=
  match t with NoTs => True | PtsOnly p => p < 8589934592 | PtsDts p d => p < 8589934592 /\ d < 8589934592 end.
Definition wf (p : pes) : Prop :=
  stream_id p < 256 /\ plen p < 65536 /\ flags6 p < 256 /\ flags7 p < 64 /\ wf_stamps (ts p) /\
  is_bytes (extra p) /\ is_bytes (data p) /\ header_data_length p <= 255.

Definition aligned (p : pes) : bool := N.testbit (flags6 p) 2.   (* data_alignment_indicator *)
Definition has_pts (p : pes) : bool := match ts p with NoTs => false | _ => true end.
Definition has_dts (p : pes) : bool := match ts p with PtsDts _ _ => true | _ => false end.
Definition pts_of (p : pes) : N := match ts p with NoTs => 0 | PtsOnly v => v | PtsDts v _ => v end.
Definition dts_of (p : pes) : N := match ts p with PtsDts _ d => d | _ => 0 end.

(* transport packet (188 bytes): payload_unit_start_indicator, and the payload bytes when
   adaptation_field_control has the payload bit: after the 4-byte header and, when the adaptation
   field bit is set, after adaptation_field_length + 1 further bytes *)
Definition pusi (pkt : bytes) : bool := N.testbit (nthN pkt 1) 6.
Definition ts_payload (pkt : bytes) : option bytes :=
  if N.testbit (nthN pkt 3) 4 then
    let start := if N.testbit (nthN pkt 3) 5 then 5 + nthN pkt 4 else 4 in
    if start <=? 188 then Some (dropN start pkt) else None
  else None.
Definition starts_with_start_code (pay : bytes) : Prop :=
  4 <= len pay /\ firstn 3 pay = [0; 0; 1].

(* the same packet as a serialiser (2.4.3.2): four header bytes, the adaptation field (its length byte and
   that many bytes) when adaptation_field_control bit 5 of byte 3 is set, then the payload *)
Definition ser_af (af : option bytes) : bytes := match af with Some a => len a :: a | None => [] end.
Definition ser_tspkt (b0 b1 b2 b3 : N) (af : option bytes) (payload : bytes) : bytes :=
  [b0; b1; b2; b3] ++ ser_af af ++ payload.
Definition wf_tspkt (b3 : N) (af : option bytes) (payload : bytes) : Prop :=
  N.testbit b3 4 = true /\ N.testbit b3 5 = (match af with Some _ => true | None => false end) /\
  length (ser_tspkt 71 0 0 b3 af payload) = 188%nat.
End PesSpec.
