(* A decidable recogniser of well-formed transport packets on BYTES: reads a candidate logical packet off the
   188 bytes (guess_lpkt) and then CHECKS it - the boolean wf_lpktb of Spec/Iso13818Hdr.v holds of it and its
   serialisation is the given byte string - so it needs no correctness proof of the guesser to be sound
   (Proofs/IsoRecogSound.v: wf_pktb p = true -> exists l, wf_lpkt l /\ ser_pkt l = p).  Used by the executor op
   spec.pkt.wf, with which bin/gen/c02.py judges "the packet stays well-formed" on the REAL result of SetPayload. *)
From Gots Require Import Base.Prelude Spec.Iso13818Hdr.
Local Open Scope N_scope.
Module IsoRecog.

Definition take6 (present : bool) (r : bytes) : option bytes * bytes :=
  if present then (Some (takeN 6 r), dropN 6 r) else (None, r).
Definition take1 (present : bool) (r : bytes) : option N * bytes :=
  if present then match r with x :: t => (Some x, t) | [] => (Some 0, []) end else (None, r).
Definition takev (present : bool) (r : bytes) : option bytes * bytes :=
  if present then match r with n :: t => (Some (takeN n t), dropN n t) | [] => (Some [], []) end else (None, r).

(* the adaptation field whose length byte is L > 0, read off `r` = the bytes after the length byte *)
Definition guess_af (L : N) (r : bytes) : Iso.afield * bytes :=
  match r with
  | [] => (Iso.EmptyAF, [])
  | fl :: r0 =>
    let field := takeN (L - 1) r0 in
    let '(pcr, r1) := take6 (bit fl 16) field in
    let '(opcr, r2) := take6 (bit fl 8) r1 in
    let '(sp, r3) := take1 (bit fl 4) r2 in
    let '(tpd, r4) := takev (bit fl 2) r3 in
    let '(ext, st) := takev (bit fl 1) r4 in
    (Iso.AF (Iso.mkLaf (fl / 32) pcr opcr sp tpd ext) st, dropN (L - 1) r0)
  end.

Definition guess_lpkt (p : bytes) : option Iso.lpkt :=
  match p with
  | b0 :: b1 :: b2 :: b3 :: rest =>
    let h := Iso.hdr_of_bytes b0 b1 b2 b3 in
    if Iso.has_af h then
      match rest with
      | [] => None
      | L :: r => if L =? 0 then Some (Iso.mkLpkt h Iso.EmptyAF r)
                  else let '(f, pay) := guess_af L r in Some (Iso.mkLpkt h f pay)
      end
    else Some (Iso.mkLpkt h Iso.NoAF rest)
  | _ => None
  end.

Fixpoint bytes_eqb (a b : bytes) : bool :=
  match a, b with
  | [], [] => true
  | x :: a', y :: b' => (x =? y) && bytes_eqb a' b'
  | _, _ => false
  end.

Definition wf_pktb (p : bytes) : bool :=
  match guess_lpkt p with
  | Some l => Iso.wf_lpktb l && bytes_eqb (Iso.ser_pkt l) p
  | None => false
  end.

End IsoRecog.
