(* SPEC for C10: a decidable trace checker for the SCTE-35 state tracker, written from the property
   text, independent of state.go.  It reads a history (calls by index into a pool of descriptors whose
   `id` is their pool index) and what was OBSERVED at each call (closed ids, error number, ids of
   Open() after the call, or a panic) and keeps ghost sets:

     processed  ids handed to ProcessDescriptor so far
     gone       ids reported closed, or discarded by a program resumption
     order      ids in the order they were opened (appended when an id enters the open list)
     vis        Open() after the previous call
     hidden     the pending program breakaway: it is open (it can be closed, and a resumption
                discards it) but Open() does not show it
     prev       the previous call, when it was ProcessDescriptor: (pool index, error)

   A call REJECTS its descriptor when it returns one of the errors that the library raises before it
   touches the open list: no PTS (29), duplicate (31), VSS signal id missing (37).  Every other outcome
   (nil, invalid-descriptor 32, missing-out 33) has processed the descriptor.

   Verdict: None = every clause holds, Some (k, code) = call number k (from 0) violates clause `code`:
      1 a call (or Open after it) panicked
      2 a closed descriptor was not open immediately before the call
      3 a closed descriptor is returned twice / was already gone
      4 a closed descriptor is not closable by the incoming one (ProcessDescriptor: closing rules of
        Spec/SegRules.v; Close: not equal to it)
      5 closed list not ordered last-opened first
      6 open list contains a descriptor that was never processed
      7 open list contains a descriptor that is gone (reported closed or discarded earlier)
      8 open list contains the same descriptor twice
      9 open list not in opening order
     10 a descriptor left the open list without being reported (and the call is not a resumption)
     11 a descriptor entered the open list that is not the one being processed
     12 a rejecting call returned closed descriptors or changed the open list
     13 a descriptor without PTS was not rejected with error 29
     14 the same descriptor (with PTS) processed twice in a row was not rejected the second time as a
        duplicate (31; or 37 again when the first attempt already failed with 37).  "In a row" = two
        ProcessDescriptor calls with no state-changing call between them: an Open() in between does not
        break the row (it only observes), a Close() does (it is a call that edits the open list, so the
        text's "twice in a row" no longer applies; the library would in fact still reject, see
        C10_dup_twice_in_row_partial, whose conclusion only depends on the ring, which Close leaves alone)
     15 malformed Close result (error and closed list inconsistent, or error other than not-found)
     16 an Open() call returned something else than the Open() after the previous call
     17 malformed input (index outside the pool, observation list shorter than the script) *)
From Gots Require Import Base.Prelude Model.SegDesc Spec.SegRules.

Module Trackers.
Import SegDesc SegRules.

Inductive tcall : Type := TProcess (i : nat) | TClose (i : nat) | TOpen.
Record tobs : Type := mkTobs { t_closed : list N; t_err : N; t_open : option (list N) }.

Record ghost : Type := mkGhost {
  g_processed : list N; g_gone : list N; g_order : list N;
  g_vis : list N; g_hidden : option N; g_prev : option (nat * N) }.
Definition ghost0 : ghost := mkGhost [] [] [] [] None None.

Definition mem (x : N) (l : list N) : bool := existsb (N.eqb x) l.
Definition subset (l m : list N) : bool := forallb (fun x => mem x m) l.
Definition disjoint (l m : list N) : bool := forallb (fun x => negb (mem x m)) l.
Fixpoint nodup_b (l : list N) : bool :=
  match l with [] => true | x :: t => negb (mem x t) && nodup_b t end.
Definition minus (l m : list N) : list N := filter (fun x => negb (mem x m)) l.
Definition cur (vis : list N) (hidden : option N) : list N :=
  match hidden with Some h => h :: vis | None => vis end.
(* l occurs in m in the same relative order *)
Fixpoint subseq_b (l m : list N) : bool :=
  match m with
  | [] => match l with [] => true | _ => false end
  | y :: m' => match l with [] => true | x :: l' => if x =? y then subseq_b l' m' else subseq_b l m' end
  end.
Definition list_eqb (l m : list N) : bool := (length l =? length m)%nat && forallb (fun p => fst p =? snd p) (combine l m).

Definition by_id (pool : list desc) (x : N) : option desc := nth_error pool (N.to_nat x).

(* the closing rules and descriptor equality, from the reference side *)
Definition spec_closes (d c : desc) : bool :=
  closes (ty d) (ty c) (event d =? event c) (ptsv d =? ptsv c) (segnum d =? segexp d).
Definition spec_equal (d c : desc) : bool :=
  (ty d =? ty c) && haspts d && haspts c && (ptsv d =? ptsv c) && (event d =? event c) &&
  (segnum d =? segnum c) && (segexp d =? segexp c) && Bool.eqb (hassub d) (hassub c) &&
  (if hassub d then (subnum d =? subnum c) && (subexp d =? subexp c) else true).

Definition rejecting (e : N) : bool := (e =? 29) || (e =? 31) || (e =? 37).
Definition first_some (l : list (option N)) : option N :=
  fold_right (fun o acc => match o with Some c => Some c | None => acc end) None l.
Definition req (b : bool) (code : N) : option N := if b then None else Some code.

Definition is_nil_b (l : list N) : bool := match l with [] => true | _ => false end.

(* the clauses about the open list that every call must satisfy; cur0 / cur1 = open (with the hidden
   breakaway) before / after; may_enter = the id allowed to enter; resumption = leaving unreported allowed *)
Definition open_clauses (g : ghost) (processed1 order1 : list N) (vis1 : list N) (hidden1 : option N)
    (closed : list N) (may_enter : option N) (resumption : bool) : option N :=
  let cur0 := cur (g_vis g) (g_hidden g) in
  let cur1 := cur vis1 hidden1 in
  first_some [
    req (nodup_b cur1) 8;
    req (subset cur1 processed1) 6;
    req (disjoint cur1 (g_gone g)) 7;
    req (disjoint cur1 closed) 7;
    req (subset (minus cur1 cur0) (match may_enter with Some x => [x] | None => [] end)) 11;
    req (resumption || is_nil_b (minus (minus cur0 cur1) closed)) 10;
    req (subseq_b vis1 order1) 9 ].

(* one call: violated clause (if any) and the ghost state after it *)
Definition check_call (pool : list desc) (g : ghost) (c : tcall) (o : tobs) : option N * ghost :=
  match t_open o with
  | None => (Some 1, g)
  | Some vis1 =>
    let cur0 := cur (g_vis g) (g_hidden g) in
    match c with
    | TOpen =>
      (first_some [ req (is_nil_b (t_closed o) && (t_err o =? 0)) 16; req (list_eqb vis1 (g_vis g)) 16 ],
       mkGhost (g_processed g) (g_gone g) (g_order g) (g_vis g) (g_hidden g) (g_prev g))
    | TProcess i =>
      match nth_error pool i with
      | None => (Some 17, g)
      | Some d =>
        let processed1 := id d :: g_processed g in
        if rejecting (t_err o) then
          (first_some [
             req (haspts d || (t_err o =? 29)) 13;
             req (negb (haspts d) || negb (t_err o =? 29)) 13;
             match g_prev g with
             | Some (j, e) => req (negb (j =? i)%nat || negb (haspts d) || (t_err o =? 31) || ((e =? 37) && (t_err o =? 37))) 14
             | None => None
             end;
             req (is_nil_b (t_closed o) && list_eqb vis1 (g_vis g)) 12 ],
           mkGhost processed1 (g_gone g) (g_order g) (g_vis g) (g_hidden g) (Some (i, t_err o)))
        else
          let closed := t_closed o in
          let is_brk := ty d =? 0x13 in
          let is_res := ty d =? 0x14 in
          let hidden1 :=
            if is_brk then Some (id d)
            else if is_res then None
            else match g_hidden g with
                 | Some h => if mem h closed then None else Some h
                 | None => None
                 end in
          let cur1 := cur vis1 hidden1 in
          let entered := mem (id d) (minus cur1 cur0) in
          let order1 := if entered then g_order g ++ [id d] else g_order g in
          let discarded := minus (minus cur0 cur1) closed in
          (first_some [
             req (haspts d) 13;
             match g_prev g with
             | Some (j, e) => req (negb (j =? i)%nat) 14
             | None => None
             end;
             req (subset closed cur0) 2;
             req (nodup_b closed && disjoint closed (g_gone g)) 3;
             req (forallb (fun x => match by_id pool x with Some c => spec_closes d c | None => false end) closed) 4;
             req (subseq_b closed (rev (g_order g))) 5;
             open_clauses g processed1 order1 vis1 hidden1 closed (Some (id d)) is_res ],
           mkGhost processed1 (g_gone g ++ closed ++ discarded) order1 vis1 hidden1 (Some (i, t_err o)))
      end
    | TClose i =>
      match nth_error pool i with
      | None => (Some 17, g)
      | Some d =>
        let closed := t_closed o in
        if t_err o =? 0 then
          let hidden1 := match g_hidden g with
                         | Some h => if mem h closed then None else Some h
                         | None => None
                         end in
          (first_some [
             req ((length closed =? 1)%nat) 15;
             req (subset closed cur0) 2;
             req (disjoint closed (g_gone g)) 3;
             req (forallb (fun x => match by_id pool x with Some c => spec_equal d c | None => false end) closed) 4;
             open_clauses g (g_processed g) (g_order g) vis1 hidden1 closed None false ],
           mkGhost (g_processed g) (g_gone g ++ closed) (g_order g) vis1 hidden1 None)
        else
          (first_some [ req (t_err o =? 34) 15; req (is_nil_b closed && list_eqb vis1 (g_vis g)) 12 ],
           mkGhost (g_processed g) (g_gone g) (g_order g) (g_vis g) (g_hidden g) None)
      end
    end
  end.

(* the whole history: first violation as (call number, clause) *)
Fixpoint check_from (pool : list desc) (g : ghost) (k : N) (cs : list tcall) (os : list tobs) : option (N * N) :=
  match cs with
  | [] => None
  | c :: cs' =>
    match os with
    | [] => Some (k, 17)
    | o :: os' =>
      match check_call pool g c o with
      | (Some code, _) => Some (k, code)
      | (None, g') => check_from pool g' (k + 1) cs' os'
      end
    end
  end.

Definition pool_ok (pool : list desc) : bool :=
  list_eqb (map id pool) (map N.of_nat (seq 0 (length pool))).

Definition check (pool : list desc) (cs : list tcall) (os : list tobs) : option (N * N) :=
  if pool_ok pool then check_from pool ghost0 0 cs os else Some (0, 17).

End Trackers.
