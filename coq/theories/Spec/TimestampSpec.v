(* ISO/IEC 13818-1 bit layout of the PCR field (2.4.3.5) and of the PTS/DTS field (2.4.3.7),
   written as arithmetic on the 48-bit resp. 40-bit big-endian field, independent of the code. *)
From Gots Require Import Base.Prelude.
Module TsSpec.
(* program_clock_reference_base (33) | reserved (6) | program_clock_reference_extension (9) *)
Definition pcr_field (base reserved ext : N) : N := base * 32768 + reserved * 512 + ext.
Definition be48 (x : N) : bytes :=
  [ (x / 1099511627776) mod 256; (x / 4294967296) mod 256; (x / 16777216) mod 256;
    (x / 65536) mod 256; (x / 256) mod 256; x mod 256 ].
(* PCR value v = base * 300 + ext with ext < 300; reserved bits all 1 *)
Definition ser_pcr (v : N) : bytes := be48 (pcr_field (v / 300) 63 (v mod 300)).

(* '0010' / '0011' / '0001' (4) | TS[32..30] (3) | marker (1) | TS[29..15] (15) | marker (1) | TS[14..0] (15) | marker (1) *)
Definition ts_field (prefix v m1 m2 m3 : N) : N :=
  prefix * 68719476736 + (v / 1073741824) * 8589934592 + m1 * 4294967296
  + ((v / 32768) mod 32768) * 131072 + m2 * 65536 + (v mod 32768) * 2 + m3.
Definition be40 (x : N) : bytes :=
  [ (x / 4294967296) mod 256; (x / 16777216) mod 256; (x / 65536) mod 256; (x / 256) mod 256; x mod 256 ].
(* marker bits all 1 *)
Definition ser_ts (prefix v : N) : bytes := be40 (ts_field prefix v 1 1 1).

(* the same as byte equations *)
Definition pcr_bytes (v : N) : bytes :=
  let base := v / 300 in let ext := v mod 300 in
  [ (base / 33554432) mod 256; (base / 131072) mod 256; (base / 512) mod 256; (base / 2) mod 256;
    (base mod 2) * 128 + 126 + ext / 256; ext mod 256 ].
Definition ts_bytes (prefix v : N) : bytes :=
  [ prefix * 16 + ((v / 1073741824) mod 8) * 2 + 1; (v / 4194304) mod 256; ((v / 32768) mod 128) * 2 + 1;
    (v / 128) mod 256; (v mod 128) * 2 + 1 ].

(* value carried by arbitrary bytes: only the value bits matter *)
Definition pcr_value (a b c d e f : N) : N :=
  (a * 33554432 + b * 131072 + c * 512 + d * 2 + e / 128) * 300 + (e mod 2) * 256 + f.
Definition ts_value (b0 b1 b2 b3 b4 : N) : N :=
  ((b0 / 2) mod 8) * 1073741824 + b1 * 4194304 + ((b2 / 2) mod 128) * 32768 + b3 * 128 + (b4 / 2) mod 128.

(* overwrite the six reserved bits of a PCR field / the prefix and marker bits of a PTS field *)
Definition set_reserved (r : N) (b : bytes) : bytes :=
  upd b 4 ((nthN b 4 / 128) * 128 + r * 2 + nthN b 4 mod 2).
Definition set_markers (prefix m1 m2 m3 : N) (b : bytes) : bytes :=
  upd (upd (upd b 0 (prefix * 16 + ((nthN b 0 / 2) mod 8) * 2 + m1))
                 2 ((nthN b 2 / 2) * 2 + m2))
                 4 ((nthN b 4 / 2) * 2 + m3).
(* flip bit k of byte i *)
Definition flip_bit (b : bytes) (i k : N) : bytes := upd b i (N.lxor (nthN b i) (2 ^ k)).
End TsSpec.
