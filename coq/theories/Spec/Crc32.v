(* CRC-32/MPEG-2 as the textbook bit-serial shift register (independent of the code):
   width 32, polynomial 0x04C11DB7, initial value 0xFFFFFFFF, message bits MSB first,
   no reflection, no final XOR.  One step per message bit:
     r := (r << 1) mod 2^32, xor-ed with the polynomial when (bit 31 of r) xor (message bit) = 1 *)
From Gots Require Import Base.Prelude.
Module Crc32.
Definition poly : N := 79764919.      (* 0x04C11DB7 *)
Definition init : N := 4294967295.    (* 0xFFFFFFFF *)
Definition step (r : N) (b : bool) : N :=
  let r' := (2 * r) mod 4294967296 in
  if xorb (N.testbit r 31) b then N.lxor r' poly else r'.
(* the eight bits of a byte, most significant first *)
Definition bits_of_byte (x : N) : list bool :=
  [N.testbit x 7; N.testbit x 6; N.testbit x 5; N.testbit x 4;
   N.testbit x 3; N.testbit x 2; N.testbit x 1; N.testbit x 0].
Definition bits_of (bs : bytes) : list bool := flat_map bits_of_byte bs.
Definition register (r : N) (bits : list bool) : N := fold_left step bits r.
Definition crc (bs : bytes) : N := register init (bits_of bs).
(* what a receiver checks: the register is zero after the message followed by its CRC *)
Definition residue_ok (section : bytes) : Prop := crc section = 0.

(* The same checksum in the usual byte-at-a-time, table-driven formulation (a second textbook definition;
   Proofs/CrcTable.v proves it equal to the bit-serial register on every byte string):
   table[i] = the register after clocking eight zero bits from i << 24,
   r := (r << 8 mod 2^32) xor table[(r >> 24) xor byte] *)
Definition table_entry (i : N) : N := register (i * 16777216) [false; false; false; false; false; false; false; false].
Fixpoint nrange (k : N) (n : nat) : list N := match n with O => [] | S m => k :: nrange (k + 1) m end.
Definition table : list N := map table_entry (nrange 0 256).
Definition table_step (r b : N) : N :=
  N.lxor ((r * 256) mod 4294967296) (nth (N.to_nat (N.lxor (r / 16777216) b)) table 0).
Definition crc_tab (bs : bytes) : N := fold_left table_step bs init.

(* single-bit messages: L bytes, all zero except bit j (0 = most significant) of byte i *)
Definition single (L i j : nat) : bytes := repeat 0 i ++ [2 ^ (7 - N.of_nat j)] ++ repeat 0 (L - 1 - i).
(* the CRCs of ALL 8L single-bit messages of L bytes, in the order (byte 0 bit 0), (byte 0 bit 1), ..., computed in
   linear time from the linearity of the register: crc = (L zero bytes clocked from init) xor (zero-steps of the
   polynomial); Proofs/CrcLinear.v proves that entry 8i+j is crc (single L i j) *)
Definition zstep (r : N) : N := step r false.
Fixpoint iterz (n : nat) (x : N) : N := match n with O => x | S k => iterz k (zstep x) end.
Fixpoint singles_aux (n : nat) (cur z : N) (out : list N) : list N :=
  match n with O => out | S m => singles_aux m (zstep cur) z (N.lxor z cur :: out) end.
Definition singles_fast (L : nat) : list N := singles_aux (8 * L) poly (iterz (8 * L) init) [].

(* a transmission error: bit j (0 = most significant) of byte i flipped *)
Definition flip (bs : bytes) (i j : nat) : bytes :=
  firstn i bs ++ [N.lxor (nth i bs 0) (2 ^ (7 - N.of_nat j))] ++ skipn (S i) bs.
End Crc32.
