(* What C16 / C18 say, independent of the code.
   C16: "plausible header" per ISO 13818-1 2.4.3.2 (sync_byte 0x47, adaptation_field_control
   not the reserved 00, PID outside the reserved range 0x0004..0x000F) and "first position".
   C18: the complete 188-byte chunks of a byte string, and its partial tail. *)
From Gots Require Import Base.Prelude.
Module IOSpec.

(* header bytes a b c d: sync_byte(8) | tei pusi prio PID(13) | tsc(2) afc(2) cc(4) *)
Definition hdr_pid (b c : N) : N := (b mod 32) * 256 + c.
Definition hdr_afc (d : N) : N := (d / 16) mod 4.
Definition plausible4 (a b c d : N) : bool :=
  (a =? 71) && negb (hdr_afc d =? 0) && negb ((4 <=? hdr_pid b c) && (hdr_pid b c <=? 15)).
(* the stream l starts with a plausible header (needs all four bytes) *)
Definition plausible_at (l : bytes) : bool :=
  match l with a :: b :: c :: d :: _ => plausible4 a b c d | _ => false end.
(* position i of l holds a plausible header *)
Definition plausible_pos (l : bytes) (i : nat) : bool := plausible_at (skipn i l).
(* i is the least such position *)
Definition first_plausible (l : bytes) (i : nat) : Prop :=
  plausible_pos l i = true /\ forall j, (j < i)%nat -> plausible_pos l j = false.
Definition none_plausible (l : bytes) : Prop := forall j, plausible_pos l j = false.

(* executable form of the same search (used for the decidability lemma, not in the theorems' statements) *)
Fixpoint find_sync (l : bytes) : option nat :=
  match l with
  | [] => None
  | _ :: t => if plausible_at l then Some O else option_map S (find_sync t)
  end.

(* ---- C18: chunking ---- *)
Definition PacketSize : nat := 188.
Fixpoint chunks_fuel (fuel : nat) (l : bytes) : list bytes :=
  match fuel with
  | O => []
  | S f => if (PacketSize <=? length l)%nat then firstn PacketSize l :: chunks_fuel f (skipn PacketSize l) else []
  end.
(* the complete 188-byte chunks of l, in order *)
Definition full_chunks (l : bytes) : list bytes := chunks_fuel (length l) l.
(* what is left after them (shorter than 188) *)
Definition tail (l : bytes) : bytes := skipn (PacketSize * length (full_chunks l)) l.

(* ---- C18: what a read script means, independent of how it is consumed ----
   a script is a list of Read results (chunk, optional error); the reader delivers the chunks in
   order up to and including the first one that carries an error, then fails with that error for
   ever; a script without error ends with io.EOF. *)
Fixpoint script_data (s : list (bytes * option N)) : bytes :=
  match s with
  | [] => []
  | (c, None) :: s' => c ++ script_data s'
  | (c, Some _) :: _ => c
  end.
Fixpoint script_err (s : list (bytes * option N)) : N :=
  match s with
  | [] => E.EOF
  | (_, None) :: s' => script_err s'
  | (_, Some e) :: _ => e
  end.

End IOSpec.
