(* C02 — Header and payload partition the packet; setting a payload reads back exactly.
   Only statements here; proofs in Proofs/PayloadPart.v, Proofs/PayloadSet.v, Proofs/PayloadCreate.v,
   Proofs/PayloadAfc.v (all control-bit transitions) and Proofs/CreateOptions.v (Create with any option list).

   Reading guide.  A well-formed packet is the serialisation [Iso.ser_pkt l] of a logical packet
   l = (header fields, adaptation field, payload) with [Iso.wf_lpkt l] (Spec/Iso13818Hdr.v):
   sync 0x47; control 01 = payload only; 10 = adaptation field only (length 183); 11 = both with
   at least one payload byte; the adaptation field is NoAF | EmptyAF (length byte 0) |
   AF a stuffing with a = flags + optional PCR/OPCR/splice/private data/extension (every subset,
   any contents) and arbitrary stuffing bytes.  [Iso.set_payload l d] is the logical packet
   SetPayload must produce: first min(n, capacity) bytes stored, optional fields and flags kept,
   gap = 0xFF stuffing, control 01 -> 11 when a field has to be created.
   The model is the REPAIRED SetPayload (defect F7) and stuffingEnd (F6); see notes/findings/C02.md. *)
From Gots Require Import Base.Prelude Base.PacketLemmas Model.Packet Model.Create Spec.Iso13818Hdr
  Proofs.HdrBits Proofs.PayloadPart Proofs.PayloadSet Proofs.PayloadCreate Proofs.PayloadAfc
  Spec.Iso13818Recog Proofs.IsoRecogSound
  Model.Pes Proofs.PesCreate Proofs.CreateOptions.
Import Packet.
Local Open Scope N_scope.

(* ---- well-formed packets are 188-byte packets whose logical header is the one serialised ---- *)
Theorem C02_wf_is_pkt : forall l, Iso.wf_lpkt l -> is_pkt (Iso.ser_pkt l) /\ Iso.hdr_of (Iso.ser_pkt l) = Iso.lh l.
Proof. exact wf_is_pkt_hdr. Qed.
Print Assumptions C02_wf_is_pkt.

(* ---- partition: Header = 4 bytes + adaptation field; both payload accessors = the rest;
        adaptation-field-only: error instead of bytes, and the header is the whole packet ---- *)
Theorem C02_partition : forall l, Iso.wf_lpkt l -> let p := Iso.ser_pkt l in
  Header p = Ok (hdr_part l) /\
  (carries_payload l -> Payload_fn p = Ok (Iso.lpayload l) /\ Payload_m p = Ok (Iso.lpayload l)) /\
  (Iso.afc (Iso.lh l) = 2 -> Payload_fn p = Err E.NoPayload /\ Payload_m p = Err E.NoPayload /\ hdr_part l = p).
Proof. exact partition. Qed.
Print Assumptions C02_partition.
Theorem C02_partition_app : forall l, Iso.ser_pkt l = hdr_part l ++ Iso.lpayload l.
Proof. exact ser_pkt_split. Qed.
Print Assumptions C02_partition_app.

(* PESHeader (packet.go): the payload when PUSI is set and it begins with 00 00 01 and is longer than 3 bytes *)
Theorem C02_pes_header : forall l, Iso.wf_lpkt l -> let p := Iso.ser_pkt l in
  (carries_payload l -> PESHeader p =
     if (Iso.pusi (Iso.lh l) =? 1) && pes_start (Iso.lpayload l) then Ok (Iso.lpayload l) else Err E.NoPayload) /\
  (Iso.afc (Iso.lh l) = 2 -> PESHeader p = Err E.NoPayload).
Proof. exact pes_header. Qed.
Print Assumptions C02_pes_header.

(* ---- SetPayload: for EVERY well-formed packet that carries payload and EVERY data slice the
        method returns min(n, capacity) and leaves exactly the serialisation of Iso.set_payload l d:
        first min(n, capacity) bytes stored, header fields kept (control 01 -> 11 only when an
        adaptation field has to be created), every adaptation-field flag and optional field kept,
        the gap filled with 0xFF stuffing ---- *)
Theorem C02_set_payload_ok : forall l d,
  Iso.wf_lpkt l -> carries_payload l ->
  SetPayload_m (Iso.ser_pkt l) d = (Iso.ser_pkt (Iso.set_payload l d), Ok (N.min (len d) (Iso.capacity l))).
Proof. exact set_payload_ok. Qed.
Print Assumptions C02_set_payload_ok.

(* n = 0 is included above: SetPayload(p, nil) returns 0 and turns the whole payload area into stuffing,
   leaving control 11 with adaptation_field_length 183 and an empty payload (read back as empty).  That
   result is NOT well-formed in the ISO sense (length <= 182 is required with control 11), which is why the
   next theorem asks for at least one byte; see notes/findings/C02.md. *)
Theorem C02_set_payload_empty : forall l, Iso.wf_lpkt l -> carries_payload l ->
  SetPayload_m (Iso.ser_pkt l) [] = (Iso.ser_pkt (Iso.set_payload l []), Ok 0) /\
  Iso.lpayload (Iso.set_payload l []) = [] /\ Iso.afc (Iso.lh (Iso.set_payload l [])) = 3.
Proof. exact set_payload_empty. Qed.
Print Assumptions C02_set_payload_empty.

(* "fills any gap with stuffing so the packet STAYS WELL-FORMED".  The property quantifies over payload lengths 0..200;
   the clause as the text reads (no restriction on d): *)
Definition C02_set_payload_result_wf_full : Prop :=
  forall l d, Iso.wf_lpkt l -> carries_payload l -> is_bytes d -> Iso.wf_lpkt (Iso.set_payload l d).
(* What is proved: the clause for every payload of AT LEAST ONE byte (the hypothesis `d <> []` is what is missing from the
   full statement; Iso.set_payload l d is what the code leaves, C02_set_payload_ok).  Also the header is kept (control 01 -> 11 only
   when a field must be created) and the first min(n, capacity) bytes are read back through both accessors. *)
Theorem C02_set_payload_result_wf_partial : forall l d,
  Iso.wf_lpkt l -> carries_payload l -> d <> [] -> is_bytes d -> Iso.wf_lpkt (Iso.set_payload l d).
Proof. exact set_payload_wf. Qed.
Print Assumptions C02_set_payload_result_wf_partial.
(* KNOWN FINDING K2 (known_findings.json, notes/findings/C02.md): for n = 0 the clause is FALSE, on EVERY well-formed packet with
   payload: SetPayload(p, nil) leaves adaptation_field_control 11 with adaptation_field_length 183 and no payload byte
   (C02_set_payload_empty), and a well-formed packet with the payload flag has at least one payload byte
   (C02_wf_payload_flag_nonempty: control 11 needs length <= 182).  No well-formed result can keep the payload flag with zero
   payload bytes, so this is recorded, not repaired (a repair would have to switch the control to 10, i.e. change what
   SetPayload promises).  bin/check C02 judges the REAL result of every deciding pay.set case with the recogniser
   spec.pkt.wf (below) and reports this as a KNOWN-FINDING line. *)
Theorem C02_wf_payload_flag_nonempty : forall l,
  Iso.wf_lpkt l -> Iso.has_payload (Iso.lh l) = true -> Iso.lpayload l <> [].
Proof. exact wf_payload_flag_nonempty. Qed.
Print Assumptions C02_wf_payload_flag_nonempty.
Theorem C02_set_payload_result_wf_refuted : forall l,
  Iso.wf_lpkt l -> carries_payload l -> ~ Iso.wf_lpkt (Iso.set_payload l []).
Proof. exact set_payload_empty_not_wf. Qed.
Print Assumptions C02_set_payload_result_wf_refuted.
Theorem C02_set_payload_result_wf_full_refuted : ~ C02_set_payload_result_wf_full.
Proof. exact set_payload_wf_full_refuted. Qed.
Print Assumptions C02_set_payload_result_wf_full_refuted.
(* the judge of the check: IsoRecog.wf_pktb (Spec/Iso13818Recog.v) reads a candidate logical packet off 188 bytes and accepts when
   the boolean wf_lpktb holds of it and it serialises to exactly these bytes.  Sound: what it accepts is the serialisation of a
   well-formed logical packet.  (Completeness is not proved; the generator asserts that the judge accepts every well-formed packet
   it serialises, about 600 per quick run.) *)
Theorem C02_wf_recogniser_sound : forall p, IsoRecog.wf_pktb p = true -> exists l, Iso.wf_lpkt l /\ Iso.ser_pkt l = p.
Proof. exact wf_pktb_sound. Qed.
Print Assumptions C02_wf_recogniser_sound.
Theorem C02_set_payload_readback : forall l d,
  Iso.wf_lpkt l -> carries_payload l -> d <> [] -> is_bytes d ->
  let p' := Iso.ser_pkt (Iso.set_payload l d) in
  Payload_m p' = Ok (takeN (Iso.capacity l) d) /\ Payload_fn p' = Ok (takeN (Iso.capacity l) d).
Proof. exact set_payload_readback. Qed.
Print Assumptions C02_set_payload_readback.
Theorem C02_set_payload_header : forall l d,
  Iso.lh (Iso.set_payload l d) = (if len d <? Iso.capacity l then Iso.with_afc (Iso.lh l) 3 else Iso.lh l).
Proof. exact set_payload_hdr. Qed.
Print Assumptions C02_set_payload_header.

(* ---- adaptation-field-only packets: refused with ErrNoPayload, packet untouched ---- *)
Theorem C02_set_payload_af_only : forall l d, Iso.wf_lpkt l -> Iso.afc (Iso.lh l) = 2 ->
  SetPayload_m (Iso.ser_pkt l) d = (Iso.ser_pkt l, Err E.NoPayload).
Proof. exact set_payload_af_only. Qed.
Print Assumptions C02_set_payload_af_only.

(* ---- SetAdaptationFieldControl: the adaptation field is created when the control bits gain the field
        (payload-only packet -> 10: field of length 183, flags 0, all stuffing, no payload;
                            -> 11: length 182, flags 0, stuffing, ONE payload byte left, which is 0xFF:
         the old payload is destroyed in both cases), and nothing happens when control is already 11 ---- *)
Theorem C02_set_afc_creates : forall h pay, let l := Iso.mkLpkt h Iso.NoAF pay in Iso.wf_lpkt l ->
  SetAdaptationFieldControl (Iso.ser_pkt l) 2 =
    (Iso.ser_pkt (Iso.mkLpkt (Iso.with_afc h 2) (Iso.AF Iso.laf0 (repeatN 255 182)) []), None) /\
  SetAdaptationFieldControl (Iso.ser_pkt l) 3 =
    (Iso.ser_pkt (Iso.mkLpkt (Iso.with_afc h 3) (Iso.AF Iso.laf0 (repeatN 255 181)) [255]), None).
Proof. exact set_afc_creates. Qed.
Print Assumptions C02_set_afc_creates.
Theorem C02_set_afc3_noop : forall p, is_pkt p -> Iso.afc (Iso.hdr_of p) = 3 -> AFP.Length p <> 183 ->
  SetAdaptationFieldControl p 3 = (p, None).
Proof. exact set_afc3_noop. Qed.
Print Assumptions C02_set_afc3_noop.

(* 10 -> 11 on an adaptation-field-only packet: one stuffing byte is given up and the last byte of the
   packet becomes the payload; without stuffing the call fails with ErrAdaptationFieldTooLarge AFTER having set
   the control bits (the packet is then control 11 with length 183, i.e. an empty payload) *)
Theorem C02_set_afc3_on_af_only : forall h a st, let l := Iso.mkLpkt h (Iso.AF a st) [] in Iso.wf_lpkt l ->
  SetAdaptationFieldControl (Iso.ser_pkt l) 3 =
  if nonempty_b st
  then (Iso.ser_pkt (Iso.mkLpkt (Iso.with_afc h 3) (Iso.AF a (repeatN 255 (len st - 1))) (dropN (len st - 1) st)), None)
  else (Iso.ser_pkt (Iso.mkLpkt (Iso.with_afc h 3) (Iso.AF a []) []), Some E.AdaptationFieldTooLarge).
Proof. exact set_afc3_on_af_only. Qed.
Print Assumptions C02_set_afc3_on_af_only.

(* ---- SetAdaptationFieldControl, the remaining from/to pairs.  A packet is written  ser_hdr h ++ X  (the 4 header
        bytes of the logical header h, then the other 184 bytes); C02_wf_parts: every well-formed packet has that
        form, and the statements below hold for ANY 184 bytes X (also malformed adaptation fields).
        to 00 / 01 (from anything): only the two control bits change, never an error ---- *)
Theorem C02_wf_parts : forall l, Iso.wf_lpkt l ->
  let X := Iso.ser_af (Iso.lf l) ++ Iso.lpayload l in
  Iso.ser_pkt l = Iso.ser_hdr (Iso.lh l) ++ X /\ Iso.hdr_ok (Iso.lh l) /\ is_bytes X /\ len X = 184.
Proof. exact wf_parts. Qed.
Print Assumptions C02_wf_parts.
Theorem C02_set_afc_drops_field : forall h X, Iso.hdr_ok h -> is_bytes X -> len X = 184 -> forall v, v < 2 ->
  SetAdaptationFieldControl (Iso.ser_hdr h ++ X) v = (Iso.ser_hdr (Iso.with_afc h v) ++ X, None).
Proof. exact set_afc_drops_field. Qed.
Print Assumptions C02_set_afc_drops_field.
(* to 10 from 10 or 11: only the control bits change (from 11 the payload bytes stay where they are and are no
   longer payload: the packet is well-formed again only if the field length is set to 183 by the caller) *)
Theorem C02_set_afc2_keeps_field : forall h X, Iso.hdr_ok h -> is_bytes X -> len X = 184 -> Iso.has_af h = true ->
  SetAdaptationFieldControl (Iso.ser_hdr h ++ X) 2 = (Iso.ser_hdr (Iso.with_afc h 2) ++ X, None).
Proof. exact set_afc2_keeps_field. Qed.
Print Assumptions C02_set_afc2_keeps_field.
(* from the reserved value 00 the call behaves exactly as from 01, and from either of them 10 / 11 create the field
   (C02_set_afc_creates for any 184 bytes after the header) *)
Theorem C02_set_afc_from0_as_from1 : forall h X, Iso.hdr_ok h -> is_bytes X -> len X = 184 -> forall v, v < 4 ->
  Iso.afc h = 0 ->
  SetAdaptationFieldControl (Iso.ser_hdr h ++ X) v = SetAdaptationFieldControl (Iso.ser_hdr (Iso.with_afc h 1) ++ X) v.
Proof. exact set_afc_from0_as_from1. Qed.
Print Assumptions C02_set_afc_from0_as_from1.
Theorem C02_set_afc_creates_any : forall h X, Iso.hdr_ok h -> is_bytes X -> len X = 184 ->
  Iso.sync h = 71 -> Iso.has_af h = false ->
  SetAdaptationFieldControl (Iso.ser_hdr h ++ X) 2 =
    (Iso.ser_pkt (Iso.mkLpkt (Iso.with_afc h 2) (Iso.AF Iso.laf0 (repeatN 255 182)) []), None) /\
  SetAdaptationFieldControl (Iso.ser_hdr h ++ X) 3 =
    (Iso.ser_pkt (Iso.mkLpkt (Iso.with_afc h 3) (Iso.AF Iso.laf0 (repeatN 255 181)) [255]), None).
Proof. exact set_afc_creates_any. Qed.
Print Assumptions C02_set_afc_creates_any.
(* which of the 3 x 4 calls on well-formed packets fail: exactly 10 -> 11 on a packet whose adaptation field has
   no stuffing byte to give up (ErrAdaptationFieldTooLarge); every other call returns nil *)
Theorem C02_set_afc_error_iff : forall l v, Iso.wf_lpkt l -> v < 4 ->
  snd (SetAdaptationFieldControl (Iso.ser_pkt l) v) =
  if (Iso.afc (Iso.lh l) =? 2) && (v =? 3) && negb (nonempty_b (stuffing_of l))
  then Some E.AdaptationFieldTooLarge else None.
Proof. exact set_afc_error_iff. Qed.
Print Assumptions C02_set_afc_error_iff.

(* ---- creation helpers ---- *)
(* the first min(n,184) payload bytes are the requested ones (for n < 2 the rest of the payload is
   00 7f 00..: WithContinuousAF writes byte 5 although no adaptation field is flagged, see findings) *)
Theorem C02_create_packet_with_payload : forall v cc pay, v < 8192 -> cc < 16 -> is_bytes pay ->
  let p := Create.CreatePacketWithPayload (Z.of_N v) cc pay in
  is_pkt p /\ Iso.hdr_of p = Iso.mkHdr 71 0 0 0 v 0 1 cc /\
  exists body, Payload_fn p = Ok body /\ takeN (len pay) body = takeN 184 pay.
Proof. exact create_pwp_spec. Qed.
Print Assumptions C02_create_packet_with_payload.
(* CreateTestPacket(pid, cc, pusi, hasPay) as the code behaves (test helper; audit-1 item 19): PUSI is set only when
   hasPay && pusi, so a requested PUSI is DROPPED for hasPay = false; and for hasPay = false no control bit is set at all:
   adaptation_field_control = 00, the reserved value that CheckErrors rejects (WithContinuousAF writes byte 5 but no option
   flags the field).  So "flags ... are the ones requested" holds of this helper only for hasPay = true; the statement below
   says exactly what is produced: pusi := hasPay && pusi, control := (hasPay ? 01 : 00).  Not repaired (documented test helper). *)
Theorem C02_create_test_packet : forall v cc, v < 8192 -> cc < 16 -> forall pusi hasPay,
  let p := Create.CreateTestPacket (Z.of_N v) cc pusi hasPay in
  is_pkt p /\ Iso.hdr_of p = Iso.mkHdr 71 0 (b2n (hasPay && pusi)) 0 v 0 (b2n hasPay) cc.
Proof. exact create_test_spec. Qed.
Print Assumptions C02_create_test_packet.
Theorem C02_create_dc_packet : forall v cc, v < 8192 -> cc < 16 ->
  let p := Create.CreateDCPacket (Z.of_N v) cc in
  is_pkt p /\ Iso.hdr_of p = Iso.mkHdr 71 0 0 0 v 0 1 cc.
Proof. exact create_dc_spec. Qed.
Print Assumptions C02_create_dc_packet.

(* ---- Create(pid, options...) with an ARBITRARY option list (Proofs/CreateOptions.v).
        Options on the model side: the six exported option functions, closures around WithPES(pkt, pts)
        (OptWithPES) and around SetPayload(pkt, pay) (OptSetPayload, as CreatePacketWithPayload builds it).
        byte1_of / byte3_of / byte5_of depend only on WHICH options occur:
          byte 1 = PID high bits | 0x40 if WithPUSI occurs;
          byte 3 = 0x10 if WithHasPayloadFlag or WithPES occurs | 0x20 if WithHasAdaptationFieldFlag occurs;
          byte 5 = 0x02 if WithAFPrivateDataFlag | 0x7f if WithContinuousAF | 0x80 if WithDiscontinuousAF occurs.
        EVERY list, any Go int as pid: 188 bytes, sync 0x47, the 13 low bits of pid, PUSI / control bits as
        requested, error indicator, priority, scrambling control and continuity counter 0 ---- *)
Theorem C02_create_any_header : forall z os,
  length (Create.Create z os) = 188%nat /\
  Iso.hdr_of (Create.Create z os) =
    Iso.mkHdr 71 0 (b2n (existsb is_pusi os)) 0 (Z.to_N (z mod 8192)) 0 (afc_of os) 0.
Proof. exact create_any_header. Qed.
Print Assumptions C02_create_any_header.
(* lists of the six exported options: the whole packet (bytes 4 and 6..187 stay 0; note that byte 5 is written
   whether or not the adaptation-field flag is given: without it, it is the second payload byte) *)
Theorem C02_create_flag_options : forall z os, forallb flag_opt os = true ->
  Create.Create z os = 71 :: byte1_of z os :: pb2 z :: byte3_of os :: 0 :: byte5_of os :: repeatN 0 182 /\
  is_pkt (Create.Create z os).
Proof. intros z os F. exact (conj (create_flags z os F) (create_flags_pkt z os F)). Qed.
Print Assumptions C02_create_flag_options.
(* lists with WithPES, split at the LAST WithPES (pre: flag options and earlier WithPES closures; post: flag
   options): the PES start (pes_pay pts = 00 00 01 b8 00 00 40 80 0e, the five PTS bytes, zeros) lies at offset 4, or
   at offset 5 when the adaptation-field flag was set BEFORE that WithPES; byte 5 is cleared by WithPES and then
   ORed by the byte-5 options that follow it *)
Theorem C02_create_with_pes : forall z pre pts post,
  forallb flag_or_pes pre = true -> forallb flag_opt post = true ->
  let os := pre ++ Create.OptWithPES pts :: post in
  Create.Create z os = 71 :: byte1_of z os :: pb2 z :: byte3_of os :: 0 :: byte5_of post
                          :: pes_body (existsb is_afflag pre) pts /\
  is_pkt (Create.Create z os).
Proof. intros z pre pts post Fp Fq. exact (conj (create_with_pes z pre pts post Fp Fq) (create_with_pes_pkt z pre pts post Fp Fq)). Qed.
Print Assumptions C02_create_with_pes.
(* ... and when nothing disturbs it afterwards (no byte-5 option after the last WithPES; the adaptation-field flag
   set before it or never) the payload IS the PES start, PESHeader returns it exactly when WithPUSI was given, and
   the pes decoder (Model/Pes.v, property C11) reads the requested 33-bit PTS back *)
Theorem C02_create_pes_readback : forall z pre pts post,
  forallb flag_or_pes pre = true -> forallb flag_opt post = true -> pts < 8589934592 ->
  byte5_of post = 0 -> (existsb is_afflag pre = true \/ existsb is_afflag post = false) ->
  let os := pre ++ Create.OptWithPES pts :: post in
  let p := Create.Create z os in
  let pay := if existsb is_afflag pre then firstn 183 (pes_pay pts) else pes_pay pts in
  Payload_fn p = Ok pay /\
  (existsb is_pusi os = true -> PESHeader p = Ok pay) /\
  (existsb is_pusi os = false -> PESHeader p = Err E.NoPayload) /\
  exists h, Pes.new_pes_header pay = Ok h /\
    Pes.packetStartCodePrefix h = 1 /\ Pes.streamId h = 184 /\
    Pes.has_pts h = true /\ Pes.has_dts h = false /\ Pes.pts h = pts.
Proof. exact create_pes_readback. Qed.
Print Assumptions C02_create_pes_readback.
(* the model's WithPES payload is that byte string, for every uint64 argument *)
Theorem C02_pes_payload : forall pts, Create.pes_payload pts = pes_pay pts /\ is_bytes (pes_pay pts) /\ length (pes_pay pts) = 184%nat.
Proof. intros pts. exact (conj (pes_payload_eq pts) (conj (pes_pay_bytes pts) (pes_pay_length pts))). Qed.
Print Assumptions C02_pes_payload.

(* function-style SetPayload(pkt, pay) of create.go: writes over the payload area only, never the header part *)
Theorem C02_set_payload_fn : forall l d, Iso.wf_lpkt l ->
  Create.SetPayload_fn (Iso.ser_pkt l) d =
  (hdr_part l ++ firstn (length (Iso.lpayload l)) d ++ skipn (length d) (Iso.lpayload l),
   N.min (len d) (len (Iso.lpayload l))).
Proof. exact set_payload_fn_spec. Qed.
Print Assumptions C02_set_payload_fn.

(* non-vacuity: a packet with PCR, splice countdown, 2 bytes of private data and 3 stuffing bytes
   is well-formed; SetPayload with 5 bytes on it behaves as stated *)
Definition ex_l : Iso.lpkt :=
  Iso.mkLpkt (Iso.mkHdr 71 0 1 0 256 0 3 7)
    (Iso.AF (Iso.mkLaf 2 (Some [1;2;3;4;5;6]) None (Some 9) (Some [170;187]) None) [1;2;3])
    (repeatN 85 169).
Example C02_nonvacuous :
  Iso.wf_lpktb ex_l = true /\ Iso.capacity ex_l = 172 /\
  SetPayload_m (Iso.ser_pkt ex_l) [1;2;3;4;5] = (Iso.ser_pkt (Iso.set_payload ex_l [1;2;3;4;5]), Ok 5) /\
  Payload_m (Iso.ser_pkt (Iso.set_payload ex_l [1;2;3;4;5])) = Ok [1;2;3;4;5] /\
  firstn 18 (Iso.ser_pkt (Iso.set_payload ex_l [1;2;3;4;5])) = [71;65;0;55; 178; 86; 1;2;3;4;5;6; 9; 2;170;187; 255;255].
Proof. vm_compute. repeat split; reflexivity. Qed.

(* non-vacuity of the option-list theorems: PUSI, the adaptation-field flag, two WithPES (the second one counts),
   a discontinuity flag after it; and a flag-only list with repetitions *)
Example C02_create_nonvacuous :
  let os := [Create.WithPUSI; Create.OptWithPES 5; Create.WithHasAdaptationFieldFlag; Create.WithContinuousAF;
             Create.OptWithPES 8589934591; Create.WithDiscontinuousAF] in
  firstn 20 (Create.Create 0x1234 os) = [71; 0x52; 0x34; 0x30; 0; 0x80; 0; 1; 184; 0; 0; 64; 128; 14; 0x2f; 0xff; 0xff; 0xff; 0xff; 0] /\
  Create.Create (-1) [Create.WithContinuousAF; Create.WithHasPayloadFlag; Create.WithContinuousAF; Create.WithAFPrivateDataFlag]
    = 71 :: 31 :: 255 :: 16 :: 0 :: 127 :: repeatN 0 182 /\
  (let p := Create.Create 256 [Create.WithHasAdaptationFieldFlag; Create.OptWithPES 900000; Create.WithPUSI] in
   exists pay h, PESHeader p = Ok pay /\ Pes.new_pes_header pay = Ok h /\ Pes.pts h = 900000 /\ length pay = 183%nat).
Proof. split; [vm_compute; reflexivity|]. split; [vm_compute; reflexivity|]. cbv zeta.
  destruct (create_pes_readback 256 [Create.WithHasAdaptationFieldFlag] 900000 [Create.WithPUSI] eq_refl eq_refl eq_refl eq_refl
              (or_introl eq_refl)) as (_ & P & _ & h & NH & _ & _ & _ & _ & HP).
  cbv zeta in *. eexists. exists h. split; [exact (P eq_refl)|]. split; [exact NH|]. split; [exact HP | reflexivity]. Qed.
