(* C02 — Header and payload partition the packet; setting a payload reads back exactly.
   Only statements here; proofs in Proofs/PayloadPart.v, Proofs/PayloadSet.v, Proofs/PayloadCreate.v.

   Reading guide.  A well-formed packet is the serialisation [Iso.ser_pkt l] of a logical packet
   l = (header fields, adaptation field, payload) with [Iso.wf_lpkt l] (Spec/Iso13818Hdr.v):
   sync 0x47; control 01 = payload only; 10 = adaptation field only (length 183); 11 = both with
   at least one payload byte; the adaptation field is NoAF | EmptyAF (length byte 0) |
   AF a stuffing with a = flags + optional PCR/OPCR/splice/private data/extension (every subset,
   any contents) and arbitrary stuffing bytes.  [Iso.set_payload l d] is the logical packet
   SetPayload must produce: first min(n, capacity) bytes stored, optional fields and flags kept,
   gap = 0xFF stuffing, control 01 -> 11 when a field has to be created.
   The model is the REPAIRED SetPayload (defect F7) and stuffingEnd (F6); see notes/findings/C02.md. *)
From Gots Require Import Base.Prelude Base.PacketLemmas Model.Packet Model.Create Spec.Iso13818Hdr
  Proofs.HdrBits Proofs.PayloadPart Proofs.PayloadSet Proofs.PayloadCreate.
Import Packet.
Local Open Scope N_scope.

(* ---- well-formed packets are 188-byte packets whose logical header is the one serialised ---- *)
Theorem C02_wf_is_pkt : forall l, Iso.wf_lpkt l -> is_pkt (Iso.ser_pkt l) /\ Iso.hdr_of (Iso.ser_pkt l) = Iso.lh l.
Proof. exact wf_is_pkt_hdr. Qed.
Print Assumptions C02_wf_is_pkt.

(* ---- partition: Header = 4 bytes + adaptation field; both payload accessors = the rest;
        adaptation-field-only: error instead of bytes, and the header is the whole packet ---- *)
Theorem C02_partition : forall l, Iso.wf_lpkt l -> let p := Iso.ser_pkt l in
  Header p = Ok (hdr_part l) /\
  (carries_payload l -> Payload_fn p = Ok (Iso.lpayload l) /\ Payload_m p = Ok (Iso.lpayload l)) /\
  (Iso.afc (Iso.lh l) = 2 -> Payload_fn p = Err E.NoPayload /\ Payload_m p = Err E.NoPayload /\ hdr_part l = p).
Proof. exact partition. Qed.
Print Assumptions C02_partition.
Theorem C02_partition_app : forall l, Iso.ser_pkt l = hdr_part l ++ Iso.lpayload l.
Proof. exact ser_pkt_split. Qed.
Print Assumptions C02_partition_app.

(* PESHeader (packet.go): the payload when PUSI is set and it begins with 00 00 01 and is longer than 3 bytes *)
Theorem C02_pes_header : forall l, Iso.wf_lpkt l -> let p := Iso.ser_pkt l in
  (carries_payload l -> PESHeader p =
     if (Iso.pusi (Iso.lh l) =? 1) && pes_start (Iso.lpayload l) then Ok (Iso.lpayload l) else Err E.NoPayload) /\
  (Iso.afc (Iso.lh l) = 2 -> PESHeader p = Err E.NoPayload).
Proof. exact pes_header. Qed.
Print Assumptions C02_pes_header.

(* ---- SetPayload: for EVERY well-formed packet that carries payload and EVERY data slice the
        method returns min(n, capacity) and leaves exactly the serialisation of Iso.set_payload l d:
        first min(n, capacity) bytes stored, header fields kept (control 01 -> 11 only when an
        adaptation field has to be created), every adaptation-field flag and optional field kept,
        the gap filled with 0xFF stuffing ---- *)
Theorem C02_set_payload_ok : forall l d,
  Iso.wf_lpkt l -> carries_payload l ->
  SetPayload_m (Iso.ser_pkt l) d = (Iso.ser_pkt (Iso.set_payload l d), Ok (N.min (len d) (Iso.capacity l))).
Proof. exact set_payload_ok. Qed.
Print Assumptions C02_set_payload_ok.

(* n = 0 is included above: SetPayload(p, nil) returns 0 and turns the whole payload area into stuffing,
   leaving control 11 with adaptation_field_length 183 and an empty payload (read back as empty).  That
   result is NOT well-formed in the ISO sense (length <= 182 is required with control 11), which is why the
   next theorem asks for at least one byte; see notes/findings/C02.md. *)
Theorem C02_set_payload_empty : forall l, Iso.wf_lpkt l -> carries_payload l ->
  SetPayload_m (Iso.ser_pkt l) [] = (Iso.ser_pkt (Iso.set_payload l []), Ok 0) /\
  Iso.lpayload (Iso.set_payload l []) = [] /\ Iso.afc (Iso.lh (Iso.set_payload l [])) = 3.
Proof. exact set_payload_empty. Qed.
Print Assumptions C02_set_payload_empty.

(* the required result is well-formed, keeps the header (control 01 -> 11 only when a field must be
   created) and reads back exactly the first min(n, capacity) bytes through both accessors *)
Theorem C02_set_payload_result_wf : forall l d,
  Iso.wf_lpkt l -> carries_payload l -> d <> [] -> is_bytes d -> Iso.wf_lpkt (Iso.set_payload l d).
Proof. exact set_payload_wf. Qed.
Print Assumptions C02_set_payload_result_wf.
Theorem C02_set_payload_readback : forall l d,
  Iso.wf_lpkt l -> carries_payload l -> d <> [] -> is_bytes d ->
  let p' := Iso.ser_pkt (Iso.set_payload l d) in
  Payload_m p' = Ok (takeN (Iso.capacity l) d) /\ Payload_fn p' = Ok (takeN (Iso.capacity l) d).
Proof. exact set_payload_readback. Qed.
Print Assumptions C02_set_payload_readback.
Theorem C02_set_payload_header : forall l d,
  Iso.lh (Iso.set_payload l d) = (if len d <? Iso.capacity l then Iso.with_afc (Iso.lh l) 3 else Iso.lh l).
Proof. exact set_payload_hdr. Qed.
Print Assumptions C02_set_payload_header.

(* ---- adaptation-field-only packets: refused with ErrNoPayload, packet untouched ---- *)
Theorem C02_set_payload_af_only : forall l d, Iso.wf_lpkt l -> Iso.afc (Iso.lh l) = 2 ->
  SetPayload_m (Iso.ser_pkt l) d = (Iso.ser_pkt l, Err E.NoPayload).
Proof. exact set_payload_af_only. Qed.
Print Assumptions C02_set_payload_af_only.

(* ---- SetAdaptationFieldControl: the adaptation field is created when the control bits gain the field
        (payload-only packet -> 10: field of length 183, flags 0, all stuffing, no payload;
                            -> 11: length 182, flags 0, stuffing, ONE payload byte left, which is 0xFF:
         the old payload is destroyed in both cases), and nothing happens when control is already 11 ---- *)
Theorem C02_set_afc_creates : forall h pay, let l := Iso.mkLpkt h Iso.NoAF pay in Iso.wf_lpkt l ->
  SetAdaptationFieldControl (Iso.ser_pkt l) 2 =
    (Iso.ser_pkt (Iso.mkLpkt (Iso.with_afc h 2) (Iso.AF Iso.laf0 (repeatN 255 182)) []), None) /\
  SetAdaptationFieldControl (Iso.ser_pkt l) 3 =
    (Iso.ser_pkt (Iso.mkLpkt (Iso.with_afc h 3) (Iso.AF Iso.laf0 (repeatN 255 181)) [255]), None).
Proof. exact set_afc_creates. Qed.
Print Assumptions C02_set_afc_creates.
Theorem C02_set_afc3_noop : forall p, is_pkt p -> Iso.afc (Iso.hdr_of p) = 3 -> AFP.Length p <> 183 ->
  SetAdaptationFieldControl p 3 = (p, None).
Proof. exact set_afc3_noop. Qed.
Print Assumptions C02_set_afc3_noop.

(* 10 -> 11 on an adaptation-field-only packet: one stuffing byte is given up and the last byte of the
   packet becomes the payload; without stuffing the call fails with ErrAdaptationFieldTooLarge AFTER having set
   the control bits (the packet is then control 11 with length 183, i.e. an empty payload) *)
Theorem C02_set_afc3_on_af_only : forall h a st, let l := Iso.mkLpkt h (Iso.AF a st) [] in Iso.wf_lpkt l ->
  SetAdaptationFieldControl (Iso.ser_pkt l) 3 =
  if nonempty_b st
  then (Iso.ser_pkt (Iso.mkLpkt (Iso.with_afc h 3) (Iso.AF a (repeatN 255 (len st - 1))) (dropN (len st - 1) st)), None)
  else (Iso.ser_pkt (Iso.mkLpkt (Iso.with_afc h 3) (Iso.AF a []) []), Some E.AdaptationFieldTooLarge).
Proof. exact set_afc3_on_af_only. Qed.
Print Assumptions C02_set_afc3_on_af_only.

(* ---- creation helpers ---- *)
(* the first min(n,184) payload bytes are the requested ones (for n < 2 the rest of the payload is
   00 7f 00..: WithContinuousAF writes byte 5 although no adaptation field is flagged, see findings) *)
Theorem C02_create_packet_with_payload : forall v cc pay, v < 8192 -> cc < 16 -> is_bytes pay ->
  let p := Create.CreatePacketWithPayload (Z.of_N v) cc pay in
  is_pkt p /\ Iso.hdr_of p = Iso.mkHdr 71 0 0 0 v 0 1 cc /\
  exists body, Payload_fn p = Ok body /\ takeN (len pay) body = takeN 184 pay.
Proof. exact create_pwp_spec. Qed.
Print Assumptions C02_create_packet_with_payload.
Theorem C02_create_test_packet : forall v cc, v < 8192 -> cc < 16 -> forall pusi hasPay,
  let p := Create.CreateTestPacket (Z.of_N v) cc pusi hasPay in
  is_pkt p /\ Iso.hdr_of p = Iso.mkHdr 71 0 (b2n (hasPay && pusi)) 0 v 0 (b2n hasPay) cc.
Proof. exact create_test_spec. Qed.
Print Assumptions C02_create_test_packet.
Theorem C02_create_dc_packet : forall v cc, v < 8192 -> cc < 16 ->
  let p := Create.CreateDCPacket (Z.of_N v) cc in
  is_pkt p /\ Iso.hdr_of p = Iso.mkHdr 71 0 0 0 v 0 1 cc.
Proof. exact create_dc_spec. Qed.
Print Assumptions C02_create_dc_packet.

(* function-style SetPayload(pkt, pay) of create.go: writes over the payload area only, never the header part *)
Theorem C02_set_payload_fn : forall l d, Iso.wf_lpkt l ->
  Create.SetPayload_fn (Iso.ser_pkt l) d =
  (hdr_part l ++ firstn (length (Iso.lpayload l)) d ++ skipn (length d) (Iso.lpayload l),
   N.min (len d) (len (Iso.lpayload l))).
Proof. exact set_payload_fn_spec. Qed.
Print Assumptions C02_set_payload_fn.

(* non-vacuity: a packet with PCR, splice countdown, 2 bytes of private data and 3 stuffing bytes
   is well-formed; SetPayload with 5 bytes on it behaves as stated *)
Definition ex_l : Iso.lpkt :=
  Iso.mkLpkt (Iso.mkHdr 71 0 1 0 256 0 3 7)
    (Iso.AF (Iso.mkLaf 2 (Some [1;2;3;4;5;6]) None (Some 9) (Some [170;187]) None) [1;2;3])
    (repeatN 85 169).
Example C02_nonvacuous :
  Iso.wf_lpktb ex_l = true /\ Iso.capacity ex_l = 172 /\
  SetPayload_m (Iso.ser_pkt ex_l) [1;2;3;4;5] = (Iso.ser_pkt (Iso.set_payload ex_l [1;2;3;4;5]), Ok 5) /\
  Payload_m (Iso.ser_pkt (Iso.set_payload ex_l [1;2;3;4;5])) = Ok [1;2;3;4;5] /\
  firstn 18 (Iso.ser_pkt (Iso.set_payload ex_l [1;2;3;4;5])) = [71;65;0;55; 178; 86; 1;2;3;4;5;6; 9; 2;170;187; 255;255].
Proof. vm_compute. repeat split; reflexivity. Qed.
