(* C18 — Writer adapters deliver every 188-byte packet once, in order, unmodified.
   Statements only; proofs in Proofs/WriterProofs.v and Proofs/WriterReadFrom.v.
   Model: Model/PacketWriter.v (Write and ReadFrom as in /repo; ReadFrom since the repair of F2,
   commit 2f35340: a fill loop instead of one Read per packet).

   ORACLES (assumed contracts):
   - wrapped packet writer  w : call index -> packet -> (n, err), any function; the third
     component of every result below is the list of packets w was called with, in order.
     (It does not modify or retain the packet: PacketWriter's documented contract.)
   - reader (ReadFrom): a finite script s of Read results (chunk, optional error).  A Read
     delivers the next chunk, or as much of it as fits into the caller's buffer (the rest on
     the next call); an error is returned with the last bytes of its chunk and is sticky; an
     exhausted script returns (0, io.EOF) for ever; chunks may be empty ((0, nil) reads).  The
     script is FINITE: the reader returns only finitely many zero-length reads before it delivers
     data or fails.  (A reader that returns (0, nil) for ever makes the fill loop of ReadFrom spin,
     as it would io.ReadFull; io.Reader implementations are told not to do that.  Unlike bufio,
     ReadFrom has no cap on consecutive empty reads, so no bound other than finiteness is needed.)
     `script_data s` is the data delivered before the first error, `script_err s` that error
     (io.EOF when none) (Spec/IOSpec.v); ANY error value, io.ErrUnexpectedEOF included.
   - pkt is pw.pkt before the call (any 188 bytes).
   `full_chunks D` are the complete 188-byte chunks of D in order, `tail D` the rest (< 188). *)
From Gots Require Import Base.Prelude Model.PacketWriter Spec.IOSpec Proofs.WriterProofs Proofs.WriterReadFrom.
Import IOSpec PacketWriter.
Local Open Scope nat_scope.

(* the spec functions partition the data: chunks ++ tail = data, every chunk is 188 long *)
Theorem C18_chunks_partition : forall D,
  concat (full_chunks D) ++ tail D = D /\ Forall (fun c => length c = 188) (full_chunks D) /\ length (tail D) < 188.
Proof. exact chunks_partition. Qed.
Print Assumptions C18_chunks_partition.

(* length a multiple of 188, every packet write succeeds: one call per packet, in order, with
   exactly the corresponding 188 bytes; result (len p, nil) *)
Theorem C18_write_ok : forall w pkt p, length pkt = 188 -> length p mod 188 = 0 ->
  (forall j c, w j c = (188%Z, None)) ->
  write w pkt p = Ok (zlen p, None, full_chunks p).
Proof. exact write_ok. Qed.
Print Assumptions C18_write_ok.

(* the first failing call's error is returned and no later packet is delivered *)
Theorem C18_write_fail_stops : forall w pkt p kf m e, length pkt = 188 -> length p mod 188 = 0 ->
  kf < length (full_chunks p) ->
  (forall j, j < kf -> w j (nth j (full_chunks p) []) = (188%Z, None)) ->
  w kf (nth kf (full_chunks p) []) = (m, Some e) ->
  write w pkt p = Ok ((188 * Z.of_nat kf + m)%Z, Some e, firstn (S kf) (full_chunks p)).
Proof. exact write_fail_stops. Qed.
Print Assumptions C18_write_fail_stops.

(* a length that is not a multiple of 188 is rejected before anything is delivered *)
Theorem C18_write_bad_len : forall w pkt p, length p mod 188 <> 0 ->
  write w pkt p = Ok (0%Z, Some E.InvalidPacketLength, []).
Proof. exact write_bad_len. Qed.
Print Assumptions C18_write_bad_len.

(* every fragmentation: whatever script delivers the data D = script_data s, the packets
   delivered are the complete chunks of D in order, the count is 188 x their number, the error
   is invalid-length iff the stream ends (io.EOF) in a partial packet, the reader's own error
   if it fails, nil otherwise *)
Theorem C18_read_from_any_fragmentation : forall w pkt s, length pkt = 188 ->
  (forall j c, w j c = (188%Z, None)) ->
  read_from w pkt s
  = Ok ((188 * Z.of_nat (length (full_chunks (script_data s))))%Z,
        (if (script_err s =? E.EOF)%N
         then match tail (script_data s) with [] => None | _ => Some E.InvalidPacketLength end
         else Some (script_err s)),
        full_chunks (script_data s)).
Proof. exact read_from_any_fragmentation. Qed.
Print Assumptions C18_read_from_any_fragmentation.

(* a failing packet write stops the delivery, for every fragmentation *)
Theorem C18_read_from_fail_stops : forall w pkt s kf m x, length pkt = 188 ->
  kf < length (full_chunks (script_data s)) ->
  (forall j, j < kf -> w j (nth j (full_chunks (script_data s)) []) = (188%Z, None)) ->
  w kf (nth kf (full_chunks (script_data s)) []) = (m, Some x) ->
  read_from w pkt s
  = Ok ((188 * Z.of_nat kf + Z.max 0 m)%Z, Some x, firstn (S kf) (full_chunks (script_data s))).
Proof. exact read_from_fail_stops. Qed.
Print Assumptions C18_read_from_fail_stops.

(* every writer oracle at once (also writers that report counts other than 188 without an error):
   Write is the fold `w_spec` over the chunks (Proofs/WriterProofs.v: ask the oracle chunk by chunk,
   stop at the first error, io.ErrShortWrite at the end if the counts add up to less than len p) *)
Theorem C18_write_any_oracle : forall w pkt p, length pkt = 188 -> length p mod 188 = 0 ->
  write w pkt p = Ok (w_spec w (full_chunks p) 0%Z 0 [] (zlen p)).
Proof. exact write_spec. Qed.
Print Assumptions C18_write_any_oracle.

(* every writer oracle and every script: ReadFrom is the fold `rf_spec` over the chunks
   (Proofs/WriterReadFrom.v: ask the oracle chunk by chunk, stop at its first error or at a count
   other than 188, else end with invalid-length / the reader's error / nil) *)
Theorem C18_read_from_any_oracle : forall w pkt s, length pkt = 188 ->
  read_from w pkt s
  = Ok (rf_spec w (full_chunks (script_data s)) (tail (script_data s)) (script_err s) 0%Z 0 []).
Proof. exact read_from_spec. Qed.
Print Assumptions C18_read_from_any_oracle.

(* safety for EVERY writer oracle, slice and script: whatever the wrapped writer answers, the packets
   it is handed are a prefix of the complete chunks, in order, each once, unmodified (and nothing at
   all for a slice of bad length) *)
Theorem C18_write_prefix : forall w pkt p, length pkt = 188 ->
  exists n e j, write w pkt p = Ok (n, e, firstn j (full_chunks p)).
Proof. exact write_prefix. Qed.
Print Assumptions C18_write_prefix.

Theorem C18_read_from_prefix : forall w pkt s, length pkt = 188 ->
  exists n e j, read_from w pkt s = Ok (n, e, firstn j (full_chunks (script_data s))).
Proof. exact read_from_prefix. Qed.
Print Assumptions C18_read_from_prefix.

(* F2 (DESIGN section 7), re-established in Coq: ReadFrom as pinned in /repo before the repair
   (Model/PacketWriter.v rf_loop_pinned: one Read per iteration) falsifies the fragmentation
   clause: one packet arriving as two 94-byte reads is not delivered and invalid-length is
   reported.  Replays on the real code: corpus/C18/f2.txt. *)
Theorem C18_F2_pinned_refuted :
  exists w s, (forall j c, w j c = (188%Z, None)) /\ script_err s = E.EOF /\
    full_chunks (script_data s) = [script_data s] /\ tail (script_data s) = [] /\
    read_from_pinned w pkt0 s = Ok (0%Z, Some E.InvalidPacketLength, []).
Proof. exact f2_pinned_refuted. Qed.
Print Assumptions C18_F2_pinned_refuted.

(* C05 for these entry points: total for every slice / script and EVERY writer oracle *)
Theorem C18_write_total : forall w pkt p, length pkt = 188 ->
  write w pkt p <> Panic /\ write w pkt p <> Diverge.
Proof. exact write_total. Qed.
Print Assumptions C18_write_total.

Theorem C18_read_from_total : forall w pkt s, length pkt = 188 ->
  read_from w pkt s <> Panic /\ read_from w pkt s <> Diverge.
Proof. exact read_from_total. Qed.
Print Assumptions C18_read_from_total.

(* a reader whose OWN error is io.ErrUnexpectedEOF (decompressors, length-prefixed readers on
   truncated input) gets it back like any other error, also when it strikes on a packet boundary.
   (The first candidate repair, io.ReadFull with ErrUnexpectedEOF mapped to EOF, reported a clean end
   of stream here; notes/findings/C18.md.) *)
Theorem C18_unexpected_eof_reported : forall w pkt s, length pkt = 188 ->
  (forall j c, w j c = (188%Z, None)) -> script_err s = E.UnexpectedEOF ->
  read_from w pkt s
  = Ok ((188 * Z.of_nat (length (full_chunks (script_data s))))%Z, Some E.UnexpectedEOF,
        full_chunks (script_data s)).
Proof. exact read_from_unexpected_eof_reported. Qed.
Print Assumptions C18_unexpected_eof_reported.

(* non-vacuity: two packets and a 3-byte tail delivered as one-byte reads, a zero-length read,
   and the last byte together with io.EOF *)
Definition ex_pk (b : N) : bytes := repeat b 188.
Local Open Scope N_scope.
Definition ex_script : list (bytes * option N) :=
  map (fun b => ([b], @None N)) (ex_pk 1 ++ ex_pk 2) ++ [([], None); ([7; 8]%N, None); ([9]%N, Some E.EOF)].
Example C18_nonvacuous :
  script_err ex_script = E.EOF /\ full_chunks (script_data ex_script) = [ex_pk 1; ex_pk 2] /\
  tail (script_data ex_script) = [7; 8; 9]%N /\
  read_from (fun _ _ => (188%Z, None)) pkt0 ex_script
  = Ok (376%Z, Some E.InvalidPacketLength, [ex_pk 1; ex_pk 2]) /\
  write (fun i _ => if Nat.eqb i 1%nat then (5%Z, Some 61%N) else (188%Z, None)) pkt0 (ex_pk 1 ++ ex_pk 2 ++ ex_pk 3)
  = Ok (193%Z, Some 61%N, [ex_pk 1; ex_pk 2]).
Proof. vm_compute. repeat split. Qed.
