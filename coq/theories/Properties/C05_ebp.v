(* C05, EBP part — ReadEncoderBoundaryPoint (both flavours) on ARBITRARY byte strings.
   Only statements; proofs in Proofs/EbpTotal.v.  Model: Model/Ebp.v.
   g = false : the readers of the repaired tree (/root/work/repo-fixed: grouping loop guarded, nothing else);
   g = true  : the readers with notes/findings/C05-ebp.patch (a length test before every optional field).
   Getters and Data() of a returned object are total Gallina functions without a Res type: in the model they cannot panic
   (they index nothing: every getter reads struct fields; Data() only appends). *)
From Gots Require Import Base.Prelude Model.Ebp Proofs.EbpTotal Proofs.EbpBounds.
Import Ebp.

(* termination, patched or not: the repaired grouping loop's uint8 index strictly increases up to 0xFF *)
Theorem C05_read_ebp_terminates : forall (g : bool) (bs : bytes), ReadEncoderBoundaryPoint g bs <> Diverge.
Proof. exact read_ebp_terminates. Qed.
Print Assumptions C05_read_ebp_terminates.

(* full statement for the EBP entry point; holds for the patched readers *)
Definition C05_read_ebp_total_full (g : bool) : Prop :=
  forall bs : bytes, ReadEncoderBoundaryPoint g bs <> Panic /\ ReadEncoderBoundaryPoint g bs <> Diverge.
Theorem C05_read_ebp_total_patched : C05_read_ebp_total_full true.
Proof. exact read_ebp_guarded_total. Qed.
Print Assumptions C05_read_ebp_total_patched.

(* the patch changes nothing except turning some outcomes (every panic among them) into ErrInvalidEBPLength *)
Theorem C05_read_ebp_patch_only_adds_error : forall bs : bytes,
  ReadEncoderBoundaryPoint true bs = ReadEncoderBoundaryPoint false bs
  \/ ReadEncoderBoundaryPoint true bs = Err E.InvalidEBPLength.
Proof. exact read_ebp_guard_only_adds_error. Qed.
Print Assumptions C05_read_ebp_patch_only_adds_error.

Theorem C05_read_ebp_panic_becomes_error : forall bs : bytes,
  ReadEncoderBoundaryPoint false bs = Panic -> ReadEncoderBoundaryPoint true bs = Err E.InvalidEBPLength.
Proof. exact read_ebp_panic_becomes_error. Qed.
Print Assumptions C05_read_ebp_panic_becomes_error.

(* without the patch the statement is false (F11): ten inputs, one per unguarded index / slice expression *)
Theorem C05_read_ebp_total_refuted :
  forallb (fun bs => match ReadEncoderBoundaryPoint false bs with Panic => true | _ => false end) panic_witnesses = true.
Proof. exact read_ebp_total_refuted. Qed.
Print Assumptions C05_read_ebp_total_refuted.

(* the grouping loop as pinned in /repo: panics when the chain runs off the end, never terminates on 256 flagged bytes;
   the repaired loop returns ErrInvalidEBPLength on both *)
Theorem C05_grouping_loop_unrepaired_refuted :
  readCableLabsEbp_unrepaired chain_off_end = Panic /\ readCableLabsEbp_unrepaired chain_forever = Diverge
  /\ readCableLabsEbp false chain_off_end = Err E.InvalidEBPLength
  /\ readCableLabsEbp false chain_forever = Err E.InvalidEBPLength.
Proof. exact grouping_loop_unrepaired_refuted. Qed.
Print Assumptions C05_grouping_loop_unrepaired_refuted.

(* the only non-panicking outcome the patch changes: a 256-byte CableLabs EBP whose partition byte sits at offset 255 makes the
   uint8 index wrap to 0, and the readers as they are return the first 255 input bytes as ReservedBytes; the patch rejects it *)
Theorem C05_read_ebp_index_wrap :
  (exists e, ReadEncoderBoundaryPoint false index_wrap = Ok (CableLabs, e)
             /\ ReservedBytes e = firstn 255 index_wrap /\ PartitionFlags e = 85)
  /\ ReadEncoderBoundaryPoint true index_wrap = Err E.InvalidEBPLength.
Proof. exact index_wrap_witness. Qed.
Print Assumptions C05_read_ebp_index_wrap.

(* bounded memory: whatever the input (and whichever reader variant), a returned object holds at most 256 grouping ids
   (the uint8 loop index bounds the chain) and its reserved bytes are a sub-slice of the input; re-encoding it yields at most
   18 + ids + reserved bytes *)
Theorem C05_read_ebp_bounded : forall (g : bool) (bs : bytes) (f : flavour) (e : t),
  ReadEncoderBoundaryPoint g bs = Ok (f, e) -> len (Grouping e) <= 256 /\ len (ReservedBytes e) <= len bs.
Proof. exact read_ebp_bounded. Qed.
Print Assumptions C05_read_ebp_bounded.

Theorem C05_ebp_data_bounded : forall (f : flavour) (e : t),
  len (fst (Data f e)) <= 18 + len (Grouping e) + len (ReservedBytes e).
Proof. exact data_bounded. Qed.
Print Assumptions C05_ebp_data_bounded.
