(* C12 — EBP codec: decode is exact, re-encode is byte-identical, built EBPs encode/decode, time survives to 1 ns.
   This file holds only the property statements; proofs live in Proofs/Ebp*.v.
   Model: Model/Ebp.v (ebp/*.go with the repairs of F3 and of the CableLabs grouping loop); Spec: Spec/EbpSpec.v. *)
From Gots Require Import Base.Prelude Model.Ebp Spec.EbpSpec Proofs.EbpTime Proofs.EbpSync Proofs.EbpDecode Proofs.EbpReencode Proofs.EbpBuild Proofs.EbpSetters Proofs.EbpTimeExact.
Import Ebp EbpSpec.

(* ---- decode is exact: the readers (g = false: the code as it is; g = true: with the C05 guard patch) invert the Spec serialisers, for every well-formed logical
   EBP (any flag combination, SAP, grouping chain, time, reserved tail), whatever follows the EBP in the buffer.
   decoded_comcast / decoded_cablelabs is the object with exactly the encoded fields; the getters theorems spell out what each getter reports. ---- *)
Theorem C12_decode_ser_comcast : forall (g : bool) (c : comcast) (rest : bytes), wf_comcast c ->
  ReadEncoderBoundaryPoint g (ser_comcast c ++ rest) = Ok (Comcast, decoded_comcast c).
Proof. exact read_ebp_comcast. Qed.
Print Assumptions C12_decode_ser_comcast.

Theorem C12_decode_ser_cablelabs : forall (g : bool) (c : cablelabs) (rest : bytes), wf_cablelabs c ->
  ReadEncoderBoundaryPoint g (ser_cablelabs c ++ rest) = Ok (CableLabs, decoded_cablelabs c).
Proof. exact read_ebp_cablelabs. Qed.
Print Assumptions C12_decode_ser_cablelabs.

Theorem C12_decoded_comcast_getters : forall c : comcast, wf_comcast c ->
  let e := decoded_comcast c in
  EBPType e = 169 /\ IsEmpty e = false /\ DataFieldLength e = len (ser_comcast_body c)
  /\ FragmentFlag e = c_fragment c /\ SegmentFlag e = c_segment c /\ DiscontinuityFlag e = c_discontinuity c
  /\ ExtensionFlag e = is_some (c_ext c) /\ SapFlag e = is_some (c_sap c) /\ GroupingFlag e = is_some (c_group c)
  /\ TimeFlag e = is_some (c_time c)
  /\ ExtensionFlags e = val0 (c_ext c) /\ Sap e = val0 (c_sap c) /\ Grouping e = opt_byte (c_group c)
  /\ TimeSeconds e = fst (tval (c_time c)) /\ TimeFraction e = snd (tval (c_time c))
  /\ EBPTime e = ntp_ns (fst (tval (c_time c))) (snd (tval (c_time c)))
  /\ ReservedBytes e = c_tail c
  /\ StreamSyncSignal e = sync_of (opt_byte (c_group c)).
Proof. exact decoded_comcast_getters. Qed.
Print Assumptions C12_decoded_comcast_getters.

Theorem C12_decoded_cablelabs_getters : forall c : cablelabs, wf_cablelabs c ->
  let e := decoded_cablelabs c in
  EBPType e = 223 /\ IsEmpty e = false /\ DataFieldLength e = len (ser_cablelabs_body c)
  /\ FormatIdentifier e = l_format c
  /\ FragmentFlag e = l_fragment c /\ SegmentFlag e = l_segment c /\ ConcealmentFlag e = l_concealment c
  /\ ExtensionFlag e = is_some (l_ext c) /\ SapFlag e = is_some (l_sap c) /\ GroupingFlag e = is_some (l_groups c)
  /\ TimeFlag e = is_some (l_time c) /\ PartitionFlag e = is_some (part_opt (l_ext c))
  /\ ExtensionFlags e = val0 (ext_opt (l_ext c)) /\ PartitionFlags e = val0 (part_opt (l_ext c))
  /\ Sap e = val0 (l_sap c) /\ Grouping e = groups_list (l_groups c)
  /\ TimeSeconds e = fst (tval (l_time c)) /\ TimeFraction e = snd (tval (l_time c))
  /\ EBPTime e = ntp_ns (fst (tval (l_time c))) (snd (tval (l_time c)))
  /\ ReservedBytes e = l_tail c
  /\ StreamSyncSignal e = sync_of (groups_list (l_groups c)).
Proof. exact decoded_cablelabs_getters. Qed.
Print Assumptions C12_decoded_cablelabs_getters.

(* ---- re-encode is byte-identical: wf b -> Data (decode b) = b (and Data leaves the object as it was) ---- *)
Theorem C12_reencode_comcast : forall (g : bool) (c : comcast), wf_comcast c -> exists e,
  ReadEncoderBoundaryPoint g (ser_comcast c) = Ok (Comcast, e) /\ Data Comcast e = (ser_comcast c, e).
Proof. exact reencode_comcast_bytes. Qed.
Print Assumptions C12_reencode_comcast.

Theorem C12_reencode_cablelabs : forall (g : bool) (c : cablelabs), wf_cablelabs c -> exists e,
  ReadEncoderBoundaryPoint g (ser_cablelabs c) = Ok (CableLabs, e) /\ Data CableLabs e = (ser_cablelabs c, e).
Proof. exact reencode_cablelabs_bytes. Qed.
Print Assumptions C12_reencode_cablelabs.

(* the length bound 253 in wf_* is exact: at 254 the uint8 test `index < DataFieldLength+2` wraps, the reserved bytes
   are dropped and the object re-encodes to 3 bytes (a 256-byte input) *)
Theorem C12_reencode_254_refuted :
  len (ser_comcast_body c254) = 254 /\ is_bytes (c_tail c254) /\
  exists e, ReadEncoderBoundaryPoint false (ser_comcast c254) = Ok (Comcast, e) /\ fst (Data Comcast e) = [169; 1; 128].
Proof. exact reencode_254_refuted. Qed.
Print Assumptions C12_reencode_254_refuted.

(* outside the property (it speaks of non-empty EBPs), recorded: an EMPTY EBP decodes, but Data() returns no bytes at all *)
Theorem C12_reencode_empty_refuted :
  (exists e, ReadEncoderBoundaryPoint false [169; 0] = Ok (Comcast, e) /\ IsEmpty e = true /\ fst (ComcastData e) = [])
  /\ (exists e, ReadEncoderBoundaryPoint false [223; 0] = Ok (CableLabs, e) /\ IsEmpty e = true /\ fst (CableLabsData e) = []).
Proof. exact empty_ebp_data. Qed.
Print Assumptions C12_reencode_empty_refuted.

(* non-vacuity: a populated EBP of each flavour meets the hypotheses *)
Example C12_wf_comcast_example :
  wf_comcast (mkC true false true false (Some 255) (Some 3) (Some 29) (Some (4294967295, 2147483648)) [1; 2; 255]).
Proof. exact wf_comcast_example. Qed.
Example C12_wf_cablelabs_example :
  wf_cablelabs (mkL true true false true 1161973808 (Some (5, Some 255)) (Some 2) (Some (28, [29; 127; 0]))
                    (Some (2147483648, 4294967295)) [9; 8]).
Proof. exact wf_cablelabs_example. Qed.

(* ---- built EBPs: for every object in the stated consistency (field ranges of the Go types; grouping flag => exactly one id
   for Comcast, a non-empty list of ids < 0x80 for CableLabs; at most 253 bytes after the length byte; not empty), whatever
   sequence of setters / field assignments produced it: Data() is tag, length byte = number of bytes that follow, body;
   Data() stores that length in the object; and decoding the bytes yields canon_comcast / canon_cablelabs = the object with unflagged fields reset,
   which is the object itself when no value was stored under a cleared flag (strict_comcast, strict_cablelabs). ---- *)
Theorem C12_build_encode_decode_comcast : forall (g : bool) (e : t), cons_comcast e ->
  ComcastData e = (169 :: len (comcast_body e) :: comcast_body e, set_DataFieldLength e (len (comcast_body e)))
  /\ ReadEncoderBoundaryPoint g (fst (ComcastData e)) = Ok (Comcast, canon_comcast e).
Proof. exact build_encode_decode_comcast. Qed.
Print Assumptions C12_build_encode_decode_comcast.

Theorem C12_build_encode_decode_cablelabs : forall (g : bool) (e : t), cons_cablelabs e ->
  CableLabsData e = (223 :: len (cablelabs_body e) :: cablelabs_body e, set_DataFieldLength e (len (cablelabs_body e)))
  /\ ReadEncoderBoundaryPoint g (fst (CableLabsData e)) = Ok (CableLabs, canon_cablelabs e).
Proof. exact build_encode_decode_cablelabs. Qed.
Print Assumptions C12_build_encode_decode_cablelabs.

Theorem C12_build_same_values_comcast : forall e : t, DataFieldTag e = 169 -> strict_comcast e ->
  canon_comcast e = set_DataFieldLength e (len (comcast_body e)).
Proof. exact canon_comcast_strict. Qed.
Print Assumptions C12_build_same_values_comcast.

Theorem C12_build_same_values_cablelabs : forall e : t, DataFieldTag e = 223 -> strict_cablelabs e ->
  canon_cablelabs e = set_DataFieldLength e (len (cablelabs_body e)).
Proof. exact canon_cablelabs_strict. Qed.
Print Assumptions C12_build_same_values_cablelabs.

Theorem C12_build_same_flags_comcast : forall (e : t) (mask : N), cons_comcast e -> flag (canon_comcast e) mask = flag e mask.
Proof. exact canon_comcast_flags. Qed.
Print Assumptions C12_build_same_flags_comcast.
Theorem C12_build_same_flags_cablelabs : forall (e : t) (mask : N), cons_cablelabs e -> flag (canon_cablelabs e) mask = flag e mask.
Proof. exact canon_cablelabs_flags. Qed.
Print Assumptions C12_build_same_flags_cablelabs.

(* ---- the setter API itself: a flag setter called with true on a non-empty EBP sets exactly its own flag (mask m) and nothing
   else; with false, or on an empty EBP, it does nothing (the API cannot clear a flag); all eight masks ---- *)
Theorem C12_setter_flags : forall (e : t) (m : N) (v : bool), DataFlags e < 256 -> In m masks ->
  (forall m', In m' masks -> flag (set_flag e m v) m' = ((negb (DataFieldLength e =? 0) && v && (m =? m')) || flag e m'))
  /\ DataFlags (set_flag e m v) < 256
  /\ set_flag e m v = (if negb (DataFieldLength e =? 0) && v then set_DataFlags e (N.lor (DataFlags e) m) else e)
  /\ DataFieldLength (set_flag e m v) = DataFieldLength e.
Proof. exact set_flag_spec. Qed.
Print Assumptions C12_setter_flags.

Theorem C12_value_setters : forall (e : t) (v : N) (tm : Z),
  Sap (SetSap e v) = v /\ DataFlags (SetSap e v) = DataFlags e /\ DataFieldLength (SetSap e v) = DataFieldLength e
  /\ DataFlags (SetEBPTime e tm) = DataFlags e /\ DataFieldLength (SetEBPTime e tm) = DataFieldLength e
  /\ TimeSeconds (SetEBPTime e tm) < 4294967296 /\ TimeFraction (SetEBPTime e tm) < 4294967296
  /\ IsEmpty (SetIsEmpty e true) = true /\ IsEmpty (SetIsEmpty e false) = false.
Proof. exact value_setters. Qed.
Print Assumptions C12_value_setters.

Theorem C12_set_partition_flag : forall e : t, ExtensionFlag e = true -> ExtensionFlags e < 128 ->
  PartitionFlag (SetPartitionFlag e true) = true /\ ExtensionFlags (SetPartitionFlag e true) = ExtensionFlags e + 128
  /\ DataFlags (SetPartitionFlag e true) = DataFlags e.
Proof. exact set_partition_flag. Qed.
Print Assumptions C12_set_partition_flag.

(* the constructors return consistent, strict, non-empty objects *)
Theorem C12_create_comcast : cons_comcast CreateComcastEBP /\ strict_comcast CreateComcastEBP
  /\ fst (ComcastData CreateComcastEBP) = [169; 1; 0].
Proof. exact create_comcast_cons. Qed.
Print Assumptions C12_create_comcast.
Theorem C12_create_cablelabs : cons_cablelabs CreateCableLabsEbp /\ strict_cablelabs CreateCableLabsEbp
  /\ fst (CableLabsData CreateCableLabsEbp) = [223; 5; 69; 66; 80; 48; 0].
Proof. exact create_cablelabs_cons. Qed.
Print Assumptions C12_create_cablelabs.

(* non-vacuity: an object made with the API only *)
Example C12_cons_cablelabs_example :
  let e := SetEBPTime (SetPartitionFlag (set_PartitionFlags (SetExtensionFlag (SetGroupingFlag (SetTimeFlag
             (set_Grouping (SetSapFlag (SetSap CreateCableLabsEbp 255) true) [28; 29; 127]) true) true) true) 254) true)
             (4294967296 * 1000000000 - 1) in
  cons_cablelabs e /\ strict_cablelabs e /\ PartitionFlag e = true.
Proof. exact cons_cablelabs_example. Qed.

(* ---- time: every instant of the representable range 1968-01-20T03:14:08Z .. 2104-02-26T09:42:24Z (ns since 1900) ---- *)
Theorem C12_time_roundtrip : forall (e : t) (tm : Z),
  (2147483648 * 1000000000 <= tm < (4294967296 + 2147483648) * 1000000000)%Z ->
  (tm <= EBPTime (SetEBPTime e tm) <= tm + 1)%Z.
Proof. exact time_roundtrip. Qed.
Print Assumptions C12_time_roundtrip.

(* the getter reports the NTP era instant: era 0 when bit 31 of the seconds is set, era 1 otherwise, fraction in ns *)
Theorem C12_ebptime_ntp : forall e : t, TimeSeconds e < 4294967296 -> TimeFraction e < 4294967296 ->
  EBPTime e = EbpSpec.ntp_ns (TimeSeconds e) (TimeFraction e).
Proof. exact ebptime_ntp. Qed.
Print Assumptions C12_ebptime_ntp.

(* sharper: the instant read back is EXACT, except for the 511 sub-second values per second n = k * 5^9 - 1 (k = 1..511), where
   the 32-bit fraction is a whole multiple of 2^23 and the instant comes back exactly 1 ns late; it is never early *)
Theorem C12_time_exact_iff : forall (e : t) (tm : Z),
  (2147483648 * 1000000000 <= tm < (4294967296 + 2147483648) * 1000000000)%Z ->
  EBPTime (SetEBPTime e tm) =
    (if ((tm mod 1000000000 + 1) mod 1953125 =? 0) && (tm mod 1000000000 <? 999999999) then tm + 1 else tm)%Z.
Proof. exact time_exact_iff. Qed.
Print Assumptions C12_time_exact_iff.

(* the same through the wire: SetEBPTime, Data(), decode, EBPTime *)
Theorem C12_time_survives_wire_comcast : forall (g : bool) (e : t) (tm : Z),
  cons_comcast (SetEBPTime e tm) -> TimeFlag e = true ->
  (2147483648 * 1000000000 <= tm < (4294967296 + 2147483648) * 1000000000)%Z ->
  exists e', ReadEncoderBoundaryPoint g (fst (ComcastData (SetEBPTime e tm))) = Ok (Comcast, e')
             /\ (tm <= EBPTime e' <= tm + 1)%Z.
Proof. exact time_survives_wire_comcast. Qed.
Print Assumptions C12_time_survives_wire_comcast.

Theorem C12_time_survives_wire_cablelabs : forall (g : bool) (e : t) (tm : Z),
  cons_cablelabs (SetEBPTime e tm) -> TimeFlag e = true ->
  (2147483648 * 1000000000 <= tm < (4294967296 + 2147483648) * 1000000000)%Z ->
  exists e', ReadEncoderBoundaryPoint g (fst (CableLabsData (SetEBPTime e tm))) = Ok (CableLabs, e')
             /\ (tm <= EBPTime e' <= tm + 1)%Z.
Proof. exact time_survives_wire_cablelabs. Qed.
Print Assumptions C12_time_survives_wire_cablelabs.

(* F3: with the pinned (unclamped) fraction computation the statement is false; witness 1968-01-20T03:14:08.999999999Z *)
Theorem C12_time_roundtrip_unrepaired_refuted : exists tm : Z,
  (2147483648 * 1000000000 <= tm < (4294967296 + 2147483648) * 1000000000)%Z /\
  (let '(s, f) := insertUtcTime_unclamped tm in extractUtcTime s f) = (tm - 999999999)%Z.
Proof. exact time_unrepaired_refuted. Qed.
Print Assumptions C12_time_roundtrip_unrepaired_refuted.

Example C12_time_nonvacuous :
  EBPTime (SetEBPTime CreateComcastEBP (4294967296 * 1000000000 - 1)) = (4294967296 * 1000000000 - 1)%Z
  /\ EBPTime (SetEBPTime CreateComcastEBP (4294967296 * 1000000000)) = (4294967296 * 1000000000)%Z.
Proof. exact time_nonvacuous. Qed.

(* ---- stream sync: the first grouping id equal to 0x1C / 0x1D, else 0xFF ---- *)
Theorem C12_stream_sync : forall e : t,
  (exists pre x post, Grouping e = pre ++ x :: post /\ (x = 28 \/ x = 29) /\ Forall not_sync pre /\ StreamSyncSignal e = x)
  \/ (Forall not_sync (Grouping e) /\ StreamSyncSignal e = 255).
Proof. exact stream_sync_signal. Qed.
Print Assumptions C12_stream_sync.
