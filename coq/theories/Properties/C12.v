(* C12 — EBP codec: decode is exact, re-encode is byte-identical, built EBPs encode/decode, time survives to 1 ns.
   This file holds only the property statements; proofs live in Proofs/Ebp*.v.
   Model: Model/Ebp.v (ebp/*.go with the repairs of F3 and of the CableLabs grouping loop); Spec: Spec/EbpSpec.v. *)
From Gots Require Import Base.Prelude Model.Ebp Spec.EbpSpec Proofs.EbpTime Proofs.EbpSync.
Import Ebp.

(* ---- time: every instant of the representable range 1968-01-20T03:14:08Z .. 2104-02-26T09:42:24Z (ns since 1900) ---- *)
Theorem C12_time_roundtrip : forall (e : t) (tm : Z),
  (2147483648 * 1000000000 <= tm < (4294967296 + 2147483648) * 1000000000)%Z ->
  (tm <= EBPTime (SetEBPTime e tm) <= tm + 1)%Z.
Proof. exact time_roundtrip. Qed.
Print Assumptions C12_time_roundtrip.

(* the getter reports the NTP era instant: era 0 when bit 31 of the seconds is set, era 1 otherwise, fraction in ns *)
Theorem C12_ebptime_ntp : forall e : t, TimeSeconds e < 4294967296 -> TimeFraction e < 4294967296 ->
  EBPTime e = EbpSpec.ntp_ns (TimeSeconds e) (TimeFraction e).
Proof. exact ebptime_ntp. Qed.
Print Assumptions C12_ebptime_ntp.

(* F3: with the pinned (unclamped) fraction computation the statement is false; witness 1968-01-20T03:14:08.999999999Z *)
Theorem C12_time_roundtrip_unrepaired_refuted : exists tm : Z,
  (2147483648 * 1000000000 <= tm < (4294967296 + 2147483648) * 1000000000)%Z /\
  (let '(s, f) := insertUtcTime_unclamped tm in extractUtcTime s f) = (tm - 999999999)%Z.
Proof. exact time_unrepaired_refuted. Qed.
Print Assumptions C12_time_roundtrip_unrepaired_refuted.

Example C12_time_nonvacuous :
  EBPTime (SetEBPTime CreateComcastEBP (4294967296 * 1000000000 - 1)) = (4294967296 * 1000000000 - 1)%Z
  /\ EBPTime (SetEBPTime CreateComcastEBP (4294967296 * 1000000000)) = (4294967296 * 1000000000)%Z.
Proof. exact time_nonvacuous. Qed.

(* ---- stream sync: the first grouping id equal to 0x1C / 0x1D, else 0xFF ---- *)
Theorem C12_stream_sync : forall e : t,
  (exists pre x post, Grouping e = pre ++ x :: post /\ (x = 28 \/ x = 29) /\ Forall not_sync pre /\ StreamSyncSignal e = x)
  \/ (Forall not_sync (Grouping e) /\ StreamSyncSignal e = 255).
Proof. exact stream_sync_signal. Qed.
Print Assumptions C12_stream_sync.
