(* C05 (share of the PMT / PSI owner): the decoding entry points modelled in Model/Pmt.v and Model/Psi.v are total on
   ARBITRARY byte strings / byte streams: never Panic, never Diverge (fuel is sufficient).  The models are those of the
   guarded code (notes: c05-guards.patch); on the unguarded tree the same inputs panic (notes/findings/C05-pmt.md).
   The PSI accessors (PointerField, TableID, SectionSyntaxIndicator, PrivateIndicator, SectionLength) are plain total
   functions in Model/Psi.v (no Res), so their totality is by construction. *)
From Gots Require Import Base.Prelude Model.Psi Model.Pmt Proofs.PmtBase Proofs.PmtTotal.
Import Pmt.

Theorem C05_new_pmt_total : forall b, is_bytes b -> new_pmt b <> Panic /\ new_pmt b <> Diverge.
Proof. intros b H. apply total_iff. exact (new_pmt_total b H). Qed.
Print Assumptions C05_new_pmt_total.
Theorem C05_done_func_total : forall b, is_bytes b -> done_func b <> Panic /\ done_func b <> Diverge.
Proof. intros b H. apply total_iff. exact (done_func_total b H). Qed.
Print Assumptions C05_done_func_total.
Theorem C05_extract_crc_total : forall b, is_bytes b -> extract_crc b <> Panic /\ extract_crc b <> Diverge.
Proof. intros b H. apply total_iff. exact (extract_crc_total b H). Qed.
Print Assumptions C05_extract_crc_total.
Theorem C05_table_header_total : forall d, Psi.table_header_from_bytes d <> Panic /\ Psi.table_header_from_bytes d <> Diverge.
Proof. intros d. apply total_iff. exact (table_header_from_bytes_total d). Qed.
Print Assumptions C05_table_header_total.
(* ReadPMT on any byte stream and any PID: a value or an error *)
Theorem C05_read_pmt_total : forall stream pid, is_bytes stream -> read_pmt stream pid <> Panic /\ read_pmt stream pid <> Diverge.
Proof. intros s pid H. apply total_iff. exact (read_pmt_total s pid H). Qed.
Print Assumptions C05_read_pmt_total.
(* FilterPMTPacketsToPids on ANY list of 188-byte packets and ANY requested PID list *)
Theorem C05_filter_pmt_packets_total : forall pkts want,
  Forall (fun p => is_bytes p /\ len p = 188) pkts ->
  filter_pmt_packets pkts want <> Panic /\ filter_pmt_packets pkts want <> Diverge.
Proof. intros pkts want H. apply total_iff. exact (filter_pmt_packets_total pkts want H). Qed.
Print Assumptions C05_filter_pmt_packets_total.
