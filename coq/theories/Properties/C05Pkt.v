(* C05 — totality of the packet-level entry points on ANY 188 bytes, of the PES-header decoder on any
   byte string, and of the stream adapters.  Statements only; proofs in Proofs/HdrTotal.v, Proofs/AFTotal.v,
   Proofs/PesTotal.v.  Every model function whose Go original indexes or slices with a computed index lives in
   the Res monad (Panic = Go run-time panic, Diverge = fuel exhausted); the functions that do not appear here
   (header getters/setters, CC helpers, Equal, CheckErrors, FromBytes, Create..., SetAdaptationFieldControl) are
   plain total Gallina functions because their Go originals only index at constant positions below 188.
   The stream entry points are stated in the property files of their own models and re-checked there:
   C16_sync_total, C16_bufio_total (Sync over any stream / any bufio size), C17_run_total, C17_memory_bound
   (accumulator), C18_write_total, C18_read_from_total (writer adapters). *)
From Gots Require Import Base.Prelude Base.PacketLemmas Model.Packet Model.AF Model.AFfn Model.Pes Model.Pts
  Proofs.HdrTotal Proofs.AFTotal Proofs.PesTotal.
Local Open Scope N_scope.

Definition no_panic {A} (r : Res A) : Prop := r <> Panic /\ r <> Diverge.

(* packet.Payload / packet.Header / packet.PESHeader / Packet.Payload on any 188 bytes *)
Theorem C05_packet_accessors_total : forall p, is_pkt p ->
  no_panic (Packet.Payload_fn p) /\ no_panic (Packet.Header p) /\ no_panic (Packet.PESHeader p) /\
  no_panic (Packet.Payload_m p).
Proof. intros p H. repeat split; first [apply (Payload_fn_total p H) | apply (Header_total p H)
  | apply (PESHeader_total p H) | apply (Payload_m_total p H)]. Qed.
Print Assumptions C05_packet_accessors_total.

(* Packet.SetPayload with any data on any 188 bytes *)
Theorem C05_set_payload_total : forall p d, is_pkt p -> no_panic (snd (Packet.SetPayload_m p d)).
Proof. exact SetPayload_m_total. Qed.
Print Assumptions C05_set_payload_total.

(* the guard fires exactly when a length byte runs past the packet *)
Theorem C05_set_payload_invalid_iff : forall p d, is_pkt p ->
  (snd (Packet.SetPayload_m p d) = Err E.InvalidPacketLength <->
   (Packet.AdaptationFieldControl p <> 2 /\
    (Packet.PacketSize < Packet.payloadStart_m p \/ Packet.PacketSize < Packet.stuffingStart_m p))).
Proof. exact SetPayload_m_invalid_iff. Qed.
Print Assumptions C05_set_payload_invalid_iff.

(* every adaptation-field setter (14 operations, any argument; a whole-field copy needs a 188-byte source) *)
Theorem C05_af_setters_total : forall p o, length p = 188%nat -> op_total o ->
  AF.step p o <> Panic /\ AF.step p o <> Diverge.
Proof. exact step_total. Qed.
Print Assumptions C05_af_setters_total.

(* every adaptation-field getter of both APIs (13 method getters, 5 function-style accessors) *)
Theorem C05_af_getters_total : forall p, length p = 188%nat -> getters_total p.
Proof. exact getters_total_any. Qed.
Print Assumptions C05_af_getters_total.

(* NewPESHeader on any byte string: an error below 7 bytes, a header otherwise *)
Theorem C05_new_pes_header_total : forall b,
  (len b < 7 -> Pes.new_pes_header b = Err E.Other) /\ (7 <= len b -> exists h, Pes.new_pes_header b = Ok h).
Proof. exact new_pes_header_total. Qed.
Print Assumptions C05_new_pes_header_total.

Theorem C05_pkt_pes_header_total : forall pkt, length pkt = 188%nat ->
  Pes.pkt_pes_header pkt <> Panic /\ Pes.pkt_pes_header pkt <> Diverge.
Proof. exact pkt_pes_header_no_panic. Qed.
Print Assumptions C05_pkt_pes_header_total.

(* the raw timestamp codecs have no error result: they panic exactly on slices shorter than the field;
   this is the documented contract of ExtractTime / InsertPTS ("len(b) >= 5"), not a decoding entry point *)
Theorem C05_extract_time_panics_iff : forall b,
  (Pts.extract_time b = Panic <-> (length b < 5)%nat) /\ (Pes.extract_time b = Panic <-> (length b < 5)%nat) /\
  Pts.extract_time b <> Diverge.
Proof. exact extract_time_panics_iff. Qed.
Print Assumptions C05_extract_time_panics_iff.
