(* C06 — PMT decoding is exact and independent of how the section is packetised.
   Only statements here; proofs in Proofs/PmtParse.v, PmtTables.v, PmtRead.v, PmtMisc.v.
   Model: Model/Pmt.v, Model/Psi.v (the repaired code).  Spec: Spec/PmtSpec.v. *)
From Gots Require Import Base.Prelude Model.Psi Model.Pmt Spec.PmtSpec
  Proofs.PmtBase Proofs.PmtParse Proofs.PmtTables Proofs.PmtRead Proofs.PmtMisc Proofs.PmtFilter Proofs.PmtHyp.
Import Pmt.
Local Open Scope N_scope.

(* L1: parsePMTSection on the serialised section returns exactly the logical streams (type, PID,
   descriptor tags and bodies, in order), the PID list, version_number and current_next_indicator *)
Theorem C06_L1_parse_section : forall s, wf_sec s -> parse_pmt_section (ser_sec s) = Ok (sec_result s).
Proof. exact parse_section_ok. Qed.
Print Assumptions C06_L1_parse_section.

(* L2: NewPMT on the concatenated payload: any pointer_field with filler, any preceding complete
   sections with other table ids, any amount of 0xFF stuffing *)
Theorem C06_L2_parse_tables : forall c, wf_carrier c -> new_pmt (ser_payload c) = Ok (sec_result (sec c)).
Proof. exact parse_tables_ok. Qed.
Print Assumptions C06_L2_parse_tables.

(* L3: the completion predicate on EVERY proper prefix of the complete payload: false, except
   exactly at the end of a preceding complete section (that prefix is itself a complete payload) *)
Theorem C06_L3_done_prefix : forall c k, wf_carrier c -> k < len (ser_unit c) ->
  exists b, done_func (takeN k (ser_unit c)) = Ok b /\ (b = true <-> inner_end c k).
Proof. exact done_prefix. Qed.
Print Assumptions C06_L3_done_prefix.

(* the common carrier (pointer_field + filler + the section): false on EVERY proper prefix, no exception *)
Theorem C06_L3_done_prefix_no_pre : forall c k, wf_carrier c -> pre c = [] -> k < len (ser_unit c) ->
  done_func (takeN k (ser_unit c)) = Ok false.
Proof. exact done_prefix_no_pre. Qed.
Print Assumptions C06_L3_done_prefix_no_pre.

(* ... and true on the complete payload followed by any amount of stuffing *)
Theorem C06_L3_done_complete : forall c, wf_carrier c -> done_func (ser_payload c) = Ok true.
Proof. exact done_complete. Qed.
Print Assumptions C06_L3_done_complete.

(* L4: ReadPMT over ANY packetisation of the payload: any split into chunks of the PMT PID (each chunk in a packet
   with or without an adaptation field of any content, PUSI on the first), interleaved with arbitrary packets of
   other PIDs, any trailing stuffing - provided no packet boundary falls on an inner section end (cuts_ok) and the
   stream list is not empty (K1 below).  Bytes after the completing packet are irrelevant (items may continue). *)
Theorem C06_L4_read_pmt : forall c pid items,
  wf_carrier c -> sstreams (sec c) <> [] ->
  Forall (wf_item pid) items ->
  (exists n, concat (chunks items) = ser_unit c ++ repeatN 255 n) ->
  cuts_ok c items ->
  read_pmt (packetise pid items) pid = Ok (sec_result (sec c)).
Proof. exact read_pmt_ok. Qed.
Print Assumptions C06_L4_read_pmt.

(* ... and whatever follows the packets that carry the unit (the next repetition of the PMT, other programs, garbage,
   a truncated packet) is irrelevant: the reader has returned *)
Theorem C06_L4_read_pmt_then_anything : forall c pid items tail,
  wf_carrier c -> sstreams (sec c) <> [] ->
  Forall (wf_item pid) items ->
  (exists n, concat (chunks items) = ser_unit c ++ repeatN 255 n) ->
  cuts_ok c items ->
  read_pmt (packetise pid items ++ tail) pid = Ok (sec_result (sec c)).
Proof. exact read_pmt_then_anything. Qed.
Print Assumptions C06_L4_read_pmt_then_anything.

(* an INTERRUPTED transmission (packets carrying only a proper prefix of the payload of one PMT, then a new
   payload_unit_start) followed by a complete transmission: the reader restarts and returns the complete one *)
Theorem C06_L4_read_pmt_after_interrupted : forall ca cb pid items_a items_b tail,
  wf_carrier ca -> wf_carrier cb -> sstreams (sec cb) <> [] ->
  Forall (wf_item pid) items_a -> Forall (wf_item pid) items_b ->
  (exists R n, concat (chunks items_a) ++ R = ser_unit ca ++ repeatN 255 n) ->
  len (concat (chunks items_a)) < len (ser_unit ca) -> cuts_ok ca items_a ->
  (exists n, concat (chunks items_b) = ser_unit cb ++ repeatN 255 n) -> cuts_ok cb items_b ->
  read_pmt (packetise pid items_a ++ packetise pid items_b ++ tail) pid = Ok (sec_result (sec cb)).
Proof. exact read_pmt_after_interrupted. Qed.
Print Assumptions C06_L4_read_pmt_after_interrupted.

(* without preceding sections EVERY split is a packetisation: no condition on the cut points *)
Theorem C06_L4_read_pmt_any_split : forall c pid items,
  wf_carrier c -> pre c = [] -> sstreams (sec c) <> [] -> Forall (wf_item pid) items ->
  (exists n, concat (chunks items) = ser_unit c ++ repeatN 255 n) ->
  read_pmt (packetise pid items) pid = Ok (sec_result (sec c)).
Proof. exact read_pmt_any_split. Qed.
Print Assumptions C06_L4_read_pmt_any_split.

(* decidable form: hyp_readb (Spec/PmtSpec.v) checks ALL hypotheses of L4 on a concrete logical case; modelexec runs it on
   every generated deciding pmt.read case (op spec.hyp.read), so those cases are inside the theorem by construction *)
Theorem C06_L4_read_pmt_decidable : forall c pid items, hyp_readb c pid items = true ->
  read_pmt (packetise pid items) pid = Ok (sec_result (sec c)).
Proof. exact hyp_readb_sound. Qed.
Print Assumptions C06_L4_read_pmt_decidable.
Theorem C06_L4_after_interrupted_decidable : forall ca cb pid la lb tail, hyp_interruptedb ca cb pid la lb = true ->
  read_pmt (packetise pid la ++ packetise pid lb ++ tail) pid = Ok (sec_result (sec cb)).
Proof. exact hyp_interruptedb_sound. Qed.
Print Assumptions C06_L4_after_interrupted_decidable.
Theorem C06_wf_carrier_decidable : forall c, wf_carrierb c = true -> wf_carrier c.
Proof. exact wf_carrierb_sound. Qed.
Print Assumptions C06_wf_carrier_decidable.

(* the condition cuts_ok is necessary: with a packet boundary exactly at the end of the preceding section every other
   hypothesis holds and the reader answers ErrNoPayloadUnitStartIndicator (remark (i) of DESIGN C06: such a split is not
   a packetisation of one payload unit - ISO 13818-1 starts a new unit there) *)
Theorem C06_L4_inner_end_cut_refuted :
  exists c pid items,
    wf_carrier c /\ sstreams (sec c) <> [] /\ Forall (wf_item pid) items /\ concat (chunks items) = ser_payload c /\
    inner_end c (len (concat (chunks (firstn 1 items)))) /\
    read_pmt (packetise pid items) pid = Err E.NoPayloadUnitStartIndicator.
Proof. exact inner_end_cut_refuted. Qed.
Print Assumptions C06_L4_inner_end_cut_refuted.

(* K1 (known finding, by design of ReadPMT): with an EMPTY stream list every other hypothesis of L4 holds, the
   payload parses (L2), and the reader still answers ErrPMTNotFound.  So L4 cannot drop `sstreams <> []`. *)
Definition C06_L4_any_stream_list_full : Prop := forall c pid items,
  wf_carrier c -> Forall (wf_item pid) items ->
  (exists n, concat (chunks items) = ser_unit c ++ repeatN 255 n) -> cuts_ok c items ->
  read_pmt (packetise pid items) pid = Ok (sec_result (sec c)).
Theorem C06_L4_empty_streams_refuted :
  exists c pid items,
    wf_carrier c /\ Forall (wf_item pid) items /\ concat (chunks items) = ser_payload c /\ cuts_ok c items /\
    sstreams (sec c) = [] /\ new_pmt (ser_payload c) = Ok (sec_result (sec c)) /\
    read_pmt (packetise pid items) pid = Err E.PMTNotFound.
Proof. exact empty_streams_refuted. Qed.
Print Assumptions C06_L4_empty_streams_refuted.
Theorem C06_L4_any_stream_list_refuted : ~ C06_L4_any_stream_list_full.
Proof. exact any_stream_list_refuted. Qed.
Print Assumptions C06_L4_any_stream_list_refuted.

(* F4 (repaired in the model): the predicate as it stands on the pinned tree (done_func_orig) answers true on a
   proper prefix that stops inside a section header; the repaired one answers false there. *)
Theorem C06_F4_done_orig_refuted :
  exists c k, wf_carrier c /\ k < len (ser_unit c) /\ ~ inner_end c k /\
              done_func_orig (takeN k (ser_unit c)) = Ok true /\ done_func (takeN k (ser_unit c)) = Ok false.
Proof. exact done_orig_refuted. Qed.
Print Assumptions C06_F4_done_orig_refuted.

(* ExtractCRC: for pointer_field 0 AND no preceding section the CRC_32 field of the program map section.  In this carrier
   model pointer_field 0 does NOT exclude a preceding section (the payload may start directly with another complete
   section), so `pre c = []` is a separate hypothesis; the two theorems after this one show what happens without it. *)
Theorem C06_extract_crc : forall c, wf_carrier c -> pf c = 0 -> pre c = [] ->
  extract_crc (ser_payload c) = Ok (crc32_of (crc (sec c))).
Proof. exact extract_crc_ok. Qed.
Print Assumptions C06_extract_crc.

(* the property's clause without `pre c = []` ("for a payload with pointer_field 0 the CRC accessor returns the section's
   CRC_32 field") is FALSE when another section precedes the PMT section: ExtractCRC reads section_length of the FIRST
   section and returns that section's last four bytes *)
Definition C06_extract_crc_pf0_full : Prop := forall c, wf_carrier c -> pf c = 0 ->
  extract_crc (ser_payload c) = Ok (crc32_of (crc (sec c))).
Theorem C06_extract_crc_first_section : forall c o t, wf_carrier c -> pf c = 0 -> pre c = o :: t -> 4 <= len (obody o) ->
  extract_crc (ser_payload c) = Ok (crc32_of (dropN (len (obody o) - 4) (obody o))).
Proof. exact extract_crc_preceding. Qed.
Print Assumptions C06_extract_crc_first_section.
Theorem C06_extract_crc_preceding_refuted :
  exists c, wf_carrier c /\ pf c = 0 /\ pre c <> [] /\
            extract_crc (ser_payload c) = Ok (be32 2 3 4 5) /\ crc32_of (crc (sec c)) = be32 1 2 3 4.
Proof. exact extract_crc_preceding_refuted. Qed.
Print Assumptions C06_extract_crc_preceding_refuted.

(* PSI header accessors: on any payload = pointer_field, that many filler bytes, a 3-byte section header *)
Theorem C06_psi_accessors : forall pfv filler t b1 b2 rest, len filler = pfv ->
  let p := pfv :: filler ++ t :: b1 :: b2 :: rest in
  Psi.pointer_field p = pfv /\ Psi.table_id p = t /\
  Psi.section_syntax_indicator p = bit b1 128 /\ Psi.private_indicator p = bit b1 64 /\
  Psi.section_length p = N.lor (N.shiftl (N.land b1 3) 8) b2.
Proof. exact psi_accessors. Qed.
Print Assumptions C06_psi_accessors.
(* ... which on a carrier starting with the program map section are the logical values *)
Theorem C06_psi_accessors_pmt : forall c, wf_carrier c -> pre c = [] ->
  let p := ser_payload c in
  Psi.pointer_field p = pf c /\ Psi.table_id p = 2 /\ Psi.section_syntax_indicator p = true /\
  Psi.private_indicator p = false /\ Psi.section_length p = sec_len (sec c).
Proof. exact psi_accessors_pmt. Qed.
Print Assumptions C06_psi_accessors_pmt.
(* ... and on a carrier starting with another section describe that section (the FIRST section) *)
Theorem C06_psi_accessors_first_other : forall c o t, wf_carrier c -> pre c = o :: t ->
  let p := ser_payload c in
  Psi.pointer_field p = pf c /\ Psi.table_id p = otid o /\ Psi.section_length p = len (obody o) /\
  Psi.section_syntax_indicator p = bit (ohi o * 16) 128 /\ Psi.private_indicator p = bit (ohi o * 16) 64.
Proof. exact psi_accessors_other. Qed.
Print Assumptions C06_psi_accessors_first_other.

(* table header: encode then decode is the identity (8-bit table id, 10-bit section_length as decoded by gots) *)
Theorem C06_table_header_from_bytes_data : forall h, Psi.th_tid h < 256 -> Psi.th_sl h < 1024 ->
  exists h', Psi.table_header_from_bytes (Psi.table_header_data h) = Ok h' /\ th_eq h' h.
Proof. exact table_header_from_bytes_data. Qed.
Print Assumptions C06_table_header_from_bytes_data.
(* decode then encode gives the bytes back with the two reserved bits forced to 1 (and bits 2,3 of byte 1 cleared) *)
Theorem C06_table_header_data_from_bytes : forall b0 b1 b2, b0 < 256 -> b1 < 256 -> b2 < 256 ->
  exists h, Psi.table_header_from_bytes [b0; b1; b2] = Ok h /\
            Psi.table_header_data h = [b0; N.lor (N.land b1 195) 48; b2].
Proof. exact table_header_data_from_bytes. Qed.
Print Assumptions C06_table_header_data_from_bytes.
Theorem C06_table_header_short : forall d, len d < 3 -> Psi.table_header_from_bytes d = Err E.ShortPayload.
Proof. exact table_header_short. Qed.
Print Assumptions C06_table_header_short.
Theorem C06_new_pointer_field : forall n, n < 256 -> Psi.new_pointer_field (Z.of_N n) = Ok (n :: repeatN 255 n).
Proof. exact new_pointer_field_ok. Qed.
Print Assumptions C06_new_pointer_field.

(* non-vacuity: a three-stream PMT with descriptors behind a preceding section and a 2-byte pointer filler, split over
   three packets with adaptation-field stuffing (first chunk 5 bytes) and an interleaved packet of another PID *)
Example C06_nonvacuous :
  wf_carrier ex_carrier /\ Forall (wf_item 481) ex_items /\ concat (chunks ex_items) = ser_payload ex_carrier /\
  cuts_ok ex_carrier ex_items /\ sstreams (sec ex_carrier) <> [] /\
  read_pmt (packetise 481 ex_items) 481 = Ok (sec_result ex_sec).
Proof. exact nonvacuous. Qed.
