(* C06 — PMT decoding is exact and independent of how the section is packetised.
   Only statements here; proofs in Proofs/PmtParse.v, PmtTables.v, PmtRead.v, PmtMisc.v.
   Model: Model/Pmt.v, Model/Psi.v (the repaired code).  Spec: Spec/PmtSpec.v. *)
From Gots Require Import Base.Prelude Model.Psi Model.Pmt Spec.PmtSpec
  Proofs.PmtBase Proofs.PmtParse Proofs.PmtTables.
Import Pmt.
Local Open Scope N_scope.

(* L1: parsePMTSection on the serialised section returns exactly the logical streams (type, PID,
   descriptor tags and bodies, in order), the PID list, version_number and current_next_indicator *)
Theorem C06_L1_parse_section : forall s, wf_sec s -> parse_pmt_section (ser_sec s) = Ok (sec_result s).
Proof. exact parse_section_ok. Qed.
Print Assumptions C06_L1_parse_section.

(* L2: NewPMT on the concatenated payload: any pointer_field with filler, any preceding complete
   sections with other table ids, any amount of 0xFF stuffing *)
Theorem C06_L2_parse_tables : forall c, wf_carrier c -> new_pmt (ser_payload c) = Ok (sec_result (sec c)).
Proof. exact parse_tables_ok. Qed.
Print Assumptions C06_L2_parse_tables.

(* L3: the completion predicate on EVERY proper prefix of the complete payload: false, except
   exactly at the end of a preceding complete section (that prefix is itself a complete payload) *)
Theorem C06_L3_done_prefix : forall c k, wf_carrier c -> k < len (ser_unit c) ->
  exists b, done_func (takeN k (ser_unit c)) = Ok b /\ (b = true <-> inner_end c k).
Proof. exact done_prefix. Qed.
Print Assumptions C06_L3_done_prefix.

(* ... and true on the complete payload followed by any amount of stuffing *)
Theorem C06_L3_done_complete : forall c, wf_carrier c -> done_func (ser_payload c) = Ok true.
Proof. exact done_complete. Qed.
Print Assumptions C06_L3_done_complete.
