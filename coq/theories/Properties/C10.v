(* C10 — SCTE-35 state tracker: open/closed bookkeeping is consistent for every history.
   Statements only; proofs in Proofs/StateBasics.v, StateRun.v, StateDup.v, StateInv.v.
   Model: Model/State.v = scte35/state.go with the F10 repairs of notes/candidate-fixes.patch.
   A history is a list of calls (ProcessDescriptor / Close by pool index, Open); `run` yields one
   observation per call: closed ids, error, ids of Open() after the call; None = the call panicked. *)
From Gots Require Import Base.Prelude Model.SegDesc Model.State
  Proofs.SegProofs Proofs.StateBasics Proofs.StateRun Proofs.StateDup.
Import SegDesc State.
Local Open Scope nat_scope.

(* ---- the unconditional invariant: blackout bookkeeping valid, ring shape ---- *)
(* I1 s := (inBlackout -> blackoutIdx < len(open) /\ open[blackoutIdx] is a program breakaway)
           /\ len(received) = 10 /\ receivedHead < 10 /\ every open descriptor has a PTS *)

Theorem C10_inv_step_I1 : forall pool s c, I1 s -> call_in_pool pool c ->
  exists s' o l, step pool s c = Ok (s', o) /\ I1 s' /\ o_open o = Ok l.
Proof. exact step_I1. Qed.
Print Assumptions C10_inv_step_I1.

Theorem C10_inv_reachable_I1 : forall pool cs, Forall (call_in_pool pool) cs ->
  exists s', exec pool NewState cs = Ok s' /\ I1 s'.
Proof. intros pool cs H. exact (I1_reachable pool cs NewState I1_new H). Qed.
Print Assumptions C10_inv_reachable_I1.

(* no call of any history panics, nor does Open() after it: every slice expression of state.go is in
   range (the model turns an out-of-range slice expression into Panic) *)
Theorem C10_never_panics : forall pool cs, Forall (call_in_pool pool) cs ->
  length (run pool NewState cs) = length cs /\
  Forall (fun o => exists ob l, o = Some ob /\ o_open ob = Ok l) (run pool NewState cs).
Proof. intros pool cs H. exact (never_panics pool cs NewState I1_new H). Qed.
Print Assumptions C10_never_panics.

(* Open() shows the open list minus the pending breakaway *)
Theorem C10_open_spec : forall s, I1 s ->
  Open s = Ok (if inBlackout s then remove_at (blackoutIdx s) (open s) else open s).
Proof. exact Open_spec. Qed.
Print Assumptions C10_open_spec.

(* ---- closed lists ---- *)
(* ProcessDescriptor: closed is a run from the top of the stack (each was open immediately before,
   ordered last-opened first), each is closable by the incoming descriptor, the run is maximal, and a
   rejected call closes nothing *)
Theorem C10_closed_sound : forall s d s' closed err, I1 s ->
  ProcessDescriptor s d = Ok (s', (closed, err)) ->
  exists keep, open s = keep ++ rev closed /\ Forall (fun c => CanClose d c = true) closed /\
    (closed <> [] -> ~ rejection err) /\
    (~ rejection err -> match rev keep with [] => True | c :: _ => CanClose d c = false end).
Proof. exact process_closed_sound. Qed.
Print Assumptions C10_closed_sound.

(* Close: not found (nothing changes, nothing open is Equal), or exactly one descriptor, which was open,
   is Equal to the argument, is the last-opened such, and is removed *)
Theorem C10_close_sound : forall s d s' closed err, Close s d = (s', (closed, err)) ->
  (err = Some E.SCTE35DescriptorNotFound /\ closed = [] /\ s' = s /\ Forall (fun x => Equal d x = false) (open s))
  \/
  (err = None /\ exists i c, closed = [c] /\ nth_error (open s) i = Some c /\ Equal d c = true /\
     open s' = remove_at i (open s) /\
     (forall j y, i < j -> nth_error (open s) j = Some y -> Equal d y = false)).
Proof. exact close_sound. Qed.
Print Assumptions C10_close_sound.

(* what one ProcessDescriptor call does to the open list *)
Theorem C10_process_shape : forall s d s' closed err, I1 s ->
  ProcessDescriptor s d = Ok (s', (closed, err)) ->
  (rejection err /\ closed = [] /\ open s' = open s /\ inBlackout s' = inBlackout s /\ blackoutIdx s' = blackoutIdx s /\
   receivedHead s' = receivedHead s /\ (haspts d = false -> s' = s))
  \/
  (~ rejection err /\ haspts d = true /\
   (exists ring1 added, scan_ring d (ptsv d) (received s) false = (ring1, added, None) /\
      received s' = (if added then ring1 else set_nth ring1 (receivedHead s) (Some (mkElem (ptsv d) [d]))) /\
      receivedHead s' = (if added then receivedHead s else (receivedHead s + 1) mod receivedRingLen)) /\
   closed = close_loop d (rev (open s)) /\
   exists keep, open s = keep ++ rev closed /\
     let keep' := if (ty d =? 0x14)%N && inb_after_close s keep then firstn (blackoutIdx s) keep else keep in
     open s' = if appended (ty d) then keep' ++ [d] else keep').
Proof. exact process_shape. Qed.
Print Assumptions C10_process_shape.

(* ---- a descriptor whose signal carries no PTS is always rejected, nothing changes ---- *)
Theorem C10_no_pts_rejected : forall s d, haspts d = false ->
  ProcessDescriptor s d = Ok (s, ([], Some E.SCTE35UnsupportedSpliceCommand)) /\
  Close s d = (s, ([], Some E.SCTE35DescriptorNotFound)).
Proof. exact no_pts_rejected. Qed.
Print Assumptions C10_no_pts_rejected.

(* ---- the same descriptor (with a PTS) processed twice in a row ---- *)
(* Full reading of the property text: "rejected the second time as a duplicate".  That is too strong as
   it stands: an unscheduled-event start (0x40) whose VSS signal-id lookup fails is rejected with
   ErrVSSSignalIdNotFound (37) BEFORE it is stored, so the second attempt fails the same way.  The
   descriptor is still rejected both times and the open list is untouched.  Proved: the duplicate
   error whenever the first attempt did not fail with 37 (partial), the weaker rejection when it did,
   and the refutation of the full reading (witness: 0x40/event 5 twice with different signal times
   and no VSS MID; replayed on the real code by bin/gen/c10.py, kind vss-twice). *)
Definition C10_dup_twice_in_row_full : Prop := dup_full.

Theorem C10_dup_twice_in_row_partial : forall s d s1 closed1 err1, I1 s -> haspts d = true ->
  ProcessDescriptor s d = Ok (s1, (closed1, err1)) -> err1 <> Some E.VSSSignalIdNotFound ->
  exists s2, ProcessDescriptor s1 d = Ok (s2, ([], Some E.SCTE35DuplicateDescriptor)) /\
             open s2 = open s1 /\ inBlackout s2 = inBlackout s1 /\ blackoutIdx s2 = blackoutIdx s1 /\
             receivedHead s2 = receivedHead s1.
Proof. exact dup_twice_in_row. Qed.
Print Assumptions C10_dup_twice_in_row_partial.

Theorem C10_dup_twice_in_row_vss : forall s d s1 closed1, I1 s -> haspts d = true ->
  ProcessDescriptor s d = Ok (s1, (closed1, Some E.VSSSignalIdNotFound)) ->
  exists s2 e, ProcessDescriptor s1 d = Ok (s2, ([], Some e)) /\
             (e = E.SCTE35DuplicateDescriptor \/ e = E.VSSSignalIdNotFound) /\
             open s2 = open s1 /\ inBlackout s2 = inBlackout s1 /\ blackoutIdx s2 = blackoutIdx s1.
Proof. exact dup_twice_in_row_vss. Qed.
Print Assumptions C10_dup_twice_in_row_vss.

Theorem C10_dup_twice_in_row_full_refuted : ~ C10_dup_twice_in_row_full.
Proof. exact dup_full_refuted. Qed.
Print Assumptions C10_dup_twice_in_row_full_refuted.
