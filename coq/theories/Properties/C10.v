(* C10 — SCTE-35 state tracker: open/closed bookkeeping is consistent for every history.
   Statements only; proofs in Proofs/StateBasics.v, StateRun.v, StateDup.v, StateInv.v.
   Model: Model/State.v = scte35/state.go as of /repo 34afac6 (F10 repairs and the N1 repair: the duplicate
   scan stores a descriptor once per call).
   A history is a list of calls (ProcessDescriptor / Close by pool index, Open); `run` yields one
   observation per call: closed ids, error, ids of Open() after the call; None = the call panicked. *)
From Gots Require Import Base.Prelude Model.SegDesc Model.State Spec.Trackers
  Proofs.SegProofs Proofs.StateBasics Proofs.StateRun Proofs.StateDup Proofs.StateInv Proofs.StateWrites Proofs.StateMem Proofs.StateSpec Proofs.StatePinnedWitness.
From Gots Require Exec.StateExec.
From Gots Require Import Model.StatePinned.
Import SegDesc State.
Local Open Scope nat_scope.

(* ---- the unconditional invariant: blackout bookkeeping valid, ring shape ---- *)
(* I1 s := (inBlackout -> blackoutIdx < len(open) /\ open[blackoutIdx] is a program breakaway)
           /\ len(received) = 10 /\ receivedHead < 10 /\ every open descriptor has a PTS *)

Theorem C10_inv_step_I1 : forall pool s c, I1 s -> call_in_pool pool c ->
  exists s' o l, step pool s c = Ok (s', o) /\ I1 s' /\ o_open o = Ok l.
Proof. exact step_I1. Qed.
Print Assumptions C10_inv_step_I1.

Theorem C10_inv_reachable_I1 : forall pool cs, Forall (call_in_pool pool) cs ->
  exists s', exec pool NewState cs = Ok s' /\ I1 s'.
Proof. exact I1_reachable_new. Qed.
Print Assumptions C10_inv_reachable_I1.

(* no call of any history panics, nor does Open() after it: every slice expression of state.go is in
   range (the model turns an out-of-range slice expression into Panic) *)
Theorem C10_never_panics : forall pool cs, Forall (call_in_pool pool) cs ->
  length (run pool NewState cs) = length cs /\
  Forall (fun o => exists ob l, o = Some ob /\ o_open ob = Ok l) (run pool NewState cs).
Proof. exact never_panics_new. Qed.
Print Assumptions C10_never_panics.

(* the remaining slice / index expressions, which the model writes with total list functions
   (firstn, nth), are in range as well: no underflow in `s.open[0 : len(s.open)-len(closed)]`, and the
   index Close shifts at is inside the list (closed[len-1] / s.open[len-1] in the validation are
   guarded by the same emptiness tests as in the Go code: last_opt) *)
Theorem C10_internal_slices_in_range : forall s d,
  length (close_loop d (rev (open s))) <= length (open s) /\
  (forall i, find_last_equal d (open s) = Some i -> i < length (open s)).
Proof. exact internal_slices_in_range. Qed.
Print Assumptions C10_internal_slices_in_range.

(* Open() shows the open list minus the pending breakaway *)
Theorem C10_open_spec : forall s, I1 s ->
  Open s = Ok (if inBlackout s then remove_at (blackoutIdx s) (open s) else open s).
Proof. exact Open_spec. Qed.
Print Assumptions C10_open_spec.

(* ---- closed lists ---- *)
(* ProcessDescriptor: closed is a run from the top of the stack (each was open immediately before,
   ordered last-opened first), each is closable by the incoming descriptor, the run is maximal, and a
   rejected call closes nothing.
   READING (audit item 12): "open immediately before the call" refers to the tracker's open stack
   `open s`, which INCLUDES the pending program breakaway that Open() hides (C10_open_spec: Open() =
   open s minus the element at blackoutIdx while inBlackout).  A breakaway that was never visible in
   Open() can therefore be returned as closed (by 0x40/0x41/0x50/0x51) or by Close(); the trace checker
   reads the text the same way (its `hidden` ghost, clause 2 over cur = hidden :: vis).  Read against the
   Open() lists alone the clause would be false of the library by design of the blackout feature. *)
Theorem C10_closed_sound : forall s d s' closed err, I1 s ->
  ProcessDescriptor s d = Ok (s', (closed, err)) ->
  exists keep, open s = keep ++ rev closed /\ Forall (fun c => CanClose d c = true) closed /\
    (closed <> [] -> ~ rejection err) /\
    (~ rejection err -> match rev keep with [] => True | c :: _ => CanClose d c = false end).
Proof. exact process_closed_sound. Qed.
Print Assumptions C10_closed_sound.

(* Close: not found (nothing changes, nothing open is Equal), or exactly one descriptor, which was open,
   is Equal to the argument, is the last-opened such, and is removed *)
Theorem C10_close_sound : forall s d s' closed err, Close s d = (s', (closed, err)) ->
  (err = Some E.SCTE35DescriptorNotFound /\ closed = [] /\ s' = s /\ Forall (fun x => Equal d x = false) (open s))
  \/
  (err = None /\ exists i c, closed = [c] /\ nth_error (open s) i = Some c /\ Equal d c = true /\
     open s' = remove_at i (open s) /\
     (forall j y, i < j -> nth_error (open s) j = Some y -> Equal d y = false)).
Proof. exact close_sound. Qed.
Print Assumptions C10_close_sound.

(* what one ProcessDescriptor call does to the open list *)
Theorem C10_process_shape : forall s d s' closed err, I1 s ->
  ProcessDescriptor s d = Ok (s', (closed, err)) ->
  (rejection err /\ closed = [] /\ open s' = open s /\ inBlackout s' = inBlackout s /\ blackoutIdx s' = blackoutIdx s /\
   receivedHead s' = receivedHead s /\ (haspts d = false -> s' = s) /\
   (haspts d = true -> exists ring1 added x, scan_ring d (ptsv d) (received s) false = (ring1, added, Some x) /\
                                             received s' = ring1 /\ err = Some x))
  \/
  (~ rejection err /\ haspts d = true /\
   (exists ring1 added, scan_ring d (ptsv d) (received s) false = (ring1, added, None) /\
      received s' = (if added then ring1 else set_nth ring1 (receivedHead s) (Some (mkElem (ptsv d) [d]))) /\
      receivedHead s' = (if added then receivedHead s else (receivedHead s + 1) mod receivedRingLen)) /\
   closed = close_loop d (rev (open s)) /\
   exists keep, open s = keep ++ rev closed /\
     let keep' := if (ty d =? 0x14)%N && inb_after_close s keep then firstn (blackoutIdx s) keep else keep in
     open s' = if appended (ty d) then keep' ++ [d] else keep').
Proof. exact process_shape. Qed.
Print Assumptions C10_process_shape.

(* ---- bounded memory (functional form of "no call can exhaust memory", N1 / /repo 34afac6) ---- *)
(* After any history, everything the tracker keeps is bounded by the number of ProcessDescriptor calls in it:
   the ring has exactly 10 entries, together they hold at most n_process cs descriptors (stored counts
   with multiplicity), hence each entry does, and so does the open stack.  On the pinned tree the ring
   entry of one signal time doubled with every further descriptor (C10_pinned_scan_doubles_refuted). *)
Theorem C10_bounded_memory : forall pool cs, Forall (call_in_pool pool) cs ->
  exists s g, gexec pool (NewState, g0) cs = Ok (s, g) /\ exec pool NewState cs = Ok s /\
    length (received s) = 10 /\
    stored (received s) <= n_process cs /\
    (forall e, In (Some e) (received s) -> length (edescs e) <= n_process cs) /\
    length (open s) <= n_process cs.
Proof. exact bounded_memory. Qed.
Print Assumptions C10_bounded_memory.

(* one call stores at most one more descriptor and opens at most one more *)
Theorem C10_process_mem_step : forall s d s' closed err, I1 s -> ProcessDescriptor s d = Ok (s', (closed, err)) ->
  stored (received s') <= S (stored (received s)) /\ length (open s') <= S (length (open s)).
Proof. exact process_mem. Qed.
Print Assumptions C10_process_mem_step.

(* ---- a descriptor whose signal carries no PTS is always rejected, nothing changes ---- *)
Theorem C10_no_pts_rejected : forall s d, haspts d = false ->
  ProcessDescriptor s d = Ok (s, ([], Some E.SCTE35UnsupportedSpliceCommand)) /\
  Close s d = (s, ([], Some E.SCTE35DescriptorNotFound)).
Proof. exact no_pts_rejected. Qed.
Print Assumptions C10_no_pts_rejected.

(* ---- the same descriptor (with a PTS) processed twice in a row ---- *)
(* Full reading of the property text: "rejected the second time as a duplicate".  That is too strong as
   it stands: an unscheduled-event start (0x40) whose VSS signal-id lookup fails is rejected with
   ErrVSSSignalIdNotFound (37) BEFORE it is stored, so the second attempt fails the same way.  The
   descriptor is still rejected both times and the open list is untouched.  Proved: the duplicate
   error whenever the first attempt did not fail with 37 (partial), the weaker rejection when it did,
   and the refutation of the full reading (witness: 0x40/event 5 twice with different signal times
   and no VSS MID; replayed on the real code by bin/gen/c10.py, kind vss-twice). *)
Definition C10_dup_twice_in_row_full : Prop := dup_full.

Theorem C10_dup_twice_in_row_partial : forall s d s1 closed1 err1, I1 s -> haspts d = true ->
  ProcessDescriptor s d = Ok (s1, (closed1, err1)) -> err1 <> Some E.VSSSignalIdNotFound ->
  exists s2, ProcessDescriptor s1 d = Ok (s2, ([], Some E.SCTE35DuplicateDescriptor)) /\
             open s2 = open s1 /\ inBlackout s2 = inBlackout s1 /\ blackoutIdx s2 = blackoutIdx s1 /\
             receivedHead s2 = receivedHead s1.
Proof. exact dup_twice_in_row. Qed.
Print Assumptions C10_dup_twice_in_row_partial.

Theorem C10_dup_twice_in_row_vss : forall s d s1 closed1, I1 s -> haspts d = true ->
  ProcessDescriptor s d = Ok (s1, (closed1, Some E.VSSSignalIdNotFound)) ->
  exists s2 e, ProcessDescriptor s1 d = Ok (s2, ([], Some e)) /\
             (e = E.SCTE35DuplicateDescriptor \/ e = E.VSSSignalIdNotFound) /\
             open s2 = open s1 /\ inBlackout s2 = inBlackout s1 /\ blackoutIdx s2 = blackoutIdx s1.
Proof. exact dup_twice_in_row_vss. Qed.
Print Assumptions C10_dup_twice_in_row_vss.

Theorem C10_dup_twice_in_row_full_refuted : ~ C10_dup_twice_in_row_full.
Proof. exact dup_full_refuted. Qed.
Print Assumptions C10_dup_twice_in_row_full_refuted.

(* ---- the full invariant with ghost sets ---- *)
(* ghost g = (processed, gone, opened, writes): descriptors handed to ProcessDescriptor; descriptors
   reported closed or discarded by a program resumption; descriptors in the order they entered the open
   list; number of ring entries written.  gstep / gexec run the model and update the ghost sets; they
   do not influence the run (C10_ghost_is_observer).
   Inv (s, g) := I1 s /\ I2 s g,
   I2 s g := open s is included in processed g /\ open s is a subsequence of opened g /\
             (writes g <= 10 -> NoDup (opened g) /\ gone g included in opened g /\ nothing gone is open /\
                                every descriptor ever opened is remembered by the ring and has a PTS /\
                                the ring has the shape "writes g entries written, the rest nil").
   The clauses about duplicates need `writes g <= 10`: the duplicate-detection ring keeps 10 signal
   times, after that it forgets (known finding; C10_no_reopen_unconditional_refuted). *)

Theorem C10_inv_step : forall pool sg c, Inv sg -> call_in_pool pool c ->
  exists sg', gstep pool sg c = Ok sg' /\ Inv sg'.
Proof. exact inv_step. Qed.
Print Assumptions C10_inv_step.

Theorem C10_inv_reachable : forall pool cs, Forall (call_in_pool pool) cs ->
  exists sg', gexec pool (NewState, g0) cs = Ok sg' /\ Inv sg'.
Proof. exact inv_reachable_new. Qed.
Print Assumptions C10_inv_reachable.

Theorem C10_ghost_is_observer : forall pool cs s g s' g',
  gexec pool (s, g) cs = Ok (s', g') -> exec pool s cs = Ok s'.
Proof. exact gexec_exec. Qed.
Print Assumptions C10_ghost_is_observer.

(* the open list of every reachable state, in the words of the property *)
Theorem C10_open_consistent : forall pool cs, Forall (call_in_pool pool) cs ->
  exists s g, gexec pool (NewState, g0) cs = Ok (s, g) /\ exec pool NewState cs = Ok s /\
    I1 s /\
    incl (open s) (processed g) /\
    subseq (open s) (opened g) /\
    (writes g <= 10 ->
       NoDup (opened g) /\ NoDup (open s) /\ (forall x, In x (open s) -> ~ In x (gone g))).
Proof. exact open_consistent. Qed.
Print Assumptions C10_open_consistent.

(* with distinct ids in the pool, no id is open twice *)
Theorem C10_open_ids_nodup : forall pool cs s g, NoDup (ids pool) ->
  gexec pool (NewState, g0) cs = Ok (s, g) -> Forall (call_in_pool pool) cs -> writes g <= 10 ->
  NoDup (ids (open s)).
Proof. exact open_ids_nodup. Qed.
Print Assumptions C10_open_ids_nodup.

(* every descriptor returned as closed was open immediately before, is returned at most once (it was
   not gone before and is not open afterwards, so by C10_open_consistent it never comes back while
   writes <= 10), closed lists have no repetitions *)
Theorem C10_closed_once_process : forall s g d s' closed err, Inv (s, g) -> writes g <= 10 ->
  ProcessDescriptor s d = Ok (s', (closed, err)) ->
  NoDup closed /\ forall x, In x closed -> In x (open s) /\ ~ In x (gone g) /\ ~ In x (open s').
Proof. exact closed_once_process. Qed.
Print Assumptions C10_closed_once_process.

Theorem C10_closed_once_close : forall s g d s' closed err, Inv (s, g) -> writes g <= 10 ->
  Close s d = (s', (closed, err)) ->
  forall x, In x closed -> closed = [x] /\ In x (open s) /\ Equal d x = true /\ ~ In x (gone g) /\ ~ In x (open s').
Proof. exact closed_once_close. Qed.
Print Assumptions C10_closed_once_close.

(* the unconditional form of the no-duplicate / not-reopened clause is FALSE of the model (and of the
   code): 12 calls -- eleven descriptors of type 0x17 at eleven signal times, then the first again *)
Definition C10_no_reopen_unconditional_full : Prop := no_reopen_full.

Theorem C10_no_reopen_unconditional_refuted : ~ C10_no_reopen_unconditional_full.
Proof. exact no_reopen_full_refuted. Qed.
Print Assumptions C10_no_reopen_unconditional_refuted.

(* The hypothesis `writes g <= 10` follows from a condition on the INPUT history alone: at most 10
   distinct signal times among the descriptors (with a PTS) handed to ProcessDescriptor.
   distinct_pts pool cs := number of distinct ptsv among those descriptors. *)
Theorem C10_writes_le_distinct_pts : forall pool cs sg, Forall (call_in_pool pool) cs ->
  gexec pool (NewState, g0) cs = Ok sg -> distinct_pts pool cs <= 10 -> writes (snd sg) <= distinct_pts pool cs.
Proof. exact writes_le_distinct_pts. Qed.
Print Assumptions C10_writes_le_distinct_pts.

(* the no-duplicate / not-reopened clause for every history with at most 10 distinct signal times *)
Theorem C10_open_consistent_pts : forall pool cs, Forall (call_in_pool pool) cs -> distinct_pts pool cs <= 10 ->
  exists s g, gexec pool (NewState, g0) cs = Ok (s, g) /\ exec pool NewState cs = Ok s /\
    writes g <= 10 /\ NoDup (opened g) /\ NoDup (open s) /\ (forall x, In x (open s) -> ~ In x (gone g)).
Proof. exact open_consistent_pts. Qed.
Print Assumptions C10_open_consistent_pts.

(* ---- MODEL MEETS SPEC ---- *)
(* Spec/Trackers.v is the property as a decidable trace checker with ghost sets (processed, gone, opening
   order, hidden breakaway); it is what bin/check runs on the REAL observations.  For every history over a
   well-numbered pool (id = position) with at most 10 distinct signal times it accepts what the model does:
   all 17 clauses hold at every call.  (tcall_of_call / tobs_of_obs are the conversions the executor uses.) *)
Theorem C10_checker_accepts_model : forall pool, Trackers.pool_ok pool = true ->
  forall cs, Forall (call_in_pool pool) cs -> distinct_pts pool cs <= 10 ->
  Trackers.check pool (map StateExec.tcall_of_call cs) (map StateExec.tobs_of_obs (run pool NewState cs)) = None.
Proof. exact checker_accepts_model. Qed.
Print Assumptions C10_checker_accepts_model.

(* ... and beyond 10 signal times it does reject: call 11 of the ring history violates clause 8 *)
Example C10_checker_rejects_ring_history :
  Trackers.check ring_pool (map StateExec.tcall_of_call ring_script)
                 (map StateExec.tobs_of_obs (run ring_pool NewState ring_script)) = Some (11, 8)%N.
Proof. vm_compute. reflexivity. Qed.

(* ... and it rejects what the pinned (unrepaired) tree does on the F10 history `0x10, 0x13, 0x50, Open()`:
   observed there: the third call closes both descriptors and the Open() after it panics *)
Example C10_checker_rejects_f10_observation :
  let pool := [ mk 0 0x10 1 true 100 0 0 false 0 0 None; mk 1 0x13 1 true 200 0 0 false 0 0 None;
                mk 2 0x50 1 true 300 0 0 false 0 0 None ] in
  Trackers.check pool [Trackers.TProcess 0; Trackers.TProcess 1; Trackers.TProcess 2; Trackers.TOpen]
    [ Trackers.mkTobs [] 0 (Some [0]); Trackers.mkTobs [] 0 (Some [0]); Trackers.mkTobs [1; 0] 0 None ]%N = Some (2, 1)%N /\
  map StateExec.tobs_of_obs (run pool NewState [CProcess 0; CProcess 1; CProcess 2; COpen]) =
    [ Trackers.mkTobs [] 0 (Some [0]); Trackers.mkTobs [] 0 (Some [0]); Trackers.mkTobs [1; 0] 0 (Some [2]);
      Trackers.mkTobs [] 0 (Some [2]) ]%N.
Proof. vm_compute. split; reflexivity. Qed.

(* ---- the pinned tree (before the F10 repairs) violates the property: witnesses ---- *)
(* Model/StatePinned.v = state.go as pinned at the three repaired places.  Each history below is an F10
   replay of bin/gen/c10.py; goexec on the pinned tree shows exactly these observations
   (`view` = closed ids, error, Open() after the call). *)
Theorem C10_pinned_never_panics_refuted :
  Forall (call_in_pool pool_a) hist_a /\
  map view (StatePinned.run pool_a NewState hist_a) = [ ([], 0, Ok [0]); ([], 0, Ok [0]); ([1; 0], 0, Panic) ]%N.
Proof. exact pinned_open_panics. Qed.
Print Assumptions C10_pinned_never_panics_refuted.

Theorem C10_pinned_close_bookkeeping_refuted :
  Forall (call_in_pool pool_b) hist_b /\
  map view (StatePinned.run pool_b NewState hist_b) = [ ([], 0, Ok [0]); ([], 0, Ok [0]); ([0], 0, Panic) ]%N.
Proof. exact pinned_close_stale. Qed.
Print Assumptions C10_pinned_close_bookkeeping_refuted.

Theorem C10_pinned_dup_twice_in_row_refuted :
  Forall (call_in_pool pool_c) hist_c /\
  map view (StatePinned.run pool_c NewState hist_c) =
    [ ([], 0, Ok [0]); ([0], 0, Ok [1]); ([1], 0, Ok [1]); ([1], 0, Ok [1]) ]%N.
Proof. exact pinned_vss_accepted_twice. Qed.
Print Assumptions C10_pinned_dup_twice_in_row_refuted.

(* N1: seven descriptors at one signal time: the pinned scan keeps 64 entries (2^6), the repaired one 7 *)
Theorem C10_pinned_scan_doubles_refuted :
  ring_sizes (exec_pinned pool_d NewState hist_d) = [64; 0; 0; 0; 0; 0; 0; 0; 0; 0] /\
  ring_sizes (match exec pool_d NewState hist_d with Ok s => s | _ => NewState end) = [7; 0; 0; 0; 0; 0; 0; 0; 0; 0].
Proof. exact pinned_scan_doubles. Qed.
Print Assumptions C10_pinned_scan_doubles_refuted.

(* non-vacuity: a history with a breakaway, a descriptor closing through it, a resumption, an explicit
   close and a duplicate satisfies the hypotheses (indices in the pool, writes <= 10) and shows every
   kind of observation *)
Example C10_nonvacuous :
  let pool := [ mk 0 0x10 1 true 100 0 0 false 0 0 None;      (* program start *)
                mk 1 0x30 2 true 200 0 0 false 0 0 None;      (* provider ad start *)
                mk 2 0x13 1 true 300 0 0 false 0 0 None;      (* program breakaway *)
                mk 3 0x14 1 true 400 0 0 false 0 0 None;      (* program resumption *)
                mk 4 0x31 2 true 500 0 0 false 0 0 None;      (* provider ad end *)
                mk 5 0x30 9 false 0 0 0 false 0 0 None ] in   (* no PTS *)
  let cs := [CProcess 0; CProcess 1; CProcess 2; CProcess 2; CProcess 3; CProcess 4; CClose 0; CProcess 5; COpen] in
  Forall (call_in_pool pool) cs /\ distinct_pts pool cs = 5 /\
  map (fun o => match o with Some ob => (o_closed ob, o_err ob, o_open ob) | None => ([], 99%N, Panic) end)
      (run pool NewState cs) =
  [ ([], 0, Ok [0]); ([], 0, Ok [0; 1]); ([1], 0, Ok [0]); ([], 31, Ok [0]); ([], 0, Ok [0; 3]);
    ([], 33, Ok [0; 3]); ([0], 0, Ok [3]); ([], 29, Ok [3]); ([], 0, Ok [3]) ]%N.
Proof. split; [repeat constructor; simpl; lia|split; vm_compute; reflexivity]. Qed.
