(* C04 (tie) — /repo/pcr.go was transcribed twice: Module PcrCodec (Model/PcrCodec.v, the codec C04 proves exact,
   every uint64 operation wrapped) and Module Pcr (Model/Pcr.v, the codec the adaptation-field model AF of C03 calls,
   written without wraps).  Here: they are the same functions on the domain of the Go code (six bytes / a uint64),
   C04's codec theorems hold verbatim of Pcr, the two PCR layout specifications (Spec/AFSpec.v pcr_enc / pcr_dec for
   C03, Spec/TimestampSpec.v pcr_bytes / pcr_value for C04) coincide, and AF.SetPCR / PCR / SetOPCR / OPCR are the C04
   codec applied to the field's slice — so the C03 PCR / OPCR read-back theorems (C03_pcr_readback, C03_pcr_last_set,
   restated as C04_af_* in C04e2e.v) rest on the codec C04 verifies.
   Statements only; proofs in Proofs/PcrTie.v. *)
From Gots Require Import Base.Prelude Model.Pcr Model.PcrCodec Model.AF Spec.TimestampSpec Spec.AFSpec
  Proofs.PcrPts Proofs.PcrTie.
Import TsSpec.
Local Open Scope N_scope.
Notation PCR_MAX := (8589934592 * 300) (only parsing).   (* 2^33 * 300 *)
Notation U64 := 18446744073709551616 (only parsing).

(* ---- the two transcriptions are one codec ---- *)
(* ExtractPCR: on every list whose first six elements are bytes (on shorter lists both panic) *)
Theorem C04tie_extract_pcr : forall bs, is_bytes (firstn 6 bs) -> Pcr.extract_pcr bs = PcrCodec.extract_pcr bs.
Proof. exact extract_pcr_tie. Qed.
Print Assumptions C04tie_extract_pcr.
Theorem C04tie_extract_pcr_bytes : forall bs, is_bytes bs -> Pcr.extract_pcr bs = PcrCodec.extract_pcr bs.
Proof. exact extract_pcr_tie_bytes. Qed.
Print Assumptions C04tie_extract_pcr_bytes.
(* InsertPCR: for every uint64 argument and every target *)
Theorem C04tie_insert_pcr : forall b v, v < U64 -> Pcr.insert_pcr b v = PcrCodec.insert_pcr b v.
Proof. exact insert_pcr_tie. Qed.
Print Assumptions C04tie_insert_pcr.

(* ---- the two layout specifications are one ---- *)
Theorem C04tie_specs_agree :
  (forall v, pcr_enc v = pcr_bytes v) /\ (forall a b c d e f, pcr_dec [a; b; c; d; e; f] = pcr_value a b c d e f).
Proof. exact (conj pcr_enc_is_pcr_bytes pcr_dec_is_pcr_value). Qed.
Print Assumptions C04tie_specs_agree.

(* ---- C04's codec theorems for Module Pcr ---- *)
(* C04_pcr_roundtrip *)
Theorem C04tie_pcr_roundtrip : forall v old, v < PCR_MAX -> (6 <= length old)%nat ->
  exists b, Pcr.insert_pcr old v = Ok b /\ Pcr.extract_pcr b = Ok v.
Proof. exact pcr_roundtrip_Pcr. Qed.
Print Assumptions C04tie_pcr_roundtrip.
(* C04_pcr_layout *)
Theorem C04tie_pcr_layout : forall v old, v < U64 -> (6 <= length old)%nat ->
  Pcr.insert_pcr old v = Ok (pcr_bytes v ++ skipn 6 old).
Proof. exact pcr_layout_Pcr. Qed.
Print Assumptions C04tie_pcr_layout.
(* C03_pcr_layout (v < 2^33*300) extended to every uint64 argument *)
Theorem C04tie_pcr6 : forall v, v < U64 -> Pcr.pcr6 v = pcr_bytes v.
Proof. exact pcr6_is_pcr_bytes. Qed.
Print Assumptions C04tie_pcr6.
(* C04_pcr_decode_arith *)
Theorem C04tie_pcr_decode_arith : forall a b c d e f rest, is_bytes [a; b; c; d; e; f] ->
  Pcr.extract_pcr (a :: b :: c :: d :: e :: f :: rest) = Ok (pcr_value a b c d e f).
Proof. exact pcr_decode_arith_Pcr. Qed.
Print Assumptions C04tie_pcr_decode_arith.
(* C04_pcr_panics_iff_short *)
Theorem C04tie_pcr_panics_iff_short : forall b v, v < U64 ->
  (Pcr.insert_pcr b v = Panic <-> (length b < 6)%nat) /\
  (is_bytes (firstn 6 b) -> (Pcr.extract_pcr b = Panic <-> (length b < 6)%nat)).
Proof. exact pcr_panics_iff_short_Pcr. Qed.
Print Assumptions C04tie_pcr_panics_iff_short.

(* ---- the adaptation-field accessors of C03 are the C04 codec on the field's slice ---- *)
Theorem C04tie_af_PCR : forall p, is_bytes p ->
  AF.PCR p = (let? _ := AF.valid p in
              if negb (AF.hasPCR p) then Err E.NoPCR else
              let? s := slice p AF.pcrStart (AF.opcrStart p) in PcrCodec.extract_pcr s).
Proof. exact af_PCR_is_codec. Qed.
Print Assumptions C04tie_af_PCR.
Theorem C04tie_af_OPCR : forall p, is_bytes p ->
  AF.OPCR p = (let? _ := AF.valid p in
               if negb (AF.hasOPCR p) then Err E.NoOPCR else
               let? s := slice p (AF.opcrStart p) (AF.spliceCountdownStart p) in PcrCodec.extract_pcr s).
Proof. exact af_OPCR_is_codec. Qed.
Print Assumptions C04tie_af_OPCR.
Theorem C04tie_af_SetPCR : forall p v, v < U64 ->
  AF.SetPCR p v = (let? _ := AF.valid p in
                   if negb (AF.hasPCR p) then Err E.NoPCR else
                   let? s := slice p AF.pcrStart (AF.opcrStart p) in
                   let? s' := PcrCodec.insert_pcr s v in Ok (blit p AF.pcrStart s')).
Proof. exact af_SetPCR_is_codec. Qed.
Print Assumptions C04tie_af_SetPCR.
Theorem C04tie_af_SetOPCR : forall p v, v < U64 ->
  AF.SetOPCR p v = (let? _ := AF.valid p in
                    if negb (AF.hasOPCR p) then Err E.NoOPCR else
                    let? s := slice p (AF.opcrStart p) (AF.spliceCountdownStart p) in
                    let? s' := PcrCodec.insert_pcr s v in Ok (blit p (AF.opcrStart p) s')).
Proof. exact af_SetOPCR_is_codec. Qed.
Print Assumptions C04tie_af_SetOPCR.

(* non-vacuity, by computation through both copies: the largest PCR, and a value above 2^33*300 (both encoders agree
   on it as well) *)
Example C04tie_example :
  Pcr.insert_pcr [0; 0; 0; 0; 0; 0; 9] (8589934592 * 300 - 1) = PcrCodec.insert_pcr [0; 0; 0; 0; 0; 0; 9] (8589934592 * 300 - 1) /\
  Pcr.insert_pcr [0; 0; 0; 0; 0; 0; 9] (8589934592 * 300 - 1) = Ok [255; 255; 255; 255; 255; 43; 9] /\
  Pcr.extract_pcr [255; 255; 255; 255; 255; 43; 9] = Ok (8589934592 * 300 - 1) /\
  Pcr.insert_pcr [1; 2; 3; 4; 5; 6] 18446744073709551615 = PcrCodec.insert_pcr [1; 2; 3; 4; 5; 6] 18446744073709551615.
Proof. vm_compute. repeat split; reflexivity. Qed.
