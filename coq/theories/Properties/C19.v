(* C19 — the segmentation closing relation follows the rule table; in/out classification; Equal is an
   equivalence (on descriptors whose signal has a PTS) and a congruence for the closing relation.
   Only statements here; proofs in Proofs/SegProofs.v.  Model: Model/SegDesc.v (CanClose, Equal, IsIn,
   IsOut as segmentationdescriptor.go computes them); reference: Spec/SegRules.v (golden table, lists).

   WHAT THE REFERENCE IS (audit item 17).  doc.go carries no prose table, so Spec/SegRules.v (golden, in_types,
   out_types) is a second transcription of the same Go source the model transcribes (the segCloseRules literal with
   the four init() additions, the IsIn / IsOut case lists) -- in another shape (flat relation with conditions
   instead of map-of-maps with 8 rule kinds and a switch), but not an independent document.  The theorems
   therefore say: the evaluation machinery (two lookups, eight kinds, IsIn inside one kind, the sub-segment
   kind) adds and loses nothing relative to the flat table, for all descriptors; C19_in_out_lists in particular
   compares a list with its copy.  The assurance that the CODE has exactly this table and these lists is the
   exhaustive tie of bin/gen/c19.py (every one of the 256 x 256 x 24 cells and all 256 classifications through
   the real API on every run): a changed, dropped or added entry in /repo is reported with the concrete pair. *)
From Gots Require Import Base.Prelude Model.SegDesc Spec.SegRules Proofs.SegProofs.
Import SegDesc SegRules.
Local Open Scope N_scope.

(* CanClose depends only on (type, type, event ids equal, PTS values equal, segnum = segexp of the incoming
   descriptor) and equals the golden table on all of them — for ALL descriptor pairs, not only bytes. *)
Theorem C19_can_close_abstraction : forall d o,
  CanClose d o = closes (ty d) (ty o) (event d =? event o) (ptsv d =? ptsv o) (segnum d =? segexp d).
Proof. exact can_close_abstraction. Qed.
Print Assumptions C19_can_close_abstraction.

(* only listed (incoming, open) type pairs ever close *)
Theorem C19_can_close_listed : forall d o, CanClose d o = true -> exists c, In (ty d, ty o, c) golden.
Proof. exact can_close_listed. Qed.
Print Assumptions C19_can_close_listed.

(* a type without rules closes nothing; exactly 32 types have rules *)
Theorem C19_no_rules_closes_nothing : forall d, has_rules (ty d) = false -> forall o, CanClose d o = false.
Proof. exact no_rules_closes_nothing. Qed.
Print Assumptions C19_no_rules_closes_nothing.

Theorem C19_rule_types : forall t, has_rules t = true <-> In t rule_types.
Proof. exact has_rules_iff. Qed.
Print Assumptions C19_rule_types.

(* classification = the lists of Spec/SegRules.v (a copy of the Go case lists, see the header); no type is both *)
Theorem C19_in_out_lists : forall d,
  (IsIn d = true <-> In (ty d) in_types) /\ (IsOut d = true <-> In (ty d) out_types).
Proof. exact in_out_lists. Qed.
Print Assumptions C19_in_out_lists.

Theorem C19_in_out_disjoint : forall d, ~ (IsIn d = true /\ IsOut d = true).
Proof. exact in_out_disjoint. Qed.
Print Assumptions C19_in_out_disjoint.

(* Equal: symmetric, transitive, reflexive exactly on descriptors whose signal has a PTS *)
Theorem C19_equal_sym : forall a b, Equal a b = Equal b a.
Proof. exact equal_sym. Qed.
Print Assumptions C19_equal_sym.

Theorem C19_equal_trans : forall a b c, Equal a b = true -> Equal b c = true -> Equal a c = true.
Proof. exact equal_trans. Qed.
Print Assumptions C19_equal_trans.

Theorem C19_equal_refl_pts : forall a, haspts a = true -> Equal a a = true.
Proof. exact equal_refl_pts. Qed.
Print Assumptions C19_equal_refl_pts.

Theorem C19_equal_refl_iff : forall a, Equal a a = haspts a.
Proof. exact equal_refl_iff. Qed.
Print Assumptions C19_equal_refl_iff.

(* what Equal means: same type, signal time, event id, segment numbers, sub-segment numbers, both with a PTS *)
Theorem C19_equal_spec : forall d c, Equal d c = true <->
  ty d = ty c /\ haspts d = true /\ haspts c = true /\ ptsv d = ptsv c /\ event d = event c /\
  segnum d = segnum c /\ segexp d = segexp c /\ hassub d = hassub c /\
  (hassub d = true -> subnum d = subnum c /\ subexp d = subexp c).
Proof. exact Equal_spec. Qed.
Print Assumptions C19_equal_spec.

(* congruence, both argument positions: equal descriptors close, and are closed by, the same descriptors *)
Theorem C19_equal_congruence : forall a b, Equal a b = true ->
  forall x, CanClose a x = CanClose b x /\ CanClose x a = CanClose x b.
Proof. exact equal_congruence. Qed.
Print Assumptions C19_equal_congruence.

Theorem C19_equal_congruence_class : forall a b, Equal a b = true -> IsIn a = IsIn b /\ IsOut a = IsOut b.
Proof. exact equal_congruence_class. Qed.
Print Assumptions C19_equal_congruence_class.

(* non-vacuity: two distinct objects that are Equal; a closing pair under each condition kind; a
   descriptor without PTS is not Equal to itself *)
Example C19_nonvacuous :
  let a := mk 0 0x35 77 true 1000 2 2 false 0 0 None in
  let b := mk 1 0x35 77 true 1000 2 2 false 9 9 None in
  let o := mk 2 0x34 77 true 900 1 2 true 1 2 None in
  let n := mk 3 0x35 77 false 1000 2 2 false 0 0 None in
  Equal a b = true /\ CanClose a o = true /\ CanClose b o = true /\ CanClose o a = false /\
  CanClose (mk 4 0x35 78 true 1000 2 2 false 0 0 None) o = false /\
  CanClose (mk 5 0x35 77 true 1000 1 2 false 0 0 None) o = false /\
  CanClose (mk 6 0x34 1 true 900 0 0 false 0 0 None) (mk 7 0x30 2 true 900 0 0 false 0 0 None) = false /\
  CanClose (mk 6 0x34 1 true 901 0 0 false 0 0 None) (mk 7 0x30 2 true 900 0 0 false 0 0 None) = true /\
  Equal n n = false /\ has_rules 0x17 = false /\ IsIn a = true /\ IsOut o = true.
Proof. vm_compute. repeat split; reflexivity. Qed.
