(* C05 — "time and memory bounded by a small multiple of the input size": MEMORY, as theorems about the decoder models.

   For every decoder below: whatever the model returns has a size of at most a constant times the length of the input
   (for the two history-driven objects: of the number of calls).  Size is counted in the variable-length parts of the
   result (lists and byte strings); the fixed-size fields of a result are a constant.  Proofs in Proofs/BoundProofs.v
   (ProgramMap, NewPMT, NewSCTE35), Proofs/EbpBounds.v, Proofs/AccProofs.v, Proofs/StateMem.v.
   (`_partial` would mark a decoder for which only part of the result is covered: none at present.)  Not covered by any theorem here: NewPESHeader (its only variable-length field is
   a sub-slice of the input: C11 / PesTotal.new_pes_header_data_suffix), FilterPMTPacketsToPids (output packets), the
   stream readers (Sync, ReadPAT, ReadPMT: the latter two go through the accumulator and NewPAT / NewPMT).
   TIME is bounded in the models by the fuel of their loops, which the totality theorems (C05Pmt.v, C05Scte.v, ...) show
   is never exhausted: fuel = input length + constant for every loop of the decoders listed here; the running time of
   the REAL code is observed by the goexec watchdog only. *)
From Gots Require Import Base.Prelude Model.Psi Model.Pat Model.Pmt Model.Scte Model.Ebp Model.Accumulator Model.SegDesc Model.State.
From Gots Require Import Proofs.BoundProofs.
From Gots Require Proofs.EbpBounds Proofs.AccProofs Proofs.StateBasics Proofs.StateRun Proofs.StateInv Proofs.StateMem.
Local Open Scope N_scope.

(* ---- PAT.ProgramMap: at most one entry per four bytes of the PAT ---- *)
Theorem C05Bound_program_map : forall pat m, Pat.program_map pat = Ok m -> (4 * List.length m <= List.length pat)%nat.
Proof. exact program_map_bound. Qed.
Print Assumptions C05Bound_program_map.

(* ---- NewPMT ----
   Sizes (definitions in Proofs/BoundProofs.v, repeated here):
     dsum l          := fold_right (fun d a => 2 + len (ddata d) + a) 0 l        two header bytes + data per descriptor
     desc_bytes_of l := fold_right (fun e a => dsum (descs e) + a) 0 l            over the elementary streams
   One elementary stream (and one PID) per five input bytes; the descriptor bytes of all streams together are at most
   52 times the input: the descriptors of one stream take at most ES_info_length + 256 bytes - the last one may extend
   past ES_info_length, because the loop tests the end of a descriptor against len(input) only - and a stream takes
   5 + ES_info_length input bytes, 52 * 5 >= 256.  (In the Go code a descriptor's data is a sub-slice of the input, not a
   copy; the bound is on the bytes reachable through the result.) *)
Theorem C05Bound_new_pmt : forall b p, is_bytes b -> Pmt.new_pmt b = Ok p ->
  5 * len (Pmt.streams p) <= len b /\ len (Pmt.pids p) = len (Pmt.streams p) /\
  desc_bytes_of (Pmt.streams p) <= 52 * len b.
Proof. exact new_pmt_bound. Qed.
Print Assumptions C05Bound_new_pmt.

(* ---- NewSCTE35 ----
   Sizes (definitions in Proofs/BoundProofs.v, repeated here):
     cmd_comps c     := match c with CInsert i => len (i_components i) | _ => 0 end      components of a splice_insert
     seg_weight d    := 6 * len (d_components d) + 2 * len (d_mid d)                      component offsets, MID elements
     descs_weight l  := fold_right (fun d a => 2 + seg_weight d + a) 0 l                  2 per segmentation descriptor + contents
   The variable-length parts of a decoded signal are: the components of a splice_insert, otherDescriptorBytes, the
   segmentation descriptors with their component offsets and MID elements (the UPID bytes of a descriptor / of a MID
   element are sub-slices of the input), and Data(), a sub-slice of the input.  All of it fits into the input: one byte
   per splice_insert component, the stored bytes of the other descriptors, two bytes per segmentation descriptor, six per
   component offset, two per MID element, plus six (descriptor_loop_length and CRC). *)
Theorem C05Bound_new_scte35 : forall data s, is_bytes data -> Scte.new_scte35 data = Ok s ->
  cmd_comps (Scte.s_cmd s) + len (Scte.s_other s) + descs_weight (Scte.s_descs s) + 6 <= len data /\
  len (Scte.s_data s) <= len data.
Proof. exact new_scte35_bound. Qed.
Print Assumptions C05Bound_new_scte35.
(* consequences in plain counts *)
Theorem C05Bound_new_scte35_counts : forall data s, is_bytes data -> Scte.new_scte35 data = Ok s ->
  len (Scte.s_other s) <= len data /\ 2 * len (Scte.s_descs s) <= len data /\
  (forall d, In d (Scte.s_descs s) -> 6 * len (Scte.d_components d) + 2 * len (Scte.d_mid d) <= len data).
Proof. exact new_scte35_counts. Qed.
Print Assumptions C05Bound_new_scte35_counts.

(* ---- ReadEncoderBoundaryPoint (= C05_read_ebp_bounded of C05_ebp.v): at most 256 grouping ids (the loop index is a
   uint8), the reserved bytes are a sub-slice of the input ---- *)
Theorem C05Bound_read_ebp : forall g bs f e, Ebp.ReadEncoderBoundaryPoint g bs = Ok (f, e) ->
  len (Ebp.Grouping e) <= 256 /\ len (Ebp.ReservedBytes e) <= len bs.
Proof. exact EbpBounds.read_ebp_bounded. Qed.
Print Assumptions C05Bound_read_ebp.

(* ---- accumulator (= C17_memory_bound): one packet copy and at most 184 payload bytes per WritePacket call, for every
   predicate ---- *)
Theorem C05Bound_accumulator : forall f ops, Forall AccProofs.wf_op ops ->
  exists a, AccProofs.exec f Accumulator.new_acc ops = Ok a /\
            (List.length (Accumulator.get_packets a) <= AccProofs.writes ops)%nat /\
            (List.length (Accumulator.get_bytes a) <= 184 * AccProofs.writes ops)%nat.
Proof. exact AccProofs.memory_bound. Qed.
Print Assumptions C05Bound_accumulator.

(* ---- state tracker (= C10_bounded_memory): after any history the ring has 10 entries holding together at most one
   descriptor per ProcessDescriptor call, and so does the open stack ---- *)
Theorem C05Bound_tracker : forall pool cs, Forall (StateRun.call_in_pool pool) cs ->
  exists s g, StateInv.gexec pool (State.NewState, StateInv.g0) cs = Ok (s, g) /\ StateRun.exec pool State.NewState cs = Ok s /\
    List.length (State.received s) = 10%nat /\
    (StateMem.stored (State.received s) <= StateMem.n_process cs)%nat /\
    (forall e, In (Some e) (State.received s) -> (List.length (State.edescs e) <= StateMem.n_process cs)%nat) /\
    (List.length (State.open s) <= StateMem.n_process cs)%nat.
Proof. exact StateMem.bounded_memory. Qed.
Print Assumptions C05Bound_tracker.

(* non-vacuity: the PMT payload of bin/gen/c05_seeds.txt (pointer field, one 48-byte section) decodes to three elementary
   streams with 11 descriptor bytes: 5 * 3 <= 49; a PAT with one program gives a one-entry map: 4 * 1 <= 17; the
   103-byte splice_info_section of the seeds (time_signal, a MID descriptor with two elements, a descriptor with two
   component offsets) has weight 20 = 2 + 2*2 + 2 + 6*2 *)
Definition pmt_vec : bytes := [0; 2; 176; 45; 0; 1; 203; 0; 0; 224; 101; 240; 6; 5; 4; 67; 85; 69; 73; 27; 224; 101; 240; 5; 14; 3; 0; 4; 176; 15; 224; 102; 240; 6; 10; 4; 101; 110; 103; 0; 134; 224; 110; 240; 0; 127; 201; 173; 50].
Definition scte_vec : bytes := [0; 252; 48; 99; 0; 1; 255; 255; 207; 199; 0; 255; 240; 5; 6; 254; 0; 0; 48; 57; 0; 77; 2; 45; 67; 85; 69; 73; 0; 0; 0; 0; 127; 64; 0; 0; 0; 13; 187; 160; 13; 24; 9; 10; 66; 76; 65; 67; 75; 79; 85; 84; 58; 120; 9; 10; 66; 76; 65; 67; 75; 79; 85; 84; 58; 120; 52; 0; 0; 2; 28; 67; 85; 69; 73; 0; 0; 0; 0; 127; 0; 2; 0; 254; 0; 0; 0; 0; 0; 254; 0; 0; 0; 0; 0; 0; 16; 0; 0; 241; 36; 206; 18].
Example C05Bound_nonvacuous :
  (exists p, Pmt.new_pmt pmt_vec = Ok p /\ len (Pmt.streams p) = 3 /\ desc_bytes_of (Pmt.streams p) = 11 /\ len pmt_vec = 49) /\
  (exists m, Pat.program_map [0; 0; 176; 13; 0; 1; 203; 0; 0; 0; 1; 224; 100; 104; 214; 132; 46] = Ok m /\ List.length m = 1%nat) /\
  (exists s, Scte.new_scte35 scte_vec = Ok s /\ descs_weight (Scte.s_descs s) = 20 /\ len (Scte.s_descs s) = 2 /\ len scte_vec = 103).
Proof. repeat split; eexists; vm_compute; repeat split. Qed.
