(* C05 — the MODEL side of the C05 run never answers "panic" or "hang".

   bin/check C05 sends every case `tot.<entry> <bytes> [n]` to goexec (the real library) and to modelexec (the
   ops of Exec/TotExec.v: the same calls over the models, in the order and with the argument preparation of
   goexec/total.go) and compares the outcome classes.  The theorems below say that for EVERY argument list the
   model op answers neither [2 x] (some modelled call returned Panic) nor [3] (Diverge); with the run this ties
   the totality theorems of the other C05 files to the code: a real panic on an input is then a disagreement
   with a proved model answer, and a model that started to panic would break these theorems.
   `never_bad f := forall a, f a <> reply CPanic /\ f a <> reply CDiverge` (Exec/TotExec.v).
   Proofs in Proofs/TotExecTotal.v, from: C05_packet_accessors_total, C05_set_payload_total, C05_af_setters_total,
   C05_af_getters_total, C05_new_pes_header_total, C05_pkt_pes_header_total, C05_extract_time_panics_iff (C05Pkt.v);
   C05_new_pat_total, C05_new_pat_getters_total, C05_read_pat_total, C05_is_pmt_total, C05_descriptor_decoders_total,
   C05_stream_max_bit_rate_total (C05Pat.v); C05_new_pmt_total .. C05_filter_pmt_packets_total (C05Pmt.v);
   C05_read_ebp_total_patched (C05_ebp.v); C05_new_scte35_total (C05Scte.v); C16_bufio_total, C17 (accumulator step),
   C18_write_total, C18_read_from_total; the printer theorems below (Proofs/PrintersTotal.v); process_I1 / Open_ok of C10.

   What a group covers is written next to its definition in Exec/TotExec.v.  `_partial` would mark a group in which
   some REAL calls have no model; since the printers (Model/Printers.v: the index / slice / decoder operations of every
   String() / Format() / fmt %v reachable from the groups, not their text), psi.CanBuildPMT and the state-tracker calls
   are modelled, no group carries it.  What stays outside every model: the TEXT the printers produce, the clock value
   behind EBPSuccessReadTime (the call is a field read), and package fmt itself (its rule "call Error()/String() when the
   operand has one, else print the fields" is transcribed in Model/Printers.v; its recovery of a panicking String() is
   deliberately not used).  Calls whose model is a plain Gallina function without Res type are total by construction. *)
From Gots Require Import Base.Prelude Exec.ExecBase Exec.TotExec Proofs.TotExecTotal.
From Gots Require Import Model.Pmt Model.PmtDesc Model.Pes Model.Ebp Model.Scte Model.ScteEnc Model.Printers Proofs.PrintersTotal.

(* ---- the printers: "any object returned without error can be PRINTED without panicking" ----
   A printer model is a `Res unit` with no error path, so totality is `= Ok tt`.  Each statement holds for every object
   of the model type, hence for every object the decoder model returns (the hypothesis `decoder b = Ok x` is kept in the
   statements about decoded objects to show the shape of the property; it is not needed). *)
Theorem C05_print_pmt_descriptor : forall d, Printers.desc_format d = Ok tt /\ Printers.desc_string d = Ok tt.
Proof. exact print_pmt_descriptor_stmt. Qed.
Print Assumptions C05_print_pmt_descriptor.
Theorem C05_print_pmt : forall b p, Pmt.new_pmt b = Ok p ->
  Printers.pmt_string p = Ok tt /\ (forall e, In e (Pmt.streams p) -> Printers.es_string e = Ok tt) /\
  (forall rm, Printers.pmt_string (Pmt.remove_elementary_streams p rm) = Ok tt).
Proof. exact print_pmt_stmt. Qed.
Print Assumptions C05_print_pmt.
Theorem C05_print_read_pmt : forall b pid p, Pmt.read_pmt b pid = Ok p -> Printers.pmt_string p = Ok tt.
Proof. exact print_read_pmt_stmt. Qed.
Print Assumptions C05_print_read_pmt.
Theorem C05_print_pes_header : forall b h, Pes.new_pes_header b = Ok h ->
  Printers.pes_fmt_v h = Ok tt /\ Printers.pes_format h = Ok tt.
Proof. exact print_pes_header_stmt. Qed.
Print Assumptions C05_print_pes_header.
Theorem C05_print_ebp : forall g b fe, Ebp.ReadEncoderBoundaryPoint g b = Ok fe -> Printers.ebp_sprint (snd fe) = Ok tt.
Proof. exact print_ebp_stmt. Qed.
Print Assumptions C05_print_ebp.
(* String() of a signal, and of the signal as String() itself leaves it (it stores the re-encoded data) *)
Theorem C05_print_scte35 : forall b s, Scte.new_scte35 b = Ok s ->
  Printers.scte_string s = Ok tt /\ Printers.scte_string (Printers.scte_after_string s) = Ok tt.
Proof. exact print_scte35_stmt. Qed.
Print Assumptions C05_print_scte35.
(* the slice expression String() ends with is in range because UpdateData ran first: the stored data ends with the CRC *)
Theorem C05_print_scte35_crc_slice : forall s, 4 <= len (Scte.s_data (snd (ScteEnc.update_data s))).
Proof. exact update_data_len. Qed.
Print Assumptions C05_print_scte35_crc_slice.
(* the index-using getters of a segmentation descriptor *)
Theorem C05_seg_getters_total : forall d,
  (exists o, Printers.stream_switch_signal_id d = Ok o) /\ Printers.seg_mid d = Ok tt /\ Printers.seg_components d = Ok tt.
Proof. exact seg_getters_total_stmt. Qed.
Print Assumptions C05_seg_getters_total.
(* a fresh tracker fed with the descriptors of any signal, then Open() *)
Theorem C05_tracker_calls_total : forall s, Printers.tracker_calls s = Ok tt.
Proof. exact tracker_calls_total. Qed.
Print Assumptions C05_tracker_calls_total.
(* non-vacuity: the modelled operations can panic (short data, index past the end), and a stream-identifier descriptor
   with one data byte is printed through the data[0] branch *)
Example C05_print_ops_can_panic :
  Printers.tail4 [1; 2; 3] = Panic /\ Printers.at_index [1; 2] 2 = Panic /\
  Printers.desc_decode (PmtDesc.mk 82 [7]) = Ok tt /\ idx ([] : bytes) 0 = Panic.
Proof. repeat split. Qed.

(* ---- packet / adaptation field: every call of the group is modelled ---- *)
Theorem C05Tot_pkt_read : never_bad (group g_pkt_read e_pkt_read).
Proof. exact (group_total _ _ pkt_read_ok). Qed.
Print Assumptions C05Tot_pkt_read.
Theorem C05Tot_pkt_setpayload : never_bad (group g_pkt_setpayload e_pkt_setpayload).
Proof. exact (group_total _ _ pkt_setpayload_ok). Qed.
Print Assumptions C05Tot_pkt_setpayload.
Theorem C05Tot_pkt_setpayloadfn : never_bad (group g_pkt_setpayloadfn e_none).
Proof. exact (group_total _ _ pkt_setpayloadfn_ok). Qed.
Print Assumptions C05Tot_pkt_setpayloadfn.
Theorem C05Tot_pkt_setafc : never_bad (group g_pkt_setafc e_pkt_setafc).
Proof. exact (group_total _ _ pkt_setafc_ok). Qed.
Print Assumptions C05Tot_pkt_setafc.
Theorem C05Tot_af_getters : never_bad (group g_af_getters e_af_getters).
Proof. exact (group_total _ _ af_getters_ok). Qed.
Print Assumptions C05Tot_af_getters.
Theorem C05Tot_af_setters : never_bad (group g_af_setters e_af_setters).
Proof. exact (group_total _ _ af_setters_ok). Qed.
Print Assumptions C05Tot_af_setters.
Theorem C05Tot_affn : never_bad (group g_affn e_none).
Proof. exact (group_total _ _ affn_ok). Qed.
Print Assumptions C05Tot_affn.

(* ---- psi ---- *)
Theorem C05Tot_psi_accessors : never_bad (group g_psi_accessors e_psi_accessors).
Proof. exact (group_total _ _ psi_accessors_ok). Qed.
Print Assumptions C05Tot_psi_accessors.
Theorem C05Tot_psi_pat : never_bad (group g_psi_pat e_psi_pat).
Proof. exact (group_total _ _ psi_pat_ok). Qed.
Print Assumptions C05Tot_psi_pat.
Theorem C05Tot_psi_pmt : never_bad (group g_psi_pmt e_psi_pmt).
Proof. exact (group_total _ _ psi_pmt_ok). Qed.
Print Assumptions C05Tot_psi_pmt.
Theorem C05Tot_psi_done : never_bad (group g_psi_done e_psi_done).
Proof. exact (group_total _ _ psi_done_ok). Qed.
Print Assumptions C05Tot_psi_done.
Theorem C05Tot_psi_crc : never_bad (group g_psi_crc e_psi_crc).
Proof. exact (group_total _ _ psi_crc_ok). Qed.
Print Assumptions C05Tot_psi_crc.
Theorem C05Tot_psi_filter : never_bad (group g_psi_filter e_psi_filter).
Proof. exact (group_total _ _ psi_filter_ok). Qed.
Print Assumptions C05Tot_psi_filter.
Theorem C05Tot_psi_readpat : never_bad (group g_psi_readpat e_psi_readpat).
Proof. exact (group_total _ _ psi_readpat_ok). Qed.
Print Assumptions C05Tot_psi_readpat.
Theorem C05Tot_psi_readpmt : never_bad (group g_psi_readpmt e_psi_readpmt).
Proof. exact (group_total _ _ psi_readpmt_ok). Qed.
Print Assumptions C05Tot_psi_readpmt.

(* ---- pes / ebp / scte35 ---- *)
Theorem C05Tot_pes_new : never_bad (group g_pes_new e_pes_new).
Proof. exact (group_total _ _ pes_new_ok). Qed.
Print Assumptions C05Tot_pes_new.
(* EBPSuccessReadTime returns the stored clock reading: a field read; the value is not modelled *)
Theorem C05Tot_ebp_read : never_bad (group g_ebp_read e_ebp_read).
Proof. exact (group_total _ _ ebp_read_ok). Qed.
Print Assumptions C05Tot_ebp_read.
(* the re-encoded bytes are normalised with w8 before they are decoded again (see g_scte_new) *)
Theorem C05Tot_scte_new : never_bad (group g_scte_new e_scte_new).
Proof. exact (group_total _ _ scte_new_ok). Qed.
Print Assumptions C05Tot_scte_new.

(* ---- streams: over the model of bufio.Reader / the scripted reader and writer oracles ---- *)
Theorem C05Tot_pkt_sync : never_bad (group g_pkt_sync e_pkt_sync).
Proof. exact (group_total _ _ pkt_sync_ok). Qed.
Print Assumptions C05Tot_pkt_sync.
Theorem C05Tot_pkt_acc : never_bad (group g_pkt_acc e_none).
Proof. exact (group_total _ _ pkt_acc_ok). Qed.
Print Assumptions C05Tot_pkt_acc.
Theorem C05Tot_pkt_writer : never_bad (group g_pkt_writer e_none).
Proof. exact (group_total _ _ pkt_writer_ok). Qed.
Print Assumptions C05Tot_pkt_writer.

(* ---- the op table as the executor sees it ---- *)
Theorem C05Tot_all_ops : Forall (fun o : op => never_bad (snd o)) TotExec.ops.
Proof. exact all_ops_total. Qed.
Print Assumptions C05Tot_all_ops.
Theorem C05Tot_ops_names : map fst TotExec.ops =
  ["tot.pkt.read"; "tot.pkt.setpayload"; "tot.pkt.setpayloadfn"; "tot.pkt.setafc"; "tot.af.getters"; "tot.af.setters";
   "tot.affn"; "tot.psi.accessors"; "tot.psi.pat"; "tot.psi.pmt"; "tot.psi.done"; "tot.psi.crc"; "tot.psi.filter";
   "tot.psi.readpat"; "tot.psi.readpmt"; "tot.pes.new"; "tot.ebp.read"; "tot.scte.new"; "tot.pkt.sync"; "tot.pkt.acc";
   "tot.pkt.writer"]%string.
Proof. exact ops_names. Qed.
Print Assumptions C05Tot_ops_names.

(* ---- the accept / reject bit (audit 1, item 5: without it the model side is the constant [0 1]) ----
   On every byte string every group answers [0 1 e], where e is computed by the e_* function of the group from the Ok / Err
   of the model of its primary decoder call; goexec reports the same bit of the real call, and bin/check compares them, so
   the C05 run itself ties WHICH inputs each decoder accepts to the models the totality theorems are about. *)
Theorem C05Tot_all_groups_answer : Forall (fun g => answers (snd (fst g)) (snd g)) TotExec.groups.
Proof. exact all_groups_answer. Qed.
Print Assumptions C05Tot_all_groups_answer.
Theorem C05Tot_reject_bits : forall b n,
  (e_psi_pat b n = true <-> exists e, Model.Pat.Pat.new_pat b = Err e) /\
  (e_psi_pmt b n = true <-> exists e, Pmt.new_pmt b = Err e) /\
  (e_psi_done b n = true <-> exists e, Pmt.done_func b = Err e) /\
  (e_psi_crc b n = true <-> exists e, Pmt.extract_crc b = Err e) /\
  (e_psi_readpmt b n = true <-> exists e, Pmt.read_pmt b (readpmt_pid b n) = Err e) /\
  (e_pes_new b n = true <-> exists e, Pes.new_pes_header b = Err e) /\
  (e_ebp_read b n = true <-> exists e, Ebp.ReadEncoderBoundaryPoint true b = Err e) /\
  (e_scte_new b n = true <-> exists e, Scte.new_scte35 b = Err e) /\
  (e_psi_accessors b n = true <-> exists e, Model.Psi.Psi.table_header_from_bytes b = Err e) /\
  (e_pkt_read b n = true <-> exists e, Model.Packet.Packet.Payload_fn (pkt_of b) = Err e).
Proof. exact reject_bits. Qed.
Print Assumptions C05Tot_reject_bits.

(* non-vacuity: the three classes are three different replies; a panicking group function IS answered [2 x];
   concrete cases are answered [0 1 1] (rejected) and [0 1 0] (accepted) *)
Theorem C05Tot_replies_distinct :
  reply COk <> reply CPanic /\ reply COk <> reply CDiverge /\ reply CPanic <> reply CDiverge /\
  group (fun _ _ => CPanic) e_none [VB [71]] = reply CPanic /\
  group g_pkt_read e_pkt_read [VB [71]; VI 15%Z] = VL [VI 0%Z; VI 1%Z; VI 1%Z] /\
  group g_pkt_read e_pkt_read [VB [71; 0; 0; 16]; VI 15%Z] = VL [VI 0%Z; VI 1%Z; VI 0%Z] /\
  group g_pes_new e_pes_new [VB []] = VL [VI 0%Z; VI 1%Z; VI 1%Z] /\
  group g_pes_new e_pes_new [VB [0; 0; 1; 224; 0; 0; 128; 0; 0]] = VL [VI 0%Z; VI 1%Z; VI 0%Z].
Proof. exact replies_distinct. Qed.
Print Assumptions C05Tot_replies_distinct.
