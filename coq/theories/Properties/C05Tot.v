(* C05 — the MODEL side of the C05 run never answers "panic" or "hang".

   bin/check C05 sends every case `tot.<entry> <bytes> [n]` to goexec (the real library) and to modelexec (the
   ops of Exec/TotExec.v: the same calls over the models, in the order and with the argument preparation of
   goexec/total.go) and compares the outcome classes.  The theorems below say that for EVERY argument list the
   model op answers neither [2 x] (some modelled call returned Panic) nor [3] (Diverge); with the run this ties
   the totality theorems of the other C05 files to the code: a real panic on an input is then a disagreement
   with a proved model answer, and a model that started to panic would break these theorems.
   `never_bad f := forall a, f a <> reply CPanic /\ f a <> reply CDiverge` (Exec/TotExec.v).
   Proofs in Proofs/TotExecTotal.v, from: C05_packet_accessors_total, C05_set_payload_total, C05_af_setters_total,
   C05_af_getters_total, C05_new_pes_header_total, C05_pkt_pes_header_total, C05_extract_time_panics_iff (C05Pkt.v);
   C05_new_pat_total, C05_new_pat_getters_total, C05_read_pat_total, C05_is_pmt_total, C05_descriptor_decoders_total,
   C05_stream_max_bit_rate_total (C05Pat.v); C05_new_pmt_total .. C05_filter_pmt_packets_total (C05Pmt.v);
   C05_read_ebp_total_patched (C05_ebp.v); C05_new_scte35_total (C05Scte.v); C16_bufio_total, C17 (accumulator step),
   C18_write_total, C18_read_from_total.

   What a group covers is written next to its definition in Exec/TotExec.v.  `_partial` marks the groups in which
   some REAL calls have no model (printers, the state tracker): for those calls the C05 run rests on the real side
   alone.  Calls whose model is a plain Gallina function without Res type are total by construction. *)
From Gots Require Import Base.Prelude Exec.ExecBase Exec.TotExec Proofs.TotExecTotal.

(* ---- packet / adaptation field: every call of the group is modelled ---- *)
Theorem C05Tot_pkt_read : never_bad (group g_pkt_read).
Proof. exact (group_total _ pkt_read_ok). Qed.
Print Assumptions C05Tot_pkt_read.
Theorem C05Tot_pkt_setpayload : never_bad (group g_pkt_setpayload).
Proof. exact (group_total _ pkt_setpayload_ok). Qed.
Print Assumptions C05Tot_pkt_setpayload.
Theorem C05Tot_pkt_setpayloadfn : never_bad (group g_pkt_setpayloadfn).
Proof. exact (group_total _ pkt_setpayloadfn_ok). Qed.
Print Assumptions C05Tot_pkt_setpayloadfn.
Theorem C05Tot_pkt_setafc : never_bad (group g_pkt_setafc).
Proof. exact (group_total _ pkt_setafc_ok). Qed.
Print Assumptions C05Tot_pkt_setafc.
Theorem C05Tot_af_getters : never_bad (group g_af_getters).
Proof. exact (group_total _ af_getters_ok). Qed.
Print Assumptions C05Tot_af_getters.
Theorem C05Tot_af_setters : never_bad (group g_af_setters).
Proof. exact (group_total _ af_setters_ok). Qed.
Print Assumptions C05Tot_af_setters.
Theorem C05Tot_affn : never_bad (group g_affn).
Proof. exact (group_total _ affn_ok). Qed.
Print Assumptions C05Tot_affn.

(* ---- psi ---- *)
(* psi.CanBuildPMT(b, n) has no model of its own *)
Theorem C05Tot_psi_accessors_partial : never_bad (group g_psi_accessors).
Proof. exact (group_total _ psi_accessors_ok). Qed.
Print Assumptions C05Tot_psi_accessors_partial.
Theorem C05Tot_psi_pat : never_bad (group g_psi_pat).
Proof. exact (group_total _ psi_pat_ok). Qed.
Print Assumptions C05Tot_psi_pat.
(* String() of the PMT and Format() of its descriptors are not modelled *)
Theorem C05Tot_psi_pmt_partial : never_bad (group g_psi_pmt).
Proof. exact (group_total _ psi_pmt_ok). Qed.
Print Assumptions C05Tot_psi_pmt_partial.
Theorem C05Tot_psi_done : never_bad (group g_psi_done).
Proof. exact (group_total _ psi_done_ok). Qed.
Print Assumptions C05Tot_psi_done.
Theorem C05Tot_psi_crc : never_bad (group g_psi_crc).
Proof. exact (group_total _ psi_crc_ok). Qed.
Print Assumptions C05Tot_psi_crc.
Theorem C05Tot_psi_filter : never_bad (group g_psi_filter).
Proof. exact (group_total _ psi_filter_ok). Qed.
Print Assumptions C05Tot_psi_filter.
Theorem C05Tot_psi_readpat : never_bad (group g_psi_readpat).
Proof. exact (group_total _ psi_readpat_ok). Qed.
Print Assumptions C05Tot_psi_readpat.
(* String() of the PMT is not modelled *)
Theorem C05Tot_psi_readpmt_partial : never_bad (group g_psi_readpmt).
Proof. exact (group_total _ psi_readpmt_ok). Qed.
Print Assumptions C05Tot_psi_readpmt_partial.

(* ---- pes / ebp / scte35 ---- *)
(* fmt %v and Format() of the header are not modelled *)
Theorem C05Tot_pes_new_partial : never_bad (group g_pes_new).
Proof. exact (group_total _ pes_new_ok). Qed.
Print Assumptions C05Tot_pes_new_partial.
(* fmt.Sprint of the EBP and EBPSuccessReadTime (a clock reading) are not modelled *)
Theorem C05Tot_ebp_read_partial : never_bad (group g_ebp_read).
Proof. exact (group_total _ ebp_read_ok). Qed.
Print Assumptions C05Tot_ebp_read_partial.
(* String() and the state-tracker calls at the end of the group are not modelled; the re-encoded bytes are
   normalised with w8 before they are decoded again (see g_scte_new) *)
Theorem C05Tot_scte_new_partial : never_bad (group g_scte_new).
Proof. exact (group_total _ scte_new_ok). Qed.
Print Assumptions C05Tot_scte_new_partial.

(* ---- streams: over the model of bufio.Reader / the scripted reader and writer oracles ---- *)
Theorem C05Tot_pkt_sync : never_bad (group g_pkt_sync).
Proof. exact (group_total _ pkt_sync_ok). Qed.
Print Assumptions C05Tot_pkt_sync.
Theorem C05Tot_pkt_acc : never_bad (group g_pkt_acc).
Proof. exact (group_total _ pkt_acc_ok). Qed.
Print Assumptions C05Tot_pkt_acc.
Theorem C05Tot_pkt_writer : never_bad (group g_pkt_writer).
Proof. exact (group_total _ pkt_writer_ok). Qed.
Print Assumptions C05Tot_pkt_writer.

(* ---- the op table as the executor sees it ---- *)
Theorem C05Tot_all_ops : Forall (fun o : op => never_bad (snd o)) TotExec.ops.
Proof. exact all_ops_total. Qed.
Print Assumptions C05Tot_all_ops.
Theorem C05Tot_ops_names : map fst TotExec.ops =
  ["tot.pkt.read"; "tot.pkt.setpayload"; "tot.pkt.setpayloadfn"; "tot.pkt.setafc"; "tot.af.getters"; "tot.af.setters";
   "tot.affn"; "tot.psi.accessors"; "tot.psi.pat"; "tot.psi.pmt"; "tot.psi.done"; "tot.psi.crc"; "tot.psi.filter";
   "tot.psi.readpat"; "tot.psi.readpmt"; "tot.pes.new"; "tot.ebp.read"; "tot.scte.new"; "tot.pkt.sync"; "tot.pkt.acc";
   "tot.pkt.writer"]%string.
Proof. exact ops_names. Qed.
Print Assumptions C05Tot_ops_names.

(* non-vacuity: the three classes are three different replies; a panicking group function IS answered [2 x];
   a concrete case is answered [0 1] *)
Theorem C05Tot_replies_distinct :
  reply COk <> reply CPanic /\ reply COk <> reply CDiverge /\ reply CPanic <> reply CDiverge /\
  group (fun _ _ => CPanic) [VB [71]] = reply CPanic /\ group g_pkt_read [VB [71]; VI 15%Z] = reply COk.
Proof. exact replies_distinct. Qed.
Print Assumptions C05Tot_replies_distinct.
