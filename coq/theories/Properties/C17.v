(* C17 — Payload accumulator returns exactly the payloads since the last unit start.
   Statements only; proofs in Proofs/AccProofs.v.  Model: Model/Accumulator.v; abstract
   accumulator and payload_of: Spec/AccSpecDef.v (Module AccSpec).

   ORACLE: the completion predicate f : accumulated bytes -> (done, err) is ANY function
   (universally quantified in every theorem); it is assumed not to modify the slice it is given.
   Packets are [188]byte arrays (`wf_pkt`: length 188; the Go type guarantees it).
   Reading of "accepted" (DESIGN C17): a packet started by a unit start that has no usable
   payload is listed in Packets(), contributes no bytes and is reported with an error.
   Not expressible in a value model, checked by goexec on every case instead: Packets()/Bytes()
   return independent copies; the packets given to WritePacket are never modified. *)
From Gots Require Import Base.Prelude Model.Accumulator Spec.AccSpecDef Proofs.AccProofs Proofs.AccHistory.
Import Accumulator AccSpec.
Local Open Scope N_scope.

(* refinement: for every predicate and every list of WritePacket/Reset/Bytes/Packets calls the
   model produces exactly the observations of the abstract accumulator (errors of WritePacket,
   contents of Bytes() and Packets()) *)
Theorem C17_refines : forall f ops, Forall wf_op ops ->
  exists outs, run f new_acc ops = Ok outs /\ map abs_out outs = a_run f ANone (map abs_op ops).
Proof. exact refines. Qed.
Print Assumptions C17_refines.

(* in every reachable state Bytes() is the concatenation of the payloads of Packets() *)
Theorem C17_bytes_are_payloads : forall f ops, Forall wf_op ops ->
  exists a, exec f new_acc ops = Ok a /\ get_bytes a = bytes_of (get_packets a).
Proof. exact bytes_are_payloads. Qed.
Print Assumptions C17_bytes_are_payloads.

(* packets are refused with an error until the first unit start, and nothing is accumulated *)
Theorem C17_refused_before_first_pusi : forall f pkts,
  Forall wf_pkt pkts -> Forall (fun p => has_pusi p = false) pkts ->
  run f new_acc (map OWrite pkts ++ [OBytes; OPackets])
  = Ok (map (fun _ => RWrite 188%Z (Some E.NoPayloadUnitStartIndicator)) pkts ++ [RBytes []; RPackets []]).
Proof. exact refused_before_first_pusi. Qed.
Print Assumptions C17_refused_before_first_pusi.

(* a unit start discards what came before: the rest of the history is observed as on a new accumulator *)
Theorem C17_pusi_restarts : forall f a ps pkt ops,
  R a (AAcc ps) -> wf_pkt pkt -> has_pusi pkt = true -> Forall wf_op ops ->
  exists o1 o2, run f a (OWrite pkt :: ops) = Ok o1 /\ run f new_acc (OWrite pkt :: ops) = Ok o2 /\
                map abs_out o1 = map abs_out o2.
Proof. exact pusi_restarts. Qed.
Print Assumptions C17_pusi_restarts.

(* completion exactly at the first packet after which the predicate holds; later packets are
   refused; Bytes()/Packets() stay those of the completed unit.  (Stated on the abstract machine,
   which the model refines by C17_refines.) *)
Theorem C17_done_exactly_first : forall f p0 before p after,
  has_pusi p0 = true -> unit_ok p0 ->
  Forall (fun q => has_pusi q = false /\ unit_ok q) (before ++ [p]) ->
  (forall j, (j <= length before)%nat -> f (bytes_of (firstn (S j) (p0 :: before))) = (false, None)) ->
  f (bytes_of (p0 :: before ++ [p])) = (true, None) ->
  a_run f ANone (map AWrite (p0 :: before ++ [p] ++ after) ++ [ABytes; APackets])
  = map (fun _ => SWrite None) (p0 :: before) ++ [SWrite (Some E.AccumulatorDone)]
    ++ map (fun _ => SWrite (Some E.AccumulatorDone)) after
    ++ [SBytes (bytes_of (p0 :: before ++ [p])); SPackets (p0 :: before ++ [p])].
Proof. exact done_exactly_first. Qed.
Print Assumptions C17_done_exactly_first.

(* the same clause on the model itself (composition with C17_refines) *)
Theorem C17_done_exactly_first_model : forall f p0 before p after,
  Forall wf_pkt (p0 :: before ++ [p] ++ after) ->
  has_pusi p0 = true -> unit_ok p0 ->
  Forall (fun q => has_pusi q = false /\ unit_ok q) (before ++ [p]) ->
  (forall j, (j <= length before)%nat -> f (bytes_of (firstn (S j) (p0 :: before))) = (false, None)) ->
  f (bytes_of (p0 :: before ++ [p])) = (true, None) ->
  exists outs,
    run f new_acc (map OWrite (p0 :: before ++ [p] ++ after) ++ [OBytes; OPackets]) = Ok outs /\
    map abs_out outs
    = map (fun _ => SWrite None) (p0 :: before) ++ [SWrite (Some E.AccumulatorDone)]
      ++ map (fun _ => SWrite (Some E.AccumulatorDone)) after
      ++ [SBytes (bytes_of (p0 :: before ++ [p])); SPackets (p0 :: before ++ [p])].
Proof. exact done_exactly_first_model. Qed.
Print Assumptions C17_done_exactly_first_model.

(* refused once complete (model level): error, count 0, state untouched *)
Theorem C17_done_refuses : forall f a pkt, state a = stateDone ->
  write_packet f a pkt = Ok (a, (0%Z, Some E.AccumulatorDone)).
Proof. exact done_refuses. Qed.
Print Assumptions C17_done_refuses.

(* after Reset the accumulator behaves like a new one *)
Theorem C17_reset_fresh : forall f a ops,
  run f a (OReset :: ops) = let? rs := run f new_acc ops in Ok (RReset :: rs).
Proof. exact reset_fresh. Qed.
Print Assumptions C17_reset_fresh.

(* the int result: 0 when refused after completion, 188 otherwise *)
Theorem C17_write_count : forall f a s pkt, wf_pkt pkt -> R a s ->
  exists a' e, write_packet f a pkt = Ok (a', (match s with ADone _ => 0%Z | _ => 188%Z end, e)).
Proof. exact write_count. Qed.
Print Assumptions C17_write_count.

(* the model's payload extraction is the ISO payload (or the error the property speaks of) *)
Theorem C17_payload_spec : forall pkt, wf_pkt pkt ->
  payload pkt = Ok (match payload_of pkt with Some b => inl b | None => inr (payload_err pkt) end).
Proof. exact payload_spec. Qed.
Print Assumptions C17_payload_spec.

(* C05 for these entry points: total for every history and EVERY predicate oracle *)
Theorem C17_run_total : forall f ops, Forall wf_op ops ->
  run f new_acc ops <> Panic /\ run f new_acc ops <> Diverge.
Proof. exact run_total. Qed.
Print Assumptions C17_run_total.

(* C05, memory: after any history the accumulator holds at most one packet copy per WritePacket call
   and at most 184 payload bytes per such call *)
Theorem C17_memory_bound : forall f ops, Forall wf_op ops ->
  exists a, exec f new_acc ops = Ok a /\
            (length (get_packets a) <= writes ops)%nat /\
            (length (get_bytes a) <= 184 * writes ops)%nat.
Proof. exact memory_bound. Qed.
Print Assumptions C17_memory_bound.

(* ======== the clauses over ARBITRARY histories ========
   Below, `ops` is any list of WritePacket/Reset/Bytes/Packets calls (Forall wf_op: the packets have
   188 bytes), f any predicate, and a "reachable state" is the state  exec f new_acc ops  reached by
   such a history.  `holds f b` (Spec/AccSpecDef.v): f b = (true, nil error).  A packet is "accepted"
   when the accumulator is not complete and (it is accumulating or the packet is a unit start); the
   accepted packet is appended to what is kept: nothing if it is a unit start, else the current unit. *)

(* completion exactly at the first packet, as an invariant of every reachable state:
   - the state is starting / accumulating / done; in the starting state nothing is held;
   - accumulating: the predicate has not held after ANY packet with payload of the current unit;
   - done: the unit is non-empty, its LAST packet has a payload, the predicate holds on the
     accumulated bytes, and it did not hold after any earlier packet with payload of the unit. *)
Theorem C17_completion_invariant : forall f ops, Forall wf_op ops ->
  exists a, exec f new_acc ops = Ok a /\
    let ps := get_packets a in
    (state a = stateStarting \/ state a = stateAccumulating \/ state a = stateDone) /\
    (state a = stateStarting -> ps = [] /\ get_bytes a = []) /\
    (state a = stateAccumulating ->
       ps <> [] /\ get_bytes a = bytes_of ps /\
       forall k, (0 < k <= length ps)%nat -> payload_of (nth (k - 1) ps []) <> None ->
                 holds f (bytes_of (firstn k ps)) = false) /\
    (state a = stateDone ->
       ps <> [] /\ payload_of (last ps []) <> None /\ holds f (bytes_of ps) = true /\
       get_bytes a = bytes_of ps /\
       forall k, (0 < k < length ps)%nat -> payload_of (nth (k - 1) ps []) <> None ->
                 holds f (bytes_of (firstn k ps)) = false).
Proof. exact completion_invariant. Qed.
Print Assumptions C17_completion_invariant.

(* the same invariant on the abstract accumulator (any operation list, no well-formedness needed) *)
Theorem C17_completion_invariant_abs : forall f ops,
  match a_exec f ANone ops with
  | ANone => True
  | AAcc ps =>
      ps <> [] /\ unit_shape ps /\
      forall k, (0 < k <= length ps)%nat -> payload_of (nth (k - 1) ps []) <> None ->
                holds f (bytes_of (firstn k ps)) = false
  | ADone ps =>
      ps <> [] /\ unit_shape ps /\ payload_of (last ps []) <> None /\ holds f (bytes_of ps) = true /\
      forall k, (0 < k < length ps)%nat -> payload_of (nth (k - 1) ps []) <> None ->
                holds f (bytes_of (firstn k ps)) = false
  end.
Proof. exact completion_invariant_abs. Qed.
Print Assumptions C17_completion_invariant_abs.

(* the model state reached by a history is related (R) to the abstract state reached by it *)
Theorem C17_reach_related : forall f ops a, Forall wf_op ops -> exec f new_acc ops = Ok a ->
  R a (a_exec f ANone (map abs_op ops)).
Proof. exact reach_R. Qed.
Print Assumptions C17_reach_related.

(* completion, one step from any reachable state: WritePacket moves to the done state exactly when
   the packet is accepted, has a payload and the predicate holds on the NEW accumulated bytes; it
   then returns (188, ErrAccumulatorDone); the new bytes are the kept bytes ++ the payload *)
Theorem C17_completion_step_iff : forall f ops a pkt a' n e,
  Forall wf_op ops -> exec f new_acc ops = Ok a -> wf_pkt pkt ->
  write_packet f a pkt = Ok (a', (n, e)) ->
  ((state a' = stateDone /\ state a <> stateDone) <->
   (state a <> stateDone /\ (state a = stateAccumulating \/ has_pusi pkt = true) /\
    payload_of pkt <> None /\ holds f (get_bytes a') = true)) /\
  (state a' = stateDone -> state a <> stateDone -> n = 188%Z /\ e = Some E.AccumulatorDone) /\
  (state a <> stateDone -> (state a = stateAccumulating \/ has_pusi pkt = true) ->
   forall b, payload_of pkt = Some b ->
             get_bytes a' = (if has_pusi pkt then [] else get_bytes a) ++ b).
Proof. exact completion_step_iff. Qed.
Print Assumptions C17_completion_step_iff.

(* every accepted packet, whatever the predicate answers: count 188, the packet is listed after
   the kept packets and its payload (nothing if it has none) is appended to the kept bytes *)
Theorem C17_accepted_step : forall f ops a pkt,
  Forall wf_op ops -> exec f new_acc ops = Ok a -> state a <> stateDone ->
  wf_pkt pkt -> (state a = stateAccumulating \/ has_pusi pkt = true) ->
  exists a' e, write_packet f a pkt = Ok (a', (188%Z, e)) /\
               (state a' = stateAccumulating \/ state a' = stateDone) /\
               get_bytes a' = (if has_pusi pkt then [] else get_bytes a) ++ payload_bytes pkt /\
               get_packets a' = (if has_pusi pkt then [] else get_packets a) ++ [pkt].
Proof. exact accepted_step. Qed.
Print Assumptions C17_accepted_step.

(* the predicate's error is propagated from any reachable state, whatever `done` flag comes with
   it (d arbitrary): the accumulator keeps accumulating, it is NOT complete *)
Theorem C17_pred_error_propagated : forall f ops a pkt b d e,
  Forall wf_op ops -> exec f new_acc ops = Ok a -> state a <> stateDone ->
  wf_pkt pkt -> (state a = stateAccumulating \/ has_pusi pkt = true) ->
  payload_of pkt = Some b ->
  f ((if has_pusi pkt then [] else get_bytes a) ++ b) = (d, Some e) ->
  exists a', write_packet f a pkt = Ok (a', (188%Z, Some e)) /\
             state a' = stateAccumulating /\
             get_bytes a' = (if has_pusi pkt then [] else get_bytes a) ++ b /\
             get_packets a' = (if has_pusi pkt then [] else get_packets a) ++ [pkt].
Proof. exact pred_error_propagated. Qed.
Print Assumptions C17_pred_error_propagated.

(* a packet without usable payload, from any reachable state: reported with its error, listed,
   contributes no bytes, and the predicate is not consulted (same result for every predicate g) *)
Theorem C17_no_payload_reported : forall f ops a pkt,
  Forall wf_op ops -> exec f new_acc ops = Ok a -> state a <> stateDone ->
  wf_pkt pkt -> (state a = stateAccumulating \/ has_pusi pkt = true) ->
  payload_of pkt = None ->
  exists a', (forall g : pred, write_packet g a pkt = Ok (a', (188%Z, Some (payload_err pkt)))) /\
             state a' = stateAccumulating /\
             get_bytes a' = (if has_pusi pkt then [] else get_bytes a) /\
             get_packets a' = (if has_pusi pkt then [] else get_packets a) ++ [pkt].
Proof. exact no_payload_reported. Qed.
Print Assumptions C17_no_payload_reported.

(* refused in the starting state, however it was reached (new, after Reset, after refusals):
   error, count 188, state untouched *)
Theorem C17_starting_refuses : forall f a pkt,
  state a = stateStarting -> wf_pkt pkt -> has_pusi pkt = false ->
  write_packet f a pkt = Ok (a, (188%Z, Some E.NoPayloadUnitStartIndicator)).
Proof. exact starting_refuses. Qed.
Print Assumptions C17_starting_refuses.

(* once complete, every further sequence of packets is refused and Bytes()/Packets() do not change *)
Theorem C17_done_absorbs : forall f a, state a = stateDone -> forall pkts,
  run f a (map OWrite pkts ++ [OBytes; OPackets])
  = Ok (map (fun _ => RWrite 0%Z (Some E.AccumulatorDone)) pkts ++ [RBytes (get_bytes a); RPackets (get_packets a)]).
Proof. exact done_absorbs. Qed.
Print Assumptions C17_done_absorbs.

(* Reset after an arbitrary history `pre`: what follows is observed exactly as on a new accumulator *)
Theorem C17_reset_fresh_history : forall f pre ops,
  run f new_acc (pre ++ OReset :: ops)
  = let? o1 := run f new_acc pre in let? o2 := run f new_acc ops in Ok (o1 ++ RReset :: o2).
Proof. exact reset_fresh_history. Qed.
Print Assumptions C17_reset_fresh_history.

Theorem C17_reset_fresh_history_ok : forall f pre ops, Forall wf_op pre -> Forall wf_op ops ->
  exists o1 o2, run f new_acc pre = Ok o1 /\ run f new_acc ops = Ok o2 /\
                run f new_acc (pre ++ OReset :: ops) = Ok (o1 ++ RReset :: o2).
Proof. exact reset_fresh_history_ok. Qed.
Print Assumptions C17_reset_fresh_history_ok.

(* after any history the listed packets are one unit: none, or a unit start followed by packets
   that are not unit starts ("the packets accepted since the most recent unit start") *)
Theorem C17_unit_shape : forall f ops, Forall wf_op ops ->
  exists a, exec f new_acc ops = Ok a /\
    match get_packets a with
    | [] => True
    | p :: t => has_pusi p = true /\ Forall (fun q => has_pusi q = false) t
    end.
Proof. exact unit_shape_reach. Qed.
Print Assumptions C17_unit_shape.

(* non-vacuity: unit start with 184 payload bytes, a continuation with a 100-byte adaptation
   field (83 payload bytes), threshold predicate "done when >= 200 bytes": done at the second
   packet, third refused *)
Definition ex_p0 : bytes := [71; 64; 17; 16] ++ repeat 1 184.
Definition ex_p1 : bytes := [71; 0; 17; 49; 100] ++ repeat 2 183.
Definition ex_f : pred := fun d => (200 <=? len d, None).
Example C17_nonvacuous :
  wf_pkt ex_p0 /\ wf_pkt ex_p1 /\ has_pusi ex_p0 = true /\ has_pusi ex_p1 = false /\
  payload_of ex_p0 = Some (repeat 1 184) /\ payload_of ex_p1 = Some (repeat 2 83) /\
  run ex_f new_acc [OWrite ex_p1; OWrite ex_p0; OBytes; OWrite ex_p1; OWrite ex_p1; OBytes; OPackets]
  = Ok [RWrite 188%Z (Some E.NoPayloadUnitStartIndicator); RWrite 188%Z None; RBytes (repeat 1 184);
        RWrite 188%Z (Some E.AccumulatorDone); RWrite 0%Z (Some E.AccumulatorDone);
        RBytes (repeat 1 184 ++ repeat 2 83); RPackets [ex_p0; ex_p1]].
Proof. vm_compute. repeat split. Qed.

(* non-vacuity of the arbitrary-history theorems: a history with a refusal, a unit that completes, a
   Reset, a unit start without payload, and a predicate that answers (true, error) from 100 bytes on:
   the hypotheses of C17_pred_error_propagated (with d = true), C17_no_payload_reported,
   C17_completion_step_iff and C17_reset_fresh_history_ok are met by concrete values *)
Definition ex_np : bytes := [71; 64; 17; 32; 183] ++ repeat 255 183.          (* unit start, adaptation field only *)
Definition ex_g : pred := fun d => (100 <=? len d, if 100 <=? len d then Some 77 else None).
Definition ex_hist : list Accumulator.aop := [OWrite ex_p1; OWrite ex_p0; OWrite ex_p1; OReset; OWrite ex_np].
Example C17_nonvacuous_history :
  Forall wf_op ex_hist /\ wf_pkt ex_np /\ has_pusi ex_np = true /\ payload_of ex_np = None /\
  (* predicate with done and error at once: error returned, still accumulating *)
  (exists a, exec ex_g new_acc ex_hist = Ok a /\ state a = stateAccumulating /\ get_packets a = [ex_np] /\
             get_bytes a = [] /\ ex_g ((if has_pusi ex_p0 then [] else get_bytes a) ++ repeat 1 184) = (true, Some 77) /\
             exists a', write_packet ex_g a ex_p0 = Ok (a', (188%Z, Some 77)) /\ state a' = stateAccumulating) /\
  (* completion in the middle of a history, then Reset, then a unit start without payload *)
  (exists a, exec ex_f new_acc (firstn 2 ex_hist) = Ok a /\ state a = stateAccumulating /\
             exists a', write_packet ex_f a ex_p1 = Ok (a', (188%Z, Some E.AccumulatorDone)) /\
                        state a' = stateDone /\ holds ex_f (get_bytes a') = true) /\
  run ex_f new_acc (ex_hist ++ [OBytes; OPackets; OWrite ex_p1])
  = Ok [RWrite 188%Z (Some E.NoPayloadUnitStartIndicator); RWrite 188%Z None;
        RWrite 188%Z (Some E.AccumulatorDone); RReset; RWrite 188%Z (Some E.NoPayload);
        RBytes []; RPackets [ex_np]; RWrite 188%Z None].
Proof.
  split; [repeat constructor|]. split; [reflexivity|]. split; [reflexivity|]. split; [reflexivity|].
  split; [eexists; split; [vm_compute; reflexivity|]; vm_compute; repeat split; eexists; split; reflexivity|].
  split; [eexists; split; [vm_compute; reflexivity|]; vm_compute; split; [reflexivity|]; eexists; repeat split|].
  vm_compute. reflexivity.
Qed.
