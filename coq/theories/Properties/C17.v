(* C17 — Payload accumulator returns exactly the payloads since the last unit start.
   Statements only; proofs in Proofs/AccProofs.v.  Model: Model/Accumulator.v; abstract
   accumulator and payload_of: Spec/AccSpecDef.v (Module AccSpec).

   ORACLE: the completion predicate f : accumulated bytes -> (done, err) is ANY function
   (universally quantified in every theorem); it is assumed not to modify the slice it is given.
   Packets are [188]byte arrays (`wf_pkt`: length 188; the Go type guarantees it).
   Reading of "accepted" (DESIGN C17): a packet started by a unit start that has no usable
   payload is listed in Packets(), contributes no bytes and is reported with an error.
   Not expressible in a value model, checked by goexec on every case instead: Packets()/Bytes()
   return independent copies; the packets given to WritePacket are never modified. *)
From Gots Require Import Base.Prelude Model.Accumulator Spec.AccSpecDef Proofs.AccProofs.
Import Accumulator AccSpec.
Local Open Scope N_scope.

(* refinement: for every predicate and every list of WritePacket/Reset/Bytes/Packets calls the
   model produces exactly the observations of the abstract accumulator (errors of WritePacket,
   contents of Bytes() and Packets()) *)
Theorem C17_refines : forall f ops, Forall wf_op ops ->
  exists outs, run f new_acc ops = Ok outs /\ map abs_out outs = a_run f ANone (map abs_op ops).
Proof. exact refines. Qed.
Print Assumptions C17_refines.

(* in every reachable state Bytes() is the concatenation of the payloads of Packets() *)
Theorem C17_bytes_are_payloads : forall f ops, Forall wf_op ops ->
  exists a, exec f new_acc ops = Ok a /\ get_bytes a = bytes_of (get_packets a).
Proof. exact bytes_are_payloads. Qed.
Print Assumptions C17_bytes_are_payloads.

(* packets are refused with an error until the first unit start, and nothing is accumulated *)
Theorem C17_refused_before_first_pusi : forall f pkts,
  Forall wf_pkt pkts -> Forall (fun p => has_pusi p = false) pkts ->
  run f new_acc (map OWrite pkts ++ [OBytes; OPackets])
  = Ok (map (fun _ => RWrite 188%Z (Some E.NoPayloadUnitStartIndicator)) pkts ++ [RBytes []; RPackets []]).
Proof. exact refused_before_first_pusi. Qed.
Print Assumptions C17_refused_before_first_pusi.

(* a unit start discards what came before: the rest of the history is observed as on a new accumulator *)
Theorem C17_pusi_restarts : forall f a ps pkt ops,
  R a (AAcc ps) -> wf_pkt pkt -> has_pusi pkt = true -> Forall wf_op ops ->
  exists o1 o2, run f a (OWrite pkt :: ops) = Ok o1 /\ run f new_acc (OWrite pkt :: ops) = Ok o2 /\
                map abs_out o1 = map abs_out o2.
Proof. exact pusi_restarts. Qed.
Print Assumptions C17_pusi_restarts.

(* completion exactly at the first packet after which the predicate holds; later packets are
   refused; Bytes()/Packets() stay those of the completed unit.  (Stated on the abstract machine,
   which the model refines by C17_refines.) *)
Theorem C17_done_exactly_first : forall f p0 before p after,
  has_pusi p0 = true -> unit_ok p0 ->
  Forall (fun q => has_pusi q = false /\ unit_ok q) (before ++ [p]) ->
  (forall j, (j <= length before)%nat -> f (bytes_of (firstn (S j) (p0 :: before))) = (false, None)) ->
  f (bytes_of (p0 :: before ++ [p])) = (true, None) ->
  a_run f ANone (map AWrite (p0 :: before ++ [p] ++ after) ++ [ABytes; APackets])
  = map (fun _ => SWrite None) (p0 :: before) ++ [SWrite (Some E.AccumulatorDone)]
    ++ map (fun _ => SWrite (Some E.AccumulatorDone)) after
    ++ [SBytes (bytes_of (p0 :: before ++ [p])); SPackets (p0 :: before ++ [p])].
Proof. exact done_exactly_first. Qed.
Print Assumptions C17_done_exactly_first.

(* the same clause on the model itself (composition with C17_refines) *)
Theorem C17_done_exactly_first_model : forall f p0 before p after,
  Forall wf_pkt (p0 :: before ++ [p] ++ after) ->
  has_pusi p0 = true -> unit_ok p0 ->
  Forall (fun q => has_pusi q = false /\ unit_ok q) (before ++ [p]) ->
  (forall j, (j <= length before)%nat -> f (bytes_of (firstn (S j) (p0 :: before))) = (false, None)) ->
  f (bytes_of (p0 :: before ++ [p])) = (true, None) ->
  exists outs,
    run f new_acc (map OWrite (p0 :: before ++ [p] ++ after) ++ [OBytes; OPackets]) = Ok outs /\
    map abs_out outs
    = map (fun _ => SWrite None) (p0 :: before) ++ [SWrite (Some E.AccumulatorDone)]
      ++ map (fun _ => SWrite (Some E.AccumulatorDone)) after
      ++ [SBytes (bytes_of (p0 :: before ++ [p])); SPackets (p0 :: before ++ [p])].
Proof. exact done_exactly_first_model. Qed.
Print Assumptions C17_done_exactly_first_model.

(* refused once complete (model level): error, count 0, state untouched *)
Theorem C17_done_refuses : forall f a pkt, state a = stateDone ->
  write_packet f a pkt = Ok (a, (0%Z, Some E.AccumulatorDone)).
Proof. exact done_refuses. Qed.
Print Assumptions C17_done_refuses.

(* after Reset the accumulator behaves like a new one *)
Theorem C17_reset_fresh : forall f a ops,
  run f a (OReset :: ops) = let? rs := run f new_acc ops in Ok (RReset :: rs).
Proof. exact reset_fresh. Qed.
Print Assumptions C17_reset_fresh.

(* the int result: 0 when refused after completion, 188 otherwise *)
Theorem C17_write_count : forall f a s pkt, wf_pkt pkt -> R a s ->
  exists a' e, write_packet f a pkt = Ok (a', (match s with ADone _ => 0%Z | _ => 188%Z end, e)).
Proof. exact write_count. Qed.
Print Assumptions C17_write_count.

(* the model's payload extraction is the ISO payload (or the error the property speaks of) *)
Theorem C17_payload_spec : forall pkt, wf_pkt pkt ->
  payload pkt = Ok (match payload_of pkt with Some b => inl b | None => inr (payload_err pkt) end).
Proof. exact payload_spec. Qed.
Print Assumptions C17_payload_spec.

(* C05 for these entry points: total for every history and EVERY predicate oracle *)
Theorem C17_run_total : forall f ops, Forall wf_op ops ->
  run f new_acc ops <> Panic /\ run f new_acc ops <> Diverge.
Proof. exact run_total. Qed.
Print Assumptions C17_run_total.

(* C05, memory: after any history the accumulator holds at most one packet copy per WritePacket call
   and at most 184 payload bytes per such call *)
Theorem C17_memory_bound : forall f ops, Forall wf_op ops ->
  exists a, exec f new_acc ops = Ok a /\
            (length (get_packets a) <= writes ops)%nat /\
            (length (get_bytes a) <= 184 * writes ops)%nat.
Proof. exact memory_bound. Qed.
Print Assumptions C17_memory_bound.

(* non-vacuity: unit start with 184 payload bytes, a continuation with a 100-byte adaptation
   field (83 payload bytes), threshold predicate "done when >= 200 bytes": done at the second
   packet, third refused *)
Definition ex_p0 : bytes := [71; 64; 17; 16] ++ repeat 1 184.
Definition ex_p1 : bytes := [71; 0; 17; 49; 100] ++ repeat 2 183.
Definition ex_f : pred := fun d => (200 <=? len d, None).
Example C17_nonvacuous :
  wf_pkt ex_p0 /\ wf_pkt ex_p1 /\ has_pusi ex_p0 = true /\ has_pusi ex_p1 = false /\
  payload_of ex_p0 = Some (repeat 1 184) /\ payload_of ex_p1 = Some (repeat 2 83) /\
  run ex_f new_acc [OWrite ex_p1; OWrite ex_p0; OBytes; OWrite ex_p1; OWrite ex_p1; OBytes; OPackets]
  = Ok [RWrite 188%Z (Some E.NoPayloadUnitStartIndicator); RWrite 188%Z None; RBytes (repeat 1 184);
        RWrite 188%Z (Some E.AccumulatorDone); RWrite 0%Z (Some E.AccumulatorDone);
        RBytes (repeat 1 184 ++ repeat 2 83); RPackets [ex_p0; ex_p1]].
Proof. vm_compute. repeat split. Qed.
