(* C13 — the checksum function is CRC-32/MPEG-2 on every input.
   Model: Model/Crc.v (tsutils.go:ComputeCRC as written: augmented-message loop, initial register
   0x46af6449, 32 trailing zero steps).  Spec: Spec/Crc32.v (textbook bit-serial register, polynomial
   0x04C11DB7, initial value 0xFFFFFFFF, MSB first, no reflection, no final XOR).
   This file holds only the statements; proofs live in Proofs/CrcRegister.v. *)
From Gots Require Import Base.Prelude Model.Crc Spec.Crc32 Proofs.CrcRegister Proofs.CrcUnique Proofs.CrcTable Proofs.CrcLinear Proofs.CrcDetect Proofs.CrcBurst.
Local Open Scope N_scope.

(* for EVERY byte string (no length bound, no side condition) the four bytes returned are the
   big-endian bytes of the CRC-32/MPEG-2 register *)
Theorem C13_compute_crc_is_mpeg2 : forall bs : bytes, Crc.compute_crc bs = to_be32 (Crc32.crc bs).
Proof. exact compute_crc_is_mpeg2. Qed.
Print Assumptions C13_compute_crc_is_mpeg2.

(* the 32-bit word itself (before PutUint32) *)
Theorem C13_compute_crc_word : forall bs : bytes, Crc.compute_crc_word bs = Crc32.crc bs.
Proof. exact compute_crc_word_is_mpeg2. Qed.
Print Assumptions C13_compute_crc_word.

(* the result is four bytes *)
Theorem C13_compute_crc_shape : forall bs : bytes,
  is_bytes (Crc.compute_crc bs) /\ length (Crc.compute_crc bs) = 4%nat.
Proof. exact compute_crc_shape. Qed.
Print Assumptions C13_compute_crc_shape.

(* residue: a message followed by its CRC leaves the textbook register at zero *)
Theorem C13_residue_zero : forall bs : bytes, Crc32.crc (bs ++ to_be32 (Crc32.crc bs)) = 0.
Proof. exact residue_zero. Qed.
Print Assumptions C13_residue_zero.

(* the same through the code: ComputeCRC (b ++ ComputeCRC b) = 00 00 00 00 *)
Theorem C13_compute_crc_residue : forall bs : bytes, Crc.compute_crc (bs ++ Crc.compute_crc bs) = [0; 0; 0; 0].
Proof. exact compute_crc_residue. Qed.
Print Assumptions C13_compute_crc_residue.

(* every emitted section of the shape  body ++ ComputeCRC body  (filtered PMT: C14, encoded
   splice_info_section: C09 — those properties prove that their encoders have this shape)
   satisfies the validity condition receivers apply *)
Theorem C13_emitted_section_residue_ok : forall body : bytes, Crc32.residue_ok (body ++ Crc.compute_crc body).
Proof. exact emitted_section_residue_ok. Qed.
Print Assumptions C13_emitted_section_residue_ok.

(* receiver side, both directions: for every message and every four-byte trailer, the section passes the
   receiver's check (register zero) exactly when the trailer is what ComputeCRC returns; so the check accepts
   every section the library emits and rejects every section whose CRC field alone is damaged *)
Theorem C13_residue_zero_iff : forall (bs : bytes) c0 c1 c2 c3, is_bytes [c0; c1; c2; c3] ->
  (Crc32.residue_ok (bs ++ [c0; c1; c2; c3]) <-> [c0; c1; c2; c3] = Crc.compute_crc bs).
Proof. exact compute_crc_unique. Qed.
Print Assumptions C13_residue_zero_iff.

(* the register always holds a 32-bit value *)
Theorem C13_crc_lt : forall bs : bytes, Crc32.crc bs < 4294967296.
Proof. exact crc_lt. Qed.
Print Assumptions C13_crc_lt.

(* the specification itself, cross-validated: the usual table-driven byte-at-a-time definition of CRC-32/MPEG-2
   (Crc32.crc_tab) is the bit-serial register on every byte string, hence also what ComputeCRC returns *)
Theorem C13_table_driven_is_register : forall bs : bytes, is_bytes bs -> Crc32.crc_tab bs = Crc32.crc bs.
Proof. exact crc_tab_is_crc. Qed.
Print Assumptions C13_table_driven_is_register.

Theorem C13_compute_crc_is_table_driven : forall bs : bytes, is_bytes bs ->
  Crc.compute_crc bs = to_be32 (Crc32.crc_tab bs).
Proof. exact compute_crc_is_table_driven. Qed.
Print Assumptions C13_compute_crc_is_table_driven.

(* linearity of the register in the message, in the form used by the correspondence: the linear-time table
   Crc32.singles_fast L holds, at index 8i+j, the CRC of the L-byte message whose only set bit is bit j (MSB = 0) of byte i;
   this is what `crc.singles L` of modelexec answers, so that EVERY single-bit string up to 1024 bytes is compared
   with the real code in the thorough tier *)
Theorem C13_single_bit_all : forall L i j, (i < L)%nat -> (j < 8)%nat ->
  nth (8 * i + j) (Crc32.singles_fast L) 0 = Crc32.crc (Crc32.single L i j) /\
  length (Crc32.singles_fast L) = (8 * L)%nat.
Proof. exact single_bit_all. Qed.
Print Assumptions C13_single_bit_all.

(* error detection: flipping any single bit of any message changes the register; hence a section that passes the
   receivers' check fails it after any single-bit error (in the body or in the CRC field) *)
Theorem C13_single_bit_error_changes_crc : forall (bs : bytes) i j, (i < length bs)%nat -> (j < 8)%nat ->
  Crc32.crc (Crc32.flip bs i j) <> Crc32.crc bs.
Proof. exact single_bit_error_changes_crc. Qed.
Print Assumptions C13_single_bit_error_changes_crc.

Theorem C13_single_bit_error_detected : forall (s : bytes) i j, (i < length s)%nat -> (j < 8)%nat ->
  Crc32.residue_ok s -> ~ Crc32.residue_ok (Crc32.flip s i j).
Proof. exact single_bit_error_detected. Qed.
Print Assumptions C13_single_bit_error_detected.

(* burst errors: the bit string received differs from the bits of the message by a non-zero 32-bit window w placed
   anywhere (burst a w b = a zero bits, the 32 bits of w MSB first, b zero bits; zipx = bitwise XOR of bit lists;
   definitions in Proofs/CrcBurst.v, CrcLinear.v, CrcRegister.v): the register differs, i.e. every burst error of at
   most 32 bits is detected *)
Theorem C13_burst_error_changes_crc : forall (bs : bytes) a w b, (8 * length bs = a + 32 + b)%nat ->
  w < 4294967296 -> w <> 0 ->
  Crc32.register Crc32.init (zipx (Crc32.bits_of bs) (burst a w b)) <> Crc32.crc bs.
Proof. exact burst_error_changes_crc. Qed.
Print Assumptions C13_burst_error_changes_crc.

(* non-vacuity / sanity of the specification: catalogue check value of CRC-32/MPEG-2 ("123456789" -> 0x0376E6E7),
   and the model on the same input *)
Example C13_check_value :
  Crc32.crc [49; 50; 51; 52; 53; 54; 55; 56; 57] = 58124007 /\
  Crc.compute_crc [49; 50; 51; 52; 53; 54; 55; 56; 57] = [3; 118; 230; 231].
Proof. split; vm_compute; reflexivity. Qed.
