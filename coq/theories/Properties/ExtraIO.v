(* ExtraIO — packet.IsSynced (exported, used by Sync).
   Property-support file of the coverage round (notes/coverage.md): statements only; proofs in Proofs/ExtraLemmas.v.
   These are small facts about exported identifiers that none of the twenty properties states; the finite ones are
   decided by vm_compute over the COMPLETE table.  None is `_partial`. *)
From Gots Require Import Base.Prelude.
From Gots Require Import Model.Pts Model.Packet Model.Create Model.Psi Model.Pmt Model.PmtDesc Model.StreamType Model.Pes
  Model.Ebp Model.IO Model.PacketWriter Model.Scte Model.ScteEnc Model.SegDesc Model.Printers Model.Errors Model.Pat Proofs.ExtraLemmas.
Local Open Scope N_scope.

Theorem Extra_is_synced_spec :
  forall b0 b1 b2 b3 rest lst te,
  let r := SyncIO.mkR (b0 :: b1 :: b2 :: b3 :: rest) lst te in
  let pid := (b1 mod 32) * 256 + b2 in
  b1 < 256 -> b2 < 256 -> b3 < 256 ->
  SyncIO.is_synced r =
    Ok ((b0 =? 71) && negb (N.land b3 48 =? 0) && ((pid <? 4) || (15 <? pid)), None,
        SyncIO.mkR (b0 :: b1 :: b2 :: b3 :: rest) None te).
Proof. exact is_synced_spec. Qed.
Print Assumptions Extra_is_synced_spec.
