(* C14 — PMT filtering emits exactly the well-formed PMT of the selected streams.
   Only statements; proofs in Proofs/PmtFilter.v, Proofs/PmtRemove.v.  Model: Model/Pmt.v (repaired code).
   Spec: Spec/PmtSpec.v (filtered_sec, missing_of, spec_repack, hdrs_of).
   The CRC clause is relative to the executable model of gots.ComputeCRC (Pmt.crc_model):
   `CRC field = compute_crc of the section bytes`; that compute_crc is CRC-32/MPEG-2 is C13. *)
From Gots Require Import Base.Prelude Model.Psi Model.Pmt Spec.PmtSpec
  Proofs.PmtBase Proofs.PmtParse Proofs.PmtTables Proofs.PmtRead Proofs.PmtMisc Proofs.PmtRemove Proofs.PmtFilter Proofs.PmtHyp.
Import Pmt.
Local Open Scope N_scope.

(* filter_spec + filter_errors in one statement.  Input: any packetisation (items: packets of one PID, any chunking,
   any adaptation fields, any header flags) of  pointer_field + filler + one well-formed PMT section + stuffing,
   and any non-empty request list.  The contract is written from the property text (Spec/PmtSpec.v):
   considered = requested PIDs other than the PAT PID and the PMT PID (request order, duplicates kept),
   missing    = considered PIDs that no elementary stream of the PMT carries,
   none_present = at least one PID is considered and every considered one is missing.
   - none_present -> no packets, error naming the missing PIDs;
   - otherwise    -> packets = spec_repack (original headers in order) (pointer_field + filler + serialised section of
                     the kept streams, section_length recomputed, CRC recomputed), error naming the missing ones iff any.
   (Model of the code as repaired by 4841ed3; before it the code compared |missing| with |request|, so a request such as
   [PAT pid, absent pid] produced packets + error - replayed as a `fixed` entry of known_findings.json.) *)
Theorem C14_filter_spec : forall c pid items want,
  wf_carrier c -> pre c = [] -> all_mine items -> Forall (wf_item pid) items ->
  concat (chunks items) = ser_payload c -> want <> [] ->
  filter_pmt_packets (ser_items pid true items) want =
  Ok (let missing := missing_of (map epid (sstreams (sec c))) pid want in
      if none_present (map epid (sstreams (sec c))) pid want then (None, Some missing)
      else (Some (spec_repack (hdrs_of pid true items)
                    (ser_unit {| pf := pf c; pre := []; sec := filtered_sec (sec c) want; stuffing := 0 |})),
            match missing with [] => None | _ => Some missing end)).
Proof. exact filter_ok. Qed.
Print Assumptions C14_filter_spec.

(* decidable form (hyp_filterb checks every hypothesis but want <> []); run by modelexec on every generated deciding case *)
Theorem C14_filter_spec_decidable : forall c pid items want, hyp_filterb c pid items = true -> want <> [] ->
  filter_pmt_packets (ser_items pid true items) want =
  Ok (let missing := missing_of (map epid (sstreams (sec c))) pid want in
      if none_present (map epid (sstreams (sec c))) pid want then (None, Some missing)
      else (Some (spec_repack (hdrs_of pid true items)
                    (ser_unit {| pf := pf c; pre := []; sec := filtered_sec (sec c) want; stuffing := 0 |})),
            match missing with [] => None | _ => Some missing end)).
Proof. exact hyp_filterb_sound. Qed.
Print Assumptions C14_filter_spec_decidable.

(* the concatenated payload of the output packets (everything after the original headers) is exactly
   pointer_field, filler, the filtered section, then only 0xFF *)
Theorem C14_filter_payload : forall c pid items want,
  wf_carrier c -> pre c = [] -> all_mine items -> Forall (wf_item pid) items ->
  concat (chunks items) = ser_payload c ->
  let c' := {| pf := pf c; pre := []; sec := filtered_sec (sec c) want; stuffing := 0 |} in
  let hdrs := hdrs_of pid true items in
  let out := spec_repack hdrs (ser_unit c') in
  exists k, concat (map (fun hp => dropN (len (fst hp)) (snd hp)) (combine hdrs out)) = ser_unit c' ++ repeatN 255 k.
Proof. exact filter_payload. Qed.
Print Assumptions C14_filter_payload.

(* shape of the output: at most as many packets as the input, each 188 bytes, each beginning with the complete header
   (sync byte, flags, the same PID, continuity counter, adaptation field) of the input packet at the same position *)
Theorem C14_filter_headers : forall hdrs data, Forall (fun h => len h <= 188) hdrs ->
  (length (spec_repack hdrs data) <= length hdrs)%nat /\
  Forall2 (fun h p => len p = 188 /\ takeN (len h) p = h) (firstn (length (spec_repack hdrs data)) hdrs) (spec_repack hdrs data).
Proof. exact spec_repack_shape. Qed.
Print Assumptions C14_filter_headers.

(* the filtered section is again a section the decoder of C06 accepts when the input was well-formed:
   decoding the output payload gives the kept streams (ties C14 to C06 L2) *)
Theorem C14_filtered_decodes : forall c want, wf_carrier c -> pre c = [] ->
  new_pmt (ser_unit {| pf := pf c; pre := []; sec := filtered_sec (sec c) want; stuffing := 0 |})
  = Ok {| pids := map epid (keep_streams want (sstreams (sec c))); streams := keep_streams want (sstreams (sec c));
          version := sversion (sec c); cni := scni (sec c) |}.
Proof. exact filtered_decodes. Qed.
Print Assumptions C14_filtered_decodes.

(* requesting (at least) every PID of the PMT reproduces the section, with the CRC field recomputed over it *)
Theorem C14_filter_all_keeps_everything : forall s want, (forall e, In e (sstreams s) -> In (epid e) want) ->
  ser_sec_nocrc (filtered_sec s want) = ser_sec_nocrc s /\ crc (filtered_sec s want) = crc_model (ser_sec_nocrc s).
Proof. exact filtered_sec_all. Qed.
Print Assumptions C14_filter_all_keeps_everything.

(* the error contract, read off missing_of *)
Theorem C14_considered_iff : forall pmt_pid want x,
  In x (considered pmt_pid want) <-> In x want /\ x <> 0 /\ x <> pmt_pid.
Proof. exact in_considered. Qed.
Print Assumptions C14_considered_iff.
Theorem C14_filter_errors_no_error_iff : forall have pmt_pid want,
  missing_of have pmt_pid want = [] <-> (forall x, In x (considered pmt_pid want) -> In x have).
Proof. exact missing_nil_iff. Qed.
Print Assumptions C14_filter_errors_no_error_iff.
Theorem C14_filter_errors_none_iff : forall have pmt_pid want,
  none_present have pmt_pid want = true <->
  considered pmt_pid want <> [] /\ (forall x, In x (considered pmt_pid want) -> ~ In x have).
Proof. exact none_present_iff. Qed.
Print Assumptions C14_filter_errors_none_iff.

(* the contract clause by clause, in the property's words; have = PIDs of the PMT's streams *)
(* "no error when every requested PID (ignoring the PAT and PMT PIDs) is in the PMT" *)
Theorem C14_filter_errors_all_present : forall c pid items want,
  wf_carrier c -> pre c = [] -> all_mine items -> Forall (wf_item pid) items -> concat (chunks items) = ser_payload c -> want <> [] ->
  (forall x, In x (considered pid want) -> In x (map epid (sstreams (sec c)))) ->
  filter_pmt_packets (ser_items pid true items) want =
  Ok (Some (spec_repack (hdrs_of pid true items)
              (ser_unit {| pf := pf c; pre := []; sec := filtered_sec (sec c) want; stuffing := 0 |})), None).
Proof. exact filter_all_present. Qed.
Print Assumptions C14_filter_errors_all_present.
(* the corner, explicitly: ONLY the PAT and / or PMT PID requested (nothing is considered): packets and no error; the
   emitted PMT has no elementary streams (unless a stream itself uses PID 0 or the PMT's PID, which is then kept) *)
Theorem C14_filter_errors_only_pat_pmt_pid : forall c pid items want,
  wf_carrier c -> pre c = [] -> all_mine items -> Forall (wf_item pid) items -> concat (chunks items) = ser_payload c -> want <> [] ->
  considered pid want = [] ->
  filter_pmt_packets (ser_items pid true items) want =
    Ok (Some (spec_repack (hdrs_of pid true items)
                (ser_unit {| pf := pf c; pre := []; sec := filtered_sec (sec c) want; stuffing := 0 |})), None) /\
  ((forall e, In e (sstreams (sec c)) -> epid e <> 0 /\ epid e <> pid) -> sstreams (filtered_sec (sec c) want) = []).
Proof. exact filter_only_ignored. Qed.
Print Assumptions C14_filter_errors_only_pat_pmt_pid.
(* "no packets plus an error when none are": at least one PID is considered and none of the considered ones is in the PMT
   (whether or not the PAT / PMT PID was requested as well) *)
Theorem C14_filter_errors_none_present : forall c pid items want,
  wf_carrier c -> pre c = [] -> all_mine items -> Forall (wf_item pid) items -> concat (chunks items) = ser_payload c -> want <> [] ->
  considered pid want <> [] ->
  (forall x, In x (considered pid want) -> ~ In x (map epid (sstreams (sec c)))) ->
  filter_pmt_packets (ser_items pid true items) want = Ok (None, Some (considered pid want)).
Proof. exact filter_none_present. Qed.
Print Assumptions C14_filter_errors_none_present.
(* "packets plus an error naming the missing PIDs when only some are" *)
Theorem C14_filter_errors_some_present : forall c pid items want,
  wf_carrier c -> pre c = [] -> all_mine items -> Forall (wf_item pid) items -> concat (chunks items) = ser_payload c -> want <> [] ->
  (exists x, In x (considered pid want) /\ In x (map epid (sstreams (sec c)))) ->
  (exists x, In x (considered pid want) /\ ~ In x (map epid (sstreams (sec c)))) ->
  exists missing, missing <> [] /\ missing = missing_of (map epid (sstreams (sec c))) pid want /\
    filter_pmt_packets (ser_items pid true items) want =
    Ok (Some (spec_repack (hdrs_of pid true items)
                (ser_unit {| pf := pf c; pre := []; sec := filtered_sec (sec c) want; stuffing := 0 |})), Some missing).
Proof. exact filter_some_present. Qed.
Print Assumptions C14_filter_errors_some_present.
(* the witness of audit item 3: request [PAT pid, absent pid] on the example PMT: no packets, error naming the absent PID *)
Example C14_filter_pat_and_absent :
  filter_pmt_packets (ser_items 481 true exf_items) [0; 9] = Ok (None, Some [9]).
Proof. vm_compute. reflexivity. Qed.

(* empty PID list: the input is returned; no packets: nothing *)
Theorem C14_filter_empty_pids : forall p pkts, filter_pmt_packets (p :: pkts) [] = Ok (Some (p :: pkts), None).
Proof. reflexivity. Qed.
Print Assumptions C14_filter_empty_pids.
Theorem C14_filter_no_packets : forall want, filter_pmt_packets [] want = Ok (None, None).
Proof. reflexivity. Qed.
Print Assumptions C14_filter_no_packets.

(* RemoveElementaryStreams: with distinct PIDs exactly the other streams stay, in order *)
Theorem C14_remove_streams : forall p rm, NoDup (map epid (streams p)) ->
  streams (remove_elementary_streams p rm) = filter (fun e => negb (mem (epid e) rm)) (streams p).
Proof. exact remove_streams_nodup. Qed.
Print Assumptions C14_remove_streams.
(* in general each requested PID removes the FIRST remaining stream carrying it *)
Theorem C14_remove_first : forall pid l,
  (~ In pid (map epid l) /\ remove_first pid l = l) \/
  (exists l1 e l2, l = l1 ++ e :: l2 /\ epid e = pid /\ ~ In pid (map epid l1) /\ remove_first pid l = l1 ++ l2).
Proof. exact remove_first_spec. Qed.
Print Assumptions C14_remove_first.
(* Pids and PIDExists agree with the stream list after removal; version / current_next untouched *)
Theorem C14_pids_agree : forall p rm x,
  pids (remove_elementary_streams p rm) = map epid (streams (remove_elementary_streams p rm)) /\
  (pid_exists (remove_elementary_streams p rm) x = true <-> In x (map epid (streams (remove_elementary_streams p rm)))).
Proof. exact remove_pids_agree. Qed.
Print Assumptions C14_pids_agree.
(* ... and on every decoded PMT *)
Theorem C14_pids_agree_decoded : forall c x, wf_carrier c ->
  exists p, new_pmt (ser_payload c) = Ok p /\ pids p = map epid (streams p) /\
            (pid_exists p x = true <-> In x (map epid (sstreams (sec c)))).
Proof. exact pids_agree_decoded. Qed.
Print Assumptions C14_pids_agree_decoded.

(* inputs_unchanged: the model is a function of values, so "the input packets are not modified" has no content here;
   goexec snapshots the input packets and the PID slice before the call and compares after it (last field of the
   pmt.filter observation, always 0 = unchanged in the model) - aliasing is outside the technique (DESIGN section 10). *)

(* non-vacuity: a three-stream PMT with descriptors in two packets with adaptation fields; requested a present PID, an
   absent PID and the PAT PID: one stream kept, error names exactly the absent PID, two output packets *)
Example C14_nonvacuous :
  wf_carrier exf_carrier /\ pre exf_carrier = [] /\ all_mine exf_items /\ Forall (wf_item 481) exf_items /\
  concat (chunks exf_items) = ser_payload exf_carrier /\
  missing_of (map epid (sstreams (sec exf_carrier))) 481 [258; 9; 0] = [9] /\
  map epid (sstreams (filtered_sec (sec exf_carrier) [258; 9; 0])) = [258] /\
  exists out, filter_pmt_packets (ser_items 481 true exf_items) [258; 9; 0] = Ok (Some out, Some [9]) /\ length out = 2%nat.
Proof. exact filter_nonvacuous. Qed.
