(* C13 (tie) — the checksum theorems of C13 reach the code paths that EMIT sections.
   Model/Pmt.v (FilterPMTPacketsToPids, C14) and Model/Scte.v / ScteEnc.v (UpdateData, C09) were written with their own
   private transcriptions of gots.ComputeCRC (Pmt.crc_model, Scte.crc_model).  C13 proves Crc.compute_crc (Model/Crc.v)
   equal to CRC-32/MPEG-2 (Spec/Crc32.v).  Here: the private copies ARE Crc.compute_crc (for every byte string), and
   therefore the CRC clauses of C14 and C09 hold against the specification, with no residue hypothesis left.
   Statements only; proofs in Proofs/CrcTie.v. *)
From Gots Require Import Base.Prelude Model.Crc Model.Psi Model.Pmt Model.Scte Model.ScteEnc Spec.Crc32 Spec.PmtSpec
  Proofs.CrcRegister Proofs.PmtFilter Proofs.ScteWitness Proofs.CrcTie.
Import PmtSpec.
Local Open Scope N_scope.

(* ---- the three transcriptions of gots.ComputeCRC are one function ---- *)
Theorem C13tie_pmt_crc_model : forall bs : bytes, Pmt.crc_model bs = Crc.compute_crc bs.
Proof. exact pmt_crc_model_is_compute_crc. Qed.
Print Assumptions C13tie_pmt_crc_model.

Theorem C13tie_scte_crc_model : forall bs : bytes, Scte.crc_model bs = Crc.compute_crc bs.
Proof. exact scte_crc_model_is_compute_crc. Qed.
Print Assumptions C13tie_scte_crc_model.

(* ... hence each is CRC-32/MPEG-2, big-endian *)
Theorem C13tie_pmt_crc_model_is_mpeg2 : forall bs : bytes, Pmt.crc_model bs = to_be32 (Crc32.crc bs).
Proof. exact pmt_crc_model_is_mpeg2. Qed.
Print Assumptions C13tie_pmt_crc_model_is_mpeg2.

Theorem C13tie_scte_crc_model_is_mpeg2 : forall bs : bytes, Scte.crc_model bs = to_be32 (Crc32.crc bs).
Proof. exact scte_crc_model_is_mpeg2. Qed.
Print Assumptions C13tie_scte_crc_model_is_mpeg2.

(* ---- (a) the section emitted by the PMT filter ---- *)
(* filtered_sec is the logical section of C14_filter_spec: its CRC_32 field is the big-endian CRC-32/MPEG-2 of the
   preceding section bytes (table_id .. last elementary stream), and the whole section passes the receiver's check *)
Theorem C13tie_filtered_section_crc : forall s want,
  PmtSpec.crc (filtered_sec s want) = to_be32 (Crc32.crc (ser_sec_nocrc (filtered_sec s want))) /\
  ser_sec (filtered_sec s want) =
    ser_sec_nocrc (filtered_sec s want) ++ to_be32 (Crc32.crc (ser_sec_nocrc (filtered_sec s want))) /\
  Crc32.residue_ok (ser_sec (filtered_sec s want)).
Proof. exact (fun s want => conj (filtered_sec_crc_is_mpeg2 s want)
                                 (conj (filtered_sec_shape s want) (filtered_sec_residue_ok s want))). Qed.
Print Assumptions C13tie_filtered_section_crc.

(* C14_filter_spec with the CRC spelled out against the specification: under C14's hypotheses the data that
   FilterPMTPacketsToPids re-packetises is  pointer_field, filler, section bytes, CRC-32/MPEG-2 of the section bytes;
   and that section has residue zero *)
Theorem C13tie_filter_emits_mpeg2_crc : forall c pid items want,
  wf_carrier c -> pre c = [] -> all_mine items -> Forall (wf_item pid) items ->
  concat (chunks items) = ser_payload c -> want <> [] ->
  let sect := ser_sec_nocrc (filtered_sec (sec c) want) in
  Pmt.filter_pmt_packets (ser_items pid true items) want =
  Ok (let missing := missing_of (map Pmt.epid (sstreams (sec c))) pid want in
      if none_present (map Pmt.epid (sstreams (sec c))) pid want then (None, Some missing)
      else (Some (spec_repack (hdrs_of pid true items)
                    ([pf c] ++ repeatN 255 (pf c) ++ sect ++ to_be32 (Crc32.crc sect))),
            match missing with [] => None | _ => Some missing end))
  /\ Crc32.residue_ok (sect ++ to_be32 (Crc32.crc sect)).
Proof. exact filter_emits_mpeg2_crc. Qed.
Print Assumptions C13tie_filter_emits_mpeg2_crc.

(* ---- (b) the encoded splice_info_section, for EVERY encoder state ---- *)
(* C09_crc_clause against the specification: the last four bytes are the big-endian CRC-32/MPEG-2 of what precedes *)
Theorem C13tie_update_data_crc : forall st, exists body,
  fst (ScteEnc.update_data st) = body ++ to_be32 (Crc32.crc body) /\ len (to_be32 (Crc32.crc body)) = 4.
Proof. exact update_data_crc_is_mpeg2. Qed.
Print Assumptions C13tie_update_data_crc.

(* C09_crc_zero_of_residue with its hypothesis discharged: the CRC of the whole encoded section is zero *)
Theorem C13tie_update_data_residue_zero : forall st, Crc32.crc (fst (ScteEnc.update_data st)) = 0.
Proof. exact update_data_residue_zero. Qed.
Print Assumptions C13tie_update_data_residue_zero.

(* the hypothesis of C09_crc_zero_of_residue itself, and its conclusion as stated in C09 *)
Theorem C13tie_scte_residue_hypothesis : forall m, Scte.crc_model (m ++ Scte.crc_model m) = [0; 0; 0; 0].
Proof. exact scte_crc_model_residue. Qed.
Print Assumptions C13tie_scte_residue_hypothesis.

Theorem C13tie_update_data_crc_model_zero : forall st, Scte.crc_model (fst (ScteEnc.update_data st)) = [0; 0; 0; 0].
Proof. exact update_data_crc_model_zero. Qed.
Print Assumptions C13tie_update_data_crc_model_zero.

(* ---- sanity, computed directly (no theorem above is used): the concrete filtered PMT of C14_nonvacuous and the concrete
   splice_info_section of C09's example history leave the textbook register at zero ---- *)
Example C13tie_examples :
  Crc32.crc (ser_sec (filtered_sec (sec exf_carrier) [258; 9; 0])) = 0 /\
  Crc32.crc (fst (ScteEnc.update_data ex_state)) = 0 /\
  (30 < len (fst (ScteEnc.update_data ex_state))).
Proof. vm_compute. repeat split; reflexivity. Qed.
