(* Model tie — the same Go function transcribed in more than one Model file is ONE function.
   The models were written in parallel (one engineer per group of Go files), so packet accessors, adaptation-field
   primitives, PSI header helpers and the accumulator step exist in several Model files.  Each theorem below states that
   two transcriptions agree on the domain where both apply (a *Packet is a [188]byte: `length p = 188`; everything else
   on ALL lists unless a hypothesis says otherwise), so a theorem proved about one copy holds of the other.  Res-typed
   copies (checked index) answer `Ok (total copy)`.  No pair was found to differ inside its domain; the differences
   outside (lists that are not 188 long, non-byte elements, states outside 0..2) are listed in notes/model-duplicates.md.
   Statements only; proofs in Proofs/ModelTie.v. *)
From Gots Require Import Base.Prelude Model.Pts Model.Packet Model.AF Model.AFfn Model.Psi Model.Pat Model.Pmt Model.Pes
  Model.Accumulator Model.Create Model.Scte Model.ScteEnc Model.IO Proofs.ModelTie.
Local Open Scope N_scope.

(* ================================================================== packet/packet.go
   reference transcription: Model/Packet.v (C01, C02); copies: Pat.PatPkt (C07), Pmt.pkt_* (C06, C14),
   Accumulator.* (C17), Pes.pkt_* (C11) *)
Theorem ModelTie_packet_pusi : forall p, length p = 188%nat ->
  Accumulator.pusi p = Ok (Packet.PayloadUnitStartIndicator_fn p) /\
  Pmt.pkt_pusi p = Ok (Packet.PayloadUnitStartIndicator_fn p) /\
  Pes.pkt_pusi p = Packet.PayloadUnitStartIndicator_fn p.
Proof. exact (fun p H => conj (pusi_accumulator p H) (conj (pusi_pmt p H) (pusi_pes p))). Qed.
Print Assumptions ModelTie_packet_pusi.

Theorem ModelTie_packet_pid : forall p, length p = 188%nat ->
  Pat.PatPkt.pid p = Ok (Packet.Pid_fn p) /\ Pmt.pkt_pid p = Ok (Packet.Pid_fn p) /\
  Pat.PatPkt.is_pat p = Ok (Packet.IsPat_fn p).
Proof. exact (fun p H => conj (pid_pat p H) (conj (pid_pmt p H) (is_pat_pat p H))). Qed.
Print Assumptions ModelTie_packet_pid.

Theorem ModelTie_packet_contains_payload : forall p, length p = 188%nat ->
  Pat.PatPkt.contains_payload p = Ok (Packet.ContainsPayload p) /\
  Pmt.pkt_has_payload p = Ok (Packet.ContainsPayload p) /\
  Accumulator.contains_payload p = Ok (Packet.ContainsPayload p) /\
  Pes.pkt_contains_payload p = Packet.ContainsPayload p.
Proof. exact (fun p H => conj (contains_payload_pat p H) (conj (contains_payload_pmt p H)
                         (conj (contains_payload_accumulator p H) (contains_payload_pes p)))). Qed.
Print Assumptions ModelTie_packet_contains_payload.

Theorem ModelTie_packet_contains_af : forall p, length p = 188%nat ->
  Pat.PatPkt.contains_adaptation_field p = Ok (Packet.ContainsAdaptationField p) /\
  Pmt.pkt_has_af p = Ok (Packet.ContainsAdaptationField p) /\
  Accumulator.contains_af p = Ok (Packet.ContainsAdaptationField p) /\
  Pes.pkt_contains_af p = Packet.ContainsAdaptationField p.
Proof. exact (fun p H => conj (contains_af_pat p H) (conj (contains_af_pmt p H)
                         (conj (contains_af_accumulator p H) (contains_af_pes p)))). Qed.
Print Assumptions ModelTie_packet_contains_af.

Theorem ModelTie_packet_payload_start : forall p, length p = 188%nat ->
  Pat.PatPkt.payload_start p = Ok (Packet.payloadStart_fn p) /\
  Pmt.payload_start p = Ok (Packet.payloadStart_fn p) /\
  Accumulator.payload_start p = Ok (Packet.payloadStart_fn p) /\
  Pes.pkt_payload_start p = Packet.payloadStart_fn p.
Proof. exact (fun p H => conj (payload_start_pat p H) (conj (payload_start_pmt p H)
                         (conj (payload_start_accumulator p H) (payload_start_pes p)))). Qed.
Print Assumptions ModelTie_packet_payload_start.

(* packet.Payload: same bytes, same error, same panic in all five transcriptions
   (accumulator.go's copy returns the Go pair ([]byte, error) as a sum: sum_of_res) *)
Theorem ModelTie_packet_payload : forall p, length p = 188%nat ->
  Pat.PatPkt.payload p = Packet.Payload_fn p /\
  Pmt.pkt_payload p = Packet.Payload_fn p /\
  Pes.pkt_payload p = Packet.Payload_fn p /\
  Accumulator.payload p = sum_of_res (Packet.Payload_fn p).
Proof. exact (fun p H => conj (payload_pat p H) (conj (payload_pmt p H) (conj (payload_pes p H) (payload_accumulator p H)))). Qed.
Print Assumptions ModelTie_packet_payload.

Theorem ModelTie_packet_header : forall p, length p = 188%nat -> Pmt.pkt_header p = Packet.Header p.
Proof. exact header_pmt. Qed.
Print Assumptions ModelTie_packet_header.

Theorem ModelTie_packet_pes_header : forall p, length p = 188%nat -> Pes.pkt_pes_header p = Packet.PESHeader p.
Proof. exact pes_header_pes. Qed.
Print Assumptions ModelTie_packet_pes_header.

(* the method / function pairs of the Go code itself (modify.go methods vs packet.go functions), on all lists *)
Theorem ModelTie_packet_methods : forall p,
  Packet.PID_m p = Packet.Pid_fn p /\
  Packet.PayloadUnitStartIndicator_m p = Packet.PayloadUnitStartIndicator_fn p /\
  Packet.HasPayload p = Packet.ContainsPayload p /\
  Packet.HasAdaptationField p = Packet.ContainsAdaptationField p /\
  Packet.ContinuityCounter_m p = Packet.ContinuityCounter_fn p /\
  Packet.payloadStart_m p = Packet.payloadStart_fn p.
Proof. exact (fun p => conj (pid_method p) (conj (pusi_method p) (conj (has_payload_method p)
                      (conj (has_af_method p) (conj (cc_method p) (payload_start_method p)))))). Qed.
Print Assumptions ModelTie_packet_methods.

(* packet/io.go IsSynced masks the big-endian header word instead of calling the accessors (Model/IO.v, C16): the PID
   and the adaptation_field_control bits it tests are those of packet.Pid / AdaptationFieldControl on the same packet *)
Theorem ModelTie_issynced_fields : forall b0 b1 b2 b3 rest, b0 < 256 -> b1 < 256 -> b2 < 256 -> b3 < 256 ->
  let p := b0 :: b1 :: b2 :: b3 :: rest in
  N.shiftr (N.land (be32 b0 b1 b2 b3) SyncIO.pidMask) 8 = Packet.Pid_fn p /\
  N.land (be32 b0 b1 b2 b3) SyncIO.afcMask = N.land (Packet.get p 3) 48.
Proof. exact issynced_fields. Qed.
Print Assumptions ModelTie_issynced_fields.

(* ================================================================== packet/create.go
   reference: Model/Create.v (C02); copies: Pes.pkt_set_payload, Pes.with_pes (C11) *)
Theorem ModelTie_create_set_payload : forall pkt pay, Pes.pkt_set_payload pkt pay = fst (Create.SetPayload_fn pkt pay).
Proof. exact set_payload_pes. Qed.
Print Assumptions ModelTie_create_set_payload.
Theorem ModelTie_create_with_pes : forall pkt pts,
  Pes.with_pes pkt pts = Ok (Create.apply_option pkt (Create.OptWithPES pts)).
Proof. exact with_pes_pes. Qed.
Print Assumptions ModelTie_create_with_pes.

(* ================================================================== packet/adaptationfield.go
   reference: Model/AF.v (C03, whole file); copy: Packet.AFP + Packet.getBit/setBit/fill (Model/Packet.v, the primitives
   SetPayload and SetAdaptationFieldControl of C02 use).  On ALL lists. *)
Theorem ModelTie_af_bits : forall p i m,
  Packet.getBit p i m = AF.get_bit p i m /\
  (m < 256 -> forall v, Packet.setBit p i m v = AF.set_bit p i m v).
Proof. exact (fun p i m => conj (af_get_bit p i m) (fun H v => af_set_bit p i m v H)). Qed.
Print Assumptions ModelTie_af_bits.

Theorem ModelTie_af_flags : forall p,
  Packet.AFP.Length p = AF.Length p /\
  Packet.AFP.hasPCR p = AF.hasPCR p /\ Packet.AFP.hasOPCR p = AF.hasOPCR p /\
  Packet.AFP.hasSplicingPoint p = AF.hasSplicingPoint p /\
  Packet.AFP.hasTransportPrivateData p = AF.hasTransportPrivateData p /\
  Packet.AFP.hasAdaptationFieldExtension p = AF.hasAdaptationFieldExtension p.
Proof. exact (fun p => conj (af_length p) (conj (af_hasPCR p) (conj (af_hasOPCR p) (conj (af_hasSplicingPoint p)
                      (conj (af_hasTransportPrivateData p) (af_hasAdaptationFieldExtension p)))))). Qed.
Print Assumptions ModelTie_af_flags.

Theorem ModelTie_af_offsets : forall p,
  Packet.AFP.pcrLength p = AF.pcrLength p /\ Packet.AFP.opcrLength p = AF.opcrLength p /\
  Packet.AFP.spliceCountdownLength p = AF.spliceCountdownLength p /\
  Packet.AFP.transportPrivateDataStart p = AF.transportPrivateDataStart p /\
  Packet.AFP.transportPrivateDataLength p = AF.transportPrivateDataLength p /\
  Packet.AFP.adaptationExtensionStart p = AF.adaptationExtensionStart p /\
  Packet.AFP.adaptationExtensionLength p = AF.adaptationExtensionLength p.
Proof. exact (fun p => conj (af_pcrLength p) (conj (af_opcrLength p) (conj (af_spliceCountdownLength p)
                      (conj (af_transportPrivateDataStart p) (conj (af_transportPrivateDataLength p)
                      (conj (af_adaptationExtensionStart p) (af_adaptationExtensionLength p))))))). Qed.
Print Assumptions ModelTie_af_offsets.

(* the three that SetPayload's arithmetic rests on *)
Theorem ModelTie_af_stuffing : forall p,
  Packet.AFP.stuffingStart p = AF.stuffingStart p /\
  Packet.AFP.stuffingEnd p = AF.stuffingEnd p /\
  Packet.AFP.stuffAF p = AF.stuffAF p /\
  (forall a b, Packet.fill p a b 255 = AF.fill_ff p a b).
Proof. exact (fun p => conj (af_stuffingStart p) (conj (af_stuffingEnd p) (conj (af_stuffAF p) (af_fill p)))). Qed.
Print Assumptions ModelTie_af_stuffing.

(* AF.valid reads the two header facts through the same expressions as the Packet methods *)
Theorem ModelTie_af_valid : forall p, AF.valid p =
  if negb (Packet.HasAdaptationField p) then Err E.NoAdaptationField
  else if Packet.AFP.Length p =? 0 then Err E.AdaptationFieldZeroLength else Ok tt.
Proof. exact af_valid. Qed.
Print Assumptions ModelTie_af_valid.

(* package adaptationfield (function style, Model/AFfn.v) vs the methods (Model/AF.v): two Go implementations,
   same flag bits and same offsets *)
Theorem ModelTie_affn : forall p,
  AFfn.Length p = AF.Length p /\ AFfn.HasPCR p = AF.hasPCR p /\ AFfn.HasOPCR p = AF.hasOPCR p /\
  AFfn.HasSplicingPoint p = AF.hasSplicingPoint p /\ AFfn.HasTransportPrivateData p = AF.hasTransportPrivateData p /\
  AFfn.HasAdaptationFieldExtension p = AF.hasAdaptationFieldExtension p /\
  AFfn.opcr_offset p = AF.opcrStart p /\ AFfn.splice_offset p = AF.spliceCountdownStart p /\
  AFfn.tpd_offset p = AF.transportPrivateDataStart p.
Proof. exact (fun p => conj (affn_length p) (conj (affn_hasPCR p) (conj (affn_hasOPCR p) (conj (affn_hasSplicingPoint p)
                      (conj (affn_hasTransportPrivateData p) (conj (affn_hasAdaptationFieldExtension p)
                      (conj (affn_opcr_offset p) (conj (affn_splice_offset p) (affn_tpd_offset p))))))))). Qed.
Print Assumptions ModelTie_affn.

(* ================================================================== psi/psi.go
   reference: Model/Psi.v (C06, C14); copies: Pat.PatPsi (C07, Res-typed), Scte.pointer_field /
   Scte.table_header_from_bytes (C08).  On ALL lists. *)
Theorem ModelTie_psi_section_helpers : forall s,
  Pat.PatPsi.table_id_sec s = Ok (Psi.table_id' s) /\
  Pat.PatPsi.section_syntax_indicator_sec s = Ok (Psi.ssi' s) /\
  Pat.PatPsi.section_length_sec s = Ok (Psi.section_length' s).
Proof. exact (fun s => conj (psi_table_id_sec s) (conj (psi_ssi_sec s) (psi_section_length_sec s))). Qed.
Print Assumptions ModelTie_psi_section_helpers.

Theorem ModelTie_psi_accessors : forall psi,
  Pat.PatPsi.pointer_field psi = Ok (Psi.pointer_field psi) /\
  Scte.pointer_field psi = Psi.pointer_field psi /\
  Pat.PatPsi.table_id psi = Ok (Psi.table_id psi) /\
  Pat.PatPsi.section_syntax_indicator psi = Ok (Psi.section_syntax_indicator psi) /\
  Pat.PatPsi.private_indicator psi = Ok (Psi.private_indicator psi) /\
  Pat.PatPsi.section_length psi = Ok (Psi.section_length psi).
Proof. exact (fun psi => conj (psi_pointer_field psi) (conj (psi_pointer_field_scte psi) (conj (psi_table_id psi)
                        (conj (psi_section_syntax_indicator psi) (conj (psi_private_indicator psi) (psi_section_length psi)))))). Qed.
Print Assumptions ModelTie_psi_accessors.

Theorem ModelTie_psi_table_header : forall d, is_bytes d ->
  Scte.table_header_from_bytes d = rmap th_tuple (Psi.table_header_from_bytes d).
Proof. exact psi_table_header_scte. Qed.
Print Assumptions ModelTie_psi_table_header.

(* psi.TableHeader.Data(): Model/Psi.v versus the three header bytes UpdateData (Model/ScteEnc.v, C09) writes inline *)
Theorem ModelTie_psi_table_header_data :
  (forall tid ssi pi sl,
     Psi.table_header_data {| Psi.th_tid := tid; Psi.th_ssi := ssi; Psi.th_pi := pi; Psi.th_sl := sl |} =
     [tid; 128 * b2n ssi + 64 * b2n pi + 48 + (sl / 256) mod 4; sl mod 256]) /\
  (forall st, exists rest,
     fst (ScteEnc.update_data st) =
     Psi.table_header_data {| Psi.th_tid := Scte.s_tid st; Psi.th_ssi := Scte.s_ssi st; Psi.th_pi := Scte.s_pi st;
                              Psi.th_sl := Scte.s_slen (snd (ScteEnc.update_data st)) |} ++ rest).
Proof. exact (conj psi_table_header_data_bytes update_data_header). Qed.
Print Assumptions ModelTie_psi_table_header_data.

(* ================================================================== pts.go / pes/pesheader.go *)
Theorem ModelTie_extract_time : forall b, Pes.extract_time b = Pts.extract_time b.
Proof. exact extract_time_pes. Qed.
Print Assumptions ModelTie_extract_time.

(* ================================================================== packet/accumulator.go
   reference: Model/Accumulator.v (C17, any predicate); copy: the accumulator inside the PMT reader of C06
   (Pmt.acc / acc_add / write_packet, predicate PmtAccumulatorDoneFunc built in, no packet list).
   pmt_pred b = (d, nil) where PmtAccumulatorDoneFunc b = d;  acc_of a ps = C17 accumulator with a's state and buffer
   and any packet list ps;  pmt_view = projection of C17's result to (state, buffer, error). *)
Theorem ModelTie_accumulator_write_packet : forall a ps pkt,
  length pkt = 188%nat -> is_bytes pkt -> is_bytes (Pmt.a_buf a) -> Pmt.a_state a <= 2 ->
  Pmt.write_packet a pkt = pmt_view (Accumulator.write_packet pmt_pred (acc_of a ps) pkt).
Proof. exact pmt_write_packet_is_accumulator. Qed.
Print Assumptions ModelTie_accumulator_write_packet.

(* PmtAccumulatorDoneFunc always answers on byte strings, so pmt_pred loses nothing *)
Theorem ModelTie_done_func_answers : forall b, is_bytes b -> exists d, Pmt.done_func b = Ok d /\ pmt_pred b = (d, None).
Proof. exact done_func_answers. Qed.
Print Assumptions ModelTie_done_func_answers.

(* non-vacuity: a PUSI packet with adaptation field and payload, run through every copy by computation *)
Definition ex_pkt : bytes := [71; 64; 17; 48; 2; 0; 255; 0; 2; 176; 13] ++ repeatN 255 177.
Example ModelTie_example :
  length ex_pkt = 188%nat /\ Packet.Pid_fn ex_pkt = 17 /\ Packet.payloadStart_fn ex_pkt = 7 /\
  Pat.PatPkt.payload ex_pkt = Packet.Payload_fn ex_pkt /\ Pmt.pkt_payload ex_pkt = Packet.Payload_fn ex_pkt /\
  (exists b, Packet.Payload_fn ex_pkt = Ok b /\ length b = 181%nat) /\
  Packet.AFP.stuffingStart ex_pkt = AF.stuffingStart ex_pkt /\ AF.stuffingStart ex_pkt = 6 /\
  Pmt.write_packet Pmt.new_acc ex_pkt = pmt_view (Accumulator.write_packet pmt_pred (acc_of Pmt.new_acc []) ex_pkt).
Proof. vm_compute. repeat split; try reflexivity. eexists. split; reflexivity. Qed.
