(* C07 — PAT decoding: program count, program map and single-program PID are exact.
   Statements only; proofs in Proofs/Pat.v (payload carrier) and Proofs/PatCarriers.v (packet and
   stream carriers, IsPMT).  Spec/PatSpec.v: `ser_payload s rest` = pointer_field 0, the program
   association section of the logical record s (any entry list with section_length < 1024, any
   reserved bits), then any trailing bytes; `ser_packet h af payload` = the 188-byte packet.
   Hypothesis of the theorems up to C07_packet_fields: pointer_field = 0.  The section C07_pointer_nonzero_* below
   (Proofs/PatPointer.v) says exactly what the code does for pointer_field = k > 0, which is why the hypothesis is
   needed: NumPrograms honours the pointer, ProgramMap / SPTSpmtPID / IsPMT decode from the fixed payload offset 9. *)
From Gots Require Import Base.Prelude Model.Pat Spec.PatSpec Proofs.Pat Proofs.PatCarriers Proofs.PatPointer.
Import PatSpec.
Local Open Scope N_scope.

(* ---- the three carriers deliver the same PAT object ---- *)
(* payload bytes (NewPAT treats a slice of exactly 188 bytes as a packet: excluded, see notes/findings/C07.md) *)
Theorem C07_new_pat_payload : forall s rest, wf_section s -> len (ser_payload s rest) <> 188 ->
  Pat.new_pat (ser_payload s rest) = Ok (ser_payload s rest).
Proof. exact new_pat_payload. Qed.
Print Assumptions C07_new_pat_payload.

(* 188-byte path = payload path, for EVERY 188-byte array (any adaptation field, also malformed ones) *)
Theorem C07_new_pat_packet : forall pkt, len pkt = 188 ->
  Pat.new_pat pkt = (let? pay := Pat.PatPkt.payload pkt in Pat.new_pat pay).
Proof. exact new_pat_packet. Qed.
Print Assumptions C07_new_pat_packet.

Theorem C07_packet_carrier : forall h af s rest, wf_section s -> wf_packet h af (ser_payload s rest) ->
  Pat.new_pat (ser_packet h af (ser_payload s rest)) = Ok (ser_payload s rest).
Proof. exact packet_carrier. Qed.
Print Assumptions C07_packet_carrier.

(* ReadPAT: any prefix of packets of other PIDs is skipped; what follows the PAT packet does not matter *)
Theorem C07_read_pat : forall others h af s rest more, Forall other_pid others ->
  wf_section s -> wf_packet h af (ser_payload s rest) -> ppid h = 0 ->
  Pat.read_pat (map Pat.RFull others ++ Pat.RFull (ser_packet h af (ser_payload s rest)) :: more)
  = Ok (ser_payload s rest).
Proof. exact stream_carrier. Qed.
Print Assumptions C07_read_pat.

(* a stream that ends (clean EOF, exhausted reader, or inside a packet) without a PID-0 packet *)
Theorem C07_read_pat_not_found : forall pkts e, Forall other_pid pkts -> e = E.EOF \/ e = E.UnexpectedEOF ->
  Pat.read_pat (map Pat.RFull pkts) = Err E.PATNotFound /\
  Pat.read_pat (map Pat.RFull pkts ++ [Pat.RFail e]) = Err E.PATNotFound.
Proof. exact read_pat_not_found. Qed.
Print Assumptions C07_read_pat_not_found.

(* ---- the accessors on the delivered PAT ---- *)
Theorem C07_num_programs : forall s rest, wf_section s ->
  Pat.num_programs (ser_payload s rest) = Ok (Z.of_nat (length (entries s))).
Proof. exact num_programs_ok. Qed.
Print Assumptions C07_num_programs.

(* exactly the entries with non-zero program_number, mapped to their 13-bit PID; the last entry of a
   program_number wins; keys are unique (so comparing sorted maps is comparing maps) *)
Theorem C07_program_map : forall s rest, wf_section s ->
  exists m, Pat.program_map (ser_payload s rest) = Ok m /\ NoDup (map fst m) /\
            forall p x, In (p, x) m <-> map_lookup (entries s) p = Some x.
Proof. exact program_map_spec. Qed.
Print Assumptions C07_program_map.

Theorem C07_spts_pid_iff : forall s rest x, wf_section s ->
  (Pat.spts_pmt_pid (ser_payload s rest) = Ok x <-> exists e, entries s = [e] /\ pn e <> 0 /\ pid e = x).
Proof. exact spts_iff. Qed.
Print Assumptions C07_spts_pid_iff.

Theorem C07_spts_pid_fails_otherwise : forall s rest, wf_section s ->
  (forall x, Pat.spts_pmt_pid (ser_payload s rest) <> Ok x) -> Pat.spts_pmt_pid (ser_payload s rest) = Err E.Other.
Proof. exact spts_fails. Qed.
Print Assumptions C07_spts_pid_fails_otherwise.

(* ---- IsPMT ---- *)
Theorem C07_is_pmt_iff : forall pkt s rest x, wf_section s -> Pat.PatPkt.pid pkt = Ok x ->
  exists b, Pat.is_pmt pkt (Some (ser_payload s rest)) = Ok b /\
            (b = true <-> exists p, map_lookup (entries s) p = Some x).
Proof. exact is_pmt_iff. Qed.
Print Assumptions C07_is_pmt_iff.

Theorem C07_is_pmt_nil : forall pkt, Pat.is_pmt pkt None = Err E.NilPAT.
Proof. exact is_pmt_nil. Qed.
Print Assumptions C07_is_pmt_nil.

(* the Spec packet really carries that PID and payload (ties `other_pid` / `Pat.PatPkt.pid pkt = Ok x` to packets) *)
Theorem C07_packet_fields : forall h af pay, wf_packet h af pay ->
  Pat.PatPkt.pid (ser_packet h af pay) = Ok (ppid h) /\ Pat.PatPkt.payload (ser_packet h af pay) = Ok pay /\
  len (ser_packet h af pay) = 188.
Proof. exact packet_fields. Qed.
Print Assumptions C07_packet_fields.

(* ---- pointer_field = k: `ser_payload_pf k filler s rest` = the pointer byte k, k bytes that precede the section
        (the end of a previous section or stuffing), the section, then anything.  For EVERY k < 256:
        NewPAT accepts the bytes as they are (C07_pointer_nonzero_new_pat), SectionLength / NumPrograms honour the
        pointer and return the number of entries, but ProgramMap decodes the n = NumPrograms() four-byte groups that
        begin at payload offset 9 - `seen`: bytes 8.. of what follows the pointer byte - which are the entries only
        when k = 0 (C07_pointer_zero_seen); for k > 0 they are the k bytes before the entry loop and all but the last
        k bytes of it.  SPTSpmtPID and IsPMT follow ProgramMap. ---- *)
Theorem C07_pointer_nonzero_new_pat : forall k filler s rest, wf_section s -> k < 256 -> len filler = k ->
  len (ser_payload_pf k filler s rest) <> 188 ->
  Pat.new_pat (ser_payload_pf k filler s rest) = Ok (ser_payload_pf k filler s rest).
Proof. exact new_pat_pf. Qed.
Print Assumptions C07_pointer_nonzero_new_pat.
Theorem C07_pointer_nonzero_num_programs : forall k filler s rest, wf_section s -> k < 256 -> len filler = k ->
  Pat.num_programs (ser_payload_pf k filler s rest) = Ok (Z.of_nat (length (entries s))).
Proof. exact num_programs_pf. Qed.
Print Assumptions C07_pointer_nonzero_num_programs.
Theorem C07_pointer_nonzero_program_map : forall k filler s rest, wf_section s -> k < 256 -> len filler = k ->
  is_bytes filler -> is_bytes rest ->
  exists m, Pat.program_map (ser_payload_pf k filler s rest) = Ok m /\ NoDup (map fst m) /\
            forall p x, In (p, x) m <-> map_lookup (seen filler s rest) p = Some x.
Proof. exact program_map_pf_spec. Qed.
Print Assumptions C07_pointer_nonzero_program_map.
Theorem C07_pointer_nonzero_spts : forall k filler s rest, wf_section s -> k < 256 -> len filler = k ->
  is_bytes filler -> is_bytes rest ->
  Pat.spts_pmt_pid (ser_payload_pf k filler s rest) =
  if (1 <? Z.of_nat (length (entries s)))%Z then Err E.Other else
  match seen filler s rest with [e] => if pn e =? 0 then Err E.Other else Ok (pid e) | _ => Err E.Other end.
Proof. exact spts_pf. Qed.
Print Assumptions C07_pointer_nonzero_spts.
Theorem C07_pointer_zero_seen : forall s rest, wf_section s -> seen [] s rest = entries s.
Proof. exact seen_pf0. Qed.
Print Assumptions C07_pointer_zero_seen.

(* the property as its text reads - program map / single-program PID exact for every well-formed section supplied as
   payload bytes, whatever the pointer_field - is therefore FALSE of the code: *)
Definition C07_program_map_any_pointer_full : Prop :=
  forall k filler s rest, wf_section s -> k < 256 -> len filler = k -> is_bytes filler -> is_bytes rest ->
  exists m, Pat.program_map (ser_payload_pf k filler s rest) = Ok m /\
            forall p x, In (p, x) m <-> map_lookup (entries s) p = Some x.
(* C07_program_map above is the part that holds (k = 0, `_partial` in the sense of the guide); witness against the
   full statement: one program 1 -> PID 0x100, pointer_field 1, one stuffing byte: NumPrograms = 1 but the map is
   empty and SPTSpmtPID fails (replay in notes/findings/C07.md) *)
Theorem C07_pointer_nonzero_refuted :
  wf_section wit_section /\
  wit_payload = [1; 255; 0; 0xB0; 13; 0; 1; 0xC1; 0; 0; 0; 1; 0xE1; 0; 1; 2; 3; 4] /\
  Pat.new_pat wit_payload = Ok wit_payload /\
  Pat.num_programs wit_payload = Ok 1%Z /\
  Pat.program_map wit_payload = Ok [] /\ map_lookup (entries wit_section) 1 = Some 0x100 /\
  Pat.spts_pmt_pid wit_payload = Err E.Other /\ spts (entries wit_section) = Some 0x100.
Proof. exact pointer_nonzero_witness. Qed.
Print Assumptions C07_pointer_nonzero_refuted.
Theorem C07_program_map_any_pointer_full_refuted : ~ C07_program_map_any_pointer_full.
Proof. exact any_pointer_full_refuted. Qed.
Print Assumptions C07_program_map_any_pointer_full_refuted.

(* ---- the executable oracle `spec.pat` of modelexec (Spec/PatSpec.v: spec_num / spec_map / spts / spec_is_pmt, computed
        from the logical entry list alone) is the map of the theorems: exactly the pairs of map_lookup, keys strictly
        increasing (so it IS the sorted observation) ---- *)
Theorem C07_spec_oracle_map : forall es,
  (forall p x, In (p, x) (spec_map es) <-> map_lookup es p = Some x) /\ incr (map fst (spec_map es)).
Proof. intros es. exact (conj (spec_map_in es) (spec_map_keys_incr es)). Qed.
Print Assumptions C07_spec_oracle_map.

(* non-vacuity: a three-entry section (network entry, a program, the same program again with PID high
   bits and reserved bits set) in a packet with an adaptation field *)
Definition ex_section : section :=
  mkS 0xB [0; 1; 0xC1; 0; 0] [mkE 0 0x10 7; mkE 1 0x100 7; mkE 1 0x1FFF 0] [1; 2; 3; 4].
Example C07_nonvacuous :
  wf_section ex_section /\
  ser_payload ex_section [] = [0; 0; 0xB0; 21; 0; 1; 0xC1; 0; 0; 0; 0; 0xE0; 0x10; 0; 1; 0xE1; 0; 0; 1; 0x1F; 0xFF; 1; 2; 3; 4] /\
  Pat.num_programs (ser_payload ex_section []) = Ok 3%Z /\
  Pat.program_map (ser_payload ex_section []) = Ok [(1, 0x1FFF)] /\
  map_lookup (entries ex_section) 1 = Some 0x1FFF /\ map_lookup (entries ex_section) 0 = None /\
  Pat.spts_pmt_pid (ser_payload ex_section []) = Err E.Other /\
  wf_packet (mkH 2 0 0 5) (Some (0 :: repeat 255 157)) (ser_payload ex_section []).
Proof. unfold wf_section, wf_packet, wf_hdr, wf_entry, is_bytes, is_byte, ex_section.
  repeat split; cbn [flags hdr entries crc pn pid res b1hi ppid tsc cc]; try reflexivity; try lia; repeat constructor; try lia.
  all: try (vm_compute; reflexivity). Qed.
