(* C07 — PAT decoding: program count, program map and single-program PID are exact.
   Statements only; proofs in Proofs/Pat.v (payload carrier), Proofs/PatCarriers.v (packet and stream carriers, IsPMT)
   and Proofs/PatPointer.v (witnesses, oracle).  Spec/PatSpec.v:
   `ser_payload_pf k filler s rest` = the pointer_field byte k, the k bytes that precede the section (the end of a
   previous section or stuffing: ANY bytes), the program association section of the logical record s (any entry list
   with section_length < 1024, any reserved bits), then any trailing bytes; `ser_payload s rest` is the case k = 0,
   filler = [] (C07_payload_pf0); `ser_packet h af payload` = the 188-byte packet.
   Every theorem holds for EVERY pointer_field k (k < 256 = any byte; hypothesis `len filler = k` = the pointer says how
   many bytes precede the section).  Round 1 and 2 needed pointer_field = 0: the accessors hard-coded payload offset 9
   (finding P1, notes/findings/C07.md), repaired in /repo commit 3223166, which Model/Pat.v follows;
   C07_pointer_nonzero_before_fix keeps the old behaviour on record. *)
From Gots Require Import Base.Prelude Model.Pat Spec.PatSpec Proofs.Pat Proofs.PatCarriers Proofs.PatPointer.
Import PatSpec.
Local Open Scope N_scope.

Theorem C07_payload_pf0 : forall s rest, ser_payload s rest = ser_payload_pf 0 [] s rest.
Proof. exact ser_payload_pf0. Qed.
Print Assumptions C07_payload_pf0.

(* ---- the three carriers deliver the same PAT object ---- *)
(* payload bytes (NewPAT treats a slice of exactly 188 bytes as a packet: excluded, see notes/findings/C07.md) *)
Theorem C07_new_pat_payload : forall k filler s rest, wf_section s -> len filler = k ->
  len (ser_payload_pf k filler s rest) <> 188 ->
  Pat.new_pat (ser_payload_pf k filler s rest) = Ok (ser_payload_pf k filler s rest).
Proof. exact new_pat_payload. Qed.
Print Assumptions C07_new_pat_payload.

(* 188-byte path = payload path, for EVERY 188-byte array (any adaptation field, also malformed ones) *)
Theorem C07_new_pat_packet : forall pkt, len pkt = 188 ->
  Pat.new_pat pkt = (let? pay := Pat.PatPkt.payload pkt in Pat.new_pat pay).
Proof. exact new_pat_packet. Qed.
Print Assumptions C07_new_pat_packet.

(* a payload that fits into a packet (wf_packet: 4 + adaptation field + payload = 188 bytes) has pointer_field <= 171 *)
Theorem C07_packet_carrier : forall h af k filler s rest, wf_section s -> len filler = k ->
  wf_packet h af (ser_payload_pf k filler s rest) ->
  Pat.new_pat (ser_packet h af (ser_payload_pf k filler s rest)) = Ok (ser_payload_pf k filler s rest).
Proof. exact packet_carrier. Qed.
Print Assumptions C07_packet_carrier.
Theorem C07_packet_pointer_bound : forall h af k filler s rest, wf_section s -> len filler = k ->
  wf_packet h af (ser_payload_pf k filler s rest) -> k <= 171.
Proof. exact packet_pointer_bound. Qed.
Print Assumptions C07_packet_pointer_bound.

(* ReadPAT: any prefix of packets of other PIDs is skipped; what follows the PAT packet does not matter *)
Theorem C07_read_pat : forall others h af k filler s rest more, Forall other_pid others ->
  wf_section s -> len filler = k -> wf_packet h af (ser_payload_pf k filler s rest) -> ppid h = 0 ->
  Pat.read_pat (map Pat.RFull others ++ Pat.RFull (ser_packet h af (ser_payload_pf k filler s rest)) :: more)
  = Ok (ser_payload_pf k filler s rest).
Proof. exact stream_carrier. Qed.
Print Assumptions C07_read_pat.

(* a stream that ends (clean EOF, exhausted reader, or inside a packet) without a PID-0 packet *)
Theorem C07_read_pat_not_found : forall pkts e, Forall other_pid pkts -> e = E.EOF \/ e = E.UnexpectedEOF ->
  Pat.read_pat (map Pat.RFull pkts) = Err E.PATNotFound /\
  Pat.read_pat (map Pat.RFull pkts ++ [Pat.RFail e]) = Err E.PATNotFound.
Proof. exact read_pat_not_found. Qed.
Print Assumptions C07_read_pat_not_found.

(* ---- the accessors on the delivered PAT, for every pointer_field ---- *)
Theorem C07_num_programs : forall k filler s rest, wf_section s -> k < 256 -> len filler = k ->
  Pat.num_programs (ser_payload_pf k filler s rest) = Ok (Z.of_nat (length (entries s))).
Proof. exact num_programs_ok. Qed.
Print Assumptions C07_num_programs.

(* exactly the entries with non-zero program_number, mapped to their 13-bit PID; the last entry of a
   program_number wins; keys are unique (so comparing sorted maps is comparing maps) *)
Theorem C07_program_map : forall k filler s rest, wf_section s -> k < 256 -> len filler = k ->
  exists m, Pat.program_map (ser_payload_pf k filler s rest) = Ok m /\ NoDup (map fst m) /\
            forall p x, In (p, x) m <-> map_lookup (entries s) p = Some x.
Proof. exact program_map_spec. Qed.
Print Assumptions C07_program_map.

Theorem C07_spts_pid_iff : forall k filler s rest x, wf_section s -> k < 256 -> len filler = k ->
  (Pat.spts_pmt_pid (ser_payload_pf k filler s rest) = Ok x <-> exists e, entries s = [e] /\ pn e <> 0 /\ pid e = x).
Proof. exact spts_iff. Qed.
Print Assumptions C07_spts_pid_iff.

Theorem C07_spts_pid_fails_otherwise : forall k filler s rest, wf_section s -> k < 256 -> len filler = k ->
  (forall x, Pat.spts_pmt_pid (ser_payload_pf k filler s rest) <> Ok x) ->
  Pat.spts_pmt_pid (ser_payload_pf k filler s rest) = Err E.Other.
Proof. exact spts_fails. Qed.
Print Assumptions C07_spts_pid_fails_otherwise.

(* ---- IsPMT ---- *)
Theorem C07_is_pmt_iff : forall pkt k filler s rest x, wf_section s -> k < 256 -> len filler = k ->
  Pat.PatPkt.pid pkt = Ok x ->
  exists b, Pat.is_pmt pkt (Some (ser_payload_pf k filler s rest)) = Ok b /\
            (b = true <-> exists p, map_lookup (entries s) p = Some x).
Proof. exact is_pmt_iff. Qed.
Print Assumptions C07_is_pmt_iff.

Theorem C07_is_pmt_nil : forall pkt, Pat.is_pmt pkt None = Err E.NilPAT.
Proof. exact is_pmt_nil. Qed.
Print Assumptions C07_is_pmt_nil.

(* the Spec packet really carries that PID and payload (ties `other_pid` / `Pat.PatPkt.pid pkt = Ok x` to packets) *)
Theorem C07_packet_fields : forall h af pay, wf_packet h af pay ->
  Pat.PatPkt.pid (ser_packet h af pay) = Ok (ppid h) /\ Pat.PatPkt.payload (ser_packet h af pay) = Ok pay /\
  len (ser_packet h af pay) = 188.
Proof. exact packet_fields. Qed.
Print Assumptions C07_packet_fields.

(* ---- pointer_field > 0: finding P1 and its repair.  The statement that round 2 had to refute
        (C07_program_map_any_pointer_full_refuted) is now the theorem C07_program_map above; restated under its old name: ---- *)
Definition C07_program_map_any_pointer_full : Prop :=
  forall k filler s rest, wf_section s -> k < 256 -> len filler = k -> is_bytes filler -> is_bytes rest ->
  exists m, Pat.program_map (ser_payload_pf k filler s rest) = Ok m /\
            forall p x, In (p, x) m <-> map_lookup (entries s) p = Some x.
Theorem C07_program_map_any_pointer_full_holds : C07_program_map_any_pointer_full.
Proof. exact any_pointer_full_holds. Qed.
Print Assumptions C07_program_map_any_pointer_full_holds.
(* the round-2 witness (one program 1 -> PID 0x100, pointer_field 1, one stuffing byte; replay
   `pat.new x01ff00b00d0001c100000001e10001020304`, a `fixed` entry of known_findings.json) now decodes correctly ... *)
Theorem C07_pointer_nonzero_witness :
  wf_section wit_section /\
  wit_payload = [1; 255; 0; 0xB0; 13; 0; 1; 0xC1; 0; 0; 0; 1; 0xE1; 0; 1; 2; 3; 4] /\
  Pat.new_pat wit_payload = Ok wit_payload /\
  Pat.num_programs wit_payload = Ok 1%Z /\
  Pat.program_map wit_payload = Ok [(1, 0x100)] /\ map_lookup (entries wit_section) 1 = Some 0x100 /\
  Pat.spts_pmt_pid wit_payload = Ok 0x100 /\ spts (entries wit_section) = Some 0x100.
Proof. exact pointer_nonzero_witness. Qed.
Print Assumptions C07_pointer_nonzero_witness.
(* ... while the accessors as they were before 3223166 (Model/Pat.v keeps them as the `_with` functions: entry loop from
   the fixed payload offset 9) return an empty map and fail: what bin/check reports if the repair is reverted *)
Theorem C07_pointer_nonzero_before_fix :
  Pat.num_programs_with Pat.PatPsi.section_length wit_payload = Ok 1%Z /\
  Pat.program_map_with Pat.PatPsi.section_length wit_payload = Ok [] /\
  Pat.spts_pmt_pid_with Pat.PatPsi.section_length wit_payload = Err E.Other.
Proof. exact pointer_nonzero_before_fix. Qed.
Print Assumptions C07_pointer_nonzero_before_fix.
(* the largest pointer_field, 255 bytes of filler (bare payload carrier) *)
Theorem C07_pointer_255_example :
  let pay := ser_payload_pf 255 (repeat 255 255) wit_section [9; 9] in
  len pay = 274 /\ Pat.new_pat pay = Ok pay /\ Pat.num_programs pay = Ok 1%Z /\ Pat.program_map pay = Ok [(1, 0x100)] /\
  Pat.spts_pmt_pid pay = Ok 0x100.
Proof. exact pointer_255_example. Qed.
Print Assumptions C07_pointer_255_example.

(* ---- the executable oracle `spec.pat` of modelexec (Spec/PatSpec.v: spec_num / spec_map / spts / spec_is_pmt, computed
        from the logical entry list alone) is the map of the theorems: exactly the pairs of map_lookup, keys strictly
        increasing (so it IS the sorted observation) ---- *)
Theorem C07_spec_oracle_map : forall es,
  (forall p x, In (p, x) (spec_map es) <-> map_lookup es p = Some x) /\ incr (map fst (spec_map es)).
Proof. intros es. exact (conj (spec_map_in es) (spec_map_keys_incr es)). Qed.
Print Assumptions C07_spec_oracle_map.

(* non-vacuity: a three-entry section (network entry, a program, the same program again with PID high
   bits and reserved bits set) behind pointer_field 3 with arbitrary filler, in a packet with an adaptation field *)
Definition ex_section : section :=
  mkS 0xB [0; 1; 0xC1; 0; 0] [mkE 0 0x10 7; mkE 1 0x100 7; mkE 1 0x1FFF 0] [1; 2; 3; 4].
Definition ex_payload : bytes := ser_payload_pf 3 [0xAA; 0; 0x47] ex_section [].
Example C07_nonvacuous :
  wf_section ex_section /\ len [0xAA; 0; 0x47] = 3 /\
  ex_payload = [3; 0xAA; 0; 0x47; 0; 0xB0; 21; 0; 1; 0xC1; 0; 0; 0; 0; 0xE0; 0x10; 0; 1; 0xE1; 0; 0; 1; 0x1F; 0xFF; 1; 2; 3; 4] /\
  Pat.num_programs ex_payload = Ok 3%Z /\
  Pat.program_map ex_payload = Ok [(1, 0x1FFF)] /\
  map_lookup (entries ex_section) 1 = Some 0x1FFF /\ map_lookup (entries ex_section) 0 = None /\
  Pat.spts_pmt_pid ex_payload = Err E.Other /\
  wf_packet (mkH 2 0 0 5) (Some (0 :: repeat 255 154)) ex_payload.
Proof. unfold wf_section, wf_packet, wf_hdr, wf_entry, is_bytes, is_byte, ex_section, ex_payload.
  repeat split; cbn [flags hdr entries crc pn pid res b1hi ppid tsc cc]; try reflexivity; try lia; repeat constructor; try lia.
  all: try (vm_compute; reflexivity). Qed.
