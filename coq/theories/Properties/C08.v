(* C08 — SCTE-35 decoding reports exactly the encoded splice_info_section fields.
   Statements only; proofs in Proofs/ScteDecode.v.  Vocabulary:
   - Spec/Scte35Spec.v: logical `splice_info`, `ser_splice_info` (SCTE 35 section 9 syntax), `wf_splice_info` (field ranges);
   - Proofs/ScteExpected.v: `supported` (wf, table_id 0xFC, clear, splice_null / time_signal with time /
     splice_insert, pointer_field < 255) and `expected s`, the decoder's struct for s — every getter of the
     Go API is a field (or a two-line function, ScteEnc.get_upid/get_mid) of that struct, see Exec/ScteExec.v view_scte;
   - Model/Scte.v: `new_scte35`, the model of scte35.NewSCTE35 (repaired code for F8 and the two loops). *)
From Gots Require Import Base.Prelude Model.Pts Model.Scte Spec.Scte35Spec Proofs.ScteExpected Proofs.ScteDecode.
Import Scte Scte35Spec.
Local Open Scope N_scope.

(* decoding the serialisation of ANY supported section yields exactly its fields: all command kinds
   (cancelled or not, program/component, immediate/timed, break_duration), all descriptor shapes
   (cancelled, every flag, component lists with 33-bit offsets, 40-bit duration, single UPID, MID list,
   sub-segment fields), foreign descriptors, stuffing, any pointer_field below 255 *)
Theorem C08_decode_ser : forall s, supported s -> new_scte35 (ser_splice_info s) = Ok (expected s).
Proof. exact decode_ser. Qed.
Print Assumptions C08_decode_ser.
