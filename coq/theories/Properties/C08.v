(* C08 — SCTE-35 decoding reports exactly the encoded fields (statements added as they are proved). *)
From Gots Require Import Base.Prelude Model.Scte Spec.Scte35Spec.
