(* C08 — SCTE-35 decoding reports exactly the encoded splice_info_section fields.
   Statements only; proofs in Proofs/ScteDecode.v and Proofs/ScteReject.v.  Vocabulary:
   - Spec/Scte35Spec.v: logical `splice_info`, `ser_splice_info` (SCTE 35 section 9 syntax), `wf_splice_info` (field ranges);
   - Proofs/ScteExpected.v: `wf_decode` (the clauses of wf_splice_info the decoder depends on; implied by it,
     see C08_supported_of_wf), `supported` (wf_decode, table_id 0xFC, clear, splice_null / time_signal with time /
     splice_insert, pointer_field < 255) and `expected s`, the decoder's struct for s: every getter of the
     Go API is a field (or a two-line function, ScteEnc.get_upid/get_mid) of that struct, see Exec/ScteExec.v view_scte;
   - Model/Scte.v: `new_scte35`, the model of scte35.NewSCTE35 (repaired code for F8 and the two loops);
   - Proofs/ScteDecode.v: `wf_fixed` = the field ranges of the fixed part only (used by the rejections, which
     must not assume a well-formed command / descriptor list). *)
From Gots Require Import Base.Prelude Model.Pts Model.Scte Spec.Scte35Spec Proofs.ScteExpected Proofs.ScteDecode Proofs.ScteReject Proofs.ScteWitness08 Proofs.SctePadded Proofs.ScteBytes.
Import Scte Scte35Spec.
Local Open Scope N_scope.

(* decoding the serialisation of ANY supported section yields exactly its fields: all command kinds
   (cancelled or not, program/component, immediate/timed, break_duration), all descriptor shapes
   (cancelled, every flag, component lists with 33-bit offsets, 40-bit duration, single UPID, MID list,
   sub-segment fields), foreign descriptors, stuffing, any pointer_field below 255 *)
Theorem C08_decode_ser : forall s, supported s -> new_scte35 (ser_splice_info s) = Ok (expected s).
Proof. exact decode_ser. Qed.
Print Assumptions C08_decode_ser.

(* the same with ANY bytes after the section (PSI payloads are padded with 0xFF up to the packet boundary):
   `padded s tr` = pointer_field, filler, section, tr; all getters as above, Data() = section ++ tr *)
Theorem C08_decode_ser_padded : forall s tr, supported s ->
  new_scte35 (padded s tr) = Ok (set_data (expected s) (ser_section s ++ tr)).
Proof. exact decode_ser_padded. Qed.
Print Assumptions C08_decode_ser_padded.

(* the serialisation of a well-formed logical section is a string of bytes (every element < 256): the theorems above
   speak about real inputs *)
Theorem C08_ser_is_bytes : forall s, wf_splice_info s -> is_bytes (ser_splice_info s).
Proof. exact ser_is_bytes. Qed.
Print Assumptions C08_ser_is_bytes.

Theorem C08_supported_of_wf : forall s, wf_splice_info s -> si_table_id s = 252 -> si_encrypted s = false ->
  len (si_pointer s) < 255 -> supported_cmd (si_cmd s) -> supported s.
Proof. exact supported_of_wf. Qed.
Print Assumptions C08_supported_of_wf.

(* PTS() = (pts_time + pts_adjustment) mod 2^33 whenever the command carries a time; HasPTS() is then true
   and the command's own PTS() is the unadjusted pts_time *)
Theorem C08_signal_pts : forall s t sc, supported s -> cmd_time (si_cmd s) = Some t ->
  new_scte35 (ser_splice_info s) = Ok sc ->
  s_pts sc = (t + si_pts_adj s) mod 8589934592 /\ cmd_has_pts (s_cmd sc) = true /\ cmd_pts (s_cmd sc) = t.
Proof. exact signal_pts. Qed.
Print Assumptions C08_signal_pts.

(* every decoded descriptor refers back to its enclosing signal (pointer identity rendered as object id;
   goexec checks d.SCTE35() == s on the real objects) *)
Theorem C08_desc_backref : forall s sc, supported s -> new_scte35 (ser_splice_info s) = Ok sc ->
  Forall (fun d => d_owner d = Some (s_id sc)) (s_descs sc).
Proof. exact desc_backref. Qed.
Print Assumptions C08_desc_backref.

(* the four rejections, each with its error *)
Theorem C08_reject_table_id : forall s, len (si_pointer s) < 255 -> si_table_id s <> 252 ->
  new_scte35 (ser_splice_info s) = Err E.UnknownTableID.
Proof. exact reject_table_id. Qed.
Print Assumptions C08_reject_table_id.

Theorem C08_reject_encrypted : forall s, len (si_pointer s) < 255 -> si_table_id s = 252 -> si_encrypted s = true ->
  si_enc_alg s < 64 -> si_pts_adj s < 8589934592 ->
  new_scte35 (ser_splice_info s) = Err E.SCTE35EncryptionUnsupported.
Proof. exact reject_encrypted. Qed.
Print Assumptions C08_reject_encrypted.

Theorem C08_reject_command : forall s ty body, wf_fixed s -> si_table_id s = 252 -> si_encrypted s = false ->
  si_cmd s = OtherCmd ty body -> ty <> 0 -> ty <> 5 -> ty <> 6 ->
  new_scte35 (ser_splice_info s) = Err E.SCTE35UnsupportedSpliceCommand.
Proof. exact reject_command. Qed.
Print Assumptions C08_reject_command.

Theorem C08_reject_identifier : forall s ds i0 i1 i2 i3 body more,
  wf_fixed s -> si_table_id s = 252 -> si_encrypted s = false ->
  wf_command (si_cmd s) -> supported_cmd (si_cmd s) ->
  si_descs s = ds ++ Foreign 2 (i0 :: i1 :: i2 :: i3 :: body) :: more ->
  Forall wf_descriptor ds -> be32 i0 i1 i2 i3 <> CUEI -> len (ser_descriptors (si_descs s)) < 65536 ->
  new_scte35 (ser_splice_info s) = Err E.SCTE35InvalidDescriptorID.
Proof. exact reject_identifier. Qed.
Print Assumptions C08_reject_identifier.

(* why `supported` demands a time: the two time-less forms are refused as unsupported commands *)
Theorem C08_reject_time_signal_without_time : forall s, wf_fixed s -> si_table_id s = 252 -> si_encrypted s = false ->
  si_cmd s = TimeSignal None -> new_scte35 (ser_splice_info s) = Err E.SCTE35UnsupportedSpliceCommand.
Proof. exact reject_time_signal_no_time. Qed.
Print Assumptions C08_reject_time_signal_without_time.

Theorem C08_reject_insert_without_time : forall s eid b, wf_fixed s -> si_table_id s = 252 -> si_encrypted s = false ->
  si_cmd s = Insert eid (Some b) -> eid < T32 -> ib_mode b = ProgTimed None ->
  new_scte35 (ser_splice_info s) = Err E.SCTE35UnsupportedSpliceCommand.
Proof. exact reject_insert_no_time. Qed.
Print Assumptions C08_reject_insert_without_time.

(* ---- non-vacuity (values ex_seg, ex_signal in Proofs/ScteWitness08.v): a component-mode splice_insert with
   break_duration, pts_adjustment, pointer_field 2, a segmentation descriptor with components (bit 32 set), 40-bit
   duration, MID list and sub-segment fields, a cancelled descriptor and a foreign descriptor ---- *)
Example C08_example_supported : supported ex_signal.
Proof. exact w08_example_supported. Qed.
Example C08_example_decodes :
  exists sc, new_scte35 (ser_splice_info ex_signal) = Ok sc /\ length (s_descs sc) = 2%nat /\
             s_other sc = [1; 5; 67; 85; 69; 73; 0] /\ s_pts sc = 8589934591.
Proof. exact w08_example_decodes. Qed.

(* why `supported` demands pointer_field < 255: psi computes PointerField(data)+1 in uint8, so a 255-byte filler
   makes the decoder read the table id from byte 0 (cannot occur inside a 188-byte packet) *)
Example C08_pointer_255_refuted : new_scte35 (ser_splice_info ptr255_section) = Err E.UnknownTableID.
Proof. exact w08_pointer_255_refuted. Qed.
