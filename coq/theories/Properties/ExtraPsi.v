(* ExtraPsi — package psi: CanBuildPMT, NewTableHeader, constants; scte35.SCTE35AccumulatorDoneFunc.
   Property-support file of the coverage round (notes/coverage.md): statements only; proofs in Proofs/ExtraLemmas.v.
   These are small facts about exported identifiers that none of the twenty properties states; the finite ones are
   decided by vm_compute over the COMPLETE table.  None is `_partial`. *)
From Gots Require Import Base.Prelude.
From Gots Require Import Model.Pts Model.Packet Model.Create Model.Psi Model.Pmt Model.PmtDesc Model.StreamType Model.Pes
  Model.Ebp Model.IO Model.PacketWriter Model.Scte Model.ScteEnc Model.SegDesc Model.Printers Model.Errors Model.Pat Proofs.ExtraLemmas.
Local Open Scope N_scope.

Theorem Extra_can_build_pmt_iff :
  forall payload sl, Printers.can_build_pmt payload sl = true <-> sl <= len payload.
Proof. exact can_build_pmt_iff. Qed.
Print Assumptions Extra_can_build_pmt_iff.

Theorem Extra_new_table_header :
  Psi.table_header_data Psi.new_table_header = [0; 48; 0] /\
  Psi.table_header_from_bytes (Psi.table_header_data Psi.new_table_header) = Ok Psi.new_table_header.
Proof. exact new_table_header_facts. Qed.
Print Assumptions Extra_new_table_header.

Theorem Extra_scte35_done_is_pmt_done : forall b, Printers.scte35_accumulator_done_func b = Pmt.done_func b.
Proof. exact scte35_done_is_pmt_done. Qed.
Print Assumptions Extra_scte35_done_is_pmt_done.

Theorem Extra_psi_constants :
  Pmt.Consts.PSIHeaderLen = 4 /\ Pmt.Consts.CrcLen = 4 /\ Pmt.Consts.PidNotFound = 65535 /\ Pmt.Consts.PatPid = Pat.PatPid /\
  NoDup (firstn 16 PmtDesc.Consts.exported_consts) /\
  (forall c, In c StreamType.Consts.exported_consts -> StreamType.stream_type (StreamType.lookup c) = c) /\
  StreamType.is_video_content (StreamType.lookup StreamType.Mpeg2VideoH262) = true /\
  StreamType.is_video_content (StreamType.lookup StreamType.Mpeg4VideoH264) = true /\
  StreamType.is_video_content (StreamType.lookup StreamType.Mpeg4VideoH265) = true /\
  StreamType.is_audio_content (StreamType.lookup StreamType.Aac) = true /\
  StreamType.is_audio_content (StreamType.lookup StreamType.Ac3) = true /\
  StreamType.is_audio_content (StreamType.lookup StreamType.Ec3) = true /\
  StreamType.is_scte35_content (StreamType.lookup StreamType.Scte35) = true /\
  StreamType.is_id3_content (StreamType.lookup StreamType.ID3) = true /\
  StreamType.is_private_content (StreamType.lookup StreamType.PrivateContent) = true.
Proof. exact psi_constants. Qed.
Print Assumptions Extra_psi_constants.
