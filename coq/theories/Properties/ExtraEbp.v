(* ExtraEbp — package ebp: constants and the two constructors.
   Property-support file of the coverage round (notes/coverage.md): statements only; proofs in Proofs/ExtraLemmas.v.
   These are small facts about exported identifiers that none of the twenty properties states; the finite ones are
   decided by vm_compute over the COMPLETE table.  None is `_partial`. *)
From Gots Require Import Base.Prelude.
From Gots Require Import Model.Pts Model.Packet Model.Create Model.Psi Model.Pmt Model.PmtDesc Model.StreamType Model.Pes
  Model.Ebp Model.IO Model.PacketWriter Model.Scte Model.ScteEnc Model.SegDesc Model.Printers Model.Errors Model.Pat Proofs.ExtraLemmas.
Local Open Scope N_scope.

Theorem Extra_ebp_constants_and_constructors :
  NoDup [Ebp.ComcastEbpTag; Ebp.CableLabsEbpTag] /\
  NoDup [Ebp.InvalidStreamSyncSignal; Ebp.StreamNotSynchronized; Ebp.StreamSynchronized] /\
  Ebp.CableLabsFormatIdentifier = be32 69 66 80 48 /\          
  Ebp.DataFieldTag Ebp.CreateComcastEBP = Ebp.ComcastEbpTag /\ Ebp.DataFieldLength Ebp.CreateComcastEBP = 1 /\
  Ebp.DataFieldTag Ebp.CreateCableLabsEbp = Ebp.CableLabsEbpTag /\ Ebp.DataFieldLength Ebp.CreateCableLabsEbp = 1 /\
  Ebp.FormatIdentifier Ebp.CreateCableLabsEbp = Ebp.CableLabsFormatIdentifier /\
  Ebp.DataFlags Ebp.CreateComcastEBP = 0 /\ Ebp.DataFlags Ebp.CreateCableLabsEbp = 0.
Proof. exact ebp_constants_and_constructors. Qed.
Print Assumptions Extra_ebp_constants_and_constructors.
