(* C09 — SCTE-35 encoding (statements added as they are proved). *)
From Gots Require Import Base.Prelude Model.Scte Spec.Scte35Spec.
