(* C09 — SCTE-35 encoding is canonical, CRC-correct and inverse to decoding; setters are reflected.
   Statements only; proofs in Proofs/ScteEncode.v, ScteRoundtrip.v, ScteSetters.v.  Vocabulary:
   - Model/ScteEnc.v: the struct with its setters as state transformers (`apply_sig_op`, `run_script` = fold_left),
     `update_data` = UpdateData (returns the bytes and the updated struct), Data() of commands and descriptors;
   - Proofs/ScteLogical.v: `logical fs st` = the SCTE 35 logical record carried by state st (fs = the foreign
     descriptors whose bytes st keeps opaque), with CRC_32 := ComputeCRC of the preceding bytes; `normal fs st` =
     every field within its wire width, section_length < 1024 (the encoder keeps 10 bits), UPID/MID exclusivity and
     MID element lengths as every setter history maintains them (C09_history_inv);
   - Proofs/ScteRoundtrip.v: `decodable` = normal + table_id 0xFC + clear + well-formed foreign descriptors + `timed_cmd`
     (a time_signal and a timed program splice_insert carry their time: the decoder refuses the other forms, C08).
   The model is of /repo HEAD, i.e. with F9 and the three later repairs ce48cf3 (0x7F), 0cd2c00 (upidLen), 0fcfd24 (splice_null
   keeps pts_adjustment); the clauses those repaired were `_refuted` theorems before and are positive ones below.
   The CRC is stated against Scte.crc_model, the transliteration of gots.ComputeCRC; Module Crc (C13) proves that
   algorithm equal to CRC-32/MPEG-2, whence "the CRC of the whole section is zero". *)
From Gots Require Import Base.Prelude Model.Pts Model.Scte Model.ScteEnc Spec.Scte35Spec
  Proofs.ScteExpected Proofs.ScteLogical Proofs.ScteDecode Proofs.ScteEncode Proofs.ScteRoundtrip Proofs.ScteSetters
  Proofs.ScteCanonical Proofs.ScteClean Proofs.ScteWitness Proofs.ScteReflected Proofs.ScteNormalB Proofs.ScteEncBytes Proofs.ScteBuild Proofs.ScteReorder Proofs.ScteClosure Proofs.ScteDecodedWid.
Import Scte ScteEnc Scte35Spec.
Local Open Scope N_scope.

(* the bytes of UpdateData are the SCTE 35 serialisation of the state's field values: table header, reserved bits 1,
   sub-structures present exactly when their flags say so, foreign descriptors first and preserved, then the
   segmentation descriptors in order, stuffing, CRC *)
Theorem C09_encode_canonical : forall fs st, normal fs st -> fst (update_data st) = ser_section (logical fs st).
Proof. exact encode_canonical. Qed.
Print Assumptions C09_encode_canonical.

(* section_length, splice_command_length, descriptor_loop_length: in ser_section they are by definition the lengths of
   what follows (Spec: section_length, cmd_len_field with si_legacy_len = false, to_be16 (len (ser_descriptors _)));
   in addition the total length and the 10-bit bound *)
Theorem C09_lengths_ok : forall fs st, normal fs st ->
  let L := logical fs st in
  si_legacy_len L = false /\ cmd_len_field L = len (ser_command (si_cmd L)) /\
  len (fst (update_data st)) = 3 + section_length L /\ section_length L < 1024.
Proof. exact lengths_ok. Qed.
Print Assumptions C09_lengths_ok.

(* CRC clause, for EVERY state: the last four bytes are ComputeCRC of the preceding section bytes *)
Theorem C09_crc_clause : forall st, exists body,
  fst (update_data st) = body ++ crc_model body /\ len (crc_model body) = 4.
Proof. exact crc_clause. Qed.
Print Assumptions C09_crc_clause.

(* composition with C13: whatever proves the CRC residue property of gots.ComputeCRC (Module Crc: it is CRC-32/MPEG-2,
   whose residue is zero) gives "the CRC of the whole encoded section is zero", for every state *)
Theorem C09_crc_zero_of_residue :
  (forall m, crc_model (m ++ crc_model m) = [0; 0; 0; 0]) ->
  forall st, crc_model (fst (update_data st)) = [0; 0; 0; 0].
Proof. exact crc_zero_of_residue. Qed.
Print Assumptions C09_crc_zero_of_residue.

(* the encoder's output is a string of bytes *)
Theorem C09_encode_is_bytes : forall fs st, decodable fs st -> s_protocol st < 256 -> s_cw st < 256 ->
  is_bytes (fst (update_data st)).
Proof. exact encode_is_bytes. Qed.
Print Assumptions C09_encode_is_bytes.

(* decoding what was encoded (pointer_field 0) reports the state's logical field values *)
Theorem C09_decode_encode : forall fs st, decodable fs st ->
  new_scte35 (0 :: fst (update_data st)) = Ok (expected (logical fs st)).
Proof. exact decode_encode. Qed.
Print Assumptions C09_decode_encode.

(* ... and the same field values: when the fields hidden by a flag hold their zero values (`clean`,
   Proofs/ScteClean.v: e.g. no duration kept beside a cleared duration flag, a cancelled command / descriptor
   otherwise empty, no stuffing), decoding returns exactly the struct after UpdateData, hence every getter
   (including Data(), the descriptor back-references, PTS()) *)
Theorem C09_decode_encode_getters : forall fs st, decodable fs st -> clean st ->
  new_scte35 (0 :: fst (update_data st)) = Ok (snd (update_data st)).
Proof. exact decode_encode_clean. Qed.
Print Assumptions C09_decode_encode_getters.

(* re-encoding a decoded canonical section reproduces it byte for byte.  `canonical` (Proofs/ScteCanonical.v): supported,
   sap_type 3, exact splice_command_length, no stuffing, foreign descriptors before segmentation descriptors,
   section_length < 1024, CRC_32 = ComputeCRC of the preceding bytes.  Untimed components and a splice_null with any
   pts_adjustment are included (C09_untimed_reproduced, C09_null_adjustment_kept are instances) *)
Theorem C09_encode_decode_canonical : forall s, canonical s ->
  new_scte35 (ser_splice_info s) = Ok (expected s) /\ fst (update_data (expected s)) = ser_section s.
Proof. exact encode_decode_canonical. Qed.
Print Assumptions C09_encode_decode_canonical.

(* in general: re-encoding ANY decoded supported section yields its canonical form `normalize s` (Proofs/ScteReorder.v):
   foreign descriptors first (relative orders kept), then the segmentation descriptors, no stuffing, sap_type 3, exact
   splice_command_length, fresh CRC: "the canonical SCTE 35 section for its field values" *)
Theorem C09_reencode_normalizes : forall s, reencodable s ->
  new_scte35 (ser_splice_info s) = Ok (expected s) /\ fst (update_data (expected s)) = ser_section (normalize s).
Proof. exact reencode_normalizes. Qed.
Print Assumptions C09_reencode_normalizes.

(* built purely through the creation and setter API: for EVERY canonical section the API can express (no foreign
   descriptors, no splice_insert components: there is no setter for them; protocol_version, encryption_algorithm, cw_index
   0) the explicit setter history `script_of s` from CreateSCTE35 (Proofs/ScteBuild.v: SetCommandInfo with the command's
   setters, SetAdjustPTS, SetTier, SetDescriptors with every descriptor's setters) reaches the decoder's struct for s,
   and UpdateData then yields exactly the canonical bytes of s *)
Theorem C09_build_canonical : forall s, api_buildable s ->
  fst (update_data (run_script create_scte35 (script_of s))) = ser_section s.
Proof. exact build_canonical. Qed.
Print Assumptions C09_build_canonical.
Theorem C09_script_reaches : forall s, api_buildable s -> run_script create_scte35 (script_of s) = pre_state s.
Proof. exact script_reaches. Qed.
Print Assumptions C09_script_reaches.

(* encoding is idempotent (for every state), and Data() afterwards is what UpdateData returned *)
Theorem C09_encode_idempotent : forall st, fst (update_data (snd (update_data st))) = fst (update_data st).
Proof. exact encode_idempotent. Qed.
Print Assumptions C09_encode_idempotent.
Theorem C09_update_data_stores : forall st, s_data (snd (update_data st)) = fst (update_data st).
Proof. exact update_data_stores. Qed.
Print Assumptions C09_update_data_stores.

(* the raw-data accessor changes only when the signal is re-encoded: over every history without UpdateData *)
Theorem C09_data_stable : forall s ops, ~ In SUpdateData ops -> s_data (run_script s ops) = s_data s.
Proof. exact data_stable. Qed.
Print Assumptions C09_data_stable.

(* setters are reflected by the matching getter, after ANY history `ops` from ANY start s0 (fold_left);
   values are truncated to the field width *)
Theorem C09_set_tier : forall s0 ops v, s_tier (run_script s0 (ops ++ [SSetTier v])) = v mod 4096.
Proof. exact set_tier. Qed.
Print Assumptions C09_set_tier.
Theorem C09_set_adjust_pts : forall s0 ops v, s_pts (run_script s0 (ops ++ [SSetAdjustPTS v])) = v mod 8589934592.
Proof. exact set_adjust_pts. Qed.
Print Assumptions C09_set_adjust_pts.
Theorem C09_set_pts : forall s0 ops v,
  let s := run_script s0 ops in
  let s' := run_script s0 (ops ++ [SSetPTS v]) in
  s_pts s' = v mod 8589934592 /\ (s_cmd s = CNull \/ cmd_pts (s_cmd s') = v mod 8589934592) /\
  cmd_has_pts (s_cmd s') = cmd_has_pts (s_cmd s).
Proof. exact set_pts. Qed.
Print Assumptions C09_set_pts.
(* flags can be cleared as well as set (F9: SetHasPTS(false) used to set true) *)
Theorem C09_set_has_pts : forall s0 ops b,
  let s := run_script s0 ops in
  let s' := run_script s0 (ops ++ [SSetHasPTS b]) in
  (s_cmd s = CNull \/ cmd_has_pts (s_cmd s') = b) /\ cmd_pts (s_cmd s') = cmd_pts (s_cmd s) /\ s_pts s' = s_pts s.
Proof. exact set_has_pts. Qed.
Print Assumptions C09_set_has_pts.
Theorem C09_set_stuffing : forall s0 ops v, s_stuffing (run_script s0 (ops ++ [SSetAlignmentStuffing v])) = v.
Proof. exact set_stuffing. Qed.
Print Assumptions C09_set_stuffing.
Theorem C09_set_command_info : forall s0 ops k cops,
  let s' := run_script s0 (ops ++ [SSetCommandInfo k cops]) in
  s_cmd s' = fold_left (fun c o => apply_cmd_op o c) cops (create_cmd k) /\ s_cmd_type s' = cmd_type (s_cmd s').
Proof. exact set_command_info. Qed.
Print Assumptions C09_set_command_info.
Theorem C09_set_descriptors : forall s0 ops ds,
  let s := run_script s0 ops in
  let s' := run_script s0 (ops ++ [SSetDescriptors ds]) in
  s_descs s' = map (build_desc (s_id s)) ds /\ Forall (fun d => d_owner d = Some (s_id s')) (s_descs s').
Proof. exact set_descriptors. Qed.
Print Assumptions C09_set_descriptors.
Theorem C09_set_tier_frame : forall s0 ops v,
  let s := run_script s0 ops in
  let s' := run_script s0 (ops ++ [SSetTier v]) in
  s_pts s' = s_pts s /\ s_cmd s' = s_cmd s /\ s_descs s' = s_descs s /\ s_stuffing s' = s_stuffing s /\ s_cmd_type s' = s_cmd_type s.
Proof. exact set_tier_frame. Qed.
Print Assumptions C09_set_tier_frame.

(* every setter of SpliceInsertCommand / SegmentationDescriptor, on every object state *)
Theorem C09_insert_setters : forall i,
  (forall v, i_event_id (apply_ins_op (ISetEventID v) i) = v) /\
  (forall b, i_out (apply_ins_op (ISetIsOut b) i) = b) /\
  (forall b, i_cancel (apply_ins_op (ISetIsEventCanceled b) i) = b) /\
  (forall b, i_has_pts (apply_ins_op (KSetHasPTS b) i) = b) /\
  (forall v, i_pts (apply_ins_op (KSetPTS v) i) = v mod 8589934592) /\
  (forall b, i_has_duration (apply_ins_op (ISetHasDuration b) i) = b) /\
  (forall v, i_duration (apply_ins_op (ISetDuration v) i) = v mod 8589934592) /\
  (forall b, i_auto_return (apply_ins_op (ISetIsAutoReturn b) i) = b) /\
  (forall v, i_unique_program_id (apply_ins_op (ISetUniqueProgramId v) i) = v) /\
  (forall v, i_avail_num (apply_ins_op (ISetAvailNum v) i) = v) /\
  (forall v, i_avails_expected (apply_ins_op (ISetAvailsExpected v) i) = v) /\
  (forall b, i_program (apply_ins_op (ISetIsProgramSplice b) i) = b) /\
  (forall b, i_immediate (apply_ins_op (ISetSpliceImmediate b) i) = b).
Proof. exact ins_setters. Qed.
Print Assumptions C09_insert_setters.
Theorem C09_desc_setters : forall d,
  (forall v, d_event_id (apply_desc_op (DSetEventID v) d) = v) /\
  (forall v, d_type (apply_desc_op (DSetTypeID v) d) = v) /\
  (forall b, d_cancel (apply_desc_op (DSetIsEventCanceled b) d) = b) /\
  (forall b, d_has_duration (apply_desc_op (DSetHasDuration b) d) = b) /\
  (forall v, d_duration (apply_desc_op (DSetDuration v) d) = v mod 1099511627776) /\
  (forall v, d_upid_type (apply_desc_op (DSetUPIDType v) d) = v) /\
  (forall v, d_seg_num (apply_desc_op (DSetSegmentNumber v) d) = v) /\
  (forall v, d_segs_expected (apply_desc_op (DSetSegmentsExpected v) d) = v) /\
  (forall v, d_sub_seg_num (apply_desc_op (DSetSubSegmentNumber v) d) = v) /\
  (forall v, d_sub_segs_expected (apply_desc_op (DSetSubSegmentsExpected v) d) = v) /\
  (forall b, d_program_seg (apply_desc_op (DSetHasProgramSegmentation b) d) = b) /\
  (forall b, d_dnr (apply_desc_op (DSetIsDeliveryNotRestricted b) d) = b) /\
  (forall b, d_web (apply_desc_op (DSetIsWebDeliveryAllowed b) d) = b) /\
  (forall b, d_archive (apply_desc_op (DSetIsArchiveAllowed b) d) = b) /\
  (forall b, d_noblackout (apply_desc_op (DSetHasNoRegionalBlackout b) d) = b) /\
  (forall v, d_device (apply_desc_op (DSetDeviceRestrictions v) d) = v mod 4) /\
  (forall b, d_has_sub (apply_desc_op (DSetHasSubSegments b) d) = b) /\
  (forall l, d_components (apply_desc_op (DSetComponents l) d) = map (fun e => mkco (fst e) (snd e mod 8589934592)) l).
Proof. exact desc_setters. Qed.
Print Assumptions C09_desc_setters.
Theorem C09_desc_upid_laws : forall d,
  (forall b, d_upid_type d <> SegUPIDMID -> get_upid (apply_desc_op (DSetUPID b) d) = b) /\
  (forall b, d_upid_type d = SegUPIDMID -> apply_desc_op (DSetUPID b) d = d) /\
  (forall l, d_upid_type d = SegUPIDMID ->
     get_mid (apply_desc_op (DSetMID l) d) = map (fun e => mkupid (fst e) (len (snd e)) (snd e)) l) /\
  (forall l, d_upid_type d <> SegUPIDMID -> apply_desc_op (DSetMID l) d = d).
Proof. exact desc_upid_laws. Qed.
Print Assumptions C09_desc_upid_laws.

(* the object-level setters act on the signal through CommandInfo() / Descriptors()[i], after any history: together with
   C09_insert_setters / C09_desc_setters this is the getter law for every setter of the sub-objects *)
Theorem C09_set_through_command : forall s0 ops o,
  let s := run_script s0 ops in
  let s' := run_script s0 (ops ++ [SCmd o]) in
  s_cmd s' = apply_cmd_op o (s_cmd s) /\ s_cmd_type s' = s_cmd_type s /\ s_descs s' = s_descs s /\ s_pts s' = s_pts s.
Proof. exact set_through_command. Qed.
Print Assumptions C09_set_through_command.
Theorem C09_set_through_descriptor : forall s0 ops i o d0,
  let s := run_script s0 ops in
  let s' := run_script s0 (ops ++ [SDesc i o]) in
  (i < length (s_descs s))%nat ->
  nth i (s_descs s') d0 = apply_desc_op o (nth i (s_descs s) d0) /\
  (forall j, j <> i -> nth j (s_descs s') d0 = nth j (s_descs s) d0) /\
  length (s_descs s') = length (s_descs s) /\ s_cmd s' = s_cmd s.
Proof. exact set_through_descriptor. Qed.
Print Assumptions C09_set_through_descriptor.
(* a flag can be cleared after it was set (and the other way round) without disturbing the value kept beside it *)
Theorem C09_insert_flag_clear : forall i b v,
  i_has_duration (apply_ins_op (ISetHasDuration b) (apply_ins_op (ISetDuration v) (apply_ins_op (ISetHasDuration (negb b)) i))) = b /\
  i_duration (apply_ins_op (ISetHasDuration b) (apply_ins_op (ISetDuration v) i)) = v mod 8589934592.
Proof. exact ins_flag_clear. Qed.
Print Assumptions C09_insert_flag_clear.

(* the value setters repaired in 0b05886 (they used to store the raw argument): getter = truncated value = what the next
   encoding carries, for ANY argument value *)
Theorem C09_set_duration_encoded : forall i v,
  let i' := apply_ins_op (ISetDuration v) i in
  i_duration i' = v mod 8589934592 /\
  (i_cancel i = false -> i_has_duration i = true ->
   exists b, logical_cmd (CInsert i') = Insert (i_event_id i) (Some b) /\ ib_break b = Some (i_auto_return i, v mod 8589934592)).
Proof. exact set_duration_encoded. Qed.
Print Assumptions C09_set_duration_encoded.
Theorem C09_set_device_encoded : forall d v,
  let d' := apply_desc_op (DSetDeviceRestrictions v) d in
  d_device d' = v mod 4 /\
  (d_cancel d = false -> d_dnr d = false ->
   exists b, logical_seg d' = Seg (d_event_id d) (Some b) /\ sb_restr b = Some (d_web d, d_noblackout d, d_archive d, v mod 4)).
Proof. exact set_device_encoded. Qed.
Print Assumptions C09_set_device_encoded.
Theorem C09_set_offset_encoded : forall d j v c0, (j < length (d_components d))%nat ->
  let d' := apply_desc_op (DComp j (CoSetOffset v)) d in
  co_off (nth j (d_components d') c0) = v mod 8589934592 /\
  (d_cancel d = false -> d_program_seg d = false ->
   exists b cs, logical_seg d' = Seg (d_event_id d) (Some b) /\ sb_comps b = Some cs /\
                nth j cs (0, 0) = (co_tag (nth j (d_components d) c0), v mod 8589934592)).
Proof. exact set_offset_encoded. Qed.
Print Assumptions C09_set_offset_encoded.

(* setters reached through Components()[j] of a splice_insert (decoded objects only: the API has no SetComponents for it),
   Components()[j] of a segmentation descriptor and MID()[j] (the Go getters return pointers into the object) *)
Theorem C09_component_setters : forall c,
  (forall v, c_tag (apply_comp_op (CSetTag v) c) = v) /\
  (forall b, c_has_pts (apply_comp_op (CSetHasPTS b) c) = b) /\
  (forall v, c_pts (apply_comp_op (CSetPTS v) c) = v mod 8589934592).
Proof. exact comp_setters. Qed.
Print Assumptions C09_component_setters.
Theorem C09_insert_component_law : forall i j o c0, (j < length (i_components i))%nat ->
  let i' := apply_ins_op (IComp j o) i in
  nth j (i_components i') c0 = apply_comp_op o (nth j (i_components i) c0) /\
  (forall k, k <> j -> nth k (i_components i') c0 = nth k (i_components i) c0) /\
  length (i_components i') = length (i_components i) /\
  i_event_id i' = i_event_id i /\ i_pts i' = i_pts i /\ i_duration i' = i_duration i.
Proof. exact insert_component_law. Qed.
Print Assumptions C09_insert_component_law.
Theorem C09_offset_setters : forall c,
  (forall v, co_tag (apply_co_op (CoSetTag v) c) = v /\ co_off (apply_co_op (CoSetTag v) c) = co_off c) /\
  (forall v, co_off (apply_co_op (CoSetOffset v) c) = v mod 8589934592 /\ co_tag (apply_co_op (CoSetOffset v) c) = co_tag c).
Proof. exact co_setters. Qed.
Print Assumptions C09_offset_setters.
Theorem C09_desc_component_law : forall d j o c0, (j < length (d_components d))%nat ->
  let d' := apply_desc_op (DComp j o) d in
  nth j (d_components d') c0 = apply_co_op o (nth j (d_components d) c0) /\
  (forall k, k <> j -> nth k (d_components d') c0 = nth k (d_components d) c0) /\
  length (d_components d') = length (d_components d) /\ d_event_id d' = d_event_id d /\ d_mid d' = d_mid d.
Proof. exact desc_component_law. Qed.
Print Assumptions C09_desc_component_law.
Theorem C09_mid_settype : forall d j v, d_upid_type d = SegUPIDMID -> (j < length (d_mid d))%nat ->
  let d' := apply_desc_op (DMidSetUPIDType j v) d in
  let u0 := mkupid 0 0 [] in
  u_type (nth j (get_mid d') u0) = v /\ u_upid (nth j (get_mid d') u0) = u_upid (nth j (d_mid d) u0) /\
  u_len (nth j (d_mid d') u0) = u_len (nth j (d_mid d) u0) /\ length (d_mid d') = length (d_mid d).
Proof. exact mid_settype_law. Qed.
Print Assumptions C09_mid_settype.

(* ALL SEQUENCES OF SETTER CALLS.  `typed_sig_op` (Proofs/ScteClosure.v): every argument within its Go type (uint8/16/32,
   byte strings; PTS, duration, offset, tier, device-restriction arguments of ANY size, the setters truncate them).  `wid_sig` = the
   value-width part of `normal`; `fits` = the rest of it: counts and lengths representable (8-bit component count, UPID and
   descriptor lengths, 10-bit section_length).  The width part is an invariant of every typed history, from CreateSCTE35 or from
   any state that has it; hence every typed history whose result fits is normal and its next encoding is canonical. *)
Theorem C09_wid_closure : forall fs s0 ops, wid_sig fs s0 -> Forall typed_sig_op ops -> wid_sig fs (run_script s0 ops).
Proof. exact wid_closure. Qed.
Print Assumptions C09_wid_closure.
Theorem C09_normal_of_wid : forall fs s, wid_sig fs s -> fits s -> normal fs s.
Proof. exact normal_of_wid. Qed.
Print Assumptions C09_normal_of_wid.
Theorem C09_history_normal : forall ops, Forall typed_sig_op ops -> fits (run_script create_scte35 ops) ->
  normal [] (run_script create_scte35 ops).
Proof. exact history_normal. Qed.
Print Assumptions C09_history_normal.
Theorem C09_history_canonical : forall ops, Forall typed_sig_op ops -> fits (run_script create_scte35 ops) ->
  fst (update_data (run_script create_scte35 ops)) = ser_section (logical [] (run_script create_scte35 ops)).
Proof. exact history_canonical. Qed.
Print Assumptions C09_history_canonical.

(* ... and "obtained by decoding, then setters": every signal the decoder returns on a byte string has the width invariant
   (each field is read from that many bits; foreign_of s = its otherDescriptorBytes read back as foreign descriptors), so
   the same two statements hold for histories that start from ANY decoded signal *)
Theorem C09_decoded_wid : forall data s, is_bytes data -> new_scte35 data = Ok s -> wid_sig (foreign_of s) s.
Proof. exact decoded_wid. Qed.
Print Assumptions C09_decoded_wid.
Theorem C09_history_normal_decoded : forall data s0 ops, is_bytes data -> new_scte35 data = Ok s0 ->
  Forall typed_sig_op ops -> fits (run_script s0 ops) -> normal (foreign_of s0) (run_script s0 ops).
Proof. exact history_normal_decoded. Qed.
Print Assumptions C09_history_normal_decoded.
Theorem C09_history_canonical_decoded : forall data s0 ops, is_bytes data -> new_scte35 data = Ok s0 ->
  Forall typed_sig_op ops -> fits (run_script s0 ops) ->
  fst (update_data (run_script s0 ops)) = ser_section (logical (foreign_of s0) (run_script s0 ops)).
Proof. exact history_canonical_decoded. Qed.
Print Assumptions C09_history_canonical_decoded.

(* every history from CreateSCTE35 keeps: command type consistent, tier 12 bits, command / component pts 33 bits,
   UPID / MID exclusivity, MID element length = length of its bytes (also after MID()[j].SetUPID), 40-bit durations,
   descriptors owned by the signal, table header of a splice_info_section *)
Theorem C09_history_inv : forall ops, sig_inv (run_script create_scte35 ops).
Proof. exact history_inv. Qed.
Print Assumptions C09_history_inv.
(* ... and by the next encoding: the setter keeps a normal state normal (the value is truncated first), so the next
   UpdateData is the serialisation of the updated field values; shown for the SCTE35-level value setters, the
   object-level setters (SetCommandInfo / SetDescriptors) need the new object to be normal and to fit *)
Theorem C09_set_tier_encoded : forall fs st v, normal fs st ->
  let st' := apply_sig_op st (SSetTier v) in
  fst (update_data st') = ser_section (logical fs st') /\ si_tier (logical fs st') = v mod 4096.
Proof. exact set_tier_encoded. Qed.
Print Assumptions C09_set_tier_encoded.
Theorem C09_set_adjust_pts_encoded : forall fs st v, normal fs st ->
  let st' := apply_sig_op st (SSetAdjustPTS v) in
  s_pts st' = v mod 8589934592 /\
  fst (update_data st') = ser_section (logical fs st') /\
  (cmd_pts (s_cmd st) + si_pts_adj (logical fs st')) mod 8589934592 = v mod 8589934592.
Proof. exact set_adjust_pts_encoded. Qed.
Print Assumptions C09_set_adjust_pts_encoded.
Theorem C09_normal_create : normal [] create_scte35.
Proof. exact normal_create. Qed.
Print Assumptions C09_normal_create.
Theorem C09_normal_set_command_info : forall fs st k cops,
  let c := fold_left (fun c o => apply_cmd_op o c) cops (create_cmd k) in
  normal fs st -> normal_cmd c -> cmd_pts c < 8589934592 ->
  13 + len (cmd_data c) + len (s_other st ++ flat_map seg_data (s_descs st)) + 4 + s_stuffing st < 1024 ->
  normal fs (apply_sig_op st (SSetCommandInfo k cops)).
Proof. exact normal_set_command_info. Qed.
Print Assumptions C09_normal_set_command_info.
Theorem C09_normal_set_descriptors : forall fs st ds, normal fs st ->
  Forall normal_desc (map (build_desc (s_id st)) ds) ->
  13 + len (cmd_data (s_cmd st)) + len (s_other st ++ flat_map seg_data (map (build_desc (s_id st)) ds)) + 4 + s_stuffing st < 1024 ->
  normal fs (apply_sig_op st (SSetDescriptors ds)).
Proof. exact normal_set_descriptors. Qed.
Print Assumptions C09_normal_set_descriptors.
(* `normal` is decidable: the boolean ScteNormalB.normalb is sound; the generator asks it (op scte.isnormal of modelexec)
   which histories are inside the hypotheses of C09_encode_canonical *)
Theorem C09_normalb_sound : forall fs st, normalb fs st = true -> normal fs st.
Proof. exact normalb_ok. Qed.
Print Assumptions C09_normalb_sound.
(* in general: C09_encode_canonical says the next encoding is ser_section (logical fs st), and
   logical reads exactly the fields the getters return; so the setter laws above carry over to the bytes whenever
   the resulting state is normal. *)

(* ---- the three clauses that were refuted before ce48cf3 / 0cd2c00 / 0fcfd24, now proved (general theorems above; the
   concrete values untimed_section, setupid_script, null_adj_section of Proofs/ScteWitness.v are the replay lines of the
   `fixed` entries of known_findings.json, re-run against the real code by every bin/check C09) ---- *)
(* (a) a canonical component-mode section with an UNTIMED component is reproduced byte for byte (0x7F at offset 22) *)
Theorem C09_untimed_reproduced : canonical untimed_section /\
  fst (update_data (expected untimed_section)) = ser_section untimed_section /\
  nth 22 (ser_section untimed_section) 0 = 127.
Proof. exact w_untimed_canonical. Qed.
Print Assumptions C09_untimed_reproduced.

(* (b) UPID.SetUPID through MID()[j]: getter and length follow, on every descriptor state; and on the former witness
   the next encoding decodes to the struct itself *)
Theorem C09_mid_setupid : forall d j b, d_upid_type d = SegUPIDMID -> (j < length (d_mid d))%nat ->
  let d' := apply_desc_op (DMidSetUPID j b) d in
  u_upid (nth j (get_mid d') (mkupid 0 0 [])) = b /\ u_len (nth j (d_mid d') (mkupid 0 0 [])) = len b /\
  u_type (nth j (get_mid d') (mkupid 0 0 [])) = u_type (nth j (d_mid d) (mkupid 0 0 [])) /\
  length (d_mid d') = length (d_mid d).
Proof. exact mid_setupid_law. Qed.
Print Assumptions C09_mid_setupid.
Theorem C09_mid_setupid_roundtrip :
  let st := run_script create_scte35 setupid_script in
  map (fun u => u_upid u) (get_mid (nth 0 (s_descs st) (seg0 None))) = [[1; 2; 3; 4]] /\
  new_scte35 (0 :: fst (update_data st)) = Ok (snd (update_data st)).
Proof. exact w_mid_setupid_roundtrip. Qed.
Print Assumptions C09_mid_setupid_roundtrip.

(* (c) a splice_null keeps its pts_adjustment: PTS() reports it and re-encoding reproduces the section *)
Theorem C09_null_adjustment_kept : canonical null_adj_section /\
  fst (update_data (expected null_adj_section)) = ser_section null_adj_section /\ s_pts (expected null_adj_section) = 5.
Proof. exact w_null_adjustment_kept. Qed.
Print Assumptions C09_null_adjustment_kept.

(* ---- non-vacuity (concrete values in Proofs/ScteWitness.v) ---- *)
Example C09_example_canonical :
  canonical ex_canon.
Proof. exact w_example_canonical. Qed.

Example C09_example_is_history :
  run_script create_scte35 ex_script = ex_state.
Proof. exact w_example_is_history. Qed.

Example C09_example_decodable :
  decodable [] ex_state.
Proof. exact w_example_decodable. Qed.

Example C09_example_clean :
  clean ex_state.
Proof. exact w_example_clean. Qed.

Example C09_example_api_buildable : api_buildable ex_api.
Proof. exact w_example_api_buildable. Qed.

(* canonical order of descriptors (foreign first): the interleaved section decodes to the same getters as the reordered
   one and re-encodes into the reordered one *)
Example C09_order_example :
  supported interleaved /\
  s_descs (expected interleaved) = s_descs (expected reordered) /\ s_other (expected interleaved) = s_other (expected reordered) /\
  ser_section_nocrc interleaved <> ser_section_nocrc reordered /\
  firstn 30 (fst (update_data (expected interleaved))) = ser_section_nocrc reordered.
Proof. exact w_order_example. Qed.

(* SCTE35.SetPTS (a397833; it used to keep an over-wide argument in PTS()): for ANY argument the getter, the command's
   pts_time and the next encoding all carry v mod 2^33, with pts_adjustment 0; instance: the former witness *)
Theorem C09_set_pts_encoded : forall fs st v, normal fs st ->
  let st' := apply_sig_op st (SSetPTS v) in
  s_pts st' = v mod 8589934592 /\
  fst (update_data st') = ser_section (logical fs st') /\
  (s_cmd st <> CNull -> cmd_pts (s_cmd st') = v mod 8589934592 /\ si_pts_adj (logical fs st') = 0).
Proof. exact set_pts_encoded. Qed.
Print Assumptions C09_set_pts_encoded.
Theorem C09_set_pts_overwide :
  let st := run_script create_scte35 setpts_script in
  s_pts st = 5 /\ cmd_pts (s_cmd st) = 5 /\ new_scte35 (0 :: fst (update_data st)) = Ok (snd (update_data st)).
Proof. exact w_set_pts_overwide. Qed.
Print Assumptions C09_set_pts_overwide.
