(* ExtraRoot — gots root package: errors.go (what distinguishes the 40 error values) and the constants of pts.go.
   Property-support file of the coverage round (notes/coverage.md): statements only; proofs in Proofs/ExtraLemmas.v.
   These are small facts about exported identifiers that none of the twenty properties states; the finite ones are
   decided by vm_compute over the COMPLETE table.  None is `_partial`. *)
From Gots Require Import Base.Prelude.
From Gots Require Import Model.Pts Model.Packet Model.Create Model.Psi Model.Pmt Model.PmtDesc Model.StreamType Model.Pes
  Model.Ebp Model.IO Model.PacketWriter Model.Scte Model.ScteEnc Model.SegDesc Model.Printers Model.Errors Model.Pat Proofs.ExtraLemmas.
Local Open Scope N_scope.

Theorem Extra_errors_count : length Errors.codes = 40%nat.
Proof. exact errors_count. Qed.
Print Assumptions Extra_errors_count.

Theorem Extra_errors_distinct_by_identity : NoDup Errors.codes.
Proof. exact errors_distinct_by_identity. Qed.
Print Assumptions Extra_errors_distinct_by_identity.

Theorem Extra_errors_shared_text :
  Errors.text_class E.InvalidAFCFlag = Errors.text_class E.InvalidPacketLength /\ E.InvalidAFCFlag <> E.InvalidPacketLength.
Proof. exact errors_shared_text. Qed.
Print Assumptions Extra_errors_shared_text.

Theorem Extra_errors_text_separates_all_other_pairs :
  forall a b, In a Errors.codes -> In b Errors.codes ->
  Errors.text_class a = Errors.text_class b ->
  a = b \/ (a = E.InvalidPacketLength /\ b = E.InvalidAFCFlag) \/ (a = E.InvalidAFCFlag /\ b = E.InvalidPacketLength).
Proof. exact errors_text_separates_all_other_pairs. Qed.
Print Assumptions Extra_errors_text_separates_all_other_pairs.

Theorem Extra_pts_constants :
  Pts.MaxPtsTicks = 2 ^ 33 /\ Pts.MaxPtsValue = Pts.MaxPtsTicks - 1 /\
  Pts.Lower = 1800 * Pts.Consts.PtsClockRate /\ Pts.Upper = Pts.MaxPtsValue - Pts.Lower /\
  Pts.PosInf = 2 ^ 64 - 1 /\ Pts.NegInf = 2 ^ 64 - 2 /\
  Pts.Consts.PTS_DTS_INDICATOR_BOTH = 3 /\ Pts.Consts.PTS_DTS_INDICATOR_ONLY_PTS = 2 /\ Pts.Consts.PTS_DTS_INDICATOR_NONE = 0.
Proof. exact pts_constants. Qed.
Print Assumptions Extra_pts_constants.

Theorem Extra_pts_dts_indicator_meaning :
  forall h,
  (Pes.ptsDtsIndicator h = Pts.Consts.PTS_DTS_INDICATOR_BOTH -> Pes.has_pts h = true /\ Pes.has_dts h = true) /\
  (Pes.ptsDtsIndicator h = Pts.Consts.PTS_DTS_INDICATOR_ONLY_PTS -> Pes.has_pts h = true /\ Pes.has_dts h = false) /\
  (Pes.ptsDtsIndicator h = Pts.Consts.PTS_DTS_INDICATOR_NONE -> Pes.has_pts h = false /\ Pes.has_dts h = false).
Proof. exact pts_dts_indicator_meaning. Qed.
Print Assumptions Extra_pts_dts_indicator_meaning.
