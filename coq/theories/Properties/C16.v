(* C16 — Sync search finds the first plausible packet header and stops the reader on it.
   Statements only; proofs in Proofs/SyncProofs.v.  Model: Model/IO.v (the REPAIRED Sync, F1).

   ORACLE (assumed contract of the reader, Model/IO.v `reader`): the reader is a bufio.Reader
   over a stream that delivers a finite byte list l and then a sticky terminal error te
   (`start l te`); ReadByte / UnreadByte / Peek 4 behave as documented for bufio.Reader:
   ReadByte returns the next byte or te; UnreadByte after a successful ReadByte puts the byte
   back; Peek 4 returns the next four bytes without consuming them and fails with te when
   fewer than four remain.  Buffer size and fragmentation of the underlying reader are not
   visible through this interface (goexec varies them: sizes 16..4096, one-byte/half/full readers).

   `first_plausible l i` (Spec/IOSpec.v): position i holds 0x47 followed by a header with
   adaptation_field_control <> 00 and PID outside 0x0004..0x000F, and no smaller position does. *)
From Gots Require Import Base.Prelude Model.IO Model.PacketWriter Model.Bufio Spec.IOSpec Proofs.SyncProofs
  Proofs.WriterReadFrom Proofs.BufioRefines.
Import SyncIO IOSpec.
Local Open Scope N_scope.

(* the offset is the least plausible position, counted from the reader's starting position,
   whatever precedes it (including other 0x47 bytes); the reader is left exactly there: what
   remains is l[i..], so the next 188 bytes read are the packet *)
Theorem C16_sync_first_plausible : forall l te i, is_bytes l -> first_plausible l i ->
  sync (start l te) = Ok (N.of_nat i, mkR (skipn i l) None te)
  /\ fst (read_n 188 (mkR (skipn i l) None te)) = firstn 188 (skipn i l).
Proof. exact sync_first_plausible. Qed.
Print Assumptions C16_sync_first_plausible.

(* no plausible position before the end of the stream: sync-not-found *)
Theorem C16_sync_not_found : forall l, is_bytes l -> none_plausible l ->
  sync (start l E.EOF) = Err E.SyncByteNotFound.
Proof. exact sync_not_found. Qed.
Print Assumptions C16_sync_not_found.

(* the stream fails with an error of its own before a plausible position: that error, as is *)
Theorem C16_sync_reader_error : forall l te, is_bytes l -> none_plausible l -> te <> E.EOF ->
  sync (start l te) = Err te.
Proof. exact sync_reader_error. Qed.
Print Assumptions C16_sync_reader_error.

(* the two cases are exhaustive: every stream has a least plausible position or none *)
Theorem C16_first_or_none : forall l, (exists i, first_plausible l i) \/ none_plausible l.
Proof. exact first_or_none. Qed.
Print Assumptions C16_first_or_none.

(* a reported offset leaves at least the four header bytes in the stream *)
Theorem C16_offset_in_stream : forall l i, first_plausible l i -> (i + 4 <= length l)%nat.
Proof. exact first_plausible_bound. Qed.
Print Assumptions C16_offset_in_stream.

(* C05 for this entry point: never panics (the indexing of the peeked bytes is in range),
   never loops forever, on every byte stream and terminal error *)
Theorem C16_sync_total : forall l te, is_bytes l ->
  sync (start l te) <> Panic /\ sync (start l te) <> Diverge.
Proof. exact sync_total. Qed.
Print Assumptions C16_sync_total.

(* ---- the reader oracle discharged for a model of bufio.Reader ------------------------------------
   Model/Bufio.v transcribes bufio.Reader's fill / ReadByte / UnreadByte / Peek (buffer indices r, w,
   pending error, lastByte, at most 100 empty reads) over a scripted underlying io.Reader (the script
   semantics of C18: `script_data s`, `script_err s`).  For EVERY buffer size and EVERY script with
   fewer than 100 zero-length reads in a row (`few_empty_reads`; at 100 bufio itself gives up with
   io.ErrNoProgress), Sync over that bufio.Reader behaves exactly like Sync over the
   oracle `start (script_data s) (script_err s)`: same offset, same error, and the states stay related
   (`Rel`: what the reader will still deliver is the same).  So the three theorems above hold for
   bufio.Reader of any size over any fragmentation; the bufio model itself is tied to the real
   bufio.Reader by op io.syncb on every run (also on scripts with empty reads, incl. io.ErrNoProgress). *)
Theorem C16_sync_over_bufio : forall size s, few_empty_reads (PacketWriter.Script s) ->
  bsim (N * option N) (Bufio.sync_raw size s) (sync_raw (start (script_data s) (script_err s))).
Proof. exact sync_over_bufio. Qed.
Print Assumptions C16_sync_over_bufio.

(* found: the offset is the least plausible position of the delivered data, and what the bufio
   reader still holds (window ++ undelivered script data) is exactly the stream from there on *)
Theorem C16_bufio_first_plausible : forall size s i,
  few_empty_reads (PacketWriter.Script s) -> is_bytes (script_data s) -> first_plausible (script_data s) i ->
  exists b', Bufio.sync_raw size s = Ok (N.of_nat i, None, b') /\
             bdata b' = skipn i (script_data s) /\ st_err (Bufio.brd b') = script_err s.
Proof. exact sync_bufio_found. Qed.
Print Assumptions C16_bufio_first_plausible.

(* ... so that the next read returns the packet: io.ReadFull of 188 bytes through bufio.Reader.Read
   (Model/Bufio.v `read`, incl. its large-read bypass and single-read refill) delivers exactly the
   188 bytes starting at the reported offset *)
Theorem C16_bufio_next_read : forall size s i,
  few_empty_reads (PacketWriter.Script s) -> is_bytes (script_data s) -> first_plausible (script_data s) i ->
  exists b' e b'', Bufio.sync_raw size s = Ok (N.of_nat i, None, b') /\
                   Bufio.read_full 188 b' = Ok (firstn 188 (skipn i (script_data s)), e, b'').
Proof. exact sync_bufio_next_read. Qed.
Print Assumptions C16_bufio_next_read.

(* not found: sync-not-found when the script ends with io.EOF, the script's own error otherwise *)
Theorem C16_bufio_not_found : forall size s,
  few_empty_reads (PacketWriter.Script s) -> is_bytes (script_data s) -> none_plausible (script_data s) ->
  exists off b', Bufio.sync_raw size s = Ok (off, Some (map_err (script_err s)), b').
Proof. exact sync_bufio_none. Qed.
Print Assumptions C16_bufio_not_found.

(* C05: no "tried to fill full buffer" panic, no out-of-window index, no endless fill loop *)
Theorem C16_bufio_total : forall size s,
  few_empty_reads (PacketWriter.Script s) -> is_bytes (script_data s) ->
  Bufio.sync_raw size s <> Panic /\ Bufio.sync_raw size s <> Diverge.
Proof. exact sync_bufio_total. Qed.
Print Assumptions C16_bufio_total.

(* F1 (DESIGN section 7), re-established in Coq: the loop as pinned in /repo before the repair
   (Model/IO.v sync_loop_pinned) falsifies the first clause: on 47 00 00 00 | 47 00 00 10 .. it reports
   offset 3 although the least plausible position is 4 (the reader itself is left at 4).  The
   same stream replays on the real code: corpus/C16/f1.txt. *)
Theorem C16_F1_pinned_refuted :
  exists l i off r, is_bytes l /\ first_plausible l i /\
    sync_pinned (start l E.EOF) = Ok (off, r) /\ off <> N.of_nat i /\ rest r = skipn i l.
Proof. exact f1_pinned_refuted. Qed.
Print Assumptions C16_F1_pinned_refuted.

(* non-vacuity of the bufio theorems: 16-byte buffer, one-byte reads with zero-length reads in between,
   reader error after the data *)
Example C16_bufio_nonvacuous :
  let s := [([], None); ([], None)] ++
           map (fun b => ([b], @None N)) [71; 0; 0; 0; 71; 0; 0; 16; 1; 2; 3; 4; 5; 6; 7; 8; 9; 10; 11; 12] ++
           [([], None); ([], Some 60)] in
  few_empty_reads (PacketWriter.Script s) /\ first_plausible (script_data s) 4 /\
  (exists b', Bufio.sync_raw 16 s = Ok (4, None, b') /\ bdata b' = skipn 4 (script_data s)).
Proof.
  cbv zeta. split; [|split].
  - cbn [few_empty_reads runs_lt lead map app]. unfold Bufio.maxConsecutiveEmptyReads.
    repeat (split; [lia|]). exact I.
  - split; [reflexivity|]. intros j Hj. destruct j as [|[|[|[|j]]]]; try reflexivity; lia.
  - eexists. split; [vm_compute; reflexivity|]. vm_compute. reflexivity.
Qed.

(* non-vacuity: the F1 probe of DESIGN section 7 — one false sync byte (AFC = 00) before the
   true header; least plausible position 4, not 3 *)
Example C16_nonvacuous :
  let l := [71; 0; 0; 0; 71; 0; 0; 16; 1; 2; 3] in
  is_bytes l /\ first_plausible l 4 /\
  sync (start l E.EOF) = Ok (4, mkR [71; 0; 0; 16; 1; 2; 3] None E.EOF) /\
  none_plausible [71; 0; 0; 0; 71; 0; 0] /\
  sync (start [71; 0; 0; 0; 71; 0; 0] E.EOF) = Err E.SyncByteNotFound.
Proof.
  cbv zeta. split; [|split; [|split; [|split]]].
  - repeat constructor.
  - split; [reflexivity|]. intros j Hj.
    destruct j as [|[|[|[|j]]]]; try reflexivity; lia.
  - reflexivity.
  - intros j. do 8 (destruct j as [|j]; [reflexivity|]). unfold plausible_pos. reflexivity.
  - reflexivity.
Qed.
