(* C05 (decoders are total), the part owned with C07 / C20: psi.go helpers, NewPAT and the PAT
   accessors, ReadPAT, IsPMT, and the PMT descriptor decoders, on ARBITRARY bytes.  Statements only;
   proofs in Proofs/PatTotal.v and Proofs/PmtDescTotal.v.  The model is the repaired tree
   (candidate-fixes + c05-guards); `safe r` = r is neither Panic nor Diverge; `value r` = r is Ok.
   To be listed in PROOF_FILES of the C05 check next to Properties/C05.v. *)
From Gots Require Import Base.Prelude Model.Pat Model.PmtDesc Proofs.PatTotal Proofs.PmtDescTotal.
Local Open Scope N_scope.

Theorem C05_psi_helpers_total : forall b,
  (exists v, Pat.PatPsi.pointer_field b = Ok v) /\ safe (Pat.PatPsi.table_id b) /\
  safe (Pat.PatPsi.section_syntax_indicator b) /\ safe (Pat.PatPsi.private_indicator b) /\
  (exists v, Pat.PatPsi.section_length b = Ok v).
Proof. exact psi_helpers_total. Qed.
Print Assumptions C05_psi_helpers_total.

Theorem C05_new_pat_total : forall b, safe (Pat.new_pat b).
Proof. exact new_pat_total. Qed.
Print Assumptions C05_new_pat_total.

(* any PAT object returned without error can be queried through all of its getters *)
Theorem C05_new_pat_getters_total : forall b p, Pat.new_pat b = Ok p ->
  (exists n, Pat.num_programs p = Ok n) /\ (exists m, Pat.program_map p = Ok m) /\ safe (Pat.spts_pmt_pid p).
Proof. exact new_pat_getters_total. Qed.
Print Assumptions C05_new_pat_getters_total.

(* the length clip of /repo commit 3223166 (NumPrograms clips to len - pointer_field, ProgramMap starts at
   8 + pointer_field) at its edges; the general statement is C05_new_pat_getters_total: no panic on ANY bytes *)
Theorem C05_pat_pointer_clip_examples :
  Pat.new_pat clip_b1 = Ok clip_b1 /\ Pat.num_programs clip_b1 = Ok (-62)%Z /\ Pat.program_map clip_b1 = Ok [] /\
  Pat.spts_pmt_pid clip_b1 = Err E.Other /\
  Pat.new_pat clip_b2 = Ok clip_b2 /\ Pat.num_programs clip_b2 = Ok 1%Z /\ Pat.program_map clip_b2 = Ok [(7, 0x123)] /\
  Pat.spts_pmt_pid clip_b2 = Ok 0x123.
Proof. exact pointer_clip_examples. Qed.
Print Assumptions C05_pat_pointer_clip_examples.

Theorem C05_read_pat_total : forall script, script_ok script -> safe (Pat.read_pat script).
Proof. exact read_pat_total. Qed.
Print Assumptions C05_read_pat_total.

Theorem C05_is_pmt_total : forall pkt pat, len pkt = 188 -> safe (Pat.is_pmt pkt pat).
Proof. exact is_pmt_total. Qed.
Print Assumptions C05_is_pmt_total.

Theorem C05_descriptor_decoders_total : forall d,
  value (PmtDesc.decode_maximum_bit_rate d) /\ value (PmtDesc.decode_iso639_language_code d) /\
  value (PmtDesc.decode_iso639_audio_type d) /\ value (PmtDesc.decode_ttml_iso639_language_code d) /\
  value (PmtDesc.decode_ttml_subtitle_purpose d) /\ value (PmtDesc.is_dolby_vision d) /\
  value (PmtDesc.decode_dolby_vision_codec d) /\ value (PmtDesc.is_iframe_profile d) /\
  value (PmtDesc.is_dolby_atmos d).
Proof. exact descriptor_decoders_total. Qed.
Print Assumptions C05_descriptor_decoders_total.

Theorem C05_stream_max_bit_rate_total : forall ds, value (PmtDesc.max_bit_rate ds).
Proof. exact max_bit_rate_total. Qed.
Print Assumptions C05_stream_max_bit_rate_total.

(* F11: the pinned tree (functions kept as `_pinned` / `_unguarded` in the models) panics on these inputs;
   replays in notes/findings/C05-pat.md *)
Theorem C05_psi_helpers_pinned_refuted :
  Pat.PatPsi.pointer_field_pinned [] = Panic /\
  Pat.PatPsi.table_id_pinned [0] = Panic /\
  Pat.PatPsi.section_syntax_indicator_pinned [0; 0] = Panic /\
  Pat.PatPsi.private_indicator_pinned [0; 0] = Panic /\
  Pat.PatPsi.section_length_pinned [0; 0; 0] = Panic /\
  Pat.PatPsi.table_id_pinned [255; 7] = Ok 255 /\ Pat.PatPsi.table_id [255; 7] = Ok 0.
Proof. exact psi_helpers_pinned_refuted. Qed.
Print Assumptions C05_psi_helpers_pinned_refuted.

Theorem C05_new_pat_pointer_pinned_refuted :
  let b := 11 :: repeat 0 12 in
  Pat.new_pat_pinned b = Ok b /\ Pat.num_programs_pinned b = Panic /\ Pat.program_map_pinned b = Panic /\
  Pat.spts_pmt_pid_pinned b = Panic /\ (exists n, Pat.num_programs b = Ok n).
Proof. exact new_pat_pointer_pinned_refuted. Qed.
Print Assumptions C05_new_pat_pointer_pinned_refuted.

Theorem C05_new_pat_packet_pinned_refuted :
  len pkt_no_room = 188 /\ Pat.new_pat_pinned pkt_no_room = Ok [] /\ Pat.num_programs_pinned [] = Panic /\
  Pat.new_pat pkt_no_room = Err E.InvalidPATLength.
Proof. exact new_pat_packet_pinned_refuted. Qed.
Print Assumptions C05_new_pat_packet_pinned_refuted.

Theorem C05_descriptor_decoders_pinned_refuted :
  PmtDesc.decode_maximum_bit_rate_unguarded (PmtDesc.mk 0x0E [1; 2]) = Panic /\
  PmtDesc.decode_iso639_language_code_unguarded (PmtDesc.mk 0x0A [101; 110]) = Panic /\
  PmtDesc.iframe_loop_unguarded 1 [8] 1 = Panic /\
  PmtDesc.iframe_loop_unguarded 1 [8; 128] 1 = Panic.
Proof. exact decoders_pinned_refuted. Qed.
Print Assumptions C05_descriptor_decoders_pinned_refuted.
