(* C11 — PES header decoding matches ISO 13818-1 for every header shape.
   Model: Model/Pes.v (pes/pesheader.go, pes/pes.go, PES part of packet/packet.go).
   Spec: Spec/PesSpec.v (logical record + serialiser ser_pes, transport packet payload), Spec/TimestampSpec.v.
   Statements only; proofs in Proofs/PesDecode.v and Proofs/PesTotal.v. *)
From Gots Require Import Base.Prelude Model.Pts Model.Pes Spec.TimestampSpec Spec.PesSpec Proofs.PesDecode Proofs.PesTotal Proofs.PesCreate.
Import PesSpec.
Local Open Scope N_scope.

(* For EVERY well-formed logical PES start p (any stream id, PES_packet_length, flag bits, PTS only / PTS+DTS /
   neither, any extra optional-field and stuffing bytes up to header_data_length 255, any payload) whose
   serialisation has the library's documented minimum of 7 bytes, NewPESHeader returns: start-code prefix 000001,
   the stream id, PES_packet_length, Data() = exactly the payload bytes (for the seven ids without optional
   header these are the bytes after PES_packet_length), and - for ids with the optional header - the
   data_alignment_indicator, HasPTS/HasDTS and the exact 33-bit values. *)
Theorem C11_decode_ser : forall p, wf p -> 7 <= len (ser_pes p) ->
  exists h, Pes.new_pes_header (ser_pes p) = Ok h /\
    Pes.packetStartCodePrefix h = 1 /\ Pes.streamId h = stream_id p /\ Pes.pesPacketLength h = plen p /\
    Pes.data h = data p /\
    (has_optional_header (stream_id p) = true ->
       Pes.dataAlignment h = aligned p /\ Pes.has_pts h = has_pts p /\ Pes.has_dts h = has_dts p /\
       (has_pts p = true -> Pes.pts h = pts_of p) /\ (has_dts p = true -> Pes.dts h = dts_of p)).
Proof. exact decode_ser. Qed.
Print Assumptions C11_decode_ser.

(* with the optional header the 7-byte guard is automatic and the whole record is determined *)
Theorem C11_decode_ser_optional : forall p, wf p -> has_optional_header (stream_id p) = true ->
  Pes.new_pes_header (ser_pes p) =
  Ok (Pes.mk_header 1 (aligned p) (stream_id p) (plen p) (ts_flags (ts p)) (pts_of p) (dts_of p) (data p)).
Proof. exact decode_ser_optional. Qed.
Print Assumptions C11_decode_ser_optional.

(* the code's list of stream ids without optional header is the list the property gives *)
Theorem C11_plain_ids : forall id, Pes.optional_fields_exist id = has_optional_header id.
Proof. exact optional_fields_exist_spec. Qed.
Print Assumptions C11_plain_ids.

(* a transport packet yields PES header bytes exactly when PUSI is set and its payload, of at least four
   bytes, begins with 00 00 01; the bytes returned are that payload *)
Theorem C11_pkt_pes_header_iff : forall pkt pay, length pkt = 188%nat ->
  (Pes.pkt_pes_header pkt = Ok pay <-> pusi pkt = true /\ ts_payload pkt = Some pay /\ starts_with_start_code pay).
Proof. exact pkt_pes_header_iff. Qed.
Print Assumptions C11_pkt_pes_header_iff.

(* AlignedPUSI returns data exactly when PESHeader yields bytes, NewPESHeader decodes them, and that header
   has the alignment flag; the data returned is that header's Data() *)
Theorem C11_aligned_pusi_iff : forall pkt d,
  Pes.aligned_pusi pkt = Some d <->
  exists pay h, Pes.pkt_pes_header pkt = Ok pay /\ Pes.new_pes_header pay = Ok h /\ Pes.dataAlignment h = true /\ d = Pes.data h.
Proof. exact aligned_pusi_iff. Qed.
Print Assumptions C11_aligned_pusi_iff.

(* end to end at the spec level: a packet whose payload is a well-formed PES start (optional-header id)
   gives the PES payload exactly when data_alignment_indicator is set *)
Theorem C11_aligned_pusi_ser : forall pkt p, length pkt = 188%nat -> wf p -> has_optional_header (stream_id p) = true ->
  pusi pkt = true -> ts_payload pkt = Some (ser_pes p) ->
  Pes.aligned_pusi pkt = if aligned p then Some (data p) else None.
Proof. exact aligned_pusi_ser. Qed.
Print Assumptions C11_aligned_pusi_ser.

(* a transport packet carries only the first n bytes of a PES packet: cutting a well-formed start anywhere at or
   after the end of its header decodes to the same header with the data that made it into the packet *)
Theorem C11_decode_ser_prefix : forall p n, wf p -> has_optional_header (stream_id p) = true -> len (ser_head p) <= n ->
  Pes.new_pes_header (takeN n (ser_pes p)) =
  Ok (Pes.mk_header 1 (aligned p) (stream_id p) (plen p) (ts_flags (ts p)) (pts_of p) (dts_of p)
                    (takeN (n - len (ser_head p)) (data p))).
Proof. exact decode_ser_prefix. Qed.
Print Assumptions C11_decode_ser_prefix.

(* the transport packet as a serialiser: header bytes b0..b3 (payload bit set, adaptation-field bit as given),
   optional adaptation field of any length, then the first n bytes of the PES packet, 188 bytes in all:
   packet.PESHeader yields those bytes exactly when PUSI (bit 6 of b1) is set, and AlignedPUSI yields the PES
   data carried by this packet exactly when PUSI and data_alignment_indicator are set *)
Theorem C11_packet_carries_pes : forall b0 b1 b2 b3 af p n, wf p -> has_optional_header (stream_id p) = true ->
  len (ser_head p) <= n -> wf_tspkt b3 af (takeN n (ser_pes p)) ->
  let pkt := ser_tspkt b0 b1 b2 b3 af (takeN n (ser_pes p)) in
  (Pes.pkt_pes_header pkt = Ok (takeN n (ser_pes p)) <-> N.testbit b1 6 = true) /\
  Pes.aligned_pusi pkt =
    if N.testbit b1 6 && aligned p then Some (takeN (n - len (ser_head p)) (data p)) else None.
Proof. exact packet_carries_pes. Qed.
Print Assumptions C11_packet_carries_pes.

(* ts_payload, used above, is what the packet serialiser puts after header and adaptation field *)
Theorem C11_ts_payload_ser : forall b0 b1 b2 b3 af pay, wf_tspkt b3 af pay ->
  ts_payload (ser_tspkt b0 b1 b2 b3 af pay) = Some pay /\ pusi (ser_tspkt b0 b1 b2 b3 af pay) = N.testbit b1 6 /\
  length (ser_tspkt b0 b1 b2 b3 af pay) = 188%nat.
Proof. exact ts_payload_ser. Qed.
Print Assumptions C11_ts_payload_ser.

(* C04 end to end: PTS and DTS written with InsertPTS into the header bytes of any PES start that announces both
   are read back unchanged by NewPESHeader; nothing but the ten timestamp bytes changes *)
Theorem C11_pes_pts_dts_readback : forall b v1 v2, (19 <= length b)%nat ->
  Pes.optional_fields_exist (nthN b 3) = true -> N.shiftr (N.land (nthN b 7) 192) 6 = 3 ->
  v1 < 8589934592 -> v2 < 8589934592 ->
  exists b1 b2 h, Pes.put_ts b 9 v1 = Ok b1 /\ Pes.put_ts b1 14 v2 = Ok b2 /\ Pes.new_pes_header b2 = Ok h /\
    Pes.has_pts h = true /\ Pes.has_dts h = true /\ Pes.pts h = v1 /\ Pes.dts h = v2 /\
    length b2 = length b /\ firstn 9 b2 = firstn 9 b /\ skipn 19 b2 = skipn 19 b.
Proof. exact pes_pts_dts_readback. Qed.
Print Assumptions C11_pes_pts_dts_readback.

(* C04 end to end through the library's own builder: packet.WithPES(pkt, pts) on ANY 188-byte packet that leaves
   room for the 14 header bytes (no adaptation field, or adaptation_field_length <= 169), then packet.Payload /
   packet.PESHeader and NewPESHeader: the PTS is read back unchanged *)
Theorem C11_with_pes_readback : forall pkt pts, length pkt = 188%nat -> pts < 8589934592 ->
  Pes.pkt_payload_start pkt + 14 <= 188 ->
  exists pkt' pay h, Pes.with_pes pkt pts = Ok pkt' /\ length pkt' = 188%nat /\
    Pes.pkt_payload pkt' = Ok pay /\ (Pes.pkt_pusi pkt = true -> Pes.pkt_pes_header pkt' = Ok pay) /\
    Pes.new_pes_header pay = Ok h /\
    Pes.packetStartCodePrefix h = 1 /\ Pes.streamId h = 184 /\
    Pes.has_pts h = true /\ Pes.has_dts h = false /\ Pes.pts h = pts.
Proof. exact with_pes_readback. Qed.
Print Assumptions C11_with_pes_readback.

(* C05 for these entry points: NewPESHeader on ARBITRARY bytes is an error below 7 bytes and a header otherwise *)
Theorem C11_new_pes_header_total : forall b,
  (len b < 7 -> Pes.new_pes_header b = Err E.Other) /\ (7 <= len b -> exists h, Pes.new_pes_header b = Ok h).
Proof. exact new_pes_header_total. Qed.
Print Assumptions C11_new_pes_header_total.

(* bounded memory: whatever the input, Data() of the decoded header is empty or a suffix of the input *)
Theorem C11_new_pes_header_data_suffix : forall b h, Pes.new_pes_header b = Ok h ->
  Pes.data h = [] \/ exists k, k < len b /\ Pes.data h = dropN k b.
Proof. exact new_pes_header_data_suffix. Qed.
Print Assumptions C11_new_pes_header_data_suffix.

Theorem C11_pkt_pes_header_no_panic : forall pkt, length pkt = 188%nat ->
  Pes.pkt_pes_header pkt <> Panic /\ Pes.pkt_pes_header pkt <> Diverge.
Proof. exact pkt_pes_header_no_panic. Qed.
Print Assumptions C11_pkt_pes_header_no_panic.

(* non-vacuity: a video PES start with PTS+DTS, three stuffing bytes and a payload; a padding stream *)
Example C11_nonvacuous :
  let p := mk_pes 224 0 132 1 (PtsDts 8589934591 4294967296) [255; 255; 255] [0; 0; 1; 9] in
  wf p /\ ser_pes p = [0; 0; 1; 224; 0; 0; 132; 193; 13; 63; 255; 255; 255; 255; 25; 0; 1; 0; 1; 255; 255; 255; 0; 0; 1; 9]
  /\ Pes.new_pes_header (ser_pes p) = Ok (Pes.mk_header 1 true 224 0 3 8589934591 4294967296 [0; 0; 1; 9])
  /\ Pes.new_pes_header (ser_pes (mk_pes 190 3 0 0 NoTs [] [255; 255; 255])) = Ok (Pes.mk_header 1 true 190 3 0 0 0 [255; 255; 255]).
Proof. cbv zeta. split; [|split; [|split]]; try (vm_compute; reflexivity).
  unfold wf, is_bytes, is_byte. cbn. repeat split; try lia; repeat constructor; lia. Qed.

(* non-vacuity of the packet theorems: a 188-byte packet with a 7-byte adaptation field carrying the first 176 bytes
   of a PES packet (header 19 bytes, 157 of 300 payload bytes) *)
Example C11_packet_nonvacuous :
  let p := mk_pes 224 0 132 0 (PtsDts 900000 896997) [] (repeat 170 300) in
  let af := Some [64; 255; 255; 255; 255; 255; 255] in
  wf_tspkt 53 af (takeN 176 (ser_pes p)) /\ len (ser_head p) = 19 /\
  Pes.aligned_pusi (ser_tspkt 71 65 0 53 af (takeN 176 (ser_pes p))) = Some (repeat 170 157).
Proof. cbv zeta. repeat split; vm_compute; reflexivity. Qed.
