(* C01 — Transport packet header fields: getters exact, setters change only their field.
   Only statements here; proofs are in Proofs/HdrBits.v (finite reflection over the affected
   byte(s) x values, lifted to all packets).

   Reading guide.  [is_pkt p] : p has 188 elements, each < 256  (ALL 2^1504 contents).
   [Iso.hdr_of p] is the logical header ISO/IEC 13818-1 2.4.3.2 assigns to the first four bytes
   (Spec/Iso13818Hdr.v); C01_hdr_determines_bytes shows it accounts for all 32 header bits, so
   "hdr_of p' = with_F (hdr_of p) v  and  every byte but the written one is untouched" says: the
   getter returns v and every other bit of the packet is unchanged.  The mask form of the same
   frame condition is C01_set_frame_bits.  [frame_except p p' i] : every byte except index i equal. *)
From Gots Require Import Base.Prelude Base.PacketLemmas Model.Packet Spec.Iso13818Hdr Proofs.HdrBits.
Import Packet.
Local Open Scope N_scope.

(* ---- getters return exactly the ISO field ---- *)
Theorem C01_get_exact_byte1 : forall p, is_pkt p ->
  TransportErrorIndicator p = (Iso.tei (Iso.hdr_of p) =? 1) /\
  PayloadUnitStartIndicator_m p = (Iso.pusi (Iso.hdr_of p) =? 1) /\
  PayloadUnitStartIndicator_fn p = (Iso.pusi (Iso.hdr_of p) =? 1) /\
  TransportPriority p = (Iso.tp (Iso.hdr_of p) =? 1).
Proof. exact byte1_facts. Qed.
Print Assumptions C01_get_exact_byte1.

Theorem C01_get_exact_pid : forall p, is_pkt p ->
  Pid_fn p = Iso.pid (Iso.hdr_of p) /\ PID_m p = Iso.pid (Iso.hdr_of p).
Proof. exact pid_facts. Qed.
Print Assumptions C01_get_exact_pid.

Theorem C01_get_exact_byte3 : forall p, is_pkt p ->
  TransportScramblingControl p = Iso.tsc (Iso.hdr_of p) /\ AdaptationFieldControl p = Iso.afc (Iso.hdr_of p) /\
  ContinuityCounter_fn p = Iso.cc (Iso.hdr_of p) /\ ContinuityCounter_m p = Iso.cc (Iso.hdr_of p) /\
  ContainsPayload p = Iso.has_payload (Iso.hdr_of p) /\ HasPayload p = Iso.has_payload (Iso.hdr_of p) /\
  ContainsAdaptationField p = Iso.has_af (Iso.hdr_of p) /\ HasAdaptationField p = Iso.has_af (Iso.hdr_of p).
Proof. exact byte3_facts. Qed.
Print Assumptions C01_get_exact_byte3.

Theorem C01_null_pat_classification : forall p, is_pkt p ->
  IsNull_fn p = (Iso.pid (Iso.hdr_of p) =? 8191) /\ IsNull_m p = (Iso.pid (Iso.hdr_of p) =? 8191) /\
  IsPat_fn p = (Iso.pid (Iso.hdr_of p) =? 0) /\ IsPAT_m p = (Iso.pid (Iso.hdr_of p) =? 0).
Proof. exact null_pat_facts. Qed.
Print Assumptions C01_null_pat_classification.

(* function-style and method-style accessors always agree (on every list, no guard needed) *)
Theorem C01_fn_eq_method : forall p,
  Pid_fn p = PID_m p /\ PayloadUnitStartIndicator_fn p = PayloadUnitStartIndicator_m p /\
  ContainsPayload p = HasPayload p /\ ContainsAdaptationField p = HasAdaptationField p /\
  ContinuityCounter_fn p = ContinuityCounter_m p /\ IsNull_fn p = IsNull_m p /\ IsPat_fn p = IsPAT_m p.
Proof. exact fn_eq_method. Qed.
Print Assumptions C01_fn_eq_method.

(* the logical header accounts for all 32 header bits: serialising it gives back bytes 0..3,
   and packets with equal logical header and equal bytes 4..187 are equal *)
Theorem C01_hdr_determines_bytes : forall p, is_pkt p -> Iso.ser_hdr (Iso.hdr_of p) = firstn 4 p.
Proof. exact ser_hdr_of. Qed.
Print Assumptions C01_hdr_determines_bytes.
Theorem C01_hdr_parse_ser : forall h rest, Iso.hdr_ok h -> Iso.hdr_of (Iso.ser_hdr h ++ rest) = h.
Proof. exact hdr_of_ser. Qed.
Print Assumptions C01_hdr_parse_ser.
Theorem C01_hdr_tail_ext : forall p q, is_pkt p -> is_pkt q -> Iso.hdr_of p = Iso.hdr_of q ->
  (forall j, 4 <= j -> get p j = get q j) -> p = q.
Proof. exact hdr_tail_ext. Qed.
Print Assumptions C01_hdr_tail_ext.

(* ---- setters: the field reads back, every other field and every other byte is unchanged ---- *)
Theorem C01_set_tei : forall p, is_pkt p -> forall v, let p' := SetTransportErrorIndicator p v in
  Iso.hdr_of p' = Iso.with_tei (Iso.hdr_of p) (b2n v) /\ frame_except p p' 1 /\ is_pkt p'.
Proof. exact set_tei_lift. Qed.
Print Assumptions C01_set_tei.
Theorem C01_set_pusi : forall p, is_pkt p -> forall v, let p' := SetPayloadUnitStartIndicator p v in
  Iso.hdr_of p' = Iso.with_pusi (Iso.hdr_of p) (b2n v) /\ frame_except p p' 1 /\ is_pkt p'.
Proof. exact set_pusi_lift. Qed.
Print Assumptions C01_set_pusi.
Theorem C01_set_tp : forall p, is_pkt p -> forall v, let p' := SetTransportPriority p v in
  Iso.hdr_of p' = Iso.with_tp (Iso.hdr_of p) (b2n v) /\ frame_except p p' 1 /\ is_pkt p'.
Proof. exact set_tp_lift. Qed.
Print Assumptions C01_set_tp.

(* SetPID with ANY Go int stores its 13 low bits; in range (0 <= pid < 8192) that is pid itself *)
Theorem C01_set_pid_any_int : forall p, is_pkt p -> forall z, let p' := SetPID p z in
  Iso.hdr_of p' = Iso.with_pid (Iso.hdr_of p) (Z.to_N (z mod 8192)) /\ frame_except2 p p' 1 2 /\ is_pkt p'.
Proof. exact set_pid_lift. Qed.
Print Assumptions C01_set_pid_any_int.
Theorem C01_set_pid : forall p, is_pkt p -> forall v, v < 8192 -> let p' := SetPID p (Z.of_N v) in
  Iso.hdr_of p' = Iso.with_pid (Iso.hdr_of p) v /\ PID_m p' = v /\ Pid_fn p' = v /\
  frame_except2 p p' 1 2 /\ is_pkt p'.
Proof. exact set_pid_in_range. Qed.
Print Assumptions C01_set_pid.

Theorem C01_set_tsc : forall p, is_pkt p -> forall v, v < 4 -> let p' := SetTransportScramblingControl p v in
  Iso.hdr_of p' = Iso.with_tsc (Iso.hdr_of p) v /\ frame_except p p' 3 /\ is_pkt p'.
Proof. exact set_tsc_lift. Qed.
Print Assumptions C01_set_tsc.

(* bonus: SetContinuityCounter with ANY Go int stores value mod 16 *)
Theorem C01_set_cc_any_int : forall p, is_pkt p -> forall z, let p' := SetContinuityCounter p z in
  Iso.hdr_of p' = Iso.with_cc (Iso.hdr_of p) (Z.to_N (z mod 16)) /\ frame_except p p' 3 /\ is_pkt p'.
Proof. exact set_cc_lift. Qed.
Print Assumptions C01_set_cc_any_int.
Theorem C01_set_cc : forall p, is_pkt p -> forall v, v < 16 -> let p' := SetContinuityCounter p (Z.of_N v) in
  Iso.hdr_of p' = Iso.with_cc (Iso.hdr_of p) v /\ ContinuityCounter_m p' = v /\ frame_except p p' 3 /\ is_pkt p'.
Proof. exact set_cc_in_range. Qed.
Print Assumptions C01_set_cc.
Theorem C01_inc_cc : forall p, is_pkt p -> let p' := IncContinuityCounter p in
  Iso.hdr_of p' = Iso.with_cc (Iso.hdr_of p) ((Iso.cc (Iso.hdr_of p) + 1) mod 16) /\ frame_except p p' 3 /\ is_pkt p'.
Proof. exact inc_cc_lift. Qed.
Print Assumptions C01_inc_cc.
Theorem C01_zero_cc : forall p, is_pkt p -> let p' := ZeroContinuityCounter p in
  Iso.hdr_of p' = Iso.with_cc (Iso.hdr_of p) 0 /\ frame_except p p' 3 /\ is_pkt p'.
Proof. exact zero_cc_lift. Qed.
Print Assumptions C01_zero_cc.

(* mask form of "every other bit": inside the written byte the bits outside the field's mask survive *)
Theorem C01_set_frame_bits : forall p, is_pkt p -> forall (z : Z) (v : bool) (t c : N), t < 4 -> c < 16 ->
  keeps p (SetTransportErrorIndicator p v) 1 128 /\ keeps p (SetPayloadUnitStartIndicator p v) 1 64 /\
  keeps p (SetTransportPriority p v) 1 32 /\ keeps p (SetPID p z) 1 31 /\
  keeps p (SetTransportScramblingControl p t) 3 192 /\ keeps p (SetContinuityCounter p z) 3 15 /\
  keeps p (IncContinuityCounter p) 3 15 /\ keeps p (ZeroContinuityCounter p) 3 15 /\
  keeps p (IncrementCC p) 3 15 /\ keeps p (ZeroCC p) 3 15 /\ keeps p (SetCC p c) 3 15.
Proof. exact mask_frame_all. Qed.
Print Assumptions C01_set_frame_bits.

(* ---- copy-returning continuity-counter helpers: (cc+1) mod 16 / 0 / v, everything else equal.
   (That the argument is not written and the result is fresh memory is a goexec observation.) ---- *)
Theorem C01_cc_copy_helpers : forall p, is_pkt p ->
  (let p' := IncrementCC p in
   Iso.hdr_of p' = Iso.with_cc (Iso.hdr_of p) ((Iso.cc (Iso.hdr_of p) + 1) mod 16) /\ frame_except p p' 3 /\ is_pkt p') /\
  (let p' := ZeroCC p in Iso.hdr_of p' = Iso.with_cc (Iso.hdr_of p) 0 /\ frame_except p p' 3 /\ is_pkt p') /\
  (forall v, v < 16 -> let p' := SetCC p v in
   Iso.hdr_of p' = Iso.with_cc (Iso.hdr_of p) v /\ frame_except p p' 3 /\ is_pkt p').
Proof. exact cc_copy_helpers. Qed.
Print Assumptions C01_cc_copy_helpers.

(* ---- Equal ---- *)
Theorem C01_equal_iff : forall a b, Equal a b = true <-> a = b.
Proof. exact bytes_eqb_eq. Qed.
Print Assumptions C01_equal_iff.

(* ---- CheckErrors: error exactly when sync <> 0x47 or TSC = 01 or AFC = 00, and which one wins ---- *)
Theorem C01_check_errors_spec : forall p, is_pkt p -> CheckErrors p = Iso.check (Iso.hdr_of p).
Proof. exact check_errors_spec. Qed.
Print Assumptions C01_check_errors_spec.
Theorem C01_check_errors_iff : forall p, is_pkt p -> let h := Iso.hdr_of p in
  (CheckErrors p <> None <-> (Iso.sync h <> 71 \/ Iso.tsc h = 1 \/ Iso.afc h = 0)) /\
  (CheckErrors p = Some E.BadSyncByte <-> Iso.sync h <> 71) /\
  (CheckErrors p = Some E.InvalidTSCFlag <-> (Iso.sync h = 71 /\ Iso.tsc h = 1)) /\
  (CheckErrors p = Some E.InvalidAFCFlag <-> (Iso.sync h = 71 /\ Iso.tsc h <> 1 /\ Iso.afc h = 0)).
Proof. exact check_errors_iff. Qed.
Print Assumptions C01_check_errors_iff.

(* ---- FromBytes: a packet only from exactly 188 bytes (and then a copy of them, with CheckErrors' verdict) ---- *)
Theorem C01_from_bytes_len : forall b q, fst (FromBytes b) = Some q -> length b = 188%nat /\ q = b.
Proof. exact from_bytes_len. Qed.
Print Assumptions C01_from_bytes_len.
Theorem C01_from_bytes_188 : forall b,
  (length b = 188%nat -> FromBytes b = (Some b, CheckErrors b)) /\
  (length b <> 188%nat -> FromBytes b = (None, Some E.InvalidPacketLength)).
Proof. exact from_bytes_spec. Qed.
Print Assumptions C01_from_bytes_188.

Theorem C01_copy_packets : forall ps, Forall is_pkt ps -> CopyPackets ps = ps.
Proof. exact copy_packets_id. Qed.
Print Assumptions C01_copy_packets.

Theorem C01_new : is_pkt New /\ Iso.hdr_of New = Iso.mkHdr 71 0 0 0 8191 0 1 0 /\
  (forall j, 4 <= j -> j < 188 -> get New j = 0).
Proof. exact new_spec. Qed.
Print Assumptions C01_new.

(* non-vacuity: a concrete packet with all header fields populated meets the hypotheses, and the
   setters act on it as stated *)
Definition ex_pkt : bytes := [71; 229; 67; 155] ++ repeatN 170 184.
Example C01_nonvacuous :
  length ex_pkt = 188%nat /\ forallb is_byteb ex_pkt = true /\
  Iso.hdr_of ex_pkt = Iso.mkHdr 71 1 1 1 1347 2 1 11 /\
  Iso.hdr_of (SetPID ex_pkt 8191) = Iso.mkHdr 71 1 1 1 8191 2 1 11 /\
  Iso.hdr_of (IncrementCC (SetCC ex_pkt 15)) = Iso.mkHdr 71 1 1 1 1347 2 1 0 /\
  CheckErrors ex_pkt = None /\ CheckErrors (SetTransportScramblingControl ex_pkt 1) = Some E.InvalidTSCFlag.
Proof. vm_compute. repeat split; reflexivity. Qed.
