(* ExtraScte — package scte35: constant tables of doc.go, fresh objects of the Create.. functions, Component setters.
   Property-support file of the coverage round (notes/coverage.md): statements only; proofs in Proofs/ExtraLemmas.v.
   These are small facts about exported identifiers that none of the twenty properties states; the finite ones are
   decided by vm_compute over the COMPLETE table.  None is `_partial`. *)
From Gots Require Import Base.Prelude.
From Gots Require Import Model.Pts Model.Packet Model.Create Model.Psi Model.Pmt Model.PmtDesc Model.StreamType Model.Pes
  Model.Ebp Model.IO Model.PacketWriter Model.Scte Model.ScteEnc Model.SegDesc Model.Printers Model.Errors Model.Pat Proofs.ExtraLemmas.
Local Open Scope N_scope.

Theorem Extra_scte35_tables :
  NoDup SegDesc.Consts.SpliceCommandTypes /\ NoDup SegDesc.Consts.DeviceRestrictionsValues /\
  NoDup SegDesc.Consts.SegDescTypes /\ NoDup SegDesc.Consts.SegUPIDTypes /\
  length SegDesc.Consts.SegDescTypes = 38%nat /\ length SegDesc.Consts.SegUPIDTypes = 16%nat /\
  SegDesc.Consts.SegUPIDTypes = [0; 1; 2; 3; 4; 5; 6; 7; 8; 9; 10; 11; 12; 13; 14; 15] /\
  SegDesc.Consts.DeviceRestrictionsValues = [0; 1; 2; 3].
Proof. exact scte35_tables. Qed.
Print Assumptions Extra_scte35_tables.

Theorem Extra_scte35_rule_types_are_constants :
  (forall t, In t (map fst SegDesc.rules) -> In t SegDesc.Consts.SegDescTypes) /\
  (forall t, SegDesc.is_out_ty t = true -> In t SegDesc.Consts.SegDescTypes) /\
  (forall t, SegDesc.is_in_ty t = true -> In t SegDesc.Consts.SegDescTypes) /\
  (forall t, SegDesc.is_out_ty t = true -> SegDesc.is_in_ty t = false).
Proof. exact scte35_rule_types_are_constants. Qed.
Print Assumptions Extra_scte35_rule_types_are_constants.

Theorem Extra_scte35_command_types : forall c, In (Scte.cmd_type c) SegDesc.Consts.SpliceCommandTypes.
Proof. exact scte35_command_types. Qed.
Print Assumptions Extra_scte35_command_types.

Theorem Extra_scte35_fresh_objects :
  ScteEnc.create_component = Scte.mkcomp 0 false 0 /\ ScteEnc.create_upid = Scte.mkupid 0 0 [] /\
  ScteEnc.create_component_offset = Scte.mkco 0 0 /\
  Scte.cmd_type (ScteEnc.create_cmd 0) = SegDesc.Consts.SpliceNull /\
  Scte.cmd_type (ScteEnc.create_cmd 1) = SegDesc.Consts.TimeSignal /\
  Scte.cmd_type (ScteEnc.create_cmd 2) = SegDesc.Consts.SpliceInsert /\
  ScteEnc.cmd_data (ScteEnc.create_cmd 0) = [] /\ ScteEnc.cmd_data (ScteEnc.create_cmd 1) = [127].
Proof. exact scte35_fresh_objects. Qed.
Print Assumptions Extra_scte35_fresh_objects.

Theorem Extra_component_setters :
  forall c v b p,
  Scte.c_tag (ScteEnc.apply_comp_op (ScteEnc.CSetTag v) c) = v /\
  Scte.c_has_pts (ScteEnc.apply_comp_op (ScteEnc.CSetHasPTS b) c) = b /\
  Scte.c_pts (ScteEnc.apply_comp_op (ScteEnc.CSetPTS p) c) = p mod 2 ^ 33 /\
  Scte.c_has_pts (ScteEnc.apply_comp_op (ScteEnc.CSetTag v) c) = Scte.c_has_pts c /\
  Scte.c_pts (ScteEnc.apply_comp_op (ScteEnc.CSetTag v) c) = Scte.c_pts c.
Proof. exact component_setters. Qed.
Print Assumptions Extra_component_setters.
