(* ExtraPes — package pes: CheckLength and the stream_id constants.
   Property-support file of the coverage round (notes/coverage.md): statements only; proofs in Proofs/ExtraLemmas.v.
   These are small facts about exported identifiers that none of the twenty properties states; the finite ones are
   decided by vm_compute over the COMPLETE table.  None is `_partial`. *)
From Gots Require Import Base.Prelude.
From Gots Require Import Model.Pts Model.Packet Model.Create Model.Psi Model.Pmt Model.PmtDesc Model.StreamType Model.Pes
  Model.Ebp Model.IO Model.PacketWriter Model.Scte Model.ScteEnc Model.SegDesc Model.Printers Model.Errors Model.Pat Proofs.ExtraLemmas.
Local Open Scope N_scope.

Theorem Extra_check_length_iff : forall b m, Pes.check_length b m = true <-> m <= len b.
Proof. exact check_length_iff. Qed.
Print Assumptions Extra_check_length_iff.

Theorem Extra_pes_stream_ids :
  length Pes.Consts.exported_consts = 22%nat /\ NoDup Pes.Consts.exported_consts /\
  (forall c, In c Pes.Consts.exported_consts -> 184 <= c < 256) /\
  (forall c, In c Pes.Consts.exported_consts ->
     (Pes.optional_fields_exist c = false <->
      In c [Pes.Consts.STREAM_ID_PADDNG_STREAM; Pes.Consts.STREAM_ID_PRIVATE_STREAM_2; Pes.Consts.STREAM_ID_ECM_STREAM;
            Pes.Consts.STREAM_ID_EMM_STREAM; Pes.Consts.STREAM_ID_DSM_CC_STREAM; Pes.Consts.STREAM_ID_ITU_T_H222_1_TYPE_E;
            Pes.Consts.STREAM_ID_PROGRAM_STREAM_DIRECTORY])).
Proof. exact pes_stream_ids. Qed.
Print Assumptions Extra_pes_stream_ids.
