(* C03 — adaptation field stays a faithful ISO 13818-1 encoding under any edit history.
   Statements only; proofs live in Proofs/AF*.v.  (theorems are added group by group) *)
From Gots Require Import Base.Prelude Model.Pcr Model.AF Model.AFfn Spec.AFSpec.
