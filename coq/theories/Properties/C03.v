(* C03 — adaptation field stays a faithful ISO 13818-1 encoding under any edit history.
   This file holds only the property statements; proofs live in Proofs/AF*.v and Proofs/PcrBytes.v.

   Reading guide.  `repr p l hdr pay` (Spec/AFSpec.v): the 188-byte packet p is  hdr ++ ser_laf l ++ pay  with a
   4-byte header whose adaptation-field bit is set, l well-formed (adaptation_field_length 1..183, 6-byte
   PCR/OPCR, byte values) and fitting (contents <= adaptation_field_length).  `ser_laf` is the ISO serialiser:
   length, flags, present fields in standard order, 0xFF stuffing up to adaptation_field_length.  hdr and pay are
   the same on both sides of every statement: header and payload are untouched.  `op_rel l o (Done l')` /
   `op_rel l o (Fail e)`: the meaning of operation o on the logical value (a presence toggle that turns a
   fixed-size field on leaves its value unspecified).  AF.step is the model of the Go setters (repaired code of
   /root/work/repo-fixed: F5, F6 and the C05 guards), AF.run a whole history by a caller that ignores errors.
   All 14 setters (SetDiscontinuity, SetRandomAccess, SetElementaryStreamPriority, SetHasPCR, SetHasOPCR,
   SetHasSplicingPoint, SetHasTransportPrivateData, SetHasAdaptationFieldExtension, SetPCR, SetOPCR,
   SetSpliceCountdown, SetTransportPrivateData, SetAdaptationFieldExtension, Packet.SetAdaptationField) are
   covered by step_refines and therefore by the history theorem; nothing is _partial there. *)
From Gots Require Import Base.Prelude Model.Pcr Model.AF Model.AFfn Spec.AFSpec Spec.AFParse Proofs.AFParseSound
  Proofs.AFLists Proofs.PcrBytes Proofs.AFHistory Proofs.AFGetters Proofs.AFExamples Proofs.AFTotal Proofs.AFLastSet Proofs.AFFrame Proofs.AFAlgebra Model.AFPinned Proofs.AFPinnedRefuted.

(* one call: Ok => the bytes are the serialisation of the updated logical value (same header, same payload,
   same adaptation_field_length); Err => the operation cannot be honoured (and the packet is untouched, see
   C03_error_only_when_refused); never a panic *)
Theorem C03_step_refines : forall p l hdr pay o, repr p l hdr pay -> op_ok o ->
  match AF.step p o with
  | Ok p' => exists l', op_rel l o (Done l') /\ repr p' l' hdr pay
  | Err e => op_rel l o (Fail e)
  | Panic | Diverge => False
  end.
Proof. exact step_refines. Qed.
Print Assumptions C03_step_refines.

(* all histories, all well-formed starts: by induction over the operation list *)
Theorem C03_history : forall h p l hdr pay, repr p l hdr pay -> Forall op_ok h ->
  exists l', hist_rel l h l' /\ repr (AF.run p h) l' hdr pay.
Proof. exact history. Qed.
Print Assumptions C03_history.

(* the correspondence's notion of "deciding case": the Coq-extracted recogniser (executor op af.wf) accepted the start
   packet and the arguments; such a case is inside the hypotheses of C03_history *)
Theorem C03_deciding_cases_are_in_domain : forall p ops, in_domain p ops = true ->
  exists hdr l pay l', repr p l hdr pay /\ hist_rel l ops l' /\ repr (AF.run p ops) l' hdr pay.
Proof. exact in_domain_history. Qed.
Print Assumptions C03_deciding_cases_are_in_domain.

(* the recogniser is exact: it accepts precisely the packets that encode a logical field, and returns that field
   (a parser that inverts the ISO serialiser) *)
Theorem C03_recogniser_exact : forall p hdr l pay, reprb p = Some (hdr, l, pay) <-> repr p l hdr pay.
Proof. exact reprb_iff. Qed.
Print Assumptions C03_recogniser_exact.

(* ... and after every call of the history, not only at its end *)
Theorem C03_history_every_prefix : forall h1 h2 p l hdr pay, repr p l hdr pay -> Forall op_ok (h1 ++ h2) ->
  exists l', hist_rel l h1 l' /\ repr (AF.run p h1) l' hdr pay.
Proof. exact history_every_prefix. Qed.
Print Assumptions C03_history_every_prefix.

(* the encoding is faithful in the strong sense: a packet encodes at most one logical value *)
Theorem C03_encoding_injective : forall p l1 l2 hdr1 hdr2 pay1 pay2,
  repr p l1 hdr1 pay1 -> repr p l2 hdr2 pay2 -> l1 = l2 /\ hdr1 = hdr2 /\ pay1 = pay2.
Proof. exact repr_unique. Qed.
Print Assumptions C03_encoding_injective.

(* byte-level frame: the four header bytes, adaptation_field_length and the payload are untouched by any history *)
Theorem C03_frame_history : forall p l hdr pay h, repr p l hdr pay -> Forall op_ok h ->
  takeN 5 (AF.run p h) = takeN 5 p /\ dropN (5 + l_len l) (AF.run p h) = dropN (5 + l_len l) p /\
  length (AF.run p h) = 188%nat.
Proof. exact frame_history. Qed.
Print Assumptions C03_frame_history.

(* a call that cannot be honoured returns an error and leaves the packet byte-for-byte unchanged; an error is
   reported only then *)
Theorem C03_error_only_when_refused : forall p l hdr pay o e, repr p l hdr pay -> op_ok o ->
  AF.step p o = Err e -> op_rel l o (Fail e) /\ AF.after p o = p /\ ~ (exists l', op_rel l o (Done l')).
Proof. exact error_only_when_refused. Qed.
Print Assumptions C03_error_only_when_refused.

(* a call whose result fits in adaptation_field_length never fails *)
Theorem C03_no_spurious_error : forall p l hdr pay o, repr p l hdr pay -> op_ok o ->
  (exists l', op_rel l o (Done l')) -> exists p', AF.step p o = Ok p'.
Proof. exact no_spurious_error. Qed.
Print Assumptions C03_no_spurious_error.

(* every getter of both APIs returns the logical value of a present field and the error for an absent one.
   Known finding F13 (pinned by adaptationfield_test.go:287,302): the METHOD getters TransportPrivateData() and
   AdaptationFieldExtension() return `length byte :: value`; that is what method_getters states. *)
Theorem C03_getters_agree_partial : forall p l hdr pay, repr p l hdr pay -> method_getters p l /\ fn_getters p l.
Proof. exact getters_agree. Qed.
Print Assumptions C03_getters_agree_partial.

(* the full reading of the property's getter clause: the method getters return the value itself *)
Definition C03_getters_full : Prop := forall p l hdr pay, repr p l hdr pay ->
  fn_getters p l /\ method_getters p l /\
  AF.TransportPrivateData p = opt_res (l_tpd l) (fun d => d) E.NoPrivateTransportData /\
  AF.AdaptationFieldExtension p = opt_res (l_ext l) (fun d => d) E.NoAdaptationFieldExtension.
Theorem C03_getters_full_refuted : ~ C03_getters_full.
Proof. exact getters_full_refuted. Qed.
Print Assumptions C03_getters_full_refuted.

(* a getter returns the value just set *)
Theorem C03_pcr_readback : forall p l hdr pay v p', repr p l hdr pay -> v < PcrMax ->
  AF.step p (AF.OSetPCR v) = Ok p' -> AF.PCR p' = Ok v /\ AFfn.PCR p' = Ok (pcr_enc v).
Proof. exact pcr_readback. Qed.
Print Assumptions C03_pcr_readback.
Theorem C03_opcr_readback : forall p l hdr pay v p', repr p l hdr pay -> v < PcrMax ->
  AF.step p (AF.OSetOPCR v) = Ok p' -> AF.OPCR p' = Ok v /\ AFfn.OPCR p' = Ok (pcr_enc v).
Proof. exact opcr_readback. Qed.
Print Assumptions C03_opcr_readback.
Theorem C03_splice_readback : forall p l hdr pay v p', repr p l hdr pay -> v < 256 ->
  AF.step p (AF.OSetSplice v) = Ok p' -> AF.SpliceCountdown p' = Ok (AF.int8 v) /\ AFfn.SpliceCountdown p' = Ok v.
Proof. exact splice_readback. Qed.
Print Assumptions C03_splice_readback.
Theorem C03_tpd_readback_partial : forall p l hdr pay d p', repr p l hdr pay -> is_bytes d ->
  AF.step p (AF.OSetTPD d) = Ok p' ->
  AF.TransportPrivateData p' = Ok (len d :: d) /\ AFfn.TransportPrivateData p' = Ok d /\ AFfn.EncoderBoundaryPoint p' = Ok d.
Proof. exact tpd_readback. Qed.
Print Assumptions C03_tpd_readback_partial.
Theorem C03_ext_readback_partial : forall p l hdr pay d p', repr p l hdr pay -> is_bytes d ->
  AF.step p (AF.OSetExt d) = Ok p' -> AF.AdaptationFieldExtension p' = Ok (len d :: d).
Proof. exact ext_readback. Qed.
Print Assumptions C03_ext_readback_partial.

(* "the last value set": after any further calls that do not address the field (touches k o = false: neither its
   presence toggle, nor its value setter, nor a whole-field copy) the getters of both APIs still return it *)
Theorem C03_pcr_last_set : forall p l hdr pay h1 v h2, repr p l hdr pay -> Forall op_ok (h1 ++ AF.OSetPCR v :: h2) ->
  Forall (fun o => touches 0 o = false) h2 -> AF.HasPCR (AF.run p h1) = Ok true ->
  AF.PCR (AF.run p (h1 ++ AF.OSetPCR v :: h2)) = Ok v /\ AFfn.PCR (AF.run p (h1 ++ AF.OSetPCR v :: h2)) = Ok (pcr_enc v).
Proof. exact pcr_last_set. Qed.
Print Assumptions C03_pcr_last_set.
Theorem C03_splice_last_set : forall p l hdr pay h1 v h2, repr p l hdr pay -> Forall op_ok (h1 ++ AF.OSetSplice v :: h2) ->
  Forall (fun o => touches 2 o = false) h2 -> AF.HasSplicingPoint (AF.run p h1) = Ok true ->
  AF.SpliceCountdown (AF.run p (h1 ++ AF.OSetSplice v :: h2)) = Ok (AF.int8 v) /\
  AFfn.SpliceCountdown (AF.run p (h1 ++ AF.OSetSplice v :: h2)) = Ok v.
Proof. exact splice_last_set. Qed.
Print Assumptions C03_splice_last_set.
Theorem C03_tpd_last_set_partial : forall p l hdr pay h1 d h2 p2, repr p l hdr pay -> Forall op_ok (h1 ++ AF.OSetTPD d :: h2) ->
  Forall (fun o => touches 3 o = false) h2 -> AF.step (AF.run p h1) (AF.OSetTPD d) = Ok p2 ->
  AF.TransportPrivateData (AF.run p (h1 ++ AF.OSetTPD d :: h2)) = Ok (len d :: d) /\
  AFfn.TransportPrivateData (AF.run p (h1 ++ AF.OSetTPD d :: h2)) = Ok d /\
  AFfn.EncoderBoundaryPoint (AF.run p (h1 ++ AF.OSetTPD d :: h2)) = Ok d.
Proof. exact tpd_last_set. Qed.
Print Assumptions C03_tpd_last_set_partial.

Theorem C03_opcr_last_set : forall p l hdr pay h1 v h2, repr p l hdr pay -> Forall op_ok (h1 ++ AF.OSetOPCR v :: h2) ->
  Forall (fun o => touches 1 o = false) h2 -> AF.HasOPCR (AF.run p h1) = Ok true ->
  AF.OPCR (AF.run p (h1 ++ AF.OSetOPCR v :: h2)) = Ok v /\ AFfn.OPCR (AF.run p (h1 ++ AF.OSetOPCR v :: h2)) = Ok (pcr_enc v).
Proof. exact opcr_last_set. Qed.
Print Assumptions C03_opcr_last_set.
Theorem C03_ext_last_set_partial : forall p l hdr pay h1 d h2 p2, repr p l hdr pay -> Forall op_ok (h1 ++ AF.OSetExt d :: h2) ->
  Forall (fun o => touches 4 o = false) h2 -> AF.step (AF.run p h1) (AF.OSetExt d) = Ok p2 ->
  AF.AdaptationFieldExtension (AF.run p (h1 ++ AF.OSetExt d :: h2)) = Ok (len d :: d).
Proof. exact ext_last_set. Qed.
Print Assumptions C03_ext_last_set_partial.

(* repeating a presence toggle changes nothing (on the pinned tree SetHas...(true) twice zeroed the length of a populated
   field: F5), and copying a packet's adaptation field onto itself changes nothing *)
Theorem C03_toggle_idempotent : forall p l hdr pay o p1, repr p l hdr pay -> is_toggle o = true ->
  AF.step p o = Ok p1 -> AF.step p1 o = Ok p1.
Proof. exact toggle_idempotent. Qed.
Print Assumptions C03_toggle_idempotent.
Theorem C03_self_copy_identity : forall p l hdr pay, repr p l hdr pay -> AF.step p (AF.OSetAF p) = Ok p.
Proof. exact self_copy_identity. Qed.
Print Assumptions C03_self_copy_identity.

(* SetPCR/SetOPCR write the ISO layout of the value (33-bit base, 6 reserved bits set, 9-bit extension) *)
Theorem C03_pcr_layout : forall v, v < PcrMax -> Pcr.pcr6 v = pcr_enc v.
Proof. exact pcr6_enc. Qed.
Print Assumptions C03_pcr_layout.
Theorem C03_pcr_roundtrip : forall v, v < PcrMax -> pcr_dec (pcr_enc v) = v.
Proof. exact pcr_dec_enc. Qed.
Print Assumptions C03_pcr_roundtrip.

(* for C05: on ANY 188 bytes no setter, getter or function-style accessor panics (repaired code) *)
Theorem C03_total_any_packet : forall p o, length p = 188%nat -> op_total o ->
  AF.step p o <> Panic /\ AF.step p o <> Diverge.
Proof. exact step_total. Qed.
Print Assumptions C03_total_any_packet.
Theorem C03_getters_total_any_packet : forall p, length p = 188%nat -> getters_total p.
Proof. exact getters_total_any. Qed.
Print Assumptions C03_getters_total_any_packet.

(* The defects F5 and F6 of the PINNED tree, re-established on a transliteration of the pinned functions
   (Model/AFPinned.v): on these well-formed packets the pinned code breaks the refinement resp. refuses a call whose
   result fits.  The witnesses are corpus/C03/known-defects.txt lines 1 and 5; /repo answers exactly what
   AFPinned computes (notes/findings/C03.md), the repaired code (module AF) satisfies the theorems above. *)
Theorem C03_F5_pinned_refuted : exists p l hdr pay p', repr p l hdr pay /\
  AFPinned.SetHasTransportPrivateData p false = Ok p' /\
  ~ (exists l', op_rel l (AF.OSetHasTPD false) (Done l') /\ repr p' l' hdr pay).
Proof. exact F5_refuted. Qed.
Print Assumptions C03_F5_pinned_refuted.
Theorem C03_F6_pinned_refuted : exists p l hdr pay d, repr p l hdr pay /\ is_bytes d /\
  (exists l', op_rel l (AF.OSetTPD d) (Done l')) /\
  AFPinned.SetTransportPrivateData p d = Err E.AdaptationFieldCannotGrow /\
  (exists p', AF.SetTransportPrivateData p d = Ok p').
Proof. exact F6_refuted. Qed.
Print Assumptions C03_F6_pinned_refuted.

(* F11, adaptation-field part: a garbage length byte makes the pinned getters and resizeAF panic; the repaired
   code answers ErrInvalidPacketLength (and never panics: C03_total_any_packet).  corpus/C03/garbage-lengths.txt *)
Theorem C03_F11_pinned_panics : length garbage_p = 188%nat /\ is_bytes garbage_p /\
  AFPinned.TransportPrivateData garbage_p = Panic /\ AFPinned.AdaptationFieldExtension garbage_p = Panic /\
  AFPinned.fnTransportPrivateData garbage_p = Panic /\
  AFPinned.SetHasTransportPrivateData garbage_p false = Panic /\
  AF.TransportPrivateData garbage_p = Err E.InvalidPacketLength /\
  AF.AdaptationFieldExtension garbage_p = Err E.InvalidPacketLength /\
  AF.SetHasTransportPrivateData garbage_p false = Err E.InvalidPacketLength.
Proof. exact F11_af_pinned_panics. Qed.
Print Assumptions C03_F11_pinned_panics.

(* exactly when the pinned slice getters panic on an arbitrary 188-byte packet (the complement is what the C05
   guards test) *)
Theorem C03_pinned_TPD_getter_panics_iff : forall p, length p = 188%nat ->
  (AFPinned.TransportPrivateData p = Panic <->
   AF.valid p = Ok tt /\ AF.hasTransportPrivateData p = true /\ 188 < AF.adaptationExtensionStart p).
Proof. exact pinned_TPD_panic_iff. Qed.
Print Assumptions C03_pinned_TPD_getter_panics_iff.
Theorem C03_pinned_Ext_getter_panics_iff : forall p, length p = 188%nat ->
  (AFPinned.AdaptationFieldExtension p = Panic <->
   AF.valid p = Ok tt /\ AF.hasAdaptationFieldExtension p = true /\ 188 < AF.stuffingStart p).
Proof. exact pinned_Ext_panic_iff. Qed.
Print Assumptions C03_pinned_Ext_getter_panics_iff.
Theorem C03_pinned_fnTPD_panics_iff : forall p, length p = 188%nat ->
  (AFPinned.fnTransportPrivateData p = Panic <->
   bit (nthN p 5) 2 = true /\
   let off := AF.transportPrivateDataStart p + 1 in
   let hi := w8 (off + nthN p (AF.transportPrivateDataStart p)) in (hi < off \/ 188 < hi)).
Proof. exact pinned_fnTPD_panic_iff. Qed.
Print Assumptions C03_pinned_fnTPD_panics_iff.

(* non-vacuity: a populated field next to a payload satisfies the hypotheses, and a history that removes
   populated private data, refills to capacity and is refused one byte later behaves as stated *)
Example C03_nonvacuous :
  repr ex_p ex_l ex_hdr ex_pay /\ Forall op_ok ex_hist /\
  AF.run ex_p ex_hist = ex_hdr ++ ser_laf ex_l_final ++ ex_pay /\ fits ex_l_final /\
  AF.step (AF.run ex_p ex_hist) (AF.OSetExt [1; 2; 3; 4; 5; 6; 7; 8; 9; 10]) = Err E.AdaptationFieldCannotGrow.
Proof. exact ex_nonvacuous. Qed.
