(* C15 — PTS arithmetic is consistent modulo 2^33 across rollover.
   This file holds only the property statements; proofs live in Proofs/PtsArith.v. *)
From Gots Require Import Base.Prelude Model.Pts Proofs.PtsArith.
Import Pts.
Local Open Scope N_scope.
Notation T33 := 8589934592 (only parsing).
Notation W := 162000000 (only parsing).

Theorem C15_rolled_over_iff : forall p q, p < T33 -> q < T33 ->
  (rolled_over p q = true <-> p < W /\ q > T33 - 1 - W).
Proof. exact rolled_over_iff. Qed.
Print Assumptions C15_rolled_over_iff.

Theorem C15_add_mod : forall p d, p < T33 -> d <= W -> add p d = (p + d) mod T33.
Proof. exact add_mod. Qed.
Print Assumptions C15_add_mod.

Theorem C15_add_after : forall p d, p < T33 -> 1 <= d <= W ->
  after (add p d) p = true /\ after p (add p d) = false.
Proof. exact add_after. Qed.
Print Assumptions C15_add_after.

Theorem C15_rolled_iff_wrapped : forall p d, p < T33 -> 1 <= d <= W ->
  (rolled_over (add p d) p = true <-> T33 <= p + d).
Proof. exact rolled_iff_wrapped. Qed.
Print Assumptions C15_rolled_iff_wrapped.

Theorem C15_duration_both_orders : forall p d, p < T33 -> 1 <= d <= W ->
  duration_from (add p d) p = d /\ duration_from p (add p d) = d.
Proof. exact duration_both_orders. Qed.
Print Assumptions C15_duration_both_orders.

Theorem C15_after_trichotomy : forall p q, p < T33 -> q < T33 ->
  (after p q = true /\ after q p = false /\ p <> q) \/
  (after p q = false /\ after q p = true /\ p <> q) \/
  (after p q = false /\ after q p = false /\ p = q).
Proof. exact after_trichotomy. Qed.
Print Assumptions C15_after_trichotomy.

Theorem C15_after_irrefl : forall p, p < T33 -> after p p = false.
Proof. exact after_irrefl. Qed.
Print Assumptions C15_after_irrefl.

Theorem C15_after_asym : forall p q, p < T33 -> q < T33 -> after p q = true -> after q p = false.
Proof. exact after_asym. Qed.
Print Assumptions C15_after_asym.

Theorem C15_ge_iff : forall p q, greater_or_equal p q = true <-> (after p q = true \/ p = q).
Proof. exact ge_iff. Qed.
Print Assumptions C15_ge_iff.

Theorem C15_duration_sym : forall p q, p < T33 -> q < T33 -> duration_from p q = duration_from q p.
Proof. exact duration_sym. Qed.
Print Assumptions C15_duration_sym.

Theorem C15_duration_zero_iff : forall p q, p < T33 -> q < T33 -> (duration_from p q = 0 <-> p = q).
Proof. exact duration_zero_iff. Qed.
Print Assumptions C15_duration_zero_iff.

Theorem C15_after_neg_inf : forall p, p < T33 -> after p NegInf = true.
Proof. exact after_neg_inf. Qed.
Print Assumptions C15_after_neg_inf.

Theorem C15_not_after_pos_inf : forall p, after p PosInf = false.
Proof. exact not_after_pos_inf. Qed.
Print Assumptions C15_not_after_pos_inf.

(* non-vacuity: the hypotheses are met by concrete values on both sides of the wrap *)
Example C15_nonvacuous :
  8589934000 < T33 /\ 1 <= 1000 <= W /\ add 8589934000 1000 = 408 /\ rolled_over 408 8589934000 = true
  /\ after 408 8589934000 = true /\ duration_from 8589934000 408 = 1000.
Proof. repeat split; try reflexivity; try lia. Qed.
