(* ExtraPkt — package packet: NewAdaptationField, Packet.AdaptationField (method), constants, test packets, the small writer adapters.
   Property-support file of the coverage round (notes/coverage.md): statements only; proofs in Proofs/ExtraLemmas.v.
   These are small facts about exported identifiers that none of the twenty properties states; the finite ones are
   decided by vm_compute over the COMPLETE table.  None is `_partial`. *)
From Gots Require Import Base.Prelude.
From Gots Require Import Model.Pts Model.Packet Model.Create Model.Psi Model.Pmt Model.PmtDesc Model.StreamType Model.Pes
  Model.Ebp Model.IO Model.PacketWriter Model.Scte Model.ScteEnc Model.SegDesc Model.Printers Model.Errors Model.Pat Proofs.ExtraLemmas.
Local Open Scope N_scope.

Theorem Extra_new_adaptation_field :
  exists p, Packet.NewAdaptationField = Ok p /\ length p = 188%nat /\ Packet.AdaptationFieldControl p = Packet.Consts.AdaptationFieldFlag /\
            Packet.HasAdaptationField p = true /\ Packet.HasPayload p = false /\ Packet.AFP.Length p = 183 /\
            Packet.PID_m p = Packet.NullPacketPid /\ nthN p 0 = Packet.SyncByte /\ nthN p 5 = 0 /\
            skipn 6 p = repeat 255 182.
Proof. exact new_adaptation_field. Qed.
Print Assumptions Extra_new_adaptation_field.

Theorem Extra_adaptation_field_view :
  forall p,
  (Packet.HasAdaptationField p = true -> Packet.AdaptationField_m p = Ok p) /\
  (Packet.HasAdaptationField p = false -> Packet.AdaptationField_m p = Err E.NoAdaptationField).
Proof. exact adaptation_field_view. Qed.
Print Assumptions Extra_adaptation_field_view.

Theorem Extra_packet_constants :
  Packet.Consts.PayloadFlag = 1 /\ Packet.Consts.AdaptationFieldFlag = 2 /\ Packet.Consts.PayloadAndAdaptationFieldFlag = 3 /\
  Packet.Consts.PayloadAndAdaptationFieldFlag = N.lor Packet.Consts.PayloadFlag Packet.Consts.AdaptationFieldFlag /\
  Packet.AdaptationFieldControl Packet.New = Packet.Consts.PayloadFlag /\
  Packet.TransportScramblingControl Packet.New = Packet.Consts.NoScrambleFlag /\
  NoDup [Packet.Consts.NoScrambleFlag; Packet.Consts.ScrambleEvenKeyFlag; Packet.Consts.ScrambleOddKeyFlag].
Proof. exact packet_constants. Qed.
Print Assumptions Extra_packet_constants.

Theorem Extra_test_packets :
  length Create.TestPatPacket = 188%nat /\ length Create.TestPmtPacket = 188%nat /\
  Packet.PID_m Create.TestPatPacket = 0 /\ Packet.IsPAT_m Create.TestPatPacket = true /\
  Packet.PID_m Create.TestPmtPacket = 100 /\
  Packet.PayloadUnitStartIndicator_m Create.TestPatPacket = true /\ Packet.PayloadUnitStartIndicator_m Create.TestPmtPacket = true /\
  (let? pat := Pat.new_pat Create.TestPatPacket in Pat.program_map pat) = Ok [(1, 100)].
Proof. exact test_packets. Qed.
Print Assumptions Extra_test_packets.

Theorem Extra_writer_adapters :
  forall (f : PacketWriter.wfun) k p c,
  PacketWriter.packet_writer_func f k p = f k p /\ PacketWriter.nop_closer_write f k p = f k p /\
  PacketWriter.nop_closer_close = None /\ PacketWriter.io_writer_close = None /\ PacketWriter.io_write_closer_close c = c.
Proof. exact writer_adapters. Qed.
Print Assumptions Extra_writer_adapters.
