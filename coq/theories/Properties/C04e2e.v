(* C04, end-to-end clause: "a PCR or OPCR set on an adaptation field ... [is] read back unchanged".
   The adaptation-field model and its proofs belong to C03; this file restates, under C04's name, exactly the
   theorems of Properties/C03.v that carry the clause (the PES half of the clause is C04_/C11_ in C04.v, C11.v).
   Statements only: each theorem has, verbatim, the type of the C03 theorem named in its proof (printed by the
   Check commands at the end of this file). *)
From Gots Require Import Base.Prelude Properties.C03.

(* one step: after SetPCR v on any well-formed packet both getter APIs return v (method API: the value,
   function-style API: its six ISO bytes) *)
Theorem C04_af_pcr_readback : ltac:(let t := type of C03_pcr_readback in exact t).
Proof. exact C03_pcr_readback. Qed.
Theorem C04_af_opcr_readback : ltac:(let t := type of C03_opcr_readback in exact t).
Proof. exact C03_opcr_readback. Qed.
(* any history: the last value set is what is read back, whatever else (not touching that field) follows *)
Theorem C04_af_pcr_last_set : ltac:(let t := type of C03_pcr_last_set in exact t).
Proof. exact C03_pcr_last_set. Qed.
Theorem C04_af_opcr_last_set : ltac:(let t := type of C03_opcr_last_set in exact t).
Proof. exact C03_opcr_last_set. Qed.
Theorem C04_af_pcr_layout : ltac:(let t := type of C03_pcr_layout in exact t).
Proof. exact C03_pcr_layout. Qed.
Theorem C04_af_pcr_roundtrip : ltac:(let t := type of C03_pcr_roundtrip in exact t).
Proof. exact C03_pcr_roundtrip. Qed.
Print Assumptions C04_af_pcr_readback.
Print Assumptions C04_af_opcr_readback.
Print Assumptions C04_af_pcr_last_set.
Print Assumptions C04_af_opcr_last_set.
Print Assumptions C04_af_pcr_layout.
Print Assumptions C04_af_pcr_roundtrip.
Check C04_af_pcr_readback. Check C04_af_opcr_readback. Check C04_af_pcr_last_set. Check C04_af_opcr_last_set.
