(* C05 — SCTE-35 decoder on ANY byte string: a value or an error, never a panic, never non-termination
   (both loops carry fuel in the model and are proved not to exhaust it).  Proofs in Proofs/ScteTotal.v.
   Re-encoding a decoded object (UpdateData) is a plain total Gallina function in Model/ScteEnc.v. *)
From Gots Require Import Base.Prelude Model.Scte Proofs.ScteTotal.
Import Scte.
Local Open Scope N_scope.

Theorem C05_new_scte35_total : forall data, is_bytes data ->
  new_scte35 data <> Panic /\ new_scte35 data <> Diverge.
Proof. intros data H. apply fine_spec. apply new_scte35_total. exact H. Qed.
Print Assumptions C05_new_scte35_total.

(* the segmentation-descriptor parser alone, on any descriptor body (this is where the last panic sites were) *)
Theorem C05_parse_descriptor_total : forall o data,
  parse_descriptor o data <> Panic /\ parse_descriptor o data <> Diverge.
Proof. intros o data. apply fine_spec. apply parse_descriptor_fine. Qed.
Print Assumptions C05_parse_descriptor_total.
