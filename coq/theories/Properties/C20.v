(* C20 — stream-type classification and PMT descriptor decoders match their definitions.
   Statements only; proofs in Proofs/StreamType.v (finite reflection over the 256 codes) and
   Proofs/StreamTypeDesc.v (descriptor bodies).  Code lists and body layouts: Spec/StreamTypes.v.
   Go strings are byte lists; `mk tag body` is NewPmtDescriptor(tag, body). *)
From Gots Require Import Base.Prelude Model.StreamType Model.PmtDesc Spec.StreamTypes
  Proofs.StreamType Proofs.StreamTypeDesc.
Import StreamTypesSpec.
Local Open Scope N_scope.

(* ---- the 256 stream types ---- *)
Theorem C20_lookup_code : forall c, c < 256 ->
  StreamType.stream_type (StreamType.lookup c) = c /\
  StreamType.nonempty (StreamType.stream_type_description (StreamType.lookup c)) = true.
Proof. exact lookup_code_and_desc. Qed.
Print Assumptions C20_lookup_code.

Theorem C20_audio_iff : forall c, c < 256 ->
  (StreamType.is_audio_content (StreamType.lookup c) = true <-> In c [0x0F; 0x81; 0x87]).
Proof. exact audio_iff. Qed.
Print Assumptions C20_audio_iff.

Theorem C20_video_iff : forall c, c < 256 ->
  (StreamType.is_video_content (StreamType.lookup c) = true <-> In c [0x02; 0x1B; 0x24]).
Proof. exact video_iff. Qed.
Print Assumptions C20_video_iff.

Theorem C20_scte35_iff : forall c, c < 256 ->
  (StreamType.is_scte35_content (StreamType.lookup c) = true <-> In c [0x86]).
Proof. exact scte35_iff. Qed.
Print Assumptions C20_scte35_iff.

Theorem C20_id3_iff : forall c, c < 256 ->
  (StreamType.is_id3_content (StreamType.lookup c) = true <-> In c [0x15]).
Proof. exact id3_iff. Qed.
Print Assumptions C20_id3_iff.

Theorem C20_private_iff : forall c, c < 256 ->
  (StreamType.is_private_content (StreamType.lookup c) = true <-> In c [0x06]).
Proof. exact private_iff. Qed.
Print Assumptions C20_private_iff.

Theorem C20_lags_ebp_iff : forall c, c < 256 ->
  (StreamType.is_stream_where_presentation_lags_ebp (StreamType.lookup c) = true
   <-> In c [0x03; 0x04; 0x0F; 0x11; 0x81; 0x87; 0x88]).
Proof. exact lags_ebp_iff. Qed.
Print Assumptions C20_lags_ebp_iff.

(* PMT-level query by PID = what the stream-type predicate reports for the first stream of that PID *)
Theorem C20_pmt_lags_by_pid : forall streams pid, wf_streams streams ->
  StreamType.pmt_lags_by_pid streams (Z.of_N pid) = pmt_lags streams pid.
Proof. exact pmt_lags_by_pid_spec. Qed.
Print Assumptions C20_pmt_lags_by_pid.

Theorem C20_pmt_lags_by_pid_first : forall pre pid st post,
  wf_streams (pre ++ (pid, st) :: post) -> ~ In pid (map fst pre) ->
  (StreamType.pmt_lags_by_pid (pre ++ (pid, st) :: post) (Z.of_N pid) = true
   <-> In st [0x03; 0x04; 0x0F; 0x11; 0x81; 0x87; 0x88]).
Proof. exact pmt_lags_by_pid_first. Qed.
Print Assumptions C20_pmt_lags_by_pid_first.

Theorem C20_pmt_lags_by_pid_absent : forall streams pid,
  wf_streams streams -> ~ In pid (map fst streams) -> StreamType.pmt_lags_by_pid streams (Z.of_N pid) = false.
Proof. exact pmt_lags_by_pid_absent. Qed.
Print Assumptions C20_pmt_lags_by_pid_absent.

(* ---- descriptor decoders on every well-formed body ---- *)
Theorem C20_max_bitrate : forall res rate rest, res < 4 -> rate < 2097152 ->
  PmtDesc.decode_maximum_bit_rate (PmtDesc.mk 0x0E (ser_max_bitrate res rate ++ rest)) = Ok rate.
Proof. exact max_bitrate_c20. Qed.
Print Assumptions C20_max_bitrate.

(* the stream's bit rate = that value x 50 x 8, taken from its first maximum-bitrate descriptor *)
Theorem C20_stream_max_bit_rate : forall pre res rate rest post, res < 4 -> rate < 2097152 ->
  Forall (fun d => PmtDesc.tag d <> 0x0E) pre ->
  PmtDesc.max_bit_rate (pre ++ PmtDesc.mk 0x0E (ser_max_bitrate res rate ++ rest) :: post) = Ok (rate * 50 * 8).
Proof. exact stream_max_bit_rate_c20. Qed.
Print Assumptions C20_stream_max_bit_rate.

Theorem C20_iso639 : forall l a more, length l = 3%nat -> is_bytes l ->
  PmtDesc.decode_iso639_language_code (PmtDesc.mk 0x0A (ser_iso639 ((l, a) :: more))) = Ok l /\
  PmtDesc.decode_iso639_audio_type (PmtDesc.mk 0x0A (ser_iso639 ((l, a) :: more))) = Ok a.
Proof. exact iso639_c20. Qed.
Print Assumptions C20_iso639.

(* the same with ANY bytes after the first entry (e.g. a truncated second entry) *)
Theorem C20_iso639_any_tail : forall l a rest, length l = 3%nat -> is_bytes l ->
  PmtDesc.decode_iso639_language_code (PmtDesc.mk 0x0A (l ++ a :: rest)) = Ok l /\
  PmtDesc.decode_iso639_audio_type (PmtDesc.mk 0x0A (l ++ a :: rest)) = Ok a.
Proof. exact iso639_any_tail. Qed.
Print Assumptions C20_iso639_any_tail.

Theorem C20_ttml : forall l purpose suit rest, wf_ttml l purpose suit rest ->
  let d := PmtDesc.mk 0x7F (ser_ttml l purpose suit rest) in
  PmtDesc.decode_ttml_iso639_language_code d = Ok l /\ PmtDesc.decode_ttml_subtitle_purpose d = Ok purpose /\
  PmtDesc.is_ttml_subtitling_descriptor d = true /\ PmtDesc.is_ttml_desc_tag_extension d = true.
Proof. exact ttml. Qed.
Print Assumptions C20_ttml.

Theorem C20_is_dovi_iff : forall fid rest, length fid = 4%nat -> is_bytes fid ->
  exists b, PmtDesc.is_dolby_vision (PmtDesc.mk 0x05 (ser_registration fid rest)) = Ok b /\
            (b = true <-> fid = [0x44; 0x4F; 0x56; 0x49]).
Proof. exact is_dovi_iff. Qed.
Print Assumptions C20_is_dovi_iff.

(* "dvhe.PP.LL": dv_codec is "dvhe." ++ dec2 profile ++ "." ++ dec2 level (Spec), dec2 = %02d *)
Theorem C20_dv_codec : forall major minor profile level flags rest, wf_dv major minor profile level flags ->
  PmtDesc.decode_dolby_vision_codec (PmtDesc.mk 0xB0 (ser_dv major minor profile level flags rest))
  = Ok (dv_codec profile level).
Proof. exact dv_codec_ok. Qed.
Print Assumptions C20_dv_codec.

Theorem C20_dv_codec_two_digits : forall profile level, profile < 100 -> level < 32 ->
  dv_codec profile level =
  [100; 118; 104; 101; 46; 48 + profile / 10; 48 + profile mod 10; 46; 48 + level / 10; 48 + level mod 10].
Proof. exact dv_codec_shape. Qed.
Print Assumptions C20_dv_codec_two_digits.

Theorem C20_fmt02d : forall n, n < 256 -> PmtDesc.fmt02d n = dec2 n.
Proof. exact fmt02d_dec2. Qed.
Print Assumptions C20_fmt02d.

(* ---- a decoder applied to a descriptor of another tag returns its neutral value (any body) ---- *)
Theorem C20_wrong_tag_neutral : forall d,
  (PmtDesc.tag d <> 0x0E -> PmtDesc.decode_maximum_bit_rate d = Ok 0) /\
  (PmtDesc.tag d <> 0x0A -> PmtDesc.decode_iso639_language_code d = Ok []) /\
  (PmtDesc.tag d <> 0x0A -> PmtDesc.decode_iso639_audio_type d = Ok 0) /\
  (PmtDesc.tag d <> 0x7F -> PmtDesc.decode_ttml_iso639_language_code d = Ok []) /\
  (PmtDesc.tag d <> 0x7F -> PmtDesc.decode_ttml_subtitle_purpose d = Ok 0xFF) /\
  (PmtDesc.tag d <> 0x05 -> PmtDesc.is_dolby_vision d = Ok false) /\
  (PmtDesc.tag d <> 0xB0 -> PmtDesc.decode_dolby_vision_codec d = Ok []).
Proof. exact wrong_tag_neutral. Qed.
Print Assumptions C20_wrong_tag_neutral.

Theorem C20_stream_without_descriptor : forall ds,
  (Forall (fun d => PmtDesc.tag d <> 0x0E) ds -> PmtDesc.max_bit_rate ds = Ok 0) /\
  (Forall (fun d => PmtDesc.tag d <> 0x7F) ds -> PmtDesc.is_ttml_subtitling ds = false).
Proof. exact stream_without_descriptor. Qed.
Print Assumptions C20_stream_without_descriptor.

(* IsTTMLSubtitling holds exactly when some descriptor has tag 0x7F and descriptor_tag_extension 0x20 *)
Theorem C20_stream_ttml_iff : forall ds,
  PmtDesc.is_ttml_subtitling ds = true <->
  exists d rest, In d ds /\ PmtDesc.tag d = 0x7F /\ PmtDesc.data d = 0x20 :: rest.
Proof. exact stream_ttml_iff. Qed.
Print Assumptions C20_stream_ttml_iff.

(* a negative PID (the Go argument is an int) is in no PMT *)
Theorem C20_pmt_lags_by_pid_negative : forall streams pid, (pid < 0)%Z -> StreamType.pmt_lags_by_pid streams pid = false.
Proof. exact pmt_lags_negative. Qed.
Print Assumptions C20_pmt_lags_by_pid_negative.

(* F12 (DESIGN section 7): DecodeIso639AudioType as it stands in the pinned tree has no tag test and
   violates wrong_tag_neutral; the model above is the repaired function.  Replay: `st.desc 0 x00000001`. *)
Theorem C20_wrong_tag_neutral_unrepaired_refuted :
  exists d, PmtDesc.tag d <> 0x0A /\ PmtDesc.audio_type_unrepaired d = Ok 1 /\ PmtDesc.decode_iso639_audio_type d = Ok 0.
Proof. exact audio_type_unrepaired_refuted. Qed.
Print Assumptions C20_wrong_tag_neutral_unrepaired_refuted.

(* non-vacuity: concrete well-formed bodies *)
Example C20_nonvacuous :
  wf_ttml [101; 110; 103] 0x10 1 [7] /\ wf_dv 1 0 8 6 5 /\
  PmtDesc.decode_maximum_bit_rate (PmtDesc.mk 0x0E (ser_max_bitrate 3 2097151)) = Ok 2097151 /\
  ser_max_bitrate 3 2097151 = [0xDF; 0xFF; 0xFF] /\
  PmtDesc.decode_dolby_vision_codec (PmtDesc.mk 0xB0 (ser_dv 1 0 8 6 5 [])) = Ok [100; 118; 104; 101; 46; 48; 56; 46; 48; 54] /\
  PmtDesc.decode_ttml_subtitle_purpose (PmtDesc.mk 0x7F (ser_ttml [101; 110; 103] 0x10 1 [7])) = Ok 0x10 /\
  StreamType.pmt_lags_by_pid [(33, 27); (34, 0x0F); (34, 27)] 34 = true.
Proof. unfold wf_ttml, wf_dv, lang3, is_bytes, is_byte. repeat split; try reflexivity; try lia; repeat constructor. Qed.
