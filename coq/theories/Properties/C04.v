(* C04 — PCR and PTS/DTS codecs are exact, bit-positioned per ISO 13818-1, and round-trip.
   Models: Model/PcrCodec.v (pcr.go), Model/Pts.v (pts.go: ExtractTime, InsertPTS), Model/Pes.v
   (pes.ExtractTime, the second decoder).  Spec: Spec/TimestampSpec.v (48-bit / 40-bit fields of the
   standard).  Statements only; proofs in Proofs/PcrPts.v.
   The end-to-end clause for PCR/OPCR inside an adaptation field is stated in C03 (adaptation-field
   model); the end-to-end clause for PTS/DTS inside a PES header is C11_pes_pts_dts_readback. *)
From Gots Require Import Base.Prelude Model.Pts Model.PcrCodec Model.Pes Spec.TimestampSpec Proofs.PcrPts
  Proofs.PesDecode Proofs.PesCreate.
Import TsSpec.
Local Open Scope N_scope.
Notation PCR_MAX := (8589934592 * 300) (only parsing).   (* 2^33 * 300 *)
Notation T33 := 8589934592 (only parsing).

(* ---------------- PCR ---------------- *)
(* any value below 2^33*300 written into any target of at least six bytes reads back unchanged *)
Theorem C04_pcr_roundtrip : forall v old, v < PCR_MAX -> (6 <= length old)%nat ->
  exists b, PcrCodec.insert_pcr old v = Ok b /\ PcrCodec.extract_pcr b = Ok v.
Proof. exact pcr_roundtrip. Qed.
Print Assumptions C04_pcr_roundtrip.

(* the written bytes, as byte equations (pcr_bytes: base = v/300 in bits 47..15, six reserved bits = 1
   (the summand 126 = 0b01111110 of byte 4), ext = v mod 300 in bits 8..0), followed by the untouched tail;
   holds for every uint64 argument *)
Theorem C04_pcr_layout : forall v old, v < 18446744073709551616 -> (6 <= length old)%nat ->
  PcrCodec.insert_pcr old v = Ok (pcr_bytes v ++ skipn 6 old).
Proof. exact pcr_layout. Qed.
Print Assumptions C04_pcr_layout.

(* the byte equations are the 48-bit field  base(33) | 111111 | ext(9)  of ISO 13818-1 cut into bytes *)
Theorem C04_pcr_layout_is_iso_field : forall v, v < PCR_MAX -> ser_pcr v = pcr_bytes v.
Proof. exact ser_pcr_bytes. Qed.
Print Assumptions C04_pcr_layout_is_iso_field.

(* no byte beyond the six is touched and the length is kept, for every argument and every target *)
Theorem C04_pcr_insert_touches_only : forall old v b, PcrCodec.insert_pcr old v = Ok b ->
  length b = length old /\ skipn 6 b = skipn 6 old.
Proof. exact insert_pcr_touches_only. Qed.
Print Assumptions C04_pcr_insert_touches_only.

(* the decoder on arbitrary bytes: only the value bits enter *)
Theorem C04_pcr_decode_arith : forall a b c d e f rest, is_bytes [a; b; c; d; e; f] ->
  PcrCodec.extract_pcr (a :: b :: c :: d :: e :: f :: rest) = Ok (pcr_value a b c d e f).
Proof. exact pcr_decode_arith. Qed.
Print Assumptions C04_pcr_decode_arith.

(* overwriting the six reserved bits with any pattern r does not change the decoded value (any input) *)
Theorem C04_pcr_decode_ignores_reserved : forall b r, r < 64 ->
  PcrCodec.extract_pcr (set_reserved r b) = PcrCodec.extract_pcr b.
Proof. exact pcr_decode_ignores_reserved. Qed.
Print Assumptions C04_pcr_decode_ignores_reserved.

(* flipping any single reserved bit (bits 6..1 of byte 4) does not change the decoded value *)
Theorem C04_pcr_decode_ignores_reserved_flip : forall b k, 1 <= k <= 6 ->
  PcrCodec.extract_pcr (flip_bit b 4 k) = PcrCodec.extract_pcr b.
Proof. exact pcr_decode_ignores_reserved_flip. Qed.
Print Assumptions C04_pcr_decode_ignores_reserved_flip.

(* exactness in the other direction: a canonical field (reserved bits 1, extension < 300) re-encodes to itself *)
Theorem C04_pcr_reencode : forall a b c d e f rest, is_bytes [a; b; c; d; e; f] ->
  (e / 2) mod 64 = 63 -> (e mod 2) * 256 + f < 300 ->
  PcrCodec.insert_pcr (a :: b :: c :: d :: e :: f :: rest) (pcr_value a b c d e f)
  = Ok (a :: b :: c :: d :: e :: f :: rest).
Proof. exact pcr_reencode. Qed.
Print Assumptions C04_pcr_reencode.

(* when the codecs do not return (C05): exactly on targets / inputs that are too short *)
Theorem C04_pcr_panics_iff_short : forall b v,
  (PcrCodec.insert_pcr b v = Panic <-> (length b < 6)%nat) /\ (PcrCodec.extract_pcr b = Panic <-> (length b < 6)%nat).
Proof. exact pcr_panics_iff_short. Qed.
Print Assumptions C04_pcr_panics_iff_short.

(* ---------------- PTS / DTS ---------------- *)
(* any 33-bit value written into any target of at least five bytes reads back unchanged through BOTH decoders *)
Theorem C04_pts_roundtrip : forall v old, v < T33 -> (5 <= length old)%nat ->
  exists b, Pts.insert_pts old v = Ok b /\ Pts.extract_time b = Ok v /\ Pes.extract_time b = Ok v.
Proof. exact pts_roundtrip. Qed.
Print Assumptions C04_pts_roundtrip.

(* byte equations (ts_bytes 2: prefix '0010', slices 3+15+15, the three marker bits = 1) and untouched tail;
   holds for every argument (bits above 32 are dropped) *)
Theorem C04_pts_layout : forall v old, (5 <= length old)%nat ->
  Pts.insert_pts old v = Ok (ts_bytes 2 v ++ skipn 5 old).
Proof. exact pts_layout. Qed.
Print Assumptions C04_pts_layout.

Theorem C04_pts_layout_is_iso_field : forall p v, p < 16 -> v < T33 -> ser_ts p v = ts_bytes p v.
Proof. exact ser_ts_bytes. Qed.
Print Assumptions C04_pts_layout_is_iso_field.

Theorem C04_pts_insert_touches_only : forall old v b, Pts.insert_pts old v = Ok b ->
  length b = length old /\ skipn 5 b = skipn 5 old.
Proof. exact insert_pts_touches_only. Qed.
Print Assumptions C04_pts_insert_touches_only.

Theorem C04_pts_decode_arith : forall b0 b1 b2 b3 b4 rest, is_bytes [b0; b1; b2; b3; b4] ->
  Pts.extract_time (b0 :: b1 :: b2 :: b3 :: b4 :: rest) = Ok (ts_value b0 b1 b2 b3 b4).
Proof. exact pts_decode_arith. Qed.
Print Assumptions C04_pts_decode_arith.

(* overwriting the 4-bit prefix and the three marker bits with anything does not change the decoded value *)
Theorem C04_pts_decode_ignores_markers : forall b p m1 m2 m3, m1 < 2 -> m2 < 2 -> m3 < 2 ->
  Pts.extract_time (set_markers p m1 m2 m3 b) = Pts.extract_time b.
Proof. exact pts_decode_ignores_markers. Qed.
Print Assumptions C04_pts_decode_ignores_markers.

(* flipping any single prefix / marker bit: byte 0 bits 7..4 and 0, byte 2 bit 0, byte 4 bit 0 *)
Theorem C04_pts_decode_ignores_marker_flip : forall b i k,
  ((i = 0 /\ (k = 0 \/ 4 <= k <= 7)) \/ (i = 2 /\ k = 0) \/ (i = 4 /\ k = 0)) ->
  Pts.extract_time (flip_bit b i k) = Pts.extract_time b.
Proof. exact pts_decode_ignores_marker_flip. Qed.
Print Assumptions C04_pts_decode_ignores_marker_flip.

(* gots.ExtractTime and pes.ExtractTime agree on EVERY input (both panic on fewer than five bytes) *)
Theorem C04_pts_decoders_agree : forall b, Pts.extract_time b = Pes.extract_time b.
Proof. exact pts_decoders_agree. Qed.
Print Assumptions C04_pts_decoders_agree.

Theorem C04_pts_reencode : forall b0 b1 b2 b3 b4 rest, is_bytes [b0; b1; b2; b3; b4] ->
  b0 / 16 = 2 -> b0 mod 2 = 1 -> b2 mod 2 = 1 -> b4 mod 2 = 1 ->
  Pts.insert_pts (b0 :: b1 :: b2 :: b3 :: b4 :: rest) (ts_value b0 b1 b2 b3 b4)
  = Ok (b0 :: b1 :: b2 :: b3 :: b4 :: rest).
Proof. exact pts_reencode. Qed.
Print Assumptions C04_pts_reencode.

Theorem C04_pts_panics_iff_short : forall b v,
  (Pts.insert_pts b v = Panic <-> (length b < 5)%nat) /\ (Pts.extract_time b = Panic <-> (length b < 5)%nat).
Proof. exact pts_panics_iff_short. Qed.
Print Assumptions C04_pts_panics_iff_short.

(* ---------------- end to end: PTS/DTS carried in a PES header ---------------- *)
(* (the PCR/OPCR-in-adaptation-field half of this clause is stated by the C03 group over the adaptation-field model) *)
(* InsertPTS at offsets 9 and 14 of the bytes of any PES start that announces PTS and DTS, then NewPESHeader *)
Theorem C04_pes_pts_dts_readback : forall b v1 v2, (19 <= length b)%nat ->
  Pes.optional_fields_exist (nthN b 3) = true -> N.shiftr (N.land (nthN b 7) 192) 6 = 3 ->
  v1 < T33 -> v2 < T33 ->
  exists b1 b2 h, Pes.put_ts b 9 v1 = Ok b1 /\ Pes.put_ts b1 14 v2 = Ok b2 /\ Pes.new_pes_header b2 = Ok h /\
    Pes.has_pts h = true /\ Pes.has_dts h = true /\ Pes.pts h = v1 /\ Pes.dts h = v2 /\
    length b2 = length b /\ firstn 9 b2 = firstn 9 b /\ skipn 19 b2 = skipn 19 b.
Proof. exact pes_pts_dts_readback. Qed.
Print Assumptions C04_pes_pts_dts_readback.

(* through the library's own builder: packet.WithPES(pkt, pts), packet.Payload / PESHeader, NewPESHeader *)
Theorem C04_with_pes_readback : forall pkt pts, length pkt = 188%nat -> pts < T33 ->
  Pes.pkt_payload_start pkt + 14 <= 188 ->
  exists pkt' pay h, Pes.with_pes pkt pts = Ok pkt' /\ length pkt' = 188%nat /\
    Pes.pkt_payload pkt' = Ok pay /\ (Pes.pkt_pusi pkt = true -> Pes.pkt_pes_header pkt' = Ok pay) /\
    Pes.new_pes_header pay = Ok h /\
    Pes.packetStartCodePrefix h = 1 /\ Pes.streamId h = 184 /\
    Pes.has_pts h = true /\ Pes.has_dts h = false /\ Pes.pts h = pts.
Proof. exact with_pes_readback. Qed.
Print Assumptions C04_with_pes_readback.

(* non-vacuity: concrete values with every slice populated (bit 32, the 15/14 boundary, extension bit 8) *)
Example C04_nonvacuous :
  PcrCodec.insert_pcr [0; 0; 0; 0; 0; 0; 170] (8589934591 * 300 + 299) = Ok [255; 255; 255; 255; 255; 43; 170]
  /\ PcrCodec.extract_pcr [255; 255; 255; 255; 255; 43; 170] = Ok (8589934591 * 300 + 299)
  /\ PcrCodec.extract_pcr [255; 255; 255; 255; 129; 43] = Ok (8589934591 * 300 + 299)
  /\ Pts.insert_pts [0; 0; 0; 0; 0; 85] 6442483712 = Ok [45; 0; 3; 0; 1; 85]
  /\ Pes.extract_time [45; 0; 3; 0; 1; 85] = Ok 6442483712
  /\ Pts.extract_time [252; 0; 2; 0; 0] = Ok 6442483712.
Proof. repeat split; vm_compute; reflexivity. Qed.
