(* Definitions for the C09 statements: the logical splice_info carried by an encoder state, and the
   states (`normal`) on which the encoder is the SCTE 35 serialiser.  No proofs here. *)
From Gots Require Import Base.Prelude Model.Pts Model.Scte Model.ScteEnc Spec.Scte35Spec.
Import Scte ScteEnc Scte35Spec.
Local Open Scope N_scope.

Definition logical_stime (has : bool) (p : N) : stime := if has then Some p else None.
Definition logical_mode (i : insert) : splice_mode :=
  if i_program i then
    (if i_immediate i then ProgImmediate else ProgTimed (logical_stime (i_has_pts i) (i_pts i)))
  else if i_immediate i then CompImmediate (map c_tag (i_components i))
  else CompTimed (map (fun c => (c_tag c, logical_stime (c_has_pts c) (c_pts c))) (i_components i)).
Definition logical_cmd (c : Scte.command) : Scte35Spec.command :=
  match c with
  | CNull => Null
  | CTime h p => TimeSignal (logical_stime h p)
  | CInsert i =>
    Insert (i_event_id i)
      (if i_cancel i then None
       else Some (mkib (i_out i) (logical_mode i)
                       (if i_has_duration i then Some (i_auto_return i, i_duration i) else None)
                       (i_unique_program_id i) (i_avail_num i) (i_avails_expected i)))
  end.
Definition logical_upid (d : segdesc) : Scte35Spec.upid :=
  if d_upid_type d =? SegUPIDMID then Multi (map (fun u => (u_type u, u_upid u)) (d_mid d))
  else Single (d_upid_type d) (d_upid d).
Definition logical_seg (d : segdesc) : descriptor :=
  Seg (d_event_id d)
    (if d_cancel d then None
     else Some (mksb (if d_program_seg d then None else Some (map (fun c => (co_tag c, co_off c)) (d_components d)))
                     (if d_has_duration d then Some (d_duration d) else None)
                     (if d_dnr d then None else Some (d_web d, d_noblackout d, d_archive d, d_device d))
                     (logical_upid d) (d_type d) (d_seg_num d) (d_segs_expected d)
                     (if ((d_type d =? 52) || (d_type d =? 54)) && d_has_sub d
                      then Some (d_sub_seg_num d, d_sub_segs_expected d) else None))).

(* fs: the foreign descriptors whose bytes the state keeps in otherDescriptorBytes *)
Definition logical0 (fs : list descriptor) (st : scte) : splice_info :=
  mksi [] (s_tid st) (s_ssi st) (s_pi st) 3 (s_protocol st) (s_encrypted st) (s_enc_alg st)
       (subtract_pts (s_pts st) (cmd_pts (s_cmd st))) (s_cw st) (s_tier st) false
       (logical_cmd (s_cmd st)) (fs ++ map logical_seg (s_descs st)) (repeatN 0 (s_stuffing st)) 0.
Definition with_crc (s : splice_info) (c : N) : splice_info :=
  mksi (si_pointer s) (si_table_id s) (si_ssi s) (si_private s) (si_sap s) (si_protocol s) (si_encrypted s)
       (si_enc_alg s) (si_pts_adj s) (si_cw s) (si_tier s) (si_legacy_len s) (si_cmd s) (si_descs s)
       (si_stuffing s) c.
(* CRC_32 = ComputeCRC of everything before it *)
Definition logical (fs : list descriptor) (st : scte) : splice_info :=
  with_crc (logical0 fs st) (crc_reg (ser_section_nocrc (logical0 fs st))).

Definition is_foreign (d : descriptor) : Prop := match d with Foreign _ _ => True | Seg _ _ => False end.

Definition normal_comp (imm : bool) (c : component) : Prop :=
  c_tag c < 256 /\ (imm = false -> c_has_pts c = true -> c_pts c < 8589934592).
Definition normal_insert (i : insert) : Prop :=
  i_event_id i < 4294967296 /\
  (i_cancel i = false ->
     (i_program i = true -> i_immediate i = false -> i_has_pts i = true -> i_pts i < 8589934592) /\
     (i_program i = false -> Forall (normal_comp (i_immediate i)) (i_components i) /\ len (i_components i) < 256) /\
     (i_has_duration i = true -> i_duration i < 8589934592) /\
     i_unique_program_id i < 65536 /\ i_avail_num i < 256 /\ i_avails_expected i < 256).
Definition normal_cmd (c : Scte.command) : Prop :=
  match c with
  | CNull => True
  | CTime h p => h = true -> p < 8589934592
  | CInsert i => normal_insert i
  end.
(* lenok: the descriptor fits its 8-bit descriptor_length *)
(* the commands the decoder accepts back: a time_signal and a timed program splice_insert must carry their time *)
Definition timed_cmd (c : Scte.command) : Prop :=
  match c with
  | CNull => True
  | CTime h _ => h = true
  | CInsert i => i_cancel i = false -> i_program i = true -> i_immediate i = false -> i_has_pts i = true
  end.

Definition normal_desc_gen (lenok : Prop) (d : segdesc) : Prop :=
  d_event_id d < 4294967296 /\
  (d_cancel d = false ->
     (d_program_seg d = false ->
        Forall (fun c => co_tag c < 256 /\ co_off c < 8589934592) (d_components d) /\ len (d_components d) < 256) /\
     (d_has_duration d = true -> d_duration d < 1099511627776) /\
     (d_dnr d = false -> d_device d < 4) /\
     d_upid_type d < 256 /\
     (d_upid_type d = SegUPIDMID ->
        d_upid d = [] /\ Forall (fun u => u_type u < 256 /\ u_len u = len (u_upid u) /\ len (u_upid u) < 256 /\ is_bytes (u_upid u)) (d_mid d)
        /\ len (flat_map mid_elem_data (d_mid d)) < 256) /\
     (d_upid_type d <> SegUPIDMID -> d_mid d = [] /\ len (d_upid d) < 256 /\ is_bytes (d_upid d)) /\
     d_type d < 256 /\ d_seg_num d < 256 /\ d_segs_expected d < 256 /\
     d_sub_seg_num d < 256 /\ d_sub_segs_expected d < 256 /\
     lenok).
Definition normal_desc (d : segdesc) : Prop := normal_desc_gen (len (seg_data d) < 258) d.

(* the states on which UpdateData is the canonical serialiser (and the decoder an inverse):
   every field within its wire width, the encoder's 10-bit section_length sufficient, the
   UPID / MID exclusivity and element lengths as maintained by the setters *)
Definition normal (fs : list descriptor) (st : scte) : Prop :=
  s_tid st < 256 /\ s_protocol st < 256 /\ s_enc_alg st < 64 /\ s_cw st < 256 /\ s_tier st < 4096 /\
  s_pts st < 8589934592 /\ cmd_pts (s_cmd st) < 8589934592 /\
  s_cmd_type st = cmd_type (s_cmd st) /\ normal_cmd (s_cmd st) /\
  Forall normal_desc (s_descs st) /\
  s_other st = ser_descriptors fs /\ Forall is_foreign fs /\
  13 + len (cmd_data (s_cmd st)) + len (s_other st ++ flat_map seg_data (s_descs st)) + 4 + s_stuffing st < 1024.
