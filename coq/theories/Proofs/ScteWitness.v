(* Witnesses and examples for Properties/C08.v and C09.v: refuted clauses (vm_compute on closed terms) and
   non-vacuity examples.  Kept here so that the property files contain statements only. *)
From Gots Require Import Base.Prelude Model.Pts Model.Scte Model.ScteEnc Spec.Scte35Spec
  Proofs.ScteExpected Proofs.ScteLogical Proofs.ScteDecode Proofs.ScteEncode Proofs.ScteRoundtrip Proofs.ScteSetters
  Proofs.ScteCanonical Proofs.ScteClean Proofs.ScteBuild.
Import Scte ScteEnc Scte35Spec.
Local Open Scope N_scope.

(* ---- the three clauses that were refuted on the code before ce48cf3 / 0cd2c00 / 0fcfd24, now as positive facts.
   Each concrete value below is the replay line of a `fixed` entry in known_findings.json. ---- *)
(* (a) a component-mode, timed splice_insert with an UNTIMED component is canonical, hence (C09_encode_decode_canonical)
   decoded and reproduced byte for byte: splice_time() without time is 0x7F on both sides *)
Definition untimed0 : splice_info :=
  mksi [] 252 false false 3 0 false 0 0 0 4095 false
       (Insert 1 (Some (mkib false (CompTimed [(7, None)]) None 0 0 0))) [] [] 0.
Definition untimed_crc : N := Eval vm_compute in crc_reg (ser_section_nocrc untimed0).
Definition untimed_section : splice_info := with_crc untimed0 untimed_crc.
Ltac canon_tac :=
  unfold canonical; split;
  [ unfold supported, wf_decode; cbn; repeat (split || constructor); cbn; try lia; try discriminate; auto
  | repeat split; try reflexivity; try (cbn; lia);
    exists []; eexists; split; [reflexivity|]; split; repeat constructor ].
Lemma w_untimed_canonical : canonical untimed_section /\
  fst (update_data (expected untimed_section)) = ser_section untimed_section /\
  nth 22 (ser_section untimed_section) 0 = 127.
Proof.
  assert (H : canonical untimed_section) by canon_tac.
  split; [exact H|]. split; [apply (encode_decode_canonical _ H)|reflexivity].
Qed.

(* (b) UPID.SetUPID through MID()[j] now updates the element's length: the getter shows the new bytes and decoding the next
   encoding returns the struct itself *)
Definition setupid_script : list sig_op :=
  [SSetDescriptors [[DSetUPIDType 13; DSetMID [(9, [1; 2])]]]; SDesc 0 (DMidSetUPID 0 [1; 2; 3; 4])].
Lemma w_mid_setupid_roundtrip :
  let st := run_script create_scte35 setupid_script in
  map (fun u => u_upid u) (get_mid (nth 0 (s_descs st) (seg0 None))) = [[1; 2; 3; 4]] /\
  new_scte35 (0 :: fst (update_data st)) = Ok (snd (update_data st)).
Proof. vm_compute. split; reflexivity. Qed.

(* (c) a splice_null with a non-zero pts_adjustment is canonical: PTS() reports the adjustment and re-encoding keeps it *)
Definition null_adj0 : splice_info :=
  mksi [] 252 false false 3 0 false 0 5 0 4095 false Null [] [] 0.
Definition null_adj_crc : N := Eval vm_compute in crc_reg (ser_section_nocrc null_adj0).
Definition null_adj_section : splice_info := with_crc null_adj0 null_adj_crc.
Lemma w_null_adjustment_kept : canonical null_adj_section /\
  fst (update_data (expected null_adj_section)) = ser_section null_adj_section /\ s_pts (expected null_adj_section) = 5.
Proof.
  assert (H : canonical null_adj_section) by canon_tac.
  split; [exact H|]. split; [apply (encode_decode_canonical _ H)|reflexivity].
Qed.

(* ---- non-vacuity of `canonical`: component-mode timed splice_insert with break, a foreign descriptor, a descriptor
   with components, 40-bit duration, MID list and sub-segments, a cancelled descriptor; pointer_field 3 ---- *)
Definition ex_canon0 : splice_info :=
  mksi [255; 255; 255] 252 false false 3 0 false 0 8589934591 255 2748 false
       (Insert 305419896 (Some (mkib true (CompTimed [(1, Some 8589934591); (2, Some 0)]) (Some (true, 8589934591)) 65535 1 2)))
       [Foreign 1 [67; 85; 69; 73; 0];
        Seg 4294967295 (Some (mksb (Some [(7, 8589934591)]) (Some 1099511627775) (Some (true, false, true, 2))
                                   (Multi [(9, [66; 76]); (14, [])]) 52 3 4 (Some (1, 2))));
        Seg 5 None] [] 0.
Definition ex_crc : N := Eval vm_compute in crc_reg (ser_section_nocrc ex_canon0).
Definition ex_canon : splice_info := with_crc ex_canon0 ex_crc.
Lemma w_example_canonical : canonical ex_canon.
Proof.
  unfold canonical. split.
  { unfold supported, wf_decode, ex_canon, ex_canon0. cbn. repeat (split || constructor); cbn; try lia; try discriminate; auto. }
  repeat split; try reflexivity; try (cbn; lia).
  exists [Foreign 1 [67; 85; 69; 73; 0]]. eexists. split; [reflexivity|]. split; repeat constructor.
Qed.

(* ---- non-vacuity: a history from CreateSCTE35 reaching a normal, decodable state with a timed splice_insert with
   break_duration and two descriptors (components with bit 32, 40-bit duration, MID list, sub-segments) ---- *)
Definition ex_script : list sig_op :=
  [SSetCommandInfo 2 [ISetEventID 4294967295; ISetIsOut true; KSetHasPTS true; KSetPTS 8589934591;
                      ISetHasDuration true; ISetDuration 8589934591; ISetIsAutoReturn true; ISetUniqueProgramId 65535];
   SSetAdjustPTS 5; SSetTier 2748;
   SSetDescriptors [[DSetEventID 7; DSetComponents [(1, 8589934591)]; DSetHasDuration true; DSetDuration 1099511627775;
                     DSetUPIDType 13; DSetMID [(9, [66; 76]); (14, [])]; DSetTypeID 52; DSetHasSubSegments true;
                     DSetSubSegmentNumber 1; DSetSubSegmentsExpected 2];
                    [DSetEventID 8; DSetIsEventCanceled true]];
   SSetHasPTS false; SSetHasPTS true].
Definition ex_state : scte := Eval vm_compute in run_script create_scte35 ex_script.
Lemma w_example_is_history : run_script create_scte35 ex_script = ex_state.
Proof. vm_compute. reflexivity. Qed.
Lemma w_example_decodable : decodable [] ex_state.
Proof.
  unfold decodable, normal, ex_state.
  cbn [s_tid s_protocol s_enc_alg s_cw s_tier s_pts s_cmd s_cmd_type s_descs s_other s_stuffing s_encrypted cmd_pts i_pts].
  repeat split; try reflexivity; try (constructor; fail).
  constructor; [|constructor; [|constructor]]; unfold normal_desc, normal_desc_gen;
    cbn [d_type d_event_id d_has_duration d_duration d_upid_type d_upid d_mid d_seg_num d_segs_expected d_sub_seg_num
         d_sub_segs_expected d_owner d_cancel d_dnr d_has_sub d_program_seg d_web d_noblackout d_archive d_device d_components];
    (split; [reflexivity|]); intros Hc; try discriminate Hc;
    repeat split; intros; try discriminate; try reflexivity;
    try (exfalso; match goal with H : _ <> _ |- _ => apply H; reflexivity end);
    repeat (constructor; cbn [co_tag co_off u_type u_len u_upid]; repeat split; try reflexivity).
Qed.
Lemma w_example_clean : clean ex_state.
Proof.
  unfold clean, ex_state. cbn [s_id s_stuffing s_cmd s_descs s_pts].
  split; [reflexivity|]. split; [reflexivity|]. split.
  { unfold clean_cmd, clean_insert. cbn. repeat split; intros; try discriminate; reflexivity. }
  constructor; [|constructor; [|constructor]]; unfold clean_desc; cbn; repeat split; intros; try discriminate; try reflexivity; auto.
Qed.

(* a section the API can build: timed program splice_insert with break_duration, pts_adjustment, two descriptors *)
Definition ex_api0 : splice_info :=
  mksi [] 252 false false 3 0 false 0 8589934591 0 2748 false
       (Insert 305419896 (Some (mkib true (ProgTimed (Some 8589934591)) (Some (true, 8589934591)) 65535 1 2)))
       [Seg 4294967295 (Some (mksb (Some [(7, 8589934591)]) (Some 1099511627775) (Some (true, false, true, 2))
                                   (Multi [(9, [66; 76]); (14, [])]) 52 3 4 (Some (1, 2))));
        Seg 5 None] [] 0.
Definition ex_api_crc : N := Eval vm_compute in crc_reg (ser_section_nocrc ex_api0).
Definition ex_api : splice_info := with_crc ex_api0 ex_api_crc.
Lemma w_example_api_buildable : api_buildable ex_api.
Proof.
  unfold api_buildable. split.
  { unfold canonical. split.
    { unfold supported, wf_decode, ex_api, ex_api0. cbn. repeat (split || constructor); cbn; try lia; try discriminate; auto. }
    repeat split; try reflexivity; try (cbn; lia).
    exists []. eexists. split; [reflexivity|]. split; repeat constructor. }
  repeat split; try reflexivity. repeat constructor.
Qed.

(* canonical order: a section that puts a foreign descriptor AFTER a segmentation descriptor decodes to the same getters
   as the reordered one, and re-encodes into the canonical order (foreign first): byte identity is claimed only for
   sections already in that order *)
Definition interleaved : splice_info :=
  mksi [] 252 false false 3 0 false 0 0 0 4095 false Null [Seg 5 None; Foreign 1 [9]] [] 0.
Definition reordered : splice_info :=
  mksi [] 252 false false 3 0 false 0 0 0 4095 false Null [Foreign 1 [9]; Seg 5 None] [] 0.
Lemma w_order_example :
  supported interleaved /\
  s_descs (expected interleaved) = s_descs (expected reordered) /\ s_other (expected interleaved) = s_other (expected reordered) /\
  ser_section_nocrc interleaved <> ser_section_nocrc reordered /\
  firstn 30 (fst (update_data (expected interleaved))) = ser_section_nocrc reordered.
Proof.
  split.
  { unfold supported, wf_decode, interleaved. cbn. repeat (split || constructor); cbn; try lia; try discriminate; auto. }
  vm_compute. repeat split; try reflexivity. intros C. discriminate C.
Qed.

(* SCTE35.SetPTS with an over-wide argument (repaired by a397833; replay line of the `fixed` entry): PTS() and the command's
   pts_time are both 5, and decoding the next encoding returns the struct itself *)
Definition setpts_script : list sig_op := [SSetCommandInfo 1 [KSetHasPTS true]; SSetPTS 8589934597].
Lemma w_set_pts_overwide :
  let st := run_script create_scte35 setpts_script in
  s_pts st = 5 /\ cmd_pts (s_cmd st) = 5 /\ new_scte35 (0 :: fst (update_data st)) = Ok (snd (update_data st)).
Proof. vm_compute. repeat split. Qed.
