(* C09: decode after encode, encode after decode. *)
From Gots Require Import Base.Prelude Model.Pts Model.Scte Model.ScteEnc Spec.Scte35Spec
  Proofs.ScteLemmas Proofs.ScteExpected Proofs.ScteLogical Proofs.ScteDecode Proofs.ScteEncode.
Import Scte ScteEnc Scte35Spec.
Local Open Scope N_scope.
Arguments N.mul : simpl never. Arguments N.add : simpl never. Arguments N.div : simpl never.
Arguments N.modulo : simpl never. Arguments N.land : simpl never. Arguments N.shiftr : simpl never.
Arguments N.sub : simpl never. Arguments N.ltb : simpl never. Arguments N.eqb : simpl never.
Arguments N.leb : simpl never.

Definition decodable (fs : list descriptor) (st : scte) : Prop :=
  normal fs st /\ s_tid st = 252 /\ s_encrypted st = false /\ Forall wf_descriptor fs /\ timed_cmd (s_cmd st).

Lemma wf_logical_stime h p : (h = true -> p < 8589934592) -> wf_stime (logical_stime h p).
Proof. destruct h; cbn; intros H; [apply H; reflexivity|exact I]. Qed.

Lemma wf_logical_cmd c : normal_cmd c -> wf_command (logical_cmd c).
Proof.
  destruct c as [|h p|i]; cbn [normal_cmd logical_cmd].
  - intros _. exact I.
  - intros Hp. cbn [wf_command]. apply wf_logical_stime. assumption.
  - destruct i as [eid cancel out prog imm has pts comps hasdur dur auto up an ae].
    unfold normal_insert, logical_mode.
    cbn [i_event_id i_cancel i_out i_program i_immediate i_has_pts i_pts i_components i_has_duration i_duration
         i_auto_return i_unique_program_id i_avail_num i_avails_expected].
    intros (He & Hb). destruct cancel; cbn [wf_command]; [exact He|].
    destruct (Hb eq_refl) as (Ht & Hc & Hd & Hup & Han & Hae). clear Hb.
    unfold wf_insert_body. cbn [ib_mode ib_break ib_unique_program_id ib_avail_num ib_avails_expected].
    assert (Hbrk : match (if hasdur then Some (auto, dur) else None) with Some (_, d) => d < 8589934592 | None => True end).
    { destruct hasdur; [apply Hd; reflexivity|exact I]. }
    destruct prog, imm; cbn [wf_mode].
    + repeat split; assumption.
    + repeat split; try assumption. apply wf_logical_stime. apply Ht; reflexivity.
    + destruct (Hc eq_refl) as [Hcs Hl]. repeat split; try assumption.
      * unfold is_bytes. apply Forall_map. eapply Forall_impl; [|exact Hcs]. intros c [H _]. exact H.
      * rewrite len_map'. assumption.
    + destruct (Hc eq_refl) as [Hcs Hl]. repeat split; try assumption.
      * apply Forall_map. eapply Forall_impl; [|exact Hcs]. intros c [H1 H2]. cbn [fst snd].
        split; [assumption|]. apply wf_logical_stime. apply H2. reflexivity.
      * rewrite len_map'. assumption.
Qed.
Lemma supported_logical_cmd c : timed_cmd c -> supported_cmd (logical_cmd c).
Proof.
  destruct c as [|h p|i]; cbn [timed_cmd logical_cmd supported_cmd]; [auto| |].
  - intros ->. discriminate.
  - destruct i as [eid cancel out prog imm has pts comps hasdur dur auto up an ae]. unfold logical_mode.
    cbn [i_cancel i_program i_immediate i_has_pts i_pts i_components]. destruct cancel; [auto|]. cbn [ib_mode].
    intros H. destruct prog, imm; try discriminate. rewrite (H eq_refl eq_refl eq_refl). discriminate.
Qed.

Lemma wf_logical_seg d : normal_desc d -> wf_descriptor (logical_seg d).
Proof.
  intros Hn. pose proof (seg_data_ser d Hn) as SD. pose proof Hn as (He & Hb).
  unfold logical_seg in *. destruct (d_cancel d) eqn:Hc; cbn [wf_descriptor]; [exact He|].
  destruct (Hb eq_refl) as (Hcomps & Hdur & Hdev & Huty & Hmid & Hsingle & Hty & Hsn & Hse & Hssn & Hsse & Hlen). clear Hb.
  split; [exact He|]. split.
  - unfold wf_seg_body. cbn [sb_comps sb_duration sb_restr sb_upid sb_type sb_num sb_expected sb_sub].
    repeat split; try assumption.
    + destruct (d_program_seg d); [exact I|]. destruct (Hcomps eq_refl) as [Hcs Hl]. split.
      * apply Forall_map. eapply Forall_impl; [|exact Hcs]. intros c H. exact H.
      * rewrite len_map'. assumption.
    + destruct (d_has_duration d); [apply Hdur; reflexivity|exact I].
    + destruct (d_dnr d); [exact I|apply Hdev; reflexivity].
    + unfold logical_upid. destruct (N.eqb_spec (d_upid_type d) SegUPIDMID) as [E|E]; cbn [wf_upid].
      * destruct (Hmid E) as (Hu & Hm & Hml). split.
        -- apply Forall_map. eapply Forall_impl; [|exact Hm]. intros u (H1 & H2 & H3 & H4). cbn [fst snd]. auto.
        -- rewrite <- mid_data_ser by assumption. assumption.
      * destruct (Hsingle E) as (Hm & Hul & Hub). repeat split; assumption.
    + destruct (((d_type d =? 52) || (d_type d =? 54)) && d_has_sub d) eqn:Hs; [|exact I].
      apply andb_true_iff in Hs. destruct Hs as [Hs _]. apply orb_true_iff in Hs.
      repeat split; try assumption. destruct Hs as [Hs|Hs]; apply N.eqb_eq in Hs; auto.
  - rewrite SD in Hlen. unfold ser_descriptor in Hlen. rewrite !len_cons in Hlen. cbn [desc_tag] in Hlen. lia.
Qed.

Lemma is_foreign_wf_app fs ds : Forall wf_descriptor fs -> Forall normal_desc ds ->
  Forall wf_descriptor (fs ++ map logical_seg ds).
Proof.
  intros Hf Hd. apply Forall_app. split; [assumption|]. apply Forall_map.
  eapply Forall_impl; [|exact Hd]. apply wf_logical_seg.
Qed.

Lemma supported_logical fs st : decodable fs st -> supported (logical fs st).
Proof.
  intros (Hn & Htid & Henc & Hwfs & Htimed). pose proof (lengths_ok fs st Hn) as (_ & _ & _ & Hsl).
  pose proof Hn as (_ & Hpv & Hea & Hcw & Htier & Hpts & Hcpts & Hct & Hcmd & Hds & Hother & Hfs & Hlen).
  pose proof (wf_logical_cmd _ Hcmd) as Hwc. pose proof (supported_logical_cmd _ Htimed) as Hsc.
  unfold supported, wf_decode, logical, logical0 in *.
  cbn [with_crc si_sap si_enc_alg si_pts_adj si_tier si_cmd si_descs si_table_id si_encrypted si_pointer] in *.
  rewrite <- cmd_data_ser by assumption.
  rewrite ser_descriptors_app, <- Hother, <- descs_data_ser by assumption.
  rewrite len_app in *.
  repeat split; try assumption; try lia; try (apply subtract_pts_lt; assumption);
    try (apply is_foreign_wf_app; assumption); cbn; lia.
Qed.

(* decoding what UpdateData produced (pointer_field 0) yields the struct of the state's logical value *)
Theorem decode_encode fs st : decodable fs st ->
  new_scte35 (0 :: fst (update_data st)) = Ok (expected (logical fs st)).
Proof.
  intros Hd. pose proof (supported_logical fs st Hd) as Hs. destruct Hd as (Hn & _).
  rewrite (encode_canonical fs st Hn).
  change (0 :: ser_section (logical fs st)) with (ser_splice_info (logical fs st)).
  apply decode_ser. exact Hs.
Qed.

(* ---- CRC residue: composition with C13 (Module Crc proves the premise for gots.ComputeCRC = CRC-32/MPEG-2) ---- *)
Theorem crc_zero_of_residue :
  (forall m, crc_model (m ++ crc_model m) = [0; 0; 0; 0]) ->
  forall st, crc_model (fst (update_data st)) = [0; 0; 0; 0].
Proof. intros Hres st. destruct (crc_clause st) as (body & -> & _). apply Hres. Qed.
