(* C10 lemmas, part 4: ghost sets (processed, gone, opening order, ring writes) and the invariant I2:
   the open list only holds processed descriptors, in opening order; and as long as at most 10 ring
   entries have been written (nothing has been evicted from the duplicate-detection ring): no
   descriptor is open twice, nothing gone is open again, everything ever opened is remembered. *)
From Gots Require Import Base.Prelude Model.SegDesc Model.State
  Proofs.SegProofs Proofs.StateBasics Proofs.StateRun Proofs.StateDup.
Import SegDesc State.
Local Open Scope nat_scope.

(* ---------- subsequences ---------- *)
Inductive subseq {A} : list A -> list A -> Prop :=
| ss_nil : forall l, subseq [] l
| ss_take : forall x l m, subseq l m -> subseq (x :: l) (x :: m)
| ss_skip : forall x l m, subseq l m -> subseq l (x :: m).

Lemma subseq_refl : forall {A} (l : list A), subseq l l.
Proof. induction l; constructor; auto. Qed.

Lemma subseq_trans : forall {A} (a b c : list A), subseq a b -> subseq b c -> subseq a c.
Proof.
  intros A a b c H1 H2. revert a H1. induction H2; intros a H1.
  - inversion H1; subst. constructor.
  - inversion H1; subst; constructor; auto.
  - constructor. auto.
Qed.

Lemma subseq_app_l : forall {A} (a b : list A), subseq a (a ++ b).
Proof. induction a; intros; simpl; constructor; auto. Qed.

Lemma subseq_app_r : forall {A} (a b : list A), subseq b (a ++ b).
Proof. induction a; intros; simpl; [apply subseq_refl|constructor; auto]. Qed.

Lemma subseq_app : forall {A} (a b c d : list A), subseq a b -> subseq c d -> subseq (a ++ c) (b ++ d).
Proof. intros A a b c d H. induction H; intros; simpl; try constructor; auto. induction l; simpl; auto. constructor; auto. Qed.

Lemma subseq_firstn : forall {A} n (l : list A), subseq (firstn n l) l.
Proof. intros A n l. rewrite <- (firstn_skipn n l) at 2. apply subseq_app_l. Qed.

Lemma skipn_S_cons : forall {A} i (l : list A) x t, skipn i l = x :: t -> skipn (S i) l = t.
Proof.
  intros A. induction i; intros l x t H.
  - simpl in H. subst l. reflexivity.
  - destruct l as [|a l]; [discriminate|]. simpl in H. apply IHi in H. exact H.
Qed.

Lemma subseq_remove_at : forall {A} i (l : list A), subseq (remove_at i l) l.
Proof.
  intros A i l. unfold remove_at. rewrite <- (firstn_skipn i l) at 3.
  apply subseq_app; [apply subseq_refl|].
  destruct (skipn i l) as [|x t] eqn:E.
  - assert (skipn (S i) l = []) as ->; [|constructor].
    apply skipn_all2. assert (length (skipn i l) = 0) by now rewrite E. rewrite skipn_length in H. lia.
  - rewrite (skipn_S_cons _ _ _ _ E). constructor. apply subseq_refl.
Qed.

Lemma subseq_in : forall {A} (a b : list A) x, subseq a b -> In x a -> In x b.
Proof.
  intros A a b x H. induction H; simpl; intros Hx; [contradiction| |].
  - destruct Hx; auto.
  - auto.
Qed.

Lemma subseq_nodup : forall {A} (a b : list A), subseq a b -> NoDup b -> NoDup a.
Proof.
  intros A a b H. induction H; intros N; [constructor| |].
  - inversion N; subst. constructor; auto. intros X. apply H2. eapply subseq_in; eassumption.
  - inversion N; subst. auto.
Qed.

Lemma NoDup_app_inv : forall {A} (a b : list A), NoDup (a ++ b) ->
  NoDup a /\ NoDup b /\ forall x, In x a -> ~ In x b.
Proof.
  induction a as [|h t IH]; intros b H; simpl in *.
  - split; [constructor|]. split; [assumption|]. intros x [].
  - inversion H; subst. destruct (IH _ H3) as (Na & Nb & D). split; [|split; [assumption|]].
    + constructor; auto. intros X. apply H2. apply in_or_app. now left.
    + intros x [->|Hx] Hb; [apply H2; apply in_or_app; now right|exact (D x Hx Hb)].
Qed.

Lemma NoDup_snoc : forall {A} (l : list A) x, NoDup l -> ~ In x l -> NoDup (l ++ [x]).
Proof.
  induction l as [|h t IH]; intros x N H; simpl.
  - constructor; [exact H|constructor].
  - inversion N; subst. constructor.
    + intros X. apply in_app_or in X. destruct X as [X|[X|[]]]; [auto|]. subst. apply H. now left.
    + apply IH; auto. intros X. apply H. now right.
Qed.

Lemma remove_at_in : forall {A} i (l : list A) x, In x (remove_at i l) -> In x l.
Proof. intros. eapply subseq_in; [apply subseq_remove_at|eassumption]. Qed.

Lemma NoDup_remove_at : forall {A} (l : list A) i c, NoDup l -> nth_error l i = Some c -> ~ In c (remove_at i l).
Proof.
  intros A l i c N H. assert (L : i < length l) by (apply nth_error_Some; congruence).
  pose proof (firstn_skipn i l) as E.
  destruct (skipn i l) as [|y t] eqn:S.
  - assert (length (skipn i l) = 0) by now rewrite S. rewrite skipn_length in H0. lia.
  - assert (y = c).
    { assert (nth_error l i = nth_error (firstn i l ++ y :: t) i) by now rewrite E.
      rewrite nth_error_app2 in H0 by (rewrite firstn_length; lia).
      rewrite firstn_length, Nat.min_l, Nat.sub_diag in H0 by lia. simpl in H0. congruence. }
    subst y. pose proof (skipn_S_cons _ _ _ _ S) as St.
    unfold remove_at. rewrite St. rewrite <- E in N.
    apply NoDup_remove_2 in N. exact N.
Qed.

(* ---------- what the ring remembers ---------- *)
Definition remembered (ring : list (option elem)) (d : desc) : Prop :=
  exists e, In (Some e) ring /\ epts e = ptsv d /\ In d (edescs e).

(* entries only grow; an empty slot may be filled *)
Definition ring_le1 (a b : option elem) : Prop :=
  match a with
  | None => True
  | Some e => exists e', b = Some e' /\ epts e' = epts e /\ incl (edescs e) (edescs e')
  end.

Lemma ring_le1_refl : forall a, ring_le1 a a.
Proof. intros [e|]; simpl; auto. exists e. repeat split; auto. apply incl_refl. Qed.

Lemma grown1_le : forall d p a b, grown1 d p a b -> ring_le1 a b.
Proof.
  intros d p [e|] [e'|] H; simpl in *; try contradiction; auto.
  destruct H as [Ep (k & Ed & _)]. exists e'. repeat split; auto. rewrite Ed. apply incl_appl, incl_refl.
Qed.

Lemma remembered_le : forall ring ring' d, Forall2 ring_le1 ring ring' -> remembered ring d -> remembered ring' d.
Proof.
  intros ring ring' d F (e & Hi & Hp & Hd). induction F as [|a b t t' R F IH]; [contradiction|].
  destruct Hi as [->|Hi].
  - simpl in R. destruct R as (e' & -> & Ep & Inc). exists e'. split; [now left|]. split; [congruence|auto].
  - destruct (IH Hi) as (e' & Hi' & X). exists e'. split; [now right|exact X].
Qed.

Lemma Forall2_le_refl : forall ring, Forall2 ring_le1 ring ring.
Proof. induction ring; constructor; auto using ring_le1_refl. Qed.

Lemma set_nth_le : forall ring h v, nth_error ring h = Some None -> Forall2 ring_le1 ring (set_nth ring h v).
Proof.
  induction ring as [|a t IH]; intros h v H; [destruct h; discriminate|].
  destruct h; simpl in *.
  - inversion H; subst. constructor; simpl; auto using Forall2_le_refl.
  - constructor; auto using ring_le1_refl.
Qed.

Lemma grown_none : forall d p ring ring1 i, Forall2 (grown1 d p) ring ring1 ->
  nth_error ring i = Some None -> nth_error ring1 i = Some None.
Proof.
  intros d p ring ring1 i F. revert i. induction F as [|a b t t' G F IH]; intros i H; [destruct i; discriminate|].
  destruct i; simpl in *.
  - inversion H; subst. destruct b; simpl in G; [contradiction|reflexivity].
  - auto.
Qed.

Lemma nth_error_set_nth_other : forall {A} (l : list A) h i v, i <> h -> nth_error (set_nth l h v) i = nth_error l i.
Proof.
  induction l as [|a t IH]; intros h i v H; [destruct h; reflexivity|].
  destruct h, i; simpl; try reflexivity; try lia. apply IH. lia.
Qed.

Lemma set_nth_in : forall {A} (l : list A) h v, h < length l -> In v (set_nth l h v).
Proof.
  induction l as [|a t IH]; intros h v H; simpl in H; [lia|]. destruct h; simpl; [now left|right]. apply IH. lia.
Qed.

(* a remembered descriptor (with PTS) always stops the duplicate scan *)
Lemma first_stop_in : forall d ds, haspts d = true -> In d ds -> first_stop d true ds <> None.
Proof.
  intros d ds Hd. induction ds as [|x t IH]; intros Hi; [contradiction|]. simpl.
  destruct (elem_stop d true x) eqn:E; [discriminate|]. destruct Hi as [->|Hi]; [|auto].
  rewrite (elem_stop_self d Hd) in E. discriminate.
Qed.

Lemma remembered_stops : forall d ring, haspts d = true -> remembered ring d -> ring_stop d (ptsv d) ring <> None.
Proof.
  intros d ring Hd (e & Hi & Hp & Hin). induction ring as [|a t IH]; [contradiction|]. simpl.
  destruct (entry_stop d (ptsv d) a) eqn:E; [discriminate|]. destruct Hi as [->|Hi]; [|auto].
  simpl in E. rewrite Hp, N.eqb_refl in E. exfalso. exact (first_stop_in d _ Hd Hin E).
Qed.

(* descAdded = true after a scan that did not stop: the descriptor is remembered *)
Lemma scan_added_remembered : forall d ring a ring1 a',
  scan_ring d (ptsv d) ring a = (ring1, a', None) -> a' = true -> a = true \/ remembered ring1 d.
Proof.
  intros d ring. induction ring as [|[e|] t IH]; intros a ring1 a' H Ha; simpl in H.
  - inversion H; subst. now left.
  - destruct a; [now left|].
    pose proof (scan_descs_stop d (epts e =? ptsv d)%N (edescs e) 0 false) as S.
    destruct (scan_descs d (epts e =? ptsv d)%N (edescs e) 0 false) as [[napp a1] r1] eqn:SD. simpl in S.
    destruct r1 as [x|]; [discriminate|].
    rewrite (scan_descs_through d _ _ 0 false (eq_sym S)) in SD. inversion SD; subst napp a1. clear SD.
    destruct (scan_ring d (ptsv d) t _) as [[t' a2] r] eqn:R. inversion H; subst ring1 a2 r. clear H.
    destruct ((epts e =? ptsv d)%N && negb (is_nil (edescs e))) eqn:B.
    + right. apply andb_true_iff in B. destruct B as [B1 B2]. eexists. split; [now left|]. simpl.
      split; [now apply N.eqb_eq|]. rewrite B1, B2. simpl. apply in_or_app. right. now left.
    + try rewrite orb_false_l in R; try rewrite B in R; simpl in R. destruct (IH _ _ _ R Ha) as [X|(e' & Hi & X)]; [now left|right].
      exists e'. split; [now right|exact X].
  - destruct (scan_ring d (ptsv d) t a) as [[t' a2] r] eqn:R. inversion H; subst ring1 a2 r.
    destruct (IH _ _ _ R Ha) as [X|(e' & Hi & X)]; [now left|right]. exists e'. split; [now right|exact X].
Qed.

(* ---------- ghost state ---------- *)
Record ghost : Type := mkG {
  processed : list desc;   (* every descriptor handed to ProcessDescriptor so far *)
  gone : list desc;        (* reported closed, or discarded by a program resumption *)
  opened : list desc;      (* every descriptor that entered the open list, in opening order *)
  writes : nat }.          (* number of ring entries written so far *)
Definition g0 : ghost := mkG [] [] [] 0.

Definition is_rej (e : option N) : bool :=
  match e with Some x => (x =? 29)%N || (x =? 31)%N || (x =? 37)%N | None => false end.

Lemma is_rej_spec : forall e, is_rej e = true <-> rejection e.
Proof.
  intros [x|]; unfold is_rej, rejection, E.SCTE35UnsupportedSpliceCommand, E.SCTE35DuplicateDescriptor, E.VSSSignalIdNotFound.
  - rewrite !orb_true_iff, !N.eqb_eq. split.
    + intros [[H|H]|H]; subst; auto.
    + intros [H|[H|H]]; inversion H; subst; auto.
  - split; [discriminate|]. intros [H|[H|H]]; discriminate.
Qed.

(* what a program resumption throws away without reporting it *)
Definition discarded (s : state) (d : desc) (closed : list desc) (err : option N) : list desc :=
  let keep := firstn (length (open s) - length closed) (open s) in
  if negb (is_rej err) && (ty d =? 0x14)%N && inb_after_close s keep then skipn (blackoutIdx s) keep else [].

Definition gnext_process (s s' : state) (d : desc) (closed : list desc) (err : option N) (g : ghost) : ghost :=
  mkG (d :: processed g)
      (gone g ++ closed ++ discarded s d closed err)
      (if negb (is_rej err) && appended (ty d) then opened g ++ [d] else opened g)
      (if receivedHead s' =? receivedHead s then writes g else S (writes g)).
Definition gnext_close (closed : list desc) (g : ghost) : ghost :=
  mkG (processed g) (gone g ++ closed) (opened g) (writes g).

Definition gstep (pool : list desc) (sg : state * ghost) (c : call) : Res (state * ghost) :=
  let (s, g) := sg in
  match c with
  | CProcess i =>
    match nth_error pool i with
    | None => Err E.Other
    | Some d => let? (s', (closed, err)) := ProcessDescriptor s d in Ok (s', gnext_process s s' d closed err g)
    end
  | CClose i =>
    match nth_error pool i with
    | None => Err E.Other
    | Some d => let '(s', (closed, err)) := Close s d in Ok (s', gnext_close closed g)
    end
  | COpen => Ok (s, g)
  end.

Fixpoint gexec (pool : list desc) (sg : state * ghost) (cs : list call) : Res (state * ghost) :=
  match cs with
  | [] => Ok sg
  | c :: t => let? sg' := gstep pool sg c in gexec pool sg' t
  end.

(* the ghost state is an observer: the instrumented run has the same states as the plain one *)
Lemma gexec_exec : forall pool cs s g s' g', gexec pool (s, g) cs = Ok (s', g') -> exec pool s cs = Ok s'.
Proof.
  intros pool. induction cs as [|c t IH]; intros s g s' g' H; simpl in *; [now inversion H|].
  destruct c as [i|i|]; simpl in *.
  - destruct (nth_error pool i); [|discriminate]. destruct (ProcessDescriptor s d) as [[s1 [cl er]]| | |]; try discriminate.
    simpl in *. eapply IH; eassumption.
  - destruct (nth_error pool i); [|discriminate]. destruct (Close s d) as [s1 [cl er]]. simpl in *. eapply IH; eassumption.
  - eapply IH; eassumption.
Qed.

(* ---------- the invariant ---------- *)
Definition ring_shape (s : state) (w : nat) : Prop :=
  receivedHead s = w mod 10 /\ forall i, w <= i -> i < 10 -> nth_error (received s) i = Some None.

Definition I2 (s : state) (g : ghost) : Prop :=
  incl (open s) (processed g) /\
  subseq (open s) (opened g) /\
  (writes g <= 10 ->
     NoDup (opened g) /\ incl (gone g) (opened g) /\ (forall x, In x (gone g) -> ~ In x (open s)) /\
     (forall x, In x (opened g) -> remembered (received s) x /\ haspts x = true) /\
     ring_shape s (writes g)).

Lemma I2_new : I2 NewState g0.
Proof.
  split; [intros x []|]. split; [constructor|]. intros _. simpl.
  split; [constructor|]. split; [intros x []|]. split; [intros x []|]. split; [intros x []|].
  split; [reflexivity|]. intros i _ Hi. simpl.
  do 10 (destruct i as [|i]; [reflexivity|]). lia.
Qed.

Lemma firstn_app_exact : forall {A} (a b : list A), firstn (length (a ++ b) - length b) (a ++ b) = a.
Proof.
  intros A a b. rewrite app_length. replace (length a + length b - length b) with (length a) by lia.
  rewrite firstn_app, Nat.sub_diag, firstn_all. simpl. apply app_nil_r.
Qed.

Lemma head_step_neq : forall h, h < 10 -> ((h + 1) mod receivedRingLen =? h) = false.
Proof.
  intros h H. apply Nat.eqb_neq. unfold receivedRingLen.
  do 10 (destruct h as [|h]; [vm_compute; discriminate|]). lia.
Qed.

Lemma mod10_small : forall w, w < 10 -> w mod 10 = w.
Proof. intros. apply Nat.mod_small. assumption. Qed.

Lemma F2_length : forall {A B} (R : A -> B -> Prop) l m, Forall2 R l m -> length l = length m.
Proof. intros A B R l m F. induction F; simpl; auto. Qed.

(* how the ring moves in one ProcessDescriptor call *)
Lemma process_ring : forall s d s' closed err, I1 s ->
  ProcessDescriptor s d = Ok (s', (closed, err)) ->
  (receivedHead s' = receivedHead s /\ Forall2 (grown1 d (ptsv d)) (received s) (received s') /\
   (~ rejection err -> remembered (received s') d))
  \/
  (~ rejection err /\ receivedHead s' = (receivedHead s + 1) mod receivedRingLen /\
   exists ring1, Forall2 (grown1 d (ptsv d)) (received s) ring1 /\
                 received s' = set_nth ring1 (receivedHead s) (Some (mkElem (ptsv d) [d]))).
Proof.
  intros s d s' closed err HI H.
  destruct (process_shape _ _ _ _ _ HI H) as [(R & _ & _ & _ & _ & Hh & Hn & Hp)|(NR & Hd & (ring1 & added & SR & Hr & Hh) & _)].
  - left. split; [exact Hh|]. split; [|intros X; contradiction].
    destruct (haspts d) eqn:Hd.
    + destruct (Hp eq_refl) as (ring1 & added & x & SR & Hr & _).
      pose proof (scan_ring_grown d (ptsv d) (received s) false) as G. rewrite SR in G. simpl in G. now rewrite Hr.
    + rewrite (Hn eq_refl). clear. induction (received s); constructor; auto using grown1_refl.
  - pose proof (scan_ring_grown d (ptsv d) (received s) false) as G. rewrite SR in G. simpl in G.
    destruct added.
    + left. split; [exact Hh|]. split; [now rewrite Hr|]. intros _. rewrite Hr.
      destruct (scan_added_remembered _ _ _ _ _ SR eq_refl) as [X|X]; [discriminate|exact X].
    + right. split; [exact NR|]. split; [exact Hh|]. exists ring1. auto.
Qed.

Theorem process_I2 : forall s g d s' closed err, I1 s -> I2 s g ->
  ProcessDescriptor s d = Ok (s', (closed, err)) -> I2 s' (gnext_process s s' d closed err g).
Proof.
  intros s g d s' closed err HI (Ha & Hb & Hc) H.
  pose proof HI as (_ & (RL & RH) & _).
  pose proof (process_ring _ _ _ _ _ HI H) as PRing.
  destruct (process_shape _ _ _ _ _ HI H) as
    [(R & -> & Ho & _ & _ & Hh & _)|(NR & Hd & (ring1 & added & SR & Hr & Hh) & Hcl & keep & Hko & Ho)].
  - (* rejected *)
    apply is_rej_spec in R. unfold gnext_process, discarded, I2. rewrite R, Ho, Hh, Nat.eqb_refl. simpl. rewrite app_nil_r.
    split; [apply incl_tl; exact Ha|]. split; [exact Hb|]. intros W.
    destruct (Hc W) as (C1 & C2 & C3 & C4 & C5). repeat (split; [assumption|]).
    destruct PRing as [(_ & G & _)|(NRj & _)]; [|exfalso; apply NRj; now apply is_rej_spec].
    split.
    + intros x Hx. destruct (C4 x Hx) as [Rm Hp]. split; [|exact Hp].
      eapply remembered_le; [|exact Rm]. clear -G. induction G; constructor; eauto using grown1_le.
    + destruct C5 as [S1 S2]. split; [congruence|]. intros i Hi1 Hi2. eapply grown_none; [exact G|auto].
  - (* accepted *)
    assert (NRb : is_rej err = false).
    { destruct (is_rej err) eqn:X; [|reflexivity]. exfalso. apply NR. now apply is_rej_spec. }
    cbv zeta in Ho.
    assert (Hkeep : firstn (length (open s) - length closed) (open s) = keep).
    { rewrite Hko. rewrite <- (rev_length closed). apply firstn_app_exact. }
    set (keep' := if (ty d =? 20)%N && inb_after_close s keep then firstn (blackoutIdx s) keep else keep) in *.
    assert (Kss : subseq keep' keep).
    { unfold keep'. destruct ((ty d =? 20)%N && inb_after_close s keep); [apply subseq_firstn|apply subseq_refl]. }
    assert (Kso : subseq keep (open s)) by (rewrite Hko; apply subseq_app_l).
    assert (Kin : forall x, In x keep' -> In x (open s)).
    { intros x Hx. eapply subseq_in; [exact Kso|]. eapply subseq_in; [exact Kss|exact Hx]. }
    unfold gnext_process, discarded, I2. rewrite NRb, Hkeep. cbn [negb andb].
    split; [|split].
    + (* open' within processed *)
      intros x Hx. rewrite Ho in Hx.
      destruct (appended (ty d)); [apply in_app_or in Hx; destruct Hx as [ Hx | [ <- | [] ] ]; [|now left]|];
        right; apply Ha; apply Kin; exact Hx.
    + (* opening order *)
      rewrite Ho. destruct (appended (ty d)).
      * apply subseq_app; [|apply subseq_refl]. eapply subseq_trans; [exact Kss|]. eapply subseq_trans; eassumption.
      * eapply subseq_trans; [exact Kss|]. eapply subseq_trans; eassumption.
    + intros W.
      assert (W0 : writes g <= 10).
      { revert W. simpl. destruct (receivedHead s' =? receivedHead s); lia. }
      destruct (Hc W0) as (C1 & C2 & C3 & C4 & C5).
      (* the accepted descriptor was never opened before: it would have been found by the scan *)
      assert (Fresh : ~ In d (opened g)).
      { intros X. destruct (C4 d X) as [Rm _].
        apply (remembered_stops d _ Hd Rm). rewrite <- (scan_ring_stop d (ptsv d) (received s) false), SR. reflexivity. }
      assert (NDo : NoDup (open s)) by (eapply subseq_nodup; eassumption).
      assert (Oin : forall x, In x (open s) -> In x (opened g)) by (intros x Hx; eapply subseq_in; eassumption).
      rewrite Hko in NDo. destruct (NoDup_app_inv _ _ NDo) as (NDk & _ & Dkc).
      simpl.
      split; [|split; [|split; [|split]]].
      * destruct (appended (ty d)); [apply NoDup_snoc; assumption|assumption].
      * assert (incl (gone g ++ closed ++ (if (ty d =? 20)%N && inb_after_close s keep then skipn (blackoutIdx s) keep else []))
                       (opened g)).
        { intros x Hx. apply in_app_or in Hx. destruct Hx as [Hx|Hx]; [now apply C2|].
          apply Oin. rewrite Hko. apply in_app_or in Hx. destruct Hx as [Hx|Hx].
          - apply in_or_app. right. now apply in_rev in Hx.
          - apply in_or_app. left. destruct ((ty d =? 20)%N && inb_after_close s keep); [|contradiction].
            rewrite <- (firstn_skipn (blackoutIdx s) keep). apply in_or_app. now right. }
        destruct (appended (ty d)); [apply incl_appl|]; assumption.
      * intros x Hx Hx'. rewrite Ho in Hx'.
        assert (Hk' : In x keep' \/ x = d).
        { destruct (appended (ty d)); [apply in_app_or in Hx'; destruct Hx' as [ ? | [ <- | [] ] ]; auto|auto]. }
        apply in_app_or in Hx. destruct Hx as [Hx|Hx].
        { destruct Hk' as [Hk'| -> ]; [exact (C3 x Hx (Kin x Hk'))|exact (Fresh (C2 d Hx))]. }
        apply in_app_or in Hx. destruct Hx as [Hx|Hx].
        { destruct Hk' as [Hk'| -> ].
          - apply (Dkc x); [eapply subseq_in; [exact Kss|exact Hk']|]. now apply in_rev in Hx. 
          - apply Fresh. apply Oin. rewrite Hko. apply in_or_app. right. now apply in_rev in Hx. }
        unfold keep' in Hk'. destruct ((ty d =? 20)%N && inb_after_close s keep); [|contradiction].
        destruct Hk' as [Hk'| -> ].
        { rewrite <- (firstn_skipn (blackoutIdx s) keep) in NDk. destruct (NoDup_app_inv _ _ NDk) as (_ & _ & D).
          exact (D x Hk' Hx). }
        apply Fresh. apply Oin. rewrite Hko. apply in_or_app. left.
        rewrite <- (firstn_skipn (blackoutIdx s) keep). apply in_or_app. now right.
      * (* everything ever opened is still remembered *)
        assert (Keep : forall x, remembered (received s) x -> remembered (received s') x).
        { intros x Rm. destruct PRing as [(_ & G & _)|(_ & Hh' & r1 & G & Hr')].
          - eapply remembered_le; [|exact Rm]. clear -G. induction G; constructor; eauto using grown1_le.
          - assert (Hne : (receivedHead s' =? receivedHead s) = false) by (rewrite Hh'; now apply head_step_neq).
            simpl in W. rewrite Hne in W. destruct C5 as [S1 S2].
            assert (Hw : receivedHead s = writes g) by (rewrite S1; apply mod10_small; lia).
            rewrite Hr'. eapply remembered_le; [apply set_nth_le|].
            + eapply grown_none; [exact G|]. apply S2; lia.
            + eapply remembered_le; [|exact Rm]. clear -G. induction G; constructor; eauto using grown1_le. }
        assert (RmD : remembered (received s') d).
        { destruct PRing as [(_ & _ & X)|(_ & _ & r1 & G & Hr')]; [now apply X|].
          rewrite Hr'. exists (mkElem (ptsv d) [d]). split; [|simpl; auto].
          apply set_nth_in. assert (length r1 = length (received s)) by (symmetry; eapply F2_length; exact G). lia. }
        intros x Hx.
        assert (In x (opened g) \/ x = d) as [Hx'| -> ].
        { destruct (appended (ty d)); [apply in_app_or in Hx; destruct Hx as [ ? | [ <- | [] ] ]; auto|auto]. }
        -- destruct (C4 x Hx') as [Rm Hp]. split; [now apply Keep|exact Hp].
        -- split; assumption.
      * (* ring shape *)
        destruct C5 as [S1 S2]. destruct PRing as [(Hh' & G & _)|(_ & Hh' & r1 & G & Hr')].
        -- rewrite Hh', Nat.eqb_refl. split; [congruence|]. intros i Hi1 Hi2. eapply grown_none; [exact G|auto].
        -- assert (Hne : (receivedHead s' =? receivedHead s) = false) by (rewrite Hh'; now apply head_step_neq).
           simpl in W. rewrite Hne in *.
           assert (Hw : receivedHead s = writes g) by (rewrite S1; apply mod10_small; lia).
           split.
           ++ rewrite Hh', Hw. unfold receivedRingLen. now rewrite Nat.add_1_r.
           ++ intros i Hi1 Hi2. rewrite Hr', nth_error_set_nth_other by lia. eapply grown_none; [exact G|]. apply S2; lia.
Qed.

Lemma close_ring : forall s d, received (fst (Close s d)) = received s /\ receivedHead (fst (Close s d)) = receivedHead s.
Proof.
  intros s d. unfold Close. destruct (find_last_equal d (open s)); [|auto].
  destruct (inBlackout s); [destruct (n =? blackoutIdx s); [|destruct (n <? blackoutIdx s)]|]; simpl; auto.
Qed.

Theorem close_I2 : forall s g d s' closed err, I2 s g ->
  Close s d = (s', (closed, err)) -> I2 s' (gnext_close closed g).
Proof.
  intros s g d s' closed err (Ha & Hb & Hc) H.
  pose proof (close_ring s d) as [R1 R2]. rewrite H in R1, R2. simpl in R1, R2.
  destruct (close_sound _ _ _ _ _ H) as [(_ & -> & -> & _)|(_ & i & c & -> & Hn & _ & Ho & _)].
  - unfold gnext_close. simpl. rewrite app_nil_r. destruct g. exact (conj Ha (conj Hb Hc)).
  - unfold gnext_close, I2. simpl. rewrite Ho.
    split; [intros x Hx; apply Ha; eapply remove_at_in; exact Hx|].
    split; [eapply subseq_trans; [apply subseq_remove_at|exact Hb]|].
    intros W. destruct (Hc W) as (C1 & C2 & C3 & C4 & C5).
    assert (NDo : NoDup (open s)) by (eapply subseq_nodup; eassumption).
    split; [exact C1|]. split; [|split; [|split]].
    + intros x Hx. apply in_app_or in Hx. destruct Hx as [ Hx | [ <- | [] ] ]; [now apply C2|].
      eapply subseq_in; [exact Hb|]. eapply nth_error_In; exact Hn.
    + intros x Hx Hx'. apply in_app_or in Hx. destruct Hx as [ Hx | [ <- | [] ] ].
      * apply (C3 x Hx). eapply remove_at_in; exact Hx'.
      * exact (NoDup_remove_at _ _ _ NDo Hn Hx').
    + intros x Hx. rewrite R1. now apply C4.
    + destruct C5 as [S1 S2]. split; [congruence|]. intros j Hj1 Hj2. rewrite R1. now apply S2.
Qed.

(* ---------- one step, every history ---------- *)
Definition Inv (sg : state * ghost) : Prop := I1 (fst sg) /\ I2 (fst sg) (snd sg).

Theorem inv_step : forall pool sg c, Inv sg -> call_in_pool pool c ->
  exists sg', gstep pool sg c = Ok sg' /\ Inv sg'.
Proof.
  intros pool [s g] c [H1 H2] Hc. simpl in H1, H2. destruct c as [i|i|]; simpl in *.
  - destruct (nth_error pool i) as [d|] eqn:E; [|apply nth_error_None in E; lia].
    destruct (process_I1 s d H1) as (s' & [closed err] & HP & H1'). rewrite HP. cbn [bind].
    eexists. split; [reflexivity|]. split; simpl; [exact H1'|]. eapply process_I2; eassumption.
  - destruct (nth_error pool i) as [d|] eqn:E; [|apply nth_error_None in E; lia].
    pose proof (close_I1 s d H1) as H1'. destruct (Close s d) as [s' [closed err]] eqn:HC. simpl in H1'.
    eexists. split; [reflexivity|]. split; simpl; [exact H1'|]. eapply close_I2; eassumption.
  - eexists. split; [reflexivity|]. split; assumption.
Qed.

Theorem inv_reachable : forall pool cs sg, Inv sg -> Forall (call_in_pool pool) cs ->
  exists sg', gexec pool sg cs = Ok sg' /\ Inv sg'.
Proof.
  intros pool. induction cs as [|c t IH]; intros sg HI HF; simpl; [eauto|].
  inversion HF; subst. destruct (inv_step pool sg c HI H1) as (sg' & HS & HI'). rewrite HS. cbn [bind]. now apply IH.
Qed.

Lemma Inv_new : Inv (NewState, g0).
Proof. split; [exact I1_new|exact I2_new]. Qed.

(* ---------- consequences in the words of the property ---------- *)

(* closed descriptors: open just before, pairwise distinct, not returned before *)
Theorem closed_once_process : forall s g d s' closed err, Inv (s, g) -> writes g <= 10 ->
  ProcessDescriptor s d = Ok (s', (closed, err)) ->
  NoDup closed /\ forall x, In x closed -> In x (open s) /\ ~ In x (gone g) /\ ~ In x (open s').
Proof.
  intros s g d s' closed err [H1 H2] W H. simpl in H1, H2.
  pose proof (process_I2 _ _ _ _ _ _ H1 H2 H) as (_ & _ & Hc').
  destruct H2 as (Ha & Hb & Hc). destruct (Hc W) as (C1 & C2 & C3 & _).
  destruct (process_closed_sound _ _ _ _ _ H1 H) as (keep & Hko & _).
  assert (NDo : NoDup (open s)) by (eapply subseq_nodup; eassumption).
  rewrite Hko in NDo. destruct (NoDup_app_inv _ _ NDo) as (_ & NDc & _).
  split; [rewrite <- (rev_involutive closed); now apply NoDup_rev|].
  intros x Hx.
  assert (Hxo : In x (open s)) by (rewrite Hko; apply in_or_app; right; now apply -> in_rev).
  split; [exact Hxo|]. split; [intros X; exact (C3 x X Hxo)|].
  destruct (process_shape _ _ _ _ _ H1 H) as [(_ & -> & _)|_]; [contradiction|].
  assert (W' : writes (gnext_process s s' d closed err g) <= 10 \/ writes (gnext_process s s' d closed err g) = S (writes g)).
  { simpl. destruct (receivedHead s' =? receivedHead s); auto. }
  destruct W' as [W'|W'].
  - destruct (Hc' W') as (_ & _ & D & _). apply D. simpl. apply in_or_app. right. apply in_or_app. now left.
  - (* the 11th ring write happens in this very call: argue directly from the shape of the call *)
    destruct (process_shape _ _ _ _ _ H1 H) as [(_ & -> & _)|(NR & Hd & (r1 & ad & SR & _) & _ & keep2 & Hko2 & Ho)]; [contradiction|].
    cbv zeta in Ho. intros Hx'.
    assert (keep2 = keep) by (rewrite Hko in Hko2; now apply app_inv_tail in Hko2). subst keep2.
    destruct (Hc W) as (_ & _ & _ & C4 & _).
    assert (Fresh : ~ In d (opened g)).
    { intros X. destruct (C4 d X) as [Rm _].
      apply (remembered_stops d _ Hd Rm). rewrite <- (scan_ring_stop d (ptsv d) (received s) false), SR. reflexivity. }
    assert (NDo2 : NoDup (open s)) by (eapply subseq_nodup; eassumption).
    rewrite Hko in NDo2. destruct (NoDup_app_inv _ _ NDo2) as (_ & _ & Dkc).
    assert (Hk : In x keep \/ x = d).
    { rewrite Ho in Hx'.
      assert (forall y, In y (if (ty d =? 20)%N && inb_after_close s keep then firstn (blackoutIdx s) keep else keep) -> In y keep).
      { intros y Hy. destruct ((ty d =? 20)%N && inb_after_close s keep); [|exact Hy].
        eapply subseq_in; [apply subseq_firstn|exact Hy]. }
      destruct (appended (ty d)); [apply in_app_or in Hx'; destruct Hx' as [ ? | [ <- | [] ] ]; auto|auto]. }
    destruct Hk as [Hk| ->].
    + apply (Dkc x Hk). now apply -> in_rev.
    + apply Fresh. eapply subseq_in; [exact Hb|exact Hxo].
Qed.

Theorem closed_once_close : forall s g d s' closed err, Inv (s, g) -> writes g <= 10 ->
  Close s d = (s', (closed, err)) ->
  forall x, In x closed -> closed = [x] /\ In x (open s) /\ Equal d x = true /\ ~ In x (gone g) /\ ~ In x (open s').
Proof.
  intros s g d s' closed err [H1 H2] W H x Hx. simpl in H1, H2.
  destruct H2 as (Ha & Hb & Hc). destruct (Hc W) as (C1 & C2 & C3 & _).
  destruct (close_sound _ _ _ _ _ H) as [(_ & -> & _)|(_ & i & c & -> & Hn & He & Ho & _)]; [contradiction|].
  destruct Hx as [<-|[]]. assert (Hi : In c (open s)) by (eapply nth_error_In; exact Hn).
  split; [reflexivity|]. split; [exact Hi|]. split; [exact He|]. split; [intros X; exact (C3 c X Hi)|].
  rewrite Ho. apply NoDup_remove_at; [|exact Hn]. eapply subseq_nodup; eassumption.
Qed.

(* the open list in every reachable state *)
Theorem open_consistent : forall pool cs, Forall (call_in_pool pool) cs ->
  exists s g, gexec pool (NewState, g0) cs = Ok (s, g) /\ exec pool NewState cs = Ok s /\
    I1 s /\
    incl (open s) (processed g) /\                       (* never contains a descriptor never processed *)
    subseq (open s) (opened g) /\                        (* in the order they were opened *)
    (writes g <= 10 ->
       NoDup (opened g) /\ NoDup (open s) /\             (* never the same descriptor twice *)
       (forall x, In x (open s) -> ~ In x (gone g))).    (* never one already closed or discarded *)
Proof.
  intros pool cs H. destruct (inv_reachable pool cs _ Inv_new H) as ([s g] & HG & [H1 (Ha & Hb & Hc)]).
  exists s, g. split; [exact HG|]. split; [eapply gexec_exec; exact HG|]. simpl in *.
  split; [exact H1|]. split; [exact Ha|]. split; [exact Hb|]. intros W. destruct (Hc W) as (C1 & _ & C3 & _).
  split; [exact C1|]. split; [eapply subseq_nodup; eassumption|]. intros x Hx Hg. exact (C3 x Hg Hx).
Qed.

(* processed descriptors come from the pool; with distinct ids in the pool, "the same descriptor" = the same id *)
Lemma processed_in_pool : forall pool cs s g s' g', incl (processed g) pool ->
  gexec pool (s, g) cs = Ok (s', g') -> incl (processed g') pool.
Proof.
  intros pool. induction cs as [|c t IH]; intros s g s' g' Hi H; simpl in H; [inversion H; subst; exact Hi|].
  destruct c as [i|i|]; simpl in H.
  - destruct (nth_error pool i) as [d|] eqn:E; [|discriminate].
    destruct (ProcessDescriptor s d) as [[s1 [cl er]]| | |]; try discriminate. cbn [bind] in H.
    eapply IH; [|exact H]. simpl. intros x [<-|Hx]; [eapply nth_error_In; exact E|now apply Hi].
  - destruct (nth_error pool i) as [d|] eqn:E; [|discriminate]. destruct (Close s d) as [s1 [cl er]]. cbn [bind] in H.
    eapply IH; [|exact H]. exact Hi.
  - eapply IH; eassumption.
Qed.

Lemma NoDup_map_incl : forall {A B} (f : A -> B) (pool l : list A),
  NoDup (map f pool) -> incl l pool -> NoDup l -> NoDup (map f l).
Proof.
  intros A B f pool l Np Hi Nl. induction Nl as [|x t Hx Nt IH]; simpl; [constructor|].
  constructor; [|apply IH; intros y Hy; apply Hi; now right].
  intros X. apply in_map_iff in X. destruct X as (y & Hf & Hy).
  assert (y = x); [|subst; contradiction].
  assert (Hyp : In y pool) by (apply Hi; now right). assert (Hxp : In x pool) by (apply Hi; now left).
  clear -Np Hf Hyp Hxp. induction pool as [|p t IH]; [contradiction|]. simpl in Np. inversion Np; subst.
  destruct Hyp as [->|Hy], Hxp as [->|Hx]; auto.
  - exfalso. apply H1. rewrite Hf. now apply in_map.
  - exfalso. apply H1. rewrite <- Hf. now apply in_map.
Qed.

Theorem open_ids_nodup : forall pool cs s g, NoDup (ids pool) -> 
  gexec pool (NewState, g0) cs = Ok (s, g) -> Forall (call_in_pool pool) cs -> writes g <= 10 ->
  NoDup (ids (open s)).
Proof.
  intros pool cs s g Np HG HF W.
  destruct (inv_reachable pool cs _ Inv_new HF) as ([s2 g2] & HG2 & [H1 (Ha & Hb & Hc)]).
  rewrite HG in HG2. inversion HG2; subst s2 g2. simpl in *.
  destruct (Hc W) as (C1 & _). unfold ids. apply NoDup_map_incl with (pool := pool); [exact Np| |eapply subseq_nodup; eassumption].
  intros x Hx. eapply (processed_in_pool pool cs NewState g0 s g); [intros y []|exact HG|apply Ha; exact Hx].
Qed.

(* ---------- the ring forgets: the unconditional form is false ---------- *)
Definition no_reopen_full : Prop := forall pool cs s g, Forall (call_in_pool pool) cs ->
  gexec pool (NewState, g0) cs = Ok (s, g) -> NoDup (open s) /\ (forall x, In x (open s) -> ~ In x (gone g)).

(* eleven program-overlap starts (type 0x17 closes nothing) at eleven signal times, then the first again *)
Definition ring_pool : list desc :=
  map (fun i => mk (N.of_nat i) 0x17 1 true (1000 + 10 * N.of_nat i) 0 0 false 0 0 None) (seq 0 11).
Definition ring_script : list call := map CProcess (seq 0 11) ++ [CProcess 0].

Lemma no_reopen_full_refuted : ~ no_reopen_full.
Proof.
  intros F.
  assert (HF : Forall (call_in_pool ring_pool) ring_script).
  { unfold ring_script, ring_pool. apply Forall_forall. intros c Hc. vm_compute in Hc.
    repeat (destruct Hc as [<-|Hc]; [vm_compute; lia|]). contradiction. }
  destruct (gexec ring_pool (NewState, g0) ring_script) as [[s g]| | |] eqn:E; try (vm_compute in E; discriminate).
  destruct (F _ _ _ _ HF E) as [N _].
  vm_compute in E. inversion E; subst s g. clear E.
  inversion N as [|x l Hn _]; subst. apply Hn. vm_compute.
  repeat (try (left; reflexivity); right).
Qed.

(* the same history, as observed: the last Open() lists descriptor 0 twice *)
Lemma ring_history_observed :
  last (run ring_pool NewState ring_script) None =
  Some (mkObs [] 0 (Ok [0; 1; 2; 3; 4; 5; 6; 7; 8; 9; 10; 0]%N)) /\ writes (snd (match gexec ring_pool (NewState, g0) ring_script with Ok sg => sg | _ => (NewState, g0) end)) = 12.
Proof. vm_compute. split; reflexivity. Qed.

Theorem inv_reachable_new : forall pool cs, Forall (call_in_pool pool) cs ->
  exists sg', gexec pool (NewState, g0) cs = Ok sg' /\ Inv sg'.
Proof. intros pool cs H. exact (inv_reachable pool cs _ Inv_new H). Qed.
