(* C10 lemmas, part 1: list surgery, the close loop, the unconditional invariant I1 (blackout index valid
   and pointing at a breakaway, ring shape), absence of panics. *)
From Gots Require Import Base.Prelude Model.SegDesc Model.State Proofs.SegProofs.
Import SegDesc State.
Local Open Scope nat_scope.

(* ---------- list surgery ---------- *)

Definition remove_at {A} (i : nat) (l : list A) : list A := firstn i l ++ skipn (S i) l.

Lemma remove_at_length : forall {A} (l : list A) i, i < length l -> length (remove_at i l) = length l - 1.
Proof.
  intros A l i H. unfold remove_at. rewrite app_length, firstn_length, skipn_length. lia.
Qed.

Lemma nth_error_remove_lt : forall {A} (l : list A) i j, j < i -> i < length l ->
  nth_error (remove_at i l) j = nth_error l j.
Proof.
  intros A l i j H Hl. unfold remove_at.
  rewrite nth_error_app1 by (rewrite firstn_length; lia).
  revert l j H Hl. induction i; intros l j H Hl; [lia|].
  destruct l as [|a l]; [simpl in Hl; lia|]. destruct j; simpl; [reflexivity|].
  apply IHi; simpl in Hl; lia.
Qed.

Lemma nth_error_remove_ge : forall {A} (l : list A) i j, i <= j ->  i < length l ->
  nth_error (remove_at i l) j = nth_error l (S j).
Proof.
  intros A l i. revert l. induction i; intros l j H Hl.
  - unfold remove_at. simpl. destruct l; [simpl in Hl; lia|reflexivity].
  - destruct l as [|a l]; [simpl in Hl; lia|]. destruct j; [lia|].
    unfold remove_at in *. simpl. apply IHi; simpl in Hl; lia.
Qed.

Lemma nth_error_firstn_lt : forall {A} (l : list A) n j, j < n -> nth_error (firstn n l) j = nth_error l j.
Proof.
  intros A l n. revert l. induction n; intros l j H; [lia|].
  destruct l as [|a l]; [destruct j; reflexivity|]. destruct j; simpl; [reflexivity|]. apply IHn. lia.
Qed.

Lemma set_nth_length : forall {A} (l : list A) i v, length (set_nth l i v) = length l.
Proof. induction l; intros [|i] v; simpl; auto. Qed.

Lemma Forall_firstn : forall {A} (P : A -> Prop) n l, Forall P l -> Forall P (firstn n l).
Proof.
  intros A P n. induction n; intros l H; simpl; [constructor|].
  destruct l; [constructor|]. inversion H; subst. constructor; auto.
Qed.
Lemma Forall_skipn : forall {A} (P : A -> Prop) n l, Forall P l -> Forall P (skipn n l).
Proof.
  intros A P n. induction n; intros l H; simpl; [assumption|].
  destruct l; [constructor|]. inversion H; subst. auto.
Qed.

(* ---------- the close loop ---------- *)

(* closed is the longest closable prefix of the reversed stack *)
Lemma close_loop_prefix : forall d ropen,
  exists rest, ropen = close_loop d ropen ++ rest /\
               Forall (fun c => CanClose d c = true) (close_loop d ropen) /\
               match rest with [] => True | c :: _ => CanClose d c = false end.
Proof.
  intros d. induction ropen as [|x t IH]; simpl.
  - exists []. repeat split; constructor.
  - destruct (CanClose d x) eqn:E.
    + destruct IH as [rest [H1 [H2 H3]]]. exists rest. simpl. repeat split; auto. now rewrite <- H1.
    + exists (x :: t). simpl. repeat split; auto.
Qed.

Lemma close_loop_length : forall d l, length (close_loop d l) <= length l.
Proof. intros d. induction l; simpl; [lia|]. destruct (CanClose d a); simpl; lia. Qed.

(* the stack splits into what stays and the reversed closed list *)
Lemma close_loop_split : forall d opn,
  let closed := close_loop d (rev opn) in
  opn = firstn (length opn - length closed) opn ++ rev closed.
Proof.
  intros d opn closed. destruct (close_loop_prefix d (rev opn)) as [rest [H _]]. fold closed in H.
  assert (Ho : opn = rev rest ++ rev closed).
  { rewrite <- rev_app_distr, <- H. now rewrite rev_involutive. }
  assert (Hl : length opn - length closed = length (rev rest)).
  { rewrite Ho at 1. rewrite app_length, !rev_length. lia. }
  rewrite Hl. rewrite Ho at 2. rewrite firstn_app, Nat.sub_diag, firstn_all. simpl. rewrite app_nil_r. exact Ho.
Qed.

(* ---------- the ring keeps its length ---------- *)

Lemma scan_ring_length : forall d p ring a,
  length (fst (fst (scan_ring d p ring a))) = length ring.
Proof.
  intros d p. induction ring as [|[e|] t IH]; intros a; simpl; [reflexivity| |].
  - destruct (scan_descs d (epts e =? p)%N (edescs e) 0 a) as [[napp a1] [err|]]; simpl; [reflexivity|].
    specialize (IH a1). destruct (scan_ring d p t a1) as [[t' a2] r]. simpl in *. now rewrite IH.
  - specialize (IH a). destruct (scan_ring d p t a) as [[t' a2] r]. simpl in *. now rewrite IH.
Qed.

(* ---------- invariant I1 ---------- *)

Definition blackout_ok (s : state) : Prop :=
  inBlackout s = true ->
  blackoutIdx s < length (open s) /\ exists b, nth_error (open s) (blackoutIdx s) = Some b /\ ty b = 0x13%N.
Definition ring_ok (s : state) : Prop := length (received s) = 10 /\ receivedHead s < 10.
Definition I1 (s : state) : Prop :=
  blackout_ok s /\ ring_ok s /\ Forall (fun d => haspts d = true) (open s).

Lemma I1_intro : forall o r h b i,
  (i = true -> b < length o /\ exists x, nth_error o b = Some x /\ ty x = 0x13%N) ->
  length r = 10 -> h < 10 -> Forall (fun d => haspts d = true) o -> I1 (mkState o r h b i).
Proof. intros. split; [|split; [split|]]; simpl; assumption. Qed.

Lemma I1_new : I1 NewState.
Proof.
  split; [intros H; simpl in H; discriminate|]. split; [split; simpl; lia|constructor].
Qed.

Lemma Open_ok : forall s, I1 s -> exists l, Open s = Ok l.
Proof.
  intros s [B _]. unfold Open. destruct (inBlackout s) eqn:E; [|eauto].
  destruct (B E) as [H _].
  assert ((blackoutIdx s <=? length (open s)) = true) as -> by (apply Nat.leb_le; lia).
  assert ((blackoutIdx s + 1 <=? length (open s)) = true) as -> by (apply Nat.leb_le; lia).
  simpl. eauto.
Qed.

(* Open hides exactly the pending breakaway *)
Lemma Open_spec : forall s, I1 s ->
  Open s = Ok (if inBlackout s then remove_at (blackoutIdx s) (open s) else open s).
Proof.
  intros s [B _]. unfold Open. destruct (inBlackout s) eqn:E; [|reflexivity].
  destruct (B E) as [H _].
  assert ((blackoutIdx s <=? length (open s)) = true) as -> by (apply Nat.leb_le; lia).
  assert ((blackoutIdx s + 1 <=? length (open s)) = true) as -> by (apply Nat.leb_le; lia).
  simpl. unfold remove_at. now rewrite Nat.add_1_r.
Qed.

(* what ProcessDescriptor does after the duplicate scan, as a function of the scan's result *)
Definition inb_after_close (s : state) (open1 : list desc) : bool :=
  if inBlackout s && (length open1 <=? blackoutIdx s) then false else inBlackout s.

Lemma inb_after_close_true : forall s open1 n, blackout_ok s ->
  open1 = firstn n (open s) ->
  inb_after_close s open1 = true ->
  blackoutIdx s < length open1 /\ exists b, nth_error open1 (blackoutIdx s) = Some b /\ ty b = 0x13%N.
Proof.
  intros s open1 n B Ho H. unfold inb_after_close in H.
  destruct (inBlackout s) eqn:E; simpl in H; [|discriminate].
  destruct (Nat.leb_spec (length open1) (blackoutIdx s)); [discriminate|].
  split; [assumption|]. destruct (B E) as [_ [b [Hb Ht]]]. exists b. split; [|assumption].
  subst open1. rewrite nth_error_firstn_lt; [assumption|].
  rewrite firstn_length in H0. lia.
Qed.

Theorem process_I1 : forall s d, I1 s -> exists s' r, ProcessDescriptor s d = Ok (s', r) /\ I1 s'.
Proof.
  intros s d HI. pose proof HI as (B & (RL & RH) & HP). unfold ProcessDescriptor.
  destruct (haspts d) eqn:Hd; cbn [negb]; [|exists s; eexists; split; [reflexivity|exact HI]].
  pose proof (scan_ring_length d (ptsv d) (received s) false) as SL.
  destruct (scan_ring d (ptsv d) (received s) false) as [[ring1 added] early]. simpl in SL.
  destruct early as [err|].
  { eexists; eexists; split; [reflexivity|]. apply I1_intro; try assumption; try lia. }
  set (closed := close_loop d (rev (open s))).
  set (open1 := firstn (length (open s) - length closed) (open s)).
  fold (inb_after_close s open1).
  assert (HP1 : Forall (fun x => haspts x = true) open1) by (apply Forall_firstn; assumption).
  assert (HPd : Forall (fun x => haspts x = true) (open1 ++ [d])).
  { apply Forall_app. split; [assumption|]. constructor; [assumption|constructor]. }
  pose proof (inb_after_close_true s open1 _ B eq_refl) as BK.
  assert (exists ring2 head2,
    (if added then Ok (ring1, receivedHead s)
     else if receivedHead s <? length ring1
          then Ok (set_nth ring1 (receivedHead s) (Some (mkElem (ptsv d) [d])), (receivedHead s + 1) mod receivedRingLen)
          else Panic) = Ok (ring2, head2) /\ length ring2 = 10 /\ head2 < 10) as (ring2 & head2 & -> & RL2 & RH2).
  { destruct added.
    - exists ring1, (receivedHead s). repeat split; lia.
    - assert ((receivedHead s <? length ring1) = true) as -> by (apply Nat.ltb_lt; lia).
      eexists; eexists; split; [reflexivity|]. rewrite set_nth_length. split; [lia|].
      apply Nat.mod_upper_bound. discriminate. }
  cbn [bind].
  (* the blackout clause for "open1 kept, flags (blackoutIdx s, inb_after_close)" and for "open1 ++ [d]" *)
  assert (Keep : forall r h, length r = 10 -> h < 10 ->
            I1 (mkState open1 r h (blackoutIdx s) (inb_after_close s open1))).
  { intros r h Hr Hh. apply I1_intro; assumption. }
  assert (App : forall r h, length r = 10 -> h < 10 ->
            I1 (mkState (open1 ++ [d]) r h (blackoutIdx s) (inb_after_close s open1))).
  { intros r h Hr Hh. apply I1_intro; try assumption. intros Hi. destruct (BK Hi) as [L (b & Eb & Tb)]. split.
    - rewrite app_length. simpl. lia.
    - exists b. split; [|assumption]. rewrite nth_error_app1; assumption. }
  destruct (N.eqb_spec (ty d) 0x13).
  { eexists; eexists; split; [reflexivity|]. apply I1_intro; try assumption. intros _. split.
    - rewrite app_length. simpl. lia.
    - exists d. split; [|assumption]. rewrite nth_error_app2 by lia. now rewrite Nat.sub_diag. }
  destruct (N.eqb_spec (ty d) 0x14).
  { destruct (inb_after_close s open1) eqn:Hi.
    - assert (L : blackoutIdx s < length open1) by (apply BK; first [exact Hi|reflexivity]).
      assert ((blackoutIdx s <=? length open1) = true) as -> by (apply Nat.leb_le; lia).
      eexists; eexists; split; [reflexivity|]. apply I1_intro; try assumption; try discriminate.
      apply Forall_app. split; [apply Forall_firstn; assumption|constructor; [assumption|constructor]].
    - eexists; eexists; split; [reflexivity|]. apply App; assumption. }
  destruct (out_case (ty d)).
  { eexists; eexists; split; [reflexivity|]. apply App; assumption. }
  destruct (N.eqb_spec (ty d) 0x11).
  { eexists; eexists; split; [reflexivity|]. apply Keep; assumption. }
  destruct (in_case (ty d)); eexists; eexists; (split; [reflexivity|]); apply Keep; assumption.
Qed.

(* ---------- Close ---------- *)

Lemma find_last_equal_spec : forall d l i, find_last_equal d l = Some i ->
  i < length l /\ exists x, nth_error l i = Some x /\ Equal d x = true /\
  forall j y, i < j -> nth_error l j = Some y -> Equal d y = false.
Proof.
  intros d. induction l as [|a t IH]; intros i H; simpl in H; [discriminate|].
  destruct (find_last_equal d t) as [k|] eqn:E.
  - inversion H; subst. destruct (IH k eq_refl) as [L (x & Hx & He & Hlast)]. split; [simpl; lia|].
    exists x. repeat split; auto. intros j y Hj Hy. destruct j; [lia|]. simpl in Hy. apply (Hlast j); [lia|assumption].
  - destruct (Equal d a) eqn:Ea; [|discriminate]. inversion H; subst. split; [simpl; lia|].
    exists a. repeat split; auto. intros j y Hj Hy. destruct j; [lia|]. simpl in Hy.
    clear -E Hy. revert j Hy. induction t as [|b t IH]; intros j Hy; [destruct j; discriminate|].
    simpl in E. destruct (find_last_equal d t) eqn:E2; [discriminate|]. destruct (Equal d b) eqn:Eb; [discriminate|].
    destruct j; simpl in Hy; [now inversion Hy; subst|]. now apply (IH eq_refl j).
Qed.

Lemma find_last_equal_none : forall d l, find_last_equal d l = None -> Forall (fun x => Equal d x = false) l.
Proof.
  intros d. induction l as [|a t IH]; intros H; [constructor|]. simpl in H.
  destruct (find_last_equal d t); [discriminate|]. destruct (Equal d a) eqn:E; [discriminate|].
  constructor; auto.
Qed.

Theorem close_I1 : forall s d, I1 s -> I1 (fst (Close s d)).
Proof.
  intros s d HI. pose proof HI as (B & (RL & RH) & HP). unfold Close.
  destruct (find_last_equal d (open s)) as [i|] eqn:F; [|exact HI].
  destruct (find_last_equal_spec _ _ _ F) as [Li _].
  fold (remove_at i (open s)).
  assert (HP1 : Forall (fun x => haspts x = true) (remove_at i (open s))).
  { unfold remove_at. apply Forall_app. split; [now apply Forall_firstn|now apply Forall_skipn]. }
  destruct (inBlackout s) eqn:Hi; [|simpl; apply I1_intro; try assumption; discriminate].
  destruct (B Hi) as [Lb (b & Hb & Tb)].
  destruct (Nat.eqb_spec i (blackoutIdx s)).
  { simpl. apply I1_intro; try assumption; discriminate. }
  destruct (Nat.ltb_spec i (blackoutIdx s)); simpl; apply I1_intro; try assumption; intros _; split.
  - rewrite remove_at_length by assumption. lia.
  - exists b. split; [|assumption]. rewrite nth_error_remove_ge by lia.
    replace (S (blackoutIdx s - 1)) with (blackoutIdx s) by lia. assumption.
  - rewrite remove_at_length by assumption. lia.
  - exists b. split; [|assumption]. rewrite nth_error_remove_lt by lia. assumption.
Qed.
