(* Proofs for C18 (Write / ReadFrom) and their C05 totality clauses. *)
From Gots Require Import Base.Prelude Model.PacketWriter Spec.IOSpec.
Import PacketWriter.
Local Open Scope nat_scope.

Notation PS := IOSpec.PacketSize.
Lemma PS_val : PS = 188. Proof. reflexivity. Qed.
Lemma PSm_val : PacketSize = 188. Proof. reflexivity. Qed.

(* ------------------------------------------------------------------ chunks *)
Import IOSpec.

Lemma skipn_skipn {A} : forall (x y : nat) (l : list A), skipn x (skipn y l) = skipn (x + y) l.
Proof.
  intros x y. revert x. induction y as [|y IH]; intros x l.
  - rewrite Nat.add_0_r. reflexivity.
  - destruct l as [|a l]; [rewrite !skipn_nil; reflexivity|].
    replace (x + S y) with (S (x + y)) by lia. cbn [skipn]. apply IH.
Qed.

Lemma chunks_fuel_enough : forall f l f', length l <= f -> length l <= f' ->
  chunks_fuel f l = chunks_fuel f' l.
Proof.
  induction f as [|f IH]; intros l f' H H'.
  - destruct l; [|cbn in H; lia]. destruct f'; reflexivity.
  - destruct f' as [|f'].
    + destruct l; [|cbn in H'; lia]. reflexivity.
    + cbn [chunks_fuel]. destruct (Nat.leb_spec PS (length l)) as [Hl|Hl]; [|reflexivity].
      f_equal. apply IH; rewrite skipn_length; rewrite PS_val in *; lia.
Qed.

Lemma full_chunks_ge D : PS <= length D ->
  full_chunks D = firstn PS D :: full_chunks (skipn PS D).
Proof.
  intro H. unfold full_chunks. destruct (length D) as [|n] eqn:E; [rewrite PS_val in H; lia|].
  cbn [chunks_fuel]. rewrite E. destruct (Nat.leb_spec PS (S n)) as [_|Hl]; [|lia].
  f_equal. apply chunks_fuel_enough; rewrite skipn_length; rewrite PS_val in *; lia.
Qed.

Lemma full_chunks_lt D : length D < PS -> full_chunks D = [].
Proof.
  intro H. unfold full_chunks. destruct (length D) as [|n] eqn:E; [reflexivity|].
  cbn [chunks_fuel]. rewrite E. destruct (Nat.leb_spec PS (S n)); [lia|reflexivity].
Qed.

Lemma tail_lt D : length D < PS -> tail D = D.
Proof. intro H. unfold tail. rewrite full_chunks_lt by exact H. cbn [length]. rewrite Nat.mul_0_r. reflexivity. Qed.

Lemma tail_ge D : PS <= length D -> tail D = tail (skipn PS D).
Proof.
  intro H. unfold tail. rewrite full_chunks_ge by exact H. cbn [length].
  rewrite skipn_skipn. f_equal. lia.
Qed.

(* induction principle: strip one packet at a time *)
Lemma chunk_ind (P : list N -> Prop) :
  (forall D, length D < PS -> P D) ->
  (forall D, PS <= length D -> P (skipn PS D) -> P D) ->
  forall D, P D.
Proof.
  intros Hlt Hge D. remember (length D) as n eqn:En. revert D En.
  induction n as [n IH] using lt_wf_ind. intros D En.
  destruct (Nat.lt_ge_cases (length D) PS) as [H|H]; [exact (Hlt D H)|].
  apply Hge; [exact H|]. apply (IH (length (skipn PS D))); [|reflexivity].
  rewrite skipn_length. rewrite PS_val in *. lia.
Qed.

(* the chunks and the tail partition the data; every chunk is a packet; the tail is shorter *)
Lemma chunks_partition D :
  concat (full_chunks D) ++ tail D = D /\ Forall (fun c => length c = PS) (full_chunks D) /\ length (tail D) < PS.
Proof.
  induction D as [D H|D H [IH1 [IH2 IH3]]] using chunk_ind.
  - rewrite tail_lt, full_chunks_lt by exact H. cbn. auto.
  - rewrite tail_ge, full_chunks_ge by exact H. cbn [concat]. repeat split.
    + rewrite <- app_assoc, IH1. apply firstn_skipn.
    + constructor; [|exact IH2]. rewrite firstn_length. lia.
    + exact IH3.
Qed.

Lemma chunks_length D : length D = PS * length (full_chunks D) + length (tail D).
Proof.
  induction D as [D H|D H IH] using chunk_ind.
  - rewrite tail_lt, full_chunks_lt by exact H. cbn. lia.
  - rewrite tail_ge, full_chunks_ge by exact H. cbn [length].
    rewrite skipn_length in IH. rewrite PS_val in *. lia.
Qed.

Lemma tail_nil_iff D : tail D = [] <-> length D mod PS = 0.
Proof.
  pose proof (chunks_length D) as HL. destruct (chunks_partition D) as [_ [_ Ht]].
  rewrite PS_val in *. split; intro H.
  - rewrite H in HL. cbn [length] in HL. lia.
  - destruct (tail D) as [|x t]; [reflexivity|]. cbn [length] in *. lia.
Qed.

(* ------------------------------------------------------------------ copy(pw.pkt[:], src) *)
Lemma blit_nat_full : forall dst src, length dst <= length src ->
  blit_nat dst 0 src = firstn (length dst) src.
Proof.
  induction dst as [|d t IH]; intros src H; [reflexivity|].
  destruct src as [|s ss]; [cbn in H; lia|].
  cbn [blit_nat length firstn]. f_equal. apply IH. cbn in H. lia.
Qed.

Lemma blit_full pkt src : length pkt = PS -> PS <= length src -> blit pkt 0 src = firstn PS src.
Proof.
  intros Hp Hs. unfold blit. change (N.to_nat 0) with 0. rewrite blit_nat_full by lia.
  rewrite Hp. reflexivity.
Qed.

(* ------------------------------------------------------------------ Write *)
Lemma slice_from_skipn (p : bytes) (i : N) : (i <= len p)%N ->
  slice_from p i = Ok (skipn (N.to_nat i) p).
Proof.
  intro H. unfold slice_from, slice.
  assert (((i <=? len p) && (len p <=? len p))%N = true) as ->.
  { apply andb_true_intro. split; apply N.leb_le; lia. }
  f_equal. apply firstn_all2. rewrite skipn_length. unfold len in *. lia.
Qed.

(* what Write does, told over the list of chunks: the oracle is asked chunk by chunk until it fails *)
Fixpoint w_spec (w : wfun) (cs : list bytes) (n : Z) (k : nat) (calls : list bytes) (plen : Z)
  : Z * option N * list bytes :=
  match cs with
  | [] => (n, if (n <? plen)%Z then Some ErrShortWrite else None, calls)
  | c :: cs' =>
    let (m, e) := w k c in
    match e with
    | None => w_spec w cs' (n + m)%Z (S k) (calls ++ [c]) plen
    | Some e => ((n + m)%Z, Some e, calls ++ [c])
    end
  end.

Lemma write_loop_S f w p i pkt n k calls :
  write_loop (S f) w p i pkt n k calls =
  if (i <? len p)%N then
    let? src := slice_from p i in
    let pkt' := blit pkt 0 src in
    let (m, e) := w k pkt' in
    match e with
    | None => write_loop f w p (i + 188)%N pkt' (n + m)%Z (S k) (calls ++ [pkt'])
    | Some e => Ok ((n + m)%Z, Some e, calls ++ [pkt'])
    end
  else Ok (n, if (n <? zlen p)%Z then Some ErrShortWrite else None, calls).
Proof. reflexivity. Qed.

Lemma write_loop_spec w : forall fuel R, length R mod PS = 0 -> length R < fuel ->
  forall p i pkt n k calls, (i <= len p)%N -> skipn (N.to_nat i) p = R -> length pkt = PS ->
  write_loop fuel w p i pkt n k calls = Ok (w_spec w (full_chunks R) n k calls (zlen p)).
Proof.
  induction fuel as [|f IH]; intros R Hm Hf p i pkt n k calls Hi HR Hp; [lia|].
  rewrite write_loop_S.
  assert (HlenR : length R = length p - N.to_nat i) by (rewrite <- HR; apply skipn_length).
  destruct (N.ltb_spec i (len p)) as [Hlt|Hge].
  - assert (HR188 : PS <= length R).
    { unfold len in *. rewrite PS_val in *. destruct (length R) eqn:E; [lia|].
      assert (S n0 mod 188 = 0) by exact Hm. lia. }
    rewrite slice_from_skipn by exact Hi. cbn [bind]. rewrite HR.
    rewrite blit_full by assumption.
    rewrite full_chunks_ge by exact HR188. cbn [w_spec].
    destruct (w k (firstn PS R)) as [m [e|]]; [reflexivity|].
    apply IH.
    + rewrite skipn_length. rewrite PS_val in *. lia.
    + rewrite skipn_length. rewrite PS_val in *. lia.
    + unfold len in *. rewrite PS_val in *. lia.
    + rewrite <- HR, skipn_skipn. f_equal. rewrite PS_val. lia.
    + rewrite firstn_length. lia.
  - assert (length R = 0) by (unfold len in *; lia).
    destruct R; [|cbn in H; lia]. reflexivity.
Qed.

Lemma len_mod (p : bytes) : ((len p mod 188 =? 0)%N = true) <-> length p mod PS = 0.
Proof.
  rewrite N.eqb_eq. unfold len. rewrite PS_val. split; intro H; lia.
Qed.

Lemma write_spec w pkt p : length pkt = PS -> length p mod PS = 0 ->
  write w pkt p = Ok (w_spec w (full_chunks p) 0%Z 0 [] (zlen p)).
Proof.
  intros Hp Hm. unfold write.
  assert ((len p mod 188 =? 0)%N = true) as -> by (apply len_mod; exact Hm).
  cbn [negb]. apply write_loop_spec; auto. unfold len; lia.
Qed.

Lemma write_bad_len w pkt p : length p mod PS <> 0 ->
  write w pkt p = Ok (0%Z, Some E.InvalidPacketLength, []).
Proof.
  intro H. unfold write. destruct (N.eqb_spec (len p mod 188)%N 0%N) as [E0|E0]; [|reflexivity].
  exfalso. apply H. apply len_mod. apply N.eqb_eq. exact E0.
Qed.

(* all calls succeed with 188 *)
Lemma w_spec_ok w plen : forall cs n k calls,
  (forall j, j < length cs -> w (k + j) (nth j cs []) = (188%Z, None)) ->
  w_spec w cs n k calls plen =
  ((n + 188 * Z.of_nat (length cs))%Z,
   if (n + 188 * Z.of_nat (length cs) <? plen)%Z then Some ErrShortWrite else None, calls ++ cs).
Proof.
  induction cs as [|c cs IH]; intros n k calls H.
  - cbn [w_spec length]. rewrite app_nil_r. replace (n + 188 * Z.of_nat 0)%Z with n by lia. reflexivity.
  - cbn [w_spec]. pose proof (H 0 ltac:(cbn; lia)) as H0. rewrite Nat.add_0_r in H0. cbn [nth] in H0.
    rewrite H0. rewrite IH.
    + cbn [length]. rewrite <- app_assoc. cbn [app].
      replace (n + 188 + 188 * Z.of_nat (length cs))%Z with (n + 188 * Z.of_nat (S (length cs)))%Z by lia.
      reflexivity.
    + intros j Hj. specialize (H (S j) ltac:(cbn; lia)). cbn [nth] in H.
      replace (S k + j) with (k + S j) by lia. exact H.
Qed.

(* the first failing call stops the delivery *)
Lemma w_spec_fail w plen : forall cs n k calls kf m e, kf < length cs ->
  (forall j, j < kf -> w (k + j) (nth j cs []) = (188%Z, None)) ->
  w (k + kf) (nth kf cs []) = (m, Some e) ->
  w_spec w cs n k calls plen = ((n + 188 * Z.of_nat kf + m)%Z, Some e, calls ++ firstn (S kf) cs).
Proof.
  induction cs as [|c cs IH]; intros n k calls kf m e Hk Hok Hf; [cbn in Hk; lia|].
  destruct kf as [|kf].
  - cbn [w_spec]. rewrite Nat.add_0_r in Hf. cbn [nth] in Hf. rewrite Hf.
    cbn [firstn]. do 2 f_equal. lia.
  - cbn [w_spec]. pose proof (Hok 0 ltac:(lia)) as H0. rewrite Nat.add_0_r in H0. cbn [nth] in H0.
    rewrite H0. rewrite (IH _ _ _ kf m e).
    + cbn [firstn]. rewrite <- app_assoc. cbn [app]. do 2 f_equal. lia.
    + cbn in Hk. lia.
    + intros j Hj. specialize (Hok (S j) ltac:(lia)). cbn [nth] in Hok.
      replace (S k + j) with (k + S j) by lia. exact Hok.
    + cbn [nth] in Hf. replace (S k + kf) with (k + S kf) by lia. exact Hf.
Qed.

Lemma write_ok w pkt p : length pkt = PS -> length p mod PS = 0 ->
  (forall j c, w j c = (188%Z, None)) ->
  write w pkt p = Ok (zlen p, None, full_chunks p).
Proof.
  intros Hp Hm Hw. rewrite write_spec by assumption. rewrite w_spec_ok by (intros; apply Hw).
  assert (HL : zlen p = (188 * Z.of_nat (length (full_chunks p)))%Z).
  { pose proof (chunks_length p) as HL. apply tail_nil_iff in Hm. rewrite Hm in HL. cbn [length] in HL.
    unfold zlen. rewrite PS_val in HL. lia. }
  cbn [app]. rewrite HL, Z.add_0_l, Z.ltb_irrefl. reflexivity.
Qed.

Lemma write_fail_stops w pkt p kf m e : length pkt = PS -> length p mod PS = 0 ->
  kf < length (full_chunks p) ->
  (forall j, j < kf -> w j (nth j (full_chunks p) []) = (188%Z, None)) ->
  w kf (nth kf (full_chunks p) []) = (m, Some e) ->
  write w pkt p = Ok ((188 * Z.of_nat kf + m)%Z, Some e, firstn (S kf) (full_chunks p)).
Proof.
  intros Hp Hm Hk Hok Hf. rewrite write_spec by assumption.
  rewrite (w_spec_fail w (zlen p) _ 0%Z 0 [] kf m e Hk Hok Hf). reflexivity.
Qed.

(* C05: Write is total for every slice and every writer oracle *)
Lemma write_total w pkt p : length pkt = PS ->
  write w pkt p <> Panic /\ write w pkt p <> Diverge.
Proof.
  intro Hp. destruct (Nat.eq_dec (length p mod PS) 0) as [Hm|Hm].
  - rewrite write_spec by assumption. split; discriminate.
  - rewrite write_bad_len by assumption. split; discriminate.
Qed.
