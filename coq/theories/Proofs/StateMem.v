(* C10 lemmas, part 7: bounded memory.  Since /repo 34afac6 a ProcessDescriptor call stores its descriptor
   at most once, so everything the tracker keeps (the descriptor lists of the 10 ring entries, the open
   stack) is bounded by the number of ProcessDescriptor calls made so far. *)
From Gots Require Import Base.Prelude Model.SegDesc Model.State
  Proofs.SegProofs Proofs.StateBasics Proofs.StateRun Proofs.StateDup Proofs.StateInv Proofs.StateWrites.
Import SegDesc State.
Local Open Scope nat_scope.

(* number of descriptors stored in the ring, with multiplicity *)
Fixpoint stored (ring : list (option elem)) : nat :=
  match ring with
  | [] => 0
  | None :: t => stored t
  | Some e :: t => length (edescs e) + stored t
  end.

Lemma stored_entry : forall ring e, In (Some e) ring -> length (edescs e) <= stored ring.
Proof.
  induction ring as [|[x|] t IH]; intros e H; simpl in *; [contradiction| |].
  - destruct H as [H|H]; [inversion H; subst; lia|]. specialize (IH e H). lia.
  - destruct H as [H|H]; [discriminate|auto].
Qed.

Lemma scan_ring_stored : forall d p ring a ring1 a' r, scan_ring d p ring a = (ring1, a', r) ->
  stored ring <= stored ring1 /\ stored ring1 <= S (stored ring) /\
  (stored ring < stored ring1 -> a = false /\ a' = true) /\ (a = true -> a' = true).
Proof.
  intros d p. induction ring as [|[e|] t IH]; intros a ring1 a' r H; simpl in H.
  - inversion H; subst. simpl. repeat split; try lia; auto.
  - destruct (scan_descs d (epts e =? p)%N (edescs e) 0 a) as [[napp a1] r1] eqn:SD.
    destruct (scan_descs_napp _ _ _ _ _ _ _ _ SD) as (N1 & N2 & N3 & N4).
    destruct r1 as [x|].
    + inversion H; subst. simpl. rewrite app_length, repeat_length.
      split; [lia|]. split; [lia|]. split; [|exact N4].
      intros X. assert (0 < napp) by lia. destruct (N3 H0) as (_ & A & B). auto.
    + destruct (scan_ring d p t a1) as [[t' a2] r2] eqn:R. inversion H; subst. clear H.
      destruct (IH _ _ _ _ R) as (I1 & I2 & I3 & I4). simpl. rewrite app_length, repeat_length.
      assert (napp = 0 \/ napp = 1) as [->| ->] by lia.
      * split; [lia|]. split; [lia|]. split.
        -- intros X. assert (Y : stored t < stored t') by lia. destruct (I3 Y) as [A B]. split; [|exact B].
           destruct a; [|reflexivity]. rewrite (N4 eq_refl) in A. discriminate.
        -- intros X. apply I4. now apply N4.
      * destruct (N3 ltac:(lia)) as (_ & A & B). subst a a1.
        assert (~ stored t < stored t') by (intros Y; destruct (I3 Y) as [Z _]; discriminate).
        split; [lia|]. split; [lia|]. split; [intros _; split; [reflexivity|now apply I4]|discriminate].
  - destruct (scan_ring d p t a) as [[t' a2] r2] eqn:R. inversion H; subst. simpl. eapply IH; eassumption.
Qed.

Lemma set_nth_stored : forall ring h e, stored (set_nth ring h (Some e)) <= stored ring + length (edescs e).
Proof.
  induction ring as [|x t IH]; intros h e; destruct h; simpl; try lia.
  - destruct x; lia.
  - specialize (IH h e). destruct x; lia.
Qed.

Lemma subseq_length : forall {A} (l m : list A), subseq l m -> length l <= length m.
Proof. intros A l m H. induction H; simpl; lia. Qed.

Theorem process_mem : forall s d s' closed err, I1 s -> ProcessDescriptor s d = Ok (s', (closed, err)) ->
  stored (received s') <= S (stored (received s)) /\ length (open s') <= S (length (open s)).
Proof.
  intros s d s' closed err H1 H.
  destruct (process_shape _ _ _ _ _ H1 H) as
    [(_ & _ & Ho & _ & _ & _ & Hn & Hp)|(_ & Hd & (ring1 & added & SR & Hr & _) & _ & keep & Hko & Ho)].
  - rewrite Ho. split; [|lia]. destruct (haspts d) eqn:Hd; [|rewrite (Hn eq_refl); lia].
    destruct (Hp eq_refl) as (ring1 & added & x & SR & -> & _).
    destruct (scan_ring_stored _ _ _ _ _ _ _ SR) as (_ & X & _). exact X.
  - destruct (scan_ring_stored _ _ _ _ _ _ _ SR) as (S1 & S2 & S3 & _). split.
    + rewrite Hr. destruct added; [exact S2|].
      assert (stored ring1 = stored (received s)).
      { destruct (Nat.eq_dec (stored ring1) (stored (received s))) as [E|E]; [exact E|].
        assert (X : stored (received s) < stored ring1) by lia. destruct (S3 X) as [_ Y]. discriminate. }
      pose proof (set_nth_stored ring1 (receivedHead s) (mkElem (ptsv d) [d])) as X. simpl in X. lia.
    + cbv zeta in Ho. rewrite Ho.
      assert (L : length (if (ty d =? 20)%N && inb_after_close s keep then firstn (blackoutIdx s) keep else keep) <= length (open s)).
      { rewrite Hko, app_length. destruct ((ty d =? 20)%N && inb_after_close s keep); [rewrite firstn_length|]; lia. }
      destruct (appended (ty d)); [rewrite app_length; simpl|]; lia.
Qed.

(* the invariant along a run: ring contents and open stack are bounded by the ProcessDescriptor calls so far *)
Definition Mem (sg : state * ghost) : Prop :=
  stored (received (fst sg)) <= length (processed (snd sg)) /\ length (open (fst sg)) <= length (processed (snd sg)).

Theorem mem_step : forall pool sg c sg', I1 (fst sg) -> Mem sg -> gstep pool sg c = Ok sg' -> Mem sg'.
Proof.
  intros pool [s g] c sg' H1 [M1 M2] H. simpl in *. destruct c as [i|i|]; simpl in H.
  - destruct (nth_error pool i) as [d|]; [|discriminate].
    destruct (ProcessDescriptor s d) as [[s1 [cl er]]| | |] eqn:P; try discriminate. cbn [bind] in H. inversion H; subst sg'.
    destruct (process_mem _ _ _ _ _ H1 P) as [A B]. split; simpl; lia.
  - destruct (nth_error pool i) as [d|]; [|discriminate].
    pose proof (close_ring s d) as [R1 _]. destruct (Close s d) as [s1 [cl er]] eqn:C. inversion H; subst sg'. simpl in *.
    unfold Mem. simpl. split; [now rewrite R1|].
    destruct (close_sound _ _ _ _ _ C) as [(_ & _ & -> & _)|(_ & k & c & _ & Hk & _ & Ho & _)]; [exact M2|].
    rewrite Ho. pose proof (subseq_length _ _ (subseq_remove_at k (open s))). lia.
  - inversion H; subst sg'. split; assumption.
Qed.

Fixpoint n_process (cs : list call) : nat :=
  match cs with [] => 0 | CProcess _ :: t => S (n_process t) | _ :: t => n_process t end.

Lemma processed_of_length : forall pool cs acc, Forall (call_in_pool pool) cs ->
  length (processed_of pool cs acc) = n_process cs + length acc.
Proof.
  intros pool. induction cs as [|c t IH]; intros acc HF; simpl; [reflexivity|].
  inversion HF; subst. destruct c as [i|i|]; simpl in *; try (now apply IH).
  destruct (nth_error pool i) as [d|] eqn:E; [|apply nth_error_None in E; lia].
  rewrite IH by assumption. simpl. lia.
Qed.

(* BOUNDED MEMORY: after any history, what the tracker stores is bounded by the number of
   ProcessDescriptor calls in it: the 10 ring entries together hold at most that many descriptors
   (so does each of them), and so does the open stack *)
Theorem bounded_memory : forall pool cs, Forall (call_in_pool pool) cs ->
  exists s g, gexec pool (NewState, g0) cs = Ok (s, g) /\ exec pool NewState cs = Ok s /\
    length (received s) = 10 /\
    stored (received s) <= n_process cs /\
    (forall e, In (Some e) (received s) -> length (edescs e) <= n_process cs) /\
    length (open s) <= n_process cs.
Proof.
  intros pool cs HF.
  assert (G : forall cs sg, Inv sg -> Mem sg -> Forall (call_in_pool pool) cs ->
              exists sg', gexec pool sg cs = Ok sg' /\ Inv sg' /\ Mem sg').
  { induction cs0 as [|c t IH]; intros sg HI HM HF0; simpl; [eauto|].
    inversion HF0; subst. destruct (inv_step pool sg c HI H1) as (sg' & HS & HI'). rewrite HS. cbn [bind].
    apply IH; auto. eapply mem_step; [exact (proj1 HI)|exact HM|exact HS]. }
  destruct (G cs (NewState, g0) Inv_new) as ([s g] & HG & [H1 _] & [M1 M2]); [split; simpl; lia|exact HF|].
  simpl in *. exists s, g. split; [exact HG|]. split; [eapply gexec_exec; exact HG|].
  assert (L : length (processed g) = n_process cs).
  { rewrite (gexec_processed _ _ _ _ _ _ HG). simpl. rewrite processed_of_length by assumption. simpl. lia. }
  rewrite L in *. split; [apply H1|]. split; [exact M1|]. split; [|exact M2].
  intros e He. pose proof (stored_entry _ _ He). lia.
Qed.
