(* C05, "memory bounded by a small multiple of the input size": what a decoder model returns is no larger than a
   constant times its input.  Statements in Properties/C05Bound.v. *)
From Gots Require Import Base.Prelude Model.Psi Model.Pat Model.Pmt Model.Pts Model.Scte.
From Gots Require Proofs.PmtTotal Proofs.ScteTotal Proofs.ScteLemmas.
Local Open Scope N_scope.
Local Notation length := List.length (only parsing).
Arguments N.mul : simpl never. Arguments N.add : simpl never. Arguments N.sub : simpl never.
Arguments N.ltb : simpl never. Arguments N.eqb : simpl never. Arguments N.leb : simpl never.
Arguments N.lor : simpl never. Arguments N.land : simpl never. Arguments N.shiftl : simpl never.

Lemma bind_ok {A B} (r : Res A) (f : A -> Res B) y : bind r f = Ok y -> exists x, r = Ok x /\ f x = Ok y.
Proof. destruct r; cbn; intro H; try discriminate. eauto. Qed.
Lemma len_app_ {A} (a b : list A) : len (a ++ b) = len a + len b.
Proof. unfold len. rewrite app_length. lia. Qed.

(* ================================================================== PAT: ProgramMap *)
Lemma filter_len_le {A} (f : A -> bool) l : (length (filter f l) <= length l)%nat.
Proof. induction l as [|x t IH]; [cbn; lia|]. cbn [filter]. destruct (f x); cbn [List.length]; lia. Qed.
Lemma map_insert_len k v m : (length (Pat.map_insert k v m) <= S (length m))%nat.
Proof. unfold Pat.map_insert. cbn [List.length]. pose proof (filter_len_le (fun kv : N * N => negb (fst kv =? k)) m). lia. Qed.
Lemma program_map_loop_len : forall n pat c m m',
  Pat.program_map_loop n pat c m = Ok m' -> (length m' <= length m + n)%nat.
Proof.
  induction n as [|n IH]; intros pat c m m' H; cbn [Pat.program_map_loop] in H; [injection H as <-; lia|].
  apply bind_ok in H. destruct H as [a [_ H]]. apply bind_ok in H. destruct H as [b [_ H]].
  apply bind_ok in H. destruct H as [c' [_ H]]. apply bind_ok in H. destruct H as [d [_ H]].
  apply IH in H. destruct (0 <? _); [pose proof (map_insert_len (N.lor (N.shiftl a 8) b) (N.lor (N.shiftl (N.land c' 31) 8) d) m)|]; lia.
Qed.
(* NumPrograms is at most (len(pat) - 9) / 4, so the map has at most len(pat) / 4 entries *)
Theorem program_map_bound pat m : Pat.program_map pat = Ok m -> (4 * length m <= length pat)%nat.
Proof.
  unfold Pat.program_map. intro H. apply bind_ok in H. destruct H as [pf [_ H]].
  apply bind_ok in H. destruct H as [n [Hn H]]. apply program_map_loop_len in H. cbn [List.length] in H.
  unfold Pat.num_programs in Hn. apply bind_ok in Hn. destruct Hn as [sl [_ Hn]].
  apply bind_ok in Hn. destruct Hn as [pf' [_ Hn]]. injection Hn as <-.
  set (x := (if (zlen pat - Z.of_N pf' <? Z.of_N sl)%Z then (zlen pat - Z.of_N pf')%Z else Z.of_N sl)) in *.
  assert (Hx : (x <= zlen pat)%Z) by (unfold x; destruct (Z.ltb_spec (zlen pat - Z.of_N pf') (Z.of_N sl)); lia).
  unfold zlen in Hx.
  destruct (Z.ltb_spec (x - 2 - 1 - 1 - 1 - 4) 0) as [Neg|Pos].
  - set (y := (x - 2 - 1 - 1 - 1 - 4)%Z) in *.
    assert (Z.quot y 4 <= 0)%Z.
    { replace y with (- (- y))%Z by lia. rewrite Z.quot_opp_l by lia.
      pose proof (Z.quot_pos (- y) 4 ltac:(lia) ltac:(lia)). lia. }
    lia.
  - rewrite Z.quot_div_nonneg in H by lia. lia.
Qed.

(* ================================================================== PMT: number of elementary streams *)
(* every round of the stream loop starts below `bound` and advances the offset by at least five bytes *)
Lemma parse_streams_count : forall fuel bs offset bound ps acc r,
  is_bytes bs -> bound <= 8192 -> offset <= 16384 ->
  Pmt.parse_streams fuel bs offset bound ps acc = Ok r ->
  5 * len (snd r) + offset <= 5 * len acc + N.max offset (bound + 4).
Proof.
  induction fuel as [|f IH]; intros bs offset bound ps acc r HB Hb Ho H; [discriminate|].
  cbn [Pmt.parse_streams] in H. destruct (N.ltb_spec offset bound) as [Lt|Ge]; [|injection H as <-; cbn [snd]; lia].
  apply bind_ok in H. destruct H as [t [_ H]]. apply bind_ok in H. destruct H as [b1 [_ H]].
  apply bind_ok in H. destruct H as [b2 [_ H]]. apply bind_ok in H. destruct H as [b3 [_ H]].
  apply bind_ok in H. destruct H as [b4 [H4 H]].
  pose proof (PmtTotal.field12_bound b3 b4 (PmtTotal.is_bytes_idx _ _ _ HB H4)) as IL.
  set (il := N.lor (N.shiftl (N.land b3 15) 8) b4) in *.
  unfold w16 in H. rewrite (N.mod_small (offset + 5)) in H by lia.
  destruct (negb (il =? 0) && _) in H.
  - apply bind_ok in H. destruct H as [ds [_ H]]. rewrite (N.mod_small (offset + 5 + il)) in H by lia.
    apply IH in H; try assumption; try lia. rewrite len_app_ in H. unfold len at 3 in H. cbn [List.length] in H. lia.
  - apply IH in H; try assumption; try lia. rewrite len_app_ in H. unfold len at 3 in H. cbn [List.length] in H. lia.
Qed.

Lemma parse_pmt_section_count sec p : is_bytes sec -> Pmt.parse_pmt_section sec = Ok p ->
  5 * len (Pmt.streams p) <= Psi.section_length' sec.
Proof.
  intros HB H. pose proof (PmtTotal.section_length'_bound sec HB) as SB. unfold Pmt.parse_pmt_section in H.
  set (sl := Psi.section_length' sec) in *.
  destruct (len sec <=? 11); [discriminate|]. destruct (N.ltb_spec sl 9) as [Lt|Ge]; [discriminate|].
  apply bind_ok in H. destruct H as [vc [_ H]]. apply bind_ok in H. destruct H as [p10 [_ H]].
  apply bind_ok in H. destruct H as [p11 [H11 H]].
  pose proof (PmtTotal.field12_bound p10 p11 (PmtTotal.is_bytes_idx _ _ _ HB H11)) as PB.
  set (pil := N.lor (N.shiftl (N.land p10 15) 8) p11) in *.
  apply bind_ok in H. destruct H as [r [Hr H]]. injection H as <-. cbn [Pmt.streams].
  unfold w16 in Hr. rewrite (N.mod_small (12 + pil)) in Hr by lia. rewrite PmtTotal.stream_bound_total in Hr by lia.
  apply parse_streams_count in Hr; try assumption; try lia. unfold len at 2 in Hr. cbn [List.length] in Hr. lia.
Qed.

(* the table loop: the PMT in hand always satisfies the bound against the bytes that were still unread when it was
   parsed, which are a suffix of the input *)
Lemma tables_loop_count : forall fuel sb p q L, is_bytes sb -> len sb <= L -> 5 * len (Pmt.streams p) <= L ->
  Pmt.tables_loop fuel sb p = Ok q -> 5 * len (Pmt.streams q) <= L.
Proof.
  induction fuel as [|f IH]; intros sb p q L HB HL HP H; [discriminate|]. cbn [Pmt.tables_loop] in H.
  destruct (N.ltb_spec 2 (len sb)) as [L3|S]; [|injection H as <-; exact HP].
  apply bind_ok in H. destruct H as [b0 [_ H]]. destruct (b0 =? 255); [injection H as <-; exact HP|].
  pose proof (PmtTotal.section_length'_bound _ HB) as SB. set (tl := Psi.section_length' sb) in *.
  destruct (N.ltb_spec (len sb) (3 + tl)) as [Lt|Ge]; [discriminate|].
  unfold w16 in H. rewrite (N.mod_small (3 + tl)) in H by lia.
  apply bind_ok in H. destruct H as [p' [Hp' H]]. apply bind_ok in H. destruct H as [sb' [Hsb' H]].
  assert (HB' : is_bytes sb') by (eapply PmtTotal.is_bytes_slice; eassumption).
  assert (HL' : len sb' <= L).
  { unfold slice_from in Hsb'. destruct (PmtTotal.slice_len _ _ _ _ Hsb') as (E & _ & _). lia. }
  apply (IH sb' p' q L HB' HL'); [|exact H].
  destruct (Psi.table_id' sb =? 2); [|injection Hp' as <-; exact HP].
  apply bind_ok in Hp'. destruct Hp' as [sec [Hsec Hp']].
  assert (HBs : is_bytes sec) by exact (PmtTotal.is_bytes_slice _ _ _ _ HB Hsec).
  pose proof (parse_pmt_section_count sec p' HBs Hp') as C.
  destruct (PmtTotal.slice_len _ _ _ _ Hsec) as (LS & _ & _).
  rewrite PmtTotal.slice_0 in Hsec by lia. injection Hsec as <-.
  rewrite PmtTotal.section_length'_firstn in C by lia. fold tl in C. lia.
Qed.

Theorem new_pmt_streams_bound b p : is_bytes b -> Pmt.new_pmt b = Ok p -> 5 * len (Pmt.streams p) <= len b.
Proof.
  intros HB H. unfold Pmt.new_pmt, Pmt.parse_tables in H.
  destruct (N.ltb_spec (len b) (1 + Psi.pointer_field b)) as [Lt|Ge]; [discriminate|].
  apply bind_ok in H. destruct H as [sb [Hsb H]].
  assert (HB' : is_bytes sb) by (eapply PmtTotal.is_bytes_slice; eassumption).
  assert (HL' : len sb <= len b).
  { unfold slice_from in Hsb. destruct (PmtTotal.slice_len _ _ _ _ Hsb) as (E & _ & _). lia. }
  apply (tables_loop_count (S (List.length b)) sb Pmt.empty_pmt p (len b) HB' HL'); [|exact H].
  unfold len. cbn [Pmt.streams Pmt.empty_pmt List.length]. lia.
Qed.

(* ================================================================== PMT: descriptor bytes *)
(* two header bytes and the data of every descriptor *)
Definition dsum (l : list Pmt.desc) : N := fold_right (fun d a => 2 + len (Pmt.ddata d) + a) 0 l.
Definition desc_bytes_of (l : list Pmt.es) : N := fold_right (fun e a => dsum (Pmt.descs e) + a) 0 l.
Lemma dsum_app l d : dsum (l ++ [d]) = dsum l + (2 + len (Pmt.ddata d)).
Proof. induction l as [|x t IH]; cbn [app dsum fold_right]; [lia|]. fold (dsum (t ++ [d])). rewrite IH. fold (dsum t). lia. Qed.
Lemma desc_bytes_of_app l e : desc_bytes_of (l ++ [e]) = desc_bytes_of l + dsum (Pmt.descs e).
Proof. induction l as [|x t IH]; cbn [app desc_bytes_of fold_right]; [lia|]. fold (desc_bytes_of (t ++ [e])). rewrite IH. fold (desc_bytes_of t). lia. Qed.

(* the descriptor loop of one stream: a round starts below ES_info_length and consumes 2 + descriptor_length <= 257 bytes,
   so the descriptors of a stream take at most ES_info_length + 256 bytes (the last one may run past ES_info_length) *)
Lemma parse_descs_bytes : forall fuel bs offset il doff acc acc',
  is_bytes bs -> offset <= 16384 -> il < 4096 -> doff <= il + 256 ->
  Pmt.parse_descs fuel bs offset il doff acc = Ok acc' ->
  dsum acc' + doff <= dsum acc + N.max doff (il + 256).
Proof.
  induction fuel as [|f IH]; intros bs offset il doff acc acc' HB Ho Hil Hd H; [discriminate|].
  cbn [Pmt.parse_descs] in H. destruct (N.ltb_spec doff il) as [Lt|Ge]; [|injection H as <-; lia].
  unfold w16 in H. rewrite (N.mod_small (offset + doff)) in H by lia.
  apply bind_ok in H. destruct H as [tag [_ H]].
  rewrite (N.mod_small (doff + 1)) in H by lia. rewrite (N.mod_small (offset + (doff + 1))) in H by lia.
  apply bind_ok in H. destruct H as [dl [Hdl H]].
  pose proof (PmtTotal.is_bytes_idx _ _ _ HB Hdl) as DB.
  rewrite (N.mod_small (doff + 1 + 1)) in H by lia. rewrite (N.mod_small (offset + (doff + 1 + 1))) in H by lia.
  rewrite (N.mod_small (offset + (doff + 1 + 1) + dl)) in H by lia.
  destruct (offset + (doff + 1 + 1) + dl <? len bs); [|discriminate].
  apply bind_ok in H. destruct H as [data [Hs H]]. destruct (PmtTotal.slice_len _ _ _ _ Hs) as (LS & _ & _).
  rewrite (N.mod_small (doff + 1 + 1 + dl)) in H by lia.
  apply IH in H; try assumption; try lia. rewrite dsum_app in H. cbn [Pmt.ddata] in H. lia.
Qed.

(* the stream loop: a round advances the offset by 5 + ES_info_length and stores at most ES_info_length + 256 <= 52 * (5 +
   ES_info_length) descriptor bytes; the offset never passes max (bound + 4) (len bs) *)
Lemma parse_streams_bytes : forall fuel bs offset bound ps acc r,
  is_bytes bs -> bound <= 8192 -> offset <= N.max (bound + 4) (len bs) ->
  Pmt.parse_streams fuel bs offset bound ps acc = Ok r ->
  desc_bytes_of (snd r) + 52 * offset <= desc_bytes_of acc + 52 * N.max (bound + 4) (len bs).
Proof.
  induction fuel as [|f IH]; intros bs offset bound ps acc r HB Hb Ho H; [discriminate|].
  cbn [Pmt.parse_streams] in H. destruct (N.ltb_spec offset bound) as [Lt|Ge]; [|injection H as <-; cbn [snd]; lia].
  apply bind_ok in H. destruct H as [t [_ H]]. apply bind_ok in H. destruct H as [b1 [_ H]].
  apply bind_ok in H. destruct H as [b2 [_ H]]. apply bind_ok in H. destruct H as [b3 [_ H]].
  apply bind_ok in H. destruct H as [b4 [H4 H]].
  pose proof (PmtTotal.field12_bound b3 b4 (PmtTotal.is_bytes_idx _ _ _ HB H4)) as IL.
  set (il := N.lor (N.shiftl (N.land b3 15) 8) b4) in *.
  unfold w16 in H. rewrite (N.mod_small (offset + 5)) in H by lia. rewrite (N.mod_small (il + (offset + 5))) in H by lia.
  destruct (negb (il =? 0) && (il + (offset + 5) <? len bs)) eqn:C.
  - apply andb_true_iff in C. destruct C as [_ C]. apply N.ltb_lt in C.
    apply bind_ok in H. destruct H as [ds [Hds H]]. rewrite (N.mod_small (offset + 5 + il)) in H by lia.
    apply parse_descs_bytes in Hds; try assumption; try lia. change (dsum []) with 0 in Hds.
    apply IH in H; try assumption; try lia. rewrite desc_bytes_of_app in H. cbn [Pmt.descs] in H. lia.
  - apply IH in H; try assumption; try lia. rewrite desc_bytes_of_app in H. cbn [Pmt.descs] in H. change (dsum []) with 0 in H. lia.
Qed.

Lemma parse_pmt_section_bytes sec p : is_bytes sec -> Pmt.parse_pmt_section sec = Ok p ->
  desc_bytes_of (Pmt.streams p) <= 52 * N.max (Psi.section_length' sec) (len sec).
Proof.
  intros HB H. pose proof (PmtTotal.section_length'_bound sec HB) as SB. unfold Pmt.parse_pmt_section in H.
  set (sl := Psi.section_length' sec) in *.
  destruct (len sec <=? 11); [discriminate|]. destruct (N.ltb_spec sl 9) as [Lt|Ge]; [discriminate|].
  apply bind_ok in H. destruct H as [vc [_ H]]. apply bind_ok in H. destruct H as [p10 [_ H]].
  apply bind_ok in H. destruct H as [p11 [H11 H]].
  pose proof (PmtTotal.field12_bound p10 p11 (PmtTotal.is_bytes_idx _ _ _ HB H11)) as PB.
  set (pil := N.lor (N.shiftl (N.land p10 15) 8) p11) in *.
  apply bind_ok in H. destruct H as [r [Hr H]]. injection H as <-. cbn [Pmt.streams].
  unfold w16 in Hr. rewrite (N.mod_small (12 + pil)) in Hr by lia. rewrite PmtTotal.stream_bound_total in Hr by lia.
  destruct (N.le_gt_cases (12 + pil) (N.max (sl - 5 + 4) (len sec))) as [Le|Gt].
  - apply parse_streams_bytes in Hr; try assumption; try lia. change (desc_bytes_of []) with 0 in Hr. lia.
  - (* the loop does not run: the offset is already past the bound *)
    destruct (S (List.length sec)) as [|f]; [discriminate|]. cbn [Pmt.parse_streams] in Hr.
    destruct (N.ltb_spec (12 + pil) (sl - 5)); [lia|]. injection Hr as <-. cbn [snd]. change (desc_bytes_of []) with 0. lia.
Qed.

Lemma tables_loop_bytes : forall fuel sb p q L, is_bytes sb -> len sb <= L -> desc_bytes_of (Pmt.streams p) <= 52 * L ->
  Pmt.tables_loop fuel sb p = Ok q -> desc_bytes_of (Pmt.streams q) <= 52 * L.
Proof.
  induction fuel as [|f IH]; intros sb p q L HB HL HP H; [discriminate|]. cbn [Pmt.tables_loop] in H.
  destruct (N.ltb_spec 2 (len sb)) as [L3|S]; [|injection H as <-; exact HP].
  apply bind_ok in H. destruct H as [b0 [_ H]]. destruct (b0 =? 255); [injection H as <-; exact HP|].
  pose proof (PmtTotal.section_length'_bound _ HB) as SB. set (tl := Psi.section_length' sb) in *.
  destruct (N.ltb_spec (len sb) (3 + tl)) as [Lt|Ge]; [discriminate|].
  unfold w16 in H. rewrite (N.mod_small (3 + tl)) in H by lia.
  apply bind_ok in H. destruct H as [p' [Hp' H]]. apply bind_ok in H. destruct H as [sb' [Hsb' H]].
  assert (HB' : is_bytes sb') by (eapply PmtTotal.is_bytes_slice; eassumption).
  assert (HL' : len sb' <= L).
  { unfold slice_from in Hsb'. destruct (PmtTotal.slice_len _ _ _ _ Hsb') as (E & _ & _). lia. }
  apply (IH sb' p' q L HB' HL'); [|exact H].
  destruct (Psi.table_id' sb =? 2); [|injection Hp' as <-; exact HP].
  apply bind_ok in Hp'. destruct Hp' as [sec [Hsec Hp']].
  assert (HBs : is_bytes sec) by exact (PmtTotal.is_bytes_slice _ _ _ _ HB Hsec).
  pose proof (parse_pmt_section_bytes sec p' HBs Hp') as C.
  destruct (PmtTotal.slice_len _ _ _ _ Hsec) as (LS & _ & _).
  rewrite PmtTotal.slice_0 in Hsec by lia. injection Hsec as <-.
  rewrite PmtTotal.section_length'_firstn in C by lia. fold tl in C. lia.
Qed.

Theorem new_pmt_desc_bytes_bound b p : is_bytes b -> Pmt.new_pmt b = Ok p -> desc_bytes_of (Pmt.streams p) <= 52 * len b.
Proof.
  intros HB H. unfold Pmt.new_pmt, Pmt.parse_tables in H.
  destruct (N.ltb_spec (len b) (1 + Psi.pointer_field b)) as [Lt|Ge]; [discriminate|].
  apply bind_ok in H. destruct H as [sb [Hsb H]].
  assert (HB' : is_bytes sb) by (eapply PmtTotal.is_bytes_slice; eassumption).
  assert (HL' : len sb <= len b).
  { unfold slice_from in Hsb. destruct (PmtTotal.slice_len _ _ _ _ Hsb) as (E & _ & _). lia. }
  apply (tables_loop_bytes (S (List.length b)) sb Pmt.empty_pmt p (len b) HB' HL'); [|exact H].
  cbn [Pmt.streams Pmt.empty_pmt]. change (desc_bytes_of []) with 0. lia.
Qed.

(* the PID list has one entry per stream *)
Lemma parse_streams_pids : forall fuel bs offset bound ps acc r,
  Pmt.parse_streams fuel bs offset bound ps acc = Ok r -> len ps = len acc -> len (fst r) = len (snd r).
Proof.
  induction fuel as [|f IH]; intros bs offset bound ps acc r H E; [discriminate|].
  cbn [Pmt.parse_streams] in H. destruct (offset <? bound); [|injection H as <-; exact E].
  apply bind_ok in H. destruct H as [t [_ H]]. apply bind_ok in H. destruct H as [b1 [_ H]].
  apply bind_ok in H. destruct H as [b2 [_ H]]. apply bind_ok in H. destruct H as [b3 [_ H]].
  apply bind_ok in H. destruct H as [b4 [_ H]].
  destruct (negb _ && _) in H.
  - apply bind_ok in H. destruct H as [ds [_ H]]. apply IH in H; [exact H|]. rewrite !len_app_. unfold len in *. cbn [List.length]. lia.
  - apply IH in H; [exact H|]. rewrite !len_app_. unfold len in *. cbn [List.length]. lia.
Qed.
Lemma tables_loop_pids : forall fuel sb p q, len (Pmt.pids p) = len (Pmt.streams p) ->
  Pmt.tables_loop fuel sb p = Ok q -> len (Pmt.pids q) = len (Pmt.streams q).
Proof.
  induction fuel as [|f IH]; intros sb p q HP H; [discriminate|]. cbn [Pmt.tables_loop] in H.
  destruct (2 <? len sb); [|injection H as <-; exact HP].
  apply bind_ok in H. destruct H as [b0 [_ H]]. destruct (b0 =? 255); [injection H as <-; exact HP|].
  destruct (len sb <? _); [discriminate|].
  apply bind_ok in H. destruct H as [p' [Hp' H]]. apply bind_ok in H. destruct H as [sb' [_ H]].
  apply (IH sb' p' q); [|exact H].
  destruct (Psi.table_id' sb =? 2); [|injection Hp' as <-; exact HP].
  apply bind_ok in Hp'. destruct Hp' as [sec [_ Hp']]. unfold Pmt.parse_pmt_section in Hp'.
  destruct (len sec <=? 11); [discriminate|]. destruct (_ <? 9); [discriminate|].
  apply bind_ok in Hp'. destruct Hp' as [vc [_ Hp']]. apply bind_ok in Hp'. destruct Hp' as [p10 [_ Hp']].
  apply bind_ok in Hp'. destruct Hp' as [p11 [_ Hp']]. apply bind_ok in Hp'. destruct Hp' as [r [Hr Hp']].
  injection Hp' as <-. cbn [Pmt.pids Pmt.streams]. apply parse_streams_pids in Hr; [exact Hr|reflexivity].
Qed.
Theorem new_pmt_pids_len b p : Pmt.new_pmt b = Ok p -> len (Pmt.pids p) = len (Pmt.streams p).
Proof.
  unfold Pmt.new_pmt, Pmt.parse_tables. intro H. destruct (len b <? _); [discriminate|].
  apply bind_ok in H. destruct H as [sb [_ H]]. apply (tables_loop_pids (S (List.length b)) sb Pmt.empty_pmt p); [reflexivity|exact H].
Qed.
(* the statement of Properties/C05Bound.v *)
Theorem new_pmt_bound b p : is_bytes b -> Pmt.new_pmt b = Ok p ->
  5 * len (Pmt.streams p) <= len b /\ len (Pmt.pids p) = len (Pmt.streams p) /\ desc_bytes_of (Pmt.streams p) <= 52 * len b.
Proof.
  intros HB H. split; [exact (new_pmt_streams_bound b p HB H)|]. split; [exact (new_pmt_pids_len b p H)|].
  exact (new_pmt_desc_bytes_bound b p HB H).
Qed.

(* ================================================================== SCTE-35 *)
Import Scte ScteTotal ScteLemmas.

(* ---- inside one segmentation descriptor: six body bytes per component, two per MID element ---- *)
Lemma parse_seg_components_count : forall ct b acc cs b',
  parse_seg_components ct b acc = Ok (cs, b') -> len cs = len acc + N.of_nat ct.
Proof.
  induction ct as [|k IH]; intros b acc cs b' H; cbn [parse_seg_components] in H; [injection H as <- <-; lia|].
  destruct (next 6 b) as [d b1]. apply bind_ok in H. destruct H as [c [_ H]]. apply IH in H.
  rewrite len_app_ in H. change (len [c]) with 1 in H. lia.
Qed.
Lemma parse_mid_count : forall fuel sul b acc m b',
  parse_mid fuel sul b acc = Ok (m, b') -> 2 * len m + blen b' <= 2 * len acc + blen b.
Proof.
  induction fuel as [|fuel IH]; intros sul b acc m b' H; [discriminate|]. cbn [parse_mid] in H.
  destruct (sul =? 0); [injection H as <- <-; lia|].
  destruct (sul <? 2); cbn [orb] in H; [discriminate|].
  destruct (N.ltb_spec (blen b) 2); [discriminate|].
  pose proof (rb0_len b) as R1. destruct (read_byte0 b) as [ty b1]. cbn [snd] in R1.
  pose proof (rb0_len b1) as R2. destruct (read_byte0 b1) as [ul b2]. cbn [snd] in R2.
  destruct (sul - 1 - 1 <? ul); cbn [orb] in H; [discriminate|].
  destruct (blen b2 <? ul); [discriminate|].
  destruct (next ul b2) as [u b3] eqn:En. apply next_shrinks in En.
  apply IH in H. rewrite len_app_ in H. change (len [mkupid ty ul u]) with 1 in H. lia.
Qed.

Definition seg_weight (d : segdesc) : N := 6 * len (d_components d) + 2 * len (d_mid d).

Lemma parse_descriptor_bound o data d : parse_descriptor o data = Ok d -> seg_weight d <= len data.
Proof.
  unfold parse_descriptor, buf_new, seg_weight. rewrite blen_mk. intro H.
  destruct (N.ltb_spec (len data) 4) as [|H4]; [discriminate|].
  destruct (next 4 (mkbuf data None)) as [idb b1] eqn:E1.
  pose proof (next_len 4 (mkbuf data None)) as [A1 A2]. rewrite E1 in A1, A2. cbn [fst snd] in A1, A2. rewrite blen_mk in A1, A2.
  apply bind_ok in H. destruct H as [id [_ H]].
  destruct (negb (id =? segDescID)); [discriminate|].
  destruct (N.ltb_spec (blen b1) 5) as [|H5]; [discriminate|].
  destruct (next 4 b1) as [eb b2] eqn:E2. pose proof (next_len 4 b1) as [B1 B2]. rewrite E2 in B1, B2. cbn [fst snd] in B1, B2.
  apply bind_ok in H. destruct H as [eid [_ H]].
  pose proof (rb0_len b2) as R3. destruct (read_byte0 b2) as [c b3]. cbn [snd] in R3.
  destruct (negb (N.land c 128 =? 0)).
  { injection H as <-. cbn [d_components d_mid]. change (len (@nil comp_offset)) with 0. change (len (@nil upid)) with 0. lia. }
  pose proof (rb0_len b3) as R4. destruct (read_byte0 b3) as [flags b4]. cbn [snd] in R4.
  apply bind_ok in H. destruct H as [[comps b6] [Hc H]].
  assert (C6 : 6 * len comps + blen b6 <= blen b4).
  { destruct (negb (negb (N.land flags 128 =? 0))); [|injection Hc as <- <-; change (len (@nil comp_offset)) with 0; lia].
    pose proof (rb0_len b4) as R5. destruct (read_byte0 b4) as [ct b5]. cbn [snd] in R5.
    destruct (Z.ltb_spec (Z.of_N (blen b5) - 5) (Z.of_N ct * 6)); [discriminate|].
    destruct (parse_seg_components_ok (N.to_nat ct) b5 [] ltac:(lia)) as (cs & b' & E & Hl).
    rewrite E in Hc. injection Hc as <- <-. apply parse_seg_components_count in E. change (len (@nil comp_offset)) with 0 in E. lia. }
  apply bind_ok in H. destruct H as [[dur b8] [Hd H]].
  assert (C8 : blen b8 <= blen b6).
  { destruct (negb (N.land flags 64 =? 0)); [|injection Hd as <- <-; lia].
    destruct (blen b6 <? 10); [discriminate|]. destruct (next 5 b6) as [db b7] eqn:E7. apply next_shrinks in E7.
    apply bind_ok in Hd. destruct Hd as [d0 [_ Hd]]. apply bind_ok in Hd. destruct Hd as [lo [_ Hd]]. injection Hd as <- <-. exact E7. }
  pose proof (rb0_len b8) as R9. destruct (read_byte0 b8) as [uty b9]. cbn [snd] in R9.
  pose proof (rb0_len b9) as R10. destruct (read_byte0 b9) as [sul b10]. cbn [snd] in R10.
  apply bind_ok in H. destruct H as [[[u m] b11] [Hm H]].
  assert (C11 : 2 * len m <= blen b10).
  { destruct (uty =? SegUPIDMID).
    - apply bind_ok in Hm. destruct Hm as [[m' bb] [Hm E]]. injection E as <- <- <-.
      apply parse_mid_count in Hm. change (len (@nil upid)) with 0 in Hm. lia.
    - destruct (blen b10 <? sul + 3); [discriminate|]. destruct (next sul b10). injection Hm as <- <- <-.
      change (len (@nil upid)) with 0. lia. }
  destruct (read_byte0 b11) as [ty b12]. destruct (read_byte0 b12) as [sn b13]. destruct (read_byte0 b13) as [se b14].
  destruct ((0 <? blen b14) && ((ty =? 52) || (ty =? 54))).
  - destruct (read_byte0 b14) as [ssn b15]. destruct (read_byte0 b15) as [sse b16]. injection H as <-. cbn [d_components d_mid]. lia.
  - injection H as <-. cbn [d_components d_mid]. lia.
Qed.

(* ---- the components of a splice_insert: one command byte each ---- *)
Lemma parse_components_count cc imm : forall b acc cs b',
  parse_components cc imm b acc = Ok (cs, b') -> len cs + blen b' <= len acc + blen b.
Proof.
  induction cc as [|k IH]; intros b acc cs b' H; cbn [parse_components] in H; [injection H as <- <-; lia|].
  destruct (read_byte b) as [[tag|] b1] eqn:E; [|discriminate]. apply rb_some in E. destruct E as (E1 & _ & E2).
  destruct (negb imm).
  - destruct (parse_splice_time_fine b1) as ([[has pts] err] & b2 & E & L2). rewrite E in H. cbn [bind] in H.
    destruct err; [discriminate|]. apply IH in H. rewrite len_app_ in H. change (len [mkcomp tag has pts]) with 1 in H. lia.
  - apply IH in H. rewrite len_app_ in H. change (len [mkcomp tag false 0]) with 1 in H. lia.
Qed.
Lemma parse_insert_count b i b' : parse_insert b = Ok (i, b') -> len (i_components i) + blen b' <= blen b.
Proof.
  unfold parse_insert. intro H. destruct (next 5 b) as [base b1] eqn:En. apply next_shrinks in En.
  destruct (len base <? 5); [discriminate|].
  apply bind_ok in H. destruct H as [eid [_ H]]. apply bind_ok in H. destruct H as [f4 [_ H]].
  destruct (N.land f4 128 =? 128); [injection H as <- <-; cbn [i_components]; change (len (@nil component)) with 0; lia|].
  destruct (read_byte b1) as [[flags|] b2] eqn:E2; [|discriminate]. apply rb_len in E2.
  apply bind_ok in H. destruct H as [[[haspts pts] b3] [H1 H]].
  assert (C3 : blen b3 <= blen b2).
  { destruct ((N.land flags 64 =? 64) && negb (N.land flags 16 =? 16)); [|injection H1 as <- <- <-; lia].
    destruct (parse_splice_time_fine b2) as ([[has p] err] & bx & E & L). rewrite E in H1. cbn [bind] in H1.
    destruct err; [discriminate|]. destruct (negb has); [discriminate|]. injection H1 as <- <- <-. exact L. }
  apply bind_ok in H. destruct H as [[comps b5] [H2 H]].
  assert (C5 : len comps + blen b5 <= blen b3).
  { destruct (negb (N.land flags 64 =? 64)); [|injection H2 as <- <-; change (len (@nil component)) with 0; lia].
    destruct (read_byte b3) as [[cc|] b4] eqn:E4; [|discriminate]. apply rb_len in E4.
    apply parse_components_count in H2. change (len (@nil component)) with 0 in H2. lia. }
  apply bind_ok in H. destruct H as [[[auto dur] b7] [H3 H]].
  assert (C7 : blen b7 <= blen b5).
  { destruct (N.land flags 32 =? 32); [|injection H3 as <- <- <-; lia].
    destruct (next 5 b5) as [d b6] eqn:En2. apply next_shrinks in En2. destruct (len d <? 5); [discriminate|].
    apply bind_ok in H3. destruct H3 as [d0 [_ H3]]. apply bind_ok in H3. destruct H3 as [v [_ H3]]. injection H3 as <- <- <-. exact En2. }
  destruct (next 4 b7) as [pi b8] eqn:En3. apply next_shrinks in En3. destruct (len pi <? 4); [discriminate|].
  apply bind_ok in H. destruct H as [up [_ H]]. apply bind_ok in H. destruct H as [an [_ H]].
  apply bind_ok in H. destruct H as [ae [_ H]]. injection H as <- <-. cbn [i_components]. lia.
Qed.
Definition cmd_comps (c : command) : N := match c with CInsert i => len (i_components i) | _ => 0 end.
Lemma parse_command_count ct adj b pts cmd b' : parse_command ct adj b = Ok (pts, cmd, b') -> cmd_comps cmd + blen b' <= blen b.
Proof.
  unfold parse_command. intro H. destruct ((ct =? TimeSignal) || (ct =? SpliceInsert)).
  - apply bind_ok in H. destruct H as [[c bx] [Hc H]]. injection H as _ <- <-.
    destruct (ct =? TimeSignal).
    + unfold parse_time_signal in Hc. destruct (parse_splice_time_fine b) as ([[has p] err] & by_ & E & L).
      rewrite E in Hc. cbn [bind] in Hc. destruct (negb has); [discriminate|]. injection Hc as <- <-. cbn [cmd_comps]. lia.
    + apply bind_ok in Hc. destruct Hc as [[i bi] [Hi Hc]]. injection Hc as <- <-. cbn [cmd_comps].
      apply parse_insert_count. exact Hi.
  - destruct (ct =? SpliceNull); [|discriminate]. injection H as _ <- <-. cbn [cmd_comps]. lia.
Qed.

(* ---- the descriptor loop: every round consumes 2 + descriptor_length bytes of the announced loop length and stores at
   most that many bytes of other descriptors, or one segmentation descriptor whose components and MID elements fit
   into its body ---- *)
Definition descs_weight (l : list segdesc) : N := fold_right (fun d a => 2 + seg_weight d + a) 0 l.
Lemma descs_weight_app l d : descs_weight (l ++ [d]) = descs_weight l + (2 + seg_weight d).
Proof. induction l as [|x t IH]; cbn [app descs_weight fold_right]; [lia|]. fold (descs_weight (t ++ [d])). rewrite IH. fold (descs_weight t). lia. Qed.
Lemma parse_desc_loop_bound : forall fuel owner dll br b other descs o' d' b',
  br <= dll -> parse_desc_loop fuel owner dll br b other descs = Ok (o', d', b') ->
  len o' + descs_weight d' + br <= len other + descs_weight descs + dll.
Proof.
  induction fuel as [|fuel IH]; intros owner dll br b other descs o' d' b' Hbr H; [discriminate|].
  cbn [parse_desc_loop] in H.
  destruct (N.ltb_spec br dll); cbn [negb] in H; [|injection H as <- <- <-; lia].
  destruct (read_byte0 b) as [tag b1]. destruct (read_byte0 b1) as [dl b2].
  destruct (Z.ltb_spec (Z.of_N dll - Z.of_N br - 2) (Z.of_N dl)); [discriminate|].
  destruct (negb (tag =? segDescTag)); destruct (next dl b2) as [body b3] eqn:En;
    pose proof (next_len dl b2) as [N1 _]; rewrite En in N1; cbn [fst] in N1.
  - apply IH in H; [|lia]. rewrite !len_app_ in H. change (len [tag; dl]) with 2 in H. lia.
  - apply bind_ok in H. destruct H as [d [Hd H]]. apply parse_descriptor_bound in Hd. apply IH in H; [|lia].
    rewrite descs_weight_app in H. lia.
Qed.

Lemma parse_descriptors_bound sid data b other descs :
  parse_descriptors sid data b = Ok (other, descs) -> len other + descs_weight descs + 6 <= blen b.
Proof.
  intros H. unfold parse_descriptors in H. destruct (N.ltb_spec (blen b) 6); [discriminate|].
  destruct (next 2 b) as [lb b1] eqn:En. pose proof (next_len 2 b) as [N1 N2]. rewrite En in N1, N2. cbn [fst snd] in N1, N2.
  apply bind_ok in H. destruct H as [dll [_ H]].
  destruct (N.ltb_spec (blen b1) (dll + 4)); [discriminate|].
  apply bind_ok in H. destruct H as [[[o d] b'] [HL H]]. injection H as <- <-.
  apply parse_desc_loop_bound in HL; [|lia]. change (len (@nil N)) with 0 in HL. change (descs_weight []) with 0 in HL. lia.
Qed.

(* the decoder (forward execution of parse_table as in ScteTotal.parse_table_with_P; the buffer only shrinks):
   components of a splice_insert + bytes of the other descriptors + per segmentation descriptor 2 + 6 per component
   + 2 per MID element, + 6 (loop length, CRC), fit into the input *)
Theorem new_scte35_bound data s : is_bytes data -> new_scte35 data = Ok s ->
  cmd_comps (s_cmd s) + len (s_other s) + descs_weight (s_descs s) + 6 <= len data /\ len (s_data s) <= len data.
Proof.
  intros Hbytes. unfold new_scte35, parse_table. set (pf := pointer_field data).
  assert (Hpf : pf < 256).
  { unfold pf, pointer_field. destruct data as [|x r]; [lia|]. inversion Hbytes; assumption. }
  unfold w16, w8. rewrite (N.mod_small (pf + 4 + 15)) by lia.
  destruct (N.ltb_spec (len data) (pf + 4 + 15)) as [|Hlen]; [discriminate|].
  unfold buf_new.
  destruct (next ((pf + 1) mod 256) (mkbuf data None)) as [skipped b0] eqn:E0.
  pose proof (next_len ((pf + 1) mod 256) (mkbuf data None)) as [_ A0]. rewrite E0 in A0. cbn [snd] in A0. rewrite blen_mk in A0.
  assert (Hw : (pf + 1) mod 256 <= pf + 1) by lia.
  destruct (next 3 b0) as [hb b1] eqn:E1. pose proof (next_len 3 b0) as [A1 A1']. rewrite E1 in A1, A1'. cbn [fst snd] in A1, A1'.
  unfold table_header_from_bytes. destruct (N.ltb_spec (len hb) 3); [lia|].
  destruct (idx_ok hb 0 ltac:(lia)) as [tid ->]. destruct (idx_ok hb 1 ltac:(lia)) as [h1 ->].
  destruct (idx_ok hb 2 ltac:(lia)) as [h2 ->]. cbn [bind].
  destruct (negb (tid =? 252)); [discriminate|].
  destruct (rb0_nonempty b1 ltac:(lia)) as (pv & b2 & -> & _ & L2 & _).
  destruct (rb0_nonempty b2 ltac:(lia)) as (f & b3 & -> & La3 & L3 & _).
  destruct (negb (N.land f 128 =? 0)); [discriminate|].
  rewrite (unread_ok b3 f La3). cbn [bind]. rewrite rb0. rewrite unread_some. cbn [bind].
  destruct (next 5 (mkbuf (f :: rem b3) None)) as [ab b5] eqn:E5.
  pose proof (next_len 5 (mkbuf (f :: rem b3) None)) as [A5 A5']. rewrite E5 in A5, A5'. cbn [fst snd] in A5, A5'.
  rewrite blen_mk, len_cons in A5, A5'. fold (blen b3) in A5, A5'.
  destruct (uint40_ok ab ltac:(lia)) as [adj0 ->]. cbn [bind].
  destruct (rb0_nonempty b5 ltac:(lia)) as (cw & b6 & -> & _ & L6 & _).
  destruct (next 3 b6) as [tb b7] eqn:E7. pose proof (next_len 3 b6) as [A7 A7']. rewrite E7 in A7, A7'. cbn [fst snd] in A7, A7'.
  destruct (idx_ok tb 0 ltac:(lia)) as [t0 ->]. destruct (idx_ok tb 1 ltac:(lia)) as [t1 ->].
  destruct (idx_ok tb 2 ltac:(lia)) as [t2 ->]. cbn [bind].
  destruct (rb0_nonempty b7 ltac:(lia)) as (ct & b8 & -> & _ & L8 & _).
  destruct (parse_command ct (N.land adj0 M33) b8) as [[[pts cmd] b9]| | |] eqn:EC; cbn [bind]; try discriminate.
  apply parse_command_count in EC.
  destruct (parse_descriptors 1 data b9) as [[other descs]| | |] eqn:ED; cbn [bind]; try discriminate.
  apply parse_descriptors_bound in ED.
  intro HH. apply bind_ok in HH. destruct HH as [dat [Hd HH]]. injection HH as <-. cbn [s_other s_descs s_data s_cmd].
  split; [lia|]. unfold slice_from in Hd. destruct (PmtTotal.slice_len _ _ _ _ Hd) as (E & _ & _). lia.
Qed.

Lemma descs_weight_len l : 2 * len l <= descs_weight l.
Proof.
  induction l as [|x t IH]; [unfold len; cbn; lia|]. cbn [descs_weight fold_right]. fold (descs_weight t).
  unfold len in *. cbn [List.length]. lia.
Qed.
Lemma descs_weight_in l d : In d l -> seg_weight d <= descs_weight l.
Proof.
  induction l as [|x t IH]; [contradiction|]. cbn [descs_weight fold_right]. fold (descs_weight t).
  intros [->|H]; [lia|]. apply IH in H. lia.
Qed.
Theorem new_scte35_counts data s : is_bytes data -> new_scte35 data = Ok s ->
  len (s_other s) <= len data /\ 2 * len (s_descs s) <= len data /\
  (forall d, In d (s_descs s) -> 6 * len (d_components d) + 2 * len (d_mid d) <= len data).
Proof.
  intros HB H. destruct (new_scte35_bound data s HB H) as [B _].
  pose proof (descs_weight_len (s_descs s)) as W. repeat split; try lia.
  intros d Hd. pose proof (descs_weight_in _ _ Hd) as Wd. unfold seg_weight in Wd. lia.
Qed.
