(* C12: an EBP object built through the setter API / direct field assignments encodes to bytes that decode back
   to the same values; the length byte is the number of bytes that follow. *)
From Gots Require Import Base.Prelude Model.Ebp Spec.EbpSpec Proofs.EbpLemmas Proofs.EbpDecode Proofs.EbpReencode.
Import Ebp EbpSpec.

(* ---------------- Comcast ---------------- *)
(* consistency of the object: value ranges of the Go field types, the grouping flag comes with exactly one id,
   at most 253 bytes follow the length byte *)
Definition cons_comcast (e : t) : Prop :=
  DataFieldTag e = 169 /\ DataFieldLength e <> 0 /\ DataFlags e < 256 /\ ExtensionFlags e < 256 /\ SapType e < 256
  /\ TimeSeconds e < 4294967296 /\ TimeFraction e < 4294967296 /\ is_bytes (ReservedBytes e) /\ is_bytes (Grouping e)
  /\ (GroupingFlag e = true -> length (Grouping e) = 1%nat)
  /\ len (comcast_body e) <= 253.

(* what decoding the encoded bytes yields: the object itself with the fields that are not flagged reset *)
Definition canon_comcast (e : t) : t :=
  mk 169 (len (comcast_body e)) (DataFlags e)
     (if ExtensionFlag e then ExtensionFlags e else 0) (if SapFlag e then SapType e else 0)
     (if TimeFlag e then TimeSeconds e else 0) (if TimeFlag e then TimeFraction e else 0)
     (ReservedBytes e) (if GroupingFlag e then Grouping e else []) 0 0.

Definition to_comcast (e : t) : comcast :=
  mkC (FragmentFlag e) (SegmentFlag e) (DiscontinuityFlag e) (flag e 2)
      (if ExtensionFlag e then Some (ExtensionFlags e) else None)
      (if SapFlag e then Some (SapType e) else None)
      (if GroupingFlag e then Some (hd 0 (Grouping e)) else None)
      (if TimeFlag e then Some (TimeSeconds e, TimeFraction e) else None)
      (ReservedBytes e).

Lemma flags_of_object e : DataFieldLength e <> 0 -> DataFlags e < 256 ->
  flags_byte (flag e 128) (flag e 64) (flag e 32) (flag e 16) (flag e 8) (flag e 4) (flag e 2) (flag e 1) = DataFlags e.
Proof.
  intros HL HF. unfold flag. replace (DataFieldLength e =? 0) with false by (symmetry; apply N.eqb_neq; exact HL).
  cbn [negb andb]. apply flags_byte_of_bits. exact HF.
Qed.

Lemma is_some_if {A} (X : bool) (v : A) : is_some (if X then Some v else None) = X.
Proof. destruct X; reflexivity. Qed.

Lemma to_comcast_flags e : DataFieldLength e <> 0 -> DataFlags e < 256 -> c_flags (to_comcast e) = DataFlags e.
Proof.
  intros HL HF. unfold c_flags, to_comcast. cbn [c_fragment c_segment c_sap c_group c_time c_discontinuity c_rsvbit c_ext].
  rewrite !is_some_if. apply (flags_of_object e HL HF).
Qed.

Lemma to_comcast_body e : cons_comcast e -> ser_comcast_body (to_comcast e) = comcast_body e.
Proof.
  intros (Htag & HL & HF & _ & _ & _ & _ & _ & _ & Hg & _).
  unfold ser_comcast_body. rewrite (to_comcast_flags e HL HF).
  unfold comcast_body, time_bytes, to_comcast. cbn [c_ext c_sap c_group c_time c_tail].
  destruct (ExtensionFlag e), (SapFlag e), (TimeFlag e), (GroupingFlag e); cbn [opt_byte opt_time];
    try reflexivity; specialize (Hg eq_refl);
    (destruct (Grouping e) as [|x [|y r]]; [discriminate Hg | reflexivity | discriminate Hg]).
Qed.

Lemma to_comcast_wf e : cons_comcast e -> wf_comcast (to_comcast e).
Proof.
  intros C. pose proof (to_comcast_body e C) as B.
  destruct C as (Htag & HL & HF & He & Hs & Hts & Htf & Hr & Hgr & Hg & Hlen).
  unfold wf_comcast. rewrite B. unfold to_comcast. cbn [c_ext c_sap c_group c_time c_tail].
  repeat split; try assumption.
  - destruct (ExtensionFlag e); cbn; [assumption | exact I].
  - destruct (SapFlag e); cbn; [assumption | exact I].
  - destruct (GroupingFlag e); cbn; [|exact I]. specialize (Hg eq_refl).
    destruct (Grouping e) as [|x r]; [discriminate Hg|]. cbn. inversion Hgr; assumption.
  - destruct (TimeFlag e); cbn; [split; assumption | exact I].
Qed.

Lemma to_comcast_decoded e : cons_comcast e -> decoded_comcast (to_comcast e) = canon_comcast e.
Proof.
  intros C. pose proof (to_comcast_body e C) as B.
  destruct C as (Htag & HL & HF & _ & _ & _ & _ & _ & _ & Hg & _).
  unfold decoded_comcast, canon_comcast. rewrite B, (to_comcast_flags e HL HF).
  unfold to_comcast. cbn [c_ext c_sap c_group c_time c_tail].
  destruct (ExtensionFlag e), (SapFlag e), (TimeFlag e), (GroupingFlag e); cbn [val0 tval fst snd opt_byte];
    try reflexivity; specialize (Hg eq_refl);
    (destruct (Grouping e) as [|x [|y r]]; [discriminate Hg | reflexivity | discriminate Hg]).
Qed.

Lemma build_encode_decode_comcast g e : cons_comcast e ->
  ComcastData e = (169 :: len (comcast_body e) :: comcast_body e, set_DataFieldLength e (len (comcast_body e)))
  /\ ReadEncoderBoundaryPoint g (fst (ComcastData e)) = Ok (Comcast, canon_comcast e).
Proof.
  intro C. assert (D : ComcastData e = (169 :: len (comcast_body e) :: comcast_body e, set_DataFieldLength e (len (comcast_body e)))).
  { destruct C as (Htag & HL & _ & _ & _ & _ & _ & _ & _ & _ & Hlen).
    unfold ComcastData, finish_data. replace (DataFieldLength e =? 0) with false by (symmetry; apply N.eqb_neq; exact HL).
    unfold w8. rewrite N.mod_small by lia. cbn [DataFieldTag DataFieldLength set_DataFieldLength]. rewrite Htag. reflexivity. }
  split; [exact D|]. rewrite D. cbn [fst].
  rewrite <- (to_comcast_body e C), <- (to_comcast_decoded e C).
  change (169 :: len (ser_comcast_body (to_comcast e)) :: ser_comcast_body (to_comcast e)) with (ser_comcast (to_comcast e)).
  rewrite <- (app_nil_r (ser_comcast (to_comcast e))). apply read_ebp_comcast. apply to_comcast_wf. exact C.
Qed.

(* "the same values": when no value was stored in a field whose flag is off, decoding returns the object itself
   (with the DataFieldLength that Data() has written) *)
Definition strict_comcast (e : t) : Prop :=
  (ExtensionFlag e = false -> ExtensionFlags e = 0) /\ (SapFlag e = false -> SapType e = 0)
  /\ (TimeFlag e = false -> TimeSeconds e = 0 /\ TimeFraction e = 0) /\ (GroupingFlag e = false -> Grouping e = [])
  /\ FormatIdentifier e = 0 /\ PartitionFlags e = 0.
Lemma canon_comcast_strict e : DataFieldTag e = 169 -> strict_comcast e ->
  canon_comcast e = set_DataFieldLength e (len (comcast_body e)).
Proof.
  intros Htag (S1 & S2 & S3 & S4 & S5 & S6). unfold canon_comcast.
  destruct e as [tag dfl fl ext sap ts tf rsv grp fmt part]. cbn [set_DataFieldLength DataFieldTag DataFieldLength DataFlags
    ExtensionFlags SapType TimeSeconds TimeFraction ReservedBytes Grouping FormatIdentifier PartitionFlags] in *. subst.
  destruct (ExtensionFlag _) eqn:X1; [|specialize (S1 eq_refl); subst ext];
  (destruct (SapFlag _) eqn:X2; [|specialize (S2 eq_refl); subst sap]);
  (destruct (TimeFlag _) eqn:X3; [|destruct (S3 eq_refl); subst ts tf]);
  (destruct (GroupingFlag _) eqn:X4; [|specialize (S4 eq_refl); subst grp]); reflexivity.
Qed.
(* the flag getters of the decoded object always agree with those of the encoded one *)
Lemma canon_comcast_flags e mask : cons_comcast e -> flag (canon_comcast e) mask = flag e mask.
Proof.
  intros (Htag & HL & _). unfold flag, canon_comcast. cbn [DataFieldLength DataFlags].
  replace (DataFieldLength e =? 0) with false by (symmetry; apply N.eqb_neq; exact HL).
  replace (len (comcast_body e) =? 0) with false; [reflexivity|].
  symmetry. apply N.eqb_neq. unfold comcast_body. cbn [app]. rewrite len_cons. lia.
Qed.

(* ---------------- CableLabs ---------------- *)
Definition cons_cablelabs (e : t) : Prop :=
  DataFieldTag e = 223 /\ DataFieldLength e <> 0 /\ DataFlags e < 256 /\ ExtensionFlags e < 256 /\ SapType e < 256
  /\ TimeSeconds e < 4294967296 /\ TimeFraction e < 4294967296 /\ is_bytes (ReservedBytes e)
  /\ FormatIdentifier e < 4294967296 /\ PartitionFlags e < 256
  /\ (GroupingFlag e = true -> Grouping e <> [] /\ Forall (fun z => z < 128) (Grouping e))
  /\ len (cablelabs_body e) <= 253.

Definition canon_cablelabs (e : t) : t :=
  mk 223 (len (cablelabs_body e)) (DataFlags e)
     (if ExtensionFlag e then ExtensionFlags e else 0) (if SapFlag e then SapType e else 0)
     (if TimeFlag e then TimeSeconds e else 0) (if TimeFlag e then TimeFraction e else 0)
     (ReservedBytes e) (if GroupingFlag e then Grouping e else []) (FormatIdentifier e)
     (if PartitionFlag e then PartitionFlags e else 0).

Definition to_cablelabs (e : t) : cablelabs :=
  mkL (FragmentFlag e) (SegmentFlag e) (ConcealmentFlag e) (flag e 2) (FormatIdentifier e)
      (if ExtensionFlag e then Some (ExtensionFlags e mod 128, if bit (ExtensionFlags e) 128 then Some (PartitionFlags e) else None)
       else None)
      (if SapFlag e then Some (SapType e) else None)
      (if GroupingFlag e then match Grouping e with x :: r => Some (x, r) | [] => None end else None)
      (if TimeFlag e then Some (TimeSeconds e, TimeFraction e) else None)
      (ReservedBytes e).

Lemma ext_byte_split X : X < 256 ->
  ext_byte (X mod 128, if bit X 128 then Some 0 else None) = X /\ X mod 128 < 128.
Proof.
  intro H.
  pose proof (sweep (fun X => (ext_byte (X mod 128, if bit X 128 then Some 0 else None) =? X) && (X mod 128 <? 128)) 256 eq_refl X H) as S.
  cbv beta in S. rewrite andb_true_iff, N.eqb_eq, N.ltb_lt in S. exact S.
Qed.
Lemma ext_byte_split' X (p : N) : X < 256 -> ext_byte (X mod 128, if bit X 128 then Some p else None) = X.
Proof.
  intro H. destruct (ext_byte_split X H) as [E _]. unfold ext_byte in *. cbn [fst snd] in *.
  destruct (bit X 128); exact E.
Qed.

Lemma conceal_flag e : DataFieldLength e <> 0 -> ConcealmentFlag e = flag e 4.
Proof.
  intro HL. unfold ConcealmentFlag, flag. replace (DataFieldLength e =? 0) with false by (symmetry; apply N.eqb_neq; exact HL).
  reflexivity.
Qed.

Lemma to_cablelabs_flags e : cons_cablelabs e -> l_flags (to_cablelabs e) = DataFlags e.
Proof.
  intros (Htag & HL & HF & _ & _ & _ & _ & _ & _ & _ & Hg & _).
  unfold l_flags, to_cablelabs. cbn [l_fragment l_segment l_sap l_groups l_time l_concealment l_rsvbit l_ext].
  rewrite !is_some_if, (conceal_flag e HL).
  assert (G : is_some (if GroupingFlag e then match Grouping e with x :: r => Some (x, r) | [] => None end else None) = GroupingFlag e).
  { destruct (GroupingFlag e); [|reflexivity]. destruct (Hg eq_refl) as [Hne _]. destruct (Grouping e); [congruence | reflexivity]. }
  rewrite G. apply (flags_of_object e HL HF).
Qed.

Lemma to_cablelabs_body e : cons_cablelabs e -> ser_cablelabs_body (to_cablelabs e) = cablelabs_body e.
Proof.
  intros C. pose proof (to_cablelabs_flags e C) as FL.
  destruct C as (Htag & HL & HF & He & _ & _ & _ & _ & _ & _ & Hg & _).
  unfold ser_cablelabs_body. rewrite FL.
  unfold cablelabs_body, time_bytes, PartitionFlag, to_cablelabs. cbn [l_format l_ext l_sap l_groups l_time l_tail].
  f_equal. f_equal.
  assert (G : ser_groups (if GroupingFlag e then match Grouping e with x :: r => Some (x, r) | [] => None end else None)
              = (if GroupingFlag e then cl_groups (Grouping e) else [])).
  { destruct (GroupingFlag e); [|reflexivity]. destruct (Hg eq_refl) as [Hne Hall].
    destruct (Grouping e) as [|x r]; [congruence|]. cbn [ser_groups]. inversion Hall; subst. symmetry. apply cl_groups_chain; assumption. }
  rewrite G. clear G.
  destruct (ExtensionFlag e); cbn [ser_ext ser_part andb].
  - rewrite (ext_byte_split' _ _ He).
    destruct (SapFlag e), (TimeFlag e), (GroupingFlag e), (bit (ExtensionFlags e) 128); reflexivity.
  - destruct (SapFlag e), (TimeFlag e), (GroupingFlag e); reflexivity.
Qed.

Lemma to_cablelabs_wf e : cons_cablelabs e -> wf_cablelabs (to_cablelabs e).
Proof.
  intros C. pose proof (to_cablelabs_body e C) as B.
  destruct C as (Htag & HL & HF & He & Hs & Hts & Htf & Hr & Hfmt & Hp & Hg & Hlen).
  unfold wf_cablelabs. rewrite B. unfold to_cablelabs. cbn [l_format l_ext l_sap l_groups l_time l_tail].
  repeat split; try assumption.
  - destruct (ExtensionFlag e); cbn [ext_ok]; [|exact I]. split; [apply (ext_byte_split _ He)|].
    destruct (bit (ExtensionFlags e) 128); cbn; [assumption | exact I].
  - destruct (SapFlag e); cbn; [assumption | exact I].
  - destruct (GroupingFlag e); cbn [groups_ok]; [|exact I]. destruct (Hg eq_refl) as [Hne Hall].
    destruct (Grouping e) as [|x r]; [exact I|]. inversion Hall; subst. split; assumption.
  - destruct (TimeFlag e); cbn; [split; assumption | exact I].
Qed.

Lemma to_cablelabs_decoded e : cons_cablelabs e -> decoded_cablelabs (to_cablelabs e) = canon_cablelabs e.
Proof.
  intros C. pose proof (to_cablelabs_body e C) as B. pose proof (to_cablelabs_flags e C) as FL.
  destruct C as (Htag & HL & HF & He & _ & _ & _ & _ & _ & _ & Hg & _).
  unfold decoded_cablelabs, canon_cablelabs. rewrite B, FL.
  unfold PartitionFlag, to_cablelabs. cbn [l_format l_ext l_sap l_groups l_time l_tail].
  assert (G : groups_list (if GroupingFlag e then match Grouping e with x :: r => Some (x, r) | [] => None end else None)
              = (if GroupingFlag e then Grouping e else [])).
  { destruct (GroupingFlag e); [|reflexivity]. destruct (Hg eq_refl) as [Hne _]. destruct (Grouping e); [congruence | reflexivity]. }
  rewrite G. clear G.
  destruct (ExtensionFlag e); cbn [ext_opt option_map part_opt val0 andb].
  - rewrite (ext_byte_split' _ _ He).
    destruct (SapFlag e), (TimeFlag e), (bit (ExtensionFlags e) 128); reflexivity.
  - destruct (SapFlag e), (TimeFlag e); reflexivity.
Qed.

Lemma build_encode_decode_cablelabs g e : cons_cablelabs e ->
  CableLabsData e = (223 :: len (cablelabs_body e) :: cablelabs_body e, set_DataFieldLength e (len (cablelabs_body e)))
  /\ ReadEncoderBoundaryPoint g (fst (CableLabsData e)) = Ok (CableLabs, canon_cablelabs e).
Proof.
  intro C. assert (D : CableLabsData e = (223 :: len (cablelabs_body e) :: cablelabs_body e, set_DataFieldLength e (len (cablelabs_body e)))).
  { destruct C as (Htag & HL & _ & _ & _ & _ & _ & _ & _ & _ & _ & Hlen).
    unfold CableLabsData, finish_data. replace (DataFieldLength e =? 0) with false by (symmetry; apply N.eqb_neq; exact HL).
    unfold w8. rewrite N.mod_small by lia. cbn [DataFieldTag DataFieldLength set_DataFieldLength]. rewrite Htag. reflexivity. }
  split; [exact D|]. rewrite D. cbn [fst].
  rewrite <- (to_cablelabs_body e C), <- (to_cablelabs_decoded e C).
  change (223 :: len (ser_cablelabs_body (to_cablelabs e)) :: ser_cablelabs_body (to_cablelabs e)) with (ser_cablelabs (to_cablelabs e)).
  rewrite <- (app_nil_r (ser_cablelabs (to_cablelabs e))). apply read_ebp_cablelabs. apply to_cablelabs_wf. exact C.
Qed.

Definition strict_cablelabs (e : t) : Prop :=
  (ExtensionFlag e = false -> ExtensionFlags e = 0) /\ (SapFlag e = false -> SapType e = 0)
  /\ (TimeFlag e = false -> TimeSeconds e = 0 /\ TimeFraction e = 0) /\ (GroupingFlag e = false -> Grouping e = [])
  /\ (PartitionFlag e = false -> PartitionFlags e = 0).
Lemma canon_cablelabs_strict e : DataFieldTag e = 223 -> strict_cablelabs e ->
  canon_cablelabs e = set_DataFieldLength e (len (cablelabs_body e)).
Proof.
  intros Htag (S1 & S2 & S3 & S4 & S5). unfold canon_cablelabs.
  destruct e as [tag dfl fl ext sap ts tf rsv grp fmt part]. cbn [set_DataFieldLength DataFieldTag DataFieldLength DataFlags
    ExtensionFlags SapType TimeSeconds TimeFraction ReservedBytes Grouping FormatIdentifier PartitionFlags] in *. subst.
  destruct (ExtensionFlag _) eqn:X1; [|specialize (S1 eq_refl); subst ext];
  (destruct (SapFlag _) eqn:X2; [|specialize (S2 eq_refl); subst sap]);
  (destruct (TimeFlag _) eqn:X3; [|destruct (S3 eq_refl); subst ts tf]);
  (destruct (GroupingFlag _) eqn:X4; [|specialize (S4 eq_refl); subst grp]);
  (destruct (PartitionFlag _) eqn:X5; [|specialize (S5 eq_refl); subst part]); reflexivity.
Qed.

(* the setter API keeps the object inside the stated consistency as far as the flags are concerned:
   setters only ever set bits, and SetEBPTime stores 32-bit fields *)
Lemma SetEBPTime_range e tm : TimeSeconds (SetEBPTime e tm) < 4294967296 /\ TimeFraction (SetEBPTime e tm) < 4294967296.
Proof.
  unfold SetEBPTime, insertUtcTime. cbn [set_Time TimeSeconds TimeFraction]. unfold w32.
  split; apply N.mod_upper_bound; discriminate.
Qed.

(* ---------------- non-vacuity examples used by Properties/C12.v ---------------- *)
Lemma wf_comcast_example :
  wf_comcast (mkC true false true false (Some 255) (Some 3) (Some 29) (Some (4294967295, 2147483648)) [1; 2; 255]).
Proof. unfold wf_comcast. cbn. repeat split; try lia. repeat constructor. Qed.
Lemma wf_cablelabs_example :
  wf_cablelabs (mkL true true false true 1161973808 (Some (5, Some 255)) (Some 2) (Some (28, [29; 127; 0]))
                    (Some (2147483648, 4294967295)) [9; 8]).
Proof. unfold wf_cablelabs. cbn. repeat split; try lia. all: repeat constructor; lia. Qed.

Lemma cons_cablelabs_example :
  let e := SetEBPTime (SetPartitionFlag (set_PartitionFlags (SetExtensionFlag (SetGroupingFlag (SetTimeFlag
             (set_Grouping (SetSapFlag (SetSap CreateCableLabsEbp 255) true) [28; 29; 127]) true) true) true) 254) true)
             (4294967296 * 1000000000 - 1) in
  cons_cablelabs e /\ strict_cablelabs e /\ PartitionFlag e = true.
Proof.
  cbv zeta. split; [|split]; [ | | vm_compute; reflexivity].
  - unfold cons_cablelabs.
    repeat split; try (vm_compute; reflexivity); try (vm_compute; intro; discriminate);
      try (vm_compute; repeat constructor).
  - unfold strict_cablelabs. split; [|split; [|split; [|split]]]; intro H; vm_compute in H; discriminate H.
Qed.

Lemma canon_cablelabs_flags e mask : cons_cablelabs e -> flag (canon_cablelabs e) mask = flag e mask.
Proof.
  intros (Htag & HL & _). unfold flag, canon_cablelabs. cbn [DataFieldLength DataFlags].
  replace (DataFieldLength e =? 0) with false by (symmetry; apply N.eqb_neq; exact HL).
  replace (len (cablelabs_body e) =? 0) with false; [reflexivity|].
  symmetry. apply N.eqb_neq. unfold cablelabs_body. cbn [app to_be32]. rewrite !len_cons. lia.
Qed.
