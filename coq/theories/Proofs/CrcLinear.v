(* C13: the register is GF(2)-linear in (state, message) jointly; consequence: the CRC of a single-bit message
   is  (CRC of the all-zero message)  xor  (zero-steps of the polynomial), which gives a linear-time way to
   produce the CRCs of ALL single-bit messages of a given length (used by the thorough tier: every single-bit
   string up to 1024 bytes is checked against the real code). *)
From Gots Require Import Base.Prelude Base.CodecLemmas Model.Crc Spec.Crc32 Proofs.CrcRegister Proofs.CrcUnique.
Local Open Scope N_scope.

Definition cbit (b : bool) : N := if b then poly else 0.
Lemma cbit_xor b b' : cbit (xorb b b') = N.lxor (cbit b) (cbit b').
Proof. destruct b, b'; cbn [xorb cbit]; rewrite ?N.lxor_0_r, ?N.lxor_0_l, ?N.lxor_nilpotent; reflexivity. Qed.
Lemma dstep_cbit s b : dstep s b = N.lxor (a0 s) (cbit b).
Proof. apply dstep_a0. Qed.

Lemma dstep_lin s s' b b' : dstep (N.lxor s s') (xorb b b') = N.lxor (dstep s b) (dstep s' b').
Proof. rewrite !dstep_cbit, a0_lin, cbit_xor.
  rewrite !N.lxor_assoc. f_equal. rewrite <- !N.lxor_assoc. f_equal. apply N.lxor_comm. Qed.

Fixpoint zipx (a b : list bool) : list bool :=
  match a, b with x :: a', y :: b' => xorb x y :: zipx a' b' | _, _ => [] end.

Lemma dfold_lin bits : forall bits' s s', length bits = length bits' ->
  fold_left dstep (zipx bits bits') (N.lxor s s') = N.lxor (fold_left dstep bits s) (fold_left dstep bits' s').
Proof. induction bits as [|b bits IH]; intros [|b' bits'] s s' H; cbn [length] in H; try discriminate; [reflexivity|].
  cbn [zipx fold_left]. rewrite dstep_lin. apply IH. lia. Qed.

Lemma zipx_false_l n : forall bits, length bits = n -> zipx (repeat false n) bits = bits.
Proof. induction n as [|n IH]; intros [|b bits] H; cbn [length] in H; try discriminate; [reflexivity|].
  cbn [repeat zipx]. f_equal; [destruct b; reflexivity|]. apply IH. lia. Qed.

Notation zstep := Crc32.zstep.
Lemma zstep_a0 r : zstep r = a0 r.
Proof. unfold Crc32.zstep. rewrite spec_step_dstep, dstep_cbit. apply N.lxor_0_r. Qed.

Lemma dfold_zeros n : forall s, fold_left dstep (repeat false n) s = Crc.iter n zstep s.
Proof. induction n as [|n IH]; intro s; [reflexivity|]. cbn [repeat fold_left Crc.iter].
  rewrite IH. f_equal. rewrite zstep_a0, dstep_cbit. apply N.lxor_0_r. Qed.
Lemma iter_zero n : Crc.iter n zstep 0 = 0.
Proof. induction n as [|n IH]; [reflexivity|]. cbn [Crc.iter]. exact IH. Qed.

(* a single one-bit after a zeros, followed by b zeros, from the zero state *)
Lemma dfold_unit a b : fold_left dstep (repeat false a ++ true :: repeat false b) 0 = Crc.iter b zstep poly.
Proof. rewrite fold_left_app, dfold_zeros, iter_zero. cbn [fold_left]. rewrite dfold_zeros. reflexivity. Qed.

(* CRC of any message with exactly one bit set, n bits in all: linear split *)
Lemma crc_unit a b : Crc32.register Crc32.init (repeat false a ++ true :: repeat false b)
  = N.lxor (Crc.iter (a + 1 + b) zstep Crc32.init) (Crc.iter b zstep poly).
Proof. rewrite register_dfold.
  set (e := repeat false a ++ true :: repeat false b).
  assert (Le: length e = (a + 1 + b)%nat) by (unfold e; rewrite app_length; cbn [length]; rewrite !repeat_length; lia).
  rewrite <- (zipx_false_l (a + 1 + b) e Le). rewrite <- (N.lxor_0_r Crc32.init) at 1.
  rewrite dfold_lin by (rewrite repeat_length; lia). rewrite dfold_zeros. unfold e. rewrite dfold_unit. reflexivity. Qed.

(* ---- the bits of a single-bit byte string ---- *)
Lemma bits_of_zeros k : Crc32.bits_of (repeat 0 k) = repeat false (8 * k).
Proof. induction k as [|k IH]; [reflexivity|]. unfold Crc32.bits_of in *. cbn [repeat flat_map]. rewrite IH.
  replace (8 * S k)%nat with (8 + 8 * k)%nat by lia. reflexivity. Qed.
Lemma bits_of_unit_byte j : (j < 8)%nat ->
  Crc32.bits_of_byte (2 ^ (7 - N.of_nat j)) = repeat false j ++ true :: repeat false (7 - j).
Proof. intro H. do 8 (destruct j as [|j]; [reflexivity|]). lia. Qed.

Lemma bits_of_single L i j : (i < L)%nat -> (j < 8)%nat ->
  Crc32.bits_of (Crc32.single L i j) = repeat false (8 * i + j) ++ true :: repeat false ((7 - j) + 8 * (L - 1 - i)).
Proof. intros Hi Hj. unfold Crc32.single. rewrite !bits_of_app, !bits_of_zeros.
  unfold Crc32.bits_of at 1. cbn [flat_map]. rewrite app_nil_r, bits_of_unit_byte by exact Hj.
  rewrite repeat_app, <- !app_assoc. cbn [app]. f_equal. f_equal. rewrite repeat_app. reflexivity. Qed.

(* ---- all single-bit CRCs of a given length in linear time ---- *)
Notation singles_aux := Crc32.singles_aux.
Notation singles_fast := Crc32.singles_fast.
Lemma iterz_iter n : forall x, Crc32.iterz n x = Crc.iter n zstep x.
Proof. induction n as [|n IH]; intro x; [reflexivity|]. cbn [Crc32.iterz Crc.iter]. apply IH. Qed.

Lemma iter_S n f x : Crc.iter (S n) f x = Crc.iter n f (f x). Proof. reflexivity. Qed.

Lemma singles_aux_spec z : forall n cur out,
  singles_aux n cur z out = map (fun k => N.lxor z (Crc.iter k zstep cur)) (rev (seq 0 n)) ++ out.
Proof. induction n as [|n IH]; intros cur out; [reflexivity|].
  cbn [Crc32.singles_aux]. rewrite IH. cbn [seq rev]. rewrite <- seq_shift, <- map_rev, map_app, map_map.
  cbn [map Crc.iter]. rewrite <- app_assoc. reflexivity. Qed.

Lemma singles_fast_length L : length (singles_fast L) = (8 * L)%nat.
Proof. unfold Crc32.singles_fast. rewrite singles_aux_spec, app_nil_r, map_length, rev_length, seq_length. reflexivity. Qed.

Theorem singles_fast_nth L i j : (i < L)%nat -> (j < 8)%nat ->
  nth (8 * i + j) (singles_fast L) 0 = Crc32.crc (Crc32.single L i j).
Proof. intros Hi Hj. unfold Crc32.singles_fast. rewrite singles_aux_spec, app_nil_r, iterz_iter.
  change Crc32.poly with poly.
  set (n := (8 * L)%nat). set (z := Crc.iter n zstep Crc32.init).
  assert (Hp: (8 * i + j < n)%nat) by (unfold n; lia).
  rewrite (nth_indep _ 0 (N.lxor z (Crc.iter 0 zstep poly))) by (rewrite map_length, rev_length, seq_length; exact Hp).
  rewrite (map_nth (fun k => N.lxor z (Crc.iter k zstep poly))).
  rewrite rev_nth by (rewrite seq_length; exact Hp). rewrite seq_length, seq_nth by lia. cbn [Nat.add].
  unfold Crc32.crc. rewrite bits_of_single by assumption. rewrite crc_unit.
  unfold z, n. f_equal; f_equal; lia. Qed.

Corollary single_bit_all L i j : (i < L)%nat -> (j < 8)%nat ->
  nth (8 * i + j) (Crc32.singles_fast L) 0 = Crc32.crc (Crc32.single L i j) /\
  length (Crc32.singles_fast L) = (8 * L)%nat.
Proof. intros Hi Hj. split; [apply singles_fast_nth; assumption | apply singles_fast_length]. Qed.
