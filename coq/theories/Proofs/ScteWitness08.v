(* Witnesses for Properties/C08.v: non-vacuity example and the pointer_field 255 case (closed terms, vm_compute). *)
From Gots Require Import Base.Prelude Model.Pts Model.Scte Spec.Scte35Spec Proofs.ScteExpected Proofs.ScteDecode Proofs.ScteReject.
Import Scte Scte35Spec.
Local Open Scope N_scope.

(* ---- non-vacuity: a component-mode splice_insert with break_duration, pts_adjustment, pointer_field 2,
   a segmentation descriptor with components (bit 32 set), 40-bit duration, MID list and sub-segment fields,
   a cancelled descriptor and a foreign descriptor ---- *)
Definition ex_seg : descriptor :=
  Seg 4294967295 (Some (mksb (Some [(7, 8589934591); (8, 4294967296)]) (Some 1099511627775)
                             (Some (true, false, true, 2)) (Multi [(9, [66; 76]); (14, [])]) 52 3 4 (Some (1, 2)))).
Definition ex_signal : splice_info :=
  mksi [255; 255] 252 false false 3 0 false 0 8589934591 255 2748 false
       (Insert 305419896 (Some (mkib true (CompTimed [(1, Some 8589934591); (2, None)]) (Some (true, 8589934591)) 65535 1 2)))
       [Foreign 1 [67; 85; 69; 73; 0]; ex_seg; Seg 5 None] [0; 0] 3735928559.
Lemma w08_example_supported : supported ex_signal.
Proof.
  unfold supported, wf_decode, ex_signal, ex_seg. cbn.
  repeat (split || constructor); cbn; try lia; try discriminate; auto.
Qed.
Lemma w08_example_decodes :
  exists sc, new_scte35 (ser_splice_info ex_signal) = Ok sc /\ length (s_descs sc) = 2%nat /\
             s_other sc = [1; 5; 67; 85; 69; 73; 0] /\ s_pts sc = 8589934591.
Proof.
  exists (expected ex_signal). split; [apply decode_ser, w08_example_supported|]. vm_compute. repeat split; reflexivity.
Qed.

(* why `supported` demands pointer_field < 255: psi computes PointerField(data)+1 in uint8, so a 255-byte filler
   makes the decoder read the table id from byte 0 (cannot occur inside a 188-byte packet) *)
Definition ptr255_section : splice_info :=
  mksi (repeat 255 255) 252 false false 3 0 false 0 0 0 4095 false Null [] [] 0.
Lemma w08_pointer_255_refuted : new_scte35 (ser_splice_info ptr255_section) = Err E.UnknownTableID.
Proof. vm_compute. reflexivity. Qed.
