(* C06 L4: ReadPMT over any packetisation = accumulator composition of L2 and L3. *)
From Gots Require Import Base.Prelude Model.Psi Model.Pmt Spec.PmtSpec Proofs.PmtBase Proofs.PmtParse Proofs.PmtTables Proofs.PmtTotal.
Import Pmt.
Local Open Scope N_scope.

(* ---------- single bits of a byte ---------- *)
Lemma bit_byte_16 x : x < 256 -> bit x 16 = negb ((x / 16) mod 2 =? 0).
Proof. intros H.
  assert (S: forallb (fun a => Bool.eqb (bit a 16) (negb ((a / 16) mod 2 =? 0))) (nrange 256 0) = true) by (vm_compute; reflexivity).
  apply Bool.eqb_prop. exact (sweep1 _ 256 S x H). Qed.
Lemma bit_byte_32 x : x < 256 -> bit x 32 = negb ((x / 32) mod 2 =? 0).
Proof. intros H.
  assert (S: forallb (fun a => Bool.eqb (bit a 32) (negb ((a / 32) mod 2 =? 0))) (nrange 256 0) = true) by (vm_compute; reflexivity).
  apply Bool.eqb_prop. exact (sweep1 _ 256 S x H). Qed.
Lemma bit_byte_64 x : x < 256 -> bit x 64 = negb ((x / 64) mod 2 =? 0).
Proof. intros H.
  assert (S: forallb (fun a => Bool.eqb (bit a 64) (negb ((a / 64) mod 2 =? 0))) (nrange 256 0) = true) by (vm_compute; reflexivity).
  apply Bool.eqb_prop. exact (sweep1 _ 256 S x H). Qed.
Lemma land31 x : N.land x 31 = x mod 32.
Proof. change 31 with (N.ones 5). rewrite N.land_ones. reflexivity. Qed.
Lemma b2n_lt2 b : b2n b < 2. Proof. destruct b; cbn; lia. Qed.

(* ---------- what the packet helpers see in mk_pkt ---------- *)
Section MkPkt.
Variables (pid : N) (pusi : bool) (m : pmisc) (af : option bytes) (ch : bytes).
Hypothesis W : wf_pkt_parts pid m af ch.
Let B1 := b2n (tei m) * 128 + b2n pusi * 64 + b2n (prio m) * 32 + pid / 256.
Let B3 := tsc m * 64 + (match af with Some _ => 48 | None => 16 end) + cc m.
Let AF := match af with Some a => len a :: a | None => [] end.

Lemma mk_pkt_explicit : mk_pkt pid pusi m af ch = 71 :: B1 :: pid mod 256 :: B3 :: AF ++ ch.
Proof. reflexivity. Qed.
Lemma mk_pkt_len : len (mk_pkt pid pusi m af ch) = 188.
Proof. rewrite mk_pkt_explicit. destruct W as (_ & _ & _ & Haf). rewrite !len_cons, len_app. subst AF.
  destruct af as [a|]; [destruct Haf as [_ Haf]; rewrite len_cons|rewrite len_nil]; lia. Qed.
Lemma mk_pkt_pid : pkt_pid (mk_pkt pid pusi m af ch) = Ok pid.
Proof. rewrite mk_pkt_explicit. unfold pkt_pid.
  change (idx _ 1) with (Ok B1). change (idx _ 2) with (Ok (pid mod 256)). cbn [bind].
  destruct W as (Hp & _). f_equal. rewrite land31.
  pose proof (b2n_lt2 (tei m)). pose proof (b2n_lt2 pusi). pose proof (b2n_lt2 (prio m)).
  replace (B1 mod 32) with (pid / 256) by (subst B1; lia).
  rewrite lor_shl8 by lia. lia. Qed.
Lemma mk_pkt_pusi : pkt_pusi (mk_pkt pid pusi m af ch) = Ok pusi.
Proof. rewrite mk_pkt_explicit. unfold pkt_pusi. change (idx _ 1) with (Ok B1). cbn [bind]. f_equal.
  destruct W as (Hp & _).
  pose proof (b2n_lt2 (tei m)). pose proof (b2n_lt2 pusi). pose proof (b2n_lt2 (prio m)).
  rewrite bit_byte_64 by (subst B1; lia).
  replace ((B1 / 64) mod 2) with (b2n pusi) by (subst B1; lia). destruct pusi; reflexivity. Qed.
Lemma mk_pkt_payload : pkt_payload (mk_pkt pid pusi m af ch) = Ok ch.
Proof. pose proof mk_pkt_len as L. rewrite mk_pkt_explicit in *. unfold pkt_payload, pkt_has_payload, payload_start, pkt_has_af.
  change (idx (71 :: B1 :: pid mod 256 :: B3 :: AF ++ ch) 3) with (Ok B3). cbn [bind].
  destruct W as (Hp & (Htsc & Hcc) & Hch & Haf).
  assert (B3 < 256) by (subst B3; destruct af; lia).
  rewrite bit_byte_16, bit_byte_32 by assumption.
  replace ((B3 / 16) mod 2) with 1 by (subst B3; destruct af; lia). cbn [N.eqb negb].
  subst AF. destruct af as [a|].
  - replace ((B3 / 32) mod 2) with 1 by (subst B3; lia). cbn [N.eqb negb].
    cbn [app] in *. change (idx _ 4) with (Ok (len a)). cbn [bind].
    destruct Haf as [_ Haf].
    rewrite L. replace (188 <? 4 + 1 + len a) with false by lia.
    change (71 :: B1 :: pid mod 256 :: B3 :: len a :: a ++ ch) with ([71; B1; pid mod 256; B3; len a] ++ a ++ ch).
    rewrite app_assoc. apply slice_from_app. rewrite len_app, !len_cons, len_nil. lia.
  - replace ((B3 / 32) mod 2) with 0 by (subst B3; lia). cbn [N.eqb negb bind app] in *.
    rewrite L. cbn [N.ltb N.compare Pos.compare Pos.compare_cont].
    change (71 :: B1 :: pid mod 256 :: B3 :: ch) with ([71; B1; pid mod 256; B3] ++ ch).
    apply slice_from_app. reflexivity. Qed.
End MkPkt.

(* ---------- prefixes of  u ++ repeat ---------- *)
Lemma app_eq_takeN {A} (a r u v : list A) : a ++ r = u ++ v -> len a <= len u -> a = takeN (len a) u.
Proof. intros E H. assert (K: takeN (len a) (a ++ r) = takeN (len a) (u ++ v)) by (rewrite E; reflexivity).
  rewrite takeN_app in K by reflexivity. rewrite takeN_app_le in K by exact H. exact K. Qed.
Lemma firstn_repeat_min {A} (x : A) : forall n k, firstn k (repeat x n) = repeat x (Nat.min k n).
Proof. induction n as [|n IH]; intros [|k]; cbn; try reflexivity. f_equal. apply IH. Qed.
Lemma app_eq_over (a r u : bytes) n : a ++ r = u ++ repeatN 255 n -> len u <= len a ->
  a = u ++ repeatN 255 (len a - len u).
Proof. intros E H. assert (K: takeN (len a) (a ++ r) = takeN (len a) (u ++ repeatN 255 n)) by (rewrite E; reflexivity).
  rewrite takeN_app in K by reflexivity. rewrite takeN_app_ge in K by exact H. rewrite K at 1. f_equal.
  assert (LL: len (a ++ r) = len (u ++ repeatN 255 n)) by (rewrite E; reflexivity).
  rewrite !len_app, len_repeatN in LL.
  unfold takeN, repeatN. rewrite firstn_repeat_min. f_equal. lia. Qed.

Definition with_stuffing (c : carrier) (n : N) : carrier :=
  {| pf := pf c; pre := pre c; sec := sec c; stuffing := n |}.

(* ---------- the reader ---------- *)
Section Reader.
Variables (c : carrier) (pid : N).
Hypothesis WC : wf_carrier c.
Hypothesis NE : sstreams (sec c) <> [].
Let U := ser_unit c.

Lemma unit_stuffed n : U ++ repeatN 255 n = ser_payload (with_stuffing c n).
Proof. reflexivity. Qed.
Lemma wf_with n : wf_carrier (with_stuffing c n).
Proof. exact WC. Qed.

(* adding a chunk to the accumulated bytes A *)
Lemma acc_add_step A ch R n :
  (A ++ ch) ++ R = U ++ repeatN 255 n ->
  (len (A ++ ch) < len U -> ~ inner_end c (len (A ++ ch))) ->
  forall pkt st, pkt_payload pkt = Ok ch ->
  acc_add {| a_buf := A; a_state := st |} pkt =
    Ok (if len (A ++ ch) <? len U then ({| a_buf := A ++ ch; a_state := 1 |}, None)
        else ({| a_buf := A ++ ch; a_state := 2 |}, Some E.AccumulatorDone)).
Proof. intros E Hcut pkt st HP. unfold acc_add. rewrite HP. cbn [a_buf].
  destruct (N.ltb_spec (len (A ++ ch)) (len U)) as [Lt|Ge].
  - rewrite (app_eq_takeN _ _ _ _ E) by lia.
    destruct (done_prefix c (len (A ++ ch)) WC Lt) as (b & Hb & Hiff). fold U in Hb. rewrite Hb. cbn [bind].
    destruct b; [exfalso; apply (Hcut Lt); apply Hiff; reflexivity|].
    rewrite <- (app_eq_takeN _ _ _ _ E) by lia. reflexivity.
  - rewrite (app_eq_over _ _ _ _ E Ge) at 1. rewrite unit_stuffed, (done_complete _ (wf_with _)). cbn [bind]. reflexivity.
Qed.

(* tl: whatever follows in the stream is never looked at *)
Variable tl : list bytes.
Lemma read_pkts_ok : forall rest first a A,
  Forall (wf_item pid) rest ->
  ((first = true /\ a_state a <> 2 /\ A = []) \/ (first = false /\ a = {| a_buf := A; a_state := 1 |})) ->
  (exists n, A ++ concat (chunks rest) = U ++ repeatN 255 n) ->
  len A < len U ->
  (forall j, let k := len A + len (concat (chunks (firstn j rest))) in k < len U -> ~ inner_end c k) ->
  read_pkts (ser_items pid first rest ++ tl) pid a = Ok (sec_result (sec c)).
Proof.
  induction rest as [|it rest IH]; intros first a A WI ST (n & EQ) LA CUT.
  - cbn [chunks concat] in EQ. rewrite app_nil_r in EQ. exfalso.
    assert (len A = len (U ++ repeatN 255 n)) by (rewrite EQ; reflexivity). rewrite len_app in *. lia.
  - inversion WI as [|? ? WI1 WI']; subst. destruct it as [p|m af ch].
    + (* a packet of another PID is skipped *)
      destruct WI1 as (Lp & Bp & Np). cbn [ser_items app read_pkts].
      assert (Hq: pkt_pid p = Ok (pid_of p)).
      { unfold pkt_pid, pid_of. rewrite (idx_nthN p 1), (idx_nthN p 2) by lia. cbn [bind]. f_equal.
        rewrite land31. apply lor_shl8. apply is_bytes_nthN. exact Bp. }
      rewrite Hq. cbn [bind]. replace (pid_of p =? pid) with false by (symmetry; apply N.eqb_neq; exact Np). cbn [negb].
      apply (IH first a A); try assumption.
      * exists n. exact EQ.
      * intros j. exact (CUT (S j)).
    + cbn [ser_items app read_pkts]. cbn [wf_item] in WI1.
      rewrite (mk_pkt_pid pid first m af ch WI1). cbn [bind]. rewrite N.eqb_refl. cbn [negb].
      cbn [chunks concat] in EQ. rewrite app_assoc in EQ.
      assert (CUT1: len (A ++ ch) < len U -> ~ inner_end c (len (A ++ ch))).
      { intros Lt. pose proof (CUT 1%nat) as K. cbn [firstn chunks concat] in K. rewrite app_nil_r in K. cbv zeta in K.
        rewrite len_app. apply K. rewrite len_app in Lt. exact Lt. }
      assert (WP: write_packet a (mk_pkt pid first m af ch) =
                  Ok (if len (A ++ ch) <? len U then ({| a_buf := A ++ ch; a_state := 1 |}, None)
                      else ({| a_buf := A ++ ch; a_state := 2 |}, Some E.AccumulatorDone))).
      { unfold write_packet. rewrite (mk_pkt_pusi pid first m af ch WI1). cbn [bind].
        destruct ST as [(F & Ea & EA)|(F & Ea)]; subst.
        - replace (a_state a =? 2) with false by (symmetry; apply N.eqb_neq; exact Ea).
          destruct (a_state a =? 0); apply (acc_add_step [] ch _ n EQ CUT1); apply mk_pkt_payload; exact WI1.
        - cbn [a_state N.eqb Pos.eqb]. apply (acc_add_step A ch _ n EQ CUT1). apply mk_pkt_payload. exact WI1. }
      rewrite WP. cbn [bind].
      destruct (N.ltb_spec (len (A ++ ch)) (len U)) as [Lt|Ge]; cbn [snd fst].
      * apply (IH false _ (A ++ ch)); try assumption.
        -- right. split; reflexivity.
        -- exists n. exact EQ.
        -- intros j. pose proof (CUT (S j)) as K. cbn [firstn chunks concat] in K. cbv zeta in *.
           rewrite !len_app in *. rewrite N.add_assoc in K. exact K.
      * rewrite N.eqb_refl. cbn [a_buf].
        rewrite (app_eq_over _ _ _ _ EQ Ge). rewrite unit_stuffed.
        unfold new_pmt. rewrite (parse_tables_ok _ (wf_with _)). cbn [bind with_stuffing sec].
        unfold sec_result at 1. cbn [pids]. destruct (sstreams (sec c)) as [|e t]; [congruence|]. reflexivity.
Qed.

(* an INTERRUPTED transmission of this unit: packets carrying only a proper prefix of it leave the accumulator in a
   state that is not "done" (whatever its buffer), without returning *)
Lemma read_pkts_interrupted : forall rest first a A,
  Forall (wf_item pid) rest ->
  ((first = true /\ a_state a <> 2 /\ A = []) \/ (first = false /\ a = {| a_buf := A; a_state := 1 |})) ->
  (exists R n, A ++ concat (chunks rest) ++ R = U ++ repeatN 255 n) ->
  len (A ++ concat (chunks rest)) < len U ->
  (forall j, let k := len A + len (concat (chunks (firstn j rest))) in k < len U -> ~ inner_end c k) ->
  exists a', a_state a' <> 2 /\ read_pkts (ser_items pid first rest ++ tl) pid a = read_pkts tl pid a'.
Proof.
  induction rest as [|it rest IH]; intros first a A WI ST (R & n & EQ) LA CUT.
  - exists a. split; [|reflexivity]. destruct ST as [(F & Ea & EA)|(F & Ea)]; [exact Ea|subst; cbn; discriminate].
  - inversion WI as [|? ? WI1 WI']; subst. destruct it as [p|m af ch].
    + destruct WI1 as (Lp & Bp & Np). cbn [ser_items app read_pkts].
      assert (Hq: pkt_pid p = Ok (pid_of p)).
      { unfold pkt_pid, pid_of. rewrite (idx_nthN p 1), (idx_nthN p 2) by lia. cbn [bind]. f_equal.
        rewrite land31. apply lor_shl8. apply is_bytes_nthN. exact Bp. }
      rewrite Hq. cbn [bind]. replace (pid_of p =? pid) with false by (symmetry; apply N.eqb_neq; exact Np). cbn [negb].
      apply (IH first a A); try assumption.
      * exists R, n. exact EQ.
      * intros j. exact (CUT (S j)).
    + cbn [ser_items app read_pkts]. cbn [wf_item] in WI1.
      rewrite (mk_pkt_pid pid first m af ch WI1). cbn [bind]. rewrite N.eqb_refl. cbn [negb].
      assert (EQ2: (A ++ ch) ++ (concat (chunks rest) ++ R) = U ++ repeatN 255 n).
      { rewrite <- EQ. cbn [chunks concat]. rewrite <- !app_assoc. reflexivity. }
      cbn [chunks concat] in LA.
      assert (LT: len (A ++ ch) < len U) by (rewrite !len_app in *; lia).
      assert (CUT1: len (A ++ ch) < len U -> ~ inner_end c (len (A ++ ch))).
      { intros Lt. pose proof (CUT 1%nat) as K. cbn [firstn chunks concat] in K. rewrite app_nil_r in K. cbv zeta in K.
        rewrite len_app. apply K. rewrite len_app in Lt. exact Lt. }
      assert (WP: write_packet a (mk_pkt pid first m af ch) = Ok ({| a_buf := A ++ ch; a_state := 1 |}, None)).
      { unfold write_packet. rewrite (mk_pkt_pusi pid first m af ch WI1). cbn [bind].
        assert (STEP: forall A0 st, A0 = A -> acc_add {| a_buf := A0; a_state := st |} (mk_pkt pid first m af ch)
                       = Ok ({| a_buf := A ++ ch; a_state := 1 |}, None)).
        { intros A0 st ->. rewrite (acc_add_step A ch _ n EQ2 CUT1 _ st (mk_pkt_payload pid first m af ch WI1)).
          replace (len (A ++ ch) <? len U) with true by lia. reflexivity. }
        destruct ST as [(F & Ea & EA)|(F & Ea)]; subst.
        - replace (a_state a =? 2) with false by (symmetry; apply N.eqb_neq; exact Ea).
          destruct (a_state a =? 0); apply STEP; reflexivity.
        - cbn [a_state N.eqb Pos.eqb]. apply STEP. reflexivity. }
      rewrite WP. cbn [bind snd fst].
      apply (IH false _ (A ++ ch)); try assumption.
      * right. split; reflexivity.
      * exists R, n. exact EQ2.
      * rewrite <- app_assoc. exact LA.
      * intros j. pose proof (CUT (S j)) as K. cbn [firstn chunks concat] in K. cbv zeta in *.
        rewrite !len_app in *. rewrite N.add_assoc in K. exact K.
Qed.
End Reader.

Lemma chop188_concat : forall pkts fuel, Forall (fun p => len p = 188) pkts -> (length pkts < fuel)%nat ->
  chop188 fuel (concat pkts) = pkts.
Proof. induction pkts as [|p t IH]; intros fuel W Hf; (destruct fuel as [|fuel]; [cbn in Hf; lia|]); cbn [chop188 concat].
  - reflexivity.
  - inversion W; subst. rewrite len_app. replace (len p + len (concat t) <? 188) with false by lia.
    rewrite takeN_app by (symmetry; assumption). rewrite dropN_app by (symmetry; assumption).
    f_equal. apply IH; [assumption|cbn in Hf; lia]. Qed.

Lemma ser_items_len pid : forall l first, Forall (wf_item pid) l -> Forall (fun p => len p = 188) (ser_items pid first l).
Proof. induction l as [|it t IH]; intros first W; [constructor|]. inversion W; subst.
  destruct it as [p|m af ch]; cbn [ser_items]; constructor; try (apply IH; assumption).
  - destruct H1 as [L _]; exact L.
  - apply mk_pkt_len. assumption. Qed.

Lemma chop188_app : forall pkts fuel t, Forall (fun p => len p = 188) pkts -> (length pkts < fuel)%nat ->
  chop188 fuel (concat pkts ++ t) = pkts ++ chop188 (fuel - length pkts) t.
Proof. induction pkts as [|p r IH]; intros fuel t W Hf.
  - cbn [concat app length]. rewrite Nat.sub_0_r. reflexivity.
  - destruct fuel as [|fuel]; [cbn in Hf; lia|]. cbn [chop188 concat]. inversion W; subst. rewrite <- app_assoc, len_app.
    replace (len p + len (concat r ++ t) <? 188) with false by lia.
    rewrite takeN_app by (symmetry; assumption). rewrite dropN_app by (symmetry; assumption).
    cbn [app length Nat.sub]. f_equal. apply IH; [assumption|cbn in Hf; lia]. Qed.

(* the stream may continue with ANY bytes after the packets that carry the unit: the reader has returned by then *)
Theorem read_pmt_then_anything c pid items tail :
  wf_carrier c -> sstreams (sec c) <> [] ->
  Forall (wf_item pid) items ->
  (exists n, concat (chunks items) = ser_unit c ++ repeatN 255 n) ->
  cuts_ok c items ->
  read_pmt (packetise pid items ++ tail) pid = Ok (sec_result (sec c)).
Proof. intros WC NE WI EQ CUT. unfold read_pmt, packetise.
  pose proof (ser_items_len pid items true WI) as L188.
  rewrite chop188_app; [|exact L188|].
  - apply (read_pkts_ok c pid WC NE _ items true new_acc []); try assumption.
    + left. repeat split. discriminate.
    + rewrite len_nil. unfold ser_unit. rewrite !len_app, !len_cons. lia.
  - assert (forall l : list bytes, Forall (fun p => len p = 188) l -> (length l <= length (concat l))%nat) as CNT.
    { induction 1 as [|y l Hy _ IHl]; [cbn; lia|]. cbn [concat length]. rewrite app_length. unfold len in Hy. lia. }
    pose proof (CNT _ L188) as K. rewrite app_length. apply Nat.lt_succ_r. apply Nat.le_trans with (1 := K). apply Nat.le_add_r.
Qed.

(* an interrupted transmission of one PMT (only a proper prefix of its payload arrives, then a new payload_unit_start)
   followed by a complete transmission of another: the reader returns the complete one *)
Theorem read_pmt_after_interrupted ca cb pid items_a items_b tail :
  wf_carrier ca -> wf_carrier cb -> sstreams (sec cb) <> [] ->
  Forall (wf_item pid) items_a -> Forall (wf_item pid) items_b ->
  (exists R n, concat (chunks items_a) ++ R = ser_unit ca ++ repeatN 255 n) ->
  len (concat (chunks items_a)) < len (ser_unit ca) -> cuts_ok ca items_a ->
  (exists n, concat (chunks items_b) = ser_unit cb ++ repeatN 255 n) -> cuts_ok cb items_b ->
  read_pmt (packetise pid items_a ++ packetise pid items_b ++ tail) pid = Ok (sec_result (sec cb)).
Proof. intros WA WB NE WIa WIb EQa LAa CUTa EQb CUTb. unfold read_pmt, packetise.
  pose proof (ser_items_len pid items_a true WIa) as La. pose proof (ser_items_len pid items_b true WIb) as Lb.
  set (PA := ser_items pid true items_a) in *. set (PB := ser_items pid true items_b) in *.
  assert (CNT: forall l : list bytes, Forall (fun p => len p = 188) l -> (length l <= length (concat l))%nat).
  { induction 1 as [|y l Hy _ IHl]; [cbn; lia|]. cbn [concat length]. rewrite app_length. unfold len in Hy. lia. }
  pose proof (CNT _ La) as Ka. pose proof (CNT _ Lb) as Kb.
  rewrite chop188_app; [|exact La|rewrite !app_length; unfold bytes in *; lia].
  rewrite chop188_app; [|exact Lb|rewrite !app_length; unfold bytes in *; lia].
  set (T := chop188 _ tail).
  destruct (read_pkts_interrupted ca pid WA (PB ++ T) items_a true new_acc [] WIa) as (a' & Sa & Ea).
  - left. repeat split. discriminate.
  - destruct EQa as (R & n & E). exists R, n. exact E.
  - exact LAa.
  - exact CUTa.
  - unfold PA. etransitivity; [exact Ea|].
    apply (read_pkts_ok cb pid WB NE T items_b true a' []); try assumption.
    + left. repeat split. exact Sa.
    + rewrite len_nil. unfold ser_unit. rewrite !len_app, !len_cons. lia.
Qed.

Theorem read_pmt_ok c pid items :
  wf_carrier c -> sstreams (sec c) <> [] ->
  Forall (wf_item pid) items ->
  (exists n, concat (chunks items) = ser_unit c ++ repeatN 255 n) ->
  cuts_ok c items ->
  read_pmt (packetise pid items) pid = Ok (sec_result (sec c)).
Proof. intros WC NE WI EQ CUT. pose proof (read_pmt_then_anything c pid items [] WC NE WI EQ CUT) as K.
  rewrite app_nil_r in K. exact K. Qed.
