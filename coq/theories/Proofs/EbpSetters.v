(* C12: what the setter API does to an object (the link between "built through the setter API" and the consistency
   predicates of Proofs/EbpBuild.v). *)
From Gots Require Import Base.Prelude Model.Ebp Spec.EbpSpec Proofs.EbpLemmas Proofs.EbpBuild.
Import Ebp.

Definition masks : list N := [128; 64; 32; 16; 8; 4; 2; 1].

Lemma lor_mask_sweep :
  forallb (fun F => forallb (fun m => forallb (fun m' =>
     Bool.eqb (bit (N.lor F m) m') ((m =? m') || bit F m') && (N.lor F m <? 256)) masks) masks) (nrange 256 0) = true.
Proof. vm_compute. reflexivity. Qed.

Lemma lor_mask F m m' : F < 256 -> In m masks -> In m' masks ->
  bit (N.lor F m) m' = ((m =? m') || bit F m') /\ N.lor F m < 256.
Proof.
  intros HF Hm Hm'. pose proof lor_mask_sweep as S. rewrite forallb_forall in S.
  specialize (S F (nrange_in 256 0 F ltac:(lia) ltac:(lia))). rewrite forallb_forall in S. specialize (S m Hm).
  rewrite forallb_forall in S. specialize (S m' Hm'). apply andb_true_iff in S. destruct S as [S1 S2].
  apply Bool.eqb_prop in S1. apply N.ltb_lt in S2. split; assumption.
Qed.

(* a flag setter called with true sets exactly its own flag, touches nothing else, keeps the flags byte a byte;
   called with false (or on an empty EBP) it does nothing: the API cannot clear a flag *)
Lemma set_flag_spec e m v : DataFlags e < 256 -> In m masks ->
  (forall m', In m' masks -> flag (set_flag e m v) m' = ((negb (DataFieldLength e =? 0) && v && (m =? m')) || flag e m'))
  /\ DataFlags (set_flag e m v) < 256
  /\ set_flag e m v = (if negb (DataFieldLength e =? 0) && v then set_DataFlags e (N.lor (DataFlags e) m) else e)
  /\ DataFieldLength (set_flag e m v) = DataFieldLength e.
Proof.
  intros HF Hm. unfold set_flag, flag. destruct (DataFieldLength e =? 0) eqn:E0; cbn [negb andb].
  - repeat split; auto. intros m' _. rewrite E0. reflexivity.
  - destruct v; cbn [andb].
    + repeat split.
      * intros m' Hm'. cbn [set_DataFlags DataFieldLength DataFlags]. rewrite E0. cbn [negb andb].
        apply (lor_mask _ _ _ HF Hm Hm').
      * cbn [set_DataFlags DataFlags]. apply (lor_mask _ _ _ HF Hm Hm).
    + repeat split; auto. intros m' _. rewrite E0. reflexivity.
Qed.

Lemma set_flag_false e m : set_flag e m false = e.
Proof. unfold set_flag. rewrite andb_false_r. reflexivity. Qed.

(* the constructors give consistent, strict, non-empty objects with no flag set *)
Lemma create_comcast_cons : cons_comcast CreateComcastEBP /\ strict_comcast CreateComcastEBP
  /\ fst (ComcastData CreateComcastEBP) = [169; 1; 0].
Proof.
  split; [|split]; [ | | reflexivity].
  - unfold cons_comcast. repeat split; try (vm_compute; reflexivity); try (vm_compute; intro; discriminate); try constructor.
  - unfold strict_comcast. repeat split; reflexivity.
Qed.
Lemma create_cablelabs_cons : cons_cablelabs CreateCableLabsEbp /\ strict_cablelabs CreateCableLabsEbp
  /\ fst (CableLabsData CreateCableLabsEbp) = [223; 5; 69; 66; 80; 48; 0].
Proof.
  split; [|split]; [ | | reflexivity].
  - unfold cons_cablelabs. repeat split; try (vm_compute; reflexivity); try (vm_compute; intro; discriminate); try constructor.
  - unfold strict_cablelabs. repeat split; reflexivity.
Qed.

(* value setters store exactly what they are given and touch neither the flags nor the length *)
Lemma value_setters e v tm :
  Sap (SetSap e v) = v /\ DataFlags (SetSap e v) = DataFlags e /\ DataFieldLength (SetSap e v) = DataFieldLength e
  /\ DataFlags (SetEBPTime e tm) = DataFlags e /\ DataFieldLength (SetEBPTime e tm) = DataFieldLength e
  /\ TimeSeconds (SetEBPTime e tm) < 4294967296 /\ TimeFraction (SetEBPTime e tm) < 4294967296
  /\ IsEmpty (SetIsEmpty e true) = true /\ IsEmpty (SetIsEmpty e false) = false.
Proof.
  destruct (SetEBPTime_range e tm) as [R1 R2].
  repeat split; try reflexivity; try assumption; unfold SetEBPTime; destruct (insertUtcTime tm); reflexivity.
Qed.

(* SetPartitionFlag: needs the extension flag, sets bit 7 of ExtensionFlags *)
Lemma set_partition_flag e : ExtensionFlag e = true -> ExtensionFlags e < 128 ->
  PartitionFlag (SetPartitionFlag e true) = true /\ ExtensionFlags (SetPartitionFlag e true) = ExtensionFlags e + 128
  /\ DataFlags (SetPartitionFlag e true) = DataFlags e.
Proof.
  intros HE Hx. unfold SetPartitionFlag, PartitionFlag. rewrite HE. cbn [andb].
  assert (HE' : ExtensionFlag (set_ExtensionFlags e (N.lor (ExtensionFlags e) 128)) = true) by exact HE.
  rewrite HE'. cbn [set_ExtensionFlags ExtensionFlags DataFlags andb].
  destruct (id7_facts _ Hx) as (_ & _ & _ & E4 & E5). rewrite E5. unfold bit. rewrite E4. repeat split; reflexivity.
Qed.

(* ---------------- the time survives the wire: SetEBPTime, Data(), decode, EBPTime ---------------- *)
Lemma time_survives_wire_comcast g e tm :
  cons_comcast (SetEBPTime e tm) -> TimeFlag e = true ->
  (2147483648 * 1000000000 <= tm < (4294967296 + 2147483648) * 1000000000)%Z ->
  exists e', ReadEncoderBoundaryPoint g (fst (ComcastData (SetEBPTime e tm))) = Ok (Comcast, e')
             /\ (tm <= EBPTime e' <= tm + 1)%Z.
Proof.
  intros C HT R. destruct (build_encode_decode_comcast g _ C) as [_ D].
  exists (canon_comcast (SetEBPTime e tm)). split; [exact D|].
  assert (HT' : TimeFlag (SetEBPTime e tm) = true).
  { unfold SetEBPTime. destruct (insertUtcTime tm). exact HT. }
  unfold EBPTime, canon_comcast. cbn [TimeSeconds TimeFraction]. rewrite HT'.
  apply (Proofs.EbpTime.time_roundtrip e tm R).
Qed.

Lemma time_survives_wire_cablelabs g e tm :
  cons_cablelabs (SetEBPTime e tm) -> TimeFlag e = true ->
  (2147483648 * 1000000000 <= tm < (4294967296 + 2147483648) * 1000000000)%Z ->
  exists e', ReadEncoderBoundaryPoint g (fst (CableLabsData (SetEBPTime e tm))) = Ok (CableLabs, e')
             /\ (tm <= EBPTime e' <= tm + 1)%Z.
Proof.
  intros C HT R. destruct (build_encode_decode_cablelabs g _ C) as [_ D].
  exists (canon_cablelabs (SetEBPTime e tm)). split; [exact D|].
  assert (HT' : TimeFlag (SetEBPTime e tm) = true).
  { unfold SetEBPTime. destruct (insertUtcTime tm). exact HT. }
  unfold EBPTime, canon_cablelabs. cbn [TimeSeconds TimeFraction]. rewrite HT'.
  apply (Proofs.EbpTime.time_roundtrip e tm R).
Qed.

(* an EMPTY EBP (length byte 0) is outside the property: it decodes, but Data() returns no bytes at all *)
Lemma empty_ebp_data :
  (exists e, ReadEncoderBoundaryPoint false [169; 0] = Ok (Comcast, e) /\ IsEmpty e = true /\ fst (ComcastData e) = [])
  /\ (exists e, ReadEncoderBoundaryPoint false [223; 0] = Ok (CableLabs, e) /\ IsEmpty e = true /\ fst (CableLabsData e) = []).
Proof. split; eexists; repeat split; vm_compute; reflexivity. Qed.
