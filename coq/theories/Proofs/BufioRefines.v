(* The model of bufio.Reader (Model/Bufio.v) implements the reader oracle of C16 (Model/IO.v)
   for every buffer size and every fragmentation of the underlying reader; hence Sync over
   bufio.Reader = Sync over the oracle. *)
From Gots Require Import Base.Prelude Model.PacketWriter Model.IO Model.Bufio Spec.IOSpec
  Proofs.WriterProofs Proofs.WriterReadFrom.
Import IOSpec PacketWriter Bufio.
Local Open Scope nat_scope.

(* hypothesis on the underlying reader: fewer than 100 zero-length reads ((0, nil) results) in a
   row (bufio gives up with io.ErrNoProgress after 100; that path is compared by the fidelity
   cases of io.syncb) *)
Fixpoint lead (s : script) : nat :=
  match s with
  | ([], None) :: s' => S (lead s')
  | _ => 0
  end.
Fixpoint runs_lt (s : script) : Prop :=
  match s with
  | [] => True
  | _ :: s' => lead s < maxConsecutiveEmptyReads /\ runs_lt s'
  end.
Definition few_empty_reads (st : rstate) : Prop :=
  match st with Failed _ => True | Script s => runs_lt s end.
Definition st_lead (st : rstate) : nat :=
  match st with Failed _ => 0 | Script s => lead s end.

Lemma st_lead_lt st : few_empty_reads st -> st_lead st < maxConsecutiveEmptyReads.
Proof.
  destruct st as [[|ce s]|e]; cbn [few_empty_reads st_lead runs_lt]; unfold maxConsecutiveEmptyReads.
  - cbn. lia.
  - intros [H _]. exact H.
  - lia.
Qed.

Lemma lead_nonempty c oe s' : c <> [] -> lead ((c, oe) :: s') = 0.
Proof. destruct c; [contradiction|reflexivity]. Qed.

Lemma rd_read_facts st k : 0 < k -> few_empty_reads st ->
  forall data e st', rd_read st k = ((data, e), st') ->
  data ++ st_data st' = st_data st /\ st_err st' = st_err st /\ length data <= k /\ few_empty_reads st' /\
  (forall x, e = Some x -> st' = Failed x /\ x = st_err st) /\
  (e = None -> data = [] -> st_lead st = S (st_lead st')) /\
  weight st' <= weight st /\ (e = None -> data = [] -> weight st' < weight st).
Proof.
  intros Hk Hne data e st' H.
  destruct st as [[|[c oe] s']|e0]; cbn [rd_read] in H.
  - inversion H; subst. cbn [st_data st_err script_data script_err app length few_empty_reads weight].
    split; [reflexivity|]. split; [reflexivity|]. split; [lia|]. split; [exact I|]. split.
    { intros y Hy. inversion Hy; subst. auto. }
    split; [discriminate|]. split; [lia|discriminate].
  - cbn [few_empty_reads runs_lt] in Hne. destruct Hne as [Hlead Hs'].
    assert (Hw : forall c0, weight (Script ((c0, oe) :: s')) = S (length c0) + weight (Script s')).
    { intro c0. cbn. lia. }
    destruct (Nat.leb_spec (length c) k) as [Hl|Hl].
    + inversion H; subst. destruct e as [x|]; cbn [st_data st_err script_data script_err few_empty_reads].
      * split; [apply app_nil_r|]. split; [reflexivity|]. split; [exact Hl|]. split; [exact I|]. split.
        { intros y Hy. inversion Hy; subst. auto. }
        split; [discriminate|]. split; [cbn [weight]; lia|discriminate].
      * split; [reflexivity|]. split; [reflexivity|]. split; [exact Hl|]. split; [exact Hs'|]. split.
        { intros y Hy. discriminate. }
        split; [intros _ ->; reflexivity|]. rewrite Hw. split; [lia|intros _ _; lia].
    + inversion H; subst. cbn [st_data st_err script_data script_err few_empty_reads runs_lt].
      assert (Hsk : skipn k c <> []).
      { intro E0. apply (f_equal (@length N)) in E0. rewrite skipn_length in E0. cbn in E0. lia. }
      assert (Hfk : firstn k c <> []).
      { intro E0. apply (f_equal (@length N)) in E0. rewrite firstn_length in E0. cbn in E0. lia. }
      split; [|split; [|split; [|split; [|split; [|split; [|split]]]]]].
      * destruct oe; [apply firstn_skipn|]. rewrite app_assoc, firstn_skipn. reflexivity.
      * destruct oe; reflexivity.
      * rewrite firstn_length. lia.
      * split; [|exact Hs']. rewrite lead_nonempty by exact Hsk. unfold maxConsecutiveEmptyReads. lia.
      * intros y Hy. discriminate.
      * intros _ E0. contradiction.
      * rewrite !Hw, skipn_length. lia.
      * intros _ E0. contradiction.
  - inversion H; subst. cbn [st_data st_err app length few_empty_reads weight].
    split; [reflexivity|]. split; [reflexivity|]. split; [lia|]. split; [exact I|]. split.
    { intros y Hy. inversion Hy; subst. auto. }
    split; [discriminate|]. split; [lia|discriminate].
Qed.

(* ---- invariant and refinement relation ---- *)
Definition Inv0 (b : breader) : Prop :=
  length (bwin b) = bw b - br b /\ br b <= bw b /\ bw b <= bcap b /\ 4 <= bcap b /\
  (forall e, berr b = Some e -> brd b = Failed e) /\ few_empty_reads (brd b).
(* UnreadByte is possible after a ReadByte: then r > 0, or r = w = 0 after a failed fill *)
Definition InvL (b : breader) : Prop := blast b <> None -> ~ (br b = 0 /\ 0 < bw b).
Definition bdata (b : breader) : bytes := bwin b ++ st_data (brd b).
Definition Rel (b : breader) (a : SyncIO.reader) : Prop :=
  Inv0 b /\ InvL b /\ SyncIO.rest a = bdata b /\ SyncIO.terr a = st_err (brd b) /\ SyncIO.last a = blast b.

Lemma fill_loop_S i b : fill_loop (S i) b =
  let '((data, e), rd') := rd_read (brd b) (bcap b - bw b) in
  let b1 := mkB (bcap b) (br b) (bw b + length data) (bwin b ++ data) (berr b) (blast b) rd' in
  match e with
  | Some x => mkB (bcap b1) (br b1) (bw b1) (bwin b1) (Some x) (blast b1) (brd b1)
  | None => if 0 <? length data then b1 else fill_loop i b1
  end.
Proof. reflexivity. Qed.

(* the read loop of fill, started with room in the buffer and fewer leading empty reads than tries:
   data is conserved, and either the window grows or b.err is set (to the reader's error) *)
Lemma fill_loop_spec : forall i b, Inv0 b -> berr b = None -> bw b < bcap b -> st_lead (brd b) < i ->
  exists b', fill_loop i b = b' /\ Inv0 b' /\ bdata b' = bdata b /\ st_err (brd b') = st_err (brd b) /\
             blast b' = blast b /\ br b' = br b /\ bcap b' = bcap b /\
             (berr b' = None -> length (bwin b) < length (bwin b')).
Proof.
  induction i as [|i IH]; intros b HI He Hroom Hlead; [lia|].
  pose proof HI as [Hlen [Hrw [Hwc [Hc4 [Herr Hne]]]]].
  rewrite fill_loop_S.
  destruct (rd_read (brd b) (bcap b - bw b)) as [[data e] rd'] eqn:Hrd.
  destruct (rd_read_facts (brd b) (bcap b - bw b) ltac:(lia) Hne data e rd' Hrd)
    as [Hdat [Hse [Hld [Hne' [Hsome [Hnone [_ _]]]]]]].
  destruct e as [x|].
  - destruct (Hsome x eq_refl) as [Hf Hx]. eexists. split; [reflexivity|].
    unfold bdata, Inv0. cbn [bcap br bw bwin berr blast brd]. subst rd'. cbn [st_data st_err few_empty_reads] in *.
    rewrite app_nil_r in Hdat. rewrite !app_nil_r, app_length, <- Hdat.
    split.
    { split; [lia|]. split; [lia|]. split; [lia|]. split; [lia|]. split; [|exact I].
      intros e0 H0. inversion H0; subst. reflexivity. }
    split; [reflexivity|]. split; [exact Hx|]. split; [reflexivity|]. split; [reflexivity|].
    split; [reflexivity|]. discriminate.
  - destruct data as [|d ds].
    + (* a (0, nil) read: try again *)
      change (0 <? length (@nil N)) with false. cbv iota.
      specialize (Hnone eq_refl eq_refl).
      set (b1 := mkB (bcap b) (br b) (bw b + length (@nil N)) (bwin b ++ []) (berr b) (blast b) rd').
      assert (HI1 : Inv0 b1).
      { unfold Inv0, b1. cbn [bcap br bw bwin berr blast brd length]. rewrite app_nil_r, Nat.add_0_r.
        split; [exact Hlen|]. split; [exact Hrw|]. split; [exact Hwc|]. split; [exact Hc4|].
        split; [|exact Hne']. intros e0 H0. rewrite He in H0. discriminate. }
      destruct (IH b1 HI1) as [b' [Hfl [HI' [Hd' [He' [Hl' [Hr' [Hc' Hg']]]]]]]].
      { exact He. }
      { unfold b1. cbn [bw bcap length]. lia. }
      { unfold b1. cbn [brd]. lia. }
      exists b'. split; [exact Hfl|]. split; [exact HI'|].
      assert (Hb1 : bdata b1 = bdata b).
      { unfold bdata, b1. cbn [bwin brd]. rewrite app_nil_r. cbn [app] in Hdat. rewrite Hdat. reflexivity. }
      split; [rewrite Hd'; exact Hb1|]. split; [rewrite He'; exact Hse|].
      split; [exact Hl'|]. split; [exact Hr'|]. split; [exact Hc'|].
      intro H0. specialize (Hg' H0). unfold b1 in Hg'. cbn [bwin] in Hg'. rewrite app_nil_r in Hg'. exact Hg'.
    + change (0 <? length (d :: ds)) with true. cbv iota.
      eexists. split; [reflexivity|].
      unfold bdata, Inv0. cbn [bcap br bw bwin berr blast brd].
      rewrite app_length, <- app_assoc, Hdat.
      split.
      { split; [lia|]. split; [lia|]. split; [lia|]. split; [lia|]. split; [|exact Hne'].
        intros e0 H0. rewrite He in H0. discriminate. }
      split; [reflexivity|]. split; [exact Hse|]. split; [reflexivity|]. split; [reflexivity|].
      split; [reflexivity|]. intros _. cbn [length]. lia.
Qed.

(* one fill *)
Lemma fill_spec b : Inv0 b -> berr b = None -> bw b - br b < bcap b ->
  exists b', fill b = Ok b' /\ Inv0 b' /\ bdata b' = bdata b /\ st_err (brd b') = st_err (brd b) /\
             blast b' = blast b /\ br b' = 0 /\ bcap b' = bcap b /\
             (berr b' = None -> length (bwin b) < length (bwin b')).
Proof.
  intros HI He Hroom. pose proof HI as [Hlen [Hrw [Hwc [Hc4 [Herr Hne]]]]].
  unfold fill.
  set (b1 := if 0 <? br b then mkB (bcap b) 0 (bw b - br b) (bwin b) (berr b) (blast b) (brd b) else b).
  assert (H1 : bcap b1 = bcap b /\ br b1 = 0 /\ bw b1 = bw b - br b /\ bwin b1 = bwin b /\ berr b1 = None /\
               blast b1 = blast b /\ brd b1 = brd b).
  { unfold b1. destruct (Nat.ltb_spec 0 (br b)); cbn; repeat split; auto; lia. }
  destruct H1 as [E1 [E2 [E3 [E4 [E5 [E6 E7]]]]]].
  destruct (Nat.leb_spec (bcap b1) (bw b1)) as [Hfull|Hok]; [lia|].
  assert (HI1 : Inv0 b1).
  { unfold Inv0. rewrite E1, E2, E3, E4, E5, E7.
    split; [lia|]. split; [lia|]. split; [lia|]. split; [lia|]. split; [discriminate|exact Hne]. }
  destruct (fill_loop_spec maxConsecutiveEmptyReads b1 HI1 E5 Hok)
    as [b' [Hfl [HI' [Hd' [He' [Hl' [Hr' [Hc' Hg']]]]]]]].
  { rewrite E7. apply st_lead_lt. exact Hne. }
  exists b'. split; [rewrite Hfl; reflexivity|]. split; [exact HI'|].
  split; [rewrite Hd'; unfold bdata; rewrite E4, E7; reflexivity|].
  split; [rewrite He', E7; reflexivity|]. split; [rewrite Hl'; exact E6|].
  split; [rewrite Hr'; exact E2|]. split; [rewrite Hc'; exact E1|].
  intro H0. specialize (Hg' H0). rewrite E4 in Hg'. exact Hg'.
Qed.

(* ---- ReadByte ---- *)
Lemma read_byte_loop_S f b : read_byte_loop (S f) b =
  if br b =? bw b then
    match berr b with
    | Some e => Ok (inr e, mkB (bcap b) (br b) (bw b) (bwin b) None (blast b) (brd b))
    | None => let? b' := fill b in read_byte_loop f b'
    end
  else
    match bwin b with
    | c :: t => Ok (inl c, mkB (bcap b) (S (br b)) (bw b) t (berr b) (Some c) (brd b))
    | [] => Panic
    end.
Proof. reflexivity. Qed.

Lemma read_byte_sim b a : Rel b a ->
  exists x b' a', read_byte b = Ok (x, b') /\ SyncIO.read_byte a = (x, a') /\ Rel b' a'.
Proof.
  intros [HI [HL [Hrest [Hterr Hlast]]]].
  pose proof HI as [Hlen [Hrw [Hwc [Hc4 [Herr Hne]]]]].
  unfold read_byte. rewrite read_byte_loop_S.
  destruct (Nat.eqb_spec (br b) (bw b)) as [Heq|Hneq].
  - assert (Hwin : bwin b = []) by (destruct (bwin b); [reflexivity|cbn in Hlen; lia]).
    destruct (berr b) as [e|] eqn:He.
    + (* pending error is delivered and cleared *)
      pose proof (Herr e eq_refl) as Hf.
      assert (Hra : SyncIO.rest a = []) by (rewrite Hrest; unfold bdata; rewrite Hwin, Hf; reflexivity).
      exists (inr e), (mkB (bcap b) (br b) (bw b) (bwin b) None (blast b) (brd b)), a.
      split; [reflexivity|]. split.
      * unfold SyncIO.read_byte. rewrite Hra, Hterr, Hf. reflexivity.
      * split; [|split; [exact HL|split; [exact Hrest|split; [exact Hterr|exact Hlast]]]].
        unfold Inv0. cbn [bcap br bw bwin berr blast brd]. repeat (split; [assumption|]).
        split; [discriminate|exact Hne].
    + (* empty buffer: fill, then look again *)
      destruct (fill_spec b HI He ltac:(lia)) as [b1 [Hfill [HI1 [Hd1 [He1 [Hl1 [Hr1 [Hc1 Hgrow]]]]]]]].
      rewrite Hfill. cbn [bind]. rewrite read_byte_loop_S.
      pose proof HI1 as [Hlen1 [Hrw1 [Hwc1 [Hc41 [Herr1 Hne1]]]]].
      destruct (Nat.eqb_spec (br b1) (bw b1)) as [Heq1|Hneq1].
      * assert (Hwin1 : bwin b1 = []) by (destruct (bwin b1); [reflexivity|cbn in Hlen1; lia]).
        destruct (berr b1) as [e|] eqn:He1'.
        2:{ specialize (Hgrow eq_refl). rewrite Hwin, Hwin1 in Hgrow. cbn in Hgrow. lia. }
        pose proof (Herr1 e eq_refl) as Hf1.
        assert (Hra : SyncIO.rest a = []).
        { rewrite Hrest, <- Hd1. unfold bdata. rewrite Hwin1, Hf1. reflexivity. }
        exists (inr e), (mkB (bcap b1) (br b1) (bw b1) (bwin b1) None (blast b1) (brd b1)), a.
        split; [reflexivity|]. split.
        -- unfold SyncIO.read_byte. rewrite Hra, Hterr, <- He1, Hf1. reflexivity.
        -- split; [|split; [|split; [|split]]].
           ++ unfold Inv0. cbn [bcap br bw bwin berr blast brd]. repeat (split; [assumption|]).
              split; [discriminate|exact Hne1].
           ++ unfold InvL. cbn [blast br bw]. intros _ [_ Hw]. lia.
           ++ rewrite Hrest, <- Hd1. reflexivity.
           ++ cbn [brd]. rewrite Hterr, He1. reflexivity.
           ++ cbn [blast]. rewrite Hl1. exact Hlast.
      * destruct (bwin b1) as [|c t] eqn:Hwin1; [cbn in Hlen1; lia|].
        exists (inl c), (mkB (bcap b1) (S (br b1)) (bw b1) t (berr b1) (Some c) (brd b1)),
               (SyncIO.mkR (t ++ st_data (brd b1)) (Some c) (SyncIO.terr a)).
        split; [reflexivity|]. split.
        -- unfold SyncIO.read_byte. rewrite Hrest, <- Hd1. unfold bdata. rewrite Hwin1. reflexivity.
        -- split; [|split; [|split; [|split]]].
           ++ unfold Inv0. cbn [bcap br bw bwin berr blast brd]. cbn [length] in Hlen1.
              split; [lia|]. split; [lia|]. split; [lia|]. split; [lia|]. split; assumption.
           ++ unfold InvL. cbn [blast br bw]. intros _ [Hz _]. discriminate.
           ++ reflexivity.
           ++ cbn [SyncIO.terr brd]. rewrite Hterr, He1. reflexivity.
           ++ reflexivity.
  - destruct (bwin b) as [|c t] eqn:Hwin; [cbn in Hlen; lia|].
    exists (inl c), (mkB (bcap b) (S (br b)) (bw b) t (berr b) (Some c) (brd b)),
           (SyncIO.mkR (t ++ st_data (brd b)) (Some c) (SyncIO.terr a)).
    split; [reflexivity|]. split.
    + unfold SyncIO.read_byte. rewrite Hrest. unfold bdata. rewrite Hwin. reflexivity.
    + split; [|split; [|split; [|split]]].
      * unfold Inv0. cbn [bcap br bw bwin berr blast brd]. cbn [length] in Hlen.
        split; [lia|]. split; [lia|]. split; [lia|]. split; [lia|]. split; assumption.
      * unfold InvL. cbn [blast br bw]. intros _ [Hz _]. discriminate.
      * reflexivity.
      * exact Hterr.
      * reflexivity.
Qed.

(* ---- UnreadByte ---- *)
Lemma unread_byte_sim b a : Rel b a ->
  exists x b' a', unread_byte b = Ok (x, b') /\ SyncIO.unread_byte a = (x, a') /\ Rel b' a'.
Proof.
  intros [HI [HL [Hrest [Hterr Hlast]]]].
  pose proof HI as [Hlen [Hrw [Hwc [Hc4 [Herr Hne]]]]].
  unfold unread_byte, SyncIO.unread_byte. rewrite Hlast.
  destruct (blast b) as [c|] eqn:Hb.
  - assert (HL' : ~ (br b = 0 /\ 0 < bw b)) by (apply HL; rewrite Hb; discriminate).
    destruct (Nat.eqb_spec (br b) 0) as [Hr0|Hr0]; destruct (Nat.ltb_spec 0 (bw b)) as [Hw0|Hw0];
      cbn [andb]; try (exfalso; apply HL'; split; assumption).
    + (* r = 0, w = 0: w = 1, buf[0] = last byte *)
      destruct (Nat.ltb_spec 0 (br b)) as [Hbad|_]; [lia|].
      assert (Hwin : bwin b = []) by (destruct (bwin b); [reflexivity|cbn in Hlen; lia]).
      eexists _, _, _. split; [reflexivity|]. split; [reflexivity|].
      split; [|split; [|split; [|split]]].
      * unfold Inv0. cbn [bcap br bw bwin berr blast brd]. rewrite Hwin. cbn [length].
        split; [lia|]. split; [lia|]. split; [lia|]. split; [lia|]. split; assumption.
      * unfold InvL. cbn [blast]. intro Hx. contradiction.
      * cbn [SyncIO.rest]. rewrite Hrest. reflexivity.
      * exact Hterr.
      * reflexivity.
    + destruct (Nat.ltb_spec 0 (br b)) as [_|Hbad]; [|lia].
      eexists _, _, _. split; [reflexivity|]. split; [reflexivity|].
      split; [|split; [|split; [|split]]].
      * unfold Inv0. cbn [bcap br bw bwin berr blast brd length].
        split; [lia|]. split; [lia|]. split; [lia|]. split; [lia|]. split; assumption.
      * unfold InvL. cbn [blast]. intro Hx. contradiction.
      * cbn [SyncIO.rest]. rewrite Hrest. reflexivity.
      * exact Hterr.
      * reflexivity.
    + destruct (Nat.ltb_spec 0 (br b)) as [_|Hbad]; [|lia].
      eexists _, _, _. split; [reflexivity|]. split; [reflexivity|].
      split; [|split; [|split; [|split]]].
      * unfold Inv0. cbn [bcap br bw bwin berr blast brd length].
        split; [lia|]. split; [lia|]. split; [lia|]. split; [lia|]. split; assumption.
      * unfold InvL. cbn [blast]. intro Hx. contradiction.
      * cbn [SyncIO.rest]. rewrite Hrest. reflexivity.
      * exact Hterr.
      * reflexivity.
  - eexists _, _, _. split; [reflexivity|]. split; [reflexivity|].
    split; [exact HI|split; [exact HL|split; [exact Hrest|split; [exact Hterr|]]]].
    rewrite Hb. exact Hlast.
Qed.

(* ---- Peek ---- *)
Lemma peek_loop_S f n b : peek_loop (S f) n b =
  if (bw b - br b <? n) && (bw b - br b <? bcap b) && (match berr b with None => true | Some _ => false end)
  then let? b' := fill b in peek_loop f n b'
  else Ok b.
Proof. reflexivity. Qed.

(* the fill loop of Peek stops with n bytes in the window or with b.err set; data is conserved *)
Lemma peek_loop_spec n : forall fuel b, Inv0 b -> n <= bcap b -> (n - length (bwin b)) + 1 < fuel ->
  exists b', peek_loop fuel n b = Ok b' /\ Inv0 b' /\ bdata b' = bdata b /\
             st_err (brd b') = st_err (brd b) /\ blast b' = blast b /\ bcap b' = bcap b /\
             (n <= length (bwin b') \/ berr b' <> None) /\
             (berr b' = None -> berr b = None).
Proof.
  induction fuel as [|f IH]; intros b HI Hn Hf; [lia|].
  pose proof HI as [Hlen [Hrw [Hwc [Hc4 [Herr Hne]]]]].
  rewrite peek_loop_S. rewrite <- Hlen.
  destruct (Nat.ltb_spec (length (bwin b)) n) as [Hshort|Hlong]; cbn [andb].
  2:{ exists b. split; [reflexivity|]. split; [exact HI|]. split; [reflexivity|]. split; [reflexivity|]. split; [reflexivity|]. split; [reflexivity|]. split; [left; exact Hlong|]. intro H; exact H. }
  destruct (Nat.ltb_spec (length (bwin b)) (bcap b)) as [_|Hbad]; [|lia]. cbn [andb].
  destruct (berr b) as [e|] eqn:He.
  { exists b. split; [reflexivity|]. split; [exact HI|]. split; [reflexivity|]. split; [reflexivity|]. split; [reflexivity|]. split; [reflexivity|]. split; [right; rewrite He; discriminate|]. intro H; rewrite He in H; discriminate H. }
  destruct (fill_spec b HI He ltac:(lia)) as [b1 [Hfill [HI1 [Hd1 [He1 [Hl1 [Hr1 [Hc1 Hgrow]]]]]]]].
  rewrite Hfill. cbn [bind].
  destruct (berr b1) as [e|] eqn:Hb1.
  - (* the fill set b.err: the next test leaves the loop *)
    destruct f as [|f']; [lia|]. rewrite peek_loop_S. rewrite Hb1, !andb_false_r.
    exists b1. split; [reflexivity|]. split; [exact HI1|]. split; [exact Hd1|]. split; [exact He1|]. split; [exact Hl1|]. split; [exact Hc1|]. split; [right; rewrite Hb1; discriminate|]. intros _. reflexivity.
  - specialize (Hgrow eq_refl).
    destruct (IH b1 HI1 ltac:(lia) ltac:(lia)) as [b2 [Hp [HI2 [Hd2 [He2 [Hl2 [Hc2 [Hex Hnn]]]]]]]].
    exists b2. split; [exact Hp|]. split; [exact HI2|]. split; [congruence|]. split; [congruence|].
    split; [congruence|]. split; [congruence|]. split; [exact Hex|]. intros _. reflexivity.
Qed.

Lemma peek_sim b a k : Rel b a -> k <= bcap b ->
  exists x b' a', peek (N.of_nat k) b = Ok (x, b') /\ SyncIO.peek (N.of_nat k) a = (x, a') /\ Rel b' a'.
Proof.
  intros [HI [HL [Hrest [Hterr Hlast]]]] Hk.
  unfold peek. rewrite Nat2N.id.
  set (b0 := mkB (bcap b) (br b) (bw b) (bwin b) (berr b) None (brd b)).
  assert (HI0 : Inv0 b0) by exact HI.
  destruct (peek_loop_spec k (k + 2) b0 HI0 Hk ltac:(lia))
    as [b1 [Hp [HI1 [Hd1 [He1 [Hl1 [Hc1 [Hex _]]]]]]]].
  rewrite Hp. cbn [bind].
  pose proof HI1 as [Hlen1 [Hrw1 [Hwc1 [Hc41 [Herr1 Hne1]]]]].
  assert (Hcap : bcap b1 = bcap b) by exact Hc1.
  destruct (Nat.ltb_spec (bcap b1) k) as [Hbad|_]; [lia|].
  rewrite <- Hlen1.
  assert (Hrest1 : SyncIO.rest a = bwin b1 ++ st_data (brd b1)).
  { rewrite Hrest. change (bdata b) with (bdata b0). rewrite <- Hd1. reflexivity. }
  assert (Hterr1 : SyncIO.terr a = st_err (brd b1)).
  { rewrite Hterr. change (brd b) with (brd b0). rewrite He1. reflexivity. }
  assert (Hbl1 : blast b1 = None) by (rewrite Hl1; reflexivity).
  unfold SyncIO.peek.
  destruct (Nat.ltb_spec (length (bwin b1)) k) as [Hshort|Hlong].
  - (* not enough data: b.err is set and is what the oracle calls the terminal error *)
    destruct Hex as [Hx|Hx]; [lia|].
    destruct (berr b1) as [e|] eqn:Hb1; [|contradiction].
    pose proof (Herr1 e eq_refl) as Hf1.
    assert (Hla : (N.of_nat k <=? len (SyncIO.rest a))%N = false).
    { apply N.leb_gt. unfold len. rewrite Hrest1, Hf1. cbn [st_data]. rewrite app_nil_r. lia. }
    rewrite Hla.
    eexists _, _, _. split; [reflexivity|]. split.
    + rewrite Hterr1, Hf1. reflexivity.
    + split; [|split; [|split; [|split]]].
      * unfold Inv0. cbn [bcap br bw bwin berr blast brd]. repeat (split; [assumption|]).
        split; [discriminate|exact Hne1].
      * unfold InvL. cbn [blast]. rewrite Hbl1. intro Hc. contradiction.
      * cbn [SyncIO.rest]. exact Hrest1.
      * cbn [SyncIO.terr brd]. first [exact Hterr1|rewrite Hf1; reflexivity].
      * cbn [SyncIO.last blast]. rewrite Hbl1. reflexivity.
  - assert (Hla : (N.of_nat k <=? len (SyncIO.rest a))%N = true).
    { apply N.leb_le. unfold len. rewrite Hrest1, app_length. lia. }
    rewrite Hla.
    eexists _, _, _. split; [reflexivity|]. split.
    + unfold takeN. rewrite Nat2N.id, Hrest1, firstn_app.
      replace (k - length (bwin b1)) with 0 by lia. cbn [firstn]. rewrite app_nil_r. reflexivity.
    + split; [exact HI1|split; [|split; [|split]]].
      * unfold InvL. rewrite Hbl1. intro Hc. contradiction.
      * cbn [SyncIO.rest]. first [exact Hrest1|reflexivity].
      * cbn [SyncIO.terr]. exact Hterr1.
      * cbn [SyncIO.last]. rewrite Hbl1. reflexivity.
Qed.

(* ---- Sync over two implementations of PeekScanner that simulate each other ---- *)
Section Sim.
Variables (S1 S2 : Type).
Variables (rb1 : S1 -> Res ((N + N) * S1)) (ub1 : S1 -> Res (option N * S1)) (pk1 : N -> S1 -> Res ((bytes + N) * S1)).
Variables (rb2 : S2 -> Res ((N + N) * S2)) (ub2 : S2 -> Res (option N * S2)) (pk2 : N -> S2 -> Res ((bytes + N) * S2)).
Variable R : S1 -> S2 -> Prop.
Hypothesis Hrb : forall s1 s2, R s1 s2 ->
  exists x s1' s2', rb1 s1 = Ok (x, s1') /\ rb2 s2 = Ok (x, s2') /\ R s1' s2'.
Hypothesis Hub : forall s1 s2, R s1 s2 ->
  exists x s1' s2', ub1 s1 = Ok (x, s1') /\ ub2 s2 = Ok (x, s2') /\ R s1' s2'.
Hypothesis Hpk : forall s1 s2, R s1 s2 ->
  exists x s1' s2', pk1 4%N s1 = Ok (x, s1') /\ pk2 4%N s2 = Ok (x, s2') /\ R s1' s2'.

(* same outcome, same value, related states *)
Definition sim {A} (r1 : Res (A * S1)) (r2 : Res (A * S2)) : Prop :=
  match r1, r2 with
  | Ok (v1, s1), Ok (v2, s2) => v1 = v2 /\ R s1 s2
  | Err e1, Err e2 => e1 = e2
  | Panic, Panic => True
  | Diverge, Diverge => True
  | _, _ => False
  end.

Lemma is_synced_sim s1 s2 : R s1 s2 ->
  sim (SyncIO.is_synced_over S1 pk1 s1) (SyncIO.is_synced_over S2 pk2 s2).
Proof.
  intro HR. unfold SyncIO.is_synced_over.
  destruct (Hpk s1 s2 HR) as [x [s1' [s2' [H1 [H2 HR']]]]]. rewrite H1, H2. cbn [bind].
  destruct x as [bs|e]; [|cbn; auto].
  destruct (idx bs 0) as [b0| | |]; cbn [bind sim]; auto.
  destruct (negb (b0 =? SyncIO.SyncByte)%N); [cbn; auto|].
  destruct (idx bs 3) as [b3| | |]; cbn [bind sim]; auto.
  destruct (idx bs 1) as [b1| | |]; cbn [bind sim]; auto.
  destruct (idx bs 2) as [b2| | |]; cbn [bind sim]; auto.
  destruct (N.land (be32 b0 b1 b2 b3) SyncIO.afcMask =? 0)%N; cbn; auto.
Qed.

Lemma sync_loop_sim rep : forall fuel s1 s2 off, R s1 s2 ->
  sim (SyncIO.sync_loop_over S1 rb1 ub1 pk1 rep fuel s1 off)
      (SyncIO.sync_loop_over S2 rb2 ub2 pk2 rep fuel s2 off).
Proof.
  induction fuel as [|f IH]; intros s1 s2 off HR; [exact I|].
  cbn [SyncIO.sync_loop_over].
  destruct (Hrb s1 s2 HR) as [x [s1a [s2a [H1 [H2 HRa]]]]]. rewrite H1, H2. cbn [bind].
  destruct x as [c|e]; [|cbn; auto].
  destruct (negb (c =? SyncIO.SyncByte)%N); [apply IH; exact HRa|].
  destruct (Hub s1a s2a HRa) as [u [s1b [s2b [H3 [H4 HRb]]]]]. rewrite H3, H4. cbn [bind].
  destruct u as [e|]; [cbn; auto|].
  pose proof (is_synced_sim s1b s2b HRb) as Hs.
  destruct (SyncIO.is_synced_over S1 pk1 s1b) as [[[ok1 er1] s1c]| | |];
  destruct (SyncIO.is_synced_over S2 pk2 s2b) as [[[ok2 er2] s2c]| | |]; cbn [sim] in Hs; try contradiction;
    cbn [bind sim]; auto.
  destruct Hs as [Hv HRc]. inversion Hv; subst ok2 er2.
  destruct ok1; [cbn; auto|].
  destruct er1 as [e|]; [cbn; auto|].
  destruct (Hrb s1c s2c HRc) as [y [s1d [s2d [H5 [H6 HRd]]]]]. rewrite H5, H6. cbn [bind].
  destruct y as [c'|e]; [|cbn; auto].
  apply IH. exact HRd.
Qed.
End Sim.

(* ---- Sync over bufio.Reader = Sync over the reader oracle ---- *)
Lemma rel_init size s : few_empty_reads (Script s) ->
  Rel (new_reader size (Script s)) (SyncIO.start (script_data s) (script_err s)).
Proof.
  intro Hne. unfold new_reader, SyncIO.start, Rel, Inv0, InvL, bdata, minReadBufferSize.
  cbn [bcap br bw bwin berr blast brd SyncIO.rest SyncIO.terr SyncIO.last length st_data st_err app].
  split.
  { split; [reflexivity|]. split; [lia|]. split; [lia|]. split; [lia|]. split; [discriminate|exact Hne]. }
  split; [intro H; contradiction|]. auto.
Qed.

Definition bsim (A : Type) := @sim breader SyncIO.reader Rel A.

Lemma sync_over_bufio size s : few_empty_reads (Script s) ->
  bsim (N * option N) (Bufio.sync_raw size s)
       (SyncIO.sync_raw (SyncIO.start (script_data s) (script_err s))).
Proof.
  intro Hne. unfold Bufio.sync_raw, SyncIO.sync_raw, Bufio.sync_loop, SyncIO.sync_loop, SyncIO.start.
  cbn [SyncIO.rest]. rewrite script_len_data.
  apply sync_loop_sim.
  - intros b a HR. destruct (read_byte_sim b a HR) as [x [b' [a' [H1 [H2 H3]]]]].
    exists x, b', a'. unfold SyncIO.o_rb. rewrite H2. auto.
  - intros b a HR. destruct (unread_byte_sim b a HR) as [x [b' [a' [H1 [H2 H3]]]]].
    exists x, b', a'. unfold SyncIO.o_ub. rewrite H2. auto.
  - intros b a HR. pose proof HR as [[_ [_ [_ [Hc4 _]]]] _].
    destruct (peek_sim b a 4 HR Hc4) as [x [b' [a' [H1 [H2 H3]]]]].
    exists x, b', a'. unfold SyncIO.o_pk. change 4%N with (N.of_nat 4). rewrite H2. auto.
  - exact (rel_init size s Hne).
Qed.

(* ---- bufio.Reader.Read and io.ReadFull over it: the next read after Sync ---- *)
Lemma read_spec b k : Inv0 b -> 0 < k ->
  exists data e b', read k b = Ok ((data, e), b') /\ Inv0 b' /\ data ++ bdata b' = bdata b /\
    st_err (brd b') = st_err (brd b) /\ length data <= k /\
    weight (brd b') <= weight (brd b) /\
    (e = None -> data = [] -> weight (brd b') < weight (brd b)) /\
    (forall x, e = Some x -> bdata b' = [] /\ x = st_err (brd b)).
Proof.
  intros HI Hk. pose proof HI as [Hlen [Hrw [Hwc [Hc4 [Herr Hne]]]]].
  unfold read. destruct (Nat.eqb_spec k 0) as [Hk0|_]; [lia|].
  assert (Hcopy : forall b0, Inv0 b0 -> bwin b0 <> [] ->
    exists data e b', (let out := firstn k (bwin b0) in
       Ok ((out, @None N), mkB (bcap b0) (br b0 + length out) (bw b0) (skipn k (bwin b0)) (berr b0)
                              (last_of out (blast b0)) (brd b0))) = Ok ((data, e), b') /\ Inv0 b' /\
      data ++ bdata b' = bdata b0 /\ st_err (brd b') = st_err (brd b0) /\ length data <= k /\
      weight (brd b') <= weight (brd b0) /\
      (e = None -> data = [] -> weight (brd b') < weight (brd b0)) /\
      (forall x, e = Some x -> bdata b' = [] /\ x = st_err (brd b0))).
  { intros b0 [Hl0 [Hrw0 [Hwc0 [Hc40 [Herr0 Hne0]]]]] Hw0.
    eexists _, _, _. split; [reflexivity|].
    split.
    { unfold Inv0. cbn [bcap br bw bwin berr blast brd]. rewrite skipn_length, firstn_length.
      split; [lia|]. split; [lia|]. split; [lia|]. split; [lia|]. split; assumption. }
    split.
    { unfold bdata. cbn [bwin brd]. rewrite app_assoc, firstn_skipn. reflexivity. }
    split; [reflexivity|]. split; [rewrite firstn_length; lia|]. split; [cbn [brd]; lia|]. split.
    - intros _ E0. exfalso. apply (f_equal (@length N)) in E0. rewrite firstn_length in E0. cbn [length] in E0.
      destruct (bwin b0); [contradiction|cbn [length] in E0; lia].
    - intros x Hx. discriminate. }
  destruct (Nat.eqb_spec (br b) (bw b)) as [Heq|Hneq].
  2:{ apply Hcopy; [exact HI|]. intro E0. rewrite E0 in Hlen. cbn in Hlen. lia. }
  assert (Hwin : bwin b = []) by (destruct (bwin b); [reflexivity|cbn in Hlen; lia]).
  destruct (berr b) as [e|] eqn:He.
  - pose proof (Herr e eq_refl) as Hf.
    eexists _, _, _. split; [reflexivity|]. split.
    { unfold Inv0. cbn [bcap br bw bwin berr blast brd]. repeat (split; [assumption|]).
      split; [discriminate|exact Hne]. }
    unfold bdata. cbn [bwin brd]. rewrite Hwin, Hf. cbn [st_data st_err app length weight].
    split; [reflexivity|]. split; [reflexivity|]. split; [lia|]. split; [lia|]. split; [discriminate|].
    intros x Hx. inversion Hx; subst. auto.
  - destruct (Nat.leb_spec (bcap b) k) as [Hbig|Hsmall].
    + destruct (rd_read (brd b) k) as [[data e] rd'] eqn:Hrd.
      destruct (rd_read_facts (brd b) k Hk Hne data e rd' Hrd)
        as [Hdat [Hse [Hld [Hne' [Hsome [_ [Hwle Hwlt]]]]]]].
      eexists _, _, _. split; [reflexivity|]. split.
      { unfold Inv0. cbn [bcap br bw bwin berr blast brd]. repeat (split; [assumption|]).
        split; [discriminate|exact Hne']. }
      unfold bdata. cbn [bwin brd]. rewrite Hwin. cbn [app].
      split; [exact Hdat|]. split; [exact Hse|]. split; [exact Hld|]. split; [exact Hwle|].
      split; [exact Hwlt|].
      intros x Hx. destruct (Hsome x Hx) as [Hf Hxx]. rewrite Hf. cbn [st_data]. auto.
    + destruct (rd_read (brd b) (bcap b)) as [[data e] rd'] eqn:Hrd.
      destruct (rd_read_facts (brd b) (bcap b) ltac:(lia) Hne data e rd' Hrd)
        as [Hdat [Hse [Hld [Hne' [Hsome [_ [Hwle Hwlt]]]]]]].
      destruct data as [|d ds].
      * eexists _, _, _. split; [reflexivity|]. split.
        { unfold Inv0. cbn [bcap br bw bwin berr blast brd length].
          split; [lia|]. split; [lia|]. split; [lia|]. split; [lia|]. split; [discriminate|exact Hne']. }
        unfold bdata. cbn [bwin brd]. rewrite Hwin. cbn [app length].
        split; [exact Hdat|]. split; [exact Hse|]. split; [lia|]. split; [exact Hwle|].
        split; [exact Hwlt|].
        intros y Hy. destruct (Hsome y Hy) as [Hf Hyy]. rewrite Hf. cbn [st_data]. auto.
      * set (b1 := mkB (bcap b) 0 (length (d :: ds)) (d :: ds) e (blast b) rd').
        assert (HI1 : Inv0 b1).
        { unfold Inv0, b1. cbn [bcap br bw bwin berr blast brd].
          split; [lia|]. split; [lia|]. split; [exact Hld|]. split; [lia|]. split; [|exact Hne'].
          intros x Hx. destruct (Hsome x Hx) as [Hf _]. exact Hf. }
        destruct (Hcopy b1 HI1 ltac:(discriminate))
          as [dat [e' [b' [Hc [HIb [Hd' [He' [Hl' [Hwl' [Hwt' Hs']]]]]]]]]].
        exists dat, e', b'. split; [exact Hc|]. split; [exact HIb|].
        split.
        { rewrite Hd'. unfold bdata, b1. cbn [bwin brd]. rewrite Hwin. cbn [app]. exact Hdat. }
        split; [rewrite He'; exact Hse|]. split; [exact Hl'|].
        unfold b1 in Hwl', Hwt'. cbn [brd] in Hwl', Hwt'.
        split; [lia|]. split; [intros H1 H2; specialize (Hwt' H1 H2); lia|].
        intros x Hx. destruct (Hs' x Hx) as [Hb' Hxx]. split; [exact Hb'|]. rewrite Hxx. exact Hse.
Qed.

Definition rf_err (acc D : bytes) (want : nat) (e : N) : option N :=
  if want - length acc <=? length D then None
  else if (0 <? length (acc ++ D)) && (e =? E.EOF)%N then Some E.UnexpectedEOF else Some e.

Lemma read_full_loop_S f want b acc err : read_full_loop (S f) want b acc err =
  match err with
  | None =>
    if length acc <? want then
      let? (de, b') := read (want - length acc) b in
      read_full_loop f want b' (acc ++ fst de) (snd de)
    else Ok (acc, None, b)
  | Some e =>
    Ok (acc, if want <=? length acc then None
             else if (0 <? length acc) && (e =? E.EOF)%N then Some E.UnexpectedEOF else Some e, b)
  end.
Proof. reflexivity. Qed.

Lemma read_full_loop_spec want : forall fuel b acc, Inv0 b -> length acc < want ->
  (want - length acc) + 2 + weight (brd b) <= fuel ->
  exists b', read_full_loop fuel want b acc None
             = Ok (acc ++ firstn (want - length acc) (bdata b), rf_err acc (bdata b) want (st_err (brd b)), b')
             /\ Inv0 b' /\ bdata b' = skipn (want - length acc) (bdata b) /\ st_err (brd b') = st_err (brd b).
Proof.
  induction fuel as [|f IH]; intros b acc HI Ha Hf; [lia|].
  rewrite read_full_loop_S. destruct (Nat.ltb_spec (length acc) want) as [_|Hbad]; [|lia].
  set (need := want - length acc) in *. assert (Hneed : 0 < need) by (unfold need; lia).
  destruct (read_spec b need HI Hneed)
    as [data [e [b1 [Hr [HI1 [Hd1 [He1 [Hl1 [Hwle [Hwlt Hsome]]]]]]]]]].
  rewrite Hr. cbn [bind fst snd].
  destruct f as [|f']; [lia|].
  destruct e as [x|].
  - destruct (Hsome x eq_refl) as [Hb1 Hx]. rewrite Hb1, app_nil_r in Hd1.
    rewrite read_full_loop_S. exists b1.
    split; [|split; [exact HI1|split; [|exact He1]]].
    + unfold rf_err. fold need. rewrite <- Hd1, firstn_all2 by exact Hl1. rewrite <- Hx.
      f_equal. f_equal. f_equal.
      destruct (Nat.leb_spec want (length (acc ++ data))) as [H|H];
      destruct (Nat.leb_spec need (length data)) as [H'|H']; rewrite app_length in H; unfold need in *;
        try lia; reflexivity.
    + rewrite Hb1, <- Hd1. symmetry. apply skipn_all2. exact Hl1.
  - destruct (Nat.eq_dec (length data) need) as [Hfull|Hpart].
    + rewrite read_full_loop_S.
      destruct (Nat.ltb_spec (length (acc ++ data)) want) as [Hbad|_];
        [rewrite app_length in Hbad; unfold need in *; lia|].
      exists b1. split; [|split; [exact HI1|split; [|exact He1]]].
      * unfold rf_err. fold need. rewrite <- Hd1, firstn_app, Hfull, Nat.sub_diag. cbn [firstn].
        rewrite <- Hfull at 1. rewrite firstn_all, app_nil_r.
        destruct (Nat.leb_spec need (length (data ++ bdata b1))) as [_|H];
          [reflexivity|rewrite app_length in H; lia].
      * rewrite <- Hd1, skipn_app, Hfull, Nat.sub_diag. cbn [skipn].
        rewrite <- Hfull. rewrite skipn_all. reflexivity.
    + assert (Hn' : want - length (acc ++ data) = need - length data)
        by (rewrite app_length; unfold need; lia).
      destruct (IH b1 (acc ++ data) HI1) as [b2 [Hr2 [HI2 [Hd2 He2]]]].
      { rewrite app_length. unfold need in *. lia. }
      { rewrite Hn'. destruct data as [|d ds].
        - specialize (Hwlt eq_refl eq_refl). cbn [length] in *. lia.
        - cbn [length] in *. lia. }
      rewrite Hn' in *.
      exists b2. split; [|split; [exact HI2|split]].
      * rewrite Hr2. unfold rf_err. fold need. rewrite Hn', <- Hd1, He1.
        rewrite firstn_app, (firstn_all2 data) by lia. rewrite <- !app_assoc.
        f_equal. f_equal. f_equal.
        destruct (Nat.leb_spec (need - length data) (length (bdata b1))) as [H|H];
        destruct (Nat.leb_spec need (length (data ++ bdata b1))) as [H'|H'];
          rewrite app_length in H'; try lia; reflexivity.
      * rewrite Hd2, <- Hd1, skipn_app, (skipn_all2 data) by lia. reflexivity.
      * rewrite He2. exact He1.
Qed.

Lemma read_full_spec want b : Inv0 b -> 0 < want ->
  exists e b', read_full want b = Ok (firstn want (bdata b), e, b') /\ bdata b' = skipn want (bdata b).
Proof.
  intros HI Hw. unfold read_full.
  destruct (read_full_loop_spec want (want + 2 + weight (brd b)) b [] HI ltac:(cbn; lia) ltac:(cbn; lia))
    as [b' [Hr [_ [Hd _]]]].
  cbn [length app] in *. rewrite Nat.sub_0_r in *. eauto.
Qed.

(* ---- C16 over bufio.Reader of any size over any fragmentation ---- *)
From Gots Require Import Proofs.SyncProofs.

Lemma sync_bufio_found size s i : few_empty_reads (Script s) -> is_bytes (script_data s) ->
  first_plausible (script_data s) i ->
  exists b', Bufio.sync_raw size s = Ok (N.of_nat i, None, b') /\
             bdata b' = skipn i (script_data s) /\ st_err (brd b') = script_err s.
Proof.
  intros Hne HB Hi. pose proof (sync_over_bufio size s Hne) as H.
  rewrite (sync_raw_found _ _ _ HB Hi) in H. unfold bsim, sim in H.
  destruct (Bufio.sync_raw size s) as [[[o e] b']| | |]; try contradiction.
  destruct H as [Hv [_ [_ [Hrest [Hterr _]]]]]. inversion Hv; subst.
  exists b'. split; [reflexivity|]. cbn [SyncIO.rest SyncIO.terr] in *. auto.
Qed.

(* ... and the next 188 bytes read through bufio.Reader.Read / io.ReadFull are the packet *)
Lemma sync_bufio_next_read size s i : few_empty_reads (Script s) -> is_bytes (script_data s) ->
  first_plausible (script_data s) i ->
  exists b' e b'', Bufio.sync_raw size s = Ok (N.of_nat i, None, b') /\
                   Bufio.read_full 188 b' = Ok (firstn 188 (skipn i (script_data s)), e, b'').
Proof.
  intros Hne HB Hi. pose proof (sync_over_bufio size s Hne) as H.
  rewrite (sync_raw_found _ _ _ HB Hi) in H. unfold bsim, sim in H.
  destruct (Bufio.sync_raw size s) as [[[o e] b']| | |]; try contradiction.
  destruct H as [Hv [HI [_ [Hrest _]]]]. inversion Hv; subst.
  destruct (read_full_spec 188 b' HI ltac:(lia)) as [e' [b'' [Hr _]]].
  exists b', e', b''. split; [reflexivity|]. rewrite Hr. cbn [SyncIO.rest] in Hrest. rewrite <- Hrest. reflexivity.
Qed.

Lemma sync_bufio_none size s : few_empty_reads (Script s) -> is_bytes (script_data s) ->
  none_plausible (script_data s) ->
  exists off b', Bufio.sync_raw size s = Ok (off, Some (SyncIO.map_err (script_err s)), b').
Proof.
  intros Hne HB Hn. pose proof (sync_over_bufio size s Hne) as H.
  destruct (sync_raw_none _ (script_err s) HB Hn) as [off [r' Hr]]. rewrite Hr in H.
  unfold bsim, sim in H.
  destruct (Bufio.sync_raw size s) as [[[o e] b']| | |]; try contradiction.
  destruct H as [Hv _]. inversion Hv; subst. eauto.
Qed.

(* C05: Sync over the bufio model never panics ("tried to fill full buffer", window indexing)
   and never diverges, for every buffer size and script without (0, nil) reads *)
Lemma sync_bufio_total size s : few_empty_reads (Script s) -> is_bytes (script_data s) ->
  Bufio.sync_raw size s <> Panic /\ Bufio.sync_raw size s <> Diverge.
Proof.
  intros Hne HB. destruct (first_or_none (script_data s)) as [[i Hi]|Hn].
  - destruct (sync_bufio_found size s i Hne HB Hi) as [b' [H _]]. rewrite H. split; discriminate.
  - destruct (sync_bufio_none size s Hne HB Hn) as [off [b' H]]. rewrite H. split; discriminate.
Qed.
