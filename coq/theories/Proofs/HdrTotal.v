(* Totality of the modelled packet accessors / modifiers on ARBITRARY 188-byte lists (for C05).

   Every function of Model/Packet.v and Model/Create.v whose result type is not [Res] is a total
   Gallina function that cannot express a panic: all getters, all header setters, the CC copy
   helpers, Equal, CheckErrors, FromBytes, CopyPackets, SetAdaptationFieldControl,
   initAdaptationField, stuffAF, setLength, the AFP offset functions, Create and its helpers, and the
   function-style SetPayload of create.go.  (Their only indexings are at constant indices < 188 or
   guarded by an explicit comparison with PacketSize, transliterated in the model.)
   The functions that slice with a computed index return [Res]; for those this file proves
   "never Panic, never Diverge" on every 188-byte list and characterises when the error
   ErrInvalidPacketLength is returned (the C05 guards of /verif/notes/c05-guards.patch). *)
From Gots Require Import Base.Prelude Base.PacketLemmas Model.Packet Proofs.HdrBits.
Import Packet.
Local Open Scope N_scope.

Definition total {A} (r : Res A) : Prop := r <> Panic /\ r <> Diverge.
Lemma total_ok {A} (a : A) : total (Ok a). Proof. split; discriminate. Qed.
Lemma total_err {A} e : total (@Err A e). Proof. split; discriminate. Qed.
Lemma slice_total l i j : i <= j -> j <= len l -> exists s, slice l i j = Ok s.
Proof.
  intros A B. unfold slice. replace ((i <=? j) && (j <=? len l)) with true
    by (symmetry; apply andb_true_intro; split; apply N.leb_le; assumption). eexists; reflexivity.
Qed.

Section Total.
Variable p : bytes.
Hypothesis H : is_pkt p.

Lemma Payload_fn_total : total (Payload_fn p).
Proof.
  unfold Payload_fn. destruct (ContainsPayload p); cbn [negb]; [|apply total_err].
  destruct (N.ltb_spec PacketSize (payloadStart_fn p)) as [G|G]; [apply total_err|].
  destruct (slice_total p (payloadStart_fn p) PacketSize G ltac:(rewrite (pkt_len p H); unfold PacketSize; lia)) as [s ->].
  apply total_ok.
Qed.
(* when the guard fires: payload flagged and adaptation_field_length > 183 *)
Lemma Payload_fn_invalid_iff :
  Payload_fn p = Err E.InvalidPacketLength <->
  (ContainsPayload p = true /\ ContainsAdaptationField p = true /\ 183 < get p 4).
Proof.
  unfold Payload_fn, payloadStart_fn, PacketSize.
  destruct (ContainsPayload p); cbn [negb].
  - destruct (ContainsAdaptationField p).
    + destruct (N.ltb_spec 188 (4 + (1 + get p 4))) as [G|G].
      * split; [intros _; repeat split; lia | reflexivity].
      * destruct (slice_total p (4 + (1 + get p 4)) 188 G ltac:(rewrite (pkt_len p H); lia)) as [s ->].
        split; [discriminate | intros (_ & _ & X); lia].
    + change (188 <? 4) with false. cbv iota.
      destruct (slice_total p 4 188 ltac:(lia) ltac:(rewrite (pkt_len p H); lia)) as [s ->].
      split; [discriminate | intros (_ & X & _); discriminate].
  - split; [discriminate | intros (X & _); discriminate].
Qed.
Lemma Header_total : total (Header p).
Proof.
  unfold Header. cbv zeta.
  destruct (N.ltb_spec PacketSize (payloadStart_fn p)) as [G|G].
  - destruct (slice_total p 0 PacketSize ltac:(lia) ltac:(rewrite (pkt_len p H); unfold PacketSize; lia)) as [s ->]. apply total_ok.
  - destruct (slice_total p 0 (payloadStart_fn p) ltac:(lia) ltac:(rewrite (pkt_len p H); unfold PacketSize in G; lia)) as [s ->].
    apply total_ok.
Qed.
Lemma PESHeader_total : total (PESHeader p).
Proof.
  unfold PESHeader. destruct (PayloadUnitStartIndicator_fn p); [|apply total_err].
  pose proof Payload_fn_total as [T1 T2]. destruct (Payload_fn p) as [pay|e| |]; cbn [bind]; try congruence; [|apply total_err].
  destruct ((3 <? len pay) && (nthN pay 0 =? 0) && (nthN pay 1 =? 0) && (nthN pay 2 =? 1)); [apply total_ok | apply total_err].
Qed.
Lemma Payload_m_total : total (Payload_m p).
Proof.
  unfold Payload_m. destruct (AdaptationFieldControl p =? 2); [apply total_err|]. cbv zeta.
  destruct (N.ltb_spec PacketSize (payloadStart_m p)) as [G|G]; [apply total_err|].
  destruct (slice_total p (payloadStart_m p) PacketSize G ltac:(rewrite (pkt_len p H); unfold PacketSize; lia)) as [s ->].
  apply total_ok.
Qed.
Lemma Payload_m_invalid_iff :
  Payload_m p = Err E.InvalidPacketLength <->
  (AdaptationFieldControl p <> 2 /\ HasAdaptationField p = true /\ 183 < get p 4).
Proof.
  unfold Payload_m, payloadStart_m, AFP.Length, PacketSize. cbv zeta.
  destruct (N.eqb_spec (AdaptationFieldControl p) 2) as [A|A].
  - split; [discriminate | intros (X & _); congruence].
  - destruct (HasAdaptationField p).
    + destruct (N.ltb_spec 188 (4 + 1 + get p 4)) as [G|G].
      * split; [intros _; repeat split; (assumption || lia) | reflexivity].
      * destruct (slice_total p (4 + 1 + get p 4) 188 G ltac:(rewrite (pkt_len p H); lia)) as [s ->].
        split; [discriminate | intros (_ & _ & X); lia].
    + change (188 <? 4) with false. cbv iota.
      destruct (slice_total p 4 188 ltac:(lia) ltac:(rewrite (pkt_len p H); lia)) as [s ->].
      split; [discriminate | intros (_ & X & _); discriminate].
Qed.
End Total.

(* ---- SetPayload (method): with the C05 guard the final p[offset:] cannot panic ---- *)
Lemma fill_length l a b v : length (fill l a b v) = length l.
Proof. apply blit_length. Qed.
Lemma get_fill_below l a b v i : i < a -> get (fill l a b v) i = get l i.
Proof.
  intros Hi. unfold get, fill. rewrite nthN_blit.
  replace (a <=? i) with false by (symmetry; apply N.leb_gt; exact Hi). reflexivity.
Qed.
Lemma stuffingStart_ge6 af : 6 <= AFP.stuffingStart af.
Proof. unfold AFP.stuffingStart, AFP.pcrStart. lia. Qed.
Lemma set_afc_length p v : length (fst (SetAdaptationFieldControl p v)) = length p.
Proof.
  unfold SetAdaptationFieldControl. cbv zeta.
  match goal with |- context [upd p 3 ?x] => set (p1 := upd p 3 x) end.
  assert (length p1 = length p) as L1 by apply upd_length.
  match goal with |- context [if ?c then AFP.initAdaptationField p1 else p1] =>
    set (p2 := if c then AFP.initAdaptationField p1 else p1) end.
  assert (length p2 = length p) as L2.
  { unfold p2. match goal with |- context [if ?c then _ else _] => destruct c end; [|exact L1]. unfold AFP.initAdaptationField. rewrite fill_length, !upd_length. exact L1. }
  destruct (v =? 3); [|exact L2]. destruct (AFP.Length p2 =? 183); [|exact L2].
  destruct (AFP.stuffingStart p2 <? PacketSize); cbn [fst]; [|exact L2].
  unfold AFP.stuffAF, AFP.setLength. rewrite fill_length, upd_length. exact L2.
Qed.
Lemma has_af_upd4 l v : HasAdaptationField (upd l 4 v) = HasAdaptationField l.
Proof. unfold HasAdaptationField, getBit. rewrite get_upd_other by lia. reflexivity. Qed.
Lemma has_af_fill l a b v : 4 <= a -> HasAdaptationField (fill l a b v) = HasAdaptationField l.
Proof. intros A. unfold HasAdaptationField, getBit. rewrite get_fill_below by lia. reflexivity. Qed.

Lemma SetPayload_m_total p d : is_pkt p -> total (snd (SetPayload_m p d)).
Proof.
  intros H. unfold SetPayload_m.
  destruct (AdaptationFieldControl p =? 2); [apply total_err|].
  destruct (N.ltb_spec PacketSize (payloadStart_m p)) as [G1|G1]; cbn [orb]; [apply total_err|].
  destruct (N.ltb_spec PacketSize (stuffingStart_m p)) as [G2|G2]; [apply total_err|].
  cbv zeta.
  assert (payloadStart_m (SetPayload_prepare p d) <= PacketSize) as B.
  { unfold SetPayload_prepare, freeSpace. cbv zeta.
    assert (4 <= stuffingStart_m p) as S4.
    { unfold stuffingStart_m. destruct (HasAdaptationField p); cbn [negb]; [|lia].
      destruct (AFP.Length p =? 0); [lia | pose proof (stuffingStart_ge6 p); lia]. }
    destruct (Z.ltb_spec (zlen d) (188 - Z.of_N (stuffingStart_m p))) as [LT|GE].
    - set (p1 := fst (SetAdaptationFieldControl p 3)).
      set (p2 := if AFP.Length p1 =? 0 then upd p1 5 0 else p1).
      assert (len p2 = 188) as L2.
      { unfold len, p2. destruct (_ =? 0); rewrite ?upd_length; unfold p1; rewrite set_afc_length; destruct H as [L _]; rewrite L; reflexivity. }
      set (v := (188 - (zlen d + 4 + 1))%Z).
      unfold payloadStart_m, AFP.stuffAF.
      pose proof (stuffingStart_ge6 (AFP.setLength p2 v)) as S6.
      destruct (HasAdaptationField _); [|unfold PacketSize; lia].
      unfold AFP.Length. rewrite get_fill_below by lia. unfold AFP.setLength, get.
      rewrite nthN_upd_same by (rewrite L2; lia).
      unfold v, byteZ, PacketSize, zlen in *. lia.
    - destruct (HasAdaptationField p) eqn:HA.
      + unfold payloadStart_m, AFP.setLength. rewrite has_af_upd4, HA. unfold AFP.Length, get.
        rewrite nthN_upd_same by (rewrite (pkt_len p H); lia).
        assert (5 <= stuffingStart_m p) as S5.
        { unfold stuffingStart_m. rewrite HA. cbn [negb]. destruct (AFP.Length p =? 0); [lia | pose proof (stuffingStart_ge6 p); lia]. }
        unfold byteZ, PacketSize in *. lia.
      + unfold payloadStart_m. rewrite HA. unfold PacketSize. lia. }
  replace (PacketSize <? payloadStart_m (SetPayload_prepare p d)) with false by (symmetry; apply N.ltb_ge; exact B).
  cbn [snd]. apply total_ok.
Qed.
(* and the guard fires exactly when a length byte runs past the packet *)
Lemma SetPayload_m_invalid_iff p d : is_pkt p ->
  (snd (SetPayload_m p d) = Err E.InvalidPacketLength <->
   (AdaptationFieldControl p <> 2 /\ (PacketSize < payloadStart_m p \/ PacketSize < stuffingStart_m p))).
Proof.
  intros H. pose proof (SetPayload_m_total p d H) as T. unfold SetPayload_m in *.
  destruct (N.eqb_spec (AdaptationFieldControl p) 2) as [A|A]; cbn [snd] in *.
  - split; [discriminate | intros (X & _); congruence].
  - destruct (N.ltb_spec PacketSize (payloadStart_m p)) as [G1|G1]; cbn [orb snd] in *.
    + split; [intros _; split; [exact A | left; exact G1] | reflexivity].
    + destruct (N.ltb_spec PacketSize (stuffingStart_m p)) as [G2|G2]; cbn [snd] in *.
      * split; [intros _; split; [exact A | right; exact G2] | reflexivity].
      * cbv zeta in *. destruct (PacketSize <? payloadStart_m (SetPayload_prepare p d)); cbn [snd] in *.
        -- destruct T as [T _]. congruence.
        -- split; [discriminate | intros (_ & [X|X]); lia].
Qed.
