(* C09: on normal states the encoder model is the SCTE 35 serialiser of the state's field values. *)
From Gots Require Import Base.Prelude Model.Pts Model.Scte Model.ScteEnc Spec.Scte35Spec
  Proofs.ScteLemmas Proofs.ScteExpected Proofs.ScteLogical.
Import Scte ScteEnc Scte35Spec.
Local Open Scope N_scope.
Arguments N.mul : simpl never. Arguments N.add : simpl never. Arguments N.div : simpl never.
Arguments N.modulo : simpl never. Arguments N.land : simpl never. Arguments N.shiftr : simpl never.
Arguments N.sub : simpl never. Arguments N.ltb : simpl never. Arguments N.eqb : simpl never.
Arguments N.leb : simpl never.

Lemma b3m x : (x mod 4294967296 / 16777216) mod 256 = (x / 16777216) mod 256. Proof. lia. Qed.
Lemma b2m x : (x mod 4294967296 / 65536) mod 256 = (x / 65536) mod 256. Proof. lia. Qed.
Lemma b1m x : (x mod 4294967296 / 256) mod 256 = (x / 256) mod 256. Proof. lia. Qed.
Lemma b0m x : (x mod 4294967296) mod 256 = x mod 256. Proof. lia. Qed.
Lemma to_be32_mod x : to_be32 (x mod 4294967296) = to_be32 x.
Proof. unfold to_be32. rewrite b3m, b2m, b1m, b0m. reflexivity. Qed.

Lemma stb_ser p : p < 8589934592 -> splice_time_bytes true p = ser_stime (Some p).
Proof.
  intros. unfold splice_time_bytes, ser_stime, ScteEnc.T32, Scte35Spec.T32. cbn [app].
  rewrite to_be32_mod. f_equal. lia.
Qed.
Lemma stb_ser' h p : (h = true -> p < 8589934592) -> splice_time_bytes h p = ser_stime (logical_stime h p).
Proof. destruct h; intros H; [apply stb_ser, H; reflexivity|reflexivity]. Qed.

Lemma comps_imm cs : flat_map (comp_data true) cs = map c_tag cs.
Proof. induction cs as [|c cs IH]; [reflexivity|]. cbn [flat_map map comp_data negb app]. rewrite IH. reflexivity. Qed.
Lemma comps_timed cs : Forall (normal_comp false) cs ->
  flat_map (comp_data false) cs
  = flat_map (fun c => fst c :: ser_stime (snd c)) (map (fun c => (c_tag c, logical_stime (c_has_pts c) (c_pts c))) cs).
Proof.
  induction cs as [|c cs IH]; intros H; [reflexivity|]. inversion H as [|? ? [_ Hc] H']; subst.
  cbn [flat_map map fst snd]. rewrite IH by assumption. unfold comp_data at 1. cbn [negb].
  rewrite stb_ser' by (apply Hc; reflexivity). reflexivity.
Qed.
Lemma len_map' {A B} (f : A -> B) l : len (map f l) = len l.
Proof. unfold len. rewrite map_length. reflexivity. Qed.

Lemma insert_data_ser i : normal_insert i -> insert_data i = ser_command (logical_cmd (CInsert i)).
Proof.
  destruct i as [eid cancel out prog imm has pts comps hasdur dur auto up an ae].
  unfold normal_insert, insert_data, logical_cmd, logical_mode.
  cbn [i_event_id i_cancel i_out i_program i_immediate i_has_pts i_pts i_components i_has_duration i_duration
       i_auto_return i_unique_program_id i_avail_num i_avails_expected].
  intros (He & Hb). destruct cancel; [reflexivity|].
  destruct (Hb eq_refl) as (Ht & Hc & Hd & Hup & Han & Hae). clear Hb.
  cbn [ser_command]. unfold ser_insert_body. cbn [ib_out ib_mode ib_break ib_unique_program_id ib_avail_num ib_avails_expected].
  f_equal. f_equal.
  assert (Hbrk : (if hasdur then [126 + 128 * b2n auto + (dur / ScteEnc.T32) mod 2] ++ to_be32 dur else [])
                 = ser_break (if hasdur then Some (auto, dur) else None)).
  { destruct hasdur; [|reflexivity]. specialize (Hd eq_refl). unfold ser_break, ScteEnc.T32, Scte35Spec.T32.
    rewrite to_be32_mod. f_equal. f_equal. lia. }
  destruct prog, imm; cbn [andb negb mode_program mode_immediate ser_mode app].
  - f_equal; [destruct out, hasdur; reflexivity|]. cbn [app] in Hbrk. rewrite Hbrk. reflexivity.
  - f_equal; [destruct out, hasdur; reflexivity|]. rewrite stb_ser' by (apply Ht; reflexivity).
    cbn [app] in Hbrk. rewrite Hbrk. reflexivity.
  - destruct (Hc eq_refl) as [Hcs Hl].
    f_equal; [destruct out, hasdur; reflexivity|]. rewrite comps_imm, len_map'. unfold w8. rewrite N.mod_small by assumption.
    cbn [app]. f_equal. f_equal. cbn [app] in Hbrk. rewrite Hbrk. reflexivity.
  - destruct (Hc eq_refl) as [Hcs Hl].
    f_equal; [destruct out, hasdur; reflexivity|]. rewrite comps_timed by assumption. rewrite len_map'.
    unfold w8. rewrite N.mod_small by assumption. cbn [app]. f_equal. f_equal. cbn [app] in Hbrk. rewrite Hbrk. reflexivity.
Qed.

Lemma cmd_data_ser c : normal_cmd c -> cmd_data c = ser_command (logical_cmd c).
Proof.
  destruct c as [|h p|i]; cbn [normal_cmd cmd_data].
  - reflexivity.
  - intros Hp. cbn [logical_cmd ser_command]. apply stb_ser'. assumption.
  - apply insert_data_ser.
Qed.
Lemma cmd_type_logical c : cmd_type c = command_type (logical_cmd c).
Proof. destruct c; reflexivity. Qed.

(* ---- segmentation descriptor ---- *)
Lemma co_data_ser cs : Forall (fun c => co_tag c < 256 /\ co_off c < 8589934592) cs ->
  flat_map co_data cs = flat_map ser_seg_comp (map (fun c => (co_tag c, co_off c)) cs).
Proof.
  induction cs as [|c cs IH]; intros H; [reflexivity|]. inversion H as [|? ? [_ Ho] H']; subst.
  cbn [flat_map map]. rewrite IH by assumption. f_equal.
  unfold co_data, ser_seg_comp, ScteEnc.T32, Scte35Spec.T32. cbn [fst snd]. rewrite to_be32_mod.
  f_equal. f_equal. lia.
Qed.
Lemma mid_data_ser m : Forall (fun u => u_type u < 256 /\ u_len u = len (u_upid u) /\ len (u_upid u) < 256 /\ is_bytes (u_upid u)) m ->
  flat_map mid_elem_data m = flat_map ser_upid_elem (map (fun u => (u_type u, u_upid u)) m).
Proof.
  induction m as [|u m IH]; intros H; [reflexivity|]. inversion H as [|? ? (_ & Hl & Hb & _) H']; subst.
  cbn [flat_map map]. rewrite IH by assumption. f_equal.
  unfold mid_elem_data, ser_upid_elem. cbn [fst snd]. rewrite Hl. unfold w8. rewrite N.mod_small by assumption. reflexivity.
Qed.

Lemma seg_event_data_ser lenok d body : normal_desc_gen lenok d -> d_cancel d = false ->
  logical_seg d = Seg (d_event_id d) (Some body) -> seg_event_data d = ser_seg_body body.
Proof.
  destruct d as [ty eid hasdur dur uty u m sn se ssn sse owner cancel dnr hassub prog web nobl arch dev comps].
  unfold normal_desc_gen, logical_seg, logical_upid, seg_event_data.
  cbn [d_type d_event_id d_has_duration d_duration d_upid_type d_upid d_mid d_seg_num d_segs_expected d_sub_seg_num
       d_sub_segs_expected d_owner d_cancel d_dnr d_has_sub d_program_seg d_web d_noblackout d_archive d_device d_components].
  intros (He & Hb) Hc Hl. subst cancel.
  destruct (Hb eq_refl) as (Hcomps & Hdur & Hdev & Huty & Hmid & Hsingle & Hty & Hsn & Hse & Hssn & Hsse & Hlen). clear Hb.
  injection Hl as <-. unfold ser_seg_body. cbn [sb_comps sb_duration sb_restr sb_upid sb_type sb_num sb_expected sb_sub].
  f_equal; [|f_equal; [|f_equal; [|rewrite app_assoc; f_equal; [|f_equal]]]].
  - (* flags *)
    f_equal. destruct dnr.
    + destruct prog, hasdur; reflexivity.
    + specialize (Hdev eq_refl). cbn [restr_bits]. rewrite (N.mod_small dev 4) by assumption.
      destruct prog, hasdur; cbn [b2n]; lia.
  - destruct prog; [reflexivity|]. destruct (Hcomps eq_refl) as [Hcs Hn]. cbn [ser_seg_comps].
    rewrite len_map'. unfold w8. rewrite N.mod_small by assumption. f_equal. apply co_data_ser. assumption.
  - destruct hasdur; [|reflexivity]. specialize (Hdur eq_refl). cbn [ser_dur40].
    unfold ScteEnc.T32, Scte35Spec.T32. rewrite to_be32_mod. f_equal. lia.
  - (* upid *)
    destruct (N.eqb_spec uty SegUPIDMID) as [E|E].
    + destruct (Hmid E) as (Hu & Hm & Hml). subst u. change (0 <? len []) with false. cbn [ser_upid].
      rewrite <- mid_data_ser by assumption. cbn [app]. unfold w8. rewrite N.mod_small by assumption.
      rewrite E. reflexivity.
    + destruct (Hsingle E) as (Hm & Hul & _). subst m. cbn [ser_upid flat_map].
      assert (Hbody : (if 0 <? len u then u else []) = u) by (destruct u; reflexivity).
      rewrite Hbody. unfold w8. rewrite N.mod_small by assumption. reflexivity.
  - destruct (((ty =? 52) || (ty =? 54)) && hassub); reflexivity.
Qed.

Lemma len_seg_data d : len (seg_data d) = 2 + (8 + len (if d_cancel d then [255] else 127 :: seg_event_data d)).
Proof. unfold seg_data. rewrite !len_cons, !len_app, !len_to_be32. lia. Qed.

Lemma seg_data_ser d : normal_desc d -> seg_data d = ser_descriptor (logical_seg d).
Proof.
  intros Hn. pose proof Hn as (He & Hb).
  unfold seg_data, ser_descriptor. cbn [desc_tag].
  assert (Hp : to_be32 segDescID ++ to_be32 (d_event_id d) ++ (if d_cancel d then [255] else 127 :: seg_event_data d)
               = ser_desc_payload (logical_seg d)).
  { unfold logical_seg. destruct (d_cancel d) eqn:Hc; cbn [ser_desc_payload]; [reflexivity|].
    erewrite (seg_event_data_ser _ d); [reflexivity|exact Hn|assumption|].
    unfold logical_seg. rewrite Hc. reflexivity. }
  rewrite Hp. f_equal. f_equal. rewrite <- Hp. unfold w8. apply N.mod_small.
  destruct (d_cancel d) eqn:Hc.
  - rewrite !len_app, !len_to_be32. cbn. lia.
  - destruct (Hb eq_refl) as (_ & _ & _ & _ & _ & _ & _ & _ & _ & _ & _ & Hlen).
    rewrite len_seg_data, Hc in Hlen. rewrite !len_app, !len_to_be32. lia.
Qed.

Lemma descs_data_ser ds : Forall normal_desc ds -> flat_map seg_data ds = ser_descriptors (map logical_seg ds).
Proof.
  induction ds as [|d ds IH]; intros H; [reflexivity|]. inversion H; subst.
  unfold ser_descriptors in *. cbn [flat_map map]. rewrite IH by assumption. rewrite seg_data_ser by assumption. reflexivity.
Qed.

(* ---- the whole section ---- *)
Lemma len_ser_body' s :
  len (ser_body s) = 13 + len (ser_command (si_cmd s)) + len (ser_descriptors (si_descs s)) + len (si_stuffing s).
Proof. unfold ser_body. rewrite !len_app, !len_cons, len_to_be32, len_to_be16, len_nil. lia. Qed.
Lemma ser_descriptors_app a b : ser_descriptors (a ++ b) = ser_descriptors a ++ ser_descriptors b.
Proof. unfold ser_descriptors. apply flat_map_app. Qed.
Lemma len_repeatN {A} (x : A) n : len (repeatN x n) = n.
Proof. unfold len, repeatN. rewrite repeat_length. lia. Qed.
Lemma subtract_pts_lt a b : a < 8589934592 -> b < 8589934592 -> subtract_pts a b < 8589934592.
Proof.
  intros. unfold subtract_pts. destruct (N.leb_spec b a); [lia|].
  unfold sub64, w64. lia.
Qed.

Lemma body_canonical fs st : normal fs st ->
  let cmdb := cmd_data (s_cmd st) in
  let descb := s_other st ++ flat_map seg_data (s_descs st) in
  let slen := w16 (13 + len cmdb + len descb + 4 + s_stuffing st) in
  let scl := w16 (len cmdb) in
  let adj := subtract_pts (s_pts st) (cmd_pts (s_cmd st)) in
  [s_tid st; 128 * b2n (s_ssi st) + 64 * b2n (s_pi st) + 48 + (slen / 256) mod 4; slen mod 256]
  ++ ([s_protocol st; 128 * b2n (s_encrypted st) + (s_enc_alg st mod 64) * 2 + (adj / ScteEnc.T32) mod 2]
      ++ to_be32 adj
      ++ [s_cw st; (s_tier st / 16) mod 256; (s_tier st * 16) mod 256 + (scl / 256) mod 16; scl mod 256; s_cmd_type st])
  ++ cmdb ++ [(len descb / 256) mod 256; len descb mod 256] ++ descb ++ repeatN 0 (s_stuffing st)
  = ser_section_nocrc (logical0 fs st).
Proof.
  intros (Htid & Hpv & Hea & Hcw & Htier & Hpts & Hcpts & Hct & Hcmd & Hds & Hother & Hfs & Hlen).
  intros cmdb descb slen scl adj.
  assert (EC : cmdb = ser_command (logical_cmd (s_cmd st))) by (apply cmd_data_ser; assumption).
  assert (ED : descb = ser_descriptors (fs ++ map logical_seg (s_descs st))).
  { unfold descb. rewrite ser_descriptors_app, Hother, descs_data_ser by assumption. reflexivity. }
  assert (Hadj : adj < 8589934592) by (apply subtract_pts_lt; assumption).
  fold descb in Hlen. fold cmdb in Hlen.
  unfold ser_section_nocrc, ser_header, ser_body.
  assert (SL : section_length (logical0 fs st) = 13 + len cmdb + len descb + 4 + s_stuffing st).
  { unfold section_length. rewrite len_ser_body'. unfold logical0.
    cbn [si_cmd si_descs si_stuffing]. rewrite <- EC, <- ED, len_repeatN. lia. }
  rewrite SL. unfold cmd_len_field, logical0.
  cbn [si_table_id si_ssi si_private si_sap si_protocol si_encrypted si_enc_alg si_pts_adj si_cw si_tier
       si_legacy_len si_cmd si_descs si_stuffing].
  rewrite <- EC, <- ED. fold adj.
  unfold slen, scl, w16. rewrite (N.mod_small (len cmdb) 65536) by lia.
  rewrite (N.mod_small (13 + len cmdb + len descb + 4 + s_stuffing st) 65536) by lia.
  unfold ScteEnc.T32, Scte35Spec.T32. rewrite to_be32_mod. rewrite <- cmd_type_logical, <- Hct.
  set (SLv := 13 + len cmdb + len descb + 4 + s_stuffing st) in *.
  cbn [app]. unfold to_be16. cbn [app].
  replace (128 * b2n (s_ssi st) + 64 * b2n (s_pi st) + 48 + (SLv / 256) mod 4)
    with (128 * b2n (s_ssi st) + 64 * b2n (s_pi st) + 16 * 3 + SLv / 256) by (unfold SLv; lia).
  replace (128 * b2n (s_encrypted st) + s_enc_alg st mod 64 * 2 + (adj / 4294967296) mod 2)
    with (128 * b2n (s_encrypted st) + 2 * s_enc_alg st + adj / 4294967296) by lia.
  replace ((s_tier st / 16) mod 256) with (s_tier st / 16) by lia.
  replace ((s_tier st * 16) mod 256 + (len cmdb / 256) mod 16) with (s_tier st mod 16 * 16 + len cmdb / 256) by lia.
  rewrite <- !app_assoc. reflexivity.
Qed.

Lemma nocrc_with_crc s c : ser_section_nocrc (with_crc s c) = ser_section_nocrc s.
Proof. reflexivity. Qed.

Theorem encode_canonical fs st : normal fs st -> fst (update_data st) = ser_section (logical fs st).
Proof.
  intros Hn. unfold update_data. cbn [fst]. unfold logical, ser_section.
  rewrite nocrc_with_crc. cbn [si_crc with_crc].
  pose proof (body_canonical fs st Hn) as B. cbv zeta in B. rewrite B. reflexivity.
Qed.

(* the CRC clause holds for every state: the last four bytes are ComputeCRC of what precedes them *)
Theorem crc_clause st : exists body,
  fst (update_data st) = body ++ crc_model body /\ len (crc_model body) = 4.
Proof. unfold update_data. cbn [fst]. eexists. split; reflexivity. Qed.

Theorem crc_field fs st : normal fs st ->
  to_be32 (si_crc (logical fs st)) = crc_model (ser_section_nocrc (logical fs st)).
Proof. intros. reflexivity. Qed.

(* UpdateData changes only SectionLength, spliceCommandLength and data; its output does not depend on them *)
Theorem encode_idempotent st : fst (update_data (snd (update_data st))) = fst (update_data st).
Proof. reflexivity. Qed.
Theorem update_data_stores st : s_data (snd (update_data st)) = fst (update_data st).
Proof. reflexivity. Qed.

(* lengths: the output is ser_section of the logical record, whose section_length, splice_command_length and
   descriptor_loop_length fields are by definition the lengths of what follows them (Spec: section_length,
   cmd_len_field with si_legacy_len = false, to_be16 (len (ser_descriptors ..))); in addition the total length *)
Theorem lengths_ok fs st : normal fs st ->
  let L := logical fs st in
  si_legacy_len L = false /\ cmd_len_field L = len (ser_command (si_cmd L)) /\
  len (fst (update_data st)) = 3 + section_length L /\ section_length L < 1024.
Proof.
  intros Hn L. pose proof (encode_canonical fs st Hn) as E. fold L in E. rewrite E.
  split; [reflexivity|]. split; [reflexivity|].
  unfold ser_section, ser_section_nocrc, ser_header, section_length.
  rewrite !len_app, !len_cons, len_to_be32, len_nil. split; [lia|].
  destruct Hn as (Htid & Hpv & Hea & Hcw & Htier & Hpts & Hcpts & Hct & Hcmd & Hds & Hother & Hfs & Hlen).
  rewrite len_ser_body'. unfold L, logical, logical0. cbn [with_crc si_cmd si_descs si_stuffing].
  rewrite <- cmd_data_ser by assumption.
  rewrite ser_descriptors_app, <- Hother, <- descs_data_ser by assumption. rewrite len_repeatN.
  rewrite len_app in *. lia.
Qed.
