(* "Every getter returns the last value set": a value set by a successful setter is still what the getters of
   both APIs return after any further calls that do not address that field. *)
From Gots Require Import Base.Prelude Model.Pcr Model.AF Model.AFfn Spec.AFSpec
  Proofs.AFLists Proofs.PcrBytes Proofs.AFHistory Proofs.AFGetters.
Import AF.

(* field k (0 PCR, 1 OPCR, 2 splice countdown, 3 private data, 4 extension) of the logical value *)
Definition proj (k : nat) (l : laf) : option bytes :=
  match k with
  | 0%nat => l_pcr l | 1%nat => l_opcr l
  | 2%nat => match l_splice l with Some x => Some [x] | None => None end
  | 3%nat => l_tpd l | _ => l_ext l
  end.
(* does the call address field k ? (its presence toggle, its value setter, or a whole-field copy) *)
Definition touches (k : nat) (o : op) : bool :=
  match o, k with
  | OSetAF _, _ => true
  | OSetHasPCR _, 0%nat | OSetPCR _, 0%nat => true
  | OSetHasOPCR _, 1%nat | OSetOPCR _, 1%nat => true
  | OSetHasSplice _, 2%nat | OSetSplice _, 2%nat => true
  | OSetHasTPD _, 3%nat | OSetTPD _, 3%nat => true
  | OSetHasExt _, S (S (S (S _))) | OSetExt _, S (S (S (S _))) => true
  | _, _ => false
  end.

Lemma grow_inv l' out : grow l' = Done out -> out = l'.
Proof. unfold grow. destruct (fitsb l'); [intros [= <-]; reflexivity|discriminate]. Qed.

Lemma rel_keeps k o l l' : touches k o = false -> op_rel l o (Done l') -> proj k l' = proj k l.
Proof. intros T H. destruct o; cbn [op_rel] in H;
  try (destruct H as (u & _ & _ & E); try (destruct v); cbn [spec_step] in E;
       repeat match type of E with context [if ?c then _ else _] => destruct c end;
       first [ discriminate E
             | injection E as ->; destruct k as [|[|[|[|k]]]]; try discriminate T; reflexivity
             | symmetry in E; apply grow_inv in E; subst l'; destruct k as [|[|[|[|k]]]]; try discriminate T; reflexivity ]).
  destruct k as [|[|[|[|k]]]]; discriminate T. Qed.

Lemma hist_keeps k h : forall l l', Forall (fun o => touches k o = false) h -> hist_rel l h l' -> proj k l' = proj k l.
Proof. induction h as [|o h IH]; intros l l' F H; inversion H; subst; [reflexivity| |].
  - inversion F; subst. rewrite (IH l1 l') by assumption. eapply rel_keeps; eassumption.
  - inversion F; subst. apply IH; assumption. Qed.

Lemma run_app p h1 h2 : run p (h1 ++ h2) = run (run p h1) h2.
Proof. unfold run. apply fold_left_app. Qed.

Section LastSet.
Variables (p : bytes) (l : laf) (hdr pay : bytes) (h1 h2 : list op).
Hypothesis R : repr p l hdr pay.

(* the state reached after h1, then a successful setter o, then h2 which does not address field k *)
Lemma after_set k o l1 l2 :
  repr (run p h1) l1 hdr pay -> op_ok o -> Forall op_ok h2 -> Forall (fun o => touches k o = false) h2 ->
  (forall l', op_rel l1 o (Done l') -> proj k l' = proj k l2) -> (forall e, ~ op_rel l1 o (Fail e)) ->
  exists l3, repr (run p (h1 ++ o :: h2)) l3 hdr pay /\ proj k l3 = proj k l2.
Proof. intros R1 Ho H2 T2 HD HF.
  rewrite run_app. unfold run at 1. cbn [fold_left]. fold (run (after (run p h1) o) h2).
  pose proof (step_refines _ _ _ _ o R1 Ho) as S. unfold refines_at in S. unfold after.
  destruct (step (run p h1) o) as [p2|e| |]; try contradiction.
  - destruct S as (l' & Rel & R2). destruct (history h2 p2 l' hdr pay R2 H2) as (l3 & HR & R3).
    exists l3. split; [exact R3|]. rewrite (hist_keeps k h2 l' l3 T2 HR). apply HD. exact Rel.
  - exfalso. eapply HF. exact S. Qed.
End LastSet.

Lemma rel_setpcr l1 v : isSome (l_pcr l1) = true ->
  (forall l', op_rel l1 (OSetPCR v) (Done l') -> l' = set_pcr l1 (Some (pcr_enc v))) /\ (forall e, ~ op_rel l1 (OSetPCR v) (Fail e)).
Proof. intros P. split.
  - intros l' (u & _ & _ & E). cbn [spec_step] in E. rewrite P in E. injection E as ->. reflexivity.
  - intros e (u & _ & _ & E). cbn [spec_step] in E. rewrite P in E. discriminate. Qed.

Theorem pcr_last_set p l hdr pay h1 v h2 : repr p l hdr pay -> Forall op_ok (h1 ++ OSetPCR v :: h2) ->
  Forall (fun o => touches 0 o = false) h2 -> HasPCR (run p h1) = Ok true ->
  PCR (run p (h1 ++ OSetPCR v :: h2)) = Ok v /\ AFfn.PCR (run p (h1 ++ OSetPCR v :: h2)) = Ok (pcr_enc v).
Proof. intros R Hok T HP. apply Forall_app in Hok. destruct Hok as [H1 Hrest]. inversion Hrest as [|? ? Hv H2]; subst.
  destruct (history h1 p l hdr pay R H1) as (l1 & _ & R1).
  destruct (getters_agree _ _ _ _ R1) as ((_ & _ & _ & _ & G & _) & _). rewrite HP in G. injection G as G.
  destruct (rel_setpcr l1 v (eq_sym G)) as [HD HF].
  destruct (after_set p hdr pay h1 h2 0%nat (OSetPCR v) l1 (set_pcr l1 (Some (pcr_enc v))) R1 Hv H2 T) as (l3 & R3 & E3).
  { intros l' D. rewrite (HD l' D). reflexivity. } { exact HF. }
  cbn [proj set_pcr l_pcr] in E3.
  destruct (getters_agree _ _ _ _ R3) as (M & F).
  destruct M as (_ & _ & _ & _ & _ & _ & _ & _ & _ & M & _). destruct F as (_ & _ & _ & _ & _ & _ & _ & _ & _ & F & _).
  rewrite E3 in M, F. cbn [opt_res] in M, F. cbn [op_ok] in Hv. rewrite pcr_dec_enc in M by exact Hv. split; assumption. Qed.

Lemma rel_setsplice l1 v : isSome (l_splice l1) = true ->
  (forall l', op_rel l1 (OSetSplice v) (Done l') -> l' = set_splice l1 (Some v)) /\ (forall e, ~ op_rel l1 (OSetSplice v) (Fail e)).
Proof. intros P. split.
  - intros l' (u & _ & _ & E). cbn [spec_step] in E. rewrite P in E. injection E as ->. reflexivity.
  - intros e (u & _ & _ & E). cbn [spec_step] in E. rewrite P in E. discriminate. Qed.

Theorem splice_last_set p l hdr pay h1 v h2 : repr p l hdr pay -> Forall op_ok (h1 ++ OSetSplice v :: h2) ->
  Forall (fun o => touches 2 o = false) h2 -> HasSplicingPoint (run p h1) = Ok true ->
  SpliceCountdown (run p (h1 ++ OSetSplice v :: h2)) = Ok (int8 v) /\
  AFfn.SpliceCountdown (run p (h1 ++ OSetSplice v :: h2)) = Ok v.
Proof. intros R Hok T HP. apply Forall_app in Hok. destruct Hok as [H1 Hrest]. inversion Hrest as [|? ? Hv H2]; subst.
  destruct (history h1 p l hdr pay R H1) as (l1 & _ & R1).
  destruct (getters_agree _ _ _ _ R1) as ((_ & _ & _ & _ & _ & _ & G & _) & _). rewrite HP in G. injection G as G.
  destruct (rel_setsplice l1 v (eq_sym G)) as [HD HF].
  destruct (after_set p hdr pay h1 h2 2%nat (OSetSplice v) l1 (set_splice l1 (Some v)) R1 Hv H2 T) as (l3 & R3 & E3).
  { intros l' D. rewrite (HD l' D). reflexivity. } { exact HF. }
  cbn [proj set_splice l_splice] in E3.
  destruct (getters_agree _ _ _ _ R3) as (M & F).
  destruct M as (_ & _ & _ & _ & _ & _ & _ & _ & _ & _ & _ & M & _). destruct F as (_ & _ & _ & _ & _ & _ & _ & _ & _ & _ & _ & F & _).
  destruct (l_splice l3) as [x|]; [|discriminate E3]. injection E3 as ->. cbn [opt_res] in M, F. split; assumption. Qed.

(* private data: the setter may be refused for lack of room; when it succeeds the data stay readable *)
Theorem tpd_last_set p l hdr pay h1 d h2 p2 : repr p l hdr pay -> Forall op_ok (h1 ++ OSetTPD d :: h2) ->
  Forall (fun o => touches 3 o = false) h2 -> step (run p h1) (OSetTPD d) = Ok p2 ->
  TransportPrivateData (run p (h1 ++ OSetTPD d :: h2)) = Ok (len d :: d) /\
  AFfn.TransportPrivateData (run p (h1 ++ OSetTPD d :: h2)) = Ok d /\
  AFfn.EncoderBoundaryPoint (run p (h1 ++ OSetTPD d :: h2)) = Ok d.
Proof. intros R Hok T HS. apply Forall_app in Hok. destruct Hok as [H1 Hrest]. inversion Hrest as [|? ? Hv H2]; subst.
  destruct (history h1 p l hdr pay R H1) as (l1 & _ & R1).
  destruct (step_ok_inv _ _ _ _ (OSetTPD d) p2 R1 Hv HS) as (l2 & (u & _ & _ & D) & R2).
  cbn [spec_step] in D. destruct (isSome (l_tpd l1)); [|discriminate]. symmetry in D. apply grow_inv in D. subst l2.
  rewrite run_app. unfold run at 1 3 5. cbn [fold_left]. fold (run (after (run p h1) (OSetTPD d)) h2).
  rewrite (after_ok _ _ _ HS).
  destruct (history h2 p2 _ hdr pay R2 H2) as (l3 & HR & R3).
  pose proof (hist_keeps 3 h2 _ l3 T HR) as E3. cbn [proj set_tpd l_tpd] in E3.
  destruct (getters_agree _ _ _ _ R3) as (M & F).
  destruct M as (_ & _ & _ & _ & _ & _ & _ & _ & _ & _ & _ & _ & M & _).
  destruct F as (_ & _ & _ & _ & _ & _ & _ & _ & _ & _ & _ & _ & F1 & F2).
  rewrite E3 in M, F1, F2. cbn [opt_res] in M, F1, F2. repeat split; assumption. Qed.

Lemma rel_setopcr l1 v : isSome (l_opcr l1) = true ->
  (forall l', op_rel l1 (OSetOPCR v) (Done l') -> l' = set_opcr l1 (Some (pcr_enc v))) /\ (forall e, ~ op_rel l1 (OSetOPCR v) (Fail e)).
Proof. intros P. split.
  - intros l' (u & _ & _ & E). cbn [spec_step] in E. rewrite P in E. injection E as ->. reflexivity.
  - intros e (u & _ & _ & E). cbn [spec_step] in E. rewrite P in E. discriminate. Qed.

Theorem opcr_last_set p l hdr pay h1 v h2 : repr p l hdr pay -> Forall op_ok (h1 ++ OSetOPCR v :: h2) ->
  Forall (fun o => touches 1 o = false) h2 -> HasOPCR (run p h1) = Ok true ->
  OPCR (run p (h1 ++ OSetOPCR v :: h2)) = Ok v /\ AFfn.OPCR (run p (h1 ++ OSetOPCR v :: h2)) = Ok (pcr_enc v).
Proof. intros R Hok T HP. apply Forall_app in Hok. destruct Hok as [H1 Hrest]. inversion Hrest as [|? ? Hv H2]; subst.
  destruct (history h1 p l hdr pay R H1) as (l1 & _ & R1).
  destruct (getters_agree _ _ _ _ R1) as ((_ & _ & _ & _ & _ & G & _) & _). rewrite HP in G. injection G as G.
  destruct (rel_setopcr l1 v (eq_sym G)) as [HD HF].
  destruct (after_set p hdr pay h1 h2 1%nat (OSetOPCR v) l1 (set_opcr l1 (Some (pcr_enc v))) R1 Hv H2 T) as (l3 & R3 & E3).
  { intros l' D. rewrite (HD l' D). reflexivity. } { exact HF. }
  cbn [proj set_opcr l_opcr] in E3.
  destruct (getters_agree _ _ _ _ R3) as (M & F).
  destruct M as (_ & _ & _ & _ & _ & _ & _ & _ & _ & _ & M & _). destruct F as (_ & _ & _ & _ & _ & _ & _ & _ & _ & _ & F & _).
  rewrite E3 in M, F. cbn [opt_res] in M, F. cbn [op_ok] in Hv. rewrite pcr_dec_enc in M by exact Hv. split; assumption. Qed.

Theorem ext_last_set p l hdr pay h1 d h2 p2 : repr p l hdr pay -> Forall op_ok (h1 ++ OSetExt d :: h2) ->
  Forall (fun o => touches 4 o = false) h2 -> step (run p h1) (OSetExt d) = Ok p2 ->
  AdaptationFieldExtension (run p (h1 ++ OSetExt d :: h2)) = Ok (len d :: d).
Proof. intros R Hok T HS. apply Forall_app in Hok. destruct Hok as [H1 Hrest]. inversion Hrest as [|? ? Hv H2]; subst.
  destruct (history h1 p l hdr pay R H1) as (l1 & _ & R1).
  destruct (step_ok_inv _ _ _ _ (OSetExt d) p2 R1 Hv HS) as (l2 & (u & _ & _ & D) & R2).
  cbn [spec_step] in D. destruct (isSome (l_ext l1)); [|discriminate]. symmetry in D. apply grow_inv in D. subst l2.
  rewrite run_app. unfold run at 1. cbn [fold_left]. fold (run (after (run p h1) (OSetExt d)) h2).
  rewrite (after_ok _ _ _ HS).
  destruct (history h2 p2 _ hdr pay R2 H2) as (l3 & HR & R3).
  pose proof (hist_keeps 4 h2 _ l3 T HR) as E3. cbn [proj set_ext l_ext] in E3.
  destruct (getters_agree _ _ _ _ R3) as (M & F).
  destruct M as (_ & _ & _ & _ & _ & _ & _ & _ & _ & _ & _ & _ & _ & M).
  rewrite E3 in M. cbn [opt_res] in M. exact M. Qed.
