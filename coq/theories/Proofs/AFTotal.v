(* For C05: on ANY 188-byte packet (garbage flags and length bytes included) no adaptation-field setter,
   getter or function-style accessor of the repaired code panics or diverges. *)
From Gots Require Import Base.Prelude Model.Pcr Model.AF Model.AFfn Proofs.AFLists.
Import AF.

Definition safe {A} (r : Res A) : Prop := r <> Panic /\ r <> Diverge.
Lemma safe_ok {A} (a : A) : safe (Ok a). Proof. split; discriminate. Qed.
Lemma safe_err {A} e : safe (@Err A e). Proof. split; discriminate. Qed.
Lemma safe_bind {A B} (r : Res A) (f : A -> Res B) : safe r -> (forall a, r = Ok a -> safe (f a)) -> safe (bind r f).
Proof. intros [H1 H2] H. destruct r; cbn [bind]; try contradiction; [apply H; reflexivity|apply safe_err]. Qed.
Lemma safe_if {A} (b : bool) (x y : Res A) : safe x -> safe y -> safe (if b then x else y).
Proof. destruct b; auto. Qed.
Lemma safe_valid p : safe (valid p).
Proof. unfold valid. repeat apply safe_if; try apply safe_err. apply safe_ok. Qed.
Lemma safe_slice l i j : i <= j -> j <= len l -> safe (slice l i j).
Proof. intros. rewrite slice_ok by assumption. apply safe_ok. Qed.

Lemma ss_eq p : stuffingStart p = 6 + pcrLength p + opcrLength p + spliceCountdownLength p +
  transportPrivateDataLength p + adaptationExtensionLength p.
Proof. reflexivity. Qed.
Lemma tps_eq p : transportPrivateDataStart p = 6 + pcrLength p + opcrLength p + spliceCountdownLength p.
Proof. reflexivity. Qed.
Lemma exs_eq p : adaptationExtensionStart p = transportPrivateDataStart p + transportPrivateDataLength p.
Proof. reflexivity. Qed.
Lemma os_eq p : opcrStart p = 6 + pcrLength p. Proof. reflexivity. Qed.
Lemma scs_eq p : spliceCountdownStart p = 6 + pcrLength p + opcrLength p. Proof. reflexivity. Qed.
Lemma se_le p : stuffingEnd p <= 188.
Proof. unfold stuffingEnd, PacketSize. destruct (N.ltb_spec 188 (nthN p 4 + 5)); lia. Qed.
Lemma se_ge p : 5 <= stuffingEnd p.
Proof. unfold stuffingEnd, PacketSize. destruct (N.ltb_spec 188 (nthN p 4 + 5)); lia. Qed.
Lemma pl_le p : pcrLength p <= 6. Proof. unfold pcrLength. destruct (hasPCR p); lia. Qed.
Lemma ol_le p : opcrLength p <= 6. Proof. unfold opcrLength. destruct (hasOPCR p); lia. Qed.
Lemma sl_le p : spliceCountdownLength p <= 1. Proof. unfold spliceCountdownLength. destruct (hasSplicingPoint p); lia. Qed.
Lemma tps_le p : transportPrivateDataStart p <= 19.
Proof. rewrite tps_eq. pose proof (pl_le p). pose proof (ol_le p). pose proof (sl_le p). lia. Qed.
Lemma tpl_pos p : hasTransportPrivateData p = true -> 1 <= transportPrivateDataLength p.
Proof. intros H. unfold transportPrivateDataLength. rewrite H. cbn [negb]. pose proof (tps_le p).
  replace (PacketSize <=? transportPrivateDataStart p) with false by (symmetry; apply N.leb_gt; unfold PacketSize; lia). lia. Qed.
Lemma exl_pos p : hasAdaptationFieldExtension p = true -> adaptationExtensionStart p < 188 -> 1 <= adaptationExtensionLength p.
Proof. intros H L. unfold adaptationExtensionLength. rewrite H. cbn [negb].
  replace (PacketSize <=? adaptationExtensionStart p) with false by (symmetry; apply N.leb_gt; unfold PacketSize; lia). lia. Qed.

Lemma length_fill p a b : length (fill_ff p a b) = length p. Proof. apply length_blit. Qed.
Lemma length_set_bit p i m v : length (set_bit p i m v) = length p.
Proof. unfold set_bit. destruct v; apply length_upd. Qed.

(* what a successful resize tells us *)
Lemma resize_ok_facts p start delta q : resizeAF p start delta = Ok q ->
  stuffingStart p <= 188 /\ length q = length p /\
  (forall d, delta = Zpos d -> stuffingStart p + Npos d <= stuffingEnd p).
Proof. unfold resizeAF. destruct (N.ltb_spec PacketSize (stuffingStart p)) as [G|G]; [discriminate|].
  unfold PacketSize in G. destruct delta as [|d|d].
  - intros [= <-]. repeat split; [exact G|]. intros d [=].
  - destruct (N.ltb_spec (stuffingEnd p) (stuffingStart p + N.pos d)) as [T|T]; [discriminate|].
    destruct (slice p start (stuffingStart p)); cbn [bind]; try discriminate.
    destruct (slice p (start + N.pos d) (stuffingStart p + N.pos d)); cbn [bind]; try discriminate.
    intros [= <-]. repeat split; [exact G|apply length_blit|]. intros d0 [= <-]. exact T.
  - destruct (slice p (start + N.pos d) (stuffingStart p)); cbn [bind]; try discriminate.
    intros [= <-]. repeat split; [exact G|rewrite length_fill; apply length_blit|]. intros d0 [=]. Qed.

Lemma resize_total p start delta : len p = 188 ->
  (forall d, delta = Zpos d -> stuffingStart p <= 188 -> stuffingStart p + Npos d <= stuffingEnd p -> start <= stuffingStart p) ->
  (forall d, delta = Zneg d -> stuffingStart p <= 188 -> start + Npos d <= stuffingStart p) ->
  safe (resizeAF p start delta).
Proof. intros HL Hg Hs. unfold resizeAF.
  destruct (N.ltb_spec PacketSize (stuffingStart p)) as [G|G]; [apply safe_err|]. unfold PacketSize in G.
  destruct delta as [|d|d]; [apply safe_ok| |].
  - destruct (N.ltb_spec (stuffingEnd p) (stuffingStart p + N.pos d)) as [T|T]; [apply safe_err|].
    pose proof (se_le p). pose proof (Hg d eq_refl G T).
    rewrite slice_ok by lia. cbn [bind]. rewrite slice_ok by lia. cbn [bind]. apply safe_ok.
  - pose proof (Hs d eq_refl G). rewrite slice_ok by lia. cbn [bind]. apply safe_ok. Qed.

Lemma nthN_blit_lt (p s : bytes) i j : j < i -> nthN (blit p i s) j = nthN p j.
Proof. unfold nthN, blit. intros H. assert (Hn: (N.to_nat j < N.to_nat i)%nat) by lia.
  generalize dependent (N.to_nat j). generalize (N.to_nat i). clear. intros a. revert p s.
  induction a; intros p s b Hb; [lia|]. destruct p; [destruct b; reflexivity|]. cbn [blit_nat].
  destruct b; [reflexivity|]. cbn [nth]. apply IHa. lia. Qed.

Section Total.
Variable p : bytes.
Hypothesis HL : length p = 188%nat.
Lemma lenp : len p = 188. Proof. unfold len. rewrite HL. reflexivity. Qed.

Lemma bit_delta_cases i m v : (bit_delta p i m v = 0 \/ (bit_delta p i m v = 1 /\ get_bit p i m = false) \/
  (bit_delta p i m v = -1 /\ get_bit p i m = true))%Z.
Proof. unfold bit_delta. destruct v, (get_bit p i m); cbn; auto. Qed.

Lemma total_flag m v : safe (set_flag p m v).
Proof. unfold set_flag. apply safe_bind; [apply safe_valid|]. intros. apply safe_ok. Qed.

Lemma total_haspcr v : safe (SetHasPCR p v).
Proof. unfold SetHasPCR. apply safe_bind; [apply safe_valid|]. intros _ _.
  apply safe_bind; [|intros; apply safe_ok]. apply resize_total; [apply lenp| |].
  - intros d _ _ _. rewrite ss_eq. unfold pcrStart. lia.
  - intros d Hd _. destruct (bit_delta_cases 5 16 v) as [E|[[E _]|[E B]]]; rewrite E in Hd; try discriminate.
    injection Hd as <-. rewrite ss_eq. unfold pcrLength, hasPCR, pcrStart. rewrite B. lia. Qed.
Lemma total_hasopcr v : safe (SetHasOPCR p v).
Proof. unfold SetHasOPCR. apply safe_bind; [apply safe_valid|]. intros _ _.
  apply safe_bind; [|intros; apply safe_ok]. apply resize_total; [apply lenp| |].
  - intros d _ _ _. rewrite ss_eq, os_eq. lia.
  - intros d Hd _. destruct (bit_delta_cases 5 8 v) as [E|[[E _]|[E B]]]; rewrite E in Hd; try discriminate.
    injection Hd as <-. rewrite ss_eq, os_eq. unfold opcrLength, hasOPCR. rewrite B. lia. Qed.
Lemma total_hassplice v : safe (SetHasSplicingPoint p v).
Proof. unfold SetHasSplicingPoint. apply safe_bind; [apply safe_valid|]. intros _ _.
  apply safe_bind; [|intros; apply safe_ok]. apply resize_total; [apply lenp| |].
  - intros d _ _ _. rewrite ss_eq, scs_eq. lia.
  - intros d Hd _. destruct (bit_delta_cases 5 4 v) as [E|[[E _]|[E B]]]; rewrite E in Hd; try discriminate.
    injection Hd as <-. rewrite ss_eq, scs_eq. unfold spliceCountdownLength, hasSplicingPoint. rewrite B. lia. Qed.
Lemma total_hastpd v : safe (SetHasTransportPrivateData p v).
Proof. unfold SetHasTransportPrivateData. apply safe_bind; [apply safe_valid|]. intros _ _.
  apply safe_bind; [|intros; apply safe_ok]. apply resize_total; [apply lenp| |].
  - intros d _ _ _. rewrite ss_eq, tps_eq. lia.
  - intros d Hd _. destruct (bit_delta_cases 5 2 v) as [E|[[E _]|[E B]]]; rewrite E in Hd; cbn in Hd; try discriminate.
    rewrite ss_eq, tps_eq. lia. Qed.
Lemma total_hasext v : safe (SetHasAdaptationFieldExtension p v).
Proof. unfold SetHasAdaptationFieldExtension. apply safe_bind; [apply safe_valid|]. intros _ _.
  set (delta := if (1 * bit_delta p 5 1 v <? 0)%Z then (- Z.of_N (adaptationExtensionLength p))%Z else (1 * bit_delta p 5 1 v)%Z).
  apply safe_bind.
  - apply resize_total; [apply lenp| |].
    + intros d _ _ _. rewrite ss_eq, exs_eq, tps_eq. lia.
    + intros d Hd _. unfold delta in Hd.
      destruct (bit_delta_cases 5 1 v) as [E|[[E _]|[E B]]]; rewrite E in Hd; cbn in Hd; try discriminate.
      rewrite ss_eq, exs_eq, tps_eq. lia.
  - intros p1 R. apply safe_bind; [|intros; apply safe_ok].
    destruct (Z.ltb_spec 0 delta) as [Pos|]; [|apply safe_ok].
    destruct (resize_ok_facts _ _ _ _ R) as (G & LQ & Grow).
    destruct delta as [|d|d] eqn:ED; try lia. specialize (Grow d eq_refl). pose proof (se_le p).
    (* the grow copied bytes to indexes > adaptationExtensionStart p only *)
    assert (P1: p1 = blit p (adaptationExtensionStart p + N.pos d) (match slice p (adaptationExtensionStart p) (stuffingStart p) with Ok s => s | _ => [] end)).
    { revert R. unfold resizeAF.
      replace (PacketSize <? stuffingStart p) with false by (symmetry; apply N.ltb_ge; unfold PacketSize; lia).
      replace (stuffingEnd p <? stuffingStart p + N.pos d) with false by (symmetry; apply N.ltb_ge; lia).
      destruct (slice p (adaptationExtensionStart p) (stuffingStart p)); cbn [bind]; try discriminate.
      destruct (slice p _ _); cbn [bind]; try discriminate. intros [= <-]. reflexivity. }
    assert (E5: nthN p1 5 = nthN p 5). { rewrite P1. apply nthN_blit_lt. rewrite exs_eq, tps_eq. lia. }
    assert (ET: adaptationExtensionStart p1 = adaptationExtensionStart p).
    { assert (T1: transportPrivateDataStart p1 = transportPrivateDataStart p).
      { unfold transportPrivateDataStart, pcrLength, opcrLength, spliceCountdownLength, hasPCR, hasOPCR, hasSplicingPoint, get_bit.
        rewrite E5. reflexivity. }
      rewrite !exs_eq, T1. f_equal. unfold transportPrivateDataLength, hasTransportPrivateData, get_bit. rewrite E5, T1.
      destruct (negb (bit (nthN p 5) 2)) eqn:NB; [reflexivity|].
      destruct (PacketSize <=? transportPrivateDataStart p); [reflexivity|]. f_equal.
      rewrite P1. apply nthN_blit_lt.
      assert (1 <= transportPrivateDataLength p).
      { apply tpl_pos. unfold hasTransportPrivateData, get_bit. destruct (bit (nthN p 5) 2); [reflexivity|discriminate]. }
      rewrite exs_eq. lia. }
    rewrite ET. unfold set_idx.
    replace (adaptationExtensionStart p <? len p1) with true; [apply safe_ok|].
    symmetry. apply N.ltb_lt. unfold len. rewrite LQ, HL. rewrite ss_eq, <- tps_eq in Grow. rewrite exs_eq. lia.
Qed.

Lemma safe_insert s v : len s = 6 -> safe (Pcr.insert_pcr s v).
Proof. intros H. unfold Pcr.insert_pcr. rewrite H. apply safe_ok. Qed.
Lemma safe_extract s : len s = 6 -> safe (Pcr.extract_pcr s).
Proof. intros H. unfold Pcr.extract_pcr.
  rewrite !idx_nthN by lia. cbn [bind]. apply safe_ok. Qed.

Lemma total_setpcr v : safe (SetPCR p v).
Proof. unfold SetPCR. apply safe_bind; [apply safe_valid|]. intros _ _.
  destruct (hasPCR p) eqn:B; cbn [negb]; [|apply safe_err].
  rewrite os_eq. unfold pcrLength, pcrStart. rewrite B. rewrite slice_ok by (rewrite ?lenp; lia). cbn [bind].
  apply safe_bind; [|intros; apply safe_ok]. apply safe_insert.
  rewrite len_takeN; [reflexivity|]. rewrite len_dropN, lenp. lia. Qed.
Lemma total_setopcr v : safe (SetOPCR p v).
Proof. unfold SetOPCR. apply safe_bind; [apply safe_valid|]. intros _ _.
  destruct (hasOPCR p) eqn:B; cbn [negb]; [|apply safe_err].
  rewrite scs_eq, os_eq. unfold opcrLength. rewrite B. pose proof (pl_le p).
  rewrite slice_ok by (rewrite ?lenp; lia). cbn [bind].
  apply safe_bind; [|intros; apply safe_ok]. apply safe_insert.
  rewrite len_takeN; [lia|]. rewrite len_dropN, lenp. lia. Qed.
Lemma total_setsplice v : safe (SetSpliceCountdown p v).
Proof. unfold SetSpliceCountdown. apply safe_bind; [apply safe_valid|]. intros _ _.
  destruct (hasSplicingPoint p); cbn [negb]; [apply safe_ok|apply safe_err]. Qed.

(* common tail of the two variable-size setters *)
Lemma total_var fstart flen data :
  fstart < 188 -> (1 <= flen \/ 188 <= stuffingStart p) -> fstart + flen <= stuffingStart p ->
  safe (let delta := (zlen data - (Z.of_N flen - 1))%Z in
        let start := fstart + 1 in
        let e := start + len data in
        let? p1 := resizeAF p start delta in
        let? _ := slice p1 start e in
        let p2 := blit p1 start data in
        set_idx p2 (start - 1) (w8 (len data))).
Proof. intros Hf Hl Hs. cbv zeta. pose proof (se_le p).
  apply safe_bind.
  - apply resize_total; [apply lenp| |].
    + intros d _ G T. lia.
    + intros d Hd G. unfold zlen, len in *. lia.
  - intros p1 R. destruct (resize_ok_facts _ _ _ _ R) as (G & LQ & Grow).
    assert (L1: len p1 = 188) by (unfold len; rewrite LQ, HL; reflexivity).
    assert (HE: fstart + 1 + len data <= 188).
    { destruct (zlen data - (Z.of_N flen - 1))%Z as [|d|d] eqn:ED.
      - unfold zlen, len in *. lia.
      - specialize (Grow d eq_refl). unfold zlen, len in *. lia.
      - unfold zlen, len in *. lia. }
    rewrite slice_ok by (rewrite ?L1; lia). cbn [bind]. unfold set_idx.
    replace (fstart + 1 - 1 <? len (blit p1 (fstart + 1) data)) with true; [apply safe_ok|].
    symmetry. apply N.ltb_lt. unfold len. rewrite length_blit, LQ, HL. lia. Qed.

Lemma total_settpd data : safe (SetTransportPrivateData p data).
Proof. unfold SetTransportPrivateData. apply safe_bind; [apply safe_valid|]. intros _ _.
  destruct (hasTransportPrivateData p) eqn:B; cbn [negb]; [|apply safe_err].
  apply total_var.
  - pose proof (tps_le p). lia.
  - left. apply tpl_pos. exact B.
  - rewrite ss_eq, tps_eq. lia. Qed.
Lemma total_setext data : safe (SetAdaptationFieldExtension p data).
Proof. unfold SetAdaptationFieldExtension. apply safe_bind; [apply safe_valid|]. intros _ _.
  destruct (hasAdaptationFieldExtension p) eqn:B; cbn [negb]; [|apply safe_err].
  destruct (N.lt_ge_cases (adaptationExtensionStart p) 188) as [Lt|Ge].
  - apply total_var; [exact Lt|left; apply exl_pos; assumption|rewrite ss_eq, exs_eq, tps_eq; lia].
  - (* the extension would start at or beyond the end of the packet: the resize refuses *)
    assert (EL: adaptationExtensionLength p = 0).
    { unfold adaptationExtensionLength. rewrite B. cbn [negb].
      replace (PacketSize <=? adaptationExtensionStart p) with true by (symmetry; apply N.leb_le; unfold PacketSize; lia). reflexivity. }
    assert (SS: stuffingStart p = adaptationExtensionStart p) by (rewrite ss_eq, exs_eq, tps_eq, EL; lia).
    rewrite EL. apply safe_bind.
    + unfold resizeAF. rewrite SS. destruct (N.ltb_spec PacketSize (adaptationExtensionStart p)); [apply safe_err|].
      unfold PacketSize in *. destruct (zlen data - (Z.of_N 0 - 1))%Z eqn:ED; try (unfold zlen in ED; lia).
      pose proof (se_le p).
      replace (stuffingEnd p <? adaptationExtensionStart p + N.pos p0) with true by (symmetry; apply N.ltb_lt; lia).
      apply safe_err.
    + intros p1 R. exfalso. revert R. unfold resizeAF. rewrite SS.
      destruct (N.ltb_spec PacketSize (adaptationExtensionStart p)); [discriminate|].
      unfold PacketSize in *. destruct (zlen data - (Z.of_N 0 - 1))%Z eqn:ED; try (unfold zlen in ED; lia).
      pose proof (se_le p).
      replace (stuffingEnd p <? adaptationExtensionStart p + N.pos p0) with true by (symmetry; apply N.ltb_lt; lia).
      discriminate. Qed.

Lemma total_setaf src : length src = 188%nat -> safe (SetAdaptationField p src).
Proof. intros HS. unfold SetAdaptationField. apply safe_if; [apply safe_err|].
  destruct (N.ltb_spec (stuffingEnd p) (stuffingStart src)) as [T|T]; [apply safe_err|].
  pose proof (se_le p). pose proof (se_ge p).
  rewrite slice_ok by (rewrite ?lenp; lia). cbn [bind].
  rewrite slice_ok; [cbn [bind]; apply safe_ok| |unfold len; rewrite HS; lia].
  rewrite ss_eq. lia. Qed.

Definition op_total (o : op) : Prop := match o with OSetAF src => length src = 188%nat | _ => True end.
Lemma step_total_p o : op_total o -> safe (step p o).
Proof. destruct o; cbn [step op_total]; intros H.
  - apply total_flag. - apply total_flag. - apply total_flag.
  - apply total_haspcr. - apply total_hasopcr. - apply total_hassplice. - apply total_hastpd. - apply total_hasext.
  - apply total_setpcr. - apply total_setopcr. - apply total_setsplice. - apply total_settpd. - apply total_setext.
  - apply total_setaf. exact H. Qed.

(* getters *)
Lemma safe_get_flag m : safe (get_flag p m).
Proof. unfold get_flag. apply safe_bind; [apply safe_valid|]. intros. apply safe_ok. Qed.
Definition getters_total_at : Prop :=
  safe (Discontinuity p) /\ safe (RandomAccess p) /\ safe (ElementaryStreamPriority p) /\
  safe (HasPCR p) /\ safe (PCR p) /\ safe (HasOPCR p) /\ safe (OPCR p) /\ safe (HasSplicingPoint p) /\
  safe (SpliceCountdown p) /\ safe (HasTransportPrivateData p) /\ safe (TransportPrivateData p) /\
  safe (HasAdaptationFieldExtension p) /\ safe (AdaptationFieldExtension p) /\
  safe (AFfn.PCR p) /\ safe (AFfn.OPCR p) /\ safe (AFfn.SpliceCountdown p) /\
  safe (AFfn.TransportPrivateData p) /\ safe (AFfn.EncoderBoundaryPoint p).
Lemma total_PCR : safe (PCR p).
Proof. unfold PCR. apply safe_bind; [apply safe_valid|]. intros _ _.
  destruct (hasPCR p) eqn:B; cbn [negb]; [|apply safe_err].
  rewrite os_eq. unfold pcrLength, pcrStart. rewrite B. rewrite slice_ok by (rewrite ?lenp; lia). cbn [bind].
  apply safe_extract. rewrite len_takeN; [reflexivity|]. rewrite len_dropN, lenp. lia. Qed.
Lemma total_OPCR : safe (OPCR p).
Proof. unfold OPCR. apply safe_bind; [apply safe_valid|]. intros _ _.
  destruct (hasOPCR p) eqn:B; cbn [negb]; [|apply safe_err].
  rewrite scs_eq, os_eq. unfold opcrLength. rewrite B. pose proof (pl_le p).
  rewrite slice_ok by (rewrite ?lenp; lia). cbn [bind].
  apply safe_extract. rewrite len_takeN; [lia|]. rewrite len_dropN, lenp. lia. Qed.
Lemma total_TPD : safe (TransportPrivateData p).
Proof. unfold TransportPrivateData. apply safe_bind; [apply safe_get_flag|]. intros h _.
  apply safe_if; [apply safe_err|].
  destruct (N.ltb_spec PacketSize (adaptationExtensionStart p)); [apply safe_err|]. unfold PacketSize in *.
  apply safe_slice; [rewrite exs_eq; lia|rewrite lenp; lia]. Qed.
Lemma total_Ext : safe (AdaptationFieldExtension p).
Proof. unfold AdaptationFieldExtension. apply safe_bind; [apply safe_get_flag|]. intros h _.
  apply safe_if; [apply safe_err|].
  destruct (N.ltb_spec PacketSize (stuffingStart p)); [apply safe_err|]. unfold PacketSize in *.
  apply safe_slice; [rewrite ss_eq, exs_eq, tps_eq; lia|rewrite lenp; lia]. Qed.
Lemma total_fnTPD : safe (AFfn.TransportPrivateData p).
Proof. unfold AFfn.TransportPrivateData. apply safe_if; [apply safe_err|].
  destruct (N.ltb_spec 188 (AFfn.tpd_offset p + 1 + nthN p (AFfn.tpd_offset p))); [apply safe_err|].
  apply safe_slice; [lia|rewrite lenp; lia]. Qed.
Lemma getters_total_p : getters_total_at.
Proof. unfold getters_total_at. repeat match goal with |- _ /\ _ => split end; try apply safe_get_flag; try apply total_PCR; try apply total_OPCR;
  try apply total_TPD; try apply total_Ext; try apply total_fnTPD.
  - unfold SpliceCountdown. apply safe_bind; [apply safe_valid|]. intros. apply safe_if; [apply safe_err|apply safe_ok].
  - unfold AFfn.PCR. apply safe_if; [apply safe_err|]. apply safe_slice; [lia|rewrite lenp; lia].
  - unfold AFfn.OPCR. apply safe_if; [apply safe_err|]. unfold AFfn.opcr_offset.
    apply safe_slice; [lia|rewrite lenp; destruct (AFfn.HasPCR p); lia].
  - unfold AFfn.SpliceCountdown. apply safe_if; [apply safe_err|apply safe_ok].
  - unfold AFfn.EncoderBoundaryPoint. apply safe_if; [apply total_fnTPD|apply safe_err].
Qed.
End Total.

Theorem step_total p o : length p = 188%nat -> op_total o -> step p o <> Panic /\ step p o <> Diverge.
Proof. intros HL H. apply step_total_p; assumption. Qed.
Definition getters_total (p : bytes) : Prop := getters_total_at p.
Theorem getters_total_any p : length p = 188%nat -> getters_total p.
Proof. intros HL. apply getters_total_p. exact HL. Qed.
