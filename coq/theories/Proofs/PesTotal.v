(* C05 for the codec group: what each decoder model returns on ARBITRARY byte strings.
   No decoder of this group can diverge (there is no loop).  Panics occur only in the raw field
   codecs that have no error result (ExtractTime, ExtractPCR, InsertPTS, InsertPCR) on slices shorter than the
   field; the PES entry points (NewPESHeader, packet.PESHeader, pes.AlignedPUSI) never panic. *)
From Gots Require Import Base.Prelude Base.CodecLemmas Model.Pts Model.PcrCodec Model.Pes Model.Crc
  Proofs.PcrPts Proofs.PesDecode.
Local Open Scope N_scope.

Lemma idx_ok (l : bytes) i : i < len l -> exists x, idx l i = Ok x.
Proof. intro H. unfold idx. destruct (nth_error l (N.to_nat i)) eqn:E; [eexists; reflexivity|].
  apply nth_error_None in E. unfold len in H. lia. Qed.
Lemma slice_ok (l : bytes) i j : i <= j -> j <= len l -> exists d, slice l i j = Ok d /\ len d = j - i.
Proof. intros H1 H2. unfold slice.
  assert (E1: (i <=? j) = true) by (apply N.leb_le; lia). assert (E2: (j <=? len l) = true) by (apply N.leb_le; lia).
  rewrite E1, E2. cbn [andb]. eexists. split; [reflexivity|].
  unfold len in *. rewrite firstn_length, skipn_length. lia. Qed.
Lemma extract_time_ok (s : bytes) : len s = 5 -> exists v, Pts.extract_time s = Ok v.
Proof. intro H. destruct s as [|b0 [|b1 [|b2 [|b3 [|b4 rest]]]]]; unfold len in H; cbn [length] in H; try lia.
  eexists. apply extract_time_cons. Qed.

(* NewPESHeader: an error exactly below 7 bytes, a header otherwise; never a panic *)
Theorem new_pes_header_total b :
  (len b < 7 -> Pes.new_pes_header b = Err E.Other) /\
  (7 <= len b -> exists h, Pes.new_pes_header b = Ok h).
Proof. split; intro H; unfold Pes.new_pes_header.
  - rewrite check_length_lt by exact H. reflexivity.
  - rewrite (check_length_ge b 7) by exact H.
    destruct (idx_ok b 0) as [x0 ->]; [lia|]. destruct (idx_ok b 1) as [x1 ->]; [lia|].
    destruct (idx_ok b 2) as [x2 ->]; [lia|]. destruct (idx_ok b 3) as [x3 ->]; [lia|].
    destruct (idx_ok b 4) as [x4 ->]; [lia|]. destruct (idx_ok b 5) as [x5 ->]; [lia|].
    destruct (idx_ok b 6) as [x6 ->]; [lia|]. cbn [bind].
    destruct (Pes.optional_fields_exist x3 && Pes.check_length b 9) eqn:C.
    + apply andb_true_iff in C. destruct C as [_ C]. unfold Pes.check_length in C.
      destruct (N.ltb_spec (len b) 9) as [|H9]; [discriminate|].
      destruct (idx_ok b 7) as [x7 ->]; [lia|]. destruct (idx_ok b 8) as [x8 ->]; [lia|]. cbn [bind].
      assert (PD: exists pd, (if negb (N.shiftr (N.land x7 192) 6 =? 0) && Pes.check_length b 14
                then let? s := slice b 9 14 in let? p := Pts.extract_time s in
                     if (N.shiftr (N.land x7 192) 6 =? 3) && Pes.check_length b 19
                     then let? s2 := slice b 14 19 in let? d := Pts.extract_time s2 in Ok (p, d)
                     else Ok (p, 0)
                else Ok (0, 0)) = Ok pd).
      { destruct (negb (N.shiftr (N.land x7 192) 6 =? 0) && Pes.check_length b 14) eqn:C1; [|eexists; reflexivity].
        apply andb_true_iff in C1. destruct C1 as [_ C1]. unfold Pes.check_length in C1.
        destruct (N.ltb_spec (len b) 14) as [|H14]; [discriminate|].
        destruct (slice_ok b 9 14) as (s & -> & Ls); [lia|lia|]. cbn [bind].
        destruct (extract_time_ok s) as [p ->]; [lia|]. cbn [bind].
        destruct ((N.shiftr (N.land x7 192) 6 =? 3) && Pes.check_length b 19) eqn:C2; [|eexists; reflexivity].
        apply andb_true_iff in C2. destruct C2 as [_ C2]. unfold Pes.check_length in C2.
        destruct (N.ltb_spec (len b) 19) as [|H19]; [discriminate|].
        destruct (slice_ok b 14 19) as (s2 & -> & Ls2); [lia|lia|]. cbn [bind].
        destruct (extract_time_ok s2) as [d ->]; [lia|]. cbn [bind]. eexists. reflexivity. }
      destruct PD as [pd ->]. cbn [bind].
      destruct (N.ltb_spec (9 + x8) (len b)) as [Hd|Hd].
      * destruct (slice_from_ok b (9 + x8)) as [d ->]; [lia|]. cbn [bind]. eexists. reflexivity.
      * cbn [bind]. eexists. reflexivity.
    + destruct (N.ltb_spec 6 (len b)) as [Hd|Hd]; [|lia].
      destruct (slice_from_ok b 6) as [d ->]; [lia|]. cbn [bind]. eexists. reflexivity. Qed.

Corollary new_pes_header_no_panic b : Pes.new_pes_header b <> Panic /\ Pes.new_pes_header b <> Diverge.
Proof. destruct (new_pes_header_total b) as [H1 H2].
  destruct (N.lt_ge_cases (len b) 7) as [H|H].
  - rewrite (H1 H). split; discriminate.
  - destruct (H2 H) as [h ->]. split; discriminate. Qed.

(* Data() never exceeds the input (bounded memory: the header record holds a sub-slice) *)
Lemma slice_from_len (l d : bytes) i : slice_from l i = Ok d -> len d <= len l.
Proof. unfold slice_from, slice. destruct ((i <=? len l) && (len l <=? len l)); [|discriminate].
  intro E. apply Ok_inj in E. subst d. unfold len. rewrite firstn_length, skipn_length. lia. Qed.

(* packet.PESHeader and pes.AlignedPUSI on any 188 bytes: a value or an error *)
Theorem pkt_pes_header_no_panic pkt : length pkt = 188%nat ->
  Pes.pkt_pes_header pkt <> Panic /\ Pes.pkt_pes_header pkt <> Diverge.
Proof. exact (pkt_pes_header_total pkt). Qed.
(* aligned_pusi returns an option: total by construction; when it answers, a header was decoded *)
Theorem aligned_pusi_total pkt : Pes.aligned_pusi pkt = None \/ exists d, Pes.aligned_pusi pkt = Some d.
Proof. destruct (Pes.aligned_pusi pkt) as [d|]; [right; exists d; reflexivity|left; reflexivity]. Qed.

(* the raw field codecs: they panic exactly on slices shorter than the field (they have no error result) *)
Theorem extract_time_panics_iff b :
  (Pts.extract_time b = Panic <-> (length b < 5)%nat) /\ (Pes.extract_time b = Panic <-> (length b < 5)%nat) /\
  Pts.extract_time b <> Diverge.
Proof. split; [apply extract_time_panic_iff|]. split; [rewrite <- pts_decoders_agree; apply extract_time_panic_iff|].
  destruct b as [|b0 [|b1 [|b2 [|b3 [|b4 rest]]]]]; discriminate. Qed.
Theorem extract_pcr_panics_iff b :
  (PcrCodec.extract_pcr b = Panic <-> (length b < 6)%nat) /\ PcrCodec.extract_pcr b <> Diverge.
Proof. split; [apply extract_pcr_panic_iff|].
  destruct b as [|a [|b' [|c [|d [|e [|f rest]]]]]]; discriminate. Qed.
Theorem insert_panics_iff b v :
  (Pts.insert_pts b v = Panic <-> (length b < 5)%nat) /\ (PcrCodec.insert_pcr b v = Panic <-> (length b < 6)%nat).
Proof. split; [apply insert_pts_panic_iff | apply insert_pcr_panic_iff]. Qed.

(* ComputeCRC is a total function on byte strings (no indexing beyond the range loop) *)
Theorem compute_crc_total b : length (Crc.compute_crc b) = 4%nat.
Proof. reflexivity. Qed.

(* bounded memory: Data() of any decoded header is empty or a proper suffix of the input *)
Lemma bind_ok {A B} (r : Res A) (f : A -> Res B) y : bind r f = Ok y -> exists x, r = Ok x /\ f x = Ok y.
Proof. destruct r; cbn [bind]; try discriminate. intro H. eexists. split; [reflexivity|exact H]. Qed.
Theorem new_pes_header_data_suffix b h : Pes.new_pes_header b = Ok h ->
  Pes.data h = [] \/ exists k, k < len b /\ Pes.data h = dropN k b.
Proof. unfold Pes.new_pes_header. destruct (Pes.check_length b 7); [|discriminate]. intro H.
  repeat (apply bind_ok in H; destruct H as (? & _ & H)).
  destruct (Pes.optional_fields_exist x2 && Pes.check_length b 9).
  - repeat (apply bind_ok in H; destruct H as (? & ? & H)).
    apply Ok_inj in H. subst h. cbn [Pes.data].
    match goal with Hd : (if ?c then _ else _) = Ok ?d |- _ => destruct c eqn:C in Hd end.
    + right. match goal with Hd : slice_from b ?k = Ok _ |- _ => exists k; split; [apply N.ltb_lt; exact C|] end.
      match goal with Hd : slice_from b ?k = Ok _ |- _ => unfold slice_from, slice in Hd;
        destruct ((k <=? len b) && (len b <=? len b)); [|discriminate]; apply Ok_inj in Hd; subst end.
      unfold dropN. apply firstn_all2. rewrite skipn_length. unfold len. lia.
    + left. match goal with Hd : Ok [] = Ok _ |- _ => apply Ok_inj in Hd; subst; reflexivity end.
  - repeat (apply bind_ok in H; destruct H as (? & ? & H)).
    apply Ok_inj in H. subst h. cbn [Pes.data].
    match goal with Hd : (if ?c then _ else _) = Ok ?d |- _ => destruct c eqn:C in Hd end.
    + right. exists 6. split; [apply N.ltb_lt; exact C|].
      match goal with Hd : slice_from b ?k = Ok _ |- _ => unfold slice_from, slice in Hd;
        destruct ((k <=? len b) && (len b <=? len b)); [|discriminate]; apply Ok_inj in Hd; subst end.
      unfold dropN. apply firstn_all2. rewrite skipn_length. unfold len. lia.
    + left. match goal with Hd : Ok [] = Ok _ |- _ => apply Ok_inj in Hd; subst; reflexivity end.
Qed.
