(* C02, part 5: packet.Create(pid, options...) for ARBITRARY option lists (induction over the list).

   What the exported options do (create.go): they OR a mask into byte 1 (WithPUSI), byte 3
   (WithHasPayloadFlag, WithHasAdaptationFieldFlag) or byte 5 (WithAFPrivateDataFlag 0x02,
   WithContinuousAF 0x7f, WithDiscontinuousAF 0x80); WithPES(pkt, pts) writes a 184-byte PES start
   at the payload offset of the packet as it is at that moment (4, or 5 once the adaptation-field
   flag is set: byte 4, the adaptation_field_length, is still 0) and sets the payload flag.
   So the result depends on the list only through: which flag options occur, and - when WithPES
   occurs - where the LAST WithPES stands (was the adaptation-field flag set before it; which byte-5
   options come after it). *)
From Gots Require Import Base.Prelude Base.CodecLemmas Model.Pts Model.Pes Spec.TimestampSpec Spec.PesSpec
  Proofs.PcrPts Proofs.PesDecode Proofs.PesCreate.
From Gots Require Import Base.PacketLemmas Model.Packet Model.Create Spec.Iso13818Hdr Proofs.HdrBits Proofs.PayloadCreate.
Import Packet Create.
Local Open Scope N_scope.

(* ------------------------------------------------------------------ classification of the options *)
Definition is_pusi (o : option_fn) : bool := match o with WithPUSI => true | _ => false end.
Definition is_payflag (o : option_fn) : bool :=
  match o with WithHasPayloadFlag | OptWithPES _ => true | _ => false end.
Definition is_afflag (o : option_fn) : bool := match o with WithHasAdaptationFieldFlag => true | _ => false end.
Definition is_pd (o : option_fn) : bool := match o with WithAFPrivateDataFlag => true | _ => false end.
Definition is_cont (o : option_fn) : bool := match o with WithContinuousAF => true | _ => false end.
Definition is_disc (o : option_fn) : bool := match o with WithDiscontinuousAF => true | _ => false end.
(* the six exported option functions *)
Definition flag_opt (o : option_fn) : bool :=
  match o with OptSetPayload _ | OptWithPES _ => false | _ => true end.
(* ... and closures around WithPES *)
Definition flag_or_pes (o : option_fn) : bool := match o with OptSetPayload _ => false | _ => true end.

(* the header bytes and byte 5 as functions of WHICH options occur (order and multiplicity do not matter) *)
Definition byte1_of (z : Z) (os : list option_fn) : N := N.lor (pb1 z) (if existsb is_pusi os then 64 else 0).
Definition byte3_of (os : list option_fn) : N :=
  N.lor (if existsb is_payflag os then 16 else 0) (if existsb is_afflag os then 32 else 0).
Definition byte5_of (os : list option_fn) : N :=
  N.lor (N.lor (if existsb is_pd os then 2 else 0) (if existsb is_cont os then 127 else 0))
        (if existsb is_disc os then 128 else 0).

(* masks per option, and their OR over a list *)
Definition m1 (o : option_fn) : N := match o with WithPUSI => 64 | _ => 0 end.
Definition m3 (o : option_fn) : N :=
  match o with WithHasPayloadFlag | OptWithPES _ => 16 | WithHasAdaptationFieldFlag => 32 | _ => 0 end.
Definition m5 (o : option_fn) : N :=
  match o with WithAFPrivateDataFlag => 2 | WithContinuousAF => 127 | WithDiscontinuousAF => 128 | _ => 0 end.
Fixpoint or_all (mk : option_fn -> N) (os : list option_fn) : N :=
  match os with [] => 0 | o :: t => N.lor (mk o) (or_all mk t) end.

Lemma or_all_m1 os : or_all m1 os = if existsb is_pusi os then 64 else 0.
Proof. induction os as [|o os IH]; [reflexivity|]. cbn [or_all existsb]. rewrite IH.
  destruct o, (existsb is_pusi os); reflexivity. Qed.
Lemma or_all_m3 os : or_all m3 os = byte3_of os.
Proof. unfold byte3_of. induction os as [|o os IH]; [reflexivity|]. cbn [or_all existsb]. rewrite IH.
  destruct o, (existsb is_payflag os), (existsb is_afflag os); reflexivity. Qed.
Lemma or_all_m5 os : or_all m5 os = byte5_of os.
Proof. unfold byte5_of. induction os as [|o os IH]; [reflexivity|]. cbn [or_all existsb]. rewrite IH.
  destruct o, (existsb is_pd os), (existsb is_cont os), (existsb is_disc os); reflexivity. Qed.
Lemma or_all_app mk a b : or_all mk (a ++ b) = N.lor (or_all mk a) (or_all mk b).
Proof. induction a as [|o a IH]; [reflexivity|]. cbn [app or_all]. rewrite IH, N.lor_assoc. reflexivity. Qed.
Lemma byte3_af os : negb (N.land (byte3_of os) 32 =? 0) = existsb is_afflag os.
Proof. unfold byte3_of. destruct (existsb is_payflag os), (existsb is_afflag os); reflexivity. Qed.

(* ------------------------------------------------------------------ one option on a packet in cons form *)
Lemma blit_skip4 (a b c d : N) (t s : bytes) k : blit (a :: b :: c :: d :: t) (4 + k) s = a :: b :: c :: d :: blit t k s.
Proof. unfold blit. replace (N.to_nat (4 + k)) with (S (S (S (S (N.to_nat k))))) by lia. reflexivity. Qed.

(* the flag options, on  0 x1 x2 x3 0 h t  (bytes 0..5 and the rest) *)
Lemma apply_flag o x1 x2 x3 h t : flag_opt o = true ->
  apply_option (0 :: x1 :: x2 :: x3 :: 0 :: h :: t) o =
  0 :: N.lor x1 (m1 o) :: x2 :: N.lor x3 (m3 o) :: 0 :: N.lor h (m5 o) :: t.
Proof. destruct o; intro F; try discriminate F; cbn [m1 m3 m5]; rewrite ?N.lor_0_r; reflexivity. Qed.

Lemma fold_flags os : forall x1 x2 x3 h t, forallb flag_opt os = true ->
  fold_left apply_option os (0 :: x1 :: x2 :: x3 :: 0 :: h :: t) =
  0 :: N.lor x1 (or_all m1 os) :: x2 :: N.lor x3 (or_all m3 os) :: 0 :: N.lor h (or_all m5 os) :: t.
Proof.
  induction os as [|o os IH]; intros x1 x2 x3 h t F.
  - cbn [fold_left or_all]. rewrite !N.lor_0_r. reflexivity.
  - cbn [forallb] in F. apply andb_true_iff in F. destruct F as [Fo Fs].
    cbn [fold_left or_all]. rewrite (apply_flag o _ _ _ _ _ Fo), (IH _ _ _ _ _ Fs), !N.lor_assoc. reflexivity.
Qed.

(* ANY option (also the SetPayload closure), on  0 x1 x2 x3 tail : bytes 0..3 are ORed, the length is kept *)
Lemma apply_any o x1 x2 x3 tail : length tail = 184%nat ->
  exists tail', length tail' = 184%nat /\
    apply_option (0 :: x1 :: x2 :: x3 :: tail) o = 0 :: N.lor x1 (m1 o) :: x2 :: N.lor x3 (m3 o) :: tail'.
Proof.
  intros L.
  assert (forall pay, exists tail', length tail' = 184%nat /\
            fst (SetPayload_fn (0 :: x1 :: x2 :: x3 :: tail) pay) = 0 :: x1 :: x2 :: x3 :: tail') as SP.
  { intros pay. unfold SetPayload_fn, payloadStart_fn. cbn [fst].
    destruct (ContainsAdaptationField (0 :: x1 :: x2 :: x3 :: tail)).
    - rewrite blit_skip4. eexists. split; [|reflexivity]. rewrite blit_length. exact L.
    - change 4 with (4 + 0) at 1. rewrite blit_skip4. eexists. split; [|reflexivity]. rewrite blit_length. exact L. }
  destruct o; cbn [m1 m3 m5 apply_option]; rewrite ?N.lor_0_r.
  1,2,4: (exists tail; split; [exact L | reflexivity]).
  1,2,3: (eexists; split; [|unfold or_byte, upd; cbn [N.to_nat Pos.to_nat Pos.iter_op Nat.add upd_nat]; reflexivity];
          rewrite upd_nat_length; exact L).
  - destruct (SP pay) as (t' & L' & E). exists t'. split; [exact L' | exact E].
  - destruct (SP (pes_payload pts)) as (t' & L' & E). rewrite E. exists t'. split; [exact L' | reflexivity].
Qed.

Lemma fold_any os : forall x1 x2 x3 tail, length tail = 184%nat ->
  exists tail', length tail' = 184%nat /\
    fold_left apply_option os (0 :: x1 :: x2 :: x3 :: tail) =
    0 :: N.lor x1 (or_all m1 os) :: x2 :: N.lor x3 (or_all m3 os) :: tail'.
Proof.
  induction os as [|o os IH]; intros x1 x2 x3 tail L.
  - exists tail. split; [exact L|]. cbn [fold_left or_all]. rewrite !N.lor_0_r. reflexivity.
  - destruct (apply_any o x1 x2 x3 tail L) as (t1 & L1 & E1).
    destruct (IH (N.lor x1 (m1 o)) x2 (N.lor x3 (m3 o)) t1 L1) as (t2 & L2 & E2).
    exists t2. split; [exact L2|]. cbn [fold_left or_all]. rewrite E1, E2, !N.lor_assoc. reflexivity.
Qed.

Lemma set_pid_zero z : setPid zero_packet z = 0 :: pb1 z :: pb2 z :: 0 :: 0 :: 0 :: repeatN 0 182.
Proof. reflexivity. Qed.

(* ------------------------------------------------------------------ every option list: the header *)
Lemma create_any_shape z os : exists tail, length tail = 184%nat /\
  Create z os = 71 :: byte1_of z os :: pb2 z :: byte3_of os :: tail.
Proof.
  unfold Create. rewrite set_pid_zero.
  destruct (fold_any os (pb1 z) (pb2 z) 0 (0 :: 0 :: repeatN 0 182) eq_refl) as (t & L & E).
  exists t. split; [exact L|]. rewrite E. unfold byte1_of. rewrite or_all_m1, or_all_m3, N.lor_0_l. reflexivity.
Qed.

(* setPid keeps the low 13 bits of ANY Go int *)
Lemma pb_any z : let v := Z.to_N (z mod 8192) in pb1 z = v / 256 /\ pb2 z = v mod 256 /\ v < 8192.
Proof.
  cbv zeta. unfold pb1, pb2, byteZ.
  change 31%Z with (Z.ones 5). change 255%Z with (Z.ones 8). rewrite !Z.land_ones by lia.
  rewrite Z.shiftr_div_pow2 by lia. change (2 ^ 8)%Z with 256%Z. change (2 ^ 5)%Z with 32%Z. repeat split; lia.
Qed.

(* the logical header of  71 b1 b2 b3 ...  with b1 = PID high bits (+ PUSI) *)
Lemma hdr_of_shape v (pusi : bool) b3 tail : v < 8192 -> b3 < 256 ->
  Iso.hdr_of (71 :: N.lor (v / 256) (if pusi then 64 else 0) :: v mod 256 :: b3 :: tail) =
  Iso.mkHdr 71 0 (b2n pusi) 0 v (b3 / 64) ((b3 / 16) mod 4) (b3 mod 16).
Proof.
  intros Hv H3. assert (v / 256 < 32) as Hhi by lia.
  pose proof (sweep1_ok 32 or64_ok or64_sweep (v / 256) Hhi) as S. unfold or64_ok, f1_eqb in S. split_andb S.
  unfold Iso.hdr_of, Iso.hdr_of_bytes, nthN. cbn [N.to_nat nth].
  change (Pos.to_nat 1) with 1%nat. change (Pos.to_nat 2) with 2%nat. change (Pos.to_nat 3) with 3%nat. cbn [nth].
  destruct pusi; cbn [b2n]; rewrite ?N.lor_0_r; f_equal; try assumption; try lia.
Qed.

Definition afc_of (os : list option_fn) : N :=
  2 * b2n (existsb is_afflag os) + b2n (existsb is_payflag os).

Lemma create_any_header z os :
  length (Create z os) = 188%nat /\
  Iso.hdr_of (Create z os) =
    Iso.mkHdr 71 0 (b2n (existsb is_pusi os)) 0 (Z.to_N (z mod 8192)) 0 (afc_of os) 0.
Proof.
  destruct (create_any_shape z os) as (t & L & E). rewrite E. split; [cbn [length]; lia|].
  destruct (pb_any z) as (E1 & E2 & Hv). cbv zeta in *. unfold byte1_of. rewrite E1, E2.
  rewrite hdr_of_shape; [| exact Hv | unfold byte3_of; destruct (existsb is_payflag os), (existsb is_afflag os); cbn; lia].
  unfold byte3_of, afc_of. destruct (existsb is_payflag os), (existsb is_afflag os); reflexivity.
Qed.

(* ------------------------------------------------------------------ lists of the six exported options: the whole packet *)
Lemma create_flags z os : forallb flag_opt os = true ->
  Create z os = 71 :: byte1_of z os :: pb2 z :: byte3_of os :: 0 :: byte5_of os :: repeatN 0 182.
Proof.
  intros F. unfold Create. rewrite set_pid_zero, (fold_flags os _ _ _ _ _ F).
  unfold byte1_of. rewrite or_all_m1, or_all_m3, or_all_m5, !N.lor_0_l. reflexivity.
Qed.

Lemma byte_facts z os : byte1_of z os < 256 /\ pb2 z < 256 /\ byte3_of os < 256 /\ byte5_of os < 256.
Proof.
  destruct (pb_any z) as (E1 & E2 & Hv). cbv zeta in *.
  assert (Z.to_N (z mod 8192) / 256 < 32) as Hhi by lia.
  pose proof (sweep1_ok 32 or64_ok or64_sweep _ Hhi) as S. unfold or64_ok, f1_eqb in S. split_andb S.
  repeat split.
  - unfold byte1_of. rewrite E1. destruct (existsb is_pusi os); [|rewrite N.lor_0_r; lia].
    assert (N.lor (Z.to_N (z mod 8192) / 256) 64 / 128 = 0) as T by assumption.
    apply N.div_small_iff in T; lia.
  - lia.
  - unfold byte3_of. destruct (existsb is_payflag os), (existsb is_afflag os); cbn; lia.
  - unfold byte5_of. destruct (existsb is_pd os), (existsb is_cont os), (existsb is_disc os); cbn; lia.
Qed.

Lemma create_flags_pkt z os : forallb flag_opt os = true -> is_pkt (Create z os).
Proof.
  intros F. rewrite (create_flags z os F). destruct (byte_facts z os) as (B1 & B2 & B3 & B5).
  split; [reflexivity|]. unfold is_bytes.
  do 6 (constructor; [unfold is_byte; lia|]). apply repeatN_bytes. unfold is_byte; lia.
Qed.

(* ------------------------------------------------------------------ WithPES *)
Lemma pes_payload_eq pts : pes_payload pts = pes_pay pts.
Proof.
  unfold pes_payload.
  change (upd (upd (upd (upd (upd (upd (upd (upd (repeatN 0 184) 0 0) 1 0) 2 1) 3 184) 4 0) 6 64) 7 128) 8 14)
    with ([0; 0; 1; 184; 0; 0; 64; 128; 14] ++ [0; 0; 0; 0; 0] ++ repeat 0 170).
  rewrite (slice_mid [0; 0; 1; 184; 0; 0; 64; 128; 14] [0; 0; 0; 0; 0] (repeat 0 170) 9 14) by reflexivity.
  rewrite insert_pts_cons. rewrite app_nil_r.
  rewrite (blit_mid [0; 0; 1; 184; 0; 0; 64; 128; 14] [0; 0; 0; 0; 0] (repeat 0 170) (TsSpec.ts_bytes 2 pts) 9)
    by reflexivity.
  reflexivity.
Qed.
Lemma pes_pay_length pts : length (pes_pay pts) = 184%nat. Proof. reflexivity. Qed.
Lemma pes_pay_bytes pts : is_bytes (pes_pay pts).
Proof.
  unfold pes_pay. apply is_bytes_app. split; [repeat constructor; unfold is_byte; lia|].
  apply is_bytes_app. split; [exact (proj1 (ts_bytes_are_bytes 2 pts ltac:(lia)))|].
  apply Forall_forall. intros x Hx. apply repeat_spec in Hx. subst x. unfold is_byte. lia.
Qed.

(* the bytes after byte 5 once WithPES has run: the PES start from its offset 2 when it was written at
   offset 4 (no adaptation-field flag yet), from its offset 1 when written at offset 5 *)
Definition pes_body (af_before : bool) (pts : N) : bytes :=
  if af_before then tl (firstn 183 (pes_pay pts)) else skipn 2 (pes_pay pts).

Lemma apply_pes x1 x2 x3 body pts : length body = 183%nat ->
  apply_option (0 :: x1 :: x2 :: x3 :: 0 :: body) (OptWithPES pts) =
  0 :: x1 :: x2 :: N.lor x3 16 :: 0 :: 0 :: pes_body (negb (N.land x3 32 =? 0)) pts.
Proof.
  intros L. cbn [apply_option]. rewrite pes_payload_eq. unfold SetPayload_fn, payloadStart_fn, ContainsAdaptationField. cbn [fst].
  change (get (0 :: x1 :: x2 :: x3 :: 0 :: body) 3) with x3.
  change (get (0 :: x1 :: x2 :: x3 :: 0 :: body) 4) with 0.
  unfold pes_body. destruct (negb (N.land x3 32 =? 0)).
  - change (4 + (1 + 0)) with (4 + 1). rewrite blit_skip4.
    change (blit (0 :: body) 1 (pes_pay pts)) with (0 :: blit_nat body 0 (pes_pay pts)).
    rewrite PacketLemmas.blit_nat_0. rewrite L, pes_pay_length.
    rewrite (skipn_all2 body) by lia. rewrite app_nil_r. reflexivity.
  - change 4 with (4 + 0) at 1. rewrite blit_skip4.
    rewrite (blit_all (0 :: body) (pes_pay pts)) by (cbn [length]; rewrite L, pes_pay_length; reflexivity).
    reflexivity.
Qed.

(* flag options and WithPES closures keep the shape  0 x1 x2 x3 0 body *)
Lemma apply_fp o x1 x2 x3 body : flag_or_pes o = true -> length body = 183%nat ->
  exists body', length body' = 183%nat /\
    apply_option (0 :: x1 :: x2 :: x3 :: 0 :: body) o = 0 :: N.lor x1 (m1 o) :: x2 :: N.lor x3 (m3 o) :: 0 :: body'.
Proof.
  intros F L. destruct body as [|h t]; [discriminate L|].
  destruct o; try discriminate F.
  1-6: (rewrite apply_flag by reflexivity; eexists; split; [|reflexivity]; exact L).
  rewrite apply_pes by exact L. cbn [m1 m3]. rewrite N.lor_0_r. eexists. split; [|reflexivity].
  unfold pes_body. destruct (negb (N.land x3 32 =? 0)); reflexivity.
Qed.
Lemma fold_fp os : forall x1 x2 x3 body, forallb flag_or_pes os = true -> length body = 183%nat ->
  exists body', length body' = 183%nat /\
    fold_left apply_option os (0 :: x1 :: x2 :: x3 :: 0 :: body) =
    0 :: N.lor x1 (or_all m1 os) :: x2 :: N.lor x3 (or_all m3 os) :: 0 :: body'.
Proof.
  induction os as [|o os IH]; intros x1 x2 x3 body F L.
  - exists body. split; [exact L|]. cbn [fold_left or_all]. rewrite !N.lor_0_r. reflexivity.
  - cbn [forallb] in F. apply andb_true_iff in F. destruct F as [Fo Fs].
    destruct (apply_fp o x1 x2 x3 body Fo L) as (b1 & L1 & E1).
    destruct (IH (N.lor x1 (m1 o)) x2 (N.lor x3 (m3 o)) b1 Fs L1) as (b2 & L2 & E2).
    exists b2. split; [exact L2|]. cbn [fold_left or_all]. rewrite E1, E2, !N.lor_assoc. reflexivity.
Qed.

(* option lists with WithPES: split at the LAST WithPES.  pre: any flag options and earlier WithPES
   closures; post: flag options only *)
Lemma create_with_pes z pre pts post :
  forallb flag_or_pes pre = true -> forallb flag_opt post = true ->
  let os := pre ++ OptWithPES pts :: post in
  Create z os = 71 :: byte1_of z os :: pb2 z :: byte3_of os :: 0 :: byte5_of post
                   :: pes_body (existsb is_afflag pre) pts.
Proof.
  intros Fp Fq os. unfold Create. rewrite set_pid_zero. unfold os. rewrite fold_left_app. cbn [fold_left].
  destruct (fold_fp pre (pb1 z) (pb2 z) 0 (0 :: repeatN 0 182) Fp eq_refl) as (b & L & E). rewrite E.
  rewrite (apply_pes _ _ _ b pts L). rewrite (fold_flags post _ _ _ _ _ Fq).
  rewrite N.lor_0_l, or_all_m3, byte3_af, or_all_m5, N.lor_0_l.
  unfold byte1_of. rewrite <- !or_all_m1, <- !or_all_m3. rewrite !or_all_app. cbn [or_all m1 m3].
  rewrite N.lor_0_l. rewrite !N.lor_assoc. reflexivity.
Qed.

Lemma pes_body_bytes af pts : is_bytes (pes_body af pts) /\ length (pes_body af pts) = 182%nat.
Proof.
  split; [|destruct af; reflexivity].
  pose proof (pes_pay_bytes pts) as B. unfold is_bytes in *. unfold pes_body. destruct af.
  - apply Forall_forall. intros x Hx. rewrite Forall_forall in B. apply B.
    rewrite <- (firstn_skipn 183 (pes_pay pts)). apply in_or_app. left.
    destruct (firstn 183 (pes_pay pts)); [destruct Hx | right; exact Hx].
  - apply Forall_forall. intros x Hx. rewrite Forall_forall in B. apply B.
    rewrite <- (firstn_skipn 2 (pes_pay pts)). apply in_or_app. right. exact Hx.
Qed.

Lemma create_with_pes_pkt z pre pts post :
  forallb flag_or_pes pre = true -> forallb flag_opt post = true ->
  is_pkt (Create z (pre ++ OptWithPES pts :: post)).
Proof.
  intros Fp Fq. rewrite (create_with_pes z pre pts post Fp Fq).
  destruct (byte_facts z (pre ++ OptWithPES pts :: post)) as (B1 & B2 & B3 & _).
  destruct (byte_facts z post) as (_ & _ & _ & B5).
  destruct (pes_body_bytes (existsb is_afflag pre) pts) as [BB BL].
  split; [cbn [length]; rewrite BL; reflexivity|]. unfold is_bytes.
  do 6 (constructor; [unfold is_byte; lia|]). exact BB.
Qed.

Definition pusi_bit_ok (x : N) : bool :=
  (negb (N.land (N.lor x 64) 64 =? 0)) && (N.land (N.lor x 0) 64 =? 0).
Lemma pusi_bit_sweep : sweep1 32 pusi_bit_ok = true. Proof. vm_compute. reflexivity. Qed.
Lemma pusi_bit x (m : bool) : x < 32 -> negb (N.land (N.lor x (if m then 64 else 0)) 64 =? 0) = m.
Proof.
  intros H. pose proof (sweep1_ok 32 pusi_bit_ok pusi_bit_sweep x H) as S. unfold pusi_bit_ok in S.
  apply andb_true_iff in S. destruct S as [S1 S2]. destruct m; [exact S1 | rewrite S2; reflexivity].
Qed.

(* ------------------------------------------------------------------ reading the PES start back *)
(* a byte string that begins with the 14 header bytes WithPES writes decodes to a header with that PTS *)
Lemma pes_prefix_decodes pts Z : pts < 8589934592 ->
  let X := [0; 0; 1; 184; 0; 0; 64; 128; 14] ++ TsSpec.ts_bytes 2 pts ++ Z in
  exists h, Pes.new_pes_header X = Ok h /\
    Pes.packetStartCodePrefix h = 1 /\ Pes.streamId h = 184 /\
    Pes.has_pts h = true /\ Pes.has_dts h = false /\ Pes.pts h = pts.
Proof.
  intros Hpts X.
  assert (EX : X = [0; 0; 1; 184; 0; 0; 64; 128; 14] ++ TsSpec.ser_ts 2 pts ++ Z)
    by (unfold X; rewrite ser_ts_bytes by (assumption || lia); reflexivity).
  pose proof (new_optional_gen 0 0 1 184 0 0 64 128 14 (TsSpec.ser_ts 2 pts ++ Z) eq_refl) as NH. cbv zeta in NH.
  change (N.shiftr (N.land 128 192) 6) with 2 in NH.
  change (0 :: 0 :: 1 :: 184 :: 0 :: 0 :: 64 :: 128 :: 14 :: TsSpec.ser_ts 2 pts ++ Z)
    with ([0; 0; 1; 184; 0; 0; 64; 128; 14] ++ TsSpec.ser_ts 2 pts ++ Z) in NH.
  rewrite <- EX in NH.
  assert (SP : stamps_part X 2 = Ok (pts, 0)) by (rewrite EX; apply stamps_pts_only_gen; (reflexivity || assumption || lia)).
  rewrite SP in NH. cbn [bind fst snd] in NH.
  assert (D : exists d, (if 9 + 14 <? len X then slice_from X (9 + 14) else Ok []) = Ok d).
  { destruct (N.ltb_spec (9 + 14) (len X)); [apply slice_from_ok; lia | eexists; reflexivity]. }
  destruct D as [d D]. rewrite D in NH. cbn [bind] in NH.
  eexists. split; [exact NH|]. repeat split; reflexivity.
Qed.

(* when nothing disturbs the PES start after the last WithPES (no byte-5 option after it, and the
   adaptation-field flag either set before it or never), the packet's payload IS the PES start, PESHeader
   returns it when WithPUSI was given, and the pes decoder reads the requested PTS *)
Lemma create_pes_readback z pre pts post :
  forallb flag_or_pes pre = true -> forallb flag_opt post = true -> pts < 8589934592 ->
  byte5_of post = 0 -> (existsb is_afflag pre = true \/ existsb is_afflag post = false) ->
  let os := pre ++ OptWithPES pts :: post in
  let p := Create z os in
  let pay := if existsb is_afflag pre then firstn 183 (pes_pay pts) else pes_pay pts in
  Payload_fn p = Ok pay /\
  (existsb is_pusi os = true -> PESHeader p = Ok pay) /\
  (existsb is_pusi os = false -> PESHeader p = Err E.NoPayload) /\
  exists h, Pes.new_pes_header pay = Ok h /\
    Pes.packetStartCodePrefix h = 1 /\ Pes.streamId h = 184 /\
    Pes.has_pts h = true /\ Pes.has_dts h = false /\ Pes.pts h = pts.
Proof.
  intros Fp Fq Hpts B5 AFc os p pay.
  pose proof (create_with_pes z pre pts post Fp Fq) as E. cbv zeta in E. fold os in E. fold p in E.
  rewrite B5 in E.
  assert (existsb is_payflag os = true) as PF.
  { unfold os. rewrite existsb_app. cbn [existsb is_payflag]. rewrite orb_true_r. reflexivity. }
  assert (existsb is_afflag os = existsb is_afflag pre) as AFE.
  { unfold os. rewrite existsb_app. cbn [existsb is_afflag orb].
    destruct AFc as [A|A]; rewrite A; [reflexivity | rewrite orb_false_r; reflexivity]. }
  assert (byte3_of os = if existsb is_afflag pre then 48 else 16) as B3
    by (unfold byte3_of; rewrite PF, AFE; destruct (existsb is_afflag pre); reflexivity).
  rewrite B3 in E.
  (* the payload *)
  assert (Payload_fn p = Ok pay) as PAY.
  { rewrite E. unfold pay, pes_body. destruct (existsb is_afflag pre).
    - unfold Payload_fn, ContainsPayload, payloadStart_fn, ContainsAdaptationField, get, nthN. cbn [N.to_nat nth Pos.to_nat Pos.iter_op Nat.add].
      change (negb (negb (N.land 48 16 =? 0))) with false. change (negb (N.land 48 32 =? 0)) with true. cbv iota.
      change (PacketSize <? 4 + (1 + 0)) with false. cbv iota.
      change (71 :: byte1_of z os :: pb2 z :: 48 :: 0 :: 0 :: tl (firstn 183 (pes_pay pts)))
        with ([71; byte1_of z os; pb2 z; 48; 0] ++ firstn 183 (pes_pay pts)).
      apply slice_app_r; reflexivity.
    - unfold Payload_fn, ContainsPayload, payloadStart_fn, ContainsAdaptationField, get, nthN. cbn [N.to_nat nth Pos.to_nat Pos.iter_op Nat.add].
      change (negb (negb (N.land 16 16 =? 0))) with false. change (negb (N.land 16 32 =? 0)) with false. cbv iota.
      change (PacketSize <? 4) with false. cbv iota.
      change (71 :: byte1_of z os :: pb2 z :: 16 :: 0 :: 0 :: skipn 2 (pes_pay pts))
        with ([71; byte1_of z os; pb2 z; 16] ++ pes_pay pts).
      apply slice_app_r; reflexivity. }
  (* PUSI *)
  assert (PayloadUnitStartIndicator_fn p = existsb is_pusi os) as PU.
  { rewrite E. unfold PayloadUnitStartIndicator_fn, get, nthN. cbn [N.to_nat]. change (Pos.to_nat 1) with 1%nat. cbn [nth].
    destruct (pb_any z) as (E1 & _ & Hv). cbv zeta in *. assert (Z.to_N (z mod 8192) / 256 < 32) as Hhi by lia.
    unfold byte1_of. rewrite E1. apply pusi_bit. exact Hhi. }
  assert ((3 <? len pay) && (nthN pay 0 =? 0) && (nthN pay 1 =? 0) && (nthN pay 2 =? 1) = true) as PS
    by (unfold pay; destruct (existsb is_afflag pre); reflexivity).
  split; [exact PAY|]. split; [|split].
  - intros HP. unfold PESHeader. rewrite PU, HP, PAY. cbn [bind]. rewrite PS. reflexivity.
  - intros HP. unfold PESHeader. rewrite PU, HP. reflexivity.
  - unfold pay. destruct (existsb is_afflag pre).
    + change (firstn 183 (pes_pay pts)) with ([0; 0; 1; 184; 0; 0; 64; 128; 14] ++ TsSpec.ts_bytes 2 pts ++ repeat 0 169).
      apply pes_prefix_decodes. exact Hpts.
    + apply (pes_prefix_decodes pts (repeat 0 170)). exact Hpts.
Qed.
