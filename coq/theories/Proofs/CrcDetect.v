(* C13, receiver side: every single-bit error changes the CRC-32/MPEG-2 register, so a section that passed the
   check before a single bit was flipped (anywhere, CRC field included) fails it afterwards. *)
From Gots Require Import Base.Prelude Base.CodecLemmas Model.Crc Spec.Crc32 Proofs.CrcRegister Proofs.CrcUnique Proofs.CrcLinear.
Local Open Scope N_scope.

Notation flip := Crc32.flip.

Lemma zipx_false_r bits : zipx bits (repeat false (length bits)) = bits.
Proof. induction bits as [|b bits IH]; [reflexivity|]. cbn [length repeat zipx]. rewrite IH. destruct b; reflexivity. Qed.

Lemma bits_of_byte_lxor x m : Crc32.bits_of_byte (N.lxor x m) = zipx (Crc32.bits_of_byte x) (Crc32.bits_of_byte m).
Proof. unfold Crc32.bits_of_byte. cbn [zipx]. rewrite !N.lxor_spec. reflexivity. Qed.

Lemma iter_add n m f x : Crc.iter n f (Crc.iter m f x) = Crc.iter (m + n) f x.
Proof. revert x. induction m as [|m IH]; intro x; [reflexivity|]. cbn [Crc.iter Nat.add]. apply IH. Qed.

Lemma iter_zstep_a0 n x : Crc.iter n zstep x = Crc.iter n a0 x.
Proof. apply iter_ext. exact zstep_a0. Qed.

Lemma iter_poly_nonzero k : Crc.iter k zstep poly <> 0.
Proof. intro H. rewrite iter_zstep_a0 in H.
  assert (E: Crc.iter k a0 poly = Crc.iter k a0 0) by (rewrite H; symmetry; rewrite <- iter_zstep_a0; apply iter_zero).
  apply iter_a0_inj in E; [discriminate|apply bounded_poly|apply bounded_0]. Qed.

Lemma lxor_fix x y : N.lxor x y = x -> y = 0.
Proof. intro H. apply (f_equal (N.lxor x)) in H. rewrite <- N.lxor_assoc, N.lxor_nilpotent, N.lxor_0_l in H. exact H. Qed.

Lemma split_nth (l : bytes) : forall i, (i < length l)%nat -> l = firstn i l ++ [nth i l 0] ++ skipn (S i) l.
Proof. induction l as [|x l IH]; intros i H; cbn [length] in H; [lia|].
  destruct i as [|i]; [reflexivity|]. cbn [firstn nth skipn app]. f_equal. apply IH. lia. Qed.

(* the register after the flipped message = the register after the original message xor zero-steps of the polynomial *)
Lemma crc_flip bs i j : (i < length bs)%nat -> (j < 8)%nat ->
  Crc32.crc (flip bs i j) = N.lxor (Crc32.crc bs) (Crc.iter ((7 - j) + 8 * (length bs - 1 - i)) zstep poly).
Proof. intros Hi Hj.
  assert (Ebs: bs = firstn i bs ++ [nth i bs 0] ++ skipn (S i) bs) by (apply split_nth; exact Hi).
  set (pre := firstn i bs) in *. set (post := skipn (S i) bs) in *. set (x := nth i bs 0) in *.
  assert (Lpost: length post = (length bs - 1 - i)%nat) by (unfold post; rewrite skipn_length; lia).
  rewrite Ebs at 2. unfold Crc32.flip. fold pre post x.
  unfold Crc32.crc. rewrite !bits_of_app, !register_app.
  set (r := Crc32.register Crc32.init (Crc32.bits_of pre)).
  replace (Crc32.bits_of [N.lxor x (2 ^ (7 - N.of_nat j))]) with (Crc32.bits_of_byte (N.lxor x (2 ^ (7 - N.of_nat j))))
    by (unfold Crc32.bits_of; cbn [flat_map]; rewrite app_nil_r; reflexivity).
  replace (Crc32.bits_of [x]) with (Crc32.bits_of_byte x) by (unfold Crc32.bits_of; cbn [flat_map]; rewrite app_nil_r; reflexivity).
  rewrite bits_of_byte_lxor, bits_of_unit_byte by exact Hj.
  rewrite !register_dfold.
  rewrite <- (N.lxor_0_r r) at 1.
  rewrite dfold_lin by (rewrite app_length; cbn [length]; rewrite !repeat_length; unfold Crc32.bits_of_byte; cbn [length]; lia).
  rewrite dfold_unit.
  set (r1 := fold_left dstep (Crc32.bits_of_byte x) r). set (u := Crc.iter (7 - j) zstep poly).
  rewrite <- (zipx_false_r (Crc32.bits_of post)) at 1.
  rewrite dfold_lin by (rewrite repeat_length; reflexivity).
  rewrite dfold_zeros. f_equal. unfold u. rewrite iter_add. f_equal.
  assert (Lb: length (Crc32.bits_of post) = (8 * length post)%nat).
  { clear. induction post as [|y post IH]; [reflexivity|]. unfold Crc32.bits_of in *. cbn [flat_map].
    rewrite app_length, IH. cbn [length Crc32.bits_of_byte]. lia. }
  rewrite Lb, Lpost. reflexivity. Qed.

Theorem single_bit_error_changes_crc bs i j : (i < length bs)%nat -> (j < 8)%nat ->
  Crc32.crc (flip bs i j) <> Crc32.crc bs.
Proof. intros Hi Hj E. rewrite crc_flip in E by assumption. apply lxor_fix in E.
  exact (iter_poly_nonzero _ E). Qed.

(* a section that passes the receivers' check does not pass it after any single bit of it is flipped *)
Corollary single_bit_error_detected s i j : (i < length s)%nat -> (j < 8)%nat ->
  Crc32.residue_ok s -> ~ Crc32.residue_ok (flip s i j).
Proof. unfold Crc32.residue_ok. intros Hi Hj H0 H1.
  apply (single_bit_error_changes_crc s i j Hi Hj). rewrite H0, H1. reflexivity. Qed.
