(* C05, SCTE-35 part: totality of the decoder model on ARBITRARY bytes.
   fine r  = r is a value or a library error (no Panic, no Diverge);  nodiv r = r is not Diverge. *)
From Gots Require Import Base.Prelude Model.Pts Model.Scte Proofs.ScteLemmas.
Import Scte.
Local Open Scope N_scope.
Arguments N.mul : simpl never. Arguments N.add : simpl never. Arguments N.div : simpl never.
Arguments N.modulo : simpl never. Arguments N.land : simpl never. Arguments N.shiftr : simpl never.
Arguments N.sub : simpl never. Arguments N.ltb : simpl never. Arguments N.eqb : simpl never.
Arguments N.leb : simpl never.

Definition fine {A} (r : Res A) : Prop := match r with Ok _ | Err _ => True | _ => False end.
Definition nodiv {A} (r : Res A) : Prop := match r with Diverge => False | _ => True end.
Lemma fine_nodiv {A} (r : Res A) : fine r -> nodiv r.
Proof. destruct r; cbn; auto. Qed.
Lemma fine_bind {A B} (r : Res A) (f : A -> Res B) : fine r -> (forall a, r = Ok a -> fine (f a)) -> fine (bind r f).
Proof. destruct r; cbn; auto. Qed.
Lemma nodiv_bind {A B} (r : Res A) (f : A -> Res B) : nodiv r -> (forall a, r = Ok a -> nodiv (f a)) -> nodiv (bind r f).
Proof. destruct r; cbn; auto. Qed.
Lemma fine_spec {A} (r : Res A) : fine r <-> r <> Panic /\ r <> Diverge.
Proof. destruct r; cbn; split; intros H; try tauto; try (split; discriminate); destruct H; congruence. Qed.

(* ---- indexing inside a long enough list ---- *)
Lemma idx_ok l i : i < len l -> exists x, idx l i = Ok x.
Proof.
  intros H. unfold idx. destruct (nth_error l (N.to_nat i)) eqn:E; [eauto|].
  apply nth_error_None in E. unfold len in H. lia.
Qed.
Lemma uint40_ok d : 5 <= len d -> exists v, uint40 d = Ok v.
Proof.
  intros H. unfold uint40.
  destruct (idx_ok d 0 ltac:(lia)) as [x0 ->]. destruct (idx_ok d 1 ltac:(lia)) as [x1 ->].
  destruct (idx_ok d 2 ltac:(lia)) as [x2 ->]. destruct (idx_ok d 3 ltac:(lia)) as [x3 ->].
  destruct (idx_ok d 4 ltac:(lia)) as [x4 ->]. cbn [bind]. eauto.
Qed.
Lemma be32_of_ok d : 4 <= len d -> exists v, be32_of d = Ok v.
Proof.
  intros H. unfold be32_of.
  destruct (idx_ok d 3 ltac:(lia)) as [x3 ->]. destruct (idx_ok d 0 ltac:(lia)) as [x0 ->].
  destruct (idx_ok d 1 ltac:(lia)) as [x1 ->]. destruct (idx_ok d 2 ltac:(lia)) as [x2 ->]. cbn [bind]. eauto.
Qed.
Lemma be32_of_short d : len d < 4 -> be32_of d = Panic.
Proof.
  intros H. unfold be32_of, idx. destruct (nth_error d (N.to_nat 3)) eqn:E; [|reflexivity].
  assert (N.to_nat 3 < length d)%nat by (apply nth_error_Some; congruence). unfold len in H. lia.
Qed.
Lemma be16_of_ok d : 2 <= len d -> exists v, be16_of d = Ok v.
Proof.
  intros H. unfold be16_of.
  destruct (idx_ok d 1 ltac:(lia)) as [x1 ->]. destruct (idx_ok d 0 ltac:(lia)) as [x0 ->]. cbn [bind]. eauto.
Qed.

(* ---- buffer facts ---- *)
Lemma len_takeN {A} n (l : list A) : len (takeN n l) = N.min n (len l).
Proof. unfold len, takeN. rewrite firstn_length. lia. Qed.
Lemma len_dropN {A} n (l : list A) : len (dropN n l) = len l - n.
Proof. unfold len, dropN. rewrite skipn_length. lia. Qed.
Lemma next_len n b : len (fst (next n b)) = N.min n (blen b) /\ blen (snd (next n b)) = blen b - n.
Proof. unfold next, blen. cbn [fst snd rem]. rewrite len_takeN, len_dropN. auto. Qed.
Lemma rb0_len b : blen (snd (read_byte0 b)) = blen b - 1.
Proof. unfold read_byte0, read_byte, blen. destruct b as [[|x r] l]; cbn; unfold len; cbn [length]; lia. Qed.
Lemma rb_some b x b' : read_byte b = (Some x, b') -> blen b' = blen b - 1 /\ last b' = Some x /\ 1 <= blen b.
Proof.
  unfold read_byte, blen. destruct b as [[|y r] l]; cbn [rem]; intros H; inversion H; subst. cbn [rem last].
  unfold len. cbn [length]. repeat split; lia.
Qed.

(* ---- splice_time, components, splice_insert, command switch: never panic, never diverge ---- *)
Lemma parse_splice_time_fine b : exists r b', parse_splice_time b = Ok (r, b') /\ blen b' <= blen b.
Proof.
  unfold parse_splice_time. destruct (read_byte b) as [[x|] b1] eqn:E.
  - destruct (rb_some _ _ _ E) as (L1 & La & L0).
    destruct (negb (N.land x 128 =? 128)); [eexists; eexists; split; [reflexivity|lia]|].
    unfold unread_byte. rewrite La.
    set (b2 := mkbuf (x :: rem b1) None). assert (Hb2 : blen b2 = blen b) by (unfold b2, blen in *; cbn [rem]; rewrite len_cons; lia).
    destruct (N.ltb_spec (blen b2) 5); [eexists; eexists; split; [reflexivity|lia]|].
    destruct (next 5 b2) as [d b3] eqn:En. pose proof (next_len 5 b2) as [N1 N2]. rewrite En in N1, N2. cbn [fst snd] in N1, N2.
    destruct (uint40_ok d ltac:(lia)) as [v ->]. cbn [bind]. eexists; eexists; split; [reflexivity|lia].
  - eexists; eexists; split; [reflexivity|].
    unfold read_byte in E. destruct (rem b); inversion E; subst; unfold blen; cbn; lia.
Qed.

Lemma parse_time_signal_fine b : fine (parse_time_signal b).
Proof.
  unfold parse_time_signal. destruct (parse_splice_time_fine b) as ([[has pts] err] & b' & -> & _). cbn [bind].
  destruct (negb has); exact I.
Qed.

Lemma parse_components_fine cc imm : forall b acc, fine (parse_components cc imm b acc).
Proof.
  induction cc as [|k IH]; intros b acc; cbn [parse_components]; [exact I|].
  destruct (read_byte b) as [[tag|] b1]; [|exact I].
  destruct (negb imm); [|apply IH].
  destruct (parse_splice_time_fine b1) as ([[has pts] err] & b' & -> & _). cbn [bind].
  destruct err; [exact I|apply IH].
Qed.

Lemma parse_insert_fine b : fine (parse_insert b).
Proof.
  unfold parse_insert. destruct (next 5 b) as [base b1] eqn:En.
  pose proof (next_len 5 b) as [N1 _]. rewrite En in N1. cbn [fst] in N1.
  destruct (N.ltb_spec (len base) 5); [exact I|].
  destruct (be32_of_ok (takeN 4 base) ltac:(rewrite len_takeN; lia)) as [eid ->]. cbn [bind].
  destruct (idx_ok base 4 ltac:(lia)) as [f4 ->]. cbn [bind].
  destruct (N.land f4 128 =? 128); [exact I|].
  destruct (read_byte b1) as [[flags|] b2]; [|exact I].
  apply fine_bind.
  { destruct ((N.land flags 64 =? 64) && negb (N.land flags 16 =? 16)); [|exact I].
    destruct (parse_splice_time_fine b2) as ([[has pts] err] & b' & -> & _). cbn [bind].
    destruct err; [exact I|]. destruct (negb has); exact I. }
  intros [[haspts pts] b3] _. apply fine_bind.
  { destruct (negb (N.land flags 64 =? 64)); [|exact I].
    destruct (read_byte b3) as [[cc|] b4]; [|exact I]. apply parse_components_fine. }
  intros [comps b5] _. apply fine_bind.
  { destruct (N.land flags 32 =? 32); [|exact I].
    destruct (next 5 b5) as [d b6] eqn:En2. pose proof (next_len 5 b5) as [M1 _]. rewrite En2 in M1. cbn [fst] in M1.
    destruct (N.ltb_spec (len d) 5); [exact I|].
    destruct (idx_ok d 0 ltac:(lia)) as [d0 ->]. cbn [bind].
    destruct (uint40_ok d ltac:(lia)) as [v ->]. exact I. }
  intros [[auto dur] b7] _.
  destruct (next 4 b7) as [pi b8] eqn:En3. pose proof (next_len 4 b7) as [P1 _]. rewrite En3 in P1. cbn [fst] in P1.
  destruct (N.ltb_spec (len pi) 4); [exact I|].
  destruct (be16_of_ok (takeN 2 pi) ltac:(rewrite len_takeN; lia)) as [up ->]. cbn [bind].
  destruct (idx_ok pi 2 ltac:(lia)) as [an ->]. destruct (idx_ok pi 3 ltac:(lia)) as [ae ->]. exact I.
Qed.

Theorem parse_command_fine ct adj b : fine (parse_command ct adj b).
Proof.
  unfold parse_command. destruct ((ct =? TimeSignal) || (ct =? SpliceInsert)).
  - apply fine_bind.
    + destruct (ct =? TimeSignal); [apply parse_time_signal_fine|].
      apply fine_bind; [apply parse_insert_fine|]. intros [i b'] _. exact I.
    + intros [cmd b'] _. exact I.
  - destruct (ct =? SpliceNull); exact I.
Qed.

(* ---- MID loop: terminates within its fuel, never panics ---- *)
Lemma parse_mid_fine : forall fuel sul b acc, (N.to_nat sul < fuel)%nat -> fine (parse_mid fuel sul b acc).
Proof.
  induction fuel as [|fuel IH]; intros sul b acc Hf; [lia|]. cbn [parse_mid].
  destruct (N.eqb_spec sul 0); [exact I|].
  destruct (N.ltb_spec sul 2); cbn [orb]; [exact I|].
  destruct (blen b <? 2); [exact I|].
  destruct (read_byte0 b) as [ty b1]. destruct (read_byte0 b1) as [ul b2].
  destruct (N.ltb_spec (sul - 1 - 1) ul); cbn [orb]; [exact I|].
  destruct (blen b2 <? ul); [exact I|].
  destruct (next ul b2) as [u b3]. apply IH. lia.
Qed.

(* ---- segmentation descriptor components: enough bytes are guaranteed by the guard before the loop ---- *)
Lemma component_from_bytes_ok d : 6 <= len d -> exists c, component_from_bytes d = Ok c.
Proof.
  intros H. unfold component_from_bytes.
  destruct (idx_ok d 0 ltac:(lia)) as [x0 ->]. destruct (idx_ok d 1 ltac:(lia)) as [x1 ->].
  destruct (idx_ok d 2 ltac:(lia)) as [x2 ->]. destruct (idx_ok d 3 ltac:(lia)) as [x3 ->].
  destruct (idx_ok d 4 ltac:(lia)) as [x4 ->]. destruct (idx_ok d 5 ltac:(lia)) as [x5 ->]. cbn [bind]. eauto.
Qed.
Lemma parse_seg_components_ok : forall ct b acc, 6 * N.of_nat ct <= blen b ->
  exists cs b', parse_seg_components ct b acc = Ok (cs, b') /\ blen b' = blen b - 6 * N.of_nat ct.
Proof.
  induction ct as [|k IH]; intros b acc H; cbn [parse_seg_components].
  - eexists; eexists; split; [reflexivity|lia].
  - destruct (next 6 b) as [d b1] eqn:En. pose proof (next_len 6 b) as [N1 N2]. rewrite En in N1, N2. cbn [fst snd] in N1, N2.
    destruct (component_from_bytes_ok d ltac:(lia)) as [c ->]. cbn [bind].
    destruct (IH b1 (acc ++ [c]) ltac:(lia)) as (cs & b' & -> & Hl). eexists; eexists; split; [reflexivity|lia].
Qed.

(* ---- parseDescriptor (with the two length guards of 1ed5cb6): never panics, never diverges ---- *)
Theorem parse_descriptor_fine o data : fine (parse_descriptor o data).
Proof.
  unfold parse_descriptor, buf_new. rewrite blen_mk.
  destruct (N.ltb_spec (len data) 4) as [|H4]; [exact I|].
  destruct (next 4 (mkbuf data None)) as [idb b1] eqn:E1.
  pose proof (next_len 4 (mkbuf data None)) as [A1 A2]. rewrite E1 in A1, A2. cbn [fst snd] in A1, A2. rewrite blen_mk in A1, A2.
  destruct (be32_of_ok idb ltac:(lia)) as [id ->]. cbn [bind].
  destruct (negb (id =? segDescID)); [exact I|].
  destruct (N.ltb_spec (blen b1) 5) as [|H5]; [exact I|].
  destruct (next 4 b1) as [eb b2] eqn:E2. pose proof (next_len 4 b1) as [B1 B2]. rewrite E2 in B1, B2. cbn [fst snd] in B1, B2.
  destruct (be32_of_ok eb ltac:(lia)) as [eid ->]. cbn [bind].
  destruct (read_byte0 b2) as [c b3]. destruct (negb (N.land c 128 =? 0)); [exact I|].
  destruct (read_byte0 b3) as [flags b4].
  apply fine_bind.
  { destruct (negb (negb (N.land flags 128 =? 0))); [|exact I].
    destruct (read_byte0 b4) as [ct b5] eqn:E5.
    destruct (Z.ltb_spec (Z.of_N (blen b5) - 5) (Z.of_N ct * 6)); [exact I|].
    destruct (parse_seg_components_ok (N.to_nat ct) b5 [] ltac:(lia)) as (cs & b' & -> & _). exact I. }
  intros [comps b6] _. apply fine_bind.
  { destruct (negb (N.land flags 64 =? 0)); [|exact I].
    destruct (N.ltb_spec (blen b6) 10); [exact I|].
    destruct (next 5 b6) as [db b7] eqn:E7. pose proof (next_len 5 b6) as [C1 _]. rewrite E7 in C1. cbn [fst] in C1.
    destruct (idx_ok db 0 ltac:(lia)) as [d0 ->]. cbn [bind].
    destruct (be32_of_ok (dropN 1 db) ltac:(rewrite len_dropN; lia)) as [lo ->]. exact I. }
  intros [dur b8] _.
  destruct (read_byte0 b8) as [uty b9]. destruct (read_byte0 b9) as [sul b10].
  apply fine_bind.
  { destruct (uty =? SegUPIDMID).
    - apply fine_bind; [apply parse_mid_fine; lia|]. intros [m bb] _. exact I.
    - destruct (blen b10 <? sul + 3); [exact I|]. destruct (next sul b10). exact I. }
  intros [[u m] b11] _.
  destruct (read_byte0 b11) as [ty b12]. destruct (read_byte0 b12) as [sn b13]. destruct (read_byte0 b13) as [se b14].
  destruct ((0 <? blen b14) && ((ty =? 52) || (ty =? 54))); [|exact I].
  destruct (read_byte0 b14) as [ssn b15]. destruct (read_byte0 b15). exact I.
Qed.

(* ---- descriptor loop: terminates within its fuel for every input, never panics ---- *)
Lemma parse_desc_loop_fine : forall fuel owner dll br b other descs,
  (N.to_nat (dll - br) < fuel)%nat -> fine (parse_desc_loop fuel owner dll br b other descs).
Proof.
  induction fuel as [|fuel IH]; intros owner dll br b other descs Hf; [lia|]. cbn [parse_desc_loop].
  destruct (N.ltb_spec br dll); cbn [negb]; [|exact I].
  destruct (read_byte0 b) as [tag b1]. destruct (read_byte0 b1) as [dl b2].
  destruct (Z.ltb_spec (Z.of_N dll - Z.of_N br - 2) (Z.of_N dl)); [exact I|].
  destruct (negb (tag =? segDescTag)); destruct (next dl b2) as [body b3].
  - apply IH. lia.
  - apply fine_bind; [apply parse_descriptor_fine|]. intros d _. apply IH. lia.
Qed.

(* ---- the whole decoder, stated parametrically in the descriptor loop ---- *)
Definition loop_t := nat -> N -> N -> N -> buf -> bytes -> list segdesc -> Res (bytes * list segdesc * buf).
Definition parse_descriptors_with (loop : loop_t) (sid : N) (data : bytes) (b : buf) : Res (bytes * list segdesc) :=
  if blen b <? 6 then Err E.InvalidSCTE35Length else
  let (lb, b) := next 2 b in
  let? dll := be16_of lb in
  if blen b <? dll + 4 then Err E.InvalidSCTE35Length else
  let? rl := loop (S (length data)) sid dll 0 b [] [] in
  let '(other, descs, _) := rl in Ok (other, descs).
Definition parse_table_with (loop : loop_t) (sid : N) (data : bytes) : Res scte :=
  let pf := pointer_field data in
  if len data <? w16 (pf + 4 + 15) then Err E.InvalidSCTE35Length else
  let b := buf_new data in
  let (_, b) := next (w8 (pf + 1)) b in
  let (hb, b) := next 3 b in
  let? th := table_header_from_bytes hb in
  let '(tid, ssi, pi, slen) := th in
  if negb (tid =? 252) then Err E.UnknownTableID else
  let (pv, b) := read_byte0 b in
  let (f, b) := read_byte0 b in
  if negb (N.land f 128 =? 0) then Err E.SCTE35EncryptionUnsupported else
  let? b := unread_byte b in
  let (f2, b) := read_byte0 b in
  let encalg := N.land (N.shiftr f2 1) 63 in
  let? b := unread_byte b in
  let (ab, b) := next 5 b in
  let? adj0 := uint40 ab in
  let adj := N.land adj0 M33 in
  let (cw, b) := read_byte0 b in
  let (tb, b) := next 3 b in
  let? t0 := idx tb 0 in let? t1 := idx tb 1 in let? t2 := idx tb 2 in
  let tier := t0 * 16 + N.shiftr (N.land t1 240) 4 in
  let scl := N.land t1 15 * 256 + t2 in
  let (ct, b) := read_byte0 b in
  let? r := parse_command ct adj b in
  let '(pts, cmd, b) := r in
  let? od := parse_descriptors_with loop sid data b in
  let (other, descs) := od in
  let? dat := slice_from data (w8 (pf + 1)) in
  Ok (mkscte sid tid ssi pi slen pv false encalg pts cw tier scl ct cmd descs 0 dat other).
Lemma parse_table_is sid data : parse_table sid data = parse_table_with parse_desc_loop sid data.
Proof. reflexivity. Qed.

Lemma rb0_nonempty b : 1 <= blen b -> exists x b', read_byte0 b = (x, b') /\ last b' = Some x /\ blen b' = blen b - 1 /\ rem b = x :: rem b'.
Proof.
  destruct b as [[|x r] l]; unfold blen; cbn [rem]; intros H; [unfold len in H; cbn in H; lia|].
  exists x, (mkbuf r (Some x)). rewrite len_cons. cbn [rem last]. repeat split; try reflexivity. lia.
Qed.
Lemma unread_ok b x : last b = Some x -> unread_byte b = Ok (mkbuf (x :: rem b) None).
Proof. unfold unread_byte. intros ->. reflexivity. Qed.

(* parsers only consume: oks n r = r is a value whose remaining buffer has at most n bytes, or a library error *)
Definition oks {A} (n : N) (r : Res (A * buf)) : Prop :=
  match r with Ok (_, b') => blen b' <= n | Err _ => True | _ => False end.
Lemma oks_fine {A} n (r : Res (A * buf)) : oks n r -> fine r.
Proof. destruct r as [[a b]| | |]; cbn; auto. Qed.
Lemma oks_bind {A B} n (r : Res (A * buf)) (f : A * buf -> Res (B * buf)) :
  oks n r -> (forall a b1, blen b1 <= n -> oks n (f (a, b1))) -> oks n (bind r f).
Proof. destruct r as [[a b]| | |]; cbn; auto. Qed.
Lemma rb_len b o b' : read_byte b = (o, b') -> blen b' <= blen b.
Proof.
  unfold read_byte, blen. destruct b as [[|y r] l]; cbn [rem]; intros H; inversion H; subst; cbn [rem]; rewrite ?len_cons; lia.
Qed.
Lemma next_shrinks n b d b' : next n b = (d, b') -> blen b' <= blen b.
Proof. intros H. pose proof (next_len n b) as [_ A]. rewrite H in A. cbn [snd] in A. lia. Qed.

Lemma parse_components_oks cc imm : forall n b acc, blen b <= n -> oks n (parse_components cc imm b acc).
Proof.
  induction cc as [|k IH]; intros n b acc Hb; cbn [parse_components]; [exact Hb|].
  destruct (read_byte b) as [[tag|] b1] eqn:E; [|exact I]. apply rb_len in E.
  destruct (negb imm); [|apply IH; lia].
  destruct (parse_splice_time_fine b1) as ([[has pts] err] & b2 & -> & L2). cbn [bind].
  destruct err; [exact I|apply IH; lia].
Qed.

Lemma parse_insert_oks n b : blen b <= n -> oks n (parse_insert b).
Proof.
  intros Hb. unfold parse_insert. destruct (next 5 b) as [base b1] eqn:En.
  pose proof (next_len 5 b) as [N1 _]. rewrite En in N1. cbn [fst] in N1. apply next_shrinks in En.
  destruct (N.ltb_spec (len base) 5); [exact I|].
  destruct (be32_of_ok (takeN 4 base) ltac:(rewrite len_takeN; lia)) as [eid ->]. cbn [bind].
  destruct (idx_ok base 4 ltac:(lia)) as [f4 ->]. cbn [bind].
  destruct (N.land f4 128 =? 128); [cbn; lia|].
  destruct (read_byte b1) as [[flags|] b2] eqn:E2; [|exact I]. apply rb_len in E2.
  apply (oks_bind n (A := bool * N)).
  { destruct ((N.land flags 64 =? 64) && negb (N.land flags 16 =? 16)); [|cbn; lia].
    destruct (parse_splice_time_fine b2) as ([[has pts] err] & b' & -> & L). cbn [bind].
    destruct err; [exact I|]. destruct (negb has); [exact I|cbn; lia]. }
  intros [haspts pts] b3 H3. apply (oks_bind n (A := list component)).
  { destruct (negb (N.land flags 64 =? 64)); [|exact H3].
    destruct (read_byte b3) as [[cc|] b4] eqn:E4; [|exact I]. apply rb_len in E4. apply parse_components_oks. lia. }
  intros comps b5 H5. apply (oks_bind n (A := bool * N)).
  { destruct (N.land flags 32 =? 32); [|exact H5].
    destruct (next 5 b5) as [d b6] eqn:En2. pose proof (next_len 5 b5) as [M1 _]. rewrite En2 in M1. cbn [fst] in M1.
    apply next_shrinks in En2.
    destruct (N.ltb_spec (len d) 5); [exact I|].
    destruct (idx_ok d 0 ltac:(lia)) as [d0 ->]. cbn [bind].
    destruct (uint40_ok d ltac:(lia)) as [v ->]. cbn. lia. }
  intros [auto dur] b7 H7.
  destruct (next 4 b7) as [pi b8] eqn:En3. pose proof (next_len 4 b7) as [P1 _]. rewrite En3 in P1. cbn [fst] in P1.
  apply next_shrinks in En3.
  destruct (N.ltb_spec (len pi) 4); [exact I|].
  destruct (be16_of_ok (takeN 2 pi) ltac:(rewrite len_takeN; lia)) as [up ->]. cbn [bind].
  destruct (idx_ok pi 2 ltac:(lia)) as [an ->]. destruct (idx_ok pi 3 ltac:(lia)) as [ae ->]. cbn. lia.
Qed.

Lemma parse_command_oks ct adj n b : blen b <= n -> oks n (parse_command ct adj b).
Proof.
  intros Hb. unfold parse_command. destruct ((ct =? TimeSignal) || (ct =? SpliceInsert)).
  - apply (oks_bind n (A := command)).
    + destruct (ct =? TimeSignal).
      * unfold parse_time_signal. destruct (parse_splice_time_fine b) as ([[has pts] err] & b' & -> & L). cbn [bind].
        destruct (negb has); [exact I|cbn; lia].
      * apply (oks_bind n (A := insert)); [apply parse_insert_oks; exact Hb|]. intros i b' H'. exact H'.
    + intros cmd b' H'. exact H'.
  - destruct (ct =? SpliceNull); [exact Hb|exact I].
Qed.

Section Whole.
Variable P : forall A, Res A -> Prop.
Hypothesis P_ok : forall A (a : A), P A (Ok a).
Hypothesis P_err : forall A e, P A (Err e).
Hypothesis P_bind : forall A B (r : Res A) (f : A -> Res B), P A r -> (forall a, r = Ok a -> P B (f a)) -> P B (bind r f).
Variable loop : loop_t.
Hypothesis loop_P : forall fuel owner dll br b other descs,
  (N.to_nat (dll - br) < fuel)%nat -> P _ (loop fuel owner dll br b other descs).

Lemma parse_descriptors_with_P sid data b : blen b <= len data -> P _ (parse_descriptors_with loop sid data b).
Proof.
  intros Hb. unfold parse_descriptors_with. destruct (N.ltb_spec (blen b) 6); [apply P_err|].
  destruct (next 2 b) as [lb b1] eqn:En. pose proof (next_len 2 b) as [N1 N2]. rewrite En in N1, N2. cbn [fst snd] in N1, N2.
  destruct (be16_of_ok lb ltac:(lia)) as [dll ->]. cbn [bind].
  destruct (N.ltb_spec (blen b1) (dll + 4)); [apply P_err|].
  apply P_bind; [apply loop_P; unfold len in Hb; lia|]. intros [[other descs] b'] _. apply P_ok.
Qed.

Theorem parse_table_with_P sid data : is_bytes data -> P _ (parse_table_with loop sid data).
Proof.
  intros Hbytes. unfold parse_table_with. set (pf := pointer_field data).
  assert (Hpf : pf < 256).
  { unfold pf, pointer_field. destruct data as [|x r]; [lia|]. inversion Hbytes; assumption. }
  unfold w16, w8. rewrite (N.mod_small (pf + 4 + 15)) by lia.
  destruct (N.ltb_spec (len data) (pf + 4 + 15)) as [|Hlen]; [apply P_err|].
  unfold buf_new.
  destruct (next ((pf + 1) mod 256) (mkbuf data None)) as [skipped b0] eqn:E0.
  pose proof (next_len ((pf + 1) mod 256) (mkbuf data None)) as [_ A0]. rewrite E0 in A0. cbn [snd] in A0. rewrite blen_mk in A0.
  assert (Hw : (pf + 1) mod 256 <= pf + 1) by lia.
  destruct (next 3 b0) as [hb b1] eqn:E1. pose proof (next_len 3 b0) as [A1 A1']. rewrite E1 in A1, A1'. cbn [fst snd] in A1, A1'.
  unfold table_header_from_bytes. destruct (N.ltb_spec (len hb) 3); [lia|].
  destruct (idx_ok hb 0 ltac:(lia)) as [tid ->]. destruct (idx_ok hb 1 ltac:(lia)) as [h1 ->].
  destruct (idx_ok hb 2 ltac:(lia)) as [h2 ->]. cbn [bind].
  destruct (negb (tid =? 252)); [apply P_err|].
  destruct (rb0_nonempty b1 ltac:(lia)) as (pv & b2 & -> & _ & L2 & _).
  destruct (rb0_nonempty b2 ltac:(lia)) as (f & b3 & -> & La3 & L3 & _).
  destruct (negb (N.land f 128 =? 0)); [apply P_err|].
  rewrite (unread_ok b3 f La3). cbn [bind]. rewrite rb0. rewrite unread_some. cbn [bind].
  destruct (next 5 (mkbuf (f :: rem b3) None)) as [ab b5] eqn:E5.
  pose proof (next_len 5 (mkbuf (f :: rem b3) None)) as [A5 A5']. rewrite E5 in A5, A5'. cbn [fst snd] in A5, A5'.
  rewrite blen_mk, len_cons in A5, A5'. fold (blen b3) in A5, A5'.
  destruct (uint40_ok ab ltac:(lia)) as [adj0 ->]. cbn [bind].
  destruct (rb0_nonempty b5 ltac:(lia)) as (cw & b6 & -> & _ & L6 & _).
  destruct (next 3 b6) as [tb b7] eqn:E7. pose proof (next_len 3 b6) as [A7 A7']. rewrite E7 in A7, A7'. cbn [fst snd] in A7, A7'.
  destruct (idx_ok tb 0 ltac:(lia)) as [t0 ->]. destruct (idx_ok tb 1 ltac:(lia)) as [t1 ->].
  destruct (idx_ok tb 2 ltac:(lia)) as [t2 ->]. cbn [bind].
  destruct (rb0_nonempty b7 ltac:(lia)) as (ct & b8 & -> & _ & L8 & _).
  pose proof (parse_command_oks ct (N.land adj0 M33) (len data) b8 ltac:(lia)) as Hc.
  destruct (parse_command ct (N.land adj0 M33) b8) as [[[pts cmd] b9]| | |]; cbn in Hc; try contradiction; cbn [bind]; [|apply P_err].
  apply P_bind; [apply parse_descriptors_with_P; exact Hc|]. intros [other descs] _.
  unfold slice_from, slice. replace (((pf + 1) mod 256 <=? len data) && (len data <=? len data)) with true
    by (symmetry; apply andb_true_iff; split; apply N.leb_le; lia).
  cbn [bind]. apply P_ok.
Qed.
End Whole.

(* ---- result: the decoder neither panics nor fails to terminate, on any byte string ---- *)
Theorem new_scte35_total data : is_bytes data -> fine (new_scte35 data).
Proof.
  intros H. unfold new_scte35. rewrite parse_table_is.
  apply (parse_table_with_P (@fine)); auto.
  - intros A a. exact I.
  - intros A e. exact I.
  - intros A B r f. apply fine_bind.
  - intros. apply parse_desc_loop_fine. assumption.
Qed.
Corollary new_scte35_nodiv data : is_bytes data -> nodiv (new_scte35 data).
Proof. intros H. apply fine_nodiv, new_scte35_total, H. Qed.

(* the inputs that panicked before 1ed5cb6 (tag-2 descriptors shorter than identifier + event id + indicator) *)
Definition short_desc_0 : bytes := [0;252;48;19;0;0;0;0;0;0;0;255;240;0;0;0;2;2;0;0;0;0;0].
Definition short_desc_4 : bytes := [0;252;48;23;0;0;0;0;0;0;0;255;240;0;0;0;6;2;4;67;85;69;73;0;0;0;0].
Example short_desc_now_errors :
  new_scte35 short_desc_0 = Err E.InvalidSCTE35Length /\ new_scte35 short_desc_4 = Err E.InvalidSCTE35Length.
Proof. vm_compute. split; reflexivity. Qed.
(* an object returned without error can be re-encoded without panicking: ScteEnc.update_data is a total function
   (bytes * scte, not Res), every copy() of UpdateData fits by construction (comment in Model/ScteEnc.v). *)

Print Assumptions new_scte35_total.
Print Assumptions parse_descriptor_fine.
Print Assumptions parse_command_fine.
