(* C09: every signal the decoder returns on a byte string has the value-width invariant wid_sig (each field is read from
   that many bits), so the closure theorems apply to histories that START FROM ANY DECODED SIGNAL. *)
From Gots Require Import Base.Prelude Model.Pts Model.Scte Model.ScteEnc Spec.Scte35Spec
  Proofs.ScteLemmas Proofs.ScteExpected Proofs.ScteLogical Proofs.ScteEncode Proofs.ScteSetters Proofs.ScteNormalB
  Proofs.ScteClosure Proofs.ScteTotal.
Import Scte ScteEnc Scte35Spec.
Local Open Scope N_scope.
Arguments N.mul : simpl never. Arguments N.add : simpl never. Arguments N.div : simpl never.
Arguments N.modulo : simpl never. Arguments N.land : simpl never. Arguments N.shiftr : simpl never.
Arguments N.sub : simpl never. Arguments N.ltb : simpl never. Arguments N.eqb : simpl never.
Arguments N.leb : simpl never.

(* ---- buffers over bytes ---- *)
Definition okbuf (b : buf) : Prop := is_bytes (rem b) /\ match last b with Some x => x < 256 | None => True end.
Definition post {A} (P : A -> buf -> Prop) (r : Res (A * buf)) : Prop :=
  match r with Ok (a, b) => P a b | _ => True end.
Definition post1 {A} (P : A -> Prop) (r : Res A) : Prop := match r with Ok a => P a | _ => True end.
Lemma post_bind {A B} (Q : A -> buf -> Prop) (P : B -> buf -> Prop) (r : Res (A * buf)) (f : A * buf -> Res (B * buf)) :
  post Q r -> (forall a b, Q a b -> post P (f (a, b))) -> post P (bind r f).
Proof. destruct r as [[a b]| | |]; cbn; auto. Qed.
Lemma post1_bind {A B} (Q : A -> Prop) (P : B -> Prop) (r : Res A) (f : A -> Res B) :
  post1 Q r -> (forall a, Q a -> post1 P (f a)) -> post1 P (bind r f).
Proof. destruct r; cbn; auto. Qed.

Lemma is_bytes_split n l : is_bytes l -> is_bytes (firstn n l) /\ is_bytes (skipn n l).
Proof. unfold is_bytes. intros H. rewrite <- (firstn_skipn n l) in H. apply Forall_app in H. exact H. Qed.
Lemma last_byte d : is_bytes d -> List.last d 0 < 256.
Proof.
  induction d as [|x [|y d] IH]; intros H; cbn [List.last]; [lia|inversion H; assumption|].
  apply IH. inversion H; assumption.
Qed.
Lemma okbuf_new d : is_bytes d -> okbuf (buf_new d).
Proof. intros H. split; [exact H|exact I]. Qed.
Lemma okbuf_next n b : okbuf b -> is_bytes (fst (next n b)) /\ okbuf (snd (next n b)).
Proof.
  intros [H _]. unfold next, takeN, dropN. cbn [fst snd]. destruct (is_bytes_split (N.to_nat n) (rem b) H) as [A B].
  split; [exact A|]. split; [exact B|]. cbn [last]. pose proof (last_byte _ A) as L.
  destruct (firstn (N.to_nat n) (rem b)); [exact I|exact L].
Qed.
Lemma okbuf_rb0 b : okbuf b -> fst (read_byte0 b) < 256 /\ okbuf (snd (read_byte0 b)).
Proof.
  intros [H _]. unfold read_byte0, read_byte. destruct b as [[|x r] l]; cbn [rem fst snd] in *.
  - split; [lia|]. split; [constructor|exact I].
  - inversion H; subst. split; [assumption|]. split; assumption.
Qed.
Lemma okbuf_rb b x b' : okbuf b -> read_byte b = (Some x, b') -> x < 256 /\ okbuf b'.
Proof.
  intros [H _]. unfold read_byte. destruct b as [[|y r] l]; cbn [rem] in *; intros E; inversion E; subst.
  inversion H; subst. split; [assumption|]. split; assumption.
Qed.
Lemma okbuf_rb_none b b' : okbuf b -> read_byte b = (None, b') -> okbuf b'.
Proof. intros _. unfold read_byte. destruct (rem b); intros E; inversion E. split; [constructor|exact I]. Qed.
Lemma okbuf_unread b b' : okbuf b -> unread_byte b = Ok b' -> okbuf b'.
Proof.
  intros [H L]. unfold unread_byte. destruct (last b) as [x|]; intros E; inversion E. split; [|exact I].
  cbn [rem]. constructor; assumption.
Qed.

Lemma idx_byte d i x : is_bytes d -> idx d i = Ok x -> x < 256.
Proof.
  unfold idx, is_bytes. intros H. destruct (nth_error d (N.to_nat i)) eqn:E; intros E'; inversion E'; subst.
  apply nth_error_In in E. rewrite Forall_forall in H. apply H. exact E.
Qed.
Lemma be32_of_lt d v : is_bytes d -> be32_of d = Ok v -> v < 4294967296.
Proof.
  intros H. unfold be32_of.
  destruct (idx d 3) as [b3| | |] eqn:E3; cbn [bind]; try discriminate.
  destruct (idx d 0) as [b0| | |] eqn:E0; cbn [bind]; try discriminate.
  destruct (idx d 1) as [b1| | |] eqn:E1; cbn [bind]; try discriminate.
  destruct (idx d 2) as [b2| | |] eqn:E2; cbn [bind]; try discriminate.
  intros E; inversion E; subst.
  pose proof (idx_byte _ _ _ H E0). pose proof (idx_byte _ _ _ H E1). pose proof (idx_byte _ _ _ H E2). pose proof (idx_byte _ _ _ H E3).
  unfold be32. lia.
Qed.
Lemma be16_of_lt d v : is_bytes d -> be16_of d = Ok v -> v < 65536.
Proof.
  intros H. unfold be16_of.
  destruct (idx d 1) as [b1| | |] eqn:E1; cbn [bind]; try discriminate.
  destruct (idx d 0) as [b0| | |] eqn:E0; cbn [bind]; try discriminate.
  intros E; inversion E; subst.
  pose proof (idx_byte _ _ _ H E0). pose proof (idx_byte _ _ _ H E1). unfold be16. lia.
Qed.
Lemma landM33_lt v : N.land v M33 < 8589934592.
Proof. rewrite landM33. apply N.mod_lt. discriminate. Qed.
Lemma is_bytes_takeN n l : is_bytes l -> is_bytes (takeN n l).
Proof. intros H. apply (is_bytes_split (N.to_nat n) l H). Qed.
Lemma is_bytes_dropN n l : is_bytes l -> is_bytes (dropN n l).
Proof. intros H. apply (is_bytes_split (N.to_nat n) l H). Qed.

(* ---- splice_time, components, splice_insert, command ---- *)
Lemma pst_post b : okbuf b -> post (fun r b' => snd (fst r) < 8589934592 /\ okbuf b') (parse_splice_time b).
Proof.
  intros Hb. unfold parse_splice_time. destruct (read_byte b) as [[x|] b1] eqn:E.
  - destruct (okbuf_rb _ _ _ Hb E) as [Hx Hb1].
    destruct (negb (N.land x 128 =? 128)); [cbn; split; [lia|exact Hb1]|].
    destruct (unread_byte b1) as [b2| | |] eqn:Eu; try exact I; [|cbn; split; [lia|exact Hb1]].
    pose proof (okbuf_unread _ _ Hb1 Eu) as Hb2.
    destruct (blen b2 <? 5); [cbn; split; [lia|exact Hb2]|].
    destruct (next 5 b2) as [d b3] eqn:En. pose proof (okbuf_next 5 b2 Hb2) as [_ Hb3]. rewrite En in Hb3. cbn [snd] in Hb3.
    destruct (uint40 d); cbn [bind]; try exact I. cbn. split; [apply landM33_lt|exact Hb3].
  - cbn. split; [lia|]. eapply okbuf_rb_none; eauto.
Qed.

Lemma pcomps_post cc imm : forall b acc, okbuf b -> Forall wid_comp acc ->
  post (fun cs b' => Forall wid_comp cs /\ okbuf b') (parse_components cc imm b acc).
Proof.
  induction cc as [|k IH]; intros b acc Hb Ha; cbn [parse_components]; [cbn; auto|].
  destruct (read_byte b) as [[tag|] b1] eqn:E; [|exact I]. destruct (okbuf_rb _ _ _ Hb E) as [Ht Hb1].
  destruct (negb imm).
  - pose proof (pst_post b1 Hb1) as P. destruct (parse_splice_time b1) as [[[[has pts] err] b2]| | |]; cbn [bind post] in *; try exact I.
    cbn [fst snd] in P. destruct P as [Hp Hb2]. destruct err; [exact I|].
    apply IH; [exact Hb2|]. apply Forall_app. split; [exact Ha|]. constructor; [|constructor]. split; assumption.
  - apply IH; [exact Hb1|]. apply Forall_app. split; [exact Ha|]. constructor; [|constructor]. split; [assumption|cbn; lia].
Qed.

Lemma pinsert_post b : okbuf b -> post (fun i b' => wid_ins i /\ okbuf b') (parse_insert b).
Proof.
  intros Hb. unfold parse_insert. destruct (next 5 b) as [base b1] eqn:En.
  pose proof (okbuf_next 5 b Hb) as [Hbase Hb1]. rewrite En in Hbase, Hb1. cbn [fst snd] in Hbase, Hb1.
  destruct (len base <? 5); [exact I|].
  destruct (be32_of (takeN 4 base)) as [eid| | |] eqn:Ee; cbn [bind]; try exact I.
  pose proof (be32_of_lt _ _ (is_bytes_takeN 4 base Hbase) Ee) as Heid.
  destruct (idx base 4) as [f4| | |]; cbn [bind]; try exact I.
  destruct (N.land f4 128 =? 128).
  { cbn. split; [|exact Hb1]. unfold wid_ins. cbn. repeat split; try lia; try assumption. constructor. }
  destruct (read_byte b1) as [[flags|] b2] eqn:E2; [|exact I]. destruct (okbuf_rb _ _ _ Hb1 E2) as [_ Hb2].
  apply (post_bind (fun r b' => snd r < 8589934592 /\ okbuf b')).
  { destruct ((N.land flags 64 =? 64) && negb (N.land flags 16 =? 16)); [|cbn; split; [lia|exact Hb2]].
    pose proof (pst_post b2 Hb2) as P. destruct (parse_splice_time b2) as [[[[has pts] err] b3]| | |]; cbn [bind post] in *; try exact I.
    cbn [fst snd] in P. destruct err; [exact I|]. destruct (negb has); [exact I|]. cbn. exact P. }
  intros [haspts pts] b3 [Hpts Hb3]. cbn [snd] in Hpts.
  apply (post_bind (fun cs b' => Forall wid_comp cs /\ okbuf b')).
  { destruct (negb (N.land flags 64 =? 64)); [|cbn; split; [constructor|exact Hb3]].
    destruct (read_byte b3) as [[cc|] b4] eqn:E4; [|exact I]. destruct (okbuf_rb _ _ _ Hb3 E4) as [_ Hb4].
    apply pcomps_post; [exact Hb4|constructor]. }
  intros comps b5 [Hcomps Hb5].
  apply (post_bind (fun r b' => snd r < 8589934592 /\ okbuf b')).
  { destruct (N.land flags 32 =? 32); [|cbn; split; [lia|exact Hb5]].
    destruct (next 5 b5) as [d b6] eqn:En2. pose proof (okbuf_next 5 b5 Hb5) as [_ Hb6]. rewrite En2 in Hb6. cbn [snd] in Hb6.
    destruct (len d <? 5); [exact I|].
    destruct (idx d 0); cbn [bind]; try exact I. destruct (uint40 d); cbn [bind]; try exact I.
    cbn. split; [apply landM33_lt|exact Hb6]. }
  intros [auto dur] b7 [Hdur Hb7]. cbn [snd] in Hdur.
  destruct (next 4 b7) as [pi b8] eqn:En3. pose proof (okbuf_next 4 b7 Hb7) as [Hpi Hb8]. rewrite En3 in Hpi, Hb8. cbn [fst snd] in Hpi, Hb8.
  destruct (len pi <? 4); [exact I|].
  destruct (be16_of (takeN 2 pi)) as [up| | |] eqn:Eu; cbn [bind]; try exact I.
  pose proof (be16_of_lt _ _ (is_bytes_takeN 2 pi Hpi) Eu) as Hup.
  destruct (idx pi 2) as [an| | |] eqn:Ean; cbn [bind]; try exact I.
  destruct (idx pi 3) as [ae| | |] eqn:Eae; cbn [bind]; try exact I.
  pose proof (idx_byte _ _ _ Hpi Ean). pose proof (idx_byte _ _ _ Hpi Eae).
  cbn. split; [|exact Hb8]. unfold wid_ins. cbn. repeat split; assumption.
Qed.

Lemma pts_add_lt p x : Pts.add p x < 8589934592.
Proof. unfold Pts.add. change Pts.MaxPtsValue with (N.ones 33). rewrite N.land_ones. apply N.mod_lt. discriminate. Qed.

Lemma pcommand_post ct adj b : okbuf b -> adj < 8589934592 ->
  post (fun r b' => fst r < 8589934592 /\ wid_cmd (snd r) /\ ct = cmd_type (snd r) /\ okbuf b') (parse_command ct adj b).
Proof.
  intros Hb Hadj. unfold parse_command.
  destruct (N.eqb_spec ct Scte.TimeSignal) as [E6|E6]; cbn [orb].
  - apply (post_bind (fun c b' => wid_cmd c /\ ct = cmd_type c /\ okbuf b')).
    + unfold parse_time_signal. pose proof (pst_post b Hb) as P.
      destruct (parse_splice_time b) as [[[[has pts] err] b1]| | |]; cbn [bind post] in *; try exact I.
      cbn [fst snd] in P. destruct (negb has); [exact I|]. cbn. destruct P. auto.
    + intros c b' (A & B & C). cbn. split; [apply pts_add_lt|auto].
  - destruct (N.eqb_spec ct Scte.SpliceInsert) as [E5|E5].
    + apply (post_bind (fun c b' => wid_cmd c /\ ct = cmd_type c /\ okbuf b')).
      * apply (post_bind (fun i b' => wid_ins i /\ okbuf b')); [apply pinsert_post; exact Hb|].
        intros i b' [A B]. cbn. auto.
      * intros c b' (A & B & C). cbn. split; [apply pts_add_lt|auto].
    + destruct (N.eqb_spec ct Scte.SpliceNull) as [E0|E0]; [|exact I]. cbn. auto.
Qed.

(* ---- segmentation descriptor ---- *)
Lemma cfb_post d c : is_bytes d -> component_from_bytes d = Ok c -> co_tag c < 256 /\ co_off c < 8589934592.
Proof.
  intros H. unfold component_from_bytes.
  destruct (idx d 0) as [b0| | |] eqn:E0; cbn [bind]; try discriminate.
  destruct (idx d 1) as [b1| | |] eqn:E1; cbn [bind]; try discriminate.
  destruct (idx d 2) as [b2| | |] eqn:E2; cbn [bind]; try discriminate.
  destruct (idx d 3) as [b3| | |] eqn:E3; cbn [bind]; try discriminate.
  destruct (idx d 4) as [b4| | |] eqn:E4; cbn [bind]; try discriminate.
  destruct (idx d 5) as [b5| | |] eqn:E5; cbn [bind]; try discriminate.
  intros E; inversion E; subst. cbn [co_tag co_off].
  pose proof (idx_byte _ _ _ H E0). pose proof (idx_byte _ _ _ H E1). pose proof (idx_byte _ _ _ H E2).
  pose proof (idx_byte _ _ _ H E3). pose proof (idx_byte _ _ _ H E4). pose proof (idx_byte _ _ _ H E5).
  split; [assumption|]. rewrite land1 by assumption. unfold be32. lia.
Qed.
Lemma psegcomps_post ct : forall b acc, okbuf b -> Forall (fun c => co_tag c < 256 /\ co_off c < 8589934592) acc ->
  post (fun cs b' => Forall (fun c => co_tag c < 256 /\ co_off c < 8589934592) cs /\ okbuf b') (parse_seg_components ct b acc).
Proof.
  induction ct as [|k IH]; intros b acc Hb Ha; cbn [parse_seg_components]; [cbn; auto|].
  destruct (next 6 b) as [d b1] eqn:En. pose proof (okbuf_next 6 b Hb) as [Hd Hb1]. rewrite En in Hd, Hb1. cbn [fst snd] in Hd, Hb1.
  destruct (component_from_bytes d) as [c| | |] eqn:Ec; cbn [bind]; try exact I.
  apply IH; [exact Hb1|]. apply Forall_app. split; [exact Ha|]. constructor; [|constructor]. eapply cfb_post; eauto.
Qed.
Lemma pmid_post : forall fuel sul b acc, okbuf b -> Forall wid_mid acc ->
  post (fun m b' => Forall wid_mid m /\ okbuf b') (parse_mid fuel sul b acc).
Proof.
  induction fuel as [|fuel IH]; intros sul b acc Hb Ha; cbn [parse_mid]; [exact I|].
  destruct (sul =? 0); [cbn; auto|].
  destruct ((sul <? 2) || (blen b <? 2)); [exact I|].
  destruct (read_byte0 b) as [ty b1] eqn:E1. pose proof (okbuf_rb0 b Hb) as [Hty Hb1]. rewrite E1 in Hty, Hb1. cbn [fst snd] in Hty, Hb1.
  destruct (read_byte0 b1) as [ul b2] eqn:E2. pose proof (okbuf_rb0 b1 Hb1) as [Hul Hb2]. rewrite E2 in Hul, Hb2. cbn [fst snd] in Hul, Hb2.
  destruct (sul - 1 - 1 <? ul); cbn [orb]; [exact I|].
  destruct (N.ltb_spec (blen b2) ul) as [|Hge]; [exact I|].
  destruct (next ul b2) as [u b3] eqn:E3. pose proof (okbuf_next ul b2 Hb2) as [Hu Hb3]. rewrite E3 in Hu, Hb3. cbn [fst snd] in Hu, Hb3.
  pose proof (next_len ul b2) as [Lu _]. rewrite E3 in Lu. cbn [fst] in Lu.
  apply IH; [exact Hb3|]. apply Forall_app. split; [exact Ha|]. constructor; [|constructor].
  unfold wid_mid. cbn [u_type u_len u_upid]. repeat split; try assumption. lia.
Qed.

Lemma pdescriptor_post o data : is_bytes data -> post1 wid_desc (parse_descriptor o data).
Proof.
  intros Hdata. unfold parse_descriptor. pose proof (okbuf_new data Hdata) as Hb0.
  destruct (blen (buf_new data) <? 4); [exact I|].
  destruct (next 4 (buf_new data)) as [idb b1] eqn:E1. pose proof (okbuf_next 4 _ Hb0) as [Hidb Hb1]. rewrite E1 in Hidb, Hb1. cbn [fst snd] in Hidb, Hb1.
  destruct (be32_of idb) as [id| | |]; cbn [bind]; try exact I.
  destruct (negb (id =? segDescID)); [exact I|].
  destruct (blen b1 <? 5); [exact I|].
  destruct (next 4 b1) as [eb b2] eqn:E2. pose proof (okbuf_next 4 _ Hb1) as [Heb Hb2]. rewrite E2 in Heb, Hb2. cbn [fst snd] in Heb, Hb2.
  destruct (be32_of eb) as [eid| | |] eqn:Ee; cbn [bind]; try exact I. pose proof (be32_of_lt _ _ Heb Ee) as Heid.
  destruct (read_byte0 b2) as [c b3] eqn:E3. pose proof (okbuf_rb0 _ Hb2) as [_ Hb3]. rewrite E3 in Hb3. cbn [snd] in Hb3.
  destruct (negb (N.land c 128 =? 0)).
  { cbn. unfold wid_desc. cbn. repeat split; try lia; try assumption; try discriminate; constructor. }
  destruct (read_byte0 b3) as [flags b4] eqn:E4. pose proof (okbuf_rb0 _ Hb3) as [Hfl Hb4]. rewrite E4 in Hfl, Hb4. cbn [fst snd] in Hfl, Hb4.
  apply (post1_bind (fun r => Forall (fun c => co_tag c < 256 /\ co_off c < 8589934592) (fst r) /\ okbuf (snd r))).
  { destruct (negb (negb (N.land flags 128 =? 0))); [|cbn; split; [constructor|exact Hb4]].
    destruct (read_byte0 b4) as [ct b5] eqn:E5. pose proof (okbuf_rb0 _ Hb4) as [_ Hb5]. rewrite E5 in Hb5. cbn [snd] in Hb5.
    destruct ((Z.of_N (blen b5) - 5 <? Z.of_N ct * 6)%Z); [exact I|].
    pose proof (psegcomps_post (N.to_nat ct) b5 [] Hb5 ltac:(constructor)) as P.
    destruct (parse_seg_components (N.to_nat ct) b5 []) as [[cs b']| | |]; cbn in *; auto. }
  intros [comps b6] [Hcomps Hb6]. cbn [fst snd] in Hcomps, Hb6.
  apply (post1_bind (fun r => fst r < 1099511627776 /\ okbuf (snd r))).
  { destruct (negb (N.land flags 64 =? 0)); [|cbn; split; [lia|exact Hb6]].
    destruct (blen b6 <? 10); [exact I|].
    destruct (next 5 b6) as [db b7] eqn:E7. pose proof (okbuf_next 5 _ Hb6) as [Hdb Hb7]. rewrite E7 in Hdb, Hb7. cbn [fst snd] in Hdb, Hb7.
    destruct (idx db 0) as [d0| | |] eqn:Ed0; cbn [bind]; try exact I.
    destruct (be32_of (dropN 1 db)) as [lo| | |] eqn:Elo; cbn [bind]; try exact I.
    pose proof (idx_byte _ _ _ Hdb Ed0). pose proof (be32_of_lt _ _ (is_bytes_dropN 1 db Hdb) Elo).
    cbn. split; [lia|exact Hb7]. }
  intros [dur b8] [Hdur Hb8]. cbn [fst snd] in Hdur, Hb8.
  destruct (read_byte0 b8) as [uty b9] eqn:E9. pose proof (okbuf_rb0 _ Hb8) as [Huty Hb9]. rewrite E9 in Huty, Hb9. cbn [fst snd] in Huty, Hb9.
  destruct (read_byte0 b9) as [sul b10] eqn:E10. pose proof (okbuf_rb0 _ Hb9) as [_ Hb10]. rewrite E10 in Hb10. cbn [snd] in Hb10.
  apply (post1_bind (fun r => is_bytes (fst (fst r)) /\ Forall wid_mid (snd (fst r)) /\ okbuf (snd r) /\
                              (uty = SegUPIDMID -> fst (fst r) = []) /\ (uty <> SegUPIDMID -> snd (fst r) = []))).
  { destruct (N.eqb_spec uty SegUPIDMID) as [Eu|Eu].
    - apply (post1_bind (fun r => Forall wid_mid (fst r) /\ okbuf (snd r))).
      + pose proof (pmid_post (S (N.to_nat sul)) sul b10 [] Hb10 ltac:(constructor)) as P.
        destruct (parse_mid (S (N.to_nat sul)) sul b10 []) as [[m bb]| | |]; cbn in *; auto.
      + intros [m bb] [A B]. cbn. cbn [fst snd] in A, B. repeat split; auto; try apply Forall_nil; try congruence; try (destruct B; assumption).
    - destruct (blen b10 <? sul + 3); [exact I|].
      destruct (next sul b10) as [u bb] eqn:En. pose proof (okbuf_next sul _ Hb10) as [Hu Hbb]. rewrite En in Hu, Hbb. cbn [fst snd] in Hu, Hbb.
      cbn. repeat split; auto; try apply Forall_nil; try congruence; try (destruct Hbb; assumption). }
  intros [[u m] b11] (Hu & Hm & Hb11 & X1 & X2). cbn [fst snd] in *.
  destruct (read_byte0 b11) as [ty b12] eqn:E12. pose proof (okbuf_rb0 _ Hb11) as [Hty Hb12]. rewrite E12 in Hty, Hb12. cbn [fst snd] in Hty, Hb12.
  destruct (read_byte0 b12) as [sn b13] eqn:E13. pose proof (okbuf_rb0 _ Hb12) as [Hsn Hb13]. rewrite E13 in Hsn, Hb13. cbn [fst snd] in Hsn, Hb13.
  destruct (read_byte0 b13) as [se b14] eqn:E14. pose proof (okbuf_rb0 _ Hb13) as [Hse Hb14]. rewrite E14 in Hse, Hb14. cbn [fst snd] in Hse, Hb14.
  assert (Hdev : (if negb (N.land flags 32 =? 0) then 0 else N.land flags 3) < 4).
  { destruct (negb (N.land flags 32 =? 0)); [lia|]. rewrite land3 by assumption. lia. }
  destruct ((0 <? blen b14) && ((ty =? 52) || (ty =? 54))).
  - destruct (read_byte0 b14) as [ssn b15] eqn:E15. pose proof (okbuf_rb0 _ Hb14) as [Hssn Hb15]. rewrite E15 in Hssn, Hb15. cbn [fst snd] in Hssn, Hb15.
    destruct (read_byte0 b15) as [sse b16] eqn:E16. pose proof (okbuf_rb0 _ Hb15) as [Hsse _]. rewrite E16 in Hsse. cbn [fst] in Hsse.
    cbn. unfold wid_desc. cbn. repeat split; assumption.
  - cbn. unfold wid_desc. cbn. repeat split; try assumption; lia.
Qed.

(* ---- otherDescriptorBytes is a concatenation of (tag, length, body) chunks; foreign_of reads it back ---- *)
Inductive wfc : bytes -> Prop :=
| wfc_nil : wfc []
| wfc_cons tag dl body o : len body = dl -> wfc o -> wfc (tag :: dl :: body ++ o).
Lemma wfc_snoc o tag dl body : wfc o -> len body = dl -> wfc (o ++ tag :: dl :: body).
Proof.
  induction 1 as [|t d bd o' Hl Ho IH]; intros H.
  - cbn [app]. rewrite <- (app_nil_r body). constructor; [exact H|constructor].
  - cbn [app]. rewrite <- app_assoc. constructor; [exact Hl|]. apply IH. exact H.
Qed.
Lemma parse_other_ser o : wfc o -> forall fuel, (length o <= fuel)%nat ->
  ser_descriptors (parse_other fuel o) = o /\ Forall is_foreign (parse_other fuel o).
Proof.
  induction 1 as [|tag dl body o' Hl Ho IH]; intros fuel Hf.
  - destruct fuel; cbn; split; auto.
  - destruct fuel as [|f]; [cbn in Hf; lia|]. cbn [parse_other].
    assert (E1 : takeN dl (body ++ o') = body).
    { unfold takeN. subst dl. unfold len. rewrite Nat2N.id. rewrite firstn_app, Nat.sub_diag, firstn_all. cbn [firstn]. apply app_nil_r. }
    assert (E2 : dropN dl (body ++ o') = o').
    { unfold dropN. subst dl. unfold len. rewrite Nat2N.id. rewrite skipn_app, Nat.sub_diag, skipn_all. reflexivity. }
    rewrite E1, E2. destruct (IH f) as [A B]. { cbn [length] in Hf. rewrite app_length in Hf. lia. }
    split; [|constructor; [exact I|exact B]].
    unfold ser_descriptors in *. cbn [flat_map]. rewrite A. unfold ser_descriptor. cbn [desc_tag ser_desc_payload app]. rewrite Hl. reflexivity.
Qed.

Lemma pdescloop_post : forall fuel owner dll br b other descs,
  okbuf b -> wfc other -> Forall wid_desc descs -> dll <= br + blen b ->
  post (fun r b' => wfc (fst r) /\ Forall wid_desc (snd r)) (parse_desc_loop fuel owner dll br b other descs).
Proof.
  induction fuel as [|fuel IH]; intros owner dll br b other descs Hb Ho Hd Hlen; cbn [parse_desc_loop]; [exact I|].
  destruct (N.ltb_spec br dll) as [Hlt|]; cbn [negb]; [|cbn; auto].
  destruct (read_byte0 b) as [tag b1] eqn:E1. pose proof (okbuf_rb0 b Hb) as [Htag Hb1]. rewrite E1 in Htag, Hb1. cbn [fst snd] in Htag, Hb1.
  pose proof (rb0_len b) as L1. rewrite E1 in L1. cbn [snd] in L1.
  destruct (read_byte0 b1) as [dl b2] eqn:E2. pose proof (okbuf_rb0 b1 Hb1) as [Hdl Hb2]. rewrite E2 in Hdl, Hb2. cbn [fst snd] in Hdl, Hb2.
  pose proof (rb0_len b1) as L2. rewrite E2 in L2. cbn [snd] in L2.
  destruct (Z.ltb_spec (Z.of_N dll - Z.of_N br - 2) (Z.of_N dl)) as [|Hg]; [exact I|].
  destruct (next dl b2) as [body b3] eqn:E3. pose proof (okbuf_next dl b2 Hb2) as [Hbody Hb3]. rewrite E3 in Hbody, Hb3. cbn [fst snd] in Hbody, Hb3.
  pose proof (next_len dl b2) as [Lb Lb3]. rewrite E3 in Lb, Lb3. cbn [fst snd] in Lb, Lb3.
  assert (Hbl : len body = dl) by lia.
  destruct (negb (tag =? segDescTag)).
  - apply IH; try assumption; [|lia]. cbn [app]. apply wfc_snoc; assumption.
  - pose proof (pdescriptor_post (Some owner) body Hbody) as P.
    destruct (parse_descriptor (Some owner) body) as [d| | |]; cbn [bind post1] in *; try exact I.
    apply IH; try assumption; [|lia]. apply Forall_app. split; [assumption|]. constructor; [exact P|constructor].
Qed.

Theorem decoded_wid data s : is_bytes data -> new_scte35 data = Ok s -> wid_sig (foreign_of s) s.
Proof.
  intros Hdata. unfold new_scte35, parse_table. set (pf := pointer_field data).
  destruct (len data <? w16 (pf + 4 + 15)); [discriminate|].
  pose proof (okbuf_new data Hdata) as Hb.
  destruct (next (w8 (pf + 1)) (buf_new data)) as [sk b0] eqn:E0. pose proof (okbuf_next (w8 (pf + 1)) _ Hb) as [_ Hb0]. rewrite E0 in Hb0. cbn [snd] in Hb0.
  destruct (next 3 b0) as [hb b1] eqn:E1. pose proof (okbuf_next 3 _ Hb0) as [Hhb Hb1]. rewrite E1 in Hhb, Hb1. cbn [fst snd] in Hhb, Hb1.
  unfold table_header_from_bytes. destruct (len hb <? 3); [discriminate|].
  destruct (idx hb 0) as [tid| | |] eqn:Et; cbn [bind]; try discriminate.
  destruct (idx hb 1) as [h1| | |]; cbn [bind]; try discriminate.
  destruct (idx hb 2) as [h2| | |]; cbn [bind]; try discriminate.
  pose proof (idx_byte _ _ _ Hhb Et) as Htid.
  destruct (negb (tid =? 252)); [discriminate|].
  destruct (read_byte0 b1) as [pv b2] eqn:E2. pose proof (okbuf_rb0 _ Hb1) as [Hpv Hb2]. rewrite E2 in Hpv, Hb2. cbn [fst snd] in Hpv, Hb2.
  destruct (read_byte0 b2) as [f b3] eqn:E3. pose proof (okbuf_rb0 _ Hb2) as [_ Hb3]. rewrite E3 in Hb3. cbn [snd] in Hb3.
  destruct (negb (N.land f 128 =? 0)); [discriminate|].
  destruct (unread_byte b3) as [b4| | |] eqn:E4; cbn [bind]; try discriminate. pose proof (okbuf_unread _ _ Hb3 E4) as Hb4.
  destruct (read_byte0 b4) as [f2 b5] eqn:E5. pose proof (okbuf_rb0 _ Hb4) as [Hf2 Hb5]. rewrite E5 in Hf2, Hb5. cbn [fst snd] in Hf2, Hb5.
  destruct (unread_byte b5) as [b6| | |] eqn:E6; cbn [bind]; try discriminate. pose proof (okbuf_unread _ _ Hb5 E6) as Hb6.
  destruct (next 5 b6) as [ab b7] eqn:E7. pose proof (okbuf_next 5 _ Hb6) as [_ Hb7]. rewrite E7 in Hb7. cbn [snd] in Hb7.
  destruct (uint40 ab) as [adj0| | |]; cbn [bind]; try discriminate.
  destruct (read_byte0 b7) as [cw b8] eqn:E8. pose proof (okbuf_rb0 _ Hb7) as [Hcw Hb8]. rewrite E8 in Hcw, Hb8. cbn [fst snd] in Hcw, Hb8.
  destruct (next 3 b8) as [tb b9] eqn:E9. pose proof (okbuf_next 3 _ Hb8) as [Htb Hb9]. rewrite E9 in Htb, Hb9. cbn [fst snd] in Htb, Hb9.
  destruct (idx tb 0) as [t0| | |] eqn:Et0; cbn [bind]; try discriminate.
  destruct (idx tb 1) as [t1| | |] eqn:Et1; cbn [bind]; try discriminate.
  destruct (idx tb 2) as [t2| | |] eqn:Et2; cbn [bind]; try discriminate.
  pose proof (idx_byte _ _ _ Htb Et0) as Ht0. pose proof (idx_byte _ _ _ Htb Et1) as Ht1.
  destruct (read_byte0 b9) as [ct b10] eqn:E10. pose proof (okbuf_rb0 _ Hb9) as [Hct Hb10]. rewrite E10 in Hct, Hb10. cbn [fst snd] in Hct, Hb10.
  pose proof (pcommand_post ct (N.land adj0 M33) b10 Hb10 (landM33_lt adj0)) as PC.
  destruct (parse_command ct (N.land adj0 M33) b10) as [[[pts cmd] b11]| | |]; cbn [bind post] in *; try discriminate.
  cbn [fst snd] in PC. destruct PC as (Hpts & Hcmd & Hctc & Hb11).
  unfold parse_descriptors. destruct (blen b11 <? 6); [discriminate|].
  destruct (next 2 b11) as [lb b12] eqn:E12. pose proof (okbuf_next 2 _ Hb11) as [_ Hb12]. rewrite E12 in Hb12. cbn [snd] in Hb12.
  destruct (be16_of lb) as [dll| | |]; cbn [bind]; try discriminate.
  destruct (N.ltb_spec (blen b12) (dll + 4)) as [|Hd4]; [discriminate|].
  pose proof (pdescloop_post (S (length data)) 1 dll 0 b12 [] [] Hb12 wfc_nil ltac:(constructor) ltac:(lia)) as PL.
  destruct (parse_desc_loop (S (length data)) 1 dll 0 b12 [] []) as [[[other descs] b13]| | |]; cbn [bind post] in *; try discriminate.
  cbn [fst snd] in PL. destruct PL as [Hother Hdescs].
  destruct (slice_from data (w8 (pf + 1))) as [dat| | |]; cbn [bind]; try discriminate.
  intros E. inversion E; subst s. clear E.
  unfold wid_sig, foreign_of. cbn [s_tid s_protocol s_enc_alg s_cw s_tier s_pts s_cmd_type s_cmd s_descs s_other].
  destruct (parse_other_ser other Hother (length other) (le_n _)) as [A B].
  repeat split; try assumption.
  - rewrite shr1land63 by assumption. apply N.mod_lt. discriminate.
  - rewrite land240s4 by assumption. lia.
  - symmetry. exact A.
Qed.

(* ---- all sequences of setter calls applied to ANY decoded signal ---- *)
Theorem history_normal_decoded data s0 ops : is_bytes data -> new_scte35 data = Ok s0 ->
  Forall typed_sig_op ops -> fits (run_script s0 ops) -> normal (foreign_of s0) (run_script s0 ops).
Proof.
  intros Hd Hs T F. apply normal_of_wid; [|exact F]. apply wid_closure; [|exact T]. eapply decoded_wid; eauto.
Qed.
Theorem history_canonical_decoded data s0 ops : is_bytes data -> new_scte35 data = Ok s0 ->
  Forall typed_sig_op ops -> fits (run_script s0 ops) ->
  fst (update_data (run_script s0 ops)) = ser_section (logical (foreign_of s0) (run_script s0 ops)).
Proof. intros Hd Hs T F. apply encode_canonical. eapply history_normal_decoded; eauto. Qed.
