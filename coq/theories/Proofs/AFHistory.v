(* One call refines its meaning on the logical field; histories by induction over the operation list. *)
From Gots Require Import Base.Prelude Model.Pcr Model.AF Spec.AFSpec Proofs.AFLists Proofs.AFRepr Proofs.PcrBytes Proofs.AFSetters.
Import AF.

Definition refines_at (p : bytes) (l : laf) (hdr pay : bytes) (o : op) : Prop :=
  match step p o with
  | Ok p' => exists l', op_rel l o (Done l') /\ repr p' l' hdr pay
  | Err e => op_rel l o (Fail e)
  | Panic | Diverge => False
  end.

Lemma ok_out_refines h0 h1 h2 h3 pay l o p :
  bit h3 32 = true -> len pay = 183 - l_len l -> p = cpk h0 h1 h2 h3 l pay ->
  ok_out h0 h1 h2 h3 pay l o (step p o) -> refines_at p l [h0; h1; h2; h3] pay o.
Proof. intros Hb Hp -> H. unfold refines_at. destruct (step (cpk h0 h1 h2 h3 l pay) o); cbn [ok_out] in H; try exact H.
  destruct H as (l' & R & -> & W & F & EL). exists l'. split; [exact R|].
  apply cpk_repr; try assumption. rewrite EL. exact Hp. Qed.

Theorem step_refines p l hdr pay o : repr p l hdr pay -> op_ok o -> refines_at p l hdr pay o.
Proof. intros R Hok. pose proof R as (_ & _ & _ & _ & Hwf & Hfits).
  destruct (repr_cpk p l hdr pay R) as (h0 & h1 & h2 & h3 & -> & Ep & Hb & Hp).
  apply ok_out_refines; try assumption. rewrite Ep.
  destruct o; cbn [step op_ok] in *.
  - apply disc_ok; assumption.
  - apply rai_ok; assumption.
  - apply prio_ok; assumption.
  - apply haspcr_ok; assumption.
  - apply hasopcr_ok; assumption.
  - apply hassplice_ok; assumption.
  - apply hastpd_ok; assumption.
  - apply hasext_ok; assumption.
  - apply setpcr_ok; assumption.
  - apply setopcr_ok; assumption.
  - apply setsplice_ok; assumption.
  - apply settpd_ok; assumption.
  - apply setext_ok; assumption.
  - destruct Hok as (_ & hs & ls & ps & E & Hh & W & F). eapply setaf_ok; eassumption.
Qed.

(* a failing call leaves the packet as it was (every error return of the Go code precedes the first write;
   the correspondence compares the bytes after an error with the bytes before) *)
Lemma after_err p o e : step p o = Err e -> after p o = p.
Proof. unfold after. intros ->. reflexivity. Qed.
Lemma after_ok p o p' : step p o = Ok p' -> after p o = p'.
Proof. unfold after. intros ->. reflexivity. Qed.

Theorem history : forall h p l hdr pay, repr p l hdr pay -> Forall op_ok h ->
  exists l', hist_rel l h l' /\ repr (run p h) l' hdr pay.
Proof. induction h as [|o h IH]; intros p l hdr pay R Hok.
  - exists l. split; [constructor|exact R].
  - inversion Hok as [|? ? Ho Hh]; subst. pose proof (step_refines p l hdr pay o R Ho) as S.
    unfold refines_at in S. unfold run. cbn [fold_left]. fold (run (after p o) h).
    destruct (step p o) as [p'| e | |] eqn:E; try contradiction.
    + destruct S as (l1 & Rel & R1). rewrite (after_ok _ _ _ E).
      destruct (IH p' l1 hdr pay R1 Hh) as (l2 & HR & R2). exists l2. split; [|exact R2].
      eapply hist_done; eassumption.
    + rewrite (after_err _ _ _ E). destruct (IH p l hdr pay R Hh) as (l2 & HR & R2). exists l2. split; [|exact R2].
      eapply hist_fail; eassumption.
Qed.

(* every prefix of a history: the packet after each call is a faithful encoding *)
Corollary history_every_prefix h1 h2 p l hdr pay : repr p l hdr pay -> Forall op_ok (h1 ++ h2) ->
  exists l', hist_rel l h1 l' /\ repr (run p h1) l' hdr pay.
Proof. intros R H. apply Forall_app in H. apply history; [exact R|apply H]. Qed.

(* ---- a call whose result fits never fails ---- *)
Lemma spec_kind l o u u' : length u = length u' ->
  match spec_step l o u, spec_step l o u' with
  | Done _, Done _ => True | Fail e, Fail e' => e = e' | _, _ => False end.
Proof. intros HL.
  assert (G: forall (f : bytes -> laf), (forall a b, length a = length b -> content_len (f a) = content_len (f b) /\ l_len (f a) = l_len (f b)) ->
             match grow (f u), grow (f u') with Done _, Done _ => True | Fail e, Fail e' => e = e' | _, _ => False end).
  { intros f Hf. destruct (Hf u u' HL) as [E1 E2]. unfold grow, fitsb. rewrite E1, E2.
    destruct (content_len (f u') <=? l_len (f u')); reflexivity. }
  destruct o; cbn [spec_step]; try exact I; try reflexivity;
    try (destruct v); try exact I;
    try (match goal with |- context [isSome ?x] => destruct x; cbn [isSome]; try exact I; try reflexivity end).
  - apply (G (fun a => set_pcr l (Some a))). intros xa xb E. rewrite !content_len_eq. cbn. unfold len. rewrite E. split; reflexivity.
  - apply (G (fun a => set_opcr l (Some a))). intros xa xb E. rewrite !content_len_eq. cbn. unfold len. rewrite E. split; reflexivity.
  - apply (G (fun a => set_splice l (Some (hd 0 a)))). intros xa xb E. rewrite !content_len_eq. cbn. split; reflexivity.
  - apply (G (fun a => set_tpd l (Some []))). intros xa xb E. split; reflexivity.
  - apply (G (fun a => set_ext l (Some []))). intros xa xb E. split; reflexivity.
  - apply (G (fun a => set_tpd l (Some d))). intros xa xb E. split; reflexivity.
  - apply (G (fun a => set_ext l (Some d))). intros xa xb E. split; reflexivity.
Qed.

Lemma rel_exclusive l o l1 e : op_rel l o (Done l1) -> op_rel l o (Fail e) -> False.
Proof. destruct o; cbn [op_rel];
  try (intros (u & Lu & _ & E1) (u' & Lu' & _ & E2);
       match type of E1 with _ = spec_step _ ?o _ => pose proof (spec_kind l o u u' (eq_trans Lu (eq_sym Lu'))) as K end;
       rewrite <- E1, <- E2 in K; exact K).
  intros (hs & ls & ps & E & Hh & W & F & O) (hs' & ls' & ps' & E' & Hh' & W' & F' & O').
  assert (C: forall hs ls ps, src = hs ++ ser_laf ls ++ ps -> length hs = 4%nat -> wf_laf ls -> fits ls ->
             content_len ls = stuffingStart src - 5).
  { clear. intros hs ls ps E Hh W F. destruct hs as [|s0 [|s1 [|s2 [|s3 [|]]]]]; try discriminate.
    assert (Esrc: src = pk s0 s1 s2 s3 (l_len ls) (flags ls) (body ls ++ stuff ls ++ ps)).
    { rewrite E. unfold pk, ser_laf, stuff. cbn [app]. rewrite <- app_assoc. reflexivity. }
    destruct W as (VL & VP & VO & _). unfold fits in F.
    rewrite Esrc. rewrite (stuffingStart_p s0 s1 s2 s3 ls (stuff ls ++ ps) VP VO); unfold content_len in *; lia. }
  rewrite (C hs ls ps E Hh W F) in O. rewrite (C hs' ls' ps' E' Hh' W' F') in O'.
  destruct (stuffingStart src - 5 <=? l_len l); discriminate. Qed.

Theorem no_spurious_error p l hdr pay o : repr p l hdr pay -> op_ok o ->
  (exists l', op_rel l o (Done l')) -> exists p', step p o = Ok p'.
Proof. intros R Hok (l1 & D). pose proof (step_refines p l hdr pay o R Hok) as S. unfold refines_at in S.
  destruct (step p o) as [p'|e| |]; try contradiction.
  - exists p'. reflexivity.
  - exfalso. eapply rel_exclusive; eassumption. Qed.

(* and conversely an error is only ever reported when the logical operation cannot be honoured *)
Theorem error_only_when_refused p l hdr pay o e : repr p l hdr pay -> op_ok o ->
  step p o = Err e -> op_rel l o (Fail e) /\ after p o = p /\ ~ (exists l', op_rel l o (Done l')).
Proof. intros R Hok E. pose proof (step_refines p l hdr pay o R Hok) as S. unfold refines_at in S. rewrite E in S.
  split; [exact S|]. split; [apply (after_err _ _ _ E)|]. intros (l1 & D). eapply rel_exclusive; eassumption. Qed.
