(* How the offset functions of Model/AF.v read a packet that is written as
   header ++ length :: flags :: optional fields ++ tail, and what resizeAF does to it. *)
From Gots Require Import Base.Prelude Model.Pcr Model.AF Spec.AFSpec Proofs.AFLists.
Import AF.

(* ---- the flags byte ---- *)
Definition fl8 (d r p a b c t e : bool) : N :=
  128 * b2n d + 64 * b2n r + 32 * b2n p + 16 * b2n a + 8 * b2n b + 4 * b2n c + 2 * b2n t + b2n e.
Lemma flags_fl8 l : flags l = fl8 (l_disc l) (l_rai l) (l_prio l) (isSome (l_pcr l)) (isSome (l_opcr l))
  (isSome (l_splice l)) (isSome (l_tpd l)) (isSome (l_ext l)).
Proof. reflexivity. Qed.
Lemma fl8_bits d r p a b c t e :
  bit (fl8 d r p a b c t e) 128 = d /\ bit (fl8 d r p a b c t e) 64 = r /\ bit (fl8 d r p a b c t e) 32 = p /\
  bit (fl8 d r p a b c t e) 16 = a /\ bit (fl8 d r p a b c t e) 8 = b /\ bit (fl8 d r p a b c t e) 4 = c /\
  bit (fl8 d r p a b c t e) 2 = t /\ bit (fl8 d r p a b c t e) 1 = e.
Proof. destruct d, r, p, a, b, c, t, e; vm_compute; repeat split. Qed.
Lemma fl8_set d r p a b c t e (v : bool) :
  (if v then N.lor (fl8 d r p a b c t e) 128 else N.land (fl8 d r p a b c t e) (255 - 128)) = fl8 v r p a b c t e /\
  (if v then N.lor (fl8 d r p a b c t e) 64 else N.land (fl8 d r p a b c t e) (255 - 64)) = fl8 d v p a b c t e /\
  (if v then N.lor (fl8 d r p a b c t e) 32 else N.land (fl8 d r p a b c t e) (255 - 32)) = fl8 d r v a b c t e /\
  (if v then N.lor (fl8 d r p a b c t e) 16 else N.land (fl8 d r p a b c t e) (255 - 16)) = fl8 d r p v b c t e /\
  (if v then N.lor (fl8 d r p a b c t e) 8 else N.land (fl8 d r p a b c t e) (255 - 8)) = fl8 d r p a v c t e /\
  (if v then N.lor (fl8 d r p a b c t e) 4 else N.land (fl8 d r p a b c t e) (255 - 4)) = fl8 d r p a b v t e /\
  (if v then N.lor (fl8 d r p a b c t e) 2 else N.land (fl8 d r p a b c t e) (255 - 2)) = fl8 d r p a b c v e /\
  (if v then N.lor (fl8 d r p a b c t e) 1 else N.land (fl8 d r p a b c t e) (255 - 1)) = fl8 d r p a b c t v.
Proof. destruct v, d, r, p, a, b, c, t, e; vm_compute; repeat split. Qed.
Lemma fl8_lt d r p a b c t e : fl8 d r p a b c t e < 256.
Proof. destruct d, r, p, a, b, c, t, e; vm_compute; reflexivity. Qed.
Global Opaque fl8.

(* ---- packets in explicit form ---- *)
Definition pk (h0 h1 h2 h3 L fl : N) (rest : bytes) : bytes := h0 :: h1 :: h2 :: h3 :: L :: fl :: rest.
Definition H6 (h0 h1 h2 h3 L fl : N) : bytes := [h0; h1; h2; h3; L; fl].
Lemma pk_H6 h0 h1 h2 h3 L fl rest : pk h0 h1 h2 h3 L fl rest = H6 h0 h1 h2 h3 L fl ++ rest.
Proof. reflexivity. Qed.
Lemma len_H6 h0 h1 h2 h3 L fl : len (H6 h0 h1 h2 h3 L fl) = 6. Proof. reflexivity. Qed.

Lemma get_bit_pk3 h0 h1 h2 h3 L fl rest m : get_bit (pk h0 h1 h2 h3 L fl rest) 3 m = bit h3 m.
Proof. reflexivity. Qed.
Lemma get_bit_pk5 h0 h1 h2 h3 L fl rest m : get_bit (pk h0 h1 h2 h3 L fl rest) 5 m = bit fl m.
Proof. reflexivity. Qed.
Lemma nthN_pk4 h0 h1 h2 h3 L fl rest : nthN (pk h0 h1 h2 h3 L fl rest) 4 = L.
Proof. reflexivity. Qed.
Lemma nthN_pk5 h0 h1 h2 h3 L fl rest : nthN (pk h0 h1 h2 h3 L fl rest) 5 = fl.
Proof. reflexivity. Qed.
Lemma set_bit_pk5 h0 h1 h2 h3 L fl rest m v :
  set_bit (pk h0 h1 h2 h3 L fl rest) 5 m v =
  pk h0 h1 h2 h3 L (if v then N.lor fl m else N.land fl (255 - m)) rest.
Proof. destruct v; reflexivity. Qed.
Lemma nthN_pk_rest h0 h1 h2 h3 L fl rest i k : i = 6 + k -> nthN (pk h0 h1 h2 h3 L fl rest) i = nthN rest k.
Proof. intros ->. rewrite pk_H6. apply nthN_app_r. reflexivity. Qed.

Lemma valid_pk h0 h1 h2 h3 L fl rest : bit h3 32 = true -> L <> 0 -> valid (pk h0 h1 h2 h3 L fl rest) = Ok tt.
Proof. intros Hb HL. unfold valid. rewrite get_bit_pk3, Hb, nthN_pk4. cbn [negb].
  replace (L =? 0) with false by (symmetry; apply N.eqb_neq; exact HL). reflexivity. Qed.

(* ---- offsets ---- *)
Lemma len_enc6 o : opt_bytes 6 o -> len (enc6 o) = if isSome o then 6 else 0.
Proof. destruct o; cbn; [|reflexivity]. intros [H _]. unfold len. rewrite H. reflexivity. Qed.
Lemma len_enc1 o : len (enc1 o) = if isSome o then 1 else 0.
Proof. destruct o; reflexivity. Qed.

Section Offsets.
Variables (h0 h1 h2 h3 : N) (l : laf) (tail : bytes).
Hypothesis Hpcr : opt_bytes 6 (l_pcr l).
Hypothesis Hopcr : opt_bytes 6 (l_opcr l).
Hypothesis Hroom : 6 + len (body l) <= 188.
Notation Fp := (enc6 (l_pcr l)). Notation Fo := (enc6 (l_opcr l)). Notation Fs := (enc1 (l_splice l)).
Notation Ft := (encv (l_tpd l)). Notation Fe := (encv (l_ext l)).
Notation p := (pk h0 h1 h2 h3 (l_len l) (flags l) (body l ++ tail)).

Lemma has_p : hasPCR p = isSome (l_pcr l) /\ hasOPCR p = isSome (l_opcr l) /\
  hasSplicingPoint p = isSome (l_splice l) /\ hasTransportPrivateData p = isSome (l_tpd l) /\
  hasAdaptationFieldExtension p = isSome (l_ext l) /\
  get_bit p 5 128 = l_disc l /\ get_bit p 5 64 = l_rai l /\ get_bit p 5 32 = l_prio l.
Proof. unfold hasPCR, hasOPCR, hasSplicingPoint, hasTransportPrivateData, hasAdaptationFieldExtension.
  rewrite !get_bit_pk5, flags_fl8.
  destruct (fl8_bits (l_disc l) (l_rai l) (l_prio l) (isSome (l_pcr l)) (isSome (l_opcr l))
    (isSome (l_splice l)) (isSome (l_tpd l)) (isSome (l_ext l))) as (a & b & c & d & e & f & g & h).
  repeat split; assumption. Qed.

Lemma pcrLength_p : pcrLength p = len Fp.
Proof. unfold pcrLength. destruct has_p as (-> & _). rewrite len_enc6 by assumption. reflexivity. Qed.
Lemma opcrLength_p : opcrLength p = len Fo.
Proof. unfold opcrLength. destruct has_p as (_ & -> & _). rewrite len_enc6 by assumption. reflexivity. Qed.
Lemma spliceLength_p : spliceCountdownLength p = len Fs.
Proof. unfold spliceCountdownLength. destruct has_p as (_ & _ & -> & _). rewrite len_enc1. reflexivity. Qed.
Lemma opcrStart_p : opcrStart p = 6 + len Fp.
Proof. unfold opcrStart, pcrStart. rewrite pcrLength_p. reflexivity. Qed.
Lemma spliceStart_p : spliceCountdownStart p = 6 + len Fp + len Fo.
Proof. unfold spliceCountdownStart, pcrStart. rewrite pcrLength_p, opcrLength_p. reflexivity. Qed.
Lemma tpdStart_p : transportPrivateDataStart p = 6 + len Fp + len Fo + len Fs.
Proof. unfold transportPrivateDataStart, pcrStart. rewrite pcrLength_p, opcrLength_p, spliceLength_p. reflexivity. Qed.
Lemma len_F3 : len Fp + len Fo + len Fs <= 13.
Proof. rewrite !len_enc6, len_enc1 by assumption.
  destruct (isSome (l_pcr l)), (isSome (l_opcr l)), (isSome (l_splice l)); lia. Qed.
Lemma body_split : body l = Fp ++ Fo ++ Fs ++ Ft ++ Fe. Proof. reflexivity. Qed.
Lemma len_body : len (body l) = len Fp + len Fo + len Fs + len Ft + len Fe.
Proof. rewrite body_split, !len_app. lia. Qed.
Lemma tpdLength_p : transportPrivateDataLength p = len Ft.
Proof. unfold transportPrivateDataLength. destruct has_p as (_ & _ & _ & -> & _).
  destruct (l_tpd l) as [d|] eqn:E; cbn [isSome negb encv]; [|reflexivity].
  rewrite tpdStart_p. pose proof len_F3.
  replace (PacketSize <=? 6 + len Fp + len Fo + len Fs) with false
    by (symmetry; apply N.leb_gt; unfold PacketSize; lia).
  rewrite len_cons. f_equal. rewrite (nthN_pk_rest _ _ _ _ _ _ _ _ (len Fp + len Fo + len Fs)) by lia.
  rewrite body_split, E. cbn [encv].
  replace ((Fp ++ Fo ++ Fs ++ (len d :: d) ++ Fe) ++ tail) with ((Fp ++ Fo ++ Fs) ++ len d :: (d ++ Fe ++ tail))
    by (rewrite <- !app_assoc; reflexivity).
  apply nthN_at. rewrite !len_app. lia. Qed.
Lemma extStart_p : adaptationExtensionStart p = 6 + len Fp + len Fo + len Fs + len Ft.
Proof. unfold adaptationExtensionStart, pcrStart.
  rewrite pcrLength_p, opcrLength_p, spliceLength_p, tpdLength_p. reflexivity. Qed.
Lemma extLength_p : adaptationExtensionLength p = len Fe.
Proof. unfold adaptationExtensionLength. destruct has_p as (_ & _ & _ & _ & -> & _).
  destruct (l_ext l) as [d|] eqn:E; cbn [isSome negb encv]; [|reflexivity].
  rewrite extStart_p. pose proof len_body as LB. rewrite E in LB. cbn [encv] in LB.
  rewrite len_cons in LB.
  replace (PacketSize <=? 6 + len Fp + len Fo + len Fs + len Ft) with false
    by (symmetry; apply N.leb_gt; unfold PacketSize; lia).
  rewrite len_cons. f_equal.
  rewrite (nthN_pk_rest _ _ _ _ _ _ _ _ (len Fp + len Fo + len Fs + len Ft)) by lia.
  rewrite body_split, E. cbn [encv].
  replace ((Fp ++ Fo ++ Fs ++ Ft ++ len d :: d) ++ tail) with ((Fp ++ Fo ++ Fs ++ Ft) ++ len d :: (d ++ tail))
    by (rewrite <- !app_assoc; reflexivity).
  apply nthN_at. rewrite !len_app. lia. Qed.
Lemma stuffingStart_p : stuffingStart p = 6 + len (body l).
Proof. unfold stuffingStart, pcrStart.
  rewrite pcrLength_p, opcrLength_p, spliceLength_p, tpdLength_p, extLength_p, len_body. lia. Qed.
Lemma stuffingEnd_p : l_len l <= 183 -> stuffingEnd p = l_len l + 5.
Proof. intros H. unfold stuffingEnd. rewrite nthN_pk4.
  replace (PacketSize <? l_len l + 5) with false by (symmetry; apply N.ltb_ge; unfold PacketSize; lia).
  reflexivity. Qed.
End Offsets.

(* ---- resizeAF on a packet written as  A ++ (removed) ++ moved ++ stuffing ++ rest ---- *)
Lemma split3 (l : bytes) d m : d + m <= len l -> l = takeN d l ++ takeN m (dropN d l) ++ dropN (d + m) l.
Proof. intros H. rewrite <- (takeN_dropN l d) at 1. f_equal.
  rewrite <- (takeN_dropN (dropN d l) m) at 1. f_equal.
  apply dropN_dropN. Qed.

Lemma resize_grow p A M St R start d' :
  p = A ++ M ++ St ++ R -> start = len A -> stuffingStart p = len A + len M ->
  stuffingEnd p = len A + len M + len St -> len A + len M <= 188 ->
  resizeAF p start (Zpos d') =
    if len St <? Npos d' then Err E.AdaptationFieldCannotGrow
    else Ok (A ++ takeN (Npos d') (M ++ St) ++ M ++ dropN (Npos d') St ++ R).
Proof. intros Hp Hs Hss Hse Hg. unfold resizeAF. rewrite Hss, Hse. set (d := Npos d') in *.
  replace (PacketSize <? len A + len M) with false by (symmetry; apply N.ltb_ge; unfold PacketSize; lia).
  destruct (N.ltb_spec (len St) d) as [Hlt|Hge].
  - replace (len A + len M + len St <? len A + len M + d) with true by (symmetry; apply N.ltb_lt; lia).
    reflexivity.
  - replace (len A + len M + len St <? len A + len M + d) with false by (symmetry; apply N.ltb_ge; lia).
    assert (Hlen: len p = len A + len M + len St + len R) by (rewrite Hp, !len_app; lia).
    rewrite Hp at 1. rewrite (slice_mid A M (St ++ R)) by lia. cbn [bind].
    rewrite slice_ok by lia. cbn [bind]. f_equal.
    assert (E: M ++ St = takeN d (M ++ St) ++ takeN (len M) (dropN d (M ++ St)) ++ dropN d St).
    { rewrite (split3 (M ++ St) d (len M)) at 1 by (rewrite len_app; lia). do 2 f_equal.
      rewrite dropN_app_ge by lia. f_equal. lia. }
    rewrite Hp.
    replace (A ++ M ++ St ++ R) with ((A ++ takeN d (M ++ St)) ++ takeN (len M) (dropN d (M ++ St)) ++ (dropN d St ++ R)).
    2:{ rewrite <- !app_assoc. f_equal. rewrite (app_assoc M St R). rewrite E at 3.
        rewrite <- !app_assoc. reflexivity. }
    rewrite (blit_mid _ _ _ M).
    + rewrite <- !app_assoc. reflexivity.
    + rewrite len_app, len_takeN by (rewrite len_app; lia). lia.
    + rewrite len_takeN; [reflexivity|]. rewrite len_dropN, len_app. lia. Qed.

Lemma resize_shrink p A D M T start d' :
  p = A ++ D ++ M ++ T -> start = len A -> len D = Npos d' ->
  stuffingStart p = len A + len D + len M -> len A + len D + len M <= 188 ->
  resizeAF p start (Zneg d') = Ok (A ++ M ++ repeatN 255 (Npos d') ++ T).
Proof. intros Hp Hs HD Hss Hg. unfold resizeAF. rewrite Hss. set (d := Npos d') in *.
  replace (PacketSize <? len A + len D + len M) with false by (symmetry; apply N.ltb_ge; unfold PacketSize; lia).
  replace p with ((A ++ D) ++ M ++ T) at 1 by (rewrite Hp, <- !app_assoc; reflexivity).
  rewrite (slice_mid (A ++ D) M T) by (rewrite ?len_app; lia). cbn [bind]. f_equal.
  assert (E: D ++ M = takeN (len M) (D ++ M) ++ dropN (len M) (D ++ M)) by (symmetry; apply takeN_dropN).
  rewrite Hp.
  replace (A ++ D ++ M ++ T) with (A ++ takeN (len M) (D ++ M) ++ (dropN (len M) (D ++ M) ++ T)).
  2:{ f_equal. rewrite (app_assoc D M T). rewrite E at 3. rewrite <- !app_assoc. reflexivity. }
  rewrite (blit_mid A _ _ M); [| exact Hs | rewrite len_takeN; [reflexivity | rewrite len_app; lia]].
  unfold fill_ff.
  replace (A ++ M ++ dropN (len M) (D ++ M) ++ T) with ((A ++ M) ++ dropN (len M) (D ++ M) ++ T)
    by (rewrite <- !app_assoc; reflexivity).
  replace (len A + len D + len M - (len A + len D + len M - d)) with d by lia.
  rewrite (blit_mid (A ++ M) _ _ (repeatN 255 d)).
  - rewrite <- !app_assoc. reflexivity.
  - rewrite len_app. lia.
  - rewrite len_repeatN, len_dropN, len_app. lia. Qed.

Lemma resize_zero p start : stuffingStart p <= 188 -> resizeAF p start 0 = Ok p.
Proof. intros H. unfold resizeAF.
  replace (PacketSize <? stuffingStart p) with false by (symmetry; apply N.ltb_ge; unfold PacketSize; lia).
  reflexivity. Qed.
