(* C05, bounded memory for the EBP readers: whatever the input, a returned object holds at most 256 grouping ids
   and its reserved bytes are a sub-slice of the input. *)
From Gots Require Import Base.Prelude Model.Ebp Proofs.EbpLemmas.
Import Ebp.

Definition okP {A} (P : A -> Prop) (r : Res A) : Prop := forall a, r = Ok a -> P a.
Lemma okP_bind {A B} (P : A -> Prop) (Q : B -> Prop) (r : Res A) (k : A -> Res B) :
  okP P r -> (forall a, P a -> okP Q (k a)) -> okP Q (bind r k).
Proof. unfold okP. destruct r; cbn; intros H1 H2 b Hb; try discriminate. apply (H2 a); auto. Qed.
Lemma okP_Ok {A} (P : A -> Prop) a : P a -> okP P (Ok a).
Proof. intros H b Hb. inversion Hb; subst; exact H. Qed.
Lemma okP_Err {A} (P : A -> Prop) e : okP P (Err e). Proof. intros b Hb; discriminate. Qed.
Lemma okP_any {A} (r : Res A) : okP (fun _ => True) r. Proof. intros a _; exact I. Qed.

(* state invariants *)
Definition fresh (s : t * N) : Prop := Grouping (fst s) = [] /\ ReservedBytes (fst s) = [].
Definition grouped (s : t * N) : Prop := len (Grouping (fst s)) <= 256 /\ ReservedBytes (fst s) = [].

Ltac phase_fresh :=
  match goal with s : (t * N)%type |- _ => destruct s as [e i] end; intros [G R]; cbn [fst] in *;
  match goal with |- okP _ (if ?f then _ else _) => destruct f; [|apply okP_Ok; split; assumption] end;
  match goal with |- okP _ (if ?c then _ else _) => destruct c; [apply okP_Err|] end.

Lemma fresh_rd_ext g d s : fresh s -> okP fresh (rd_ext g d s).
Proof. unfold rd_ext. phase_fresh. eapply okP_bind; [apply okP_any | intros [v j] _; apply okP_Ok; split; assumption]. Qed.
Lemma fresh_rd_sap g d s : fresh s -> okP fresh (rd_sap g d s).
Proof. unfold rd_sap. phase_fresh. eapply okP_bind; [apply okP_any | intros [v j] _; apply okP_Ok; split; assumption]. Qed.
Lemma grouped_rd_group1 g d s : fresh s -> okP grouped (rd_group1 g d s).
Proof.
  unfold rd_group1. destruct s as [e i]; intros [G R]; cbn [fst] in *.
  destruct (GroupingFlag e); [|apply okP_Ok; split; cbn [fst]; [rewrite G; cbn; lia | assumption]].
  destruct (chk g d i 1); [apply okP_Err|].
  eapply okP_bind; [apply okP_any | intros [v j] _; apply okP_Ok; split; cbn [fst set_Grouping Grouping ReservedBytes]].
  - rewrite G. cbn. lia.
  - assumption.
Qed.

(* every iteration appends one id and advances the uint8 index by one; the loop stops at index 0xFF *)
Lemma group_loop_bound : forall fuel data gr index gr' index',
  index <= 255 -> group_loop fuel data gr index = Ok (gr', index') ->
  len gr' + index = len gr + index' /\ index' <= 255.
Proof.
  induction fuel as [|fuel IH]; intros data gr index gr' index' Hi H; [discriminate|]. cbn [group_loop] in H.
  destruct (len data <=? index); cbn [orb] in H; [discriminate|].
  destruct (N.eqb_spec index 255); [discriminate|].
  destruct (idx data index) as [v| | |]; cbn [bind] in H; try discriminate.
  assert (E : w8 (index + 1) = index + 1) by (unfold w8; apply N.mod_small; lia). rewrite E in H.
  destruct (negb _).
  - apply IH in H; [|lia]. rewrite len_app, len_cons, len_nil in H. lia.
  - inversion H; subst. rewrite len_app, len_cons, len_nil. lia.
Qed.

Lemma grouped_read_groups g d s : fresh s -> okP grouped (read_groups group_loop g d s).
Proof.
  unfold read_groups. destruct s as [e i]; intros [G R]; cbn [fst] in *.
  destruct (GroupingFlag e); [|apply okP_Ok; split; cbn [fst]; [rewrite G; cbn; lia | assumption]].
  destruct (chk g d i 1); [apply okP_Err|].
  destruct (idx d i) as [v| | |]; cbn [bind]; try (intros a Ha; discriminate).
  rewrite G. cbn [app].
  destruct (negb _).
  - destruct (group_loop 257 d [N.land v 127] (w8 (i + 1))) as [[gr' i']| | |] eqn:L; cbn [bind]; try (intros a Ha; discriminate).
    apply group_loop_bound in L; [|unfold w8; pose proof (N.mod_upper_bound (i + 1) 256); lia].
    apply okP_Ok. split; cbn [fst set_Grouping Grouping ReservedBytes]; [|assumption].
    rewrite len_cons, len_nil in L. unfold w8 in L. pose proof (N.mod_upper_bound (i + 1) 256). lia.
  - apply okP_Ok. split; cbn [fst set_Grouping Grouping ReservedBytes]; [cbn; lia | assumption].
Qed.

Ltac phase_grouped :=
  match goal with s : (t * N)%type |- _ => destruct s as [e i] end; intros [G R]; cbn [fst] in *;
  match goal with |- okP _ (if ?f then _ else _) => destruct f; [|apply okP_Ok; split; assumption] end;
  match goal with |- okP _ (if ?c then _ else _) => destruct c; [apply okP_Err|] end.
Lemma grouped_read_time g d s : grouped s -> okP grouped (read_time g d s).
Proof.
  unfold read_time. phase_grouped.
  eapply okP_bind; [apply okP_any | intros [v j] _]. eapply okP_bind; [apply okP_any | intros [v2 j2] _].
  apply okP_Ok; split; assumption.
Qed.
Lemma grouped_rd_part g d s : grouped s -> okP grouped (rd_part g d s).
Proof. unfold rd_part. phase_grouped. eapply okP_bind; [apply okP_any | intros [v j] _; apply okP_Ok; split; assumption]. Qed.

Definition bounded (d : bytes) (e : t) : Prop := len (Grouping e) <= 256 /\ len (ReservedBytes e) <= len d.

Lemma slice_len_le l i j s : slice l i j = Ok s -> len s <= len l.
Proof.
  unfold slice. destruct (N.leb_spec i j); cbn [andb]; [|discriminate].
  destruct (N.leb_spec j (len l)); [|discriminate]. intro Hs. inversion Hs. subst s.
  unfold len in *. rewrite firstn_length, skipn_length. lia.
Qed.

Lemma bounded_read_reserved d s : grouped s -> okP (bounded d) (read_reserved d s).
Proof.
  unfold read_reserved. destruct s as [e i]; intros [G R]; cbn [fst] in *.
  destruct (i <? _); [|apply okP_Ok; split; [assumption | rewrite R; cbn; lia]].
  destruct (len d <? _); [apply okP_Err|].
  destruct (slice d i _) as [r| | |] eqn:S; cbn [bind]; try (intros a Ha; discriminate).
  apply okP_Ok. split; cbn [set_ReservedBytes Grouping ReservedBytes]; [assumption | apply (slice_len_le _ _ _ _ S)].
Qed.

Lemma bounded_readComcast g d : okP (bounded d) (readComcastEbp g d).
Proof.
  unfold readComcastEbp. destruct (len d <? 2); [apply okP_Err|].
  eapply okP_bind; [apply okP_any | intros [v i] _]. eapply okP_bind; [apply okP_any | intros [v2 i2] _].
  eapply (okP_bind fresh).
  { destruct (0 <? _); [|apply okP_Ok; split; reflexivity]. destruct (3 <=? len d); [|apply okP_Err].
    eapply okP_bind; [apply okP_any | intros [v3 i3] _; apply okP_Ok; split; reflexivity]. }
  intros s Hs. eapply okP_bind; [apply (fresh_rd_ext g d s Hs) | intros s1 H1].
  eapply okP_bind; [apply (fresh_rd_sap g d s1 H1) | intros s2 H2].
  eapply okP_bind; [apply (grouped_rd_group1 g d s2 H2) | intros s3 H3].
  eapply okP_bind; [apply (grouped_read_time g d s3 H3) | intros s4 H4].
  apply (bounded_read_reserved d s4 H4).
Qed.

Lemma bounded_readCableLabs g d : okP (bounded d) (readCableLabsEbp g d).
Proof.
  unfold readCableLabsEbp, readCableLabsEbp_with. destruct (len d <? 2); [apply okP_Err|].
  eapply okP_bind; [apply okP_any | intros [v i] _]. eapply okP_bind; [apply okP_any | intros [v2 i2] _].
  eapply (okP_bind fresh).
  { destruct (0 <? _); [|apply okP_Ok; split; reflexivity]. destruct (7 <=? len d); [|apply okP_Err].
    eapply okP_bind; [apply okP_any | intros [v3 i3] _].
    eapply okP_bind; [apply okP_any | intros [v4 i4] _; apply okP_Ok; split; reflexivity]. }
  intros s Hs. eapply okP_bind; [apply (fresh_rd_ext g d s Hs) | intros s1 H1].
  eapply okP_bind; [apply (fresh_rd_sap g d s1 H1) | intros s2 H2].
  eapply okP_bind; [apply (grouped_read_groups g d s2 H2) | intros s3 H3].
  eapply okP_bind; [apply (grouped_read_time g d s3 H3) | intros s4 H4].
  eapply okP_bind; [apply (grouped_rd_part g d s4 H4) | intros s5 H5].
  apply (bounded_read_reserved d s5 H5).
Qed.

Theorem read_ebp_bounded g bs f e : ReadEncoderBoundaryPoint g bs = Ok (f, e) ->
  len (Grouping e) <= 256 /\ len (ReservedBytes e) <= len bs.
Proof.
  unfold ReadEncoderBoundaryPoint. destruct (len bs =? 0); [discriminate|].
  destruct (idx bs 0) as [tag| | |]; cbn [bind]; try discriminate.
  destruct (tag =? ComcastEbpTag).
  - destruct (readComcastEbp g bs) as [x| | |] eqn:R; cbn [bind]; try discriminate.
    intro H; inversion H; subst. apply (bounded_readComcast g bs e R).
  - destruct (tag =? CableLabsEbpTag); [|discriminate].
    destruct (readCableLabsEbp g bs) as [x| | |] eqn:R; cbn [bind]; try discriminate.
    intro H; inversion H; subst. apply (bounded_readCableLabs g bs e R).
Qed.

(* the encoder's output is bounded by the object: tag + length + at most 5 + |ids| + 8 + 1 + 1 + |reserved| ... *)
Lemma data_bounded f e : len (fst (Data f e)) <= 18 + len (Grouping e) + len (ReservedBytes e).
Proof.
  destruct f; cbn [Data]; [unfold ComcastData | unfold CableLabsData]; destruct (DataFieldLength e =? 0); cbn [fst];
    try (rewrite len_nil; lia); unfold finish_data; cbn [fst]; rewrite !len_cons.
  - unfold comcast_body, time_bytes.
    destruct (ExtensionFlag e), (SapFlag e), (GroupingFlag e), (TimeFlag e);
      repeat first [rewrite len_app | rewrite len_cons | rewrite len_nil | rewrite len_to_be32]; lia.
  - unfold cablelabs_body, time_bytes.
    assert (L : forall l, len (cl_groups l) = len l).
    { induction l as [|x [|y r] IH]; [reflexivity | reflexivity |].
      change (cl_groups (x :: y :: r)) with (N.lor x 128 :: cl_groups (y :: r)). rewrite !len_cons in *. rewrite IH. reflexivity. }
    destruct (ExtensionFlag e), (SapFlag e), (GroupingFlag e), (TimeFlag e), (PartitionFlag e);
      repeat first [rewrite len_app | rewrite len_cons | rewrite len_nil | rewrite len_to_be32 | rewrite L]; lia.
Qed.
