(* C02, part 1: a well-formed packet (serialisation of a logical packet, Spec/Iso13818Hdr.v) is
   partitioned by Header and the two Payload accessors. *)
From Gots Require Import Base.Prelude Base.PacketLemmas Model.Packet Spec.Iso13818Hdr Proofs.HdrBits.
Import Packet.
Local Open Scope N_scope.

(* the leading part: 4 header bytes and the adaptation field *)
Definition hdr_part (l : Iso.lpkt) : bytes := Iso.ser_hdr (Iso.lh l) ++ Iso.ser_af (Iso.lf l).
Lemma ser_pkt_split l : Iso.ser_pkt l = hdr_part l ++ Iso.lpayload l.
Proof. unfold Iso.ser_pkt, hdr_part. rewrite app_assoc. reflexivity. Qed.
Lemma len_ser_hdr h : len (Iso.ser_hdr h) = 4.
Proof. reflexivity. Qed.

(* ---- the serialisation of a well-formed logical packet is a packet ---- *)
Lemma ser_hdr_bytes h : Iso.hdr_ok h -> is_bytes (Iso.ser_hdr h).
Proof.
  intros (A & B & C & D & F & G & I & J). unfold Iso.ser_hdr, is_bytes, is_byte.
  repeat constructor; lia.
Qed.
Lemma opt_bytes_ok o n : Iso.opt_is_len o n -> is_bytes (Iso.opt_bytes o).
Proof. destruct o; cbn; [intros [_ B]; exact B | intros _; constructor]. Qed.
Lemma wf_len l : Iso.wf_lpkt l -> len (Iso.ser_pkt l) = 188.
Proof. intros (_ & _ & _ & _ & L & _). unfold len. rewrite L. reflexivity. Qed.
Lemma flags_byte_lt a : Iso.laf_ok a -> Iso.flags_byte a < 256.
Proof.
  intros (T & _). unfold Iso.flags_byte, Iso.flag.
  destruct (Iso.pcr a), (Iso.opcr a), (Iso.splice a), (Iso.tpd a), (Iso.ext a); lia.
Qed.
Lemma lenprefixed_bytes o : is_bytes (Iso.opt_bytes o) -> len (Iso.opt_bytes o) < 256 -> is_bytes (Iso.opt_lenprefixed o).
Proof. destruct o; cbn; intros B L; [constructor; [exact L | exact B] | constructor]. Qed.
Lemma wf_is_pkt l : Iso.wf_lpkt l -> is_pkt (Iso.ser_pkt l).
Proof.
  intros W. pose proof (wf_len l W) as L188. destruct W as (HO & _ & AO & PB & L & _). split; [exact L|].
  unfold Iso.ser_pkt in *. apply is_bytes_app. split; [apply ser_hdr_bytes; exact HO|].
  apply is_bytes_app. split; [|exact PB].
  rewrite !len_app, len_ser_hdr in L188.
  destruct (Iso.lf l) as [| |a st]; cbn [Iso.ser_af Iso.afield_ok] in *; [constructor | repeat constructor; unfold is_byte; lia|].
  destruct AO as [LA SB]. rewrite len_cons, len_app in L188.
  constructor; [unfold is_byte; lia|]. apply is_bytes_app. split; [|exact SB].
  pose proof (flags_byte_lt a LA) as FL. destruct LA as (_ & P1 & P2 & P3 & P4 & P5).
  unfold Iso.ser_af_body in *. rewrite len_cons, !len_app in L188.
  constructor; [exact FL|]. apply is_bytes_app; split; [eapply opt_bytes_ok; exact P1|].
  apply is_bytes_app; split; [eapply opt_bytes_ok; exact P2|].
  apply is_bytes_app; split; [destruct (Iso.splice a); cbn; repeat constructor; exact P3|].
  apply is_bytes_app; split; apply lenprefixed_bytes; try assumption.
  - destruct (Iso.tpd a); cbn [Iso.opt_lenprefixed Iso.opt_bytes] in *; [rewrite len_cons in L188|rewrite len_nil]; lia.
  - destruct (Iso.ext a); cbn [Iso.opt_lenprefixed Iso.opt_bytes] in *; [rewrite len_cons in L188|rewrite len_nil]; lia.
Qed.
Lemma wf_hdr_of l : Iso.wf_lpkt l -> Iso.hdr_of (Iso.ser_pkt l) = Iso.lh l.
Proof. intros (HO & _). unfold Iso.ser_pkt. apply hdr_of_ser. exact HO. Qed.

(* ---- header flags of a well-formed packet ---- *)
Definition carries_payload (l : Iso.lpkt) : Prop := Iso.afc (Iso.lh l) = 1 \/ Iso.afc (Iso.lh l) = 3.
Lemma wf_afc_cases l : Iso.wf_lpkt l ->
  (Iso.lf l = Iso.NoAF /\ Iso.afc (Iso.lh l) = 1) \/
  (Iso.lf l <> Iso.NoAF /\ Iso.afc (Iso.lh l) = 2 /\ Iso.lpayload l = []) \/
  (Iso.lf l <> Iso.NoAF /\ Iso.afc (Iso.lh l) = 3 /\ Iso.lpayload l <> []).
Proof.
  intros (_ & _ & _ & _ & _ & C). destruct (Iso.lf l); [left; auto| |];
    (destruct C as [[A B]|[A B]]; [right; left | right; right]; repeat split; auto; discriminate).
Qed.
Lemma wf_flags l : Iso.wf_lpkt l -> let p := Iso.ser_pkt l in
  AdaptationFieldControl p = Iso.afc (Iso.lh l) /\
  HasAdaptationField p = (Iso.afc (Iso.lh l) / 2 =? 1) /\ ContainsAdaptationField p = (Iso.afc (Iso.lh l) / 2 =? 1) /\
  HasPayload p = (Iso.afc (Iso.lh l) mod 2 =? 1) /\ ContainsPayload p = (Iso.afc (Iso.lh l) mod 2 =? 1).
Proof.
  intros W p. pose proof (byte3_facts p (wf_is_pkt l W)) as F. cbv zeta in F. subst p. rewrite (wf_hdr_of l W) in F.
  unfold Iso.has_payload, Iso.has_af in F. intuition.
Qed.
(* byte 4 is the adaptation_field_length: the field occupies 1 + that many bytes *)
Lemma af_length_byte l : Iso.lf l <> Iso.NoAF ->
  1 + get (Iso.ser_pkt l) 4 = len (Iso.ser_af (Iso.lf l)).
Proof.
  intros NE. unfold get, Iso.ser_pkt. rewrite nthN_app_r by (rewrite len_ser_hdr; lia). rewrite len_ser_hdr.
  change (4 - 4) with 0. destruct (Iso.lf l) as [| |a st]; [congruence|reflexivity|].
  cbn [Iso.ser_af app]. unfold nthN. cbn [N.to_nat nth]. rewrite len_cons, len_app. reflexivity.
Qed.
Lemma payload_start l : Iso.wf_lpkt l -> let p := Iso.ser_pkt l in
  payloadStart_fn p = len (hdr_part l) /\ payloadStart_m p = len (hdr_part l).
Proof.
  intros W p. destruct (wf_flags l W) as (_ & HA & CA & _). fold p in HA, CA.
  unfold payloadStart_fn, payloadStart_m, AFP.Length. rewrite HA, CA. unfold hdr_part. rewrite len_app, len_ser_hdr.
  destruct (wf_afc_cases l W) as [[F A]|[(F & A & _)|(F & A & _)]]; rewrite A.
  - rewrite F. cbn. auto.
  - change (2 / 2 =? 1) with true. cbv iota. subst p. rewrite <- (af_length_byte l F). split; lia.
  - change (3 / 2 =? 1) with true. cbv iota. subst p. rewrite <- (af_length_byte l F). split; lia.
Qed.

(* ---- the partition ---- *)
Lemma partition l : Iso.wf_lpkt l -> let p := Iso.ser_pkt l in
  Header p = Ok (hdr_part l) /\
  (carries_payload l -> Payload_fn p = Ok (Iso.lpayload l) /\ Payload_m p = Ok (Iso.lpayload l)) /\
  (Iso.afc (Iso.lh l) = 2 -> Payload_fn p = Err E.NoPayload /\ Payload_m p = Err E.NoPayload /\ hdr_part l = p).
Proof.
  intros W p. destruct (payload_start l W) as [PF PM]. destruct (wf_flags l W) as (AFC & _ & _ & _ & CP).
  fold p in PF, PM, AFC, CP. pose proof (wf_len l W) as L. fold p in L.
  assert (len (hdr_part l) + len (Iso.lpayload l) = 188) as LL.
  { rewrite <- L. subst p. rewrite ser_pkt_split, len_app. reflexivity. }
  assert ((PacketSize <? len (hdr_part l)) = false) as NL by (apply N.ltb_ge; unfold PacketSize; lia).
  split; [|split].
  - unfold Header. rewrite PF, NL. subst p. rewrite ser_pkt_split. apply slice_app_l. reflexivity.
  - intros CPl. unfold Payload_fn, Payload_m. rewrite CP, AFC, PF, PM, NL.
    assert (Iso.afc (Iso.lh l) mod 2 =? 1 = true) as -> by (destruct CPl as [-> | ->]; reflexivity).
    assert (Iso.afc (Iso.lh l) =? 2 = false) as -> by (destruct CPl as [-> | ->]; reflexivity).
    cbn [negb]. subst p. rewrite ser_pkt_split. unfold PacketSize.
    split; apply slice_app_r; lia.
  - intros A2. unfold Payload_fn, Payload_m. rewrite CP, AFC, A2. split; [reflexivity|split; [reflexivity|]].
    destruct (wf_afc_cases l W) as [[_ A]|[(_ & _ & E)|(_ & A & _)]]; try congruence.
    subst p. rewrite ser_pkt_split, E, app_nil_r. reflexivity.
Qed.
Lemma wf_is_pkt_hdr l : Iso.wf_lpkt l -> is_pkt (Iso.ser_pkt l) /\ Iso.hdr_of (Iso.ser_pkt l) = Iso.lh l.
Proof. intros W. split; [apply wf_is_pkt | apply wf_hdr_of]; exact W. Qed.

(* PESHeader: the payload, when PUSI is set and it starts with the PES start code prefix 00 00 01 *)
Definition pes_start (pay : bytes) : bool :=
  (3 <? len pay) && (nthN pay 0 =? 0) && (nthN pay 1 =? 0) && (nthN pay 2 =? 1).
Lemma pes_header l : Iso.wf_lpkt l -> let p := Iso.ser_pkt l in
  (carries_payload l -> PESHeader p =
     if (Iso.pusi (Iso.lh l) =? 1) && pes_start (Iso.lpayload l) then Ok (Iso.lpayload l) else Err E.NoPayload) /\
  (Iso.afc (Iso.lh l) = 2 -> PESHeader p = Err E.NoPayload).
Proof.
  intros W p. destruct (partition l W) as (_ & P1 & P2). fold p in P1, P2.
  destruct (byte1_facts p (wf_is_pkt l W)) as (_ & _ & PU & _). unfold p in PU. rewrite (wf_hdr_of l W) in PU. fold p in PU.
  unfold PESHeader. rewrite PU. split.
  - intros CP. destruct (P1 CP) as [-> _]. cbn [bind]. fold (pes_start (Iso.lpayload l)).
    destruct (Iso.pusi (Iso.lh l) =? 1); cbn [andb]; reflexivity.
  - intros A2. destruct (P2 A2) as [-> _]. cbn [bind]. destruct (Iso.pusi (Iso.lh l) =? 1); reflexivity.
Qed.
