(* Soundness of the decidable hypothesis checkers of Spec/PmtSpec.v, and the decidable forms of L2, L4 and filter_spec. *)
From Gots Require Import Base.Prelude Model.Psi Model.Pmt Spec.PmtSpec Proofs.PmtBase Proofs.PmtParse Proofs.PmtTables
  Proofs.PmtRead Proofs.PmtMisc Proofs.PmtFilter.
Import Pmt.
Local Open Scope N_scope.

Lemma forallb_Forall {A} (f : A -> bool) (P : A -> Prop) l :
  (forall x, f x = true -> P x) -> forallb f l = true -> Forall P l.
Proof. intros H E. apply Forall_forall. intros x Hx. apply H. rewrite forallb_forall in E. exact (E x Hx). Qed.
Lemma is_bytesb_sound l : is_bytesb l = true -> is_bytes l.
Proof. apply forallb_Forall. intros x H. unfold is_byteb in H. unfold is_byte. lia. Qed.
Lemma bytes_eqb_sound : forall a b, bytes_eqb a b = true -> a = b.
Proof. induction a as [|x a IH]; destruct b as [|y b]; cbn [bytes_eqb]; intros H; try discriminate; [reflexivity|].
  apply andb_true_iff in H. destruct H as [H1 H2]. apply N.eqb_eq in H1. subst. f_equal. apply IH. exact H2. Qed.

Ltac split_andb H := repeat (let H1 := fresh "B" in apply andb_true_iff in H; destruct H as [H H1]).

Lemma wf_descb_sound d : wf_descb d = true -> wf_desc d.
Proof. unfold wf_descb, wf_desc. intros H. split_andb H. repeat split; try lia. apply is_bytesb_sound. assumption. Qed.
Lemma wf_esb_sound e : wf_esb e = true -> wf_es e.
Proof. unfold wf_esb, wf_es. intros H. split_andb H. repeat split; try lia.
  eapply forallb_Forall; [exact wf_descb_sound|assumption]. Qed.
Lemma wf_secb_sound s : wf_secb s = true -> wf_sec s.
Proof. unfold wf_secb, wf_sec. intros H. split_andb H. repeat split; try lia.
  - eapply forallb_Forall; [exact wf_descb_sound|assumption].
  - eapply forallb_Forall; [exact wf_esb_sound|assumption].
  - apply is_bytesb_sound. assumption. Qed.
Lemma wf_otherb_sound o : wf_otherb o = true -> wf_other o.
Proof. unfold wf_otherb, wf_other. intros H. split_andb H.
  repeat match goal with X : negb _ = true |- _ => apply negb_true_iff in X; apply N.eqb_neq in X end.
  repeat split; try lia; try assumption. apply is_bytesb_sound. assumption. Qed.
Lemma wf_carrierb_sound c : wf_carrierb c = true -> wf_carrier c.
Proof. unfold wf_carrierb, wf_carrier. intros H. split_andb H. split; [lia|split].
  - eapply forallb_Forall; [exact wf_otherb_sound|assumption].
  - apply wf_secb_sound. assumption. Qed.
Lemma wf_itemb_sound pid it : wf_itemb pid it = true -> wf_item pid it.
Proof. destruct it as [p|m af ch]; cbn [wf_itemb wf_item]; intros H.
  - split_andb H. apply negb_true_iff in B. apply N.eqb_neq in B. repeat split; try lia; try assumption. apply is_bytesb_sound. assumption.
  - unfold wf_pkt_parts, wf_misc. split_andb H. repeat split; try lia; try (apply is_bytesb_sound; assumption).
    destruct af as [a|]; [split_andb B|]; [split; [apply is_bytesb_sound; assumption|lia]|lia]. Qed.

Lemma inner_endb_complete c k : inner_end c k -> inner_endb c k = true.
Proof. intros (i & Hi & E). unfold inner_endb. apply existsb_exists. exists i. split; [apply in_seq; lia|apply N.eqb_eq; exact E]. Qed.
Lemma cuts_okb_sound c l : cuts_okb c l = true -> cuts_ok c l.
Proof. intros H j k Hk IE. unfold cuts_okb in H. rewrite forallb_forall in H.
  set (j' := Nat.min j (length l)).
  assert (EF: firstn j l = firstn j' l).
  { unfold j'. destruct (Nat.le_gt_cases j (length l)) as [Le|Gt]; [rewrite Nat.min_l by lia; reflexivity|].
    rewrite Nat.min_r by lia. rewrite !firstn_all2 by lia. reflexivity. }
  specialize (H j'). cbv zeta in H. rewrite <- EF in H. fold k in H.
  assert (IN: In j' (seq 0 (S (length l)))) by (apply in_seq; unfold j'; lia).
  specialize (H IN). rewrite (inner_endb_complete c k IE) in H. replace (k <? len (ser_unit c)) with true in H by lia.
  discriminate. Qed.
Lemma all_mineb_sound l : all_mineb l = true -> all_mine l.
Proof. apply forallb_Forall. intros [p|m af ch] H; [discriminate|exact I]. Qed.

(* decidable form of L4: when the checker accepts, the reader returns the logical streams *)
Theorem hyp_readb_sound c pid l : hyp_readb c pid l = true ->
  read_pmt (packetise pid l) pid = Ok (sec_result (sec c)).
Proof. unfold hyp_readb. intros H.
  apply andb_true_iff in H. destruct H as [H B4]. apply andb_true_iff in H. destruct H as [H B3].
  apply andb_true_iff in H. destruct H as [H B2]. apply andb_true_iff in H. destruct H as [H B1].
  apply read_pmt_ok.
  - apply wf_carrierb_sound. assumption.
  - destruct (sstreams (sec c)); [discriminate|discriminate].
  - eapply forallb_Forall; [exact (wf_itemb_sound pid)|assumption].
  - exists (stuffing c). apply bytes_eqb_sound. assumption.
  - apply cuts_okb_sound. assumption. Qed.

(* decidable form of filter_spec *)
Theorem hyp_filterb_sound c pid l want : hyp_filterb c pid l = true -> want <> [] ->
  filter_pmt_packets (ser_items pid true l) want =
  Ok (let missing := missing_of (map epid (sstreams (sec c))) pid want in
      if none_present (map epid (sstreams (sec c))) pid want then (None, Some missing)
      else (Some (spec_repack (hdrs_of pid true l)
                    (ser_unit {| pf := pf c; pre := []; sec := filtered_sec (sec c) want; stuffing := 0 |})),
            match missing with [] => None | _ => Some missing end)).
Proof. unfold hyp_filterb. intros H WN.
  apply andb_true_iff in H. destruct H as [H B4]. apply andb_true_iff in H. destruct H as [H B3].
  apply andb_true_iff in H. destruct H as [H B2]. apply andb_true_iff in H. destruct H as [H B1].
  apply filter_ok; try assumption.
  - apply wf_carrierb_sound. assumption.
  - destruct (pre c); [reflexivity|discriminate].
  - apply all_mineb_sound. assumption.
  - eapply forallb_Forall; [exact (wf_itemb_sound pid)|assumption].
  - apply bytes_eqb_sound. assumption. Qed.

Theorem hyp_interruptedb_sound ca cb pid la lb tail : hyp_interruptedb ca cb pid la lb = true ->
  read_pmt (packetise pid la ++ packetise pid lb ++ tail) pid = Ok (sec_result (sec cb)).
Proof. unfold hyp_interruptedb. intros H.
  apply andb_true_iff in H. destruct H as [H B5]. apply andb_true_iff in H. destruct H as [H B4].
  apply andb_true_iff in H. destruct H as [H B3]. apply andb_true_iff in H. destruct H as [H B2].
  apply andb_true_iff in H. destruct H as [H B1].
  unfold hyp_readb in B1.
  apply andb_true_iff in B1. destruct B1 as [B1 C4]. apply andb_true_iff in B1. destruct B1 as [B1 C3].
  apply andb_true_iff in B1. destruct B1 as [B1 C2]. apply andb_true_iff in B1. destruct B1 as [B1 C1].
  apply (read_pmt_after_interrupted ca cb).
  - apply wf_carrierb_sound. exact H.
  - apply wf_carrierb_sound. exact B1.
  - destruct (sstreams (sec cb)); [discriminate|discriminate].
  - eapply forallb_Forall; [exact (wf_itemb_sound pid)|exact B2].
  - eapply forallb_Forall; [exact (wf_itemb_sound pid)|exact C2].
  - apply bytes_eqb_sound in B4. exists (dropN (len (concat (chunks la))) (ser_unit ca)), 0.
    rewrite B4 at 1. change (repeatN 255 0) with (@nil N). rewrite app_nil_r. unfold takeN, dropN. apply firstn_skipn.
  - apply N.ltb_lt. exact B3.
  - apply cuts_okb_sound. exact B5.
  - exists (stuffing cb). apply bytes_eqb_sound. exact C3.
  - apply cuts_okb_sound. exact C4. Qed.
