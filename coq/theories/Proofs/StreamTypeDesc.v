(* C20, part 2: the PMT descriptor decoders on every well-formed body, and on every other tag. *)
From Gots Require Import Base.Prelude Model.PmtDesc Spec.StreamTypes Proofs.StreamType.
Import PmtDesc StreamTypesSpec.

(* ---- bit slicing (lemmas of notes/spikes/Pcr_roundtrip.v) ---- *)
Lemma lor_shiftl_add a b k : b < 2^k -> N.lor (N.shiftl a k) b = a * 2^k + b.
Proof. intros H. rewrite <- N.shiftl_mul_pow2. rewrite <- N.lxor_lor, <- N.add_nocarry_lxor; try reflexivity;
  apply N.bits_inj; intro n; rewrite N.land_spec, N.bits_0;
  (destruct (N.lt_ge_cases n k) as [Hn|Hn];
   [rewrite N.shiftl_spec_low by assumption; reflexivity|
    replace (N.testbit b n) with false; [apply andb_false_r|];
    symmetry; destruct (N.eq_dec b 0) as [->|Hb]; [apply N.bits_0|];
    apply N.bits_above_log2; apply N.log2_lt_pow2; [lia|];
    eapply N.lt_le_trans; [exact H|]; apply N.pow_le_mono_r; lia]). Qed.
Lemma lor_mult_add a b k : a mod 2^k = 0 -> b < 2^k -> N.lor a b = a + b.
Proof. intros Ha Hb. assert (E: a = N.shiftl (a / 2^k) k).
  { rewrite N.shiftl_mul_pow2. pose proof (N.div_mod a (2^k)) as D.
    assert (2^k <> 0) by (apply N.pow_nonzero; lia). specialize (D H). rewrite Ha in D. lia. }
  rewrite E at 1. rewrite lor_shiftl_add by assumption. rewrite <- N.shiftl_mul_pow2, <- E. reflexivity. Qed.
Lemma land31 x : N.land x 31 = x mod 32. Proof. change 31 with (N.ones 5). apply N.land_ones. Qed.

(* the 21-bit assembly of DecodeMaximumBitRate *)
Lemma assemble21 b0 b1 b2 : b1 < 256 -> b2 < 256 ->
  N.lor (N.lor (N.shiftl (N.land b0 31) 16) (N.shiftl b1 8)) b2 = (b0 mod 32) * 65536 + b1 * 256 + b2.
Proof. intros H1 H2. rewrite land31, !N.shiftl_mul_pow2. change (2^16) with 65536. change (2^8) with 256.
  rewrite (lor_mult_add (b0 mod 32 * 65536) (b1 * 256) 16); [|change (2^16) with 65536; lia|change (2^16) with 65536; lia].
  rewrite (lor_mult_add _ b2 8); [reflexivity|change (2^8) with 256; lia|change (2^8) with 256; lia]. Qed.

(* ---- reading the first bytes of a literal-headed list ---- *)
Lemma idx0 a l : idx (a :: l) 0 = Ok a. Proof. reflexivity. Qed.
Lemma idx1 a b l : idx (a :: b :: l) 1 = Ok b. Proof. reflexivity. Qed.
Lemma idx2 a b c l : idx (a :: b :: c :: l) 2 = Ok c. Proof. reflexivity. Qed.
Lemma idx3 a b c d l : idx (a :: b :: c :: d :: l) 3 = Ok d. Proof. reflexivity. Qed.
Lemma idx4 a b c d e l : idx (a :: b :: c :: d :: e :: l) 4 = Ok e. Proof. reflexivity. Qed.
Lemma len_cons {A} (x : A) l : len (x :: l) = 1 + len l.
Proof. unfold len. cbn [length]. lia. Qed.
Lemma len_ge3 {A} (a b c : A) l : 3 <= len (a :: b :: c :: l). Proof. rewrite !len_cons. lia. Qed.
Lemma slice03 a b c l : slice (a :: b :: c :: l) 0 3 = Ok [a; b; c].
Proof. unfold slice. assert (E : (0 <=? 3) && (3 <=? len (a :: b :: c :: l)) = true).
  { pose proof (len_ge3 a b c l). apply andb_true_intro. split; apply N.leb_le; lia. }
  rewrite E. reflexivity. Qed.
Lemma slice14 x a b c l : slice (x :: a :: b :: c :: l) 1 4 = Ok [a; b; c].
Proof. unfold slice. assert (E : (1 <=? 4) && (4 <=? len (x :: a :: b :: c :: l)) = true).
  { rewrite !len_cons. apply andb_true_intro. split; apply N.leb_le; lia. }
  rewrite E. reflexivity. Qed.
Lemma slice04 a b c d l : slice (a :: b :: c :: d :: l) 0 4 = Ok [a; b; c; d].
Proof. unfold slice. assert (E : (0 <=? 4) && (4 <=? len (a :: b :: c :: d :: l)) = true).
  { rewrite !len_cons. apply andb_true_intro. split; apply N.leb_le; lia. }
  rewrite E. reflexivity. Qed.
Lemma slice24 a b c d l : slice (a :: b :: c :: d :: l) 2 4 = Ok [c; d].
Proof. unfold slice. assert (E : (2 <=? 4) && (4 <=? len (a :: b :: c :: d :: l)) = true).
  { rewrite !len_cons. apply andb_true_intro. split; apply N.leb_le; lia. }
  rewrite E. reflexivity. Qed.
Lemma leb3 {A} (a b c : A) l : (3 <=? len (a :: b :: c :: l)) = true.
Proof. rewrite !len_cons. apply N.leb_le. lia. Qed.
Lemma leb4 {A} (a b c d : A) l : (4 <=? len (a :: b :: c :: d :: l)) = true.
Proof. rewrite !len_cons. apply N.leb_le. lia. Qed.
Lemma leb5 {A} (a b c d e : A) l : (5 <=? len (a :: b :: c :: d :: e :: l)) = true.
Proof. rewrite !len_cons. apply N.leb_le. lia. Qed.

Lemma lang3_inv l : lang3 l -> exists a b c, l = [a; b; c].
Proof. intros [H _]. destruct l as [|a [|b [|c [|d l]]]]; try discriminate. eauto. Qed.

(* ---- maximum_bitrate_descriptor ---- *)
Lemma max_bitrate res rate rest : wf_max_bitrate res rate ->
  decode_maximum_bit_rate (mk MAXIMUM_BITRATE (ser_max_bitrate res rate ++ rest)) = Ok rate.
Proof. intros [Hres Hrate]. unfold decode_maximum_bit_rate, is_maximum_bitrate_descriptor, ser_max_bitrate.
  cbn [tag data app]. rewrite N.eqb_refl, leb3. cbn [andb]. rewrite idx0, idx1, idx2. cbn [bind].
  rewrite assemble21 by lia. f_equal. lia. Qed.

Lemma max_bitrate_bound d r : decode_maximum_bit_rate d = Ok r -> is_bytes (data d) -> r < 2097152.
Proof. unfold decode_maximum_bit_rate.
  destruct (is_maximum_bitrate_descriptor d && (3 <=? len (data d))); [|intros [= <-]; lia].
  destruct (data d) as [|b0 [|b1 [|b2 l]]]; try discriminate.
  rewrite idx0, idx1, idx2. cbn [bind]. intros [= <-] Hb.
  inversion Hb as [|? ? _ Hb1]; subst. inversion Hb1 as [|? ? H1 Hb2]; subst. inversion Hb2 as [|? ? H2 _]; subst.
  unfold is_byte in *. rewrite assemble21 by assumption. lia. Qed.

(* stream level: MaxBitRate() = the first maximum-bitrate descriptor x 50 x 8 *)
Lemma stream_max_bit_rate pre res rate rest post : wf_max_bitrate res rate ->
  Forall (fun d => tag d <> MAXIMUM_BITRATE) pre ->
  max_bit_rate (pre ++ mk MAXIMUM_BITRATE (ser_max_bitrate res rate ++ rest) :: post) = Ok (bits_per_second rate).
Proof. intros W Hpre. induction Hpre as [|d pre Hd _ IH]; cbn [app max_bit_rate].
  - unfold is_maximum_bitrate_descriptor at 1. cbn [tag]. rewrite N.eqb_refl.
    rewrite max_bitrate by exact W. cbn [bind]. unfold bits_per_second, w64, BitsPerByte, MaxBitRateBytesPerSecond.
    destruct W as [_ Hr]. f_equal. lia.
  - unfold is_maximum_bitrate_descriptor at 1. apply N.eqb_neq in Hd. rewrite Hd. exact IH. Qed.
Lemma stream_no_max_bit_rate ds : Forall (fun d => tag d <> MAXIMUM_BITRATE) ds -> max_bit_rate ds = Ok 0.
Proof. induction 1 as [|d ds Hd _ IH]; [reflexivity|]. cbn [max_bit_rate].
  unfold is_maximum_bitrate_descriptor. apply N.eqb_neq in Hd. rewrite Hd. exact IH. Qed.

(* ---- ISO_639_language_descriptor ---- *)
Lemma iso639 l a more : lang3 l ->
  decode_iso639_language_code (mk LANGUAGE (ser_iso639 ((l, a) :: more))) = Ok l /\
  decode_iso639_audio_type (mk LANGUAGE (ser_iso639 ((l, a) :: more))) = Ok a.
Proof. intros H. destruct (lang3_inv l H) as (x & y & z & ->).
  unfold decode_iso639_language_code, decode_iso639_audio_type. cbn [ser_iso639 app tag data].
  rewrite N.eqb_refl. rewrite slice03, leb3, leb4, idx3. split; reflexivity. Qed.

(* ---- TTML subtitling descriptor in the extension descriptor ---- *)
Lemma ttml l purpose suit rest : wf_ttml l purpose suit rest ->
  let d := mk EXTENSION (ser_ttml l purpose suit rest) in
  decode_ttml_iso639_language_code d = Ok l /\ decode_ttml_subtitle_purpose d = Ok purpose /\
  is_ttml_subtitling_descriptor d = true /\ is_ttml_desc_tag_extension d = true.
Proof. intros (H & Hp & Hs & _) d. destruct (lang3_inv l H) as (x & y & z & ->). subst d.
  unfold decode_ttml_iso639_language_code, decode_ttml_subtitle_purpose, is_ttml_subtitling_descriptor,
    is_ttml_desc_tag_extension, ser_ttml. cbn [app tag data].
  rewrite N.eqb_refl, leb4, leb5, slice14, idx4. cbn [bind]. repeat split.
  f_equal. rewrite N.shiftr_div_pow2. change (2^2) with 4. lia. Qed.

Lemma stream_ttml pre l purpose suit rest post : wf_ttml l purpose suit rest ->
  is_ttml_subtitling (pre ++ mk EXTENSION (ser_ttml l purpose suit rest) :: post) = true.
Proof. intros W. induction pre as [|d pre IH]; cbn [app is_ttml_subtitling].
  - destruct (ttml l purpose suit rest W) as (_ & _ & -> & ->). reflexivity.
  - destruct (is_ttml_subtitling_descriptor d && is_ttml_desc_tag_extension d); [reflexivity|exact IH]. Qed.
Lemma stream_no_ttml ds : Forall (fun d => tag d <> EXTENSION) ds -> is_ttml_subtitling ds = false.
Proof. induction 1 as [|d ds Hd _ IH]; [reflexivity|]. cbn [is_ttml_subtitling].
  unfold is_ttml_subtitling_descriptor. apply N.eqb_neq in Hd. rewrite Hd. exact IH. Qed.

(* ---- registration descriptor: DOVI ---- *)
Lemma is_dovi_iff fid rest : length fid = 4%nat -> is_bytes fid ->
  exists b, is_dolby_vision (mk REGISTRATION (ser_registration fid rest)) = Ok b /\ (b = true <-> fid = DOVI).
Proof. intros Hl Hb. destruct fid as [|a [|b [|c [|e [|x fid]]]]]; try discriminate.
  unfold is_dolby_vision, ser_registration. cbn [app tag data]. rewrite N.eqb_refl, leb4, slice04. cbn [bind].
  eexists. split; [reflexivity|].
  inversion Hb as [|? ? Ha Hb1]; subst. inversion Hb1 as [|? ? Hb' Hb2]; subst.
  inversion Hb2 as [|? ? Hc Hb3]; subst. inversion Hb3 as [|? ? He _]; subst. unfold is_byte in *.
  unfold be32, DOVI. rewrite N.eqb_eq. split.
  - intros E. assert (a = 68 /\ b = 79 /\ c = 86 /\ e = 73) as (-> & -> & -> & ->) by lia. reflexivity.
  - intros [= -> -> -> ->]. reflexivity. Qed.

(* ---- Dolby Vision codec string ---- *)
Definition codec_of_num (num : N) : bytes :=
  dvhe ++ [dot] ++ fmt02d (w8 (N.shiftr (N.land num 65024) 9)) ++ [dot] ++ fmt02d (w8 (N.shiftr (N.land num 252) 3)).
Lemma dv_struct major minor hi lo rest :
  decode_dolby_vision_codec (mk DOLBY_VISION (major :: minor :: hi :: lo :: rest)) = Ok (codec_of_num (be16 hi lo)).
Proof. unfold decode_dolby_vision_codec. cbn [tag data]. rewrite N.eqb_refl, leb4, slice24. reflexivity. Qed.

Definition list_eqb (a b : bytes) : bool :=
  (length a =? length b)%nat && forallb (fun p => fst p =? snd p) (combine a b).
Lemma list_eqb_eq a b : list_eqb a b = true -> a = b.
Proof. unfold list_eqb. revert b. induction a as [|x a IH]; intros [|y b]; cbn; try discriminate; [reflexivity|].
  intros H. apply andb_true_iff in H. destruct H as [Hl H]. apply andb_true_iff in H. destruct H as [Hx H].
  apply N.eqb_eq in Hx. subst. f_equal. apply IH. rewrite Hl, H. reflexivity. Qed.

Definition dv_ok (profile level flags : N) : bool :=
  let num := profile * 512 + level * 8 + flags in
  list_eqb (codec_of_num (be16 (num / 256) (num mod 256))) (dv_codec profile level).
Lemma dv_sweep : forallb (fun p => forallb (fun l => forallb (dv_ok p l) (nrange 8 0)) (nrange 32 0)) (nrange 128 0) = true.
Proof. vm_compute. reflexivity. Qed.
Lemma dv_codec_ok major minor profile level flags rest : wf_dv major minor profile level flags ->
  decode_dolby_vision_codec (mk DOLBY_VISION (ser_dv major minor profile level flags rest)) = Ok (dv_codec profile level).
Proof. intros (_ & _ & Hp & Hl & Hf). unfold ser_dv. cbn [app]. rewrite dv_struct. f_equal.
  pose proof dv_sweep as S. rewrite forallb_forall in S.
  specialize (S profile (nrange_in 128 0 profile ltac:(lia))). rewrite forallb_forall in S.
  specialize (S level (nrange_in 32 0 level ltac:(lia))). rewrite forallb_forall in S.
  specialize (S flags (nrange_in 8 0 flags ltac:(lia))). apply list_eqb_eq. exact S. Qed.

(* "%02d" as modelled = decimal padded to two characters, for every uint8 *)
Lemma fmt02d_dec2 n : n < 256 -> fmt02d n = dec2 n.
Proof. intros H. apply list_eqb_eq. revert n H. apply sweep256. vm_compute. reflexivity. Qed.
(* the shape the property names: exactly two decimal digits each when profile < 100 *)
Lemma dv_codec_shape profile level : profile < 100 -> level < 32 ->
  dv_codec profile level = [100; 118; 104; 101; 46; 48 + profile / 10; 48 + profile mod 10; 46; 48 + level / 10; 48 + level mod 10].
Proof. intros Hp Hl. apply list_eqb_eq.
  assert (S : forallb (fun p => forallb (fun l => list_eqb (dv_codec p l)
     [100; 118; 104; 101; 46; 48 + p / 10; 48 + p mod 10; 46; 48 + l / 10; 48 + l mod 10]) (nrange 32 0)) (nrange 100 0) = true)
    by (vm_compute; reflexivity).
  rewrite forallb_forall in S. specialize (S profile (nrange_in 100 0 profile ltac:(lia))).
  rewrite forallb_forall in S. exact (S level (nrange_in 32 0 level ltac:(lia))). Qed.

(* ---- a decoder applied to a descriptor of another tag returns its neutral value ---- *)
Lemma neutral_max_bitrate d : tag d <> MAXIMUM_BITRATE -> decode_maximum_bit_rate d = Ok 0.
Proof. intros H. unfold decode_maximum_bit_rate, is_maximum_bitrate_descriptor. apply N.eqb_neq in H. rewrite H. reflexivity. Qed.
Lemma neutral_iso639_code d : tag d <> LANGUAGE -> decode_iso639_language_code d = Ok [].
Proof. intros H. unfold decode_iso639_language_code. rewrite N.eqb_sym. apply N.eqb_neq in H. rewrite H. reflexivity. Qed.
Lemma neutral_iso639_audio_type d : tag d <> LANGUAGE -> decode_iso639_audio_type d = Ok 0.
Proof. intros H. unfold decode_iso639_audio_type. apply N.eqb_neq in H. rewrite H. reflexivity. Qed.
Lemma neutral_ttml_code d : tag d <> EXTENSION -> decode_ttml_iso639_language_code d = Ok [].
Proof. intros H. unfold decode_ttml_iso639_language_code. apply N.eqb_neq in H. rewrite H. reflexivity. Qed.
Lemma neutral_ttml_purpose d : tag d <> EXTENSION -> decode_ttml_subtitle_purpose d = Ok 255.
Proof. intros H. unfold decode_ttml_subtitle_purpose. apply N.eqb_neq in H. rewrite H. reflexivity. Qed.
Lemma neutral_dovi d : tag d <> REGISTRATION -> is_dolby_vision d = Ok false.
Proof. intros H. unfold is_dolby_vision. apply N.eqb_neq in H. rewrite H. reflexivity. Qed.
Lemma neutral_dv_codec d : tag d <> DOLBY_VISION -> decode_dolby_vision_codec d = Ok [].
Proof. intros H. unfold decode_dolby_vision_codec. apply N.eqb_neq in H. rewrite H. reflexivity. Qed.

(* F12: the pinned DecodeIso639AudioType (no tag test) is not neutral on another tag *)
Lemma audio_type_unrepaired_refuted :
  exists d, tag d <> LANGUAGE /\ audio_type_unrepaired d = Ok 1 /\ decode_iso639_audio_type d = Ok 0.
Proof. exists (mk 0 [0; 0; 0; 1]). repeat split. discriminate. Qed.

(* ---- the statements in the shape Properties/C20.v gives them (hypotheses unfolded) ---- *)
Lemma max_bitrate_c20 res rate rest : res < 4 -> rate < 2097152 ->
  decode_maximum_bit_rate (mk 0x0E (ser_max_bitrate res rate ++ rest)) = Ok rate.
Proof. intros H1 H2. apply max_bitrate. split; assumption. Qed.
Lemma stream_max_bit_rate_c20 pre res rate rest post : res < 4 -> rate < 2097152 ->
  Forall (fun d => tag d <> 0x0E) pre ->
  max_bit_rate (pre ++ mk 0x0E (ser_max_bitrate res rate ++ rest) :: post) = Ok (rate * 50 * 8).
Proof. intros H1 H2. apply stream_max_bit_rate. split; assumption. Qed.
Lemma iso639_c20 l a more : length l = 3%nat -> is_bytes l ->
  decode_iso639_language_code (mk 0x0A (ser_iso639 ((l, a) :: more))) = Ok l /\
  decode_iso639_audio_type (mk 0x0A (ser_iso639 ((l, a) :: more))) = Ok a.
Proof. intros H1 H2. apply iso639. split; assumption. Qed.
Lemma wrong_tag_neutral d :
  (tag d <> 0x0E -> decode_maximum_bit_rate d = Ok 0) /\
  (tag d <> 0x0A -> decode_iso639_language_code d = Ok []) /\
  (tag d <> 0x0A -> decode_iso639_audio_type d = Ok 0) /\
  (tag d <> 0x7F -> decode_ttml_iso639_language_code d = Ok []) /\
  (tag d <> 0x7F -> decode_ttml_subtitle_purpose d = Ok 0xFF) /\
  (tag d <> 0x05 -> is_dolby_vision d = Ok false) /\
  (tag d <> 0xB0 -> decode_dolby_vision_codec d = Ok []).
Proof. repeat split. apply neutral_max_bitrate. apply neutral_iso639_code. apply neutral_iso639_audio_type.
  apply neutral_ttml_code. apply neutral_ttml_purpose. apply neutral_dovi. apply neutral_dv_codec. Qed.
Lemma stream_without_descriptor ds :
  (Forall (fun d => tag d <> 0x0E) ds -> max_bit_rate ds = Ok 0) /\
  (Forall (fun d => tag d <> 0x7F) ds -> is_ttml_subtitling ds = false).
Proof. split. apply stream_no_max_bit_rate. apply stream_no_ttml. Qed.

(* ISO 639: first entry followed by ANY bytes (subsumes `iso639`, whose tail is a list of further entries) *)
Lemma iso639_any_tail l a rest : length l = 3%nat -> is_bytes l ->
  decode_iso639_language_code (mk 0x0A (l ++ a :: rest)) = Ok l /\
  decode_iso639_audio_type (mk 0x0A (l ++ a :: rest)) = Ok a.
Proof. intros H1 H2. destruct (lang3_inv l (conj H1 H2)) as (x & y & z & ->).
  unfold decode_iso639_language_code, decode_iso639_audio_type. cbn [app tag data].
  change (LANGUAGE =? 10) with true. change (10 =? LANGUAGE) with true.
  rewrite slice03, leb3, leb4, idx3. split; reflexivity. Qed.

(* IsTTMLSubtitling: exactly when some descriptor has tag 0x7F and descriptor_tag_extension 0x20 *)
Lemma stream_ttml_iff ds :
  is_ttml_subtitling ds = true <-> exists d rest, In d ds /\ tag d = 0x7F /\ data d = 0x20 :: rest.
Proof. induction ds as [|d ds IH]; cbn [is_ttml_subtitling].
  - split; [discriminate|]. intros (d & rest & [] & _).
  - destruct (is_ttml_subtitling_descriptor d && is_ttml_desc_tag_extension d) eqn:E.
    + split; [|reflexivity]. intros _. apply andb_true_iff in E. destruct E as [E1 E2].
      unfold is_ttml_subtitling_descriptor in E1. apply N.eqb_eq in E1.
      unfold is_ttml_desc_tag_extension in E2. destruct (data d) as [|b rest] eqn:Ed; [discriminate|].
      apply N.eqb_eq in E2. subst b. exists d, rest. split; [left; reflexivity|]. split; assumption.
    + rewrite IH. split.
      * intros (d' & rest & Hin & H). exists d', rest. split; [right; exact Hin|exact H].
      * intros (d' & rest & [->|Hin] & Ht & Hd); [|exists d', rest; auto].
        exfalso. unfold is_ttml_subtitling_descriptor, is_ttml_desc_tag_extension in E. rewrite Ht, Hd in E.
        discriminate. Qed.
