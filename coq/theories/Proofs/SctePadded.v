(* C08: decode_ser with arbitrary bytes after the section (PSI payloads are padded with 0xFF up to the packet
   boundary): the decoder never looks behind the descriptor loop, Data() returns section + padding. *)
From Gots Require Import Base.Prelude Model.Pts Model.Scte Spec.Scte35Spec Proofs.ScteLemmas Proofs.ScteExpected Proofs.ScteDecode.
Import Scte Scte35Spec.
Local Open Scope N_scope.
Arguments N.mul : simpl never. Arguments N.add : simpl never. Arguments N.div : simpl never.
Arguments N.modulo : simpl never. Arguments N.land : simpl never. Arguments N.shiftr : simpl never.
Arguments N.sub : simpl never. Arguments N.ltb : simpl never. Arguments N.eqb : simpl never.
Arguments N.leb : simpl never.

Definition padded (s : splice_info) (tr : bytes) : bytes := len (si_pointer s) :: si_pointer s ++ ser_section s ++ tr.
Definition set_data (st : scte) (d : bytes) : scte :=
  mkscte (s_id st) (s_tid st) (s_ssi st) (s_pi st) (s_slen st) (s_protocol st) (s_encrypted st) (s_enc_alg st)
         (s_pts st) (s_cw st) (s_tier st) (s_scl st) (s_cmd_type st) (s_cmd st) (s_descs st) (s_stuffing st) d (s_other st).
Lemma padded_nil s : padded s [] = ser_splice_info s.
Proof. unfold padded, ser_splice_info. rewrite app_nil_r. reflexivity. Qed.

Lemma parse_table_fixed_p s tr : wf_fixed s -> si_table_id s = 252 -> si_encrypted s = false ->
  new_scte35 (padded s tr) =
  (let? r := parse_command (command_type (si_cmd s)) (si_pts_adj s)
               (mkbuf (ser_command (si_cmd s) ++ sec_tail s ++ tr) (Some (command_type (si_cmd s)))) in
   let '(pts, cmd, b) := r in
   let? od := parse_descriptors 1 (padded s tr) b in
   let (other, descs) := od in
   Ok (mkscte 1 252 (si_ssi s) (si_private s) (section_length s mod 1024) (si_protocol s) false (si_enc_alg s)
              pts (si_cw s) (si_tier s) (cmd_len_field s) (command_type (si_cmd s)) cmd descs 0 (ser_section s ++ tr) other)).
Proof.
  intros (Hptr & Hsap & Hea & Hadj & Htier & Hcl & Hsl) Htid Henc.
  pose proof (len_ser_body s) as LB.
  unfold new_scte35, parse_table, padded. cbn [pointer_field].
  set (SEC := ser_section s ++ tr).
  assert (LS : len SEC = 7 + len (ser_body s) + len tr)
    by (unfold SEC, ser_section, ser_section_nocrc, ser_header; rewrite !len_app, !len_cons, len_to_be32, len_nil; lia).
  rewrite len_cons, len_app. unfold w16, w8. rewrite !N.mod_small by lia.
  bfalse (1 + (len (si_pointer s) + len SEC) <? len (si_pointer s) + 4 + 15). red1.
  unfold buf_new.
  change (len (si_pointer s) :: si_pointer s ++ SEC) with ((len (si_pointer s) :: si_pointer s) ++ SEC).
  rewrite next_app by (rewrite len_cons; lia). red1.
  rewrite slice_from_app by (rewrite len_cons; lia).
  unfold SEC at 1. unfold ser_section, ser_section_nocrc, ser_header, ser_body, to_be32 at 1.
  rewrite <- !app_assoc. cbn [app].
  rewrite next3. red1.
  unfold table_header_from_bytes.
  match goal with |- context [len ?l <? 3] => change (len l <? 3) with false end. red1.
  rewrite idx0, idx1, idx2. red1.
  destruct (hdr_bits (si_ssi s) (si_private s) (si_sap s) (section_length s) Hsap Hsl) as (B1 & B2 & B3).
  cbv zeta in B1, B2, B3. rewrite B1, B2, B3. clear B1 B2 B3.
  rewrite Htid. change (252 =? 252) with true. red1.
  rewrite rb0. red1. rewrite rb0. red1.
  rewrite Henc. cbn [b2n].
  set (f := 128 * 0 + 2 * si_enc_alg s + si_pts_adj s / T32).
  assert (Hf : f < 128) by (unfold f, T32; lia).
  rewrite land128 by lia. btrue (128 * (f / 128) =? 0). red1.
  rewrite unread_some. red1. rewrite rb0. red1. rewrite unread_some. red1.
  rewrite next5. red1. rewrite uint40_5. red1.
  rewrite shr1land63 by lia.
  replace ((f / 2) mod 64) with (si_enc_alg s) by (unfold f, T32; lia).
  unfold f, T32. rewrite (u33_rt (si_pts_adj s) (128 * 0 + 2 * si_enc_alg s)) by (try assumption; lia).
  rewrite rb0. red1. rewrite next3. red1. rewrite idx0, idx1, idx2. red1.
  assert (Hclf : cmd_len_field s < 4096) by (unfold cmd_len_field; destruct (si_legacy_len s); lia).
  set (t1 := si_tier s mod 16 * 16 + cmd_len_field s / 256).
  assert (Ht1 : t1 < 256) by (unfold t1; lia).
  rewrite land240s4, land15 by exact Ht1.
  replace (si_tier s / 16 * 16 + t1 / 16) with (si_tier s) by (unfold t1; lia).
  replace (t1 mod 16 * 256 + cmd_len_field s mod 256) with (cmd_len_field s) by (unfold t1; lia).
  rewrite rb0. red1. unfold sec_tail, SEC, ser_section, ser_section_nocrc. rewrite <- !app_assoc. reflexivity.
Qed.

Lemma data_fuel_p s tr : (length (ser_descriptors (si_descs s)) <= length (padded s tr))%nat.
Proof.
  unfold padded, ser_section, ser_section_nocrc, ser_body. cbn [length]. rewrite !app_length. lia.
Qed.

Theorem decode_ser_padded s tr : supported s ->
  new_scte35 (padded s tr) = Ok (set_data (expected s) (ser_section s ++ tr)).
Proof.
  intros (Hwf & Htid & Henc & Hptr & Hsup).
  rewrite parse_table_fixed_p by (try assumption; apply wf_fixed_of; assumption).
  destruct Hwf as (Hsap & Hea & Hadj & Htier & Hcmd & Hcl & Hds & Hdl & Hsl).
  destruct (parse_command_ser (si_cmd s) (si_pts_adj s) (sec_tail s ++ tr) (Some (command_type (si_cmd s))) Hcmd Hsup Hadj) as [l1 E1].
  rewrite E1. red1. unfold sec_tail. rewrite <- !app_assoc.
  rewrite parse_descriptors_ser; try assumption.
  - red1. unfold expected, expected_pts, set_data. cbn. rewrite Htid. destruct (si_cmd s); reflexivity.
  - rewrite !len_app, len_to_be32. lia.
  - apply data_fuel_p.
Qed.
