(* C09: on clean normal states decoding the encoded bytes returns exactly the (updated) struct, hence every getter. *)
From Gots Require Import Base.Prelude Model.Pts Model.Scte Model.ScteEnc Spec.Scte35Spec
  Proofs.ScteLemmas Proofs.ScteExpected Proofs.ScteLogical Proofs.ScteDecode Proofs.ScteEncode Proofs.ScteRoundtrip
  Proofs.ScteCanonical.
Import Scte ScteEnc Scte35Spec.
Local Open Scope N_scope.
Arguments N.mul : simpl never. Arguments N.add : simpl never. Arguments N.div : simpl never.
Arguments N.modulo : simpl never. Arguments N.land : simpl never. Arguments N.shiftr : simpl never.
Arguments N.sub : simpl never. Arguments N.ltb : simpl never. Arguments N.eqb : simpl never.
Arguments N.leb : simpl never.

(* clean: the fields that are not on the wire (because a flag hides them) hold their zero values, so that
   nothing the getters report is lost by encoding *)
Definition clean_insert (i : insert) : Prop :=
  if i_cancel i then i = mkins (i_event_id i) true false false false false 0 [] false 0 false 0 0 0
  else (i_program i && negb (i_immediate i) = false -> i_has_pts i = false /\ i_pts i = 0) /\
       (i_program i = true -> i_components i = []) /\
       (i_program i = false -> i_immediate i = true -> Forall (fun c => c_has_pts c = false /\ c_pts c = 0) (i_components i)) /\
       (i_program i = false -> i_immediate i = false -> Forall (fun c => c_has_pts c = false -> c_pts c = 0) (i_components i)) /\
       (i_has_duration i = false -> i_duration i = 0 /\ i_auto_return i = false).
Definition clean_cmd (c : Scte.command) : Prop := match c with CInsert i => clean_insert i | _ => True end.
Definition clean_desc (d : segdesc) : Prop :=
  d_owner d = Some 1 /\
  if d_cancel d then d = mkseg 0 (d_event_id d) false 0 0 [] [] 0 0 0 0 (Some 1) true false false false false false false 0 []
  else (d_program_seg d = true -> d_components d = []) /\ (d_has_duration d = false -> d_duration d = 0) /\
       (d_dnr d = true -> d_web d = false /\ d_noblackout d = false /\ d_archive d = false /\ d_device d = 0) /\
       (d_has_sub d = true -> d_type d = 52 \/ d_type d = 54) /\
       (d_has_sub d = false -> d_sub_seg_num d = 0 /\ d_sub_segs_expected d = 0).
Definition clean (st : scte) : Prop :=
  s_id st = 1 /\ s_stuffing st = 0 /\ clean_cmd (s_cmd st) /\ Forall clean_desc (s_descs st).

Lemma map_id_in {A} (f : A -> A) l : (forall x, In x l -> f x = x) -> map f l = l.
Proof.
  intros H. induction l as [|x l IH]; cbn [map]; [reflexivity|].
  rewrite H by (left; reflexivity). rewrite IH; [reflexivity|]. intros y Hy. apply H. right. exact Hy.
Qed.

Lemma expected_logical_cmd c : timed_cmd c -> clean_cmd c -> expected_cmd (logical_cmd c) = c.
Proof.
  destruct c as [|h p|i]; cbn [timed_cmd clean_cmd logical_cmd expected_cmd]; intros Hn Hc; [reflexivity| |].
  - subst h. reflexivity.
  - f_equal. destruct i as [eid cancel out prog imm has pts comps hasdur dur auto up an ae].
    unfold clean_insert, logical_mode, expected_insert in *.
    cbn [i_event_id i_cancel i_out i_program i_immediate i_has_pts i_pts i_components i_has_duration i_duration
         i_auto_return i_unique_program_id i_avail_num i_avails_expected] in *.
    destruct cancel; [symmetry; exact Hc|].
    specialize (Hn eq_refl). rename Hn into Ht.
    destruct Hc as (C1 & C2 & C3 & C3t & C4).
    cbn [ib_out ib_mode ib_break ib_unique_program_id ib_avail_num ib_avails_expected].
    assert (Eb1 : match (if hasdur then Some (auto, dur) else None) with Some _ => true | None => false end = hasdur) by (destruct hasdur; reflexivity).
    assert (Eb2 : match (if hasdur then Some (auto, dur) else None) with Some (_, d) => d | None => 0 end = dur)
      by (destruct hasdur; [reflexivity|]; destruct (C4 eq_refl); congruence).
    assert (Eb3 : match (if hasdur then Some (auto, dur) else None) with Some (a, _) => a | None => false end = auto)
      by (destruct hasdur; [reflexivity|]; destruct (C4 eq_refl); congruence).
    rewrite Eb1, Eb2, Eb3.
    destruct prog, imm; cbn [andb negb mode_program mode_immediate mode_time expected_comps st_has st_val] in *.
    + destruct (C1 eq_refl) as [-> ->]. rewrite (C2 eq_refl). reflexivity.
    + rewrite (Ht eq_refl eq_refl). cbn [logical_stime st_has st_val]. rewrite (C2 eq_refl). reflexivity.
    + destruct (C1 eq_refl) as [-> ->]. f_equal. rewrite map_map. apply map_id_in.
      specialize (C3 eq_refl eq_refl). rewrite Forall_forall in C3. intros [tag h p] Hin.
      destruct (C3 _ Hin) as [E1 E2]. cbn [c_has_pts c_pts c_tag] in *. subst. reflexivity.
    + destruct (C1 eq_refl) as [-> ->]. f_equal. rewrite map_map. apply map_id_in.
      specialize (C3t eq_refl eq_refl). rewrite Forall_forall in C3t. intros [tag h p] Hin.
      specialize (C3t _ Hin). cbn [c_has_pts c_pts c_tag fst snd] in *. destruct h; [reflexivity|].
      rewrite (C3t eq_refl). reflexivity.
Qed.

Lemma expected_logical_seg d : normal_desc d -> clean_desc d ->
  match logical_seg d with Seg eid body => expected_seg (Some 1) eid body = d | Foreign _ _ => False end.
Proof.
  destruct d as [ty eid hasdur dur uty u m sn se ssn sse owner cancel dnr hassub prog web nobl arch dev comps].
  unfold normal_desc, normal_desc_gen, clean_desc, logical_seg, logical_upid, expected_seg.
  cbn [d_type d_event_id d_has_duration d_duration d_upid_type d_upid d_mid d_seg_num d_segs_expected d_sub_seg_num
       d_sub_segs_expected d_owner d_cancel d_dnr d_has_sub d_program_seg d_web d_noblackout d_archive d_device d_components].
  intros (_ & Hb) (Ho & Hc). subst owner. destruct cancel; [symmetry; exact Hc|].
  destruct (Hb eq_refl) as (_ & _ & _ & _ & Hmid & Hsingle & _). clear Hb.
  destruct Hc as (C1 & C2 & C3 & C4 & C5).
  cbn [sb_comps sb_duration sb_restr sb_upid sb_type sb_num sb_expected sb_sub].
  assert (Esub : ((ty =? 52) || (ty =? 54)) && hassub = hassub).
  { destruct hassub; [|apply andb_false_r]. destruct (C4 eq_refl) as [-> | ->]; reflexivity. }
  rewrite Esub.
  assert (E1 : match (if hasdur then Some dur else None) with Some _ => true | None => false end = hasdur) by (destruct hasdur; reflexivity).
  assert (E2 : match (if hasdur then Some dur else None) with Some d => d | None => 0 end = dur)
    by (destruct hasdur; [reflexivity|]; rewrite (C2 eq_refl); reflexivity).
  assert (E3 : match (if hassub then Some (ssn, sse) else None) with Some (x, _) => x | None => 0 end = ssn)
    by (destruct hassub; [reflexivity|]; destruct (C5 eq_refl) as [-> _]; reflexivity).
  assert (E4 : match (if hassub then Some (ssn, sse) else None) with Some (_, y) => y | None => 0 end = sse)
    by (destruct hassub; [reflexivity|]; destruct (C5 eq_refl) as [_ ->]; reflexivity).
  assert (E5 : match (if hassub then Some (ssn, sse) else None) with Some _ => true | None => false end = hassub) by (destruct hassub; reflexivity).
  assert (E6 : match (if dnr then None else Some (web, nobl, arch, dev)) with None => true | Some _ => false end = dnr) by (destruct dnr; reflexivity).
  assert (E7 : match (if dnr then None else Some (web, nobl, arch, dev)) with Some (w, _, _, _) => w | None => false end = web)
    by (destruct dnr; [|reflexivity]; destruct (C3 eq_refl) as (-> & _); reflexivity).
  assert (E8 : match (if dnr then None else Some (web, nobl, arch, dev)) with Some (_, n, _, _) => n | None => false end = nobl)
    by (destruct dnr; [|reflexivity]; destruct (C3 eq_refl) as (_ & -> & _); reflexivity).
  assert (E9 : match (if dnr then None else Some (web, nobl, arch, dev)) with Some (_, _, a, _) => a | None => false end = arch)
    by (destruct dnr; [|reflexivity]; destruct (C3 eq_refl) as (_ & _ & -> & _); reflexivity).
  assert (E10 : match (if dnr then None else Some (web, nobl, arch, dev)) with Some (_, _, _, d) => d | None => 0 end = dev)
    by (destruct dnr; [|reflexivity]; destruct (C3 eq_refl) as (_ & _ & _ & ->); reflexivity).
  assert (E11 : match (if prog then None else Some (map (fun c => (co_tag c, co_off c)) comps)) with None => true | Some _ => false end = prog) by (destruct prog; reflexivity).
  assert (E12 : match (if prog then None else Some (map (fun c => (co_tag c, co_off c)) comps)) with
                | Some cs => map (fun c => mkco (fst c) (snd c)) cs | None => [] end = comps).
  { destruct prog; [rewrite (C1 eq_refl); reflexivity|]. rewrite map_map. apply map_id_in. intros [a b] _. reflexivity. }
  rewrite E1, E2, E3, E4, E5, E6, E7, E8, E9, E10, E11, E12.
  destruct (N.eqb_spec uty SegUPIDMID) as [E|E].
  - destruct (Hmid E) as (-> & Hm & _). subst uty. f_equal.
    unfold expected_mid. rewrite map_map. apply map_id_in. rewrite Forall_forall in Hm.
    intros [t l b] Hin. destruct (Hm _ Hin) as (_ & Hl & _). cbn [u_type u_len u_upid fst snd] in *. subst. reflexivity.
  - destruct (Hsingle E) as (-> & _). reflexivity.
Qed.

Lemma expected_logical_descs fs ds : Forall is_foreign fs -> Forall normal_desc ds -> Forall clean_desc ds ->
  expected_descs 1 (fs ++ map logical_seg ds) = ds /\ expected_other (fs ++ map logical_seg ds) = ser_descriptors fs.
Proof.
  intros Hf Hn Hc. induction fs as [|f fs IH].
  - cbn [app]. clear Hf. induction ds as [|d ds IH]; [split; reflexivity|].
    inversion Hn as [|? ? Hnd Hn']; inversion Hc as [|? ? Hcd Hc']; subst.
    pose proof (expected_logical_seg d Hnd Hcd) as E. cbn [map].
    destruct (logical_seg d) as [eid body|] eqn:El; [|contradiction].
    cbn [expected_descs expected_other]. destruct (IH Hn' Hc') as [I1 I2]. rewrite I1, I2, E. split; reflexivity.
  - inversion Hf as [|? ? Hd Hf']; subst. destruct f as [|tag body]; [contradiction|].
    cbn [app expected_descs expected_other]. destruct (IH Hf') as [I1 I2]. rewrite I1, I2.
    split; [reflexivity|]. unfold ser_descriptors. cbn [flat_map]. reflexivity.
Qed.

Lemma add_subtract p c : p < 8589934592 -> c < 8589934592 -> (c + subtract_pts p c) mod 8589934592 = p.
Proof.
  intros Hp Hc. unfold subtract_pts. destruct (N.leb_spec c p); [rewrite N.mod_small; lia|].
  unfold sub64, w64. lia.
Qed.

(* the time a command carries on the wire *)
Lemma cmd_time_logical c : timed_cmd c -> clean_cmd c ->
  st_val (cmd_time (logical_cmd c)) = cmd_pts c.
Proof.
  destruct c as [|h p|i]; cbn [timed_cmd clean_cmd logical_cmd cmd_time cmd_pts]; intros Hn Hc; [reflexivity| |].
  - subst h. reflexivity.
  - destruct i as [eid cancel out prog imm has pts comps hasdur dur auto up an ae].
    unfold clean_insert, logical_mode in *.
    cbn [i_event_id i_cancel i_out i_program i_immediate i_has_pts i_pts i_components i_has_duration i_duration
         i_auto_return i_unique_program_id i_avail_num i_avails_expected] in *.
    destruct cancel; [inversion Hc; reflexivity|].
    specialize (Hn eq_refl). rename Hn into Ht. destruct Hc as (C1 & _).
    cbn [ib_mode]. destruct prog, imm; cbn [andb negb mode_time st_val] in *;
      try (destruct (C1 eq_refl) as [_ ->]; reflexivity).
    rewrite (Ht eq_refl eq_refl). reflexivity.
Qed.

Lemma expected_pts_of L : si_cmd L <> Null ->
  expected_pts L = (st_val (cmd_time (si_cmd L)) + si_pts_adj L) mod 8589934592.
Proof. unfold expected_pts. destruct (si_cmd L); intros H; try reflexivity. congruence. Qed.

Theorem decode_encode_clean fs st : decodable fs st -> clean st ->
  new_scte35 (0 :: fst (update_data st)) = Ok (snd (update_data st)).
Proof.
  intros Hd Hc. rewrite (decode_encode fs st Hd). f_equal.
  destruct Hd as (Hn & Htid & Henc & Hwfs & Htimed).
  pose proof (lengths_ok fs st Hn) as (_ & Hclf & Hlen & Hsl).
  pose proof (encode_canonical fs st Hn) as Hcan.
  pose proof Hn as (_ & Hpv & Hea & Hcw & Htier & Hpts & Hcpts & Hct & Hcmd & Hds & Hother & Hfs & Htot).
  destruct Hc as (Cid & Cst & Ccmd & Cds).
  destruct (expected_logical_descs fs (s_descs st) Hfs Hds Cds) as [ED EO].
  unfold expected. unfold update_data in *. cbn [fst snd] in *.
  rewrite Hcan.
  assert (Epts : expected_pts (logical fs st) = s_pts st).
  { destruct (s_cmd st) as [|h p|i] eqn:Ec.
    - unfold expected_pts, logical, logical0. cbn [with_crc si_cmd si_pts_adj]. rewrite Ec. cbn [logical_cmd cmd_pts].
      unfold subtract_pts. replace (0 <=? s_pts st) with true by (symmetry; apply N.leb_le; lia). lia.
    - rewrite expected_pts_of by (unfold logical, logical0; cbn [with_crc si_cmd]; rewrite Ec; discriminate).
      unfold logical, logical0. cbn [with_crc si_cmd si_pts_adj]. rewrite <- Ec in *.
      rewrite cmd_time_logical by assumption. apply add_subtract; assumption.
    - rewrite expected_pts_of by (unfold logical, logical0; cbn [with_crc si_cmd]; rewrite Ec; discriminate).
      unfold logical, logical0. cbn [with_crc si_cmd si_pts_adj]. rewrite <- Ec in *.
      rewrite cmd_time_logical by assumption. apply add_subtract; assumption. }
  rewrite Epts.
  assert (Eslen : section_length (logical fs st) mod 1024
                  = w16 (13 + len (cmd_data (s_cmd st)) + len (s_other st ++ flat_map seg_data (s_descs st)) + 4 + s_stuffing st)).
  { rewrite N.mod_small by assumption. unfold w16. rewrite N.mod_small by lia.
    rewrite Hcan in Hlen. unfold ser_section, ser_section_nocrc, ser_header in Hlen.
    rewrite !len_app, !len_cons, len_to_be32, len_nil in Hlen. unfold section_length in *. 
    rewrite len_ser_body'. unfold logical, logical0. cbn [with_crc si_cmd si_descs si_stuffing].
    rewrite <- cmd_data_ser by assumption. rewrite ser_descriptors_app, <- Hother, <- descs_data_ser by assumption.
    rewrite len_repeatN, !len_app. lia. }
  rewrite Eslen.
  assert (Escl : cmd_len_field (logical fs st) = w16 (len (cmd_data (s_cmd st)))).
  { rewrite Hclf. unfold logical, logical0. cbn [with_crc si_cmd]. rewrite <- cmd_data_ser by assumption.
    unfold w16. rewrite N.mod_small; [reflexivity|]. rewrite len_app in Htot. lia. }
  rewrite Escl.
  set (SEC := ser_section (logical fs st)).
  unfold logical, logical0.
  cbn [with_crc si_table_id si_ssi si_private si_protocol si_enc_alg si_cw si_tier si_cmd si_descs].
  rewrite <- cmd_type_logical, <- Hct. rewrite expected_logical_cmd by assumption. rewrite ED, EO, <- Hother.
  rewrite Cid, Cst, Henc. reflexivity.
Qed.
