(* Totality of the printer models of Model/Printers.v.  A printer model has type `Res unit` and no error path, so
   "total" is the equation `printer x = Ok tt`.  Every lemma holds for EVERY object of the model type (in particular
   for every object a decoder model can return, and for the objects left behind by RemoveElementaryStreams /
   UpdateData); the one fact about an object that is needed - the data stored by UpdateData ends with the four CRC
   bytes - is a fact about the encoder, proved here for every signal.  Statements in Properties/C05Tot.v. *)
From Gots Require Import Base.Prelude Model.Psi Model.Pmt Model.PmtDesc Model.Pes Model.Ebp Model.Scte Model.ScteEnc
  Model.SegDesc Model.State Model.Printers.
From Gots Require Proofs.PmtDescTotal Proofs.StateBasics.
Import Printers.
Local Open Scope N_scope.
Local Notation length := List.length (only parsing).

Lemma each_ok {A} (f : A -> Res unit) l : (forall x, In x l -> f x = Ok tt) -> each f l = Ok tt.
Proof.
  induction l as [|x t IH]; intro H; [reflexivity|]. cbn [each]. rewrite (H x (or_introl eq_refl)). cbn [bind].
  apply IH. intros y Hy. apply H. right. exact Hy.
Qed.
Lemma ign_value {A} (r : Res A) : PmtDescTotal.value r -> ign r = Ok tt.
Proof. intros [v ->]. reflexivity. Qed.

(* ------------------------------------------------------------------ psi *)
Lemma idx0_ok (l : bytes) : (len l =? 0) = false -> exists x, idx l 0 = Ok x.
Proof. destruct l as [|x t]; [discriminate|]. intros _. exists x. reflexivity. Qed.

Theorem desc_decode_total d : desc_decode d = Ok tt.
Proof.
  unfold desc_decode. cbv zeta.
  destruct (PmtDesc.tag d =? PmtDesc.LANGUAGE).
  { destruct (PmtDescTotal.decode_iso639_language_code_total d) as [v ->].
    destruct (PmtDescTotal.decode_iso639_audio_type_total d) as [w ->]. reflexivity. }
  destruct (PmtDesc.tag d =? PmtDesc.MAXIMUM_BITRATE).
  { apply ign_value. apply PmtDescTotal.decode_maximum_bit_rate_total. }
  match goal with |- (if ?c then _ else _) = _ => destruct c end; [reflexivity|].
  destruct (PmtDesc.tag d =? PmtDesc.STREAM_IDENTIFIER).
  { destruct (len (PmtDesc.data d) =? 0) eqn:E; [reflexivity|]. destruct (idx0_ok _ E) as [x ->]. reflexivity. }
  destruct (PmtDesc.tag d =? PmtDesc.EXTENSION); [|reflexivity].
  apply ign_value. apply PmtDescTotal.decode_ttml_code_total.
Qed.
Theorem desc_string_total d : desc_string d = Ok tt.
Proof. exact (desc_decode_total d). Qed.
Theorem desc_format_total d : desc_format d = Ok tt.
Proof. exact (desc_decode_total d). Qed.
Theorem es_string_total e : es_string e = Ok tt.
Proof.
  unfold es_string, fmt_v. rewrite each_ok; [reflexivity|]. intros d _. apply desc_string_total.
Qed.
Theorem pmt_string_total p : pmt_string p = Ok tt.
Proof. unfold pmt_string, fmt_v. apply each_ok. intros e _. apply es_string_total. Qed.

(* ------------------------------------------------------------------ pes / ebp *)
Theorem pes_format_total h : pes_format h = Ok tt.
Proof.
  unfold pes_format. destruct (Pes.optional_fields_exist _); [|reflexivity].
  destruct (_ || _); [|reflexivity]. destruct (_ =? 3); reflexivity.
Qed.
Theorem pes_fmt_v_total h : pes_fmt_v h = Ok tt.
Proof. reflexivity. Qed.
Theorem ebp_sprint_total e : ebp_sprint e = Ok tt.
Proof. reflexivity. Qed.

(* ------------------------------------------------------------------ scte35 *)
Lemma at_index_ok {A} (l : list A) i : (i < length l)%nat -> at_index l i = Ok tt.
Proof.
  intro H. unfold at_index. destruct (nth_error l i) eqn:E; [reflexivity|]. apply nth_error_None in E. lia.
Qed.
Theorem addr_all_total {A} (l : list A) : addr_all l = Ok tt.
Proof.
  unfold addr_all. apply each_ok. intros i Hi. apply in_seq in Hi. rewrite (at_index_ok l i) by lia. reflexivity.
Qed.
Theorem seg_components_total d : seg_components d = Ok tt.
Proof. apply addr_all_total. Qed.
Theorem seg_mid_total d : seg_mid d = Ok tt.
Proof. unfold seg_mid. destruct (negb _); [reflexivity|apply addr_all_total]. Qed.

(* StreamSwitchSignalId: the two index expressions are guarded by len(d.mid) == 2 *)
Theorem stream_switch_signal_id_total d : exists o, stream_switch_signal_id d = Ok o.
Proof.
  unfold stream_switch_signal_id. cbv zeta.
  destruct (len (Scte.d_mid d) =? 2) eqn:E; cbn [negb]; [|eauto].
  apply N.eqb_eq in E. unfold len in E.
  destruct (Scte.d_mid d) as [|m0 [|m1 [|m2 t]]]; cbn [List.length] in E; try lia.
  cbn [nth_error bind].
  destruct (Scte.d_dnr d); [eauto|].
  destruct (negb (Scte.u_type m0 =? SegUPIDADI)); [eauto|].
  destruct (negb (contains s_BLACKOUT (Scte.u_upid m0))); [eauto|].
  destruct (negb (Scte.u_type m1 =? SegUPADSINFO)); [eauto|].
  destruct (negb (contains s_licenserotation (Scte.u_upid m1))); eauto.
Qed.

Theorem insert_string_total i : insert_string i = Ok tt.
Proof. unfold insert_string. destruct (Scte.i_cancel i); [reflexivity|]. apply each_ok. reflexivity. Qed.

Theorem seg_string_total d : seg_string d = Ok tt.
Proof.
  unfold seg_string, map_read. destruct (Scte.d_cancel d); [reflexivity|].
  destruct (negb (Scte.d_dnr d)); cbn [bind];
    (destruct (negb (Scte.d_program_seg d)); rewrite ?seg_components_total; cbn [bind];
     (destruct (negb (Scte.d_upid_type d =? Scte.SegUPIDMID)); cbn [bind]; [reflexivity|];
      rewrite seg_mid_total; cbn [bind]; rewrite each_ok; [reflexivity|reflexivity])).
Qed.

(* the data stored by UpdateData ends with the four bytes of the CRC *)
Lemma update_data_len s : 4 <= len (Scte.s_data (snd (ScteEnc.update_data s))).
Proof.
  unfold ScteEnc.update_data. cbv zeta. cbn [snd Scte.s_data].
  unfold len. rewrite app_length. unfold Scte.crc_model, to_be32. cbn [List.length]. lia.
Qed.
Lemma update_data_fst_snd s : Scte.s_data (snd (ScteEnc.update_data s)) = fst (ScteEnc.update_data s).
Proof. reflexivity. Qed.
Theorem tail4_total d : 4 <= len d -> exists t, tail4 d = Ok t.
Proof.
  intro H. unfold tail4. destruct (N.ltb_spec (len d) 4) as [G|G]; [lia|].
  unfold slice_from, slice.
  assert ((len d - 4 <=? len d) && (len d <=? len d) = true) as ->
    by (apply andb_true_intro; split; apply N.leb_le; lia).
  eauto.
Qed.

Theorem scte_string_total s : scte_string s = Ok tt.
Proof.
  unfold scte_string, map_read. cbv zeta. cbn [bind].
  assert (C : match Scte.s_cmd (scte_after_string s) with Scte.CInsert i => insert_string i | _ => Ok tt end = Ok tt)
    by (destruct (Scte.s_cmd (scte_after_string s)); [reflexivity|reflexivity|apply insert_string_total]).
  rewrite C. cbn [bind]. rewrite each_ok by (intros d _; apply seg_string_total). cbn [bind].
  destruct (tail4_total _ (update_data_len s)) as [t E]. unfold scte_after_string. rewrite E. reflexivity.
Qed.

(* ------------------------------------------------------------------ the tracker calls at the end of scte.new *)
Lemma tracker_feed_total : forall ds st, StateBasics.I1 st -> exists st', tracker_feed st ds = Ok st' /\ StateBasics.I1 st'.
Proof.
  induction ds as [|d t IH]; intros st HI; [exists st; split; [reflexivity|exact HI]|].
  cbn [tracker_feed]. destruct (StateBasics.process_I1 st d HI) as [s' [r [E HI']]]. rewrite E. cbn [bind fst].
  apply IH. exact HI'.
Qed.
Theorem tracker_calls_total s : tracker_calls s = Ok tt.
Proof.
  unfold tracker_calls. cbv zeta.
  destruct (tracker_feed_total (map (fun p => tracker_desc (fst p) s (snd p)) (number_from 0 (Scte.s_descs s)))
              State.NewState StateBasics.I1_new) as [st [E HI]].
  rewrite E. cbn [bind]. destruct (StateBasics.Open_ok st HI) as [l ->]. reflexivity.
Qed.

(* ------------------------------------------------------------------ the statements of Properties/C05Tot.v *)
Lemma print_pmt_descriptor_stmt : forall d, desc_format d = Ok tt /\ desc_string d = Ok tt.
Proof. exact (fun d => conj (desc_format_total d) (desc_string_total d)). Qed.
Lemma print_pmt_stmt : forall b p, Pmt.new_pmt b = Ok p ->
  pmt_string p = Ok tt /\ (forall e, In e (Pmt.streams p) -> es_string e = Ok tt) /\
  (forall rm, pmt_string (Pmt.remove_elementary_streams p rm) = Ok tt).
Proof. exact (fun b p _ => conj (pmt_string_total p) (conj (fun e _ => es_string_total e) (fun rm => pmt_string_total _))). Qed.
Lemma print_read_pmt_stmt : forall b pid p, Pmt.read_pmt b pid = Ok p -> pmt_string p = Ok tt.
Proof. exact (fun b pid p _ => pmt_string_total p). Qed.
Lemma print_pes_header_stmt : forall b h, Pes.new_pes_header b = Ok h ->
  pes_fmt_v h = Ok tt /\ pes_format h = Ok tt.
Proof. exact (fun b h _ => conj (pes_fmt_v_total h) (pes_format_total h)). Qed.
Lemma print_ebp_stmt : forall g b fe, Ebp.ReadEncoderBoundaryPoint g b = Ok fe -> ebp_sprint (snd fe) = Ok tt.
Proof. exact (fun g b fe _ => ebp_sprint_total (snd fe)). Qed.
Lemma print_scte35_stmt : forall b s, Scte.new_scte35 b = Ok s ->
  scte_string s = Ok tt /\ scte_string (scte_after_string s) = Ok tt.
Proof. exact (fun b s _ => conj (scte_string_total s) (scte_string_total _)). Qed.
Lemma seg_getters_total_stmt : forall d,
  (exists o, stream_switch_signal_id d = Ok o) /\ seg_mid d = Ok tt /\ seg_components d = Ok tt.
Proof. exact (fun d => conj (stream_switch_signal_id_total d) (conj (seg_mid_total d) (seg_components_total d))). Qed.

(* ------------------------------------------------------------------ non-vacuity: the operations CAN panic *)
(* a stream-identifier descriptor reads data[0]; the guard is what keeps decode() total *)
Example desc_decode_reads_data : exists d, PmtDesc.tag d = PmtDesc.STREAM_IDENTIFIER /\ PmtDesc.data d = [7] /\
  desc_decode d = Ok tt /\ idx ([] : bytes) 0 = Panic.
Proof. exists (PmtDesc.mk 82 [7]). repeat split. Qed.
(* tail4 panics on a short slice: String() relies on UpdateData having run first *)
Example tail4_can_panic : tail4 [1; 2; 3] = Panic /\ tail4 [1; 2; 3; 4; 5] = Ok [2; 3; 4; 5].
Proof. split; reflexivity. Qed.
Example at_index_can_panic : at_index [1; 2] 2 = Panic.
Proof. reflexivity. Qed.
(* the VSS shape is recognised *)
Example vss_example :
  stream_switch_signal_id
    (Scte.mkseg 64 1 false 0 13 [] [Scte.mkupid 9 11 (s_BLACKOUT_colon ++ [65; 66]); Scte.mkupid 14 30 s_licenserotation]
                0 0 0 0 (Some 1) false false false true false false false 0 []) = Ok (Some [65; 66]).
Proof. vm_compute. reflexivity. Qed.
