(* C13, receiver side: the CRC is the ONLY four-byte trailer that leaves the register at zero.
   Feeding 32 bits t into the textbook register in state r equals 32 zero-steps from r xor t
   (the word-at-once form); the zero-step is injective on 32-bit values because the polynomial is odd. *)
From Gots Require Import Base.Prelude Base.CodecLemmas Model.Crc Spec.Crc32 Proofs.CrcRegister.
Local Open Scope N_scope.

Definition M32 : N := 4294967296.
Definition bounded (x : N) : Prop := N.land x mask = x.

Lemma bounded_land y : bounded (N.land y mask).
Proof. unfold bounded. rewrite <- N.land_assoc, N.land_diag. reflexivity. Qed.
Lemma bounded_lxor a b : bounded a -> bounded b -> bounded (N.lxor a b).
Proof. unfold bounded. intros Ha Hb. rewrite CrcRegister.land_lxor_distr_l, Ha, Hb. reflexivity. Qed.
Lemma bounded_poly : bounded poly. Proof. reflexivity. Qed.
Lemma bounded_0 : bounded 0. Proof. reflexivity. Qed.
Lemma bounded_lt x : x < M32 -> bounded x.
Proof. intro H. unfold bounded, mask. change 4294967295 with (N.ones 32). rewrite N.land_ones. apply N.mod_small. exact H. Qed.
Lemma bounded_mod x : bounded (x mod M32).
Proof. apply bounded_lt. apply N.mod_lt. discriminate. Qed.
Lemma bounded_bits x : bounded x -> forall m, 32 <= m -> N.testbit x m = false.
Proof. intros H m Hm. rewrite <- H, N.land_spec. unfold mask. change 4294967295 with (N.ones 32).
  rewrite N.ones_spec_high by exact Hm. apply andb_false_r. Qed.

Lemma bounded_a0 r : bounded (a0 r).
Proof. unfold a0, astep. cbn [N.b2n]. rewrite N.lor_0_r.
  destruct (msbit r); [apply bounded_lxor; [apply bounded_land|apply bounded_poly] | apply bounded_land]. Qed.

(* bit 0 of a zero-step is the bit shifted out (the polynomial is odd) *)
Lemma a0_bit0 r : N.testbit (a0 r) 0 = msbit r.
Proof. unfold a0, astep. cbn [N.b2n]. rewrite N.lor_0_r. destruct (msbit r).
  - rewrite N.lxor_spec, shl_low_clear. reflexivity.
  - apply shl_low_clear. Qed.

Lemma a0_inj r r' : bounded r -> bounded r' -> a0 r = a0 r' -> r = r'.
Proof. intros Hr Hr' E.
  assert (Em: msbit r = msbit r') by (rewrite <- !a0_bit0, E; reflexivity).
  assert (Es: N.land (N.shiftl r 1) mask = N.land (N.shiftl r' 1) mask).
  { unfold a0, astep in E. cbn [N.b2n] in E. rewrite !N.lor_0_r, <- Em in E.
    destruct (msbit r); [|exact E].
    apply (f_equal (fun x => N.lxor x poly)) in E.
    rewrite !N.lxor_assoc, N.lxor_nilpotent, !N.lxor_0_r in E. exact E. }
  apply N.bits_inj. intro m.
  destruct (N.lt_ge_cases m 31) as [Hm|Hm].
  - assert (B: forall x, N.testbit (N.land (N.shiftl x 1) mask) (m + 1) = N.testbit x m).
    { intro x. rewrite N.land_spec. unfold mask. change 4294967295 with (N.ones 32).
      rewrite N.ones_spec_low by lia. rewrite andb_true_r.
      rewrite N.shiftl_spec_high' by lia. f_equal. lia. }
    rewrite <- (B r), <- (B r'), Es. reflexivity.
  - destruct (N.eq_dec m 31) as [->|Hne]; [exact Em|].
    rewrite (bounded_bits r Hr), (bounded_bits r' Hr') by lia. reflexivity. Qed.

Lemma iter_a0_bounded n : forall r, bounded r -> bounded (Crc.iter n a0 r).
Proof. induction n as [|n IH]; intros r H; cbn [Crc.iter]; [exact H|]. apply IH. apply bounded_a0. Qed.
Lemma iter_a0_inj n : forall r r', bounded r -> bounded r' -> Crc.iter n a0 r = Crc.iter n a0 r' -> r = r'.
Proof. induction n as [|n IH]; intros r r' Hr Hr' E; cbn [Crc.iter] in E; [exact E|].
  apply a0_inj; try assumption. apply IH; try apply bounded_a0. exact E. Qed.

(* ---- feeding the 32 bits of t, MSB first, from state s ---- *)
Definition T (t k : N) : N := (t * 2 ^ k) mod M32.

Lemma T_msb t k : k <= 31 -> msbit (T t k) = N.testbit t (31 - k).
Proof. intro H. unfold msbit, T, M32. change 4294967296 with (2 ^ 32).
  rewrite N.mod_pow2_bits_low by lia. apply N.mul_pow2_bits_high. exact H. Qed.
Lemma T_shift t k : N.land (N.shiftl (T t k) 1) mask = T t (k + 1).
Proof. unfold T, M32, mask. change 4294967295 with (N.ones 32). rewrite N.land_ones, N.shiftl_mul_pow2.
  change (2 ^ 32) with 4294967296. change (2 ^ 1) with 2.
  rewrite (N.mul_comm _ 2), N.mul_mod_idemp_r by discriminate. rewrite N.pow_add_r. change (2 ^ 1) with 2.
  f_equal. lia. Qed.

Lemma msbit_lxor a b : msbit (N.lxor a b) = xorb (msbit a) (msbit b).
Proof. unfold msbit. apply N.lxor_spec. Qed.

(* one message bit in the word-at-once form *)
Lemma dstep_xor_first s t k : k <= 31 ->
  N.lxor (dstep s (N.testbit t (31 - k))) (T t (k + 1)) = a0 (N.lxor s (T t k)).
Proof. intro Hk. unfold dstep, a0, astep. cbn [N.b2n]. rewrite N.lor_0_r.
  rewrite msbit_lxor, T_msb by exact Hk.
  rewrite N.shiftl_lxor, CrcRegister.land_lxor_distr_l, T_shift.
  destruct (xorb (msbit s) (N.testbit t (31 - k))).
  - rewrite !N.lxor_assoc. f_equal. apply N.lxor_comm.
  - reflexivity. Qed.

Lemma feed_xor_first t : forall n k s, k + N.of_nat n <= 32 ->
  N.lxor (fold_left dstep (map (fun i => N.testbit t (31 - i)) (CrcRegister.nseq k n)) s) (T t (k + N.of_nat n))
  = Crc.iter n a0 (N.lxor s (T t k)).
Proof. induction n as [|n IH]; intros k s H.
  - cbn [CrcRegister.nseq map fold_left Crc.iter N.of_nat]. rewrite N.add_0_r. reflexivity.
  - cbn [CrcRegister.nseq map fold_left Crc.iter].
    replace (k + N.of_nat (S n)) with ((k + 1) + N.of_nat n) by lia.
    rewrite IH by lia. rewrite dstep_xor_first by lia. reflexivity. Qed.

Lemma register_dfold r bits : Crc32.register r bits = fold_left dstep bits r.
Proof. unfold Crc32.register. apply fold_left_ext. exact spec_step_dstep. Qed.

(* clocking 32 bits t through the register in state r = 32 zero-steps from r xor t *)
Lemma register_word r t : Crc32.register r (bits32 t) = z32 (N.lxor r (t mod M32)).
Proof. rewrite register_dfold. unfold bits32.
  pose proof (feed_xor_first t 32 0 r) as H. change (0 + N.of_nat 32) with 32 in H.
  assert (E32: T t 32 = 0) by (unfold T, M32; change 4294967296 with (2 ^ 32); apply N.mod_mul; apply N.pow_nonzero; lia).
  assert (E0: T t 0 = t mod M32) by (unfold T; change (2 ^ 0) with 1; rewrite N.mul_1_r; reflexivity).
  rewrite E32, E0, N.lxor_0_r in H. apply H. cbn. lia. Qed.

Lemma step_bounded r b : bounded (Crc32.step r b).
Proof. unfold Crc32.step. destruct (xorb (N.testbit r 31) b).
  - apply bounded_lxor; [apply (bounded_mod (2 * r))|reflexivity].
  - apply (bounded_mod (2 * r)). Qed.
Lemma register_bounded bits : forall r, bounded r -> bounded (Crc32.register r bits).
Proof. unfold Crc32.register. induction bits as [|b bits IH]; intros r H; [exact H|].
  cbn [fold_left]. apply IH. apply step_bounded. Qed.
Lemma crc_bounded bs : bounded (Crc32.crc bs).
Proof. apply register_bounded. reflexivity. Qed.
Lemma crc_lt bs : Crc32.crc bs < M32.
Proof. pose proof (crc_bounded bs) as H. unfold bounded, mask in H. change 4294967295 with (N.ones 32) in H.
  rewrite N.land_ones in H. rewrite <- H. apply N.mod_lt. discriminate. Qed.

Lemma z32_inj r r' : bounded r -> bounded r' -> z32 r = z32 r' -> r = r'.
Proof. unfold z32. apply iter_a0_inj. Qed.
Lemma z32_inj0 u : bounded u -> z32 u = 0 -> u = 0.
Proof. intros Hu H. apply (z32_inj u 0 Hu bounded_0). rewrite z32_zero. exact H. Qed.

(* the register is zero after 32 more bits exactly when those bits are the register's contents *)
Theorem register_zero_iff r t : bounded r -> t < M32 -> (Crc32.register r (bits32 t) = 0 <-> t = r).
Proof. intros Hr Ht. rewrite register_word, (N.mod_small t) by exact Ht. split.
  - intro E. apply z32_inj0 in E; [|apply bounded_lxor; [exact Hr|apply bounded_lt; exact Ht]].
    apply N.lxor_eq in E. symmetry. exact E.
  - intros ->. rewrite N.lxor_nilpotent. apply z32_zero. Qed.

Lemma to_be32_be32 c0 c1 c2 c3 : c0 < 256 -> c1 < 256 -> c2 < 256 -> c3 < 256 ->
  to_be32 (be32 c0 c1 c2 c3) = [c0; c1; c2; c3] /\ be32 c0 c1 c2 c3 < M32.
Proof. intros. unfold to_be32, be32, M32. split; [|lia].
  repeat (apply (f_equal2 (@cons N)); [lia|]). reflexivity. Qed.

Lemma be32_to_be32 x : x < M32 ->
  be32 ((x / 16777216) mod 256) ((x / 65536) mod 256) ((x / 256) mod 256) (x mod 256) = x.
Proof. unfold M32, be32. intro H. lia. Qed.

(* for every message bs and every four-byte trailer c: the section bs ++ c passes the receiver's check
   exactly when c is the CRC of bs *)
Theorem residue_zero_iff bs c0 c1 c2 c3 : is_bytes [c0; c1; c2; c3] ->
  (Crc32.crc (bs ++ [c0; c1; c2; c3]) = 0 <-> [c0; c1; c2; c3] = to_be32 (Crc32.crc bs)).
Proof. intro Hc. unfold is_bytes in Hc.
  repeat match goal with H : Forall _ (_ :: _) |- _ => inversion H; subst; clear H end. unfold is_byte in *.
  destruct (to_be32_be32 c0 c1 c2 c3) as [Eb Hlt]; try assumption.
  rewrite <- Eb at 1. unfold Crc32.crc at 1. rewrite bits_of_app, register_app, bits_of_be32. fold (Crc32.crc bs).
  rewrite (register_zero_iff _ _ (crc_bounded bs) Hlt). split.
  - intros <-. symmetry. exact Eb.
  - intro E. unfold to_be32 in E. injection E as -> -> -> ->. apply be32_to_be32. apply crc_lt. Qed.

Corollary compute_crc_unique bs c0 c1 c2 c3 : is_bytes [c0; c1; c2; c3] ->
  (Crc32.residue_ok (bs ++ [c0; c1; c2; c3]) <-> [c0; c1; c2; c3] = Crc.compute_crc bs).
Proof. intro H. unfold Crc32.residue_ok. rewrite compute_crc_is_mpeg2. apply residue_zero_iff. exact H. Qed.
