(* A decidable version of `normal` (used by the generator, through the op scte.isnormal, to decide which
   histories are inside the hypotheses of C09_encode_canonical) and its soundness. *)
From Gots Require Import Base.Prelude Model.Pts Model.Scte Model.ScteEnc Spec.Scte35Spec Proofs.ScteLogical.
Import Scte ScteEnc Scte35Spec.
Local Open Scope N_scope.

Definition bytes_eqb (a b : bytes) : bool := if list_eq_dec N.eq_dec a b then true else false.
Definition nilb {A} (l : list A) : bool := match l with [] => true | _ => false end.

Definition normal_compb (imm : bool) (c : component) : bool :=
  (c_tag c <? 256) && (imm || negb (c_has_pts c) || (c_pts c <? 8589934592)).
Definition normal_insertb (i : insert) : bool :=
  (i_event_id i <? 4294967296) &&
  (i_cancel i ||
   ((negb (i_program i) || i_immediate i || negb (i_has_pts i) || (i_pts i <? 8589934592)) &&
    (i_program i || (forallb (normal_compb (i_immediate i)) (i_components i) && (len (i_components i) <? 256))) &&
    (negb (i_has_duration i) || (i_duration i <? 8589934592)) &&
    (i_unique_program_id i <? 65536) && (i_avail_num i <? 256) && (i_avails_expected i <? 256))).
Definition normal_cmdb (c : Scte.command) : bool :=
  match c with
  | CNull => true
  | CTime h p => negb h || (p <? 8589934592)
  | CInsert i => normal_insertb i
  end.
Definition normal_midb (u : Scte.upid) : bool :=
  (u_type u <? 256) && (u_len u =? len (u_upid u)) && (len (u_upid u) <? 256) && is_bytesb (u_upid u).
Definition normal_descb (d : segdesc) : bool :=
  (d_event_id d <? 4294967296) &&
  (d_cancel d ||
   ((d_program_seg d || (forallb (fun c => (co_tag c <? 256) && (co_off c <? 8589934592)) (d_components d)
                         && (len (d_components d) <? 256))) &&
    (negb (d_has_duration d) || (d_duration d <? 1099511627776)) &&
    (d_dnr d || (d_device d <? 4)) &&
    (d_upid_type d <? 256) &&
    (if d_upid_type d =? SegUPIDMID
     then nilb (d_upid d) && forallb normal_midb (d_mid d) && (len (flat_map mid_elem_data (d_mid d)) <? 256)
     else nilb (d_mid d) && (len (d_upid d) <? 256) && is_bytesb (d_upid d)) &&
    (d_type d <? 256) && (d_seg_num d <? 256) && (d_segs_expected d <? 256) &&
    (d_sub_seg_num d <? 256) && (d_sub_segs_expected d <? 256) &&
    (len (seg_data d) <? 258))).
Definition is_foreignb (d : descriptor) : bool := match d with Foreign _ _ => true | Seg _ _ => false end.
Definition normalb (fs : list descriptor) (st : scte) : bool :=
  (s_tid st <? 256) && (s_protocol st <? 256) && (s_enc_alg st <? 64) && (s_cw st <? 256) && (s_tier st <? 4096) &&
  (s_pts st <? 8589934592) && (cmd_pts (s_cmd st) <? 8589934592) &&
  (s_cmd_type st =? cmd_type (s_cmd st)) && normal_cmdb (s_cmd st) &&
  forallb normal_descb (s_descs st) &&
  bytes_eqb (s_other st) (ser_descriptors fs) && forallb is_foreignb fs &&
  (13 + len (cmd_data (s_cmd st)) + len (s_other st ++ flat_map seg_data (s_descs st)) + 4 + s_stuffing st <? 1024).

(* otherDescriptorBytes read back as a list of foreign descriptors (tag, length, body)* *)
Fixpoint parse_other (fuel : nat) (b : bytes) : list descriptor :=
  match fuel, b with
  | S f, tag :: l :: rest => Foreign tag (takeN l rest) :: parse_other f (dropN l rest)
  | _, _ => []
  end.
Definition foreign_of (st : scte) : list descriptor := parse_other (length (s_other st)) (s_other st).
Definition isnormal (st : scte) : bool := normalb (foreign_of st) st.

(* ---- soundness ---- *)
Ltac bsplit :=
  repeat match goal with
  | H : _ && _ = true |- _ => apply andb_true_iff in H; destruct H
  | H : (_ <? _) = true |- _ => apply N.ltb_lt in H
  | H : (_ =? _) = true |- _ => apply N.eqb_eq in H
  end.

Lemma is_bytesb_ok l : is_bytesb l = true -> is_bytes l.
Proof.
  unfold is_bytesb, is_bytes, is_byteb, is_byte. intros H. rewrite forallb_forall in H. apply Forall_forall.
  intros x Hx. apply N.ltb_lt. apply H. exact Hx.
Qed.
Lemma nilb_ok {A} (l : list A) : nilb l = true -> l = [].
Proof. destruct l; [reflexivity|discriminate]. Qed.
Lemma forallb_Forall {A} (f : A -> bool) (P : A -> Prop) l : (forall x, f x = true -> P x) -> forallb f l = true -> Forall P l.
Proof. intros H Hf. rewrite forallb_forall in Hf. apply Forall_forall. intros x Hx. apply H, Hf, Hx. Qed.

Lemma normal_compb_ok imm c : normal_compb imm c = true -> normal_comp imm c.
Proof.
  unfold normal_compb, normal_comp. intros H. bsplit. split; [assumption|]. intros -> Hh. rewrite Hh in *. cbn [negb orb] in *. bsplit. assumption.
Qed.
Ltac fin :=
  intros;
  repeat match goal with
  | H : ?b = true |- _ => is_var b; subst b
  | H : ?b = false |- _ => is_var b; subst b
  end;
  cbn [negb orb andb] in *; bsplit; try assumption; auto.

Lemma normal_cmdb_ok c : normal_cmdb c = true -> normal_cmd c.
Proof.
  destruct c as [|h p|i]; cbn [normal_cmdb normal_cmd]; intros H; [exact I| |].
  - intros ->. cbn [negb orb] in H. bsplit. assumption.
  - destruct i as [eid cancel out prog imm has pts comps hasdur dur auto up an ae].
    unfold normal_insertb, normal_insert in *.
    cbn [i_event_id i_cancel i_out i_program i_immediate i_has_pts i_pts i_components i_has_duration i_duration
         i_auto_return i_unique_program_id i_avail_num i_avails_expected] in *.
    bsplit. split; [assumption|]. intros Hc. subst cancel. cbn [orb] in *. bsplit.
    repeat split; fin.
    eapply forallb_Forall; [|eassumption]. apply normal_compb_ok.
Qed.
Lemma normal_descb_ok d : normal_descb d = true -> normal_desc d.
Proof.
  unfold normal_descb, normal_desc, normal_desc_gen.
  set (L := len (seg_data d)).
  destruct d as [ty eid hasdur dur uty u m sn se ssn sse owner cancel dnr hassub prog web nobl arch dev comps].
  cbn [d_type d_event_id d_has_duration d_duration d_upid_type d_upid d_mid d_seg_num d_segs_expected d_sub_seg_num
       d_sub_segs_expected d_owner d_cancel d_dnr d_has_sub d_program_seg d_web d_noblackout d_archive d_device d_components].
  intros H. bsplit. split; [assumption|]. intros Hc. subst cancel. cbn [orb] in *. bsplit.
  destruct (N.eqb_spec uty SegUPIDMID) as [E|E].
  - bsplit. repeat split; fin; try contradiction.
    + eapply forallb_Forall; [|eassumption]. intros x Hx. cbv beta in Hx. bsplit. auto.
    + apply nilb_ok. assumption.
    + eapply forallb_Forall; [|eassumption]. intros x Hx. unfold normal_midb in Hx. bsplit.
      repeat split; try assumption. apply is_bytesb_ok. assumption.
  - bsplit. repeat split; fin; try contradiction.
    + eapply forallb_Forall; [|eassumption]. intros x Hx. cbv beta in Hx. bsplit. auto.
    + apply nilb_ok. assumption.
    + apply is_bytesb_ok. assumption.
Qed.

Theorem normalb_ok fs st : normalb fs st = true -> normal fs st.
Proof.
  unfold normalb, normal. intros H. bsplit. repeat split; try assumption.
  - apply normal_cmdb_ok. assumption.
  - eapply forallb_Forall; [|eassumption]. apply normal_descb_ok.
  - unfold bytes_eqb in *. destruct (list_eq_dec N.eq_dec (s_other st) (ser_descriptors fs)); [assumption|discriminate].
  - eapply forallb_Forall; [|eassumption]. intros [|] Hx; [discriminate|exact I].
Qed.
Corollary isnormal_ok st : isnormal st = true -> normal (foreign_of st) st.
Proof. apply normalb_ok. Qed.
