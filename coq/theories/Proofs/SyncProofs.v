(* Proofs for C16 (Sync) and the C05 totality clause of Sync. *)
From Gots Require Import Base.Prelude Model.IO Spec.IOSpec.
Import SyncIO IOSpec.
Local Open Scope N_scope.

(* ---- mask arithmetic: x & (ones k << s) = ((x >> s) mod 2^k) << s ---- *)
Lemma land_shifted_ones x k s :
  N.land x (N.shiftl (N.ones k) s) = N.shiftl (N.land (N.shiftr x s) (N.ones k)) s.
Proof.
  apply N.bits_inj; intro n. rewrite N.land_spec.
  destruct (N.ltb_spec n s).
  - rewrite !N.shiftl_spec_low by lia. apply andb_false_r.
  - rewrite !N.shiftl_spec_high' by lia. rewrite N.land_spec, N.shiftr_spec'.
    replace (n - s + s) with n by lia. reflexivity.
Qed.

Lemma afc_of_header a b c d : d < 256 ->
  N.land (be32 a b c d) afcMask = hdr_afc d * 16.
Proof.
  intro Hd. unfold afcMask, hdr_afc.
  change 48 with (N.shiftl (N.ones 2) 4).
  rewrite land_shifted_ones, N.land_ones, N.shiftr_div_pow2, N.shiftl_mul_pow2.
  change (2 ^ 4) with 16. change (2 ^ 2) with 4. unfold be32. lia.
Qed.

Lemma pid_of_header a b c d : c < 256 -> d < 256 ->
  N.shiftr (N.land (be32 a b c d) pidMask) 8 = hdr_pid b c.
Proof.
  intros Hc Hd. unfold pidMask, hdr_pid.
  change 2096896 with (N.shiftl (N.ones 13) 8).
  rewrite land_shifted_ones, N.land_ones, !N.shiftr_div_pow2, N.shiftl_mul_pow2.
  change (2 ^ 8) with 256. change (2 ^ 13) with 8192. unfold be32. lia.
Qed.

(* ---- IsSynced ---- *)
Lemma is_synced_short l lst te : (length l < 4)%nat ->
  is_synced (mkR l lst te) = Ok (false, Some te, mkR l None te).
Proof.
  intro H. unfold is_synced, is_synced_over, o_pk, peek. cbn [rest terr bind].
  assert ((4 <=? len l) = false) as -> by (apply N.leb_gt; unfold len; lia).
  reflexivity.
Qed.

Lemma is_synced_sync b c d t lst te : is_bytes (71 :: b :: c :: d :: t) ->
  is_synced (mkR (71 :: b :: c :: d :: t) lst te)
  = Ok (plausible_at (71 :: b :: c :: d :: t), None, mkR (71 :: b :: c :: d :: t) None te).
Proof.
  intro HB. unfold is_bytes in HB.
  inversion HB as [|? ? _ HB1]; subst. inversion HB1 as [|? ? Hb HB2]; subst.
  inversion HB2 as [|? ? Hc HB3]; subst. inversion HB3 as [|? ? Hd _]; subst.
  unfold is_byte in *.
  unfold is_synced, is_synced_over, o_pk, peek. cbn [rest terr bind].
  assert ((4 <=? len (71 :: b :: c :: d :: t)) = true) as ->
    by (apply N.leb_le; unfold len; cbn [length]; lia).
  unfold takeN. change (N.to_nat 4) with 4%nat. cbn [firstn].
  unfold idx. change (N.to_nat 0) with 0%nat. change (N.to_nat 1) with 1%nat.
  change (N.to_nat 2) with 2%nat. change (N.to_nat 3) with 3%nat.
  cbn [nth_error bind]. unfold SyncByte. change (71 =? 71) with true. cbn [negb].
  rewrite afc_of_header, pid_of_header by assumption.
  cbn [plausible_at]. unfold plausible4. change (71 =? 71) with true. cbn [andb].
  destruct (N.eqb_spec (hdr_afc d * 16) 0) as [E0|E0];
  destruct (N.eqb_spec (hdr_afc d) 0) as [E1|E1]; try lia; cbn [negb].
  - reflexivity.
  - do 2 f_equal. f_equal.
    destruct (N.ltb_spec (hdr_pid b c) 4), (N.ltb_spec 15 (hdr_pid b c)),
             (N.leb_spec 4 (hdr_pid b c)), (N.leb_spec (hdr_pid b c) 15); try lia; reflexivity.
Qed.

(* ---- facts about positions ---- *)
Lemma plausible_at_sync l : plausible_at l = true -> exists b c d t, l = 71 :: b :: c :: d :: t.
Proof.
  destruct l as [|a [|b [|c [|d t]]]]; cbn; try discriminate.
  unfold plausible4. destruct (N.eqb_spec a 71); cbn; try discriminate.
  subst. eauto.
Qed.

Lemma plausible_short l : (length l < 4)%nat -> forall j, plausible_pos l j = false.
Proof.
  intros H j. unfold plausible_pos.
  assert (length (skipn j l) < 4)%nat by (rewrite skipn_length; lia).
  destruct (skipn j l) as [|a [|b [|c [|d t]]]]; cbn in *; try reflexivity; lia.
Qed.

Lemma first_plausible_tail x t i : plausible_at (x :: t) = false ->
  first_plausible (x :: t) i -> exists i', i = S i' /\ first_plausible t i'.
Proof.
  intros Hx [Hi Hlt]. destruct i as [|i'].
  - unfold plausible_pos in Hi. cbn [skipn] in Hi. congruence.
  - exists i'. split; [reflexivity|]. split.
    + exact Hi.
    + intros j Hj. apply (Hlt (S j)). lia.
Qed.

Lemma first_plausible_zero l i : plausible_at l = true -> first_plausible l i -> i = O.
Proof.
  intros H [_ Hlt]. destruct i; [reflexivity|].
  specialize (Hlt O ltac:(lia)). unfold plausible_pos in Hlt. cbn [skipn] in Hlt. congruence.
Qed.

Lemma none_plausible_tail x t : none_plausible (x :: t) -> none_plausible t.
Proof. intros H j. exact (H (S j)). Qed.

(* ---- the scan loop, by induction on the stream ---- *)
Definition found_result (l : bytes) (te off : N) (i : nat) : Res (N * option N * reader) :=
  Ok (off + N.of_nat i, None, mkR (skipn i l) None te).

Lemma sync_loop_nil f lst te off :
  sync_loop (S f) (mkR [] lst te) off = Ok (off, Some (map_err te), mkR [] lst te).
Proof. reflexivity. Qed.

Lemma sync_loop_cons f x t lst te off :
  sync_loop (S f) (mkR (x :: t) lst te) off =
  if negb (x =? 71) then sync_loop f (mkR t (Some x) te) (off + 1) else
  let? (ok, err, r3) := is_synced (mkR (x :: t) None te) in
  if ok then Ok (off, None, r3) else
  match err with
  | Some e => Ok (off, Some (map_err e), r3)
  | None =>
    let (y, r4) := read_byte r3 in
    match y with
    | inr e => Ok (off, Some (map_err e), r4)
    | inl _ => sync_loop f r4 (off + 1)
    end
  end.
Proof. reflexivity. Qed.

Lemma sync_loop_spec : forall l, is_bytes l -> forall fuel lst off te, (length l < fuel)%nat ->
  (forall i, first_plausible l i -> sync_loop fuel (mkR l lst te) off = found_result l te off i) /\
  (none_plausible l -> exists off' r', sync_loop fuel (mkR l lst te) off = Ok (off', Some (map_err te), r')).
Proof.
  induction l as [|x t IH]; intros HB fuel lst off te Hf.
  - destruct fuel as [|f]; [cbn in Hf; lia|]. split.
    + intros i [Hi _]. unfold plausible_pos in Hi. destruct i; discriminate Hi.
    + intros _. rewrite sync_loop_nil. eauto.
  - destruct fuel as [|f]; [cbn in Hf; lia|].
    assert (HBt : is_bytes t) by (inversion HB; assumption).
    assert (Hft : (length t < f)%nat) by (cbn in Hf; lia).
    rewrite !sync_loop_cons.
    destruct (N.eqb_spec x 71) as [Ex|Ex]; cbn [negb].
    2:{ (* not a sync byte: skip it *)
      assert (Hx : plausible_at (x :: t) = false).
      { destruct t as [|b [|c [|d t']]]; cbn; try reflexivity.
        unfold plausible4. destruct (N.eqb_spec x 71); [contradiction|reflexivity]. }
      destruct (IH HBt f (Some x) (off + 1) te Hft) as [IH1 IH2]. split.
      - intros i Hi. destruct (first_plausible_tail _ _ _ Hx Hi) as [i' [-> Hi']].
        rewrite (IH1 i' Hi'). unfold found_result. cbn [skipn]. do 3 f_equal. lia.
      - intros Hn. exact (IH2 (none_plausible_tail _ _ Hn)). }
    subst x.
    destruct (Nat.ltb_spec (length (71 :: t)) 4) as [Hs|Hs].
    + (* header cut by the end of the stream: Peek fails *)
      rewrite is_synced_short by exact Hs. cbn [bind]. split.
      * intros i [Hi _]. rewrite (plausible_short _ Hs i) in Hi. discriminate.
      * intros _. eauto.
    + destruct t as [|b [|c [|d t']]]; try (cbn in Hs; lia).
      rewrite is_synced_sync by exact HB. cbn [bind].
      destruct (plausible_at (71 :: b :: c :: d :: t')) eqn:Hp.
      * split.
        -- intros i Hi. rewrite (first_plausible_zero _ _ Hp Hi). unfold found_result.
           cbn [skipn]. do 3 f_equal. lia.
        -- intros Hn. specialize (Hn O). unfold plausible_pos in Hn. cbn [skipn] in Hn. congruence.
      * unfold read_byte. cbn [rest terr].
        destruct (IH HBt f (Some 71) (off + 1) te Hft) as [IH1 IH2]. split.
        -- intros i Hi. destruct (first_plausible_tail _ _ _ Hp Hi) as [i' [-> Hi']].
           rewrite (IH1 i' Hi'). unfold found_result. cbn [skipn]. do 3 f_equal. lia.
        -- intros Hn. exact (IH2 (none_plausible_tail _ _ Hn)).
Qed.

(* ---- decidability: every stream has a first plausible position or none ---- *)
Lemma find_sync_spec l :
  match find_sync l with Some i => first_plausible l i | None => none_plausible l end.
Proof.
  induction l as [|x t IH].
  - intros j. unfold plausible_pos. destruct j; reflexivity.
  - cbn [find_sync]. destruct (plausible_at (x :: t)) eqn:Hp.
    + split; [exact Hp|]. intros j Hj. lia.
    + destruct (find_sync t) as [i|]; cbn [option_map].
      * destruct IH as [Hi Hlt]. split; [exact Hi|].
        intros [|j] Hj; [exact Hp|]. apply Hlt. lia.
      * intros [|j]; [exact Hp|]. apply IH.
Qed.

Lemma first_or_none l : (exists i, first_plausible l i) \/ none_plausible l.
Proof.
  pose proof (find_sync_spec l) as H. destruct (find_sync l) as [i|]; [left; eauto|right; exact H].
Qed.

(* ---- the theorems of Properties/C16.v ---- *)
Lemma sync_first_plausible : forall l te i, is_bytes l -> first_plausible l i ->
  sync (start l te) = Ok (N.of_nat i, mkR (skipn i l) None te)
  /\ fst (read_n 188 (mkR (skipn i l) None te)) = firstn 188 (skipn i l).
Proof.
  intros l te i HB Hi. split; [|reflexivity].
  unfold sync, sync_raw, start. cbn [rest].
  destruct (sync_loop_spec l HB (S (length l)) None 0 te ltac:(lia)) as [H _].
  rewrite (H i Hi). unfold found_result. cbn [bind]. reflexivity.
Qed.

Lemma sync_not_found : forall l, is_bytes l -> none_plausible l ->
  sync (start l E.EOF) = Err E.SyncByteNotFound.
Proof.
  intros l HB Hn. unfold sync, sync_raw, start. cbn [rest].
  destruct (sync_loop_spec l HB (S (length l)) None 0 E.EOF ltac:(lia)) as [_ H].
  destruct (H Hn) as [off' [r' ->]]. reflexivity.
Qed.

Lemma sync_reader_error : forall l te, is_bytes l -> none_plausible l -> te <> E.EOF ->
  sync (start l te) = Err te.
Proof.
  intros l te HB Hn Hte. unfold sync, sync_raw, start. cbn [rest].
  destruct (sync_loop_spec l HB (S (length l)) None 0 te ltac:(lia)) as [_ H].
  destruct (H Hn) as [off' [r' ->]]. cbn [bind]. unfold map_err.
  destruct (N.eqb_spec te E.EOF); [contradiction|reflexivity].
Qed.

(* a found offset is inside the stream and at least 4 bytes from its end *)
Lemma first_plausible_bound l i : first_plausible l i -> (i + 4 <= length l)%nat.
Proof.
  intros [Hi _]. unfold plausible_pos in Hi.
  destruct (plausible_at_sync _ Hi) as [b [c [d [t E]]]].
  assert (length (skipn i l) >= 4)%nat by (rewrite E; cbn; lia).
  rewrite skipn_length in H. lia.
Qed.

(* C05: Sync is total on every byte stream and every terminal error *)
Lemma sync_total : forall l te, is_bytes l ->
  sync (start l te) <> Panic /\ sync (start l te) <> Diverge.
Proof.
  intros l te HB. unfold sync, sync_raw, start. cbn [rest].
  destruct (sync_loop_spec l HB (S (length l)) None 0 te ltac:(lia)) as [H1 H2].
  destruct (first_or_none l) as [[i Hi]|Hn].
  - rewrite (H1 i Hi). unfold found_result. cbn. split; discriminate.
  - destruct (H2 Hn) as [off' [r' ->]]. cbn. split; discriminate.
Qed.

(* F1 (DESIGN section 7): the loop as pinned in /repo returns an offset short by the number of
   false sync bytes.  Witness = the design-phase probe: 47 00 00 00 | 47 00 00 10 .. *)
Lemma f1_pinned_refuted :
  exists l i off r, is_bytes l /\ first_plausible l i /\
    sync_pinned (start l E.EOF) = Ok (off, r) /\ off <> N.of_nat i /\ rest r = skipn i l.
Proof.
  exists [71; 0; 0; 0; 71; 0; 0; 16; 1; 2], 4%nat, 3, (mkR [71; 0; 0; 16; 1; 2] None E.EOF).
  split; [repeat constructor|]. split.
  - split; [reflexivity|]. intros j Hj. destruct j as [|[|[|[|j]]]]; try reflexivity; lia.
  - split; [reflexivity|]. split; [discriminate|reflexivity].
Qed.

(* the unfolded result (offset, error, reader) — used by Proofs/BufioRefines.v *)
Lemma sync_raw_found l te i : is_bytes l -> first_plausible l i ->
  sync_raw (start l te) = Ok (N.of_nat i, None, mkR (skipn i l) None te).
Proof.
  intros HB Hi. unfold sync_raw, start. cbn [rest].
  destruct (sync_loop_spec l HB (S (length l)) None 0 te ltac:(lia)) as [H _].
  rewrite (H i Hi). reflexivity.
Qed.

Lemma sync_raw_none l te : is_bytes l -> none_plausible l ->
  exists off r', sync_raw (start l te) = Ok (off, Some (map_err te), r').
Proof.
  intros HB Hn. unfold sync_raw, start. cbn [rest].
  destruct (sync_loop_spec l HB (S (length l)) None 0 te ltac:(lia)) as [_ H]. exact (H Hn).
Qed.
