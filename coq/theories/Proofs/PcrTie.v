(* PCR tie: /repo/pcr.go was transcribed twice: Module Pcr (Model/Pcr.v, used by the adaptation-field model AF of C03;
   no uint64 wrap written because none can occur on bytes) and Module PcrCodec (Model/PcrCodec.v, C04; every uint64
   operation wrapped).  They are the same functions on the domain of the Go code: six BYTES for ExtractPCR, a uint64
   value for InsertPCR.  With that, C04's codec theorems are theorems about Pcr, and AF.SetPCR / AF.PCR / AF.SetOPCR /
   AF.OPCR are the C04 codec applied to the PCR / OPCR slice of the adaptation field. *)
From Gots Require Import Base.Prelude Base.CodecLemmas Model.Pcr Model.PcrCodec Model.AF Spec.TimestampSpec Spec.AFSpec Proofs.PcrPts.
Import TsSpec.
Local Open Scope N_scope.
Notation U64 := 18446744073709551616 (only parsing).

Lemma in_firstn' {A} (x : A) : forall n l, In x (firstn n l) -> In x l.
Proof. induction n as [|n IH]; intros l H; [contradiction|]. destruct l as [|a t]; [contradiction|].
  cbn [firstn] in H. destruct H as [H|H]; [left; exact H|right; apply IH; exact H]. Qed.
Lemma in_skipn' {A} (x : A) : forall n l, In x (skipn n l) -> In x l.
Proof. induction n as [|n IH]; intros l H; [exact H|]. destruct l as [|a t]; [contradiction|].
  cbn [skipn] in H. right. apply IH. exact H. Qed.

(* ---- ExtractPCR ---- *)
Lemma extract6_is_raw a b c d e f : a < 256 -> b < 256 -> c < 256 -> d < 256 -> e < 256 -> f < 256 ->
  Pcr.extract6 a b c d e f = pcr_raw a b c d e f.
Proof. intros Ha Hb Hc Hd He Hf. rewrite pcr_raw_value by assumption. unfold Pcr.extract6, pcr_value.
  rewrite land1, N.shiftr_div_pow2, !N.shiftl_mul_pow2.
  change (2^25) with 33554432. change (2^17) with 131072. change (2^9) with 512. change (2^1) with 2.
  change (2^7) with 128. change (2^8) with 256.
  rewrite (lor_mult_add (a * 33554432) (b * 131072) 25) by (change (2^25) with 33554432; lia).
  rewrite (lor_mult_add (a * 33554432 + b * 131072) (c * 512) 17) by (change (2^17) with 131072; lia).
  rewrite (lor_mult_add (a * 33554432 + b * 131072 + c * 512) (d * 2) 9) by (change (2^9) with 512; lia).
  rewrite (lor_mult_add (a * 33554432 + b * 131072 + c * 512 + d * 2) (e / 128) 1) by (change (2^1) with 2; lia).
  rewrite (lor_mult_add (e mod 2 * 256) f 8) by (change (2^8) with 256; lia).
  lia. Qed.

(* on every list whose first six elements are bytes (shorter lists: both panic at the same index) *)
Theorem extract_pcr_tie bs : is_bytes (firstn 6 bs) -> Pcr.extract_pcr bs = PcrCodec.extract_pcr bs.
Proof. intros HB. destruct bs as [|a [|b [|c [|d [|e [|f rest]]]]]]; try reflexivity.
  rewrite extract_pcr_cons. change (Pcr.extract_pcr (a :: b :: c :: d :: e :: f :: rest)) with (Ok (Pcr.extract6 a b c d e f)).
  cbn [firstn] in HB. unfold is_bytes in HB.
  repeat match goal with H : Forall _ (_ :: _) |- _ => inversion H; clear H; subst end.
  f_equal. apply extract6_is_raw; assumption. Qed.
Corollary extract_pcr_tie_bytes bs : is_bytes bs -> Pcr.extract_pcr bs = PcrCodec.extract_pcr bs.
Proof. intros HB. apply extract_pcr_tie. unfold is_bytes in *. rewrite Forall_forall in *. intros x Hx.
  apply HB. eapply in_firstn'; eassumption. Qed.

(* ---- InsertPCR ---- *)
Lemma ext_tie v : v < U64 -> sub64 v (w64 (v / 300 * 300)) = v - v / 300 * 300.
Proof. intros Hv. unfold sub64, w64. lia. Qed.
(* for every uint64 argument and EVERY target list *)
Theorem insert_pcr_tie b v : v < U64 -> Pcr.insert_pcr b v = PcrCodec.insert_pcr b v.
Proof. intros Hv. unfold Pcr.insert_pcr, PcrCodec.insert_pcr.
  destruct b as [|o0 [|o1 [|o2 [|o3 [|o4 [|o5 rest]]]]]]; try reflexivity.
  assert (E : (len (o0 :: o1 :: o2 :: o3 :: o4 :: o5 :: rest) <? 6) = false)
    by (apply N.ltb_ge; unfold len; cbn [length]; lia).
  rewrite E. cbv zeta. rewrite upd6. rewrite ext_tie by exact Hv.
  unfold Pcr.pcr6, blit. cbv zeta. cbn [N.to_nat blit_nat].
  replace (blit_nat rest 0 []) with rest by (destruct rest; reflexivity). reflexivity. Qed.

(* the two specifications of the PCR layout (Spec/AFSpec.v for C03, Spec/TimestampSpec.v for C04) are the same *)
Lemma pcr_enc_is_pcr_bytes v : pcr_enc v = pcr_bytes v. Proof. reflexivity. Qed.
Lemma pcr_dec_is_pcr_value a b c d e f : pcr_dec [a; b; c; d; e; f] = pcr_value a b c d e f.
Proof. unfold pcr_dec, pcr_value. lia. Qed.

(* ---- C04's codec theorems, stated for Module Pcr (each is the PcrCodec theorem of Proofs/PcrPts.v transported) ---- *)
Theorem pcr_roundtrip_Pcr v old : v < 8589934592 * 300 -> (6 <= length old)%nat ->
  exists b, Pcr.insert_pcr old v = Ok b /\ Pcr.extract_pcr b = Ok v.
Proof. intros Hv Hl. assert (Hv64 : v < U64) by lia.
  exists (pcr_bytes v ++ skipn 6 old). rewrite (insert_pcr_tie old v Hv64).
  split; [apply insert_pcr_ok; assumption|].
  destruct (pcr_roundtrip v old Hv Hl) as [b [Hi He]].
  rewrite (insert_pcr_ok old v Hv64 Hl) in Hi. inversion Hi; subst b. rewrite <- He.
  apply extract_pcr_tie. unfold pcr_bytes. cbn [app firstn].
  destruct (pcr_bytes_are_bytes v Hv) as [HB _]. exact HB. Qed.
Theorem pcr_layout_Pcr v old : v < U64 -> (6 <= length old)%nat ->
  Pcr.insert_pcr old v = Ok (pcr_bytes v ++ skipn 6 old).
Proof. intros Hv Hl. rewrite (insert_pcr_tie old v Hv). apply insert_pcr_ok; assumption. Qed.
(* the six bytes InsertPCR writes: C03_pcr_layout (v < 2^33*300) extended to every uint64 by C04_pcr_layout *)
Theorem pcr6_is_pcr_bytes v : v < U64 -> Pcr.pcr6 v = pcr_bytes v.
Proof. intros Hv. pose proof (pcr_layout_Pcr v [0; 0; 0; 0; 0; 0] Hv (le_n 6)) as L.
  unfold Pcr.insert_pcr in L. change (len [0; 0; 0; 0; 0; 0] <? 6) with false in L. cbv iota in L.
  change (blit [0; 0; 0; 0; 0; 0] 0 (Pcr.pcr6 v)) with (Pcr.pcr6 v) in L.
  cbn [skipn] in L. rewrite app_nil_r in L. exact (Ok_inj _ _ L). Qed.
Theorem pcr_decode_arith_Pcr a b c d e f rest : is_bytes [a; b; c; d; e; f] ->
  Pcr.extract_pcr (a :: b :: c :: d :: e :: f :: rest) = Ok (pcr_value a b c d e f).
Proof. intros HB. rewrite extract_pcr_tie by exact HB. apply pcr_decode_arith. exact HB. Qed.
Theorem pcr_panics_iff_short_Pcr b v : v < U64 ->
  (Pcr.insert_pcr b v = Panic <-> (length b < 6)%nat) /\
  (is_bytes (firstn 6 b) -> (Pcr.extract_pcr b = Panic <-> (length b < 6)%nat)).
Proof. intros Hv. split.
  - rewrite (insert_pcr_tie b v Hv). apply insert_pcr_panic_iff.
  - intros HB. rewrite (extract_pcr_tie b HB). apply extract_pcr_panic_iff. Qed.

(* ---- the adaptation-field PCR / OPCR accessors of C03 are the C04 codec on the field's six-byte slice ---- *)
Lemma is_bytes_slice6 p i j s : is_bytes p -> slice p i j = Ok s -> is_bytes (firstn 6 s).
Proof. intros HB E. unfold slice in E. destruct ((i <=? j) && (j <=? len p)); [|discriminate]. inversion E; subst.
  unfold is_bytes in *. rewrite Forall_forall in *. intros x Hx. apply HB.
  apply in_firstn' in Hx. apply in_firstn' in Hx. eapply in_skipn'. exact Hx. Qed.
Theorem af_PCR_is_codec p : is_bytes p ->
  AF.PCR p = (let? _ := AF.valid p in
              if negb (AF.hasPCR p) then Err E.NoPCR else
              let? s := slice p AF.pcrStart (AF.opcrStart p) in PcrCodec.extract_pcr s).
Proof. intros HB. unfold AF.PCR. destruct (AF.valid p); try reflexivity. cbn [bind].
  destruct (negb (AF.hasPCR p)); [reflexivity|].
  destruct (slice p AF.pcrStart (AF.opcrStart p)) eqn:E; try reflexivity. cbn [bind].
  apply extract_pcr_tie. eapply is_bytes_slice6; eassumption. Qed.
Theorem af_OPCR_is_codec p : is_bytes p ->
  AF.OPCR p = (let? _ := AF.valid p in
               if negb (AF.hasOPCR p) then Err E.NoOPCR else
               let? s := slice p (AF.opcrStart p) (AF.spliceCountdownStart p) in PcrCodec.extract_pcr s).
Proof. intros HB. unfold AF.OPCR. destruct (AF.valid p); try reflexivity. cbn [bind].
  destruct (negb (AF.hasOPCR p)); [reflexivity|].
  destruct (slice p (AF.opcrStart p) (AF.spliceCountdownStart p)) eqn:E; try reflexivity. cbn [bind].
  apply extract_pcr_tie. eapply is_bytes_slice6; eassumption. Qed.
Theorem af_SetPCR_is_codec p v : v < U64 ->
  AF.SetPCR p v = (let? _ := AF.valid p in
                   if negb (AF.hasPCR p) then Err E.NoPCR else
                   let? s := slice p AF.pcrStart (AF.opcrStart p) in
                   let? s' := PcrCodec.insert_pcr s v in Ok (blit p AF.pcrStart s')).
Proof. intros Hv. unfold AF.SetPCR. destruct (AF.valid p); try reflexivity. cbn [bind].
  destruct (negb (AF.hasPCR p)); [reflexivity|].
  destruct (slice p AF.pcrStart (AF.opcrStart p)); try reflexivity. cbn [bind].
  rewrite (insert_pcr_tie _ v Hv). reflexivity. Qed.
Theorem af_SetOPCR_is_codec p v : v < U64 ->
  AF.SetOPCR p v = (let? _ := AF.valid p in
                    if negb (AF.hasOPCR p) then Err E.NoOPCR else
                    let? s := slice p (AF.opcrStart p) (AF.spliceCountdownStart p) in
                    let? s' := PcrCodec.insert_pcr s v in Ok (blit p (AF.opcrStart p) s')).
Proof. intros Hv. unfold AF.SetOPCR. destruct (AF.valid p); try reflexivity. cbn [bind].
  destruct (negb (AF.hasOPCR p)); [reflexivity|].
  destruct (slice p (AF.opcrStart p) (AF.spliceCountdownStart p)); try reflexivity. cbn [bind].
  rewrite (insert_pcr_tie _ v Hv). reflexivity. Qed.
