(* C10 lemmas, part 5: the hypothesis "at most 10 ring entries written" follows from a condition on
   the INPUT history alone: at most 10 distinct signal times among the processed descriptors. *)
From Gots Require Import Base.Prelude Model.SegDesc Model.State
  Proofs.SegProofs Proofs.StateBasics Proofs.StateRun Proofs.StateDup Proofs.StateInv.
Import SegDesc State.
Local Open Scope nat_scope.

Definition pts_of (l : list desc) : list N := map ptsv (filter haspts l).
Definition distinct (l : list N) : nat := length (nodup N.eq_dec l).

Lemma distinct_cons : forall x l, distinct l <= distinct (x :: l).
Proof. intros x l. unfold distinct. simpl. destruct (in_dec N.eq_dec x l); simpl; lia. Qed.

Lemma pts_of_cons : forall d l, pts_of (d :: l) = if haspts d then ptsv d :: pts_of l else pts_of l.
Proof. intros d l. unfold pts_of. simpl. destruct (haspts d); reflexivity. Qed.

Lemma distinct_pts_mono : forall d l, distinct (pts_of l) <= distinct (pts_of (d :: l)).
Proof. intros d l. rewrite pts_of_cons. destruct (haspts d); [apply distinct_cons|lia]. Qed.

Lemma nodup_bound : forall (W X : list N), NoDup W -> incl W X -> length W <= distinct X.
Proof.
  intros W X N I. unfold distinct. apply NoDup_incl_length; [exact N|].
  intros x Hx. apply nodup_In. now apply I.
Qed.

(* the ring holds a non-empty entry for signal time p *)
Definition has_pts (ring : list (option elem)) (p : N) : Prop :=
  exists e, In (Some e) ring /\ epts e = p /\ edescs e <> [].

Lemma has_pts_le : forall ring ring' p, Forall2 ring_le1 ring ring' -> has_pts ring p -> has_pts ring' p.
Proof.
  intros ring ring' p F (e & Hi & Hp & Hd). induction F as [|a b t t' R F IH]; [contradiction|].
  destruct Hi as [->|Hi].
  - simpl in R. destruct R as (e' & -> & Ep & Inc). exists e'. split; [now left|]. split; [congruence|].
    destruct (edescs e) as [|x l]; [congruence|]. intros X. specialize (Inc x (or_introl eq_refl)). rewrite X in Inc. contradiction.
  - destruct (IH Hi) as (e' & Hi' & X). exists e'. split; [now right|exact X].
Qed.

(* a scan that runs through a ring holding a non-empty entry for the descriptor's signal time sets descAdded *)
Lemma scan_added_mono : forall d p ring a ring1 a', scan_ring d p ring a = (ring1, a', None) -> a = true -> a' = true.
Proof.
  intros d p ring. induction ring as [|[e|] t IH]; intros a ring1 a' H Ha; simpl in H.
  - inversion H; subst. reflexivity.
  - pose proof (scan_descs_stop d (epts e =? p)%N (edescs e) 0 a) as S.
    destruct (scan_descs d (epts e =? p)%N (edescs e) 0 a) as [[napp a1] r1] eqn:SD. simpl in S.
    destruct r1 as [x|]; [discriminate|].
    rewrite (scan_descs_through d _ _ 0 a (eq_sym S)) in SD. inversion SD; subst napp a1. clear SD.
    destruct (scan_ring d p t _) as [[t' a2] r] eqn:R. inversion H; subst ring1 a2 r.
    eapply IH; [exact R|]. subst a. reflexivity.
  - destruct (scan_ring d p t a) as [[t' a2] r] eqn:R. inversion H; subst ring1 a2 r. eapply IH; eassumption.
Qed.

Lemma scan_has_pts_added : forall d p ring a ring1 a', scan_ring d p ring a = (ring1, a', None) ->
  has_pts ring p -> a' = true.
Proof.
  intros d p ring. induction ring as [|[e|] t IH]; intros a ring1 a' H (e0 & Hi & Hp & Hd); simpl in H.
  - contradiction.
  - pose proof (scan_descs_stop d (epts e =? p)%N (edescs e) 0 a) as S.
    destruct (scan_descs d (epts e =? p)%N (edescs e) 0 a) as [[napp a1] r1] eqn:SD. simpl in S.
    destruct r1 as [x|]; [discriminate|].
    rewrite (scan_descs_through d _ _ 0 a (eq_sym S)) in SD. inversion SD; subst napp a1. clear SD.
    destruct (scan_ring d p t _) as [[t' a2] r] eqn:R. inversion H; subst ring1 a2 r.
    destruct Hi as [Hi|Hi].
    + inversion Hi; subst e0. rewrite Hp, N.eqb_refl in R.
      destruct (edescs e) as [|x l]; [congruence|]. simpl in R. rewrite orb_true_r in R.
      eapply scan_added_mono; [exact R|reflexivity].
    + eapply IH; [exact R|]. exists e0. auto.
  - destruct (scan_ring d p t a) as [[t' a2] r] eqn:R. inversion H; subst ring1 a2 r.
    destruct Hi as [Hi|Hi]; [discriminate|]. eapply IH; [exact R|]. exists e0. auto.
Qed.

(* the invariant: the written signal times are pairwise distinct signal times of processed descriptors *)
Definition M (s : state) (g : ghost) : Prop :=
  distinct (pts_of (processed g)) <= 10 ->
  exists W, length W = writes g /\ NoDup W /\ incl W (pts_of (processed g)) /\ forall p, In p W -> has_pts (received s) p.

Lemma M_writes : forall s g, M s g -> distinct (pts_of (processed g)) <= 10 -> writes g <= distinct (pts_of (processed g)).
Proof. intros s g HM D. destruct (HM D) as (W & L & N & I & _). rewrite <- L. now apply nodup_bound. Qed.

Lemma M_new : M NewState g0.
Proof. intros _. exists []. simpl. repeat split; try constructor. intros x []. intros p []. Qed.

Theorem process_M : forall s g d s' closed err, Inv (s, g) -> M s g ->
  ProcessDescriptor s d = Ok (s', (closed, err)) -> M s' (gnext_process s s' d closed err g).
Proof.
  intros s g d s' closed err [H1 H2] HM H D. simpl in H1, H2, D.
  assert (D0 : distinct (pts_of (processed g)) <= 10) by (pose proof (distinct_pts_mono d (processed g)); lia).
  destruct (HM D0) as (W & L & N & I & K).
  pose proof (M_writes s g HM D0) as W10.
  destruct H2 as (_ & _ & Hc). destruct (Hc ltac:(lia)) as (_ & _ & _ & _ & (S1 & S2)).
  pose proof H1 as (_ & (RL & RH) & _).
  assert (Iw : incl W (pts_of (d :: processed g))).
  { intros x Hx. rewrite pts_of_cons. destruct (haspts d); [right|]; now apply I. }
  destruct (process_ring _ _ _ _ _ H1 H) as [(Hh & G & _)|(NR & Hh & r1 & G & Hr)].
  - (* no ring write *)
    exists W. simpl. rewrite Hh, Nat.eqb_refl. repeat split; auto.
    intros p Hp. eapply has_pts_le; [|apply K; exact Hp]. clear -G. induction G; constructor; eauto using grown1_le.
  - (* a ring write: the signal time is new *)
    assert (Hne : (receivedHead s' =? receivedHead s) = false) by (rewrite Hh; now apply head_step_neq).
    destruct (process_shape _ _ _ _ _ H1 H) as [(R & _)|(_ & Hd & (ring1 & added & SR & Hr' & Hh') & _)]; [contradiction|].
    assert (added = false).
    { destruct added; [|reflexivity]. rewrite Hh' in Hh. pose proof (head_step_neq _ RH) as X.
      rewrite <- Hh, Nat.eqb_refl in X. discriminate. }
    subst added.
    assert (Fresh : ~ In (ptsv d) W).
    { intros X. pose proof (scan_has_pts_added _ _ _ _ _ _ SR (K _ X)). discriminate. }
    exists (ptsv d :: W). simpl. rewrite Hne.
    assert (W' : S (writes g) <= 10).
    { assert (length (ptsv d :: W) <= distinct (pts_of (d :: processed g))).
      { apply nodup_bound; [constructor; assumption|]. intros x [<-|Hx]; [|now apply Iw].
        rewrite pts_of_cons, Hd. now left. }
      simpl in H0. lia. }
    split; [simpl; lia|]. split; [constructor; assumption|]. split.
    + intros x [<-|Hx]; [|now apply Iw]. rewrite pts_of_cons, Hd. now left.
    + assert (Hw : receivedHead s = writes g) by (rewrite S1; apply mod10_small; lia).
      assert (L1 : length r1 = 10) by (rewrite <- RL; symmetry; eapply F2_length; exact G).
      intros p [<-|Hp].
      * rewrite Hr. exists (mkElem (ptsv d) [d]). split; [apply set_nth_in; lia|]. simpl. split; [reflexivity|discriminate].
      * rewrite Hr. eapply has_pts_le; [apply set_nth_le|].
        -- eapply grown_none; [exact G|]. apply S2; lia.
        -- eapply has_pts_le; [|apply K; exact Hp]. clear -G. induction G; constructor; eauto using grown1_le.
Qed.

Definition InvM (sg : state * ghost) : Prop := Inv sg /\ M (fst sg) (snd sg).

Theorem invM_step : forall pool sg c, InvM sg -> call_in_pool pool c ->
  exists sg', gstep pool sg c = Ok sg' /\ InvM sg'.
Proof.
  intros pool [s g] c [HI HM] Hc. simpl in HM.
  destruct (inv_step pool (s, g) c HI Hc) as (sg' & HS & HI'). exists sg'. split; [exact HS|]. split; [exact HI'|].
  destruct c as [i|i|]; simpl in HS.
  - destruct (nth_error pool i) as [d|]; [|discriminate].
    destruct (ProcessDescriptor s d) as [[s1 [cl er]]| | |] eqn:P; try discriminate. cbn [bind] in HS.
    inversion HS; subst sg'. simpl. eapply process_M; eassumption.
  - destruct (nth_error pool i) as [d|]; [|discriminate].
    pose proof (close_ring s d) as [R1 R2].
    destruct (Close s d) as [s1 [cl er]] eqn:C. inversion HS; subst sg'. simpl in *.
    intros D. destruct (HM D) as (W & L & N & I & K). exists W. rewrite R1. auto.
  - inversion HS; subst sg'. exact HM.
Qed.

Theorem invM_reachable : forall pool cs sg, InvM sg -> Forall (call_in_pool pool) cs ->
  exists sg', gexec pool sg cs = Ok sg' /\ InvM sg'.
Proof.
  intros pool. induction cs as [|c t IH]; intros sg HI HF; simpl; [eauto|].
  inversion HF; subst. destruct (invM_step pool sg c HI H1) as (sg' & HS & HI'). rewrite HS. cbn [bind]. now apply IH.
Qed.

(* the processed descriptors are a function of the input history *)
Fixpoint processed_of (pool : list desc) (cs : list call) (acc : list desc) : list desc :=
  match cs with
  | [] => acc
  | CProcess i :: t => match nth_error pool i with Some d => processed_of pool t (d :: acc) | None => acc end
  | _ :: t => processed_of pool t acc
  end.

Lemma gexec_processed : forall pool cs s g s' g', gexec pool (s, g) cs = Ok (s', g') ->
  processed g' = processed_of pool cs (processed g).
Proof.
  intros pool. induction cs as [|c t IH]; intros s g s' g' H; simpl in H; [now inversion H|].
  destruct c as [i|i|]; simpl in *.
  - destruct (nth_error pool i) as [d|]; [|discriminate].
    destruct (ProcessDescriptor s d) as [[s1 [cl er]]| | |]; try discriminate. cbn [bind] in H.
    apply IH in H. exact H.
  - destruct (nth_error pool i) as [d|]; [|discriminate]. destruct (Close s d) as [s1 [cl er]]. cbn [bind] in H.
    apply IH in H. exact H.
  - apply IH in H. exact H.
Qed.

(* number of distinct signal times (of descriptors with a PTS) that the history hands to ProcessDescriptor *)
Definition distinct_pts (pool : list desc) (cs : list call) : nat := distinct (pts_of (processed_of pool cs [])).

(* THE no-duplicate clause with a hypothesis on the input only *)
Theorem open_consistent_pts : forall pool cs, Forall (call_in_pool pool) cs -> distinct_pts pool cs <= 10 ->
  exists s g, gexec pool (NewState, g0) cs = Ok (s, g) /\ exec pool NewState cs = Ok s /\
    writes g <= 10 /\ NoDup (opened g) /\ NoDup (open s) /\ (forall x, In x (open s) -> ~ In x (gone g)).
Proof.
  intros pool cs HF D.
  destruct (invM_reachable pool cs (NewState, g0) (conj Inv_new M_new) HF) as ([s g] & HG & [[H1 H2] HM]).
  simpl in *. exists s, g. split; [exact HG|]. split; [eapply gexec_exec; exact HG|].
  assert (Dg : distinct (pts_of (processed g)) <= 10).
  { rewrite (gexec_processed _ _ _ _ _ _ HG). exact D. }
  pose proof (M_writes s g HM Dg) as W. assert (W10 : writes g <= 10) by lia.
  split; [exact W10|]. destruct H2 as (_ & Hb & Hc). destruct (Hc W10) as (C1 & _ & C3 & _).
  split; [exact C1|]. split; [eapply subseq_nodup; eassumption|]. intros x Hx Hg. exact (C3 x Hg Hx).
Qed.

Theorem writes_le_distinct_pts : forall pool cs sg, Forall (call_in_pool pool) cs ->
  gexec pool (NewState, g0) cs = Ok sg -> distinct_pts pool cs <= 10 -> writes (snd sg) <= distinct_pts pool cs.
Proof.
  intros pool cs sg HF HG D.
  destruct (invM_reachable pool cs (NewState, g0) (conj Inv_new M_new) HF) as (sg' & HG' & [_ HM]).
  rewrite HG in HG'. inversion HG'; subst sg'. destruct sg as [s g]. simpl in *.
  pose proof (gexec_processed _ _ _ _ _ _ HG) as E. simpl in E.
  unfold distinct_pts in *. rewrite <- E in *. now apply (M_writes s g HM).
Qed.
