(* C14: FilterPMTPacketsToPids = packetisation of the serialised section of the kept streams. *)
From Gots Require Import Base.Prelude Model.Psi Model.Pmt Spec.PmtSpec Proofs.PmtBase Proofs.PmtParse Proofs.PmtTables Proofs.PmtRead Proofs.PmtMisc Proofs.PmtRemove.
Import Pmt.
Local Open Scope N_scope.

(* ---------- in-place writes ---------- *)
Lemma upd_app_cons pre x post v : upd (pre ++ x :: post) (len pre) v = pre ++ v :: post.
Proof. unfold upd, len. rewrite Nat2N.id. induction pre as [|a t IH]; [reflexivity|]. cbn [app length upd_nat]. rewrite IH. reflexivity. Qed.
Lemma set_idx_app_cons pre x post v i : i = len pre -> set_idx (pre ++ x :: post) i v = Ok (pre ++ v :: post).
Proof. intros ->. unfold set_idx. rewrite len_app, len_cons. replace (len pre <? len pre + (1 + len post)) with true by lia.
  rewrite upd_app_cons. reflexivity. Qed.

(* ---------- the copy loop ---------- *)
Lemma keep_streams_cons want e ss :
  ser_streams (keep_streams want (e :: ss)) =
  (if existsb (N.eqb (epid e)) want then ser_es e else []) ++ ser_streams (keep_streams want ss).
Proof. unfold keep_streams. cbn [filter]. destruct (existsb (N.eqb (epid e)) want); reflexivity. Qed.
Lemma len_keep_streams want ss : len (ser_streams (keep_streams want ss)) <= len (ser_streams ss).
Proof. induction ss as [|e t IH]; [cbn; lia|]. rewrite keep_streams_cons, len_app.
  change (ser_streams (e :: t)) with (ser_es e ++ ser_streams t). rewrite len_app.
  destruct (existsb (N.eqb (epid e)) want); [|rewrite len_nil]; lia. Qed.

Lemma filter_streams_ok want : forall ss fuel pre post bound cs out,
  Forall wf_es ss ->
  len pre + len (ser_streams ss) < 65536 -> 4 <= len post ->
  bound + 4 = len pre + len (ser_streams ss) ->
  cs = len pre + len (ser_streams ss) ->
  (length ss < fuel)%nat ->
  filter_streams fuel (pre ++ ser_streams ss ++ post) (len pre) bound cs want out
  = Ok (out ++ ser_streams (keep_streams want ss)).
Proof.
  induction ss as [|[t p ds] ss IH]; intros fuel pre post bound cs out Hwf Hlen Hpost Hb Hcs Hfuel;
    (destruct fuel as [|fuel]; [cbn in Hfuel; lia|]); cbn [filter_streams].
  - change (ser_streams []) with (@nil N) in *. rewrite len_nil in Hb.
    replace (len pre <? bound) with false by lia. cbn. rewrite app_nil_r. reflexivity.
  - revert Hcs. inversion Hwf as [|? ? [Ht [Hp [Hds Hil]]] Hwf']; subst. intros Hcs. cbn [stype epid descs] in *.
    rewrite keep_streams_cons. cbn [epid].
    rewrite len_ser_streams_cons in *. cbn [descs] in *.
    set (il := len (ser_descs ds)) in *.
    set (E5 := ser_es {| stype := t; epid := p; descs := ds |}).
    assert (EE: E5 = [t; 224 + p / 256; p mod 256; 240 + il / 256; il mod 256] ++ ser_descs ds) by reflexivity.
    assert (LE: len E5 = 5 + il) by (rewrite EE, len_app, !len_cons, len_nil; reflexivity).
    change (ser_streams ({| stype := t; epid := p; descs := ds |} :: ss)) with (E5 ++ ser_streams ss) in *.
    set (BS := pre ++ (E5 ++ ser_streams ss) ++ post).
    assert (LB: len BS = len pre + (5 + il + len (ser_streams ss) + len post)).
    { unfold BS. rewrite !len_app, LE. lia. }
    replace (len pre <? bound) with true by lia.
    assert (EX: BS = pre ++ [t; 224 + p / 256; p mod 256; 240 + il / 256; il mod 256] ++ (ser_descs ds ++ ser_streams ss ++ post)).
    { unfold BS. rewrite EE. rewrite <- !app_assoc. reflexivity. }
    assert (R1: idx BS (w16 (len pre + 1)) = Ok (224 + p / 256)) by (rewrite EX, w16_small by lia; rewrite idx_off; reflexivity).
    assert (R2: idx BS (w16 (len pre + 2)) = Ok (p mod 256)) by (rewrite EX, w16_small by lia; rewrite idx_off; reflexivity).
    assert (R3: idx BS (w16 (len pre + 3)) = Ok (240 + il / 256)) by (rewrite EX, w16_small by lia; rewrite idx_off; reflexivity).
    assert (R4: idx BS (w16 (len pre + 4)) = Ok (il mod 256)) by (rewrite EX, w16_small by lia; rewrite idx_off; reflexivity).
    rewrite R1, R2, R3, R4. cbn [bind].
    rewrite (field_224 p) by lia. rewrite (field_240 il) by lia.
    rewrite (w16_small (len pre + 5 + il)) by lia.
    replace (cs <? len pre + 5 + il) with false by lia.
    rewrite (w16_small (len pre + (5 + il))) by lia.
    assert (SL: slice BS (len pre) (len pre + 5 + il) = Ok E5).
    { unfold BS. rewrite <- app_assoc. apply slice_mid; [reflexivity|rewrite LE; lia]. }
    assert (EQ2: BS = (pre ++ E5) ++ ser_streams ss ++ post) by (unfold BS; rewrite <- !app_assoc; reflexivity).
    assert (L2: len (pre ++ E5) = len pre + (5 + il)) by (rewrite len_app, LE; reflexivity).
    rewrite <- L2. rewrite EQ2.
    destruct (existsb (N.eqb p) want).
    + rewrite <- EQ2 at 1. rewrite SL. cbn [bind]. rewrite (app_assoc out).
      apply IH; try assumption; rewrite ?(len_app (pre ++ E5)), ?L2, ?len_app; try lia. cbn in Hfuel. lia.
    + cbn [bind app].
      apply IH; try assumption; rewrite ?(len_app (pre ++ E5)), ?L2, ?len_app; try lia. cbn in Hfuel. lia.
Qed.

(* ---------- re-packetisation ---------- *)
Lemma repacketise_spec : forall pkts hdrs f,
  Forall2 (fun p h => pkt_header p = Ok h /\ len h <= 188) pkts hdrs ->
  repacketise pkts f = Ok (spec_repack hdrs f).
Proof. induction pkts as [|p t IH]; intros hdrs f H; inversion H as [|? h ? hs [Hh Hl] Ht]; subst; [reflexivity|].
  cbn [repacketise spec_repack]. rewrite Hh. cbn [bind]. destruct f as [|b f']; [reflexivity|].
  set (f := b :: f') in *. set (room := 188 - len h).
  assert (TW: (if room <? len f then takeN room f else f) = takeN room f).
  { destruct (N.ltb_spec room (len f)); [reflexivity|]. unfold takeN. symmetry. apply firstn_all2. unfold len in *. lia. }
  rewrite TW.
  assert (FR: (if len (takeN room f) <? len f then dropN (len (takeN room f)) f else []) = dropN room f).
  { rewrite len_takeN. destruct (N.ltb_spec (N.min room (len f)) (len f)) as [Lt|Ge].
    - f_equal. lia.
    - unfold dropN. symmetry. apply skipn_all2. unfold len in *. lia. }
  rewrite FR. rewrite (IH hs) by exact Ht. cbn [bind]. f_equal. f_equal.
  assert (LT: len (h ++ takeN room f) <= 188) by (rewrite len_app, len_takeN; unfold room; lia).
  assert (TK: forall l : bytes, len l <= 188 -> takeN 188 l = l).
  { intros l Hl0. unfold takeN. apply firstn_all2. unfold len in Hl0. lia. }
  rewrite (TK _ LT).
  rewrite <- app_assoc. f_equal. f_equal. f_equal. rewrite len_app. unfold room. lia. Qed.

(* what the spec re-packetisation carries: the data, then 0xFF *)
Lemma spec_repack_payload : forall hdrs data,
  Forall (fun h => len h <= 188) hdrs ->
  len data <= fold_right (fun h acc => (188 - len h) + acc) 0 hdrs ->
  exists k, concat (map (fun hp => dropN (len (fst hp)) (snd hp)) (combine hdrs (spec_repack hdrs data)))
            = data ++ repeatN 255 k.
Proof. induction hdrs as [|h t IH]; intros data Hh Hcap.
  - cbn in Hcap. assert (data = []) by (apply len_0_nil; lia). subst. exists 0. reflexivity.
  - inversion Hh as [|? ? Hl Ht]; subst. cbn [spec_repack]. destruct data as [|b d'].
    + exists 0. reflexivity.
    + set (data := b :: d') in *. set (room := 188 - len h) in *. cbn [fold_right] in Hcap. fold room in Hcap.
      cbn [combine map concat fst snd]. rewrite dropN_app by reflexivity.
      destruct (N.ltb_spec room (len data)) as [Lt|Ge].
      * (* packet full, more data follows *)
        rewrite len_takeN. replace (room - N.min room (len data)) with 0 by lia.
        cbn [repeatN N.to_nat repeat]. rewrite app_nil_r.
        destruct (IH (dropN room data) Ht) as [k Hk].
        { unfold dropN. unfold len in *. rewrite skipn_length. lia. }
        exists k. rewrite Hk. rewrite app_assoc. f_equal. unfold takeN, dropN. apply firstn_skipn.
      * (* last packet: the remaining packets are dropped *)
        assert (D: dropN room data = []) by (unfold dropN; apply skipn_all2; unfold len in *; lia).
        rewrite D. assert (T: takeN room data = data) by (unfold takeN; apply firstn_all2; unfold len in *; lia).
        rewrite T. destruct t as [|h2 t2]; cbn [spec_repack combine map concat]; rewrite app_nil_r; eexists; reflexivity.
Qed.

(* ---------- packets built by the spec, as seen by the filter ---------- *)
Lemma mk_pkt_hdr pid pusi m af ch : mk_pkt pid pusi m af ch = hdr_of pid pusi m af ++ ch.
Proof. unfold mk_pkt, hdr_of. rewrite <- !app_assoc. reflexivity. Qed.
Lemma hdr_of_len pid pusi m af ch : wf_pkt_parts pid m af ch -> len (hdr_of pid pusi m af) + len ch = 188.
Proof. intros W. pose proof (mk_pkt_len pid pusi m af ch W) as L. rewrite mk_pkt_hdr, len_app in L. exact L. Qed.
Lemma mk_pkt_header pid pusi m af ch : wf_pkt_parts pid m af ch ->
  pkt_header (mk_pkt pid pusi m af ch) = Ok (hdr_of pid pusi m af).
Proof. intros W. pose proof (hdr_of_len pid pusi m af ch W) as HL. pose proof (mk_pkt_len pid pusi m af ch W) as L.
  unfold pkt_header, payload_start, pkt_has_af.
  assert (I3: idx (mk_pkt pid pusi m af ch) 3 = Ok (tsc m * 64 + (match af with Some _ => 48 | None => 16 end) + cc m)) by reflexivity.
  rewrite I3. cbn [bind]. destruct W as (Hp & (Htsc & Hcc) & Hch & Haf).
  set (B3 := tsc m * 64 + (match af with Some _ => 48 | None => 16 end) + cc m).
  assert (B3 < 256) by (subst B3; destruct af; lia).
  rewrite bit_byte_32 by assumption. rewrite L.
  destruct af as [a|].
  - replace ((B3 / 32) mod 2) with 1 by (subst B3; lia). cbn [N.eqb negb].
    assert (I4: idx (mk_pkt pid pusi m (Some a) ch) 4 = Ok (len a)) by reflexivity. rewrite I4. cbn [bind].
    destruct Haf as [_ Haf]. replace (188 <? 4 + 1 + len a) with false by lia.
    rewrite mk_pkt_hdr. apply slice_prefix. unfold hdr_of. rewrite len_app, !len_cons, len_nil. lia.
  - replace ((B3 / 32) mod 2) with 0 by (subst B3; lia). cbn [N.eqb negb bind].
    replace (188 <? 4) with false by reflexivity.
    rewrite mk_pkt_hdr. apply slice_prefix. reflexivity. Qed.

Lemma concat_payloads_items pid : forall l first, all_mine l -> Forall (wf_item pid) l ->
  concat_payloads (ser_items pid first l) = Ok (concat (chunks l)).
Proof. induction l as [|it t IH]; intros first AM WI; [reflexivity|].
  inversion AM as [|? ? A1 AM']; inversion WI as [|? ? W1 WI']; subst. destruct it as [p|m af ch]; [contradiction|].
  cbn [ser_items concat_payloads chunks concat]. cbn [wf_item] in W1.
  rewrite (mk_pkt_payload pid first m af ch W1). rewrite (IH false AM' WI'). reflexivity. Qed.

Lemma headers_items pid : forall l first, all_mine l -> Forall (wf_item pid) l ->
  Forall2 (fun p h => pkt_header p = Ok h /\ len h <= 188) (ser_items pid first l) (hdrs_of pid first l).
Proof. induction l as [|it t IH]; intros first AM WI; [constructor|].
  inversion AM as [|? ? A1 AM']; inversion WI as [|? ? W1 WI']; subst. destruct it as [p|m af ch]; [contradiction|].
  cbn [ser_items hdrs_of]. cbn [wf_item] in W1. constructor; [|apply IH; assumption].
  split; [apply mk_pkt_header; exact W1|]. pose proof (hdr_of_len pid first m af ch W1). lia. Qed.

Lemma patch_byte h h' : h < 4 -> h' < 4 -> N.lor (N.land (176 + h) 240) h' = 176 + h'.
Proof. intros A B.
  assert (h = 0 \/ h = 1 \/ h = 2 \/ h = 3) as [->|[->|[->| ->]]] by lia;
  assert (h' = 0 \/ h' = 1 \/ h' = 2 \/ h' = 3) as [->|[->|[->| ->]]] by lia; reflexivity. Qed.

Definition first12 (s : pmt_sec) : bytes := [2; 176 + sec_len s / 256; sec_len s mod 256] ++ sec_fixed s.
Lemma ser_sec_first12 s : ser_sec s = first12 s ++ ser_descs (pdescs s) ++ ser_streams (sstreams s) ++ crc s.
Proof. unfold ser_sec, ser_sec_nocrc, sec_head, sec_body, first12. rewrite <- !app_assoc. reflexivity. Qed.
Lemma len_first12 s : len (first12 s) = 12. Proof. reflexivity. Qed.

Section Filter.
Variables (c : carrier) (pid : N) (items : list item) (want : list N).
Hypothesis WC : wf_carrier c.
Hypothesis PR : pre c = [].
Hypothesis AM : all_mine items.
Hypothesis WI : Forall (wf_item pid) items.
Hypothesis EQ : concat (chunks items) = ser_payload c.
Hypothesis WN : want <> [].

Let s := sec c.
Let HEAD := pf c :: repeatN 255 (pf c).
Let ST := repeatN 255 (stuffing c).

Lemma payload_shape : ser_payload c = HEAD ++ ser_sec s ++ ST.
Proof. unfold ser_payload, ser_unit. rewrite PR. cbn [ser_pre flat_map app]. rewrite <- app_assoc. reflexivity. Qed.

Theorem filter_ok :
  filter_pmt_packets (ser_items pid true items) want =
  Ok (let missing := missing_of (map epid (sstreams s)) pid want in
      if none_present (map epid (sstreams s)) pid want then (None, Some missing)
      else (Some (spec_repack (hdrs_of pid true items)
                    (ser_unit {| pf := pf c; pre := []; sec := filtered_sec s want; stuffing := 0 |})),
            match missing with [] => None | _ => Some missing end)).
Proof.
  destruct WC as (Hpf & _ & WS). pose proof WS as (Hprog & Hver & Hsn & Hln & Hpcr & Hpd & Hpil & Hss & Hsl & Hcrc & Hcb).
  fold s in WS, Hprog, Hver, Hsn, Hln, Hpcr, Hpd, Hpil, Hss, Hsl, Hcrc, Hcb.
  pose proof (headers_items pid items true AM WI) as HD.
  pose proof (concat_payloads_items pid items true AM WI) as CP.
  destruct items as [|it rest].
  { exfalso. cbn [chunks concat] in EQ. rewrite payload_shape in EQ. discriminate. }
  inversion AM as [|? ? A1 _]; subst. inversion WI as [|? ? W1 _]; subst.
  destruct it as [p0|m af ch]; [contradiction|]. cbn [wf_item] in W1.
  set (ITEMS := Mine m af ch :: rest) in *.
  destruct want as [|w0 wt]; [congruence|]. set (W := w0 :: wt) in *.
  assert (FP: exists first tl, ser_items pid true ITEMS = first :: tl /\ pkt_pid first = Ok pid).
  { eexists _, _. split; [reflexivity|]. apply mk_pkt_pid. exact W1. }
  destruct FP as (first & tl & EI & FPID).
  unfold filter_pmt_packets. rewrite EI. unfold W at 1. rewrite <- EI.
  rewrite CP, EQ. cbn [bind]. unfold new_pmt. rewrite (parse_tables_ok c WC). cbn [bind]. rewrite FPID. cbn [bind].
  cbv zeta. unfold none_present.
  change (filter _ (filter _ W)) with (missing_of (map epid (sstreams s)) pid W).
  change (filter _ W) with (considered pid W).
  set (MISS := missing_of (map epid (sstreams s)) pid W).
  destruct ((0 <? len MISS) && (len MISS =? len (considered pid W))) eqn:EL.
  { apply andb_true_iff in EL. destruct EL as [EL _]. destruct MISS; [discriminate EL|reflexivity]. }
  (* the section is rebuilt *)
  rewrite payload_shape.
  assert (LH: len HEAD = pf c + 1) by (unfold HEAD; rewrite len_cons, len_repeatN; lia).
  assert (LS: len (ser_sec s) = 3 + sec_len s) by (apply len_ser_sec; exact Hcrc).
  pose proof (len_sec_body s) as LBD.
  assert (L13: 13 <= sec_len s) by (unfold sec_len; lia).
  cbn [Psi.pointer_field HEAD app]. fold HEAD.
  change (pf c :: repeatN 255 (pf c) ++ ser_sec s ++ ST) with (HEAD ++ ser_sec s ++ ST).
  rewrite !len_app, LH, LS.
  replace (pf c + 1 + (3 + sec_len s + len ST) <? pf c + 1 + 12) with false by lia.
  rewrite slice_from_app by (symmetry; exact LH). cbn [bind].
  rewrite section_length_ser_sec by exact Hsl.
  replace (sec_len s <? 13) with false by lia.
  replace (pf c + 1 + (3 + sec_len s + len ST) <? pf c + 1 + 3 + sec_len s) with false by lia. cbn [orb].
  rewrite slice_prefix by (symmetry; exact LH). cbn [bind].
  set (pd := ser_descs (pdescs s)) in *. set (pil := len pd) in *.
  assert (PL: ser_sec s ++ ST = first12 s ++ pd ++ ser_streams (sstreams s) ++ crc s ++ ST).
  { rewrite ser_sec_first12. rewrite <- !app_assoc. reflexivity. }
  rewrite PL.
  rewrite slice_prefix by reflexivity. cbn [bind].
  assert (I10: idx (first12 s ++ pd ++ ser_streams (sstreams s) ++ crc s ++ ST) 10 = Ok (240 + pil / 256)) by reflexivity.
  assert (I11: idx (first12 s ++ pd ++ ser_streams (sstreams s) ++ crc s ++ ST) 11 = Ok (pil mod 256)) by reflexivity.
  rewrite I10, I11. cbn [bind]. rewrite field_240 by lia.
  replace (sub16 (w16 (3 + sec_len s)) 4) with (sec_len s - 1) by (unfold sub16, w16; lia).
  rewrite (w16_small (12 + pil)) by lia.
  assert (SLE: sec_len s = 13 + pil + len (ser_streams (sstreams s))) by (unfold sec_len; fold pd in LBD; fold pil in LBD; lia).
  replace (sec_len s - 1 <? 12 + pil) with false by lia.
  assert (PINFO: (if pil =? 0 then Ok [] else slice (first12 s ++ pd ++ ser_streams (sstreams s) ++ crc s ++ ST) 12 (12 + pil)) = Ok pd).
  { destruct (N.eqb_spec pil 0) as [Z|NZ]; [f_equal; symmetry; apply len_0_nil; exact Z|].
    apply slice_mid; [reflexivity|rewrite len_first12; reflexivity]. }
  rewrite PINFO. cbn [bind]. rewrite stream_bound_eq by lia.
  (* the copy loop *)
  assert (L12: len (first12 s ++ pd) = 12 + pil) by (rewrite len_app, len_first12; reflexivity).
  replace (first12 s ++ pd ++ ser_streams (sstreams s) ++ crc s ++ ST)
    with ((first12 s ++ pd) ++ ser_streams (sstreams s) ++ (crc s ++ ST)) by (rewrite <- !app_assoc; reflexivity).
  rewrite <- L12.
  rewrite (filter_streams_ok W (sstreams s)); try assumption.
  2:{ rewrite L12. lia. }
  2:{ rewrite len_app, Hcrc. lia. }
  2:{ rewrite L12. lia. }
  2:{ rewrite L12. lia. }
  2:{ pose proof (ser_streams_count (sstreams s)). rewrite !app_length. unfold len in *. lia. }
  cbn [bind].
  set (kept := ser_streams (keep_streams W (sstreams s))).
  pose proof (len_keep_streams W (sstreams s)) as LK. fold kept in LK.
  set (s' := filtered_sec s W).
  assert (SL': sec_len s' = 13 + pil + len kept).
  { unfold sec_len, s', filtered_sec. rewrite len_sec_body. cbn [pdescs sstreams with_streams_crc]. fold pd pil kept. lia. }
  (* the buffer, with the old section_length still in place *)
  set (o1 := 176 + sec_len s / 256). set (o2 := sec_len s mod 256).
  set (TAILF := sec_fixed s ++ pd ++ kept).
  assert (FB: (HEAD ++ first12 s ++ pd) ++ kept = (HEAD ++ [2]) ++ o1 :: o2 :: TAILF).
  { unfold first12, TAILF. rewrite <- !app_assoc. reflexivity. }
  rewrite FB.
  assert (LF: len ((HEAD ++ [2]) ++ o1 :: o2 :: TAILF) = pf c + 1 + 12 + pil + len kept).
  { rewrite <- FB. rewrite !len_app, LH, len_first12. lia. }
  rewrite LF.
  replace (pf c + 1 + 12 + pil + len kept - (pf c + 1 - 1)) with (sec_len s') by lia.
  rewrite (w16_small (sec_len s')) by lia.
  assert (LH2: len (HEAD ++ [2]) = pf c + 1 + 1) by (rewrite len_app, LH; reflexivity).
  rewrite idx_app_r by (symmetry; exact LH2). cbn [bind].
  rewrite set_idx_app_cons by (symmetry; exact LH2). cbn [bind].
  unfold o1. rewrite patch_byte by lia.
  replace ((HEAD ++ [2]) ++ 176 + sec_len s' / 256 :: o2 :: TAILF)
    with ((HEAD ++ [2; 176 + sec_len s' / 256]) ++ o2 :: TAILF) by (rewrite <- !app_assoc; reflexivity).
  rewrite set_idx_app_cons by (rewrite len_app, LH; reflexivity). cbn [bind].
  assert (F2: (HEAD ++ [2; 176 + sec_len s' / 256]) ++ sec_len s' mod 256 :: TAILF = HEAD ++ ser_sec_nocrc s').
  { unfold ser_sec_nocrc, sec_head, sec_body, TAILF, s', filtered_sec. cbn [pdescs sstreams with_streams_crc].
    rewrite <- !app_assoc. reflexivity. }
  rewrite F2. rewrite slice_from_app by (symmetry; exact LH). cbn [bind].
  rewrite (repacketise_spec _ _ _ HD). cbn [bind]. f_equal. f_equal. f_equal. f_equal.
  unfold ser_unit. cbn [pf pre sec ser_pre flat_map app]. fold HEAD. rewrite <- app_assoc. reflexivity.
Qed.
End Filter.

(* ---------- the three-way error contract in terms of missing_of ---------- *)
Lemma filter_length_le {A} (f : A -> bool) l : (length (filter f l) <= length l)%nat.
Proof. induction l as [|a t IH]; [reflexivity|]. cbn [filter]. destruct (f a); cbn [length]; lia. Qed.
Lemma filter_length_all {A} (f : A -> bool) l : length (filter f l) = length l <-> (forall x, In x l -> f x = true).
Proof. induction l as [|a t IH]; [split; [intros _ x []|reflexivity]|]. cbn [filter]. destruct (f a) eqn:E; cbn [length].
  - split.
    + intros H x [<-|Hx]; [exact E|]. apply IH; [lia|exact Hx].
    + intros H. f_equal. apply IH. intros x Hx. apply H. right. exact Hx.
  - pose proof (filter_length_le f t) as LE0. split; [lia|]. intros H. specialize (H a (or_introl eq_refl)). congruence. Qed.
Lemma filter_nil_iff {A} (f : A -> bool) l : filter f l = [] <-> (forall x, In x l -> f x = false).
Proof. induction l as [|a t IH]; [split; [intros _ x []|reflexivity]|]. cbn [filter]. destruct (f a) eqn:E.
  - split; [discriminate|]. intros H. specialize (H a (or_introl eq_refl)). congruence.
  - rewrite IH. split; [intros H x [<-|Hx]; [exact E|apply H; exact Hx]|intros H x Hx; apply H; right; exact Hx]. Qed.

Lemma in_considered pmt_pid want x : In x (considered pmt_pid want) <-> In x want /\ x <> 0 /\ x <> pmt_pid.
Proof. unfold considered. rewrite filter_In, andb_true_iff, !negb_true_iff, !N.eqb_neq. tauto. Qed.
Lemma not_have_iff have x : negb (existsb (N.eqb x) have) = true <-> ~ In x have.
Proof. rewrite negb_true_iff. split.
  - intros E H. assert (existsb (N.eqb x) have = true) by (apply existsb_exists; exists x; split; [exact H|apply N.eqb_refl]). congruence.
  - intros H. destruct (existsb (N.eqb x) have) eqn:E; [|reflexivity]. exfalso. apply H.
    apply existsb_exists in E. destruct E as (y & Hy & E). apply N.eqb_eq in E. subst. exact Hy. Qed.
(* no error exactly when every considered PID (requested, not the PAT / PMT PID) is in the PMT *)
Lemma missing_nil_iff have pmt_pid want :
  missing_of have pmt_pid want = [] <-> (forall x, In x (considered pmt_pid want) -> In x have).
Proof. unfold missing_of. rewrite filter_nil_iff. split; intros H x Hx.
  - specialize (H x Hx). destruct (existsb (N.eqb x) have) eqn:E; [|discriminate].
    apply existsb_exists in E. destruct E as (y & Hy & E). apply N.eqb_eq in E. subst. exact Hy.
  - apply negb_false_iff. apply existsb_exists. exists x. split; [exact (H x Hx)|apply N.eqb_refl]. Qed.
(* every considered PID (with multiplicity) is missing *)
Lemma missing_all_iff have pmt_pid want :
  len (missing_of have pmt_pid want) = len (considered pmt_pid want) <-> (forall x, In x (considered pmt_pid want) -> ~ In x have).
Proof. unfold missing_of, len. rewrite Nat2N.inj_iff, filter_length_all. split; intros H x Hx; apply not_have_iff; apply H; exact Hx. Qed.
Lemma none_present_iff have pmt_pid want :
  none_present have pmt_pid want = true <->
  considered pmt_pid want <> [] /\ (forall x, In x (considered pmt_pid want) -> ~ In x have).
Proof. unfold none_present. rewrite andb_true_iff, N.ltb_lt, N.eqb_eq, missing_all_iff. split.
  - intros [L A]. split; [|exact A]. intros E. unfold missing_of in L. rewrite E in L. cbn in L. lia.
  - intros [NE A]. split; [|exact A]. apply missing_all_iff in A. rewrite A.
    destruct (considered pmt_pid want); [congruence|]. rewrite len_cons. lia. Qed.

(* capacity: the original packets have room for the (shorter) filtered payload *)
Lemma hdrs_capacity pid : forall l first, all_mine l -> Forall (wf_item pid) l ->
  fold_right (fun h acc => (188 - len h) + acc) 0 (hdrs_of pid first l) = len (concat (chunks l)) /\
  Forall (fun h => len h <= 188) (hdrs_of pid first l).
Proof. induction l as [|it t IH]; intros first AM WI; [split; [reflexivity|constructor]|].
  inversion AM as [|? ? A1 AM']; inversion WI as [|? ? W1 WI']; subst. destruct it as [p|m af ch]; [contradiction|].
  cbn [hdrs_of chunks concat fold_right]. cbn [wf_item] in W1. destruct (IH false AM' WI') as [I1 I2].
  pose proof (hdr_of_len pid first m af ch W1). rewrite I1, len_app. split; [lia|constructor; [lia|exact I2]]. Qed.

Theorem filter_payload c pid items want :
  wf_carrier c -> pre c = [] -> all_mine items -> Forall (wf_item pid) items ->
  concat (chunks items) = ser_payload c ->
  let c' := {| pf := pf c; pre := []; sec := filtered_sec (sec c) want; stuffing := 0 |} in
  let hdrs := hdrs_of pid true items in
  let out := spec_repack hdrs (ser_unit c') in
  exists k, concat (map (fun hp => dropN (len (fst hp)) (snd hp)) (combine hdrs out)) = ser_unit c' ++ repeatN 255 k.
Proof. intros WC PR AM WI EQ c' hdrs out. destruct (hdrs_capacity pid items true AM WI) as [CAP HL].
  apply spec_repack_payload; [exact HL|]. fold hdrs in CAP. rewrite CAP, EQ.
  destruct WC as (_ & _ & WS). pose proof WS as (_ & _ & _ & _ & _ & _ & _ & _ & _ & Hcrc & _).
  set (s' := filtered_sec (sec c) want) in *.
  assert (C4: len (crc s') = 4) by reflexivity.
  assert (L1: len (ser_unit c') = 1 + pf c + (3 + sec_len s')).
  { unfold ser_unit, c'. cbn [pf pre sec ser_pre flat_map app]. rewrite ?len_cons, ?len_app, ?len_repeatN, ?(len_ser_sec s' C4). lia. }
  assert (L2: len (ser_payload c) = 1 + pf c + (3 + sec_len (sec c)) + stuffing c).
  { unfold ser_payload, ser_unit. rewrite PR. cbn [ser_pre flat_map app].
    rewrite ?len_cons, ?len_app, ?len_repeatN, ?len_app, ?len_repeatN, ?(len_ser_sec (sec c) Hcrc). lia. }
  rewrite L1, L2. unfold sec_len. rewrite !len_sec_body. unfold s', filtered_sec. cbn [pdescs sstreams with_streams_crc].
  pose proof (len_keep_streams want (sstreams (sec c))). lia. Qed.

(* the filtered section is well-formed, so C06 L2 applies to the filter's output payload *)
Lemma keep_streams_wf want ss : Forall wf_es ss -> Forall wf_es (keep_streams want ss).
Proof. intros H. unfold keep_streams. apply Forall_forall. intros e He. apply filter_In in He. destruct He as [He _].
  rewrite Forall_forall in H. apply H. exact He. Qed.
Lemma is_bytes_to_be32 x : is_bytes (to_be32 x).
Proof. unfold to_be32, is_bytes. repeat constructor; unfold is_byte; lia. Qed.
Lemma filtered_sec_wf s want : wf_sec s -> wf_sec (filtered_sec s want).
Proof. intros (Hprog & Hver & Hsn & Hln & Hpcr & Hpd & Hpil & Hss & Hsl & Hcrc & Hcb).
  unfold wf_sec, filtered_sec. cbn [prog sversion secno lastno pcr_pid pdescs sstreams crc with_streams_crc].
  repeat split; try assumption.
  - apply keep_streams_wf. exact Hss.
  - unfold sec_len in *. rewrite !len_sec_body in *. cbn [pdescs sstreams with_streams_crc]. pose proof (len_keep_streams want (sstreams s)). lia.
  - apply is_bytes_to_be32. Qed.
Theorem filtered_decodes c want : wf_carrier c -> pre c = [] ->
  new_pmt (ser_unit {| pf := pf c; pre := []; sec := filtered_sec (sec c) want; stuffing := 0 |})
  = Ok {| pids := map epid (keep_streams want (sstreams (sec c))); streams := keep_streams want (sstreams (sec c));
          version := sversion (sec c); cni := scni (sec c) |}.
Proof. intros (Hpf & _ & WS) PR.
  set (c' := {| pf := pf c; pre := []; sec := filtered_sec (sec c) want; stuffing := 0 |}).
  assert (W': wf_carrier c') by (split; [exact Hpf|split; [apply Forall_nil|apply filtered_sec_wf; exact WS]]).
  pose proof (parse_tables_ok c' W') as K. unfold ser_payload in K. cbn [stuffing c'] in K.
  change (repeatN 255 0) with (@nil N) in K. rewrite app_nil_r in K. exact K. Qed.
Theorem pids_agree_decoded c x : wf_carrier c ->
  exists p, new_pmt (ser_payload c) = Ok p /\ pids p = map epid (streams p) /\
            (pid_exists p x = true <-> In x (map epid (sstreams (sec c)))).
Proof. intros W. eexists. split; [apply parse_tables_ok; exact W|]. split; [reflexivity|].
  unfold pid_exists. cbn [pids sec_result]. rewrite existsb_exists. split.
  - intros (y & Hy & E). apply N.eqb_eq in E. subst. exact Hy.
  - intros H. exists x. split; [exact H|apply N.eqb_refl]. Qed.

(* ---------- non-vacuity: the three-stream example section of C06 without the preceding section, in two packets;
   requested: one present PID, one absent PID, the PAT PID ---------- *)
Definition exf_carrier : carrier := {| pf := 1; pre := []; sec := ex_sec; stuffing := 2 |}.
Definition exf_payload : bytes := ser_payload exf_carrier.
Definition exf_items : list item :=
  [ Mine k1_misc (ex_af 153) (takeN 30 exf_payload);
    Mine k1_misc (ex_af (183 - (len exf_payload - 30))) (dropN 30 exf_payload) ].

Lemma exf_wf : wf_carrier exf_carrier.
Proof. destruct ex_wf as (_ & _ & W). split; [cbn; lia|]. split; [constructor|exact W]. Qed.
Lemma exf_items_wf : Forall (wf_item 481) exf_items.
Proof. unfold exf_items.
  apply Forall_cons; [apply ex_mine; [lia|vm_compute; reflexivity|vm_compute; reflexivity]|].
  apply Forall_cons; [apply ex_mine; [vm_compute; discriminate|vm_compute; reflexivity|vm_compute; reflexivity]|].
  constructor. Qed.
Example filter_nonvacuous :
  wf_carrier exf_carrier /\ pre exf_carrier = [] /\ all_mine exf_items /\ Forall (wf_item 481) exf_items /\
  concat (chunks exf_items) = ser_payload exf_carrier /\
  missing_of (map epid (sstreams (sec exf_carrier))) 481 [258; 9; 0] = [9] /\
  map epid (sstreams (filtered_sec (sec exf_carrier) [258; 9; 0])) = [258] /\
  exists out, filter_pmt_packets (ser_items 481 true exf_items) [258; 9; 0] = Ok (Some out, Some [9]) /\ length out = 2%nat.
Proof. split; [exact exf_wf|]. split; [reflexivity|]. split; [repeat constructor|]. split; [exact exf_items_wf|].
  split; [vm_compute; reflexivity|]. split; [vm_compute; reflexivity|]. split; [vm_compute; reflexivity|].
  eexists. split; [vm_compute; reflexivity|reflexivity]. Qed.

(* every output packet is 188 bytes long and begins with the header of the input packet at the same position *)
Lemma spec_repack_shape : forall hdrs data, Forall (fun h => len h <= 188) hdrs ->
  (length (spec_repack hdrs data) <= length hdrs)%nat /\
  Forall2 (fun h p => len p = 188 /\ takeN (len h) p = h) (firstn (length (spec_repack hdrs data)) hdrs) (spec_repack hdrs data).
Proof. induction hdrs as [|h t IH]; intros data H; [split; [cbn; lia|constructor]|].
  inversion H as [|? ? Hl Ht]; subst. cbn [spec_repack]. destruct data as [|b d']; [split; [cbn; lia|constructor]|].
  set (data := b :: d'). set (room := 188 - len h). destruct (IH (dropN room data) Ht) as [I1 I2].
  cbn [length firstn]. split; [lia|]. constructor; [|exact I2]. split.
  - rewrite !len_app, len_repeatN, len_takeN. unfold room. lia.
  - apply takeN_app. reflexivity. Qed.

(* requesting every PID of the PMT keeps every stream: the output section is the input section with the CRC recomputed *)
Lemma keep_streams_all want ss : (forall e, In e ss -> In (epid e) want) -> keep_streams want ss = ss.
Proof. intros H. unfold keep_streams. induction ss as [|e t IH]; [reflexivity|]. cbn [filter].
  assert (E: existsb (N.eqb (epid e)) want = true).
  { apply existsb_exists. exists (epid e). split; [apply H; left; reflexivity|apply N.eqb_refl]. }
  rewrite E. f_equal. apply IH. intros x Hx. apply H. right. exact Hx. Qed.
Theorem filtered_sec_all s want : (forall e, In e (sstreams s) -> In (epid e) want) ->
  ser_sec_nocrc (filtered_sec s want) = ser_sec_nocrc s /\
  crc (filtered_sec s want) = crc_model (ser_sec_nocrc s).
Proof. intros H. unfold filtered_sec. rewrite (keep_streams_all want (sstreams s) H). split; reflexivity. Qed.

(* ---------- the contract in the property's words (corollaries of filter_ok) ---------- *)
Section Contract.
Variables (c : carrier) (pid : N) (items : list item) (want : list N).
Hypothesis WC : wf_carrier c.
Hypothesis PR : pre c = [].
Hypothesis AM : all_mine items.
Hypothesis WI : Forall (wf_item pid) items.
Hypothesis EQ : concat (chunks items) = ser_payload c.
Hypothesis WN : want <> [].
Let have := map epid (sstreams (sec c)).
Let out := spec_repack (hdrs_of pid true items)
             (ser_unit {| pf := pf c; pre := []; sec := filtered_sec (sec c) want; stuffing := 0 |}).

(* every considered PID is in the PMT: packets, no error (this includes the corner where NO PID is considered) *)
Theorem filter_all_present : (forall x, In x (considered pid want) -> In x have) ->
  filter_pmt_packets (ser_items pid true items) want = Ok (Some out, None).
Proof. intros H. rewrite (filter_ok c pid items want WC PR AM WI EQ WN). cbv zeta. fold have.
  apply missing_nil_iff in H. unfold none_present. rewrite H. reflexivity. Qed.

(* the corner stated explicitly: only the PAT PID and / or the PMT PID requested: packets and no error; the emitted PMT
   keeps exactly the streams whose PID was requested, i.e. none unless a stream uses PID 0 or the PMT's own PID *)
Theorem filter_only_ignored : considered pid want = [] ->
  filter_pmt_packets (ser_items pid true items) want = Ok (Some out, None) /\
  ((forall e, In e (sstreams (sec c)) -> epid e <> 0 /\ epid e <> pid) -> sstreams (filtered_sec (sec c) want) = []).
Proof. intros E. split.
  - apply filter_all_present. rewrite E. intros x [].
  - intros NS. cbn [filtered_sec sstreams with_streams_crc]. unfold keep_streams. apply filter_nil_iff. intros e He.
    destruct (existsb (N.eqb (epid e)) want) eqn:X; [|reflexivity]. exfalso.
    apply existsb_exists in X. destruct X as (y & Hy & Ey). apply N.eqb_eq in Ey. subst y.
    destruct (NS e He) as [N0 NP].
    assert (In (epid e) (considered pid want)) by (apply in_considered; repeat split; assumption).
    rewrite E in H. exact H. Qed.

(* at least one PID is considered and none of the considered ones is in the PMT: no packets, error naming all of them *)
Theorem filter_none_present : considered pid want <> [] -> (forall x, In x (considered pid want) -> ~ In x have) ->
  filter_pmt_packets (ser_items pid true items) want = Ok (None, Some (considered pid want)).
Proof. intros NE H. rewrite (filter_ok c pid items want WC PR AM WI EQ WN). cbv zeta. fold have.
  assert (NP: none_present have pid want = true) by (apply none_present_iff; split; assumption).
  rewrite NP.
  assert (M: missing_of have pid want = considered pid want).
  { unfold missing_of. apply filter_all_true. intros x Hx. apply not_have_iff. exact (H x Hx). }
  rewrite M. reflexivity. Qed.

(* some but not all considered PIDs are in the PMT: packets AND an error naming exactly the missing ones, in request order *)
Theorem filter_some_present :
  (exists x, In x (considered pid want) /\ In x have) -> (exists x, In x (considered pid want) /\ ~ In x have) ->
  exists missing, missing <> [] /\ missing = missing_of have pid want /\
    filter_pmt_packets (ser_items pid true items) want = Ok (Some out, Some missing).
Proof. intros (x1 & I1 & R1) (x2 & I2 & R2). exists (missing_of have pid want).
  assert (NN: missing_of have pid want <> []).
  { intros E. rewrite missing_nil_iff in E. exact (R2 (E x2 I2)). }
  assert (NP: none_present have pid want = false).
  { destruct (none_present have pid want) eqn:E; [|reflexivity]. apply none_present_iff in E. destruct E as [_ A].
    exfalso. exact (A x1 I1 R1). }
  split; [exact NN|]. split; [reflexivity|].
  rewrite (filter_ok c pid items want WC PR AM WI EQ WN). cbv zeta. fold have. rewrite NP.
  destruct (missing_of have pid want); [congruence|reflexivity]. Qed.
End Contract.
