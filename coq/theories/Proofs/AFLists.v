(* Generic facts about the byte-list primitives of Base/Prelude (nthN, slice, upd, blit) on lists written
   as concatenations; positions are given as equations so that `lia` can discharge them. *)
From Gots Require Import Base.Prelude.

Lemma len_nil {A} : len (@nil A) = 0. Proof. reflexivity. Qed.
Lemma len_cons {A} (x : A) l : len (x :: l) = 1 + len l.
Proof. unfold len. cbn [length]. lia. Qed.
Lemma len_app {A} (a b : list A) : len (a ++ b) = len a + len b.
Proof. unfold len. rewrite app_length. lia. Qed.
Lemma len_repeatN {A} (x : A) n : len (repeatN x n) = n.
Proof. unfold len, repeatN. rewrite repeat_length. lia. Qed.
Lemma len_length {A} (l : list A) n : length l = n -> len l = N.of_nat n.
Proof. intros <-. reflexivity. Qed.

Lemma takeN_app {A} (a b : list A) n : n = len a -> takeN n (a ++ b) = a.
Proof. intros ->. unfold takeN, len. rewrite Nat2N.id.
  rewrite firstn_app, Nat.sub_diag, firstn_all. cbn. apply app_nil_r. Qed.
Lemma dropN_app {A} (a b : list A) n : n = len a -> dropN n (a ++ b) = b.
Proof. intros ->. unfold dropN, len. rewrite Nat2N.id.
  rewrite skipn_app, Nat.sub_diag, skipn_all. reflexivity. Qed.
Lemma takeN_dropN {A} (l : list A) n : takeN n l ++ dropN n l = l.
Proof. apply firstn_skipn. Qed.
Lemma len_takeN {A} (l : list A) n : n <= len l -> len (takeN n l) = n.
Proof. unfold len, takeN. intros H. rewrite firstn_length. lia. Qed.
Lemma len_dropN {A} (l : list A) n : len (dropN n l) = len l - n.
Proof. unfold len, dropN. rewrite skipn_length. lia. Qed.
Lemma dropN_app_ge {A} (a b : list A) n : len a <= n -> dropN n (a ++ b) = dropN (n - len a) b.
Proof. unfold dropN, len. intros H. rewrite skipn_app.
  rewrite skipn_all2 by lia. cbn [app]. f_equal. lia. Qed.
Lemma takeN_app_le {A} (a b : list A) n : n <= len a -> takeN n (a ++ b) = takeN n a.
Proof. unfold takeN, len. intros H. rewrite firstn_app.
  replace (N.to_nat n - length a)%nat with 0%nat by lia. cbn. apply app_nil_r. Qed.
Lemma dropN_app_le {A} (a b : list A) n : n <= len a -> dropN n (a ++ b) = dropN n a ++ b.
Proof. unfold dropN, len. intros H. rewrite skipn_app.
  replace (N.to_nat n - length a)%nat with 0%nat by lia. reflexivity. Qed.
Lemma dropN_repeatN {A} (x : A) n d : dropN d (repeatN x n) = repeatN x (n - d).
Proof. unfold dropN, repeatN. revert d. 
  assert (G: forall (k m : nat), skipn m (repeat x k) = repeat x (k - m)).
  { induction k; intros [|m]; cbn; auto. }
  intros d. rewrite G. f_equal. lia. Qed.
Lemma takeN_repeatN {A} (x : A) n d : d <= n -> takeN d (repeatN x n) = repeatN x d.
Proof. unfold takeN, repeatN. intros H.
  assert (G: forall (k m : nat), (m <= k)%nat -> firstn m (repeat x k) = repeat x m).
  { induction k; intros [|m] Hm; cbn; auto; try lia. f_equal. apply IHk. lia. }
  apply G. lia. Qed.
Lemma dropN_dropN {A} (l : list A) d m : dropN m (dropN d l) = dropN (d + m) l.
Proof. unfold dropN. rewrite N2Nat.inj_add. generalize (N.to_nat d) as a, (N.to_nat m) as b.
  intros a. revert l. induction a; intros l b; [reflexivity|]. destruct l; cbn.
  - destruct b; reflexivity.
  - apply IHa. Qed.
Lemma repeatN_add {A} (x : A) a b : repeatN x (a + b) = repeatN x a ++ repeatN x b.
Proof. unfold repeatN. rewrite N2Nat.inj_add. apply repeat_app. Qed.
Lemma repeatN_0 {A} (x : A) : repeatN x 0 = []. Proof. reflexivity. Qed.

(* ---- reads ---- *)
Lemma nthN_app_r (a b : bytes) i k : i = len a + k -> nthN (a ++ b) i = nthN b k.
Proof. intros ->. unfold nthN, len. rewrite app_nth2 by lia. f_equal. lia. Qed.
Lemma nthN_app_l (a b : bytes) i : i < len a -> nthN (a ++ b) i = nthN a i.
Proof. unfold nthN, len. intros H. apply app_nth1. lia. Qed.
Lemma nthN_at (a : bytes) x r i : i = len a -> nthN (a ++ x :: r) i = x.
Proof. intros ->. rewrite (nthN_app_r a (x :: r) (len a) 0) by lia. reflexivity. Qed.
Lemma idx_nthN (l : bytes) i : i < len l -> idx l i = Ok (nthN l i).
Proof. unfold idx, nthN, len. intros H.
  destruct (nth_error l (N.to_nat i)) eqn:E.
  - f_equal. symmetry. apply nth_error_nth. exact E.
  - apply nth_error_None in E. lia. Qed.
Lemma idx_panic (l : bytes) i : len l <= i -> idx l i = Panic.
Proof. unfold idx, len. intros H. replace (nth_error l (N.to_nat i)) with (@None N); [reflexivity|].
  symmetry. apply nth_error_None. lia. Qed.

Lemma slice_ok (l : bytes) i j : i <= j -> j <= len l -> slice l i j = Ok (takeN (j - i) (dropN i l)).
Proof. intros H1 H2. unfold slice.
  replace (i <=? j) with true by (symmetry; apply N.leb_le; lia).
  replace (j <=? len l) with true by (symmetry; apply N.leb_le; lia). reflexivity. Qed.
Lemma slice_panic (l : bytes) i j : j < i \/ len l < j -> slice l i j = Panic.
Proof. intros H. unfold slice. destruct H.
  - replace (i <=? j) with false by (symmetry; apply N.leb_gt; lia). reflexivity.
  - replace (j <=? len l) with false by (symmetry; apply N.leb_gt; lia). rewrite andb_false_r. reflexivity. Qed.
Lemma slice_mid (a x r : bytes) i j : i = len a -> j = len a + len x -> slice (a ++ x ++ r) i j = Ok x.
Proof. intros -> ->. rewrite slice_ok by (rewrite ?len_app; lia).
  rewrite dropN_app by reflexivity. rewrite takeN_app by lia. reflexivity. Qed.
Lemma len_slice (l : bytes) i j s : slice l i j = Ok s -> len s = j - i.
Proof. unfold slice. destruct (i <=? j) eqn:E1; [|discriminate]. destruct (j <=? len l) eqn:E2; [|discriminate].
  cbn. intros [= <-]. apply N.leb_le in E1, E2. fold (dropN i l). fold (takeN (j - i) (dropN i l)).
  rewrite len_takeN; [reflexivity|]. rewrite len_dropN. lia. Qed.

(* ---- writes ---- *)
Lemma upd_nat_app_r (a b : bytes) k v : upd_nat (a ++ b) (length a + k) v = a ++ upd_nat b k v.
Proof. induction a; cbn; [reflexivity|]. f_equal. apply IHa. Qed.
Lemma upd_app_r (a b : bytes) i k v : i = len a + k -> upd (a ++ b) i v = a ++ upd b k v.
Proof. intros ->. unfold upd, len. replace (N.to_nat (N.of_nat (length a) + k)) with (length a + N.to_nat k)%nat by lia.
  apply upd_nat_app_r. Qed.
Lemma upd_at (a : bytes) x r i v : i = len a -> upd (a ++ x :: r) i v = a ++ v :: r.
Proof. intros ->. rewrite (upd_app_r a (x :: r) (len a) 0) by lia. reflexivity. Qed.
Lemma length_upd (l : bytes) i v : length (upd l i v) = length l.
Proof. unfold upd. generalize (N.to_nat i). induction l; intros [|n]; cbn; auto. Qed.

Lemma blit_nat_app_r (a b : bytes) k y : blit_nat (a ++ b) (length a + k) y = a ++ blit_nat b k y.
Proof. induction a; cbn; [reflexivity|]. f_equal. apply IHa. Qed.
Lemma blit_app_r (a b : bytes) i k y : i = len a + k -> blit (a ++ b) i y = a ++ blit b k y.
Proof. intros ->. unfold blit, len. replace (N.to_nat (N.of_nat (length a) + k)) with (length a + N.to_nat k)%nat by lia.
  apply blit_nat_app_r. Qed.
Lemma blit_nat_0_exact (x r y : bytes) : length y = length x -> blit_nat (x ++ r) 0 y = y ++ r.
Proof. revert y. induction x; intros [|b y] H; cbn in *; try discriminate.
  - destruct r; reflexivity.
  - f_equal. apply IHx. lia. Qed.
Lemma blit_mid (a x r y : bytes) i : i = len a -> len y = len x -> blit (a ++ x ++ r) i y = a ++ y ++ r.
Proof. intros -> H. rewrite (blit_app_r a (x ++ r) (len a) 0) by lia. f_equal.
  unfold blit. cbn. apply blit_nat_0_exact. unfold len in H. lia. Qed.
Lemma blit_nil (l : bytes) i : blit l i [] = l.
Proof. unfold blit. generalize (N.to_nat i). induction l; intros [|n]; cbn; auto. f_equal. apply IHl. Qed.
Lemma length_blit (l : bytes) i y : length (blit l i y) = length l.
Proof. unfold blit. generalize (N.to_nat i). revert y. induction l; intros y [|n]; cbn; auto.
  destruct y; cbn; auto. Qed.

Lemma is_bytes_app (a b : bytes) : is_bytes (a ++ b) <-> is_bytes a /\ is_bytes b.
Proof. apply Forall_app. Qed.
Lemma is_bytes_takeN (l : bytes) n : is_bytes l -> is_bytes (takeN n l).
Proof. unfold is_bytes, takeN. generalize (N.to_nat n) as k. intros k H. revert k.
  induction H; intros [|k]; cbn; constructor; auto. Qed.
Lemma is_bytes_dropN (l : bytes) n : is_bytes l -> is_bytes (dropN n l).
Proof. unfold is_bytes, dropN. generalize (N.to_nat n) as k. intros k H. revert k.
  induction H; intros [|k]; cbn; auto. Qed.
Lemma is_bytes_repeatN n : is_bytes (repeatN 255 n).
Proof. unfold is_bytes, repeatN. apply Forall_forall. intros x Hx. apply repeat_spec in Hx. subst. unfold is_byte. lia. Qed.
Lemma is_bytesb_ok (l : bytes) : is_bytesb l = true -> is_bytes l.
Proof. unfold is_bytesb, is_bytes. intros H. apply Forall_forall. intros x Hx.
  eapply forallb_forall in H; [|exact Hx]. unfold is_byteb in H. unfold is_byte. apply N.ltb_lt. exact H. Qed.
